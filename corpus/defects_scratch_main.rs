use microscpi::{self as scpi, Interface, Adapter, ErrorHandler, Error};
use std::future::Future;
use std::pin::pin;
use std::task::{Context, Poll, RawWaker, RawWakerVTable, Waker};

fn noop_waker() -> Waker {
    fn clone(_: *const ()) -> RawWaker { RawWaker::new(std::ptr::null(), &VT) }
    fn noop(_: *const ()) {}
    static VT: RawWakerVTable = RawWakerVTable::new(clone, noop, noop, noop);
    unsafe { Waker::from_raw(RawWaker::new(std::ptr::null(), &VT)) }
}
fn block_on<F: Future>(f: F) -> F::Output {
    let mut f = pin!(f);
    let w = noop_waker();
    let mut cx = Context::from_waker(&w);
    loop { if let Poll::Ready(v) = f.as_mut().poll(&mut cx) { return v; } }
}

#[derive(Default)]
pub struct T { log: Vec<String>, errs: Vec<i16> }
impl ErrorHandler for T { fn handle_error(&mut self, e: Error) { self.errs.push(e.number()); } }

#[scpi::interface]
impl T {
    #[scpi(cmd = "*IDN?")] async fn idn(&mut self) -> Result<&str, Error> { self.log.push("idn".into()); Ok("MICROSCPI,TEST,1,1.0") }
    #[scpi(cmd = "X")] async fn x(&mut self) -> Result<(), Error> { self.log.push("X".into()); Ok(()) }
    #[scpi(cmd = "BAR")] async fn bar(&mut self) -> Result<(), Error> { self.log.push("BAR".into()); Ok(()) }
    #[scpi(cmd = "BLK")] async fn blk(&mut self, b: &[u8]) -> Result<(), Error> { self.log.push(format!("BLK {:?}", b)); Ok(()) }
    #[scpi(cmd = "STR")] async fn strr(&mut self, b: &str) -> Result<(), Error> { self.log.push(format!("STR {:?}", b)); Ok(()) }
    #[scpi(cmd = "U8?")] async fn u8q(&mut self, b: u8) -> Result<u8, Error> { self.log.push(format!("U8 {}", b)); Ok(b) }
    #[scpi(cmd = "ECHO?")] async fn echo<'a>(&mut self, b: &'a str) -> Result<&'a str, Error> { self.log.push(format!("ECHO {:?}", b)); Ok(b) }
    #[scpi(cmd = "SYSTem:A")] async fn sa(&mut self) -> Result<(), Error> { self.log.push("SYST:A".into()); Ok(()) }
    #[scpi(cmd = "SYSTem:BAR")] async fn sbar(&mut self) -> Result<(), Error> { self.log.push("SYST:BAR".into()); Ok(()) }
    #[scpi(cmd = "SYSTem:BLK")] async fn sblk(&mut self, b: &[u8]) -> Result<(), Error> { self.log.push(format!("SYST:BLK {:?}", b)); Ok(()) }
}

struct Ad { stream: Vec<u8>, pos: usize, sizes: Vec<usize>, i: usize, out: Vec<u8> }
impl Adapter for Ad {
    type Error = ();
    async fn read(&mut self, dst: &mut [u8]) -> Result<usize, ()> {
        if self.pos >= self.stream.len() { return Err(()); }
        let k = if self.i < self.sizes.len() { self.sizes[self.i] } else { usize::MAX }; self.i += 1;
        let n = k.min(dst.len()).min(self.stream.len() - self.pos);
        dst[..n].copy_from_slice(&self.stream[self.pos..self.pos + n]); self.pos += n; Ok(n)
    }
    async fn write(&mut self, src: &[u8]) -> Result<(), ()> { self.out.extend_from_slice(src); Ok(()) }
    async fn flush(&mut self) -> Result<(), ()> { Ok(()) }
}

fn run(input: &[u8]) {
    let mut t = T::default(); let mut out = Vec::new();
    let rest = block_on(t.run(input, &mut out)).len();
    println!("RUN {:?}: log={:?} errs={:?} out={:?} rest={}", String::from_utf8_lossy(input), t.log, t.errs, String::from_utf8_lossy(&out), rest);
}
fn proc<const N: usize>(input: &[u8], sizes: &[usize]) {
    let r = std::panic::catch_unwind(|| {
        let mut t = T::default();
        let mut ad = Ad { stream: input.to_vec(), pos: 0, sizes: sizes.to_vec(), i: 0, out: vec![] };
        let _ = block_on(t.process::<N, _>(&mut ad));
        println!("PROC<{}> {:?} {:?}: log={:?} errs={:?} out={:?}", N, String::from_utf8_lossy(input), sizes, t.log, t.errs, String::from_utf8_lossy(&ad.out));
    });
    if r.is_err() { println!("PROC<{}> {:?}: PANIC", N, String::from_utf8_lossy(input)); }
}
fn main() {
    println!("-- D1"); run(b"FOO\n*IDN?\n"); proc::<64>(b"FOO\n*IDN?\n*IDN?\n", &[4,6,6]);
    println!("-- D2"); proc::<64>(b"STR \"a\nb\"\n", &[]); proc::<64>(b"STR 'a\nb'\n", &[3,3,3,3]);
    println!("-- D3"); proc::<64>(b"SYST:A;BLK #13a\nb\n", &[]); run(b"SYST:A;BLK #13a\nb\n");
    println!("-- D4"); proc::<8>(b"*IDN?\n", &[]);
    println!("-- D5"); proc::<16>(b"U8? 1\nU8? 2\nU8? 3\n", &[]); proc::<16>(b"U8? 1\nU8? 2\nU8? 3\n", &[6,6,6]);
    println!("-- D6"); run(b"ECHO? 'a\"b'\n");
    println!("-- D7"); run(b"SYST:A;:X;BAR\n");
    println!("-- D10"); run(b"BLK #9000000001a\n"); run(b"BLK #11a\n");
    println!("-- D11"); run(b"SYST:A;\nBAR\n");
}
