#!/usr/bin/env python3
"""Rebuilds props.json: every `theorem` declared in Scpi/Props/*.lean, keyed by the
property namespace (Scpi.Cxx) it is declared in."""
import json, os, re, sys
sys.path.insert(0, os.path.join(os.path.dirname(os.path.abspath(__file__)), '..'))
from vlib.common import strip_comments
here = os.path.dirname(os.path.abspath(__file__))
reg = {}
# the message-level refinement theorem (namespace Scpi.Msg) is the core of the path rule (C02) and of lexical irrelevance (C11)
SHARED = {'Scpi.Props.RunRender': ['C02', 'C11']}
for fn in sorted(os.listdir(os.path.join(here, 'Scpi', 'Props'))):
    if not fn.endswith('.lean'):
        continue
    mod = 'Scpi.Props.' + fn[:-5]
    ns = []
    depth_comment = 0
    for line in strip_comments(open(os.path.join(here, 'Scpi', 'Props', fn)).read()).split('\n'):
        s = line.strip()
        m = re.match(r'^namespace\s+(\S+)', s)
        if m:
            ns.append(m.group(1)); continue
        m = re.match(r'^end\s+(\S+)', s)
        if m and ns and ns[-1].split('.')[-1] == m.group(1).split('.')[-1]:
            ns.pop(); continue
        m = re.match(r'^(?:protected\s+|private\s+)?theorem\s+(\S+)', line)
        if m:
            full = '.'.join(ns + [m.group(1)])
            pm = re.search(r'\bC(\d\d)\b', full)
            # theorems outside a property namespace serve the properties listed for their module
            targets = ['C' + pm.group(1)] if pm else SHARED.get(mod, [])
            for prop in targets:
                e = reg.setdefault(prop, {'modules': [], 'theorems': []})
                if mod not in e['modules']:
                    e['modules'].append(mod)
                e['theorems'].append(full)
json.dump(reg, open(os.path.join(here, 'props.json'), 'w'), indent=1)
print({k: len(v['theorems']) for k, v in sorted(reg.items())})
