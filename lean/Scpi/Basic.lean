/-
Basic definitions of the executable model of microscpi:
bytes, errors (error.rs), parse results and the parser combinators that mirror
Rust's `?`, `optional`, `or_else`, `map_err` and the repaired `or_next`
(parser.rs:9-135).

Bytes are `Nat` (every theorem then holds for a superset of byte strings and the
character classes are linear arithmetic).  Model files import nothing outside
core so that the driver links as a `lean_exe`.
-/
namespace Scpi

abbrev Bytes := List Nat

/-- All variants of `microscpi::Error` except `Custom`, in the order of the
`number()` match in error.rs. -/
inductive StdErr where
  | CommandError | InvalidCharacter | SyntaxError | InvalidSeparator | DataTypeError
  | GetNotAllowed | ParameterNotAllowed | MissingParameter | CommandHeaderError
  | HeaderSeparatorError | ProgramMnemonicTooLong | UndefinedHeader | HeaderSuffixOutOfRange
  | UnexpectedNumberOfParameters | NumericDataError | InvalidCharacterInNumber
  | ExponentTooLarge | TooManyDigits | NumericDataNotAllowed | SuffixError | InvalidSuffix
  | SuffixTooLong | SuffixNotAllowed | CharacterDataError | InvalidCharacterData
  | CharacterDataTooLong | CharacterNotAllowed | StringDataError | InvalidStringData
  | StringDataNotAllowed | BlockDataError | InvalidBlockData | BlockDataNotAllowed
  | ExpressionError | InvalidExpression | ExpressionDataNotAllowed | ExecutionError
  | InvalidWhileInLocal | CommandProtected | ParameterError | TriggerError | SettingsConflict
  | DataOutOfRange | TooMuchData | IllegalParameterValue | OutOfMemory | ListsNotSameLength
  | DataCorruptOrStale | HardwareError | DeviceSpecificError | SystemError | StorageFault
  | SelfTestFailed | CalibrationFailed | QueueOverflow | CommunicationError
  | InputBufferOverrun | TimeoutError | QueryError
  deriving DecidableEq, Repr, Inhabited

namespace StdErr

/-- `Error::number` (error.rs). -/
def number : StdErr → Int
  | CommandError => -100 | InvalidCharacter => -101 | SyntaxError => -102
  | InvalidSeparator => -103 | DataTypeError => -104 | GetNotAllowed => -105
  | ParameterNotAllowed => -108 | MissingParameter => -109 | CommandHeaderError => -110
  | HeaderSeparatorError => -111 | ProgramMnemonicTooLong => -112 | UndefinedHeader => -113
  | HeaderSuffixOutOfRange => -114 | UnexpectedNumberOfParameters => -115
  | NumericDataError => -120 | InvalidCharacterInNumber => -121 | ExponentTooLarge => -123
  | TooManyDigits => -124 | NumericDataNotAllowed => -128 | SuffixError => -130
  | InvalidSuffix => -131 | SuffixTooLong => -134 | SuffixNotAllowed => -138
  | CharacterDataError => -140 | InvalidCharacterData => -141 | CharacterDataTooLong => -144
  | CharacterNotAllowed => -148 | StringDataError => -150 | InvalidStringData => -151
  | StringDataNotAllowed => -158 | BlockDataError => -160 | InvalidBlockData => -161
  | BlockDataNotAllowed => -168 | ExpressionError => -170 | InvalidExpression => -171
  | ExpressionDataNotAllowed => -178 | ExecutionError => -200 | InvalidWhileInLocal => -201
  | CommandProtected => -203 | ParameterError => -220 | TriggerError => -210
  | SettingsConflict => -221 | DataOutOfRange => -222 | TooMuchData => -223
  | IllegalParameterValue => -224 | OutOfMemory => -225 | ListsNotSameLength => -226
  | DataCorruptOrStale => -230 | HardwareError => -240 | DeviceSpecificError => -300
  | SystemError => -310 | StorageFault => -320 | SelfTestFailed => -330
  | CalibrationFailed => -340 | QueueOverflow => -350 | CommunicationError => -360
  | InputBufferOverrun => -363 | TimeoutError => -365 | QueryError => -400

/-- `impl From<Error> for &str` (error.rs). -/
def describe : StdErr → String
  | CommandError => "Command error" | InvalidCharacter => "Invalid character"
  | SyntaxError => "Syntax Error" | UndefinedHeader => "Undefined header"
  | HeaderSuffixOutOfRange => "Header suffix out of range"
  | InvalidCharacterInNumber => "Invalid character in number"
  | InvalidCharacterData => "Invalid character data" | ExecutionError => "Execution error"
  | QueryError => "Query error"
  | UnexpectedNumberOfParameters => "Unexpected number of parameters"
  | InvalidSeparator => "Invalid separator" | DataTypeError => "Data type error"
  | ParameterNotAllowed => "Parameter not allowed" | MissingParameter => "Missing parameter"
  | SystemError => "System error" | QueueOverflow => "Queue overflow"
  | CommandHeaderError => "Command header error"
  | HeaderSeparatorError => "Header separator error"
  | ProgramMnemonicTooLong => "Program mnemonic too long"
  | NumericDataError => "Numeric data error" | ExponentTooLarge => "Exponent too large"
  | TooManyDigits => "Too many digits" | NumericDataNotAllowed => "Numeric data not allowed"
  | InvalidWhileInLocal => "Invalid while in local" | CommandProtected => "Command protected"
  | TriggerError => "Trigger error" | ParameterError => "Parameter error"
  | SettingsConflict => "Settings conflict" | DataOutOfRange => "Data out of range"
  | TooMuchData => "Too much data" | IllegalParameterValue => "Illegal parameter value"
  | HardwareError => "Hardware error" | DeviceSpecificError => "Device specific error"
  | StorageFault => "Storage fault" | SelfTestFailed => "Self test failed"
  | CalibrationFailed => "Calibration failed" | CommunicationError => "Communication error"
  | InputBufferOverrun => "Input buffer overrun" | TimeoutError => "Timeout error"
  | GetNotAllowed => "Get not allowed" | SuffixError => "Suffix error"
  | InvalidSuffix => "Invalid suffix" | SuffixTooLong => "Suffix too long"
  | SuffixNotAllowed => "Suffix not allowed" | CharacterDataError => "Character data error"
  | CharacterDataTooLong => "Character data too long"
  | CharacterNotAllowed => "Character not allowed" | StringDataError => "String data error"
  | InvalidStringData => "Invalid string data" | StringDataNotAllowed => "String data not allowed"
  | BlockDataError => "Block data error" | InvalidBlockData => "Invalid block data"
  | BlockDataNotAllowed => "Block data not allowed" | ExpressionError => "Expression error"
  | InvalidExpression => "Invalid expression"
  | ExpressionDataNotAllowed => "Expression data not allowed" | OutOfMemory => "Out of memory"
  | ListsNotSameLength => "Lists not same length"
  | DataCorruptOrStale => "Data corrupt or stale"

/-- Every standard error, in the order of the `number()` match. -/
def all : List StdErr :=
  [CommandError, InvalidCharacter, SyntaxError, InvalidSeparator, DataTypeError, GetNotAllowed,
   ParameterNotAllowed, MissingParameter, CommandHeaderError, HeaderSeparatorError,
   ProgramMnemonicTooLong, UndefinedHeader, HeaderSuffixOutOfRange, UnexpectedNumberOfParameters,
   NumericDataError, InvalidCharacterInNumber, ExponentTooLarge, TooManyDigits,
   NumericDataNotAllowed, SuffixError, InvalidSuffix, SuffixTooLong, SuffixNotAllowed,
   CharacterDataError, InvalidCharacterData, CharacterDataTooLong, CharacterNotAllowed,
   StringDataError, InvalidStringData, StringDataNotAllowed, BlockDataError, InvalidBlockData,
   BlockDataNotAllowed, ExpressionError, InvalidExpression, ExpressionDataNotAllowed,
   ExecutionError, InvalidWhileInLocal, CommandProtected, ParameterError, TriggerError,
   SettingsConflict, DataOutOfRange, TooMuchData, IllegalParameterValue, OutOfMemory,
   ListsNotSameLength, DataCorruptOrStale, HardwareError, DeviceSpecificError, SystemError,
   StorageFault, SelfTestFailed, CalibrationFailed, QueueOverflow, CommunicationError,
   InputBufferOverrun, TimeoutError, QueryError]

end StdErr

/-- Bytes of a Lean string (UTF-8). Used for literals in the model and the driver. -/
def strBytes (s : String) : Bytes := s.toUTF8.toList.map UInt8.toNat

/-- `microscpi::Error`. -/
inductive Err where
  | std (e : StdErr)
  | custom (n : Int) (desc : Bytes)
  deriving DecidableEq, Repr, Inhabited

namespace Err
def number : Err → Int
  | std e => e.number
  | custom n _ => n
def descBytes : Err → Bytes
  | std e => strBytes e.describe
  | custom _ d => d
end Err

/-- Reasons for which the real code would panic or spin; each is an explicit
outcome of the model so that C05 can prove it unreachable. -/
inductive Crash where
  | sliceOutOfRange   -- slice index out of range
  | subOverflow       -- `usize` subtraction below zero
  | unwrapNone        -- `unwrap()` on `None`/`Err`
  | noProgress        -- a loop iteration that consumed no input (would spin for ever)
  deriving DecidableEq, Repr, Inhabited

/-- `ParseResult<T>` (parser.rs:9-48) plus the explicit `crash` outcome. -/
inductive PResult (α : Type) where
  | ok (rest : Bytes) (val : α)
  | soft (e : Option Err)
  | fatal (e : Err)
  | incomplete
  | crash (c : Crash)
  deriving Repr

abbrev Parser (α : Type) := Bytes → PResult α

/-- `impl From<Error> for ParseError` (parser.rs:26-33). -/
def ofErr {α : Type} (e : StdErr) : PResult α :=
  if e = .UndefinedHeader then .fatal (.std e) else .soft (some (.std e))

namespace PResult

/-- Rust's `let (i, v) = p(input)?; …`. -/
@[inline] def bind {α β : Type} (r : PResult α) (f : Bytes → α → PResult β) : PResult β :=
  match r with
  | ok rest v => f rest v
  | soft e => soft e
  | fatal e => fatal e
  | incomplete => incomplete
  | crash c => crash c

/-- `.map(|(i, o)| (i, f(o)))`. -/
@[inline] def map {α β : Type} (r : PResult α) (f : α → β) : PResult β :=
  match r with
  | ok rest v => ok rest (f v)
  | soft e => soft e
  | fatal e => fatal e
  | incomplete => incomplete
  | crash c => crash c

/-- `a.or_else(|_| b)`: any error of `a` is replaced by `b`. -/
@[inline] def orElse {α : Type} (a : PResult α) (b : Unit → PResult α) : PResult α :=
  match a with
  | ok rest v => ok rest v
  | crash c => crash c
  | _ => b ()

/-- `or_next(a, || b)` (parser.rs, after the D2 repair): `Incomplete` ends the ordered choice. -/
@[inline] def orNext {α : Type} (a : PResult α) (b : Unit → PResult α) : PResult α :=
  match a with
  | ok rest v => ok rest v
  | incomplete => incomplete
  | crash c => crash c
  | _ => b ()

/-- `.map_err(|_| Error::X)?` : every error (including `Incomplete`) becomes `X`. -/
@[inline] def mapErr {α : Type} (a : PResult α) (e : StdErr) : PResult α :=
  match a with
  | ok rest v => ok rest v
  | crash c => crash c
  | _ => ofErr e

def isOk {α : Type} : PResult α → Bool
  | ok _ _ => true
  | _ => false

end PResult

/-- `optional(p)` (parser.rs:101-111): a failing parser yields `None` and consumes nothing. -/
@[inline] def optP {α : Type} (p : Parser α) : Parser (Option α) := fun input =>
  match p input with
  | .ok rest v => .ok rest (some v)
  | .crash c => .crash c
  | _ => .ok input none

/-- `take_while(pred)` (parser.rs:76-84): never fails. -/
@[inline] def takeWhileP (p : Nat → Bool) : Parser Bytes := fun input =>
  .ok (input.dropWhile p) (input.takeWhile p)

/-- `satisfy(pred)` (parser.rs:87-96). -/
@[inline] def satisfy (p : Nat → Bool) : Parser Nat := fun input =>
  match input with
  | [] => .incomplete
  | b :: rest => if p b then .ok rest b else ofErr .InvalidCharacter

/-- `tag(byte)`. -/
@[inline] def tag (t : Nat) : Parser Nat := satisfy (fun b => b == t)

/-- `input.len() - rest.len()` with Rust's overflow check, then `&input[..n]`. -/
def consumed {α : Type} (input rest : Bytes) (k : Bytes → PResult α) : PResult α :=
  if rest.length ≤ input.length then k (input.take (input.length - rest.length))
  else .crash .subOverflow

end Scpi
