/-
C06 corners — an EMPTY PROGRAM MESSAGE UNIT is a fault, never silently accepted.

A `;` met where a program header is expected (at the very start of a message, right
behind another `;`, or behind white space in either place) is not "an empty unit that
is skipped": the parser answers `UndefinedHeader` (the compound form fails on the
`;`, the common form — which is tried last — fails on the missing `*`, and that
failure is mapped to `UndefinedHeader`, which is fatal), and the dispatcher treats it
like every other parse-level fault: one error, no handler, nothing written, the rest
of the message up to the next byte 10 is dropped, the path is the root again.

All statements hold for every tree, every current path, every interface, writer and
user state, every white space before the `;` and every continuation behind it.

* `parse_stray_semicolon` — the verdict of `parse`;
* `run_stray_semicolon` — one step of `runFrom`, in the style of `C02.runFrom_fatal`;
* `events_stray_semicolon`, `errors_stray_semicolon` — what is observable of that step:
  exactly the event `error UndefinedHeader`, no handler invocation;
* `run_stray_semicolon_message`, `events_stray_semicolon_message` — the message-level
  form for a message whose only byte 10 is its terminator.
-/
import Scpi.Props.C02
import Scpi.Props.C06

namespace Scpi
namespace C06

theorem takeWhile_ws_append (ws : Bytes) (c : Nat) (rest : Bytes)
    (hws : ∀ b ∈ ws, isWs b = true) (hc : isWs c = false) :
    (ws ++ c :: rest).takeWhile isWs = ws ∧ (ws ++ c :: rest).dropWhile isWs = c :: rest := by
  induction ws with
  | nil => simp [hc]
  | cons a t ih =>
    have ha : isWs a = true := hws a (by simp)
    have := ih (fun b hb => hws b (by simp [hb]))
    simp [ha, this]

theorem optP_whitespace_skip (ws : Bytes) (c : Nat) (rest : Bytes)
    (hws : ∀ b ∈ ws, isWs b = true) (hc : isWs c = false) :
    ∃ v, optP whitespace (ws ++ c :: rest) = .ok (c :: rest) v := by
  obtain ⟨h1, h2⟩ := takeWhile_ws_append ws c rest hws hc
  cases ws with
  | nil =>
    refine ⟨none, ?_⟩
    simp [optP, whitespace, hc, ofErr]
  | cons a t =>
    refine ⟨some (a :: t), ?_⟩
    simp only [optP, whitespace, h1, h2]

/-- **An empty unit is an error, never accepted.**  Whatever the tree `root`, the
current path `header`, the white space `ws` in front and the bytes `rest` behind, a
`;` where a header is expected makes `parse` answer the FATAL error `UndefinedHeader`
— not `ok`, not `incomplete`, not a crash, and not a soft error either. -/
theorem parse_stray_semicolon (root header : Node) (ws rest : Bytes)
    (hws : ∀ b ∈ ws, isWs b = true) :
    parse root header (ws ++ 59 :: rest) = .fatal (.std .UndefinedHeader) := by
  obtain ⟨v, hv⟩ := optP_whitespace_skip ws 59 rest hws (by decide)
  unfold parse
  rw [hv]
  simp [PResult.bind, optP, tag, satisfy, ofErr, commandHeader, compoundHeader, headerSeparator,
    whitespace, List.takeWhile, List.dropWhile, isWs, PResult.mapErr, mnemonic, isAlpha,
    PResult.orElse, commonHeader]

/-- … in particular it is none of the other verdicts. -/
theorem parse_stray_semicolon_not_ok (root header : Node) (ws rest : Bytes)
    (hws : ∀ b ∈ ws, isWs b = true) :
    (∀ i v, parse root header (ws ++ 59 :: rest) ≠ .ok i v) ∧
    parse root header (ws ++ 59 :: rest) ≠ .incomplete ∧
    (∀ c, parse root header (ws ++ 59 :: rest) ≠ .crash c) ∧
    (∀ e, parse root header (ws ++ 59 :: rest) ≠ .soft e) := by
  rw [parse_stray_semicolon root header ws rest hws]
  refine ⟨?_, ?_, ?_, ?_⟩ <;> intros <;> simp

/-- Non-vacuity: ` \t;X⏎` on the demo tree, from the path `S`. -/
example : parse Demo.tree Demo.nS [32, 9, 59, 88, 10] = .fatal (.std .UndefinedHeader) :=
  parse_stray_semicolon _ _ [32, 9] [88, 10] (by decide)
/-- … and `;` as the very first byte (`ws = []`), nothing behind it. -/
example : parse Demo.tree Demo.tree [59] = .fatal (.std .UndefinedHeader) :=
  parse_stray_semicolon _ _ [] [] (by simp)

/-- White space and the `;` contain no newline: re-synchronisation looks in `rest`. -/
theorem afterNewline_stray (ws rest : Bytes) (hws : ∀ b ∈ ws, isWs b = true) :
    afterNewline (ws ++ 59 :: rest) = afterNewline rest := by
  induction ws with
  | nil => simp [afterNewline]
  | cons a t ih =>
    have ha : isWs a = true := hws a (by simp)
    have h10 : (a == 10) = false := by
      cases h : a == 10 with
      | false => rfl
      | true => simp only [beq_iff_eq] at h; subst h; cases ha
    simp only [List.cons_append, afterNewline, h10]
    exact ih (fun b hb => hws b (by simp [hb]))

/-- The first newline of `body ++ ⏎` is the last byte when `body` has none. -/
theorem afterNewline_body (body : Bytes) (hb : 10 ∉ body) :
    afterNewline (body ++ [10]) = some [] := by
  induction body with
  | nil => rfl
  | cons a t ih =>
    have h10 : (a == 10) = false := by
      cases h : a == 10 with
      | false => rfl
      | true => simp only [beq_iff_eq] at h; subst h; simp at hb
    simp only [List.cons_append, afterNewline, h10]
    exact ih (fun h => hb (by simp [h]))

/-- **What the dispatcher does with an empty unit** (one step of `runFrom`, as
`C02.runFrom_fatal`): it hands exactly one error, `UndefinedHeader`, to the error
handler; no handler of the interface is applied and the writer is passed on untouched
(`w` and `I.onError s …` are all that is left of this step); then it resumes behind
the next byte 10 of `rest` from the ROOT path — every unit between the stray `;` and
that newline is dropped — or, if `rest` has no newline, stops with the whole input
kept and the path unchanged. -/
theorem run_stray_semicolon {σ : Type} (I : Iface σ) (h : Node) (ws rest : Bytes) (w : Writer)
    (s : σ) (hws : ∀ b ∈ ws, isWs b = true) :
    runFrom I h (ws ++ 59 :: rest) w s =
      match afterNewline rest with
      | some r => runFrom I I.root r w (I.onError s (.std .UndefinedHeader))
      | none => { rest := ws ++ 59 :: rest, header := h, w := w,
                  s := I.onError s (.std .UndefinedHeader) } := by
  rw [C02.runFrom_fatal I h _ w s _ (by simp) (parse_stray_semicolon I.root h ws rest hws),
    afterNewline_stray ws rest hws]
  cases afterNewline rest <;> rfl

/-- **Observably**: with the tracing wrapper of `C02.events_in_order` (every handler
invocation and every `onError` is an event) the events of a run on `ws ++ ; ++ rest`
are the ONE event `error UndefinedHeader` — no `call` event belongs to this step —
followed by the events of the run the step hands over to. -/
theorem events_stray_semicolon {σ : Type} (I : Iface σ) (h : Node) (ws rest : Bytes) (w : Writer)
    (s : σ) (hws : ∀ b ∈ ws, isWs b = true) :
    runLog I (fun id tvs => [Ev.call id tvs]) (fun e => [Ev.error e]) h (ws ++ 59 :: rest) w s =
      Ev.error (.std .UndefinedHeader) ::
        match afterNewline rest with
        | some r => runLog I (fun id tvs => [Ev.call id tvs]) (fun e => [Ev.error e]) I.root r w
            (I.onError s (.std .UndefinedHeader))
        | none => [] := by
  have hp := parse_stray_semicolon I.root h ws rest hws
  rw [C02.events_in_order I h _ w s (by simp), unitStep_fatal I ⟨h, _, w, s⟩ _ hp]
  simp only [unitLog, hp, afterNewline_stray ws rest hws]
  cases afterNewline rest <;> rfl

/-- The same for the list of reported errors (`C06.errors_of_run`). -/
theorem errors_stray_semicolon {σ : Type} (I : Iface σ) (h : Node) (ws rest : Bytes) (w : Writer)
    (s : σ) (hws : ∀ b ∈ ws, isWs b = true) :
    errorsOf I h (ws ++ 59 :: rest) w s =
      .std .UndefinedHeader ::
        match afterNewline rest with
        | some r => errorsOf I I.root r w (I.onError s (.std .UndefinedHeader))
        | none => [] := by
  have hp := parse_stray_semicolon I.root h ws rest hws
  rw [errors_of_run I h _ w s (by simp), unitStep_fatal I ⟨h, _, w, s⟩ _ hp]
  simp only [unitFault, hp, afterNewline_stray ws rest hws]
  cases afterNewline rest <;> rfl

/-- **Message level.**  A message that begins (after white space) with an empty unit
and whose only byte 10 is its terminator — `ws ++ ; ++ body ++ ⏎` — is consumed
completely, reports exactly one error, leaves the writer as it was, applies nothing
but the error handler to the user state, and leaves the root path: none of the units
in `body` is executed. -/
theorem run_stray_semicolon_message {σ : Type} (I : Iface σ) (h : Node) (ws body : Bytes)
    (w : Writer) (s : σ) (hws : ∀ b ∈ ws, isWs b = true) (hb : 10 ∉ body) :
    runFrom I h (ws ++ 59 :: (body ++ [10])) w s =
      { rest := [], header := I.root, w := w, s := I.onError s (.std .UndefinedHeader) } := by
  rw [run_stray_semicolon I h ws _ w s hws, afterNewline_body body hb]
  exact C02.runFrom_nil I I.root w _

/-- … and its complete event log is the one error. -/
theorem events_stray_semicolon_message {σ : Type} (I : Iface σ) (h : Node) (ws body : Bytes)
    (w : Writer) (s : σ) (hws : ∀ b ∈ ws, isWs b = true) (hb : 10 ∉ body) :
    runLog I (fun id tvs => [Ev.call id tvs]) (fun e => [Ev.error e]) h
        (ws ++ 59 :: (body ++ [10])) w s = [Ev.error (.std .UndefinedHeader)] ∧
    errorsOf I h (ws ++ 59 :: (body ++ [10])) w s = [.std .UndefinedHeader] := by
  rw [events_stray_semicolon I h ws _ w s hws, errors_stray_semicolon I h ws _ w s hws,
    afterNewline_body body hb]
  exact ⟨by simp only [runLog_nil], by simp only [errors_of_nothing]⟩

/-- Non-vacuity on the demo interface: `X; ;X⏎X⏎` — the first `X` runs (0), the empty
unit costs one error (99) and drops the `X` behind it, the next message runs (0). -/
example : (run Demo.I.logged [88, 59, 32, 59, 88, 10, 88, 10] Demo.W ([], [])).s =
    ([0, 99, 0], [.std .UndefinedHeader]) := by decide
/-- … and the general theorem instantiated at its second unit: from the path the
first `X` left, ` ;X⏎X⏎` is one error, then the run of `X⏎` from the root. -/
example (s : List Nat) : runFrom Demo.I Demo.tree [32, 59, 88, 10, 88, 10] Demo.W s =
    runFrom Demo.I Demo.tree [88, 10] Demo.W (s ++ [99]) :=
  run_stray_semicolon Demo.I Demo.tree [32] [88, 10, 88, 10] Demo.W s (by decide)
example : runLog Demo.I (fun id tvs => [Ev.call id tvs]) (fun e => [Ev.error e]) Demo.nS
    [32, 59, 88, 10] Demo.W [] = [Ev.error (.std .UndefinedHeader)] :=
  (events_stray_semicolon_message Demo.I Demo.nS [32] [88] Demo.W [] (by decide) (by decide)).1

end C06
end Scpi
