/-
C10 — "`process` writes and flushes the response to a message before it asks the
transport for more input, so a controller that waits for an answer before sending its
next command is never deadlocked; it writes nothing for a message that produced no
response and never writes anything other than query responses.  It never returns `Ok`:
it ends only by returning, unchanged and at once — with no further transport call — the
first error that the transport's read, write or flush returns."

`Scpi.process I n sc s` (Scpi/Process.lean) runs `Interface::process::<N, A>` against a
scripted adapter: a byte stream, the sizes of the successive reads, and optionally a
fault `(k, code)` — adapter call number `k` (counting from 0, reads, writes and flushes
alike) fails with `code`.  The result records the `trace` of the SUCCESSFUL adapter
calls in order (`PEv.r delivered dstLen`, `PEv.w bytes`, `PEv.f`), and how the call
ended (`stop`).  A read with nothing left to deliver fails with `TErr.eos`.

The loops are analysed through their one-step functions `outerStep`/`innerStep`
(Scpi/Proofs/ProcStep.lean, proved there to generate `procLoop`/`procInner`); the
invariant behind all theorems of this file is `TInv` in Scpi/Proofs/ProcTrace.lean.
All helper definitions (`innerStep`, `outerStep`, `respEvents`, `wfRun`, …) live in the
namespace `Scpi.Proc`.
-/
import Scpi.Proofs.ProcFault

namespace Scpi
open Proc
namespace C10

/-! ### T10.2 — the shape of the trace -/

/-- The recogniser `wfRun (some false)` (Scpi/Proofs/ProcTrace.lean) is a two-state automaton
over the trace: in state `some false` (between exchanges) it accepts a read `r` and stays,
or a write `w b` with `b ≠ []` and moves to `some true` (flush due); in state `some true`
it accepts only a flush `f` and moves back; everything else leads to `none`.

**Trace grammar**: for every interface, buffer size, script and user state, the trace of
`process` is accepted, and it ends in the state "between exchanges" — i.e. it is a
sequence of `r` and of `w b, f` pairs with `b ≠ []` — except that it may end in
"flush due" when the run was ended by the injected fault and the faulty call is the very
next one, i.e. the flush of that write. -/
theorem trace_grammar {σ : Type} (I : Iface σ) (n : Nat) (sc : Script) (s : σ) :
    wfRun (some false) (process I n sc s).trace = some false ∨
    (wfRun (some false) (process I n sc s).trace = some true ∧
      ∃ code, (process I n sc s).stop = .transport (.fault code) ∧
        sc.fault = some ((process I n sc s).trace.length, code)) := by
  obtain ⟨ht, _, h⟩ := process_outOK I n sc s
  rw [ht]
  cases hs : (process I n sc s).stop with
  | crash c =>
    rw [hs] at h
    exact .inl (complete_wfRun (gram_false.mp h.gram))
  | transport e =>
    rw [hs] at h
    cases e with
    | eos => exact .inl (complete_wfRun (gram_false.mp h.2.1.gram))
    | fault code =>
      obtain ⟨hf, hi⟩ := h
      cases gram_wfRun hi.gram with
      | inl hc => exact .inl hc
      | inr hp => exact .inr ⟨hp.2, code, rfl, by rw [hf, hi.calls_eq]⟩

/-- The trace is accepted by the recogniser (corollary). -/
theorem trace_accepted {σ : Type} (I : Iface σ) (n : Nat) (sc : Script) (s : σ) :
    wfRun (some false) (process I n sc s).trace ≠ none := by
  cases trace_grammar I n sc s with
  | inl h => rw [h]; exact fun h => nomatch h
  | inr h => rw [h.1]; exact fun h => nomatch h

/-- **Every write is non-empty and is immediately followed by its flush**, unless it is the
last event and the run was ended by the fault injected at the flush call. -/
theorem write_then_flush {σ : Type} (I : Iface σ) (n : Nat) (sc : Script) (s : σ) (i : Nat)
    (b : Bytes) (h : (process I n sc s).trace[i]? = some (PEv.w b)) :
    b ≠ [] ∧
    ((process I n sc s).trace[i + 1]? = some PEv.f ∨
      (i + 1 = (process I n sc s).trace.length ∧
        ∃ code, (process I n sc s).stop = .transport (.fault code) ∧ sc.fault = some (i + 1, code))) := by
  obtain ⟨hb, hn⟩ := wfRun_write _ _ (trace_accepted I n sc s) i b h
  refine ⟨hb, ?_⟩
  cases hn with
  | inl h => exact .inl h
  | inr h =>
    right
    refine ⟨h.1, ?_⟩
    cases trace_grammar I n sc s with
    | inl hc => rw [hc] at h; cases h.2
    | inr hp =>
      obtain ⟨code, h1, h2⟩ := hp.2
      exact ⟨code, h1, by rw [h.1]; exact h2⟩

/-- **A flush occurs only right after a write.** -/
theorem flush_after_write {σ : Type} (I : Iface σ) (n : Nat) (sc : Script) (s : σ) (i : Nat)
    (h : (process I n sc s).trace[i]? = some PEv.f) :
    ∃ j b, i = j + 1 ∧ (process I n sc s).trace[j]? = some (PEv.w b) := by
  cases wfRun_flush _ _ (trace_accepted I n sc s) i h with
  | inl h => cases h.2
  | inr h => exact h

/-- **T10.1 — read after flush**: between the write of a response and any later read there
is the flush of that response: the next event after the write is the flush, and it comes
before the read.  So when `process` asks the transport for more input, every response it
has produced has been written AND flushed. -/
theorem read_after_flush {σ : Type} (I : Iface σ) (n : Nat) (sc : Script) (s : σ) (i j : Nat)
    (b : Bytes) (d l : Nat) (hw : (process I n sc s).trace[i]? = some (PEv.w b)) (hij : i < j)
    (hr : (process I n sc s).trace[j]? = some (PEv.r d l)) :
    (process I n sc s).trace[i + 1]? = some PEv.f ∧ i + 1 < j := by
  have hjl : j < (process I n sc s).trace.length := by
    apply Classical.byContradiction
    intro hge
    rw [List.getElem?_eq_none (by omega)] at hr
    cases hr
  cases (write_then_flush I n sc s i b hw).2 with
  | inr h => omega
  | inl h =>
    refine ⟨h, ?_⟩
    have : i + 1 ≠ j := by
      intro e
      rw [e, hr] at h
      cases h
    omega

/-! ### T10.1/T10.2 — what is written, and when -/

/-- The events a response buffer `b` gives rise to: nothing if it is empty, else its write
and its flush. -/
example (b : Bytes) : respEvents b = if b = [] then [] else [PEv.w b, PEv.f] := rfl

/-- **One message handled.**  Whenever the inner loop of `process` goes round (for every
state `st`, even unreachable ones), it has found the first newline at offset
`read_offset + p` of the bytes just read, has called `run_from` on
`data = cmd_buf[proc_offset ..= read_offset + p]` from the current header path with a FRESH
response buffer of capacity `n`, and the trace has grown by `respEvents out.w.buf`:
the write and the flush of exactly what `run_from` left in the response buffer if that is
not empty, and NOTHING if it is empty — no write for a message without response.

(The response buffer is fresh for every message in the model; in the Rust code the single
`res_buf` is empty before every `run_from` because `res_buf.clear()` follows every write
and the write happens whenever the buffer is non-empty.  In particular the response buffer
is empty whenever a read is issued.) -/
theorem write_is_run_output {σ : Type} (I : Iface σ) (n : Nat) (fault : Option (Nat × Int))
    (readEnd : Nat) (st st' : PState σ) (h : innerStep I n fault readEnd st = .inl st') :
    ∃ window p data,
      slice st.buf st.readOff readEnd = some window ∧ newlinePos window = some p ∧
      slice st.buf st.procOff (st.readOff + p + 1) = some data ∧
      st'.trace = st.trace
        ++ respEvents (runFrom I st.header data { cap := some n } st.user).w.buf ∧
      st'.calls = st.calls
        + (respEvents (runFrom I st.header data { cap := some n } st.user).w.buf).length ∧
      st'.user = (runFrom I st.header data { cap := some n } st.user).s ∧
      st'.header = (runFrom I st.header data { cap := some n } st.user).header ∧
      st'.readOff = st.readOff + p + 1 :=
  innerStep_inl I n fault readEnd st st' h

/-- The response buffer handed to `run_from` is empty. -/
example (n : Nat) : ({ cap := some n } : Writer).buf = [] := rfl

/-- **Every complete message is answered before the next read.**  The inner loop is left
normally (that is, `process` goes on to the next `read`) only when the bytes received so
far contain no newline from `read_offset` on: every newline-terminated message received
has been run, and its response written and flushed (previous theorem). -/
theorem no_pending_message_at_read {σ : Type} (I : Iface σ) (n : Nat) (fault : Option (Nat × Int))
    (readEnd fuel : Nat) (st : PState σ)
    (h : (procInner I n fault fuel readEnd st).2 = none) :
    ∃ window, slice (procInner I n fault fuel readEnd st).1.buf
        (procInner I n fault fuel readEnd st).1.readOff readEnd = some window ∧
      newlinePos window = none ∧ 10 ∉ window := by
  obtain ⟨w, h1, h2⟩ := procInner_exit_none I n fault readEnd fuel st h
  exact ⟨w, h1, h2, newlinePos_none w h2⟩

/-- **Nothing but responses is written**: every write in the trace of `process` is
non-empty and carries exactly the content that `run_from` left in a fresh response buffer
of capacity `n` (for some header path, input and user state — by `write_is_run_output`, those
of the message just handled). -/
theorem writes_are_run_outputs {σ : Type} (I : Iface σ) (n : Nat) (sc : Script) (s : σ) (b : Bytes)
    (h : PEv.w b ∈ (process I n sc s).trace) :
    b ≠ [] ∧ ∃ (header : Node) (data : Bytes) (user : σ),
      b = (runFrom I header data { cap := some n } user).w.buf := by
  constructor
  · obtain ⟨i, hi⟩ := List.getElem?_of_mem h
    exact (write_then_flush I n sc s i b hi).1
  · obtain ⟨ht, _, hx⟩ := process_outOK I n sc s
    rw [ht] at h
    cases hs : (process I n sc s).stop with
    | crash c => rw [hs] at hx; exact hx.writes b h
    | transport e =>
      rw [hs] at hx
      cases e with
      | eos => exact hx.2.1.writes b h
      | fault code => exact hx.2.writes b h

/-- Every read in the trace was issued on a non-empty slice of at most `n` bytes and
delivered at most that many bytes (`n ≥ 1`). -/
theorem reads_in_range {σ : Type} (I : Iface σ) (n : Nat) (hn : 1 ≤ n) (sc : Script) (s : σ)
    (d l : Nat) (h : PEv.r d l ∈ (process I n sc s).trace) : 1 ≤ l ∧ d ≤ l ∧ l ≤ n := by
  obtain ⟨ht, _, hx⟩ := process_outOK_pos I n hn sc s
  rw [ht] at h
  cases hs : (process I n sc s).stop with
  | crash c => rw [hs] at hx; exact hx.reads d l h
  | transport e =>
    rw [hs] at hx
    cases e with
    | eos => exact hx.2.1.reads d l h
    | fault code => exact hx.2.reads d l h

/-! ### T10.3 — how `process` ends -/

/-- `calls` counts exactly the successful adapter calls: at the end (and, as the field
`TInv.calls_eq` of the loop invariant, at every point of the run) `calls` is the length of
the trace.  The reported trace and user state are those of the final state. -/
theorem calls_eq_trace_length {σ : Type} (I : Iface σ) (n : Nat) (sc : Script) (s : σ) :
    (process I n sc s).final.calls = (process I n sc s).trace.length ∧
    (process I n sc s).trace = (process I n sc s).final.trace ∧
    (process I n sc s).user = (process I n sc s).final.user := by
  obtain ⟨ht, hu, hx⟩ := process_outOK I n sc s
  refine ⟨?_, ht, hu⟩
  rw [ht]
  cases hs : (process I n sc s).stop with
  | crash c => rw [hs] at hx; exact hx.calls_eq
  | transport e =>
    rw [hs] at hx
    cases e with
    | eos => exact hx.2.1.calls_eq
    | fault code => exact hx.2.calls_eq

/-- **T10.3 — outcome.**  `process` never returns `Ok`: the result type of the model,
`PEnd`, has only the constructors `transport e` (the call returned `Err(e)`) and `crash c`,
and for `n ≥ 1` a crash is excluded (C05) — so
1. the run ends with a transport error;
2. without an injected fault it ends with `eos`, the error of the read that found the script
   exhausted (and only then: stream and schedule are both empty);
3. with the fault `(k, code)` it ends EITHER with exactly that `code`, unchanged, after
   exactly `k` successful calls — the trace has length `k`, so no adapter call follows the
   failing one — OR, if the script is exhausted before call number `k` is reached
   (`trace.length < k`), with `eos`.
Whether the faulty call is a read, a write or a flush makes no difference. -/
theorem process_outcome {σ : Type} (I : Iface σ) (n : Nat) (hn : 1 ≤ n) (sc : Script) (s : σ) :
    (∃ e, (process I n sc s).stop = .transport e) ∧
    (sc.fault = none → (process I n sc s).stop = .transport .eos) ∧
    ((process I n sc s).stop = .transport .eos →
      (process I n sc s).final.stream = [] ∧ (process I n sc s).final.sizes = []) ∧
    (∀ k code, sc.fault = some (k, code) →
      ((process I n sc s).stop = .transport (.fault code) ∧ (process I n sc s).trace.length = k) ∨
      ((process I n sc s).stop = .transport .eos ∧ (process I n sc s).trace.length < k)) := by
  have hnc : ∀ c, (process I n sc s).stop ≠ .crash c := by
    rw [process_eq]
    exact procLoop_no_crash I n sc.fault _ _ (initState_inv I n sc s hn) (Nat.lt_succ_self _)
  obtain ⟨ht, _, hx⟩ := process_outOK I n sc s
  cases hs : (process I n sc s).stop with
  | crash c => exact absurd hs (hnc c)
  | transport e =>
    rw [hs] at hx
    refine ⟨⟨e, rfl⟩, ?_⟩
    cases e with
    | eos =>
      obtain ⟨hfa, hi, hst, hsz⟩ := hx
      refine ⟨fun _ => rfl, fun _ => ⟨hst, hsz⟩, ?_⟩
      intro k code hf
      right
      refine ⟨rfl, ?_⟩
      have hle := hi.calls_le k code hf
      have hne : (process I n sc s).final.calls ≠ k := by
        intro e
        rw [e, faultAt_eq_some.mpr hf] at hfa
        cases hfa
      rw [ht, ← hi.calls_eq]
      omega
    | fault code =>
      obtain ⟨hf, hi⟩ := hx
      refine ⟨?_, ?_, ?_⟩
      · intro h0; rw [h0] at hf; cases hf
      · intro h0; cases h0
      · intro k code' hf'
        left
        rw [hf] at hf'
        cases hf'
        exact ⟨rfl, by rw [ht, ← hi.calls_eq]⟩

/-- Without the hypothesis `n ≥ 1` the run still never ends with anything but a transport
error or a crash, and a fault code is never altered. -/
theorem fault_code_unchanged {σ : Type} (I : Iface σ) (n : Nat) (sc : Script) (s : σ) (code : Int)
    (h : (process I n sc s).stop = .transport (.fault code)) :
    sc.fault = some ((process I n sc s).trace.length, code) := by
  obtain ⟨ht, _, hx⟩ := process_outOK I n sc s
  rw [h] at hx
  rw [ht, ← hx.2.calls_eq]
  exact hx.1

/-- **T10.3 — the error is returned at once and nothing else changes.**  The run with the
fault `(k, code)` is the run WITHOUT fault cut at call `k`: its trace is the first `k`
events of the fault-free trace (same reads with the same sizes, same writes with the same
bytes, same flushes, in the same order), and
* if the fault-free run makes at least `k` successful calls — or its final, failing read is
  call number `k` — the faulty run returns `code` (after exactly those `k` calls);
* otherwise the fault is never reached and the two runs coincide completely (trace, user
  state, final state and `eos`).
So the library neither retries, nor swallows, nor alters a transport error, and makes no
adapter call after it. -/
theorem fault_run_is_cut {σ : Type} (I : Iface σ) (n : Nat) (hn : 1 ≤ n) (sc : Script) (s : σ)
    (k : Nat) (code : Int) :
    (process I n { sc with fault := some (k, code) } s).trace
      = (process I n { sc with fault := none } s).trace.take k ∧
    (k ≤ (process I n { sc with fault := none } s).trace.length →
      (process I n { sc with fault := some (k, code) } s).stop = .transport (.fault code)) ∧
    ((process I n { sc with fault := none } s).trace.length < k →
      process I n { sc with fault := some (k, code) } s = process I n { sc with fault := none } s) := by
  obtain ⟨hc0, ht0, _⟩ := calls_eq_trace_length I n { sc with fault := none } s
  obtain ⟨_, hFeos, _, hFout⟩ := process_outcome I n hn { sc with fault := some (k, code) } s
  obtain ⟨_, h0eos, _, _⟩ := process_outcome I n hn { sc with fault := none } s
  have hsim := procLoop_sim I n k code (sc.sizes.length + sc.stream.length + 1)
    (initState I n sc s) rfl (Nat.zero_le k)
  have e0 : process I n { sc with fault := none } s =
      procLoop I n none (sc.sizes.length + sc.stream.length + 1) (initState I n sc s) := rfl
  have eF : process I n { sc with fault := some (k, code) } s =
      procLoop I n (some (k, code)) (sc.sizes.length + sc.stream.length + 1) (initState I n sc s) := rfl
  rw [← e0, ← eF] at hsim
  cases hsim with
  | inl h =>
    obtain ⟨hle, heq⟩ := h
    rw [hc0] at hle
    refine ⟨by rw [heq, List.take_of_length_le hle], ?_, fun _ => heq⟩
    intro hk
    exfalso
    cases hFout k code rfl with
    | inl hf =>
      have := h0eos rfl
      rw [heq, this] at hf
      cases hf.1
    | inr he =>
      rw [heq] at he
      omega
  | inr h =>
    obtain ⟨h1, h2, h3, h4, h5⟩ := h
    rw [hc0] at h1
    refine ⟨by rw [h5, h4, ← ht0], fun _ => h2, fun hlt => by omega⟩

/-! ### Non-vacuity: one query `Q?` answering `7` -/

def treeQ : Node := .mk 0 [([81], .mk 1 [] none (some 0))] none none
def IQ : Iface Unit :=
  { root := treeQ, cmds := [{ argTys := [], handler := fun s _ => (s, .ok (.int 7)) }],
    onError := fun s _ => s }
/-- `Q?\nQ?\n` -/
def streamQ : Bytes := [81, 63, 10, 81, 63, 10]

private def stq (buf : Bytes) (readOff : Nat) (stream : Bytes) (trace : List PEv) : PState Unit :=
  { buf, procOff := 0, readOff, header := treeQ, user := (), stream, sizes := [],
    calls := trace.length, trace }

/-- `N = 4`, no fault: the first read delivers `Q?\nQ`, the answer `7\n` is written and
flushed before the second read, which delivers `?\n`; the second answer is written and
flushed before the third read, which fails with `eos`.  (Evaluated iteration by iteration.) -/
example : (process IQ 4 { stream := streamQ, sizes := [] } ()).stop = .transport .eos ∧
    (process IQ 4 { stream := streamQ, sizes := [] } ()).trace =
      [.r 4 4, .w [55, 10], .f, .r 2 3, .w [55, 10], .f] := by
  have e : process IQ 4 { stream := streamQ, sizes := [] } () =
      procLoop IQ 4 none 7 (stq [0, 0, 0, 0] 0 streamQ []) := rfl
  rw [e,
    procLoop_inl (st' := stq [81, 63, 10, 81] 1 [63, 10] [.r 4 4, .w [55, 10], .f]) rfl,
    procLoop_inl (st' := stq [81, 63, 10, 81] 0 []
      [.r 4 4, .w [55, 10], .f, .r 2 3, .w [55, 10], .f]) rfl,
    procLoop_inr (out := stopOut (.transport .eos) (stq [81, 63, 10, 81] 0 []
      [.r 4 4, .w [55, 10], .f, .r 2 3, .w [55, 10], .f])) rfl]
  exact ⟨rfl, rfl⟩

/-- `N = 8`: both messages arrive in one read; each answer is written and flushed on its own. -/
example : (process IQ 8 { stream := streamQ, sizes := [] } ()).stop = .transport .eos ∧
    (process IQ 8 { stream := streamQ, sizes := [] } ()).trace =
      [.r 6 8, .w [55, 10], .f, .w [55, 10], .f] := by
  have e : process IQ 8 { stream := streamQ, sizes := [] } () =
      procLoop IQ 8 none 7 (stq [0, 0, 0, 0, 0, 0, 0, 0] 0 streamQ []) := rfl
  rw [e,
    procLoop_inl (st' := stq [81, 63, 10, 81, 63, 10, 0, 0] 0 []
      [.r 6 8, .w [55, 10], .f, .w [55, 10], .f]) rfl,
    procLoop_inr (out := stopOut (.transport .eos) (stq [81, 63, 10, 81, 63, 10, 0, 0] 0 []
      [.r 6 8, .w [55, 10], .f, .w [55, 10], .f])) rfl]
  exact ⟨rfl, rfl⟩

/-- Fault at call 2 (the flush of the first answer): the code comes back unchanged, the
trace has exactly 2 events and ends with the write whose flush failed. -/
example : (process IQ 4 { stream := streamQ, sizes := [], fault := some (2, -5) } ()).stop
      = .transport (.fault (-5)) ∧
    (process IQ 4 { stream := streamQ, sizes := [], fault := some (2, -5) } ()).trace =
      [.r 4 4, .w [55, 10]] := by
  have e : process IQ 4 { stream := streamQ, sizes := [], fault := some (2, -5) } () =
      procLoop IQ 4 (some (2, -5)) 7 (stq [0, 0, 0, 0] 0 streamQ []) := rfl
  rw [e, procLoop_inr (out := stopOut (.transport (.fault (-5)))
      (stq [81, 63, 10, 81] 0 [63, 10] [.r 4 4, .w [55, 10]])) rfl]
  exact ⟨rfl, rfl⟩

/-- Fault at call 1 (the write) and at call 3 (the second read). -/
example : (process IQ 4 { stream := streamQ, sizes := [], fault := some (1, -5) } ()).stop
      = .transport (.fault (-5)) ∧
    (process IQ 4 { stream := streamQ, sizes := [], fault := some (1, -5) } ()).trace = [.r 4 4] := by
  have e : process IQ 4 { stream := streamQ, sizes := [], fault := some (1, -5) } () =
      procLoop IQ 4 (some (1, -5)) 7 (stq [0, 0, 0, 0] 0 streamQ []) := rfl
  rw [e, procLoop_inr (out := stopOut (.transport (.fault (-5)))
      (stq [81, 63, 10, 81] 0 [63, 10] [.r 4 4])) rfl]
  exact ⟨rfl, rfl⟩

/-- A fault scheduled after the end of the stream (call 7; the run makes 6 successful calls
and the 7th, call number 6, is the read that fails with `eos`) is never reached. -/
example : (process IQ 4 { stream := streamQ, sizes := [], fault := some (7, -5) } ()).stop
      = .transport .eos := by
  have e : process IQ 4 { stream := streamQ, sizes := [], fault := some (7, -5) } () =
      procLoop IQ 4 (some (7, -5)) 7 (stq [0, 0, 0, 0] 0 streamQ []) := rfl
  rw [e,
    procLoop_inl (st' := stq [81, 63, 10, 81] 1 [63, 10] [.r 4 4, .w [55, 10], .f]) rfl,
    procLoop_inl (st' := stq [81, 63, 10, 81] 0 []
      [.r 4 4, .w [55, 10], .f, .r 2 3, .w [55, 10], .f]) rfl,
    procLoop_inr (out := stopOut (.transport .eos) (stq [81, 63, 10, 81] 0 []
      [.r 4 4, .w [55, 10], .f, .r 2 3, .w [55, 10], .f])) rfl]
  rfl

/-- The hypothesis of `write_is_run_output` is satisfiable: the step of the inner loop right
after the first read of the `N = 4` run handles `Q?\n` and appends the write and the flush of
`7\n`; the next step finds no newline in the remaining `Q` and leaves the loop normally (the
hypothesis of `no_pending_message_at_read`). -/
example :
    innerStep IQ 4 none 4 (stq [81, 63, 10, 81] 0 [63, 10] [.r 4 4]) =
      .inl { (stq [81, 63, 10, 81] 3 [63, 10] [.r 4 4, .w [55, 10], .f]) with procOff := 3 } ∧
    (procInner IQ 4 none 5 4 (stq [81, 63, 10, 81] 0 [63, 10] [.r 4 4])).2 = none := by
  refine ⟨rfl, ?_⟩
  rw [procInner_succ]
  have h1 : innerStep IQ 4 none 4 (stq [81, 63, 10, 81] 0 [63, 10] [.r 4 4]) =
      .inl { (stq [81, 63, 10, 81] 3 [63, 10] [.r 4 4, .w [55, 10], .f]) with procOff := 3 } := rfl
  rw [h1]
  rfl

/-- A command without response (`X` of the C05 example would do; here an unknown header, which
only raises an error) produces no write: the trace of `Z\n` is the read alone. -/
example : (process IQ 4 { stream := [90, 10], sizes := [] } ()).trace = [.r 2 4] ∧
    (process IQ 4 { stream := [90, 10], sizes := [] } ()).stop = .transport .eos := by
  have e : process IQ 4 { stream := [90, 10], sizes := [] } () =
      procLoop IQ 4 none 3 (stq [0, 0, 0, 0] 0 [90, 10] []) := rfl
  rw [e,
    procLoop_inl (st' := stq [90, 10, 0, 0] 0 [] [.r 2 4]) rfl,
    procLoop_inr (out := stopOut (.transport .eos) (stq [90, 10, 0, 0] 0 [] [.r 2 4])) rfl]
  exact ⟨rfl, rfl⟩

/-- The recogniser on the traces above. -/
example : wfRun (some false) [.r 4 4, .w [55, 10], .f, .r 2 3, .w [55, 10], .f] = some false ∧
    wfRun (some false) [.r 4 4, .w [55, 10]] = some true ∧
    wfRun (some false) [.r 4 4, .f] = none ∧
    wfRun (some false) [.w [], .f] = none ∧
    wfRun (some false) [.w [55], .r 1 1] = none := by decide

end C10
end Scpi
