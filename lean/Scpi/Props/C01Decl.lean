/-
C01, the declaration side — "each of its mnemonics equals, ignoring ASCII case, the short
form (declared spelling with its lower-case letters removed) or the long form (full
declared spelling) of the corresponding declared node … and the query mark matching the
declaration".

Scpi/Props/C01Macro.lean relates the run-time walk to the PARSED declarations
(`Command`, `Part.short`, `Part.long`).  This file says what the parsed declaration is
in terms of the declaration TEXT the user wrote in `#[scpi(cmd = "…")]` (ASCII), i.e.
what `Command::try_from(&str)` of microscpi-macros/src/command.rs computes:

* the text is a query declaration iff it ends with `?` (`declaration_parse_spec`);
* without that `?` it is cut at the colons (`splitColon_spec`, `splitColon_only`: the
  pieces contain no colon and joined by colons give back the text — and that
  determines them);
* each piece is trimmed of ASCII white space (`trimBytes_spec`, `trimBytes_only`);
  blank pieces are skipped; a piece `[name]` declares the optional node `name`, any
  other piece declares the mandatory node whose name is the piece (`parsePart_spec`,
  `parsePart_bracketed`, `parsePart_plain`);
* the short form of a node is its name with the lower-case ASCII letters removed, the
  long form is its name with the lower-case letters upper-cased, and a mnemonic equals
  the long form ignoring case iff it equals the declared name ignoring case
  (`long_matches_declared`, `short_matches_declared`);
* hence `header_matches_declared` and, end to end with the compiled tree,
  `invokes_iff_declared`.

FINDING (`parsePart_never_crashes`): the `crash` outcome of `parsePart` — the slice
`&part[1..part.len() - 1]` with `len < 2` — is unreachable: a one-byte text cannot both
start with `[` and end with `]`, and the lone `[` is NOT treated as a bracket but
declares the mandatory node named `[`.  `Command.parse` is total (`parse_total`).

Vocabulary (Scpi/Proofs/M6Decl.lean, namespace `Scpi.M6`): `dropLower`, `upper`,
`declNode part = (name, optional)`, `partOfNode`, `partOf`.
-/
import Scpi.Proofs.M6Decl
import Scpi.Props.C01Macro

namespace Scpi
namespace C01
open M6

/-! ## Trimming and splitting -/

/-- **`str::trim`**: the text is leading white space, the trimmed text, trailing white
space; the trimmed text neither begins nor ends with white space (blank, TAB, LF, VT,
FF, CR). -/
theorem trimBytes_spec (s : Bytes) :
    ∃ pre post, s = pre ++ trimBytes s ++ post ∧
      (∀ x ∈ pre, isTrimWs x = true) ∧ (∀ x ∈ post, isTrimWs x = true) ∧
      (∀ b, (trimBytes s).head? = some b → isTrimWs b = false) ∧
      (∀ b, (trimBytes s).getLast? = some b → isTrimWs b = false) :=
  trimBytes_decomp s

/-- … and this determines it. -/
theorem trimBytes_only (pre t post : Bytes) (hpre : ∀ x ∈ pre, isTrimWs x = true)
    (hpost : ∀ x ∈ post, isTrimWs x = true) (hh : ∀ b, t.head? = some b → isTrimWs b = false)
    (hl : ∀ b, t.getLast? = some b → isTrimWs b = false) : trimBytes (pre ++ t ++ post) = t :=
  trimBytes_unique pre t post hpre hpost hh hl

/-- **`str::split(':')`**: at least one piece, no piece contains a colon, and the pieces
joined by colons (`renderPath`) are the text. -/
theorem splitColon_spec (s : Bytes) :
    splitColon s [] ≠ [] ∧ (∀ p ∈ splitColon s [], 58 ∉ p) ∧ renderPath (splitColon s []) = s := by
  simpa using M6.splitColon_spec s [] (by simp)

/-- … and this determines them. -/
theorem splitColon_only (ps : List Bytes) (hne : ps ≠ []) (hp : ∀ p ∈ ps, 58 ∉ p) :
    splitColon (renderPath ps) [] = ps :=
  splitColon_unique ps hne hp

/-! ## One declared node -/

/-- **One colon-separated piece.**  After trimming: a blank piece is skipped; otherwise
the piece declares the node `declNode (trimBytes raw) = (name, optional)` and the part is
`optional`, short form `dropLower name`, long form `upper name`.  There is no third
outcome. -/
theorem parsePart_spec (raw : Bytes) :
    (parsePart raw = .ok none ↔ trimBytes raw = []) ∧
    (∀ p, parsePart raw = .ok (some p) ↔
      trimBytes raw ≠ [] ∧ p.optional = (declNode (trimBytes raw)).2 ∧
      p.short = dropLower (declNode (trimBytes raw)).1 ∧
      p.long = upper (declNode (trimBytes raw)).1) ∧
    ∀ c, parsePart raw ≠ .error c := by
  rw [parsePart_eq]
  unfold partOf
  by_cases he : trimBytes raw = []
  · simp [he]
  · simp only [he, ne_eq, not_false_eq_true, true_and, iff_false]
    refine ⟨by simp, fun p => ?_, by simp⟩
    constructor
    · intro h
      have : p = partOfNode (declNode (trimBytes raw)) := by
        simpa using h.symm
      subst this
      exact ⟨rfl, rfl, rfl⟩
    · rintro ⟨h1, h2, h3⟩
      obtain ⟨o, sh, lo⟩ := p
      simp only at h1 h2 h3
      subst h1 h2 h3
      rfl

/-- **FINDING: the slice never panics.**  `parsePart` has no crash outcome; in
particular the lone `[` declares the mandatory node named `[`. -/
theorem parsePart_never_crashes (raw : Bytes) (c : Crash) : parsePart raw ≠ .error c :=
  (parsePart_spec raw).2.2 c

example : parsePart [91] = .ok (some ⟨false, [91], [91]⟩) ∧
    parsePart [91, 93] = .ok (some ⟨true, [], []⟩) ∧
    parsePart [93, 91] = .ok (some ⟨false, [93, 91], [93, 91]⟩) := ⟨rfl, rfl, rfl⟩

/-- **A bracketed piece** `[name]` (of at least the two brackets) declares the OPTIONAL
node `name`. -/
theorem parsePart_bracketed (raw name : Bytes) (h : trimBytes raw = 91 :: name ++ [93]) :
    parsePart raw = .ok (some { optional := true, short := dropLower name, long := upper name }) := by
  rw [parsePart_eq, partOf, if_neg (by rw [h]; simp), h, declNode_bracketed]
  rfl

/-- **Any other non-blank piece** declares the MANDATORY node whose name is the piece. -/
theorem parsePart_plain (raw : Bytes) (hne : trimBytes raw ≠ [])
    (h : ¬ ∃ name, trimBytes raw = 91 :: name ++ [93]) :
    parsePart raw = .ok (some { optional := false, short := dropLower (trimBytes raw),
                                long := upper (trimBytes raw) }) := by
  rw [parsePart_eq, partOf, if_neg hne, declNode_plain _ h]
  rfl

/-- What a trimmed piece declares, by shape. -/
theorem declNode_spec (part name : Bytes) :
    declNode (91 :: name ++ [93]) = (name, true) ∧
    ((¬ ∃ n, part = 91 :: n ++ [93]) → declNode part = (part, false)) :=
  ⟨declNode_bracketed name, declNode_plain part⟩

/-- The short form has no lower-case letter and is the name if the name has none; the
long form has the length of the name and is the name if the name has none. -/
theorem forms_spec (name : Bytes) :
    (∀ b ∈ dropLower name, isLowerAscii b = false) ∧ (∀ b ∈ upper name, isLowerAscii b = false) ∧
    (upper name).length = name.length ∧
    ((∀ b ∈ name, isLowerAscii b = false) → dropLower name = name ∧ upper name = name) := by
  refine ⟨?_, ?_, by simp [upper], ?_⟩
  · intro b hb
    simpa [dropLower] using (List.mem_filter.1 hb).2
  · intro b hb
    obtain ⟨a, _, rfl⟩ := List.mem_map.1 hb
    unfold toUpperAscii isLowerAscii
    split <;> simp <;> omega
  · intro h
    refine ⟨List.filter_eq_self.2 fun b hb => by simp [h b hb], ?_⟩
    unfold upper
    conv => rhs; rw [← List.map_id name]
    apply List.map_congr_left
    intro b hb
    have := h b hb
    unfold isLowerAscii at this
    unfold toUpperAscii
    simp only [Bool.and_eq_false_iff, decide_eq_false_iff_not] at this
    rw [if_neg (by omega)]
    rfl

/-! ## The whole declaration -/

/-- The declared nodes of a declaration text (already without its `?`): the non-blank
pieces between the colons, in order, each as `(name, optional)`. -/
def declNodes (value : Bytes) : List (Bytes × Bool) :=
  (splitColon value []).filterMap fun raw =>
    if trimBytes raw = [] then none else some (declNode (trimBytes raw))

/-- The declaration text without the query mark, and whether it had one. -/
def declValue (s : Bytes) : Bytes × Bool :=
  if s.getLast? == some 63 then (s.dropLast, true) else (s, false)

theorem declValue_query (v : Bytes) : declValue (v ++ [63]) = (v, true) := by
  simp [declValue]

theorem declValue_command (s : Bytes) (h : ∀ v, s ≠ v ++ [63]) : declValue s = (s, false) := by
  unfold declValue
  by_cases hq : (s.getLast? == some 63) = true
  · exfalso
    have hq' : s.getLast? = some 63 := by simpa using hq
    have hne : s ≠ [] := by intro e; subst e; cases hq'
    apply h s.dropLast
    have h3 := List.dropLast_concat_getLast hne
    rw [List.getLast?_eq_some_getLast hne] at hq'
    simp only [Option.some.injEq] at hq'
    rw [hq'] at h3
    exact h3.symm
  · simp only [hq, Bool.false_eq_true, if_false]

theorem parts_eq_nodes (value : Bytes) :
    (splitColon value []).filterMap partOf = (declNodes value).map partOfNode := by
  unfold declNodes
  rw [List.map_filterMap]
  congr 1
  funext raw
  unfold partOf
  split <;> rfl

/-- **`Command::try_from(&str)`.**  Parsing never fails; the declaration is a QUERY iff
the text ends with `?`; and its parts are, in order, the parts of the declared nodes —
the non-blank colon-separated pieces of the text without that `?`, each trimmed, `[…]`
marking an optional node — with short form `dropLower name` and long form `upper name`. -/
theorem declaration_parse_spec (s : Bytes) :
    Command.parse s =
      .ok { parts := (declNodes (declValue s).1).map partOfNode, query := (declValue s).2 } := by
  unfold Command.parse declValue
  by_cases hq : (s.getLast? == some 63) = true
  · simp only [hq, if_true, parseParts_eq, parts_eq_nodes]
  · simp only [hq, Bool.false_eq_true, if_false, parseParts_eq, parts_eq_nodes]

/-- The same, as the implication asked for: from a successful parse, the query flag and
the parts. -/
theorem declaration_parse_ok (s : Bytes) (c : Command) (h : Command.parse s = .ok c) :
    (c.query = true ↔ ∃ v, s = v ++ [63]) ∧
    c.parts = (splitColon (declValue s).1 []).filterMap partOf ∧
    parseParts (splitColon (declValue s).1 []) = .ok c.parts ∧
    c.parts = (declNodes (declValue s).1).map partOfNode := by
  rw [declaration_parse_spec] at h
  cases h
  refine ⟨?_, (parts_eq_nodes _).symm, by rw [parseParts_eq, parts_eq_nodes], rfl⟩
  simp only
  constructor
  · intro hq
    refine ⟨s.dropLast, ?_⟩
    apply Classical.byContradiction
    intro hn
    have : ∀ v, s ≠ v ++ [63] := by
      intro v hv
      apply hn
      rw [hv]
      simp
    rw [declValue_command s this] at hq
    cases hq
  · rintro ⟨v, rfl⟩
    rw [declValue_query]

/-- `Command.parse` is total. -/
theorem parse_total (s : Bytes) : ∃ c, Command.parse s = .ok c :=
  ⟨_, declaration_parse_spec s⟩

/-! ## Matching a mnemonic against a declared node -/

/-- **Long form**: a mnemonic equals the long form ignoring ASCII case iff it equals the
DECLARED NAME ignoring ASCII case. -/
theorem long_matches_declared (name x : Bytes) :
    eqIgnoreAsciiCase (upper name) x = eqIgnoreAsciiCase name x :=
  eqIgnoreAsciiCase_upper name x

/-- … i.e. iff both have the same lower-casing. -/
theorem long_matches_declared_iff (name x : Bytes) :
    eqIgnoreAsciiCase (upper name) x = true ↔ x.map toLowerAscii = name.map toLowerAscii := by
  rw [long_matches_declared, eqIgnoreAsciiCase_spec]
  simp only [beq_iff_eq]
  exact eq_comm

/-- **Short form**: a mnemonic equals the short form ignoring ASCII case iff it equals,
ignoring ASCII case, the declared name with its lower-case letters removed. -/
theorem short_matches_declared (raw : Bytes) (p : Part) (h : parsePart raw = .ok (some p)) (x : Bytes) :
    (eqIgnoreAsciiCase p.short x = true ↔
      x.map toLowerAscii =
        (((declNode (trimBytes raw)).1.filter fun c => !isLowerAscii c)).map toLowerAscii) ∧
    (eqIgnoreAsciiCase p.long x = true ↔
      x.map toLowerAscii = (declNode (trimBytes raw)).1.map toLowerAscii) := by
  obtain ⟨_, h2, h3, h4⟩ := ((parsePart_spec raw).2.1 p).1 h
  rw [h3, h4, long_matches_declared_iff, eqIgnoreAsciiCase_spec]
  simp only [beq_iff_eq, dropLower]
  exact ⟨eq_comm, trivial⟩

/-- A header (its mnemonics as typed) matches declared nodes: every mnemonic equals,
ignoring ASCII case, the declared name or the declared name without its lower-case
letters; optional nodes may be present or omitted. -/
inductive MatchesDeclared : List (Bytes × Bool) → List Bytes → Prop where
  | nil : MatchesDeclared [] []
  | node (n : Bytes × Bool) {ns : List (Bytes × Bool)} (x : Bytes) {xs : List Bytes} :
      (eqIgnoreAsciiCase n.1 x = true ∨ eqIgnoreAsciiCase (dropLower n.1) x = true) →
      MatchesDeclared ns xs → MatchesDeclared (n :: ns) (x :: xs)
  | skip (n : Bytes × Bool) {ns : List (Bytes × Bool)} {xs : List Bytes} :
      n.2 = true → MatchesDeclared ns xs → MatchesDeclared (n :: ns) xs

/-- **The acceptance rule on the declaration text**: matching the parsed parts
(`HeaderMatches`, the rule of C01Macro.lean) is matching the declared nodes. -/
theorem header_matches_declared (nodes : List (Bytes × Bool)) (xs : List Bytes) :
    HeaderMatches (nodes.map partOfNode) xs ↔ MatchesDeclared nodes xs := by
  constructor
  · intro h
    generalize hp : nodes.map partOfNode = ps at h
    induction h generalizing nodes with
    | nil =>
      cases nodes with
      | nil => exact .nil
      | cons _ _ => cases hp
    | node p x hm _ ih =>
      cases nodes with
      | nil => cases hp
      | cons n ns =>
        simp only [List.map_cons, List.cons.injEq] at hp
        obtain ⟨rfl, hp⟩ := hp
        refine .node n x ?_ (ih ns hp)
        simpa [partOfNode, long_matches_declared] using hm
    | skip p ho _ ih =>
      cases nodes with
      | nil => cases hp
      | cons n ns =>
        simp only [List.map_cons, List.cons.injEq] at hp
        obtain ⟨rfl, hp⟩ := hp
        exact .skip n ho (ih ns hp)
  · intro h
    induction h with
    | nil => exact .nil
    | node n x hm _ ih =>
      refine .node (partOfNode n) x ?_ ih
      simpa [partOfNode, long_matches_declared] using hm
    | skip n ho _ ih => exact .skip (partOfNode n) ho ih

/-- The command a declaration text declares. -/
def declCommand (s : Bytes) : Command :=
  { parts := (declNodes (declValue s).1).map partOfNode, query := (declValue s).2 }

/-- **C01, from the declaration texts to the handler.**  In the tree compiled from the
declaration texts `ss`, the header with mnemonics `xs` and query mark `q` reaches
handler `i` iff declaration text `i` ends with `?` exactly when `q`, and every mnemonic
equals, ignoring ASCII case, the declared spelling of the corresponding node or that
spelling with its lower-case letters removed, optional (`[…]`) nodes being present or
omitted. -/
theorem invokes_iff_declared (ss : List Bytes) (t : Node)
    (h : insertAll emptyNode (ss.map declCommand) 0 = .ok t) (xs : List Bytes) (q : Bool) (i : Nat) :
    (childWalk t xs).bind (slot q) = some i ↔
      ∃ s, ss[i]? = some s ∧ (declValue s).2 = q ∧ MatchesDeclared (declNodes (declValue s).1) xs := by
  rw [invokes_iff_parsed (cmds := ss.map declCommand) ?_ h xs q i]
  · constructor
    · rintro ⟨c, hc, hq, hm⟩
      rw [List.getElem?_map] at hc
      cases hs : ss[i]? with
      | none => rw [hs] at hc; cases hc
      | some s =>
        rw [hs] at hc
        simp only [Option.map_some, Option.some.injEq] at hc
        subst hc
        exact ⟨s, rfl, hq, (header_matches_declared _ xs).1 hm⟩
    · rintro ⟨s, hs, hq, hm⟩
      exact ⟨declCommand s, by rw [List.getElem?_map, hs]; rfl, hq,
        (header_matches_declared _ xs).2 hm⟩
  · intro c hc
    obtain ⟨s, _, rfl⟩ := List.mem_map.1 hc
    exact ⟨s, declaration_parse_spec s⟩

/-! ## Examples -/

/-- `SYSTem:ERRor:[NEXT]?` — a query; `NEXT` optional. -/
example : Command.parse (C14.b "SYSTem:ERRor:[NEXT]?") =
      .ok ⟨[⟨false, C14.b "SYST", C14.b "SYSTEM"⟩, ⟨false, C14.b "ERR", C14.b "ERROR"⟩,
            ⟨true, C14.b "NEXT", C14.b "NEXT"⟩], true⟩ ∧
    declValue (C14.b "SYSTem:ERRor:[NEXT]?") = (C14.b "SYSTem:ERRor:[NEXT]", true) ∧
    declNodes (C14.b "SYSTem:ERRor:[NEXT]") =
      [(C14.b "SYSTem", false), (C14.b "ERRor", false), (C14.b "NEXT", true)] :=
  ⟨rfl, by decide, by decide⟩

/-- ` MEASure : VOLTage ` — white space around the pieces is trimmed. -/
example : Command.parse (C14.b " MEASure : VOLTage ") =
      .ok ⟨[⟨false, C14.b "MEAS", C14.b "MEASURE"⟩, ⟨false, C14.b "VOLT", C14.b "VOLTAGE"⟩], false⟩ ∧
    splitColon (C14.b " MEASure : VOLTage ") [] = [C14.b " MEASure ", C14.b " VOLTage "] ∧
    declNodes (C14.b " MEASure : VOLTage ") = [(C14.b "MEASure", false), (C14.b "VOLTage", false)] :=
  ⟨rfl, by decide, by decide⟩

/-- `aBc:D_1e` — the short form keeps exactly the bytes that are not lower-case letters,
wherever they are. -/
example : Command.parse (C14.b "aBc:D_1e") =
    .ok ⟨[⟨false, C14.b "B", C14.b "ABC"⟩, ⟨false, C14.b "D_1", C14.b "D_1E"⟩], false⟩ := rfl

/-- `OUTPut2` — digits belong to both forms. -/
example : Command.parse (C14.b "OUTPut2") =
    .ok ⟨[⟨false, C14.b "OUTP2", C14.b "OUTPUT2"⟩], false⟩ := rfl

/-- Blank pieces are skipped: `:A::b:` declares the two nodes `A` and `b` (whose short
form is empty). -/
example : Command.parse (C14.b ":A::b:") =
    .ok ⟨[⟨false, C14.b "A", C14.b "A"⟩, ⟨false, [], C14.b "B"⟩], false⟩ := rfl

/-- Matching on the text: `outp2`, `OUTPUT2`, `Output2` match the node `OUTPut2`;
`OUTPU2` and `OUTP` do not. -/
example : MatchesDeclared [(C14.b "OUTPut2", false)] [C14.b "outp2"] ∧
    MatchesDeclared [(C14.b "OUTPut2", false)] [C14.b "Output2"] ∧
    ¬ MatchesDeclared [(C14.b "OUTPut2", false)] [C14.b "OUTPU2"] ∧
    ¬ MatchesDeclared [(C14.b "OUTPut2", false)] [C14.b "OUTP"] := by
  simp only [← header_matches_declared]
  decide

/-- The hypotheses of `invokes_iff_declared` for the two error-queue declarations. -/
example : ∃ t, insertAll emptyNode
    ([C14.b "SYSTem:ERRor:[NEXT]?", C14.b "SYSTem:ERRor:COUNt?"].map declCommand) 0 = .ok t :=
  (C14.compiles_iff_pairwise _).2 (by decide)

end C01
end Scpi
