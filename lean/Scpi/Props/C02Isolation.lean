/-
C02/C06 — message isolation WITHOUT hypotheses: the parser-finality premises of
`C02.run_append_message` and `C06.later_messages_unaffected` are discharged with the
theorems of C12 (`Scpi/Props/C12.lean`: `parse_ok_append`, `parse_err_final_eq`).

Kept in a file of its own so that C02.lean and C06.lean do not depend on the parser
proofs.
-/
import Scpi.Props.C02
import Scpi.Props.C06
import Scpi.Props.C12

namespace Scpi

/-- C12/T12.1 is the first finality premise. -/
theorem parseFinalOk : ParseFinalOk :=
  fun root h x y r c hp => C12.parse_ok_append root h x y r c hp

/-- C12/T12.3 is the second. -/
theorem parseFinalErr : ParseFinalErr :=
  fun root h x y hx he => C12.parse_err_final_eq root h x hx he y

namespace C02

/-- **T2.2, unconditional.**  Let `x` end with a terminator and be consumed completely
(`rest = []`).  Then the path is back at the root and running on `x ++ y` is running on
`x` and then on `y` from the root with the writer and user state `x` left: no
interpreter state survives a terminator. -/
theorem run_append_message_closed {σ : Type} (I : Iface σ) (h : Node) (x : Bytes) (w : Writer)
    (s : σ) (hx : x.getLast? = some 10) (hrest : (runFrom I h x w s).rest = []) :
    (runFrom I h x w s).header = I.root ∧ (runFrom I h x w s).crash = none ∧
    ∀ y, runFrom I h (x ++ y) w s =
      runFrom I I.root y (runFrom I h x w s).w (runFrom I h x w s).s :=
  run_append_message I parseFinalOk parseFinalErr h x w s hx hrest

/-- The same for `run`: the handler a message selects never depends on any message
sent before it. -/
theorem run_append_message_run_closed {σ : Type} (I : Iface σ) (x y : Bytes) (w : Writer) (s : σ)
    (hx : x.getLast? = some 10) (hrest : (run I x w s).rest = []) :
    run I (x ++ y) w s = run I y (run I x w s).w (run I x w s).s :=
  run_append_message_run I parseFinalOk parseFinalErr x y w s hx hrest

/-- An instance: after the faulty message `S:A;X⏎` of the demo interface, ANY `y` is
run from the root on the state `[1, 99]`. -/
example (y : Bytes) :
    run Demo.I ([83, 58, 65, 59, 88, 10] ++ y) Demo.W [] =
      run Demo.I y (run Demo.I [83, 58, 65, 59, 88, 10] Demo.W []).w [1, 99] := by
  have := run_append_message_run_closed Demo.I [83, 58, 65, 59, 88, 10] y Demo.W []
    (by decide) (by decide)
  rw [this]
  have hs : (run Demo.I [83, 58, 65, 59, 88, 10] Demo.W []).s = [1, 99] := by decide
  rw [hs]

end C02

namespace C06

/-- **T6.2, unconditional**: every later message is executed exactly as if the earlier
ones — faulty or not — had not been sent, except for what they did to the writer and
to the user's state. -/
theorem later_messages_unaffected_closed {σ : Type} (I : Iface σ) (x y : Bytes) (w : Writer)
    (s : σ) (hx : x.getLast? = some 10) (hrest : (run I x w s).rest = []) :
    run I (x ++ y) w s = run I y (run I x w s).w (run I x w s).s :=
  later_messages_unaffected I parseFinalOk parseFinalErr x y w s hx hrest

/-- … and the errors reported for `x ++ y` are those of `x` followed by those of `y`. -/
theorem later_errors_unaffected_closed {σ : Type} (I : Iface σ) (x y : Bytes) (w : Writer)
    (s : σ) (hx : x.getLast? = some 10) (hrest : (run I x w s).rest = []) :
    errorsOf I I.root (x ++ y) w s =
      errorsOf I I.root x w s ++ errorsOf I I.root y (run I x w s).w (run I x w s).s :=
  later_errors_unaffected I parseFinalOk parseFinalErr x y w s hx hrest

end C06
end Scpi
