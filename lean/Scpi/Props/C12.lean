/-
C12 — parser verdicts are final and depend only on the consumed bytes.

When `parse` accepts a program message unit (or an empty message), the result is
determined by the bytes up to and including that unit's terminator: appending any
bytes changes nothing but the returned remainder, and at least one byte is
consumed.  When it rejects an input that ends with a newline with an error rather
than `incomplete`, every continuation of that input gets the same error, so a
streaming caller may discard it.  `incomplete` is only returned when no prefix of
the input is an accepted unit.

All statements hold for every command tree `root`, every start node `header` and
all byte strings (bytes are `Nat`, a superset of `u8`).  The proofs are in
`Scpi/Proofs/Ext*.lean`: class-bounded recognisers never look past a terminator
byte that is still in their input (`CB`), the payload recognisers (`quoted`,
`arbitrary`) may run over terminator bytes but each of their verdicts other than
`incomplete` is final (`MExt`), and the repaired ordered choice passes `incomplete`
through unchanged.
-/
import Scpi.Proofs.ExtParse

namespace Scpi
namespace C12

/-- **T12.1**: an accepted unit is determined by the bytes consumed: whatever is
appended to the input goes to the remainder and the call is the same. -/
theorem parse_ok_append (root header : Node) (x y r : Bytes) (c : Option CommandCall)
    (h : parse root header x = .ok r c) : parse root header (x ++ y) = .ok (r ++ y) c := by
  have := parse_ext root header x y (Or.inl (by rw [h]; rfl)) (by rw [h]; intro e; cases e)
  rw [this, h]; rfl

/-- **T12.2**: an accepted unit (or empty message) consumed at least one byte and
what is returned is a suffix of the input. -/
theorem parse_ok_consumes (root header : Node) (x r : Bytes) (c : Option CommandCall)
    (h : parse root header x = .ok r c) : r.length < x.length ∧ r <:+ x :=
  ⟨(parse_strict root header x).lt _ _ h, (parse_strict root header x).suffix _ _ h⟩

/-- **T12.3 (strong form)**: on an input that ends with a newline every verdict
other than `incomplete` is final: appending bytes extends the remainder of a
success and leaves an error exactly as it is. -/
theorem parse_newline_final (root header : Node) (x : Bytes) (hx : x.getLast? = some 10)
    (h : parse root header x ≠ .incomplete) (y : Bytes) :
    parse root header (x ++ y) = (parse root header x).extend y :=
  parse_ext root header x y (Or.inr hx) h

/-- **T12.3 (errors)**: an error verdict on a newline-terminated input is the verdict
on every continuation of that input. -/
theorem parse_err_final_eq (root header : Node) (x : Bytes) (hx : x.getLast? = some 10)
    (h : (∃ e, parse root header x = .soft e) ∨ (∃ e, parse root header x = .fatal e))
    (y : Bytes) : parse root header (x ++ y) = parse root header x := by
  rcases h with ⟨e, h⟩ | ⟨e, h⟩
  · rw [parse_newline_final root header x hx (by rw [h]; intro e; cases e) y, h]; rfl
  · rw [parse_newline_final root header x hx (by rw [h]; intro e; cases e) y, h]; rfl

/-- **T12.3**: … in particular no continuation of a rejected newline-terminated
input is accepted, so a streaming caller may safely discard it. -/
theorem parse_err_final (root header : Node) (x : Bytes) (hx : x.getLast? = some 10)
    (h : (∃ e, parse root header x = .soft e) ∨ (∃ e, parse root header x = .fatal e))
    (y : Bytes) : (parse root header (x ++ y)).isOk = false := by
  rw [parse_err_final_eq root header x hx h y]
  rcases h with ⟨e, h⟩ | ⟨e, h⟩ <;> rw [h] <;> rfl

/-- **T12.4**: `incomplete` is returned only when the input ends inside a unit: no
prefix of the input is an accepted unit or empty message. -/
theorem parse_incomplete_only_inside (root header : Node) (x : Bytes)
    (h : parse root header x = .incomplete) (p q : Bytes) (hpq : x = p ++ q) :
    (parse root header p).isOk = false := by
  cases hp : parse root header p with
  | ok r c =>
    rw [hpq, parse_ok_append root header p q r c hp] at h
    cases h
  | soft e => rfl
  | fatal e => rfl
  | incomplete => rfl
  | crash c => rfl

/-- The same read forwards: once a prefix is accepted the whole input is accepted
with the same call. -/
theorem parse_prefix_ok (root header : Node) (p q r : Bytes) (c : Option CommandCall)
    (h : parse root header p = .ok r c) : parse root header (p ++ q) ≠ .incomplete := by
  rw [parse_ok_append root header p q r c h]; intro e; cases e

/-! ### Non-vacuity, on a tree with the single command `X` -/

/-- root with one child `X` that has a command handler. -/
def tree : Node := .mk 0 [([88], .mk 1 [] (some 0) none)] none none

/-- `X\n` is accepted and consumed entirely (hypothesis of T12.1/T12.2). -/
example : ∃ c, parse tree tree [88, 10] = .ok [] (some c) := ⟨_, rfl⟩

/-- … and with `X\n` appended the remainder is exactly what was appended. -/
example : ∃ c, parse tree tree ([88, 10] ++ [88, 10]) = .ok [88, 10] (some c) := ⟨_, rfl⟩

/-- `X "a;b\n";X\n`: the unit ends at the `;` after the string although the payload
contains both terminator bytes. -/
example : ∃ c, parse tree tree [88, 32, 34, 97, 59, 98, 10, 34, 59, 88, 10]
    = .ok [88, 10] (some c) := ⟨_, rfl⟩

/-- `Y\n` is rejected with an error (hypothesis of T12.3), as is `X ,\n`. -/
example : parse tree tree [89, 10] = .fatal (.std .UndefinedHeader) := rfl
example : parse tree tree [88, 32, 44, 10] = .soft (some (.std .InvalidCharacter)) := rfl
example : ([89, 10] : Bytes).getLast? = some 10 := rfl

/-- The newline in T12.3 is needed: `X 1e` is an error but `X 1e5\n` is accepted. -/
example : parse tree tree [88, 32, 49, 101] = .soft (some (.std .InvalidCharacter)) ∧
    (parse tree tree ([88, 32, 49, 101] ++ [53, 10])).isOk = true := ⟨rfl, rfl⟩

/-- `X #11\n` ends with a newline that is block payload: the verdict is `incomplete`
(hypothesis of T12.4), not an error. -/
example : parse tree tree [88, 32, 35, 49, 49, 10] = .incomplete := rfl

end C12
end Scpi
