/-
C01 (macro half) — "a program header invokes a handler iff each of its mnemonics
equals, ignoring ASCII case, the short form or the long form of the
corresponding declared node, with optional nodes present or omitted and the
query mark matching the declaration; every such spelling invokes the same
handler".

The run-time walks the static tree with `Node.child` (first child whose key
equals the mnemonic ignoring ASCII case, microscpi/src/tree.rs).  This file
relates that walk (`childWalk`) on the tree emitted by the macro
(`insertAll emptyNode cmds 0`) to the declarations:

* `parse_keys_no_lowercase` : keys produced by `Command.parse` contain no lower-case letter;
* `eqIgnoreAsciiCase_spec`, `eqIgnoreAsciiCase_iff_upper`, `eqIgnoreAsciiCase_unique`;
* `tree_keysOk`             : every key of the compiled tree is lower-case-free and
                              sibling keys are pairwise distinct;
* `findChild_eq_exact`, `child_unique` : case-insensitive first match = the unique child
                              whose key is the upper-cased mnemonic;
* `childWalk_eq_walk`       : hence the run-time walk is the exact walk of the upper-cased header;
* `child_walk_iff`          : the run-time walk reaches slot `q` = `some i` iff the upper-cased
                              header is a spelling of declaration `i` of kind `q`;
* `invokes_iff`             : the same, stated on the mnemonics as typed (`HeaderMatches`);
* `same_handler`            : every matching header of declaration `i` reaches id `i`.
-/
import Scpi.Props.C14
import Scpi.Proofs.MacroKeys

namespace Scpi
namespace C01

open C14

/-- Upper-case a header: every mnemonic byte-wise. -/
def upperPath (ns : List Bytes) : List Bytes := ns.map (·.map toUpperAscii)

/-- Keys produced by `Command::try_from` contain no lower-case ASCII letter: the
short form drops them, the long form upper-cases them. -/
theorem parse_keys_no_lowercase {s : Bytes} {c : Command} (h : Command.parse s = .ok c) :
    ∀ part ∈ c.parts, ∀ b ∈ part.short ++ part.long, isLowerAscii b = false := by
  intro part hpart b hb
  obtain ⟨h1, h2⟩ := parse_partsLowerFree h part hpart
  rcases List.mem_append.1 hb with hb | hb
  · exact h1 b hb
  · exact h2 b hb

example : ∃ c, Command.parse (C14.b "SYSTem:ERRor:[NEXT]?") = .ok c ∧ c.parts.length = 3 :=
  ⟨_, rfl, by decide⟩

/-- `str::eq_ignore_ascii_case` compares the lower-cased strings. -/
theorem eqIgnoreAsciiCase_spec (k name : Bytes) :
    eqIgnoreAsciiCase k name = (k.map toLowerAscii == name.map toLowerAscii) :=
  eqIgnoreAsciiCase_eq k name

/-- A key without lower-case letters matches `name` ignoring case iff it is `name`
upper-cased. -/
theorem eqIgnoreAsciiCase_iff_upper {k : Bytes} (hk : ∀ b ∈ k, isLowerAscii b = false)
    (name : Bytes) : eqIgnoreAsciiCase k name = true ↔ k = name.map toUpperAscii :=
  Scpi.eqIgnoreAsciiCase_iff_upper hk name

/-- Two keys without lower-case letters that match the same mnemonic are equal:
the run-time cannot be confused between two siblings. -/
theorem eqIgnoreAsciiCase_unique {k₁ k₂ name : Bytes} (h₁ : ∀ b ∈ k₁, isLowerAscii b = false)
    (h₂ : ∀ b ∈ k₂, isLowerAscii b = false) (e₁ : eqIgnoreAsciiCase k₁ name = true)
    (e₂ : eqIgnoreAsciiCase k₂ name = true) : k₁ = k₂ :=
  Scpi.eqIgnoreAsciiCase_unique h₁ h₂ e₁ e₂

example : eqIgnoreAsciiCase (C14.b "SYST") (C14.b "sYsT") = true ∧
    eqIgnoreAsciiCase (C14.b "SYST") (C14.b "SYS7") = false := by decide

/-- The tree emitted for declarations with lower-case-free parts (in particular
parsed ones) satisfies the key invariant: every key lower-case-free, sibling keys
pairwise distinct (`insertChild` appends a key only when no sibling has it). -/
theorem tree_keysOk {cmds : List Command} {t : Node} (hcmds : ∀ c ∈ cmds, PartsLowerFree c)
    (h : insertAll emptyNode cmds 0 = .ok t) : KeysOk t :=
  insertAll_keysOk hcmds (keysOk_empty 0 none none) h

/-- In a tree with the key invariant the run-time's child lookup (first match
ignoring case) is the exact lookup of the upper-cased mnemonic. -/
theorem findChild_eq_exact {n : Node} (hn : KeysOk n) (name : Bytes) :
    n.child name = lookupKey n.children (name.map toUpperAscii) :=
  findChild_eq_lookupKey hn.low name

/-- … and that child is the unique one stored under the upper-cased mnemonic. -/
theorem child_unique {n : Node} (hn : KeysOk n) (name : Bytes) (c : Node) :
    n.child name = some c ↔ (name.map toUpperAscii, c) ∈ n.children := by
  rw [findChild_eq_exact hn]
  exact ⟨lookupKey_mem, lookupKey_of_mem_nodup hn.nodup⟩

/-- The run-time walk along the mnemonics `ns` is the exact walk along the
upper-cased mnemonics. -/
theorem childWalk_eq_walk {n : Node} (hn : KeysOk n) (ns : List Bytes) :
    childWalk n ns = walk n (upperPath ns) := by
  induction ns generalizing n with
  | nil => rfl
  | cons name ns ih =>
    simp only [childWalk, upperPath, List.map_cons, walk]
    rw [findChild_eq_exact hn]
    cases hl : lookupKey n.children (name.map toUpperAscii) with
    | none => rfl
    | some c => exact ih (hn.rec' _ (lookupKey_mem hl))

/-- Walking the compiled tree with `Node.child` along the mnemonics `ns` reaches a
node whose slot of kind `q` holds `i` iff the upper-cased header is a spelling of
declaration `i`, which has kind `q`. -/
theorem child_walk_iff {cmds : List Command} {t : Node} (hcmds : ∀ c ∈ cmds, PartsLowerFree c)
    (h : insertAll emptyNode cmds 0 = .ok t) (ns : List Bytes) (q : Bool) (i : Nat) :
    (childWalk t ns).bind (slot q) = some i ↔
      ∃ c, cmds[i]? = some c ∧ c.query = q ∧ Spells c (upperPath ns) := by
  rw [childWalk_eq_walk (tree_keysOk hcmds h), lookup_iff h]

/-- For lower-case-free parts, a header matches the parts (as typed, ignoring case)
iff its upper-cased form is a spelling. -/
theorem headerMatches_iff_expands {ps : List Part}
    (hps : ∀ part ∈ ps, LowerFree part.short ∧ LowerFree part.long) (ns : List Bytes) :
    HeaderMatches ps ns ↔ Expands ps (upperPath ns) := by
  constructor
  · intro h
    induction h with
    | nil => exact .nil
    | node p name hm _ ih =>
      have ih' := ih fun part hp => hps part (List.mem_cons_of_mem _ hp)
      have hp := hps p List.mem_cons_self
      simp only [upperPath, List.map_cons]
      rcases hm with hm | hm
      · rw [← (Scpi.eqIgnoreAsciiCase_iff_upper hp.2 name).1 hm]; exact .long p ih'
      · rw [← (Scpi.eqIgnoreAsciiCase_iff_upper hp.1 name).1 hm]; exact .short p ih'
    | skip p ho _ ih =>
      exact .skip p ho (ih fun part hp => hps part (List.mem_cons_of_mem _ hp))
  · intro h
    generalize hpath : upperPath ns = path at h
    induction h generalizing ns with
    | nil =>
      cases ns with
      | nil => exact .nil
      | cons n ns => simp [upperPath] at hpath
    | long p _ ih =>
      cases ns with
      | nil => simp [upperPath] at hpath
      | cons name ns =>
        simp only [upperPath, List.map_cons, List.cons.injEq] at hpath
        have hp := hps p List.mem_cons_self
        exact .node p name (.inl ((Scpi.eqIgnoreAsciiCase_iff_upper hp.2 name).2 hpath.1.symm))
          (ih (fun part hp => hps part (List.mem_cons_of_mem _ hp)) ns hpath.2)
    | short p _ ih =>
      cases ns with
      | nil => simp [upperPath] at hpath
      | cons name ns =>
        simp only [upperPath, List.map_cons, List.cons.injEq] at hpath
        have hp := hps p List.mem_cons_self
        exact .node p name (.inr ((Scpi.eqIgnoreAsciiCase_iff_upper hp.1 name).2 hpath.1.symm))
          (ih (fun part hp => hps part (List.mem_cons_of_mem _ hp)) ns hpath.2)
    | skip p ho _ ih =>
      exact .skip p ho (ih (fun part hp => hps part (List.mem_cons_of_mem _ hp)) ns hpath)

/-- C01, macro half: in the compiled tree, the header with mnemonics `ns` and
query mark `q` reaches handler `i` iff declaration `i` has kind `q` and every
mnemonic equals, ignoring ASCII case, the short or the long form of the
corresponding declared node, optional nodes being present or omitted. -/
theorem invokes_iff {cmds : List Command} {t : Node} (hcmds : ∀ c ∈ cmds, PartsLowerFree c)
    (h : insertAll emptyNode cmds 0 = .ok t) (ns : List Bytes) (q : Bool) (i : Nat) :
    (childWalk t ns).bind (slot q) = some i ↔
      ∃ c, cmds[i]? = some c ∧ c.query = q ∧ HeaderMatches c.parts ns := by
  rw [child_walk_iff hcmds h]
  constructor
  · rintro ⟨c, hc, hq, hs⟩
    exact ⟨c, hc, hq, (headerMatches_iff_expands (hcmds c (List.mem_of_getElem? hc)) ns).2 hs⟩
  · rintro ⟨c, hc, hq, hm⟩
    exact ⟨c, hc, hq, (headerMatches_iff_expands (hcmds c (List.mem_of_getElem? hc)) ns).1 hm⟩

/-- The same for declarations given as strings that `Command::try_from` accepts. -/
theorem invokes_iff_parsed {cmds : List Command} {t : Node}
    (hparse : ∀ c ∈ cmds, ∃ s, Command.parse s = .ok c)
    (h : insertAll emptyNode cmds 0 = .ok t) (ns : List Bytes) (q : Bool) (i : Nat) :
    (childWalk t ns).bind (slot q) = some i ↔
      ∃ c, cmds[i]? = some c ∧ c.query = q ∧ HeaderMatches c.parts ns := by
  refine invokes_iff ?_ h ns q i
  intro c hc
  obtain ⟨s, hs⟩ := hparse c hc
  exact parse_partsLowerFree hs

/-- Every such spelling invokes the same handler: any header matching declaration
`i` (any mix of short/long forms, any letter case, optional nodes in or out)
reaches id `i` in the slot of the declaration's kind — and therefore no other id. -/
theorem same_handler {cmds : List Command} {t : Node} (hcmds : ∀ c ∈ cmds, PartsLowerFree c)
    (h : insertAll emptyNode cmds 0 = .ok t) {i : Nat} {c : Command} (hi : cmds[i]? = some c)
    {ns : List Bytes} (hm : HeaderMatches c.parts ns) :
    (childWalk t ns).bind (slot c.query) = some i :=
  (invokes_iff hcmds h ns c.query i).2 ⟨c, hi, rfl, hm⟩

/-- A header that matches no declaration of the requested kind reaches no handler. -/
theorem no_match_no_handler {cmds : List Command} {t : Node}
    (hcmds : ∀ c ∈ cmds, PartsLowerFree c) (h : insertAll emptyNode cmds 0 = .ok t)
    (ns : List Bytes) (q : Bool)
    (hno : ∀ c ∈ cmds, c.query = q → ¬ HeaderMatches c.parts ns) :
    (childWalk t ns).bind (slot q) = none := by
  cases hr : (childWalk t ns).bind (slot q) with
  | none => rfl
  | some i =>
    obtain ⟨c, hc, hq, hm⟩ := (invokes_iff hcmds h ns q i).1 hr
    exact absurd hm (hno c (List.mem_of_getElem? hc) hq)

/-! ### Non-vacuity: the standard error-queue declarations -/

/-- `SYSTem:ERRor:[NEXT]?` and `SYSTem:ERRor:COUNt?`. -/
def errDecls : List Command := C14.decls ["SYSTem:ERRor:[NEXT]?", "SYSTem:ERRor:COUNt?"]

example : errDecls =
    [⟨[⟨false, C14.b "SYST", C14.b "SYSTEM"⟩, ⟨false, C14.b "ERR", C14.b "ERROR"⟩,
        ⟨true, C14.b "NEXT", C14.b "NEXT"⟩], true⟩,
     ⟨[⟨false, C14.b "SYST", C14.b "SYSTEM"⟩, ⟨false, C14.b "ERR", C14.b "ERROR"⟩,
        ⟨false, C14.b "COUN", C14.b "COUNT"⟩], true⟩] := by decide

theorem errDecls_lowerFree : ∀ c ∈ errDecls, PartsLowerFree c := by decide

theorem errDecls_compile : ∃ t, insertAll emptyNode errDecls 0 = .ok t :=
  (compiles_iff_pairwise _).2 (by decide)

/-- In the tree compiled from them, `syst:err?`, `SYSTem:ERRor:NEXT?` and
`system:error:next?` all invoke declaration 0; `Syst:Error:Coun?` invokes
declaration 1; `SYST:ERR` (no query mark), `SYST:ERRO?` and `SYST?` invoke nothing. -/
example (t : Node) (h : insertAll emptyNode errDecls 0 = .ok t) :
    (childWalk t [C14.b "syst", C14.b "err"]).bind (slot true) = some 0 ∧
    (childWalk t [C14.b "SYSTem", C14.b "ERRor", C14.b "NEXT"]).bind (slot true) = some 0 ∧
    (childWalk t [C14.b "system", C14.b "error", C14.b "next"]).bind (slot true) = some 0 ∧
    (childWalk t [C14.b "Syst", C14.b "Error", C14.b "Coun"]).bind (slot true) = some 1 ∧
    (childWalk t [C14.b "SYST", C14.b "ERR"]).bind (slot false) = none ∧
    (childWalk t [C14.b "SYST", C14.b "ERRO"]).bind (slot true) = none ∧
    (childWalk t [C14.b "SYST"]).bind (slot true) = none := by
  refine ⟨?_, ?_, ?_, ?_, ?_, ?_, ?_⟩
  · exact same_handler errDecls_lowerFree h (i := 0) rfl (by decide)
  · exact same_handler errDecls_lowerFree h (i := 0) rfl (by decide)
  · exact same_handler errDecls_lowerFree h (i := 0) rfl (by decide)
  · exact same_handler errDecls_lowerFree h (i := 1) rfl (by decide)
  · exact no_match_no_handler errDecls_lowerFree h _ _ (by decide)
  · exact no_match_no_handler errDecls_lowerFree h _ _ (by decide)
  · exact no_match_no_handler errDecls_lowerFree h _ _ (by decide)

end C01
end Scpi
