/-
C09, end to end — "Errors are retrievable in the order they occurred:
SYSTem:ERRor[:NEXT]? removes and returns the oldest entry as
<number>,"<description>", returning 0 and an empty description when the queue is
empty, and SYSTem:ERRor:COUNt? returns the number of stored entries.  The queue never
holds more than its capacity: an error arriving while it is full replaces the newest
stored entry by -350 'Queue overflow' and leaves older entries intact.  This holds
for every interleaving of faulty messages, queue queries and ordinary commands,
including several in one message."

`Scpi/Props/C09.lean` proves the statement for the queue as a data structure.  This
file lifts it through the dispatcher: for every interface built with
`ErrorCommands` (`Scpi.E2E.ErrIface`: arbitrary user state, arbitrary tree, arbitrary
other handlers as long as they leave the queue alone), every input and every writer,

* `handle_error_pushes`   the queue after `run` is the queue before it with the
                          observable events of the run replayed in order — `push e` for
                          every reported error `e` (parse-level or execution-level),
                          `pop` for every invocation of the `NEXT?` handler, nothing
                          for any other handler; `reported_errors_are_the_error_events`
                          ties the error events to the error log of C06;
                          `run_is_queue_history` states the same as a history of the
                          abstract bounded FIFO of C09; `errors_stored_in_order` is the
                          FIFO-order corollary;
* `next_unit_response`, `count_unit_response`, `next_unit_in_run`
                          what a `SYSTem:ERRor[:NEXT]?` / `:COUNt?` unit writes and does
                          to the queue;
* `queue_bounded_always`  the capacity bound after every run;
* `overflow_in_message`   the overflow rule at any point of any run.

Non-vacuity: `QDemo` — a concrete interface whose tree is the one the macro model
compiles from `SYSTem:ERRor:[NEXT]?`, `SYSTem:ERRor:COUNt?`, `F`, `X`, queue capacity
2 — and the history `NOPE\nF;F\nSYST:ERR:COUN?;:SYST:ERR?;:SYST:ERR?;:SYST:ERR?\n`.
-/
import Scpi.Proofs.E2EQueue
import Scpi.Props.C02
import Scpi.Props.C04
import Scpi.Props.C06
import Scpi.Props.C14

namespace Scpi
namespace C09

open E2E

/-! ## Every reported error is pushed exactly once, in order -/

section
variable {σ : Type} (E : ErrIface σ)

/-- **`handle_error_pushes`.**  For every interface built with `ErrorCommands`,
every input `x`, writer `w` and user state `s`: the error queue after `run` is the
queue before it with the observable events of the run (`eventsOf`: the log of the
tracing wrapper `I.traced`, i.e. every handler invocation and every error handed to
`handle_error`, in the order in which they happened) replayed: `push e` for each
reported error `e`, `pop` for each invocation of the `NEXT?` handler, nothing for
any other handler.  So every error of the run — whether a parse-level fault of a
message or the error of an executed unit — is pushed exactly once, at its place in
the order of events, and nothing else touches the queue. -/
theorem handle_error_pushes (x : Bytes) (w : Writer) (s : σ) :
    E.getQ (run E.I x w s).s = replay E.idNext (E.getQ s) (eventsOf E.I E.I.root x w s) :=
  getQ_runFrom E E.I.root x w s

/-- The same from an arbitrary header path (`run_from`). -/
theorem handle_error_pushes_from (h : Node) (x : Bytes) (w : Writer) (s : σ) :
    E.getQ (runFrom E.I h x w s).s = replay E.idNext (E.getQ s) (eventsOf E.I h x w s) :=
  getQ_runFrom E h x w s

/-- The events are those the tracing wrapper of C02/C06 logs (started with an
empty log), and tracing does not change the run. -/
theorem events_are_the_trace {σ : Type} (I : Iface σ) (h : Node) (x : Bytes) (w : Writer) (s : σ) :
    (runFrom I.traced h x w (s, [])).s = ((runFrom I h x w s).s, eventsOf I h x w s) := by
  have := C02.traced_same_behaviour I h x w s []
  rw [this]
  rfl

/-- The error events of the trace are exactly the errors the logging wrapper of C06
records — one per faulty unit (`Scpi.C06.one_error_per_unit`), parse-level or
execution-level, in order of occurrence. -/
theorem reported_errors_are_the_error_events {σ : Type} (I : Iface σ) (h : Node) (x : Bytes)
    (w : Writer) (s : σ) :
    (runFrom I.logged h x w (s, [])).s.2 = (eventsOf I h x w s).filterMap evErr? := by
  rw [eventsOf_errs, runFrom_logged]
  rfl

/-- One unit: the queue after the unit is the queue before it with the unit's events
replayed — first the handler invocation (if one is made), then the error report (if
the unit is faulty). -/
theorem unit_queue_effect (c : Cfg σ) :
    E.getQ (stepState (unitStep E.I c)) = replay E.idNext (E.getQ c.s) (unitEvents E.I c) :=
  getQ_unitStep E c

/-- **The run as a history of the bounded FIFO.**  The queue after a run holds what
the abstract bounded FIFO of capacity `cap` (`specRun`, C09) holds after the
operations the events stand for. -/
theorem run_is_queue_history (x : Bytes) (w : Writer) (s : σ) :
    (E.getQ (run E.I x w s).s).items =
      (specRun (E.getQ s).cap (E.getQ s).items
        ((eventsOf E.I E.I.root x w s).map (evOp E.idNext))).1 ∧
    (E.getQ (run E.I x w s).s).cap = (E.getQ s).cap := by
  rw [handle_error_pushes, replay_eq_runOps]
  have := queue_refines ((eventsOf E.I E.I.root x w s).map (evOp E.idNext)) (E.getQ s)
  refine ⟨(congrArg Prod.fst this : _), ?_⟩
  rw [← replay_eq_runOps, replay_cap]

/-- **Errors are stored in the order they occurred.**  If no `NEXT?` is executed
during the run and the reported errors fit, the queue afterwards is the queue before
followed by the reported errors (`errorsOf`: the error log of C06) in order. -/
theorem errors_stored_in_order (x : Bytes) (w : Writer) (s : σ)
    (hno : ∀ args, Ev.call E.idNext args ∉ eventsOf E.I E.I.root x w s)
    (hfit : (E.getQ s).items.length + (errorsOf E.I E.I.root x w s).length ≤ (E.getQ s).cap) :
    (E.getQ (run E.I x w s).s).items = (E.getQ s).items ++ errorsOf E.I E.I.root x w s := by
  rw [handle_error_pushes, replay_no_next _ _ _ hno, eventsOf_errs]
  exact pushAll_items _ _ hfit

/-! ## The capacity bound -/

/-- **`queue_bounded_always`.**  For every input, the queue holds at most its capacity
after the run if it did before, and the capacity itself never changes. -/
theorem queue_bounded_always (x : Bytes) (w : Writer) (s : σ)
    (h : (E.getQ s).items.length ≤ (E.getQ s).cap) :
    (E.getQ (run E.I x w s).s).items.length ≤ (E.getQ s).cap ∧
    (E.getQ (run E.I x w s).s).cap = (E.getQ s).cap := by
  rw [handle_error_pushes]
  exact ⟨replay_length_le _ _ _ h, replay_cap _ _ _⟩

/-- The bound holds after every prefix of the events of the run too (at every moment
of the run, not only at its end). -/
theorem queue_bounded_at_every_event (x : Bytes) (w : Writer) (s : σ)
    (h : (E.getQ s).items.length ≤ (E.getQ s).cap) (n : Nat) :
    (replay E.idNext (E.getQ s) ((eventsOf E.I E.I.root x w s).take n)).items.length ≤
      (E.getQ s).cap :=
  replay_length_le _ _ _ h

/-! ## Overflow -/

/-- **`overflow_in_message`.**  Wherever in a run an error `e` is reported (`pre` are
the events before it, `post` those after it) while the queue is full: the newest
stored entry becomes −350 'Queue overflow', all older entries are intact (and `e`
itself is lost); the rest of the run goes on from that queue. -/
theorem overflow_in_message (x : Bytes) (w : Writer) (s : σ) (pre post : List Ev) (e : Err)
    (hev : eventsOf E.I E.I.root x w s = pre ++ Ev.error e :: post)
    (hfull : ¬ (replay E.idNext (E.getQ s) pre).items.length < (replay E.idNext (E.getQ s) pre).cap)
    (hne : (replay E.idNext (E.getQ s) pre).items ≠ []) :
    ∃ q2 : EQueue,
      q2.items = (replay E.idNext (E.getQ s) pre).items.dropLast ++ [Err.std .QueueOverflow] ∧
      q2.cap = (E.getQ s).cap ∧
      E.getQ (run E.I x w s).s = replay E.idNext q2 post := by
  refine ⟨(replay E.idNext (E.getQ s) pre).push e, overflow_keeps_older _ e hfull hne, ?_, ?_⟩
  · rw [push_cap, replay_cap]
  · rw [handle_error_pushes, hev, replay_append, replay_cons]
    rfl

/-- The case of a message whose only event is one error, on a full queue. -/
theorem overflow_single_error (x : Bytes) (w : Writer) (s : σ) (e : Err)
    (hev : eventsOf E.I E.I.root x w s = [Ev.error e])
    (hfull : ¬ (E.getQ s).items.length < (E.getQ s).cap) (hne : (E.getQ s).items ≠ []) :
    (E.getQ (run E.I x w s).s).items = (E.getQ s).items.dropLast ++ [Err.std .QueueOverflow] := by
  obtain ⟨q2, h1, _, h3⟩ := overflow_in_message E x w s [] [] e hev hfull hne
  rw [h3]
  exact h1

/-! ## `SYSTem:ERRor[:NEXT]?` and `SYSTem:ERRor:COUNt?` -/

/-- The bytes of the response to `SYSTem:ERRor[:NEXT]?` on queue `q` (without the
newline): `0,""` for the empty queue, else number, comma, and the description of the
OLDEST entry between double quotes, quotes inside it doubled. -/
def nextBytes (q : EQueue) : Bytes :=
  match q.items with
  | [] => [48, 44, 34, 34]
  | e :: _ => (intPieces e.number).flatten ++ [44] ++ (34 :: dbl e.descBytes ++ [34])

theorem nextBytes_empty (q : EQueue) (h : q.items = []) : nextBytes q = [48, 44, 34, 34] := by
  simp [nextBytes, h]

theorem nextBytes_oldest (q : EQueue) (e : Err) (rest : List Err) (h : q.items = e :: rest) :
    nextBytes q = (intPieces e.number).flatten ++ [44] ++ (34 :: dbl e.descBytes ++ [34]) := by
  simp [nextBytes, h]

/-- `pop` removes the oldest entry (and nothing from the empty queue). -/
theorem pop_items (q : EQueue) : q.pop.2.items = q.items.tail ∧ q.pop.2.cap = q.cap := by
  rcases q with ⟨cap, items⟩
  cases items <;> exact ⟨rfl, rfl⟩

theorem next_resp_encode (q : EQueue) : (systemErrorNext q).2.encode = nextBytes q := by
  unfold systemErrorNext nextBytes EQueue.pop
  cases q.items with
  | nil =>
    simp only [next_encoding, quoted_bytes]
    rfl
  | cons e rest =>
    simp only [next_encoding, quoted_bytes]

theorem next_resp_no_fail (q : EQueue) : ∀ c ∈ (systemErrorNext q).2.calls, c.isFail = false := by
  have key : ∀ (n : Int) (d : Bytes), ∀ c ∈ (Resp.seq [.int n, .str d]).calls, c.isFail = false := by
    intro n d c hc
    simp only [Resp.calls, Resp.seqCalls, List.nil_append, List.append_nil, Bool.false_eq_true,
      if_false, if_true, List.mem_append, List.mem_cons, List.not_mem_nil,
      or_false] at hc
    rcases hc with hc | hc | hc
    · subst hc; rfl
    · subst hc; rfl
    · exact quoted_no_fail d c hc
  unfold systemErrorNext EQueue.pop
  cases q.items with
  | nil => exact key _ _
  | cons e rest => exact key _ _

/-- The `NEXT?` unit pops the queue whatever happens to the response: the handler runs
before anything is written, so an entry whose response does not fit in the writer is
removed all the same (and the write error is then reported like any other error). -/
theorem next_unit_queue (call : CommandCall) (w : Writer) (s : σ)
    (hq : call.query = true) (hslot : call.node.query = some E.idNext) (hargs : call.args = []) :
    (execute E.I call w s).1 = E.setQ s (E.getQ s).pop.2 := by
  obtain ⟨c, hc, hty, hh⟩ := E.next_cmd
  have hinv : invocation E.I call = some (E.idNext, []) := by
    unfold invocation unitSlot
    simp only [hq, if_true, hslot, hc, hargs, hty, List.length_nil, ne_eq, not_true_eq_false,
      if_false, convertArgs]
  rw [execute_state, hinv]
  simp only [stateAfter, hc, hh, ErrIface.systemErrorNext_fst]

/-- **`next_unit_response`.**  A unit `SYSTem:ERRor[:NEXT]?` (its header resolved to a
node whose query slot is the `NEXT?` handler; no parameters), executed on a state whose
queue is `q`, on any writer with room for the response: the execution succeeds; the
new user state is the old one with the oldest entry of the queue removed (the empty
queue stays empty); the writer has received exactly `nextBytes q` — `<number>,
"<description>"` of the oldest entry, or `0,""` — followed by a newline, and then one
flush; nothing else. -/
theorem next_unit_response (call : CommandCall) (w : Writer) (s : σ)
    (hq : call.query = true) (hslot : call.node.query = some E.idNext) (hargs : call.args = [])
    (hroom : w.cap = none ∨
      ∃ c, w.cap = some c ∧ w.buf.length + ((nextBytes (E.getQ s)).length + 1) ≤ c) :
    ∃ w', execute E.I call w s = (E.setQ s (E.getQ s).pop.2, w', .ok) ∧
      w'.cap = w.cap ∧ w'.buf = w.buf ++ nextBytes (E.getQ s) ++ [10] ∧
      ∃ ws : List Bytes, w'.evs = w.evs ++ ws.map WEv.w ++ [WEv.f] ∧
        ws.flatten = nextBytes (E.getQ s) ++ [10] := by
  obtain ⟨c, hc, hty, hh⟩ := E.next_cmd
  have hret : Returned E.I E.idNext call.args s (E.setQ s (systemErrorNext (E.getQ s)).1)
      (systemErrorNext (E.getQ s)).2 :=
    ⟨c, [], hc, by rw [hargs, hty]; rfl, by rw [hargs, hty]; rfl, hh s []⟩
  rw [← next_resp_encode] at hroom
  obtain ⟨w', hw'⟩ := C04.execute_query_total E.I call w s _ E.idNext _ hq hslot hret
    (next_resp_no_fail _) hroom
  obtain ⟨id, resp, hslot', hret', hcap, hbuf, ws, hevs, hfl⟩ :=
    C04.execute_query_ok E.I call w w' s _ hw' hq
  have hid : id = E.idNext := by rw [hslot] at hslot'; cases hslot'; rfl
  subst hid
  obtain ⟨c', tvs', hc', _, _, hh'⟩ := hret'
  rw [hc] at hc'; cases hc'
  rw [hh] at hh'
  have hresp : resp = (systemErrorNext (E.getQ s)).2 := by
    simp only [Prod.mk.injEq, Except.ok.injEq] at hh'
    exact hh'.2.symm
  subst hresp
  rw [next_resp_encode] at hbuf hfl
  rw [ErrIface.systemErrorNext_fst] at hw'
  exact ⟨w', hw', hcap, hbuf, ws, hevs, hfl⟩

/-- The same unit inside a run: the loop goes on behind the unit with the popped queue
and the writer that received the response (no error is reported for the unit). -/
theorem next_unit_in_run (h : Node) (input i : Bytes) (call : CommandCall) (w : Writer) (s : σ)
    (hne : input ≠ []) (hp : parse E.I.root h input = .ok i (some call))
    (hq : call.query = true) (hslot : call.node.query = some E.idNext) (hargs : call.args = [])
    (hroom : w.cap = none ∨
      ∃ c, w.cap = some c ∧ w.buf.length + ((nextBytes (E.getQ s)).length + 1) ≤ c) :
    ∃ w', runFrom E.I h input w s =
        runFrom E.I (headerAfter E.I.root h call) i w' (E.setQ s (E.getQ s).pop.2) ∧
      w'.buf = w.buf ++ nextBytes (E.getQ s) ++ [10] := by
  obtain ⟨w', hex, _, hbuf, _⟩ := next_unit_response E call w s hq hslot hargs hroom
  refine ⟨w', ?_, hbuf⟩
  rw [C02.runFrom_call E.I h input i call w s hne hp, hex]
  rfl

/-- **`count_unit_response`.**  A unit `SYSTem:ERRor:COUNt?` executed on a state whose
queue holds `n` entries, on any writer with room: the execution succeeds, the user
state (queue included) is unchanged, and the writer has received exactly the decimal
digits of `n`, a newline, and then one flush. -/
theorem count_unit_response (call : CommandCall) (w : Writer) (s : σ)
    (hq : call.query = true) (hslot : call.node.query = some E.idCount) (hargs : call.args = [])
    (hroom : w.cap = none ∨
      ∃ c, w.cap = some c ∧ w.buf.length + ((natDigits (E.getQ s).items.length).length + 1) ≤ c) :
    ∃ w', execute E.I call w s = (s, w', .ok) ∧
      w'.cap = w.cap ∧ w'.buf = w.buf ++ natDigits (E.getQ s).items.length ++ [10] ∧
      ∃ ws : List Bytes, w'.evs = w.evs ++ ws.map WEv.w ++ [WEv.f] ∧
        ws.flatten = natDigits (E.getQ s).items.length ++ [10] := by
  obtain ⟨c, hc, hty, hh⟩ := E.count_cmd
  have henc : (systemErrorCount (E.getQ s)).encode = natDigits (E.getQ s).items.length := by
    rw [count_is_length, encode_int]
    have : ¬ (((E.getQ s).items.length : Int) < 0) := by omega
    simp [intPieces, this]
  have hnf : ∀ c ∈ (systemErrorCount (E.getQ s)).calls, c.isFail = false := by
    intro c hc
    simp only [systemErrorCount, Resp.calls, List.mem_singleton] at hc
    subst hc; rfl
  have hret : Returned E.I E.idCount call.args s s (systemErrorCount (E.getQ s)) :=
    ⟨c, [], hc, by rw [hargs, hty]; rfl, by rw [hargs, hty]; rfl, hh s []⟩
  rw [← henc] at hroom
  obtain ⟨w', hw'⟩ := C04.execute_query_total E.I call w s _ E.idCount _ hq hslot hret hnf hroom
  obtain ⟨id, resp, hslot', hret', hcap, hbuf, ws, hevs, hfl⟩ :=
    C04.execute_query_ok E.I call w w' s _ hw' hq
  have hid : id = E.idCount := by rw [hslot] at hslot'; cases hslot'; rfl
  subst hid
  obtain ⟨c', tvs', hc', _, _, hh'⟩ := hret'
  rw [hc] at hc'; cases hc'
  rw [hh] at hh'
  have hresp : resp = systemErrorCount (E.getQ s) := by
    simp only [Prod.mk.injEq, Except.ok.injEq] at hh'
    exact hh'.2.symm
  subst hresp
  rw [henc] at hbuf hfl
  exact ⟨w', hw', hcap, hbuf, ws, hevs, hfl⟩

end

/-! ## Non-vacuity -/

namespace QDemo

/-- The declarations: the two the attribute adds for `error_commands`, a command `F`
whose handler fails, a command `X` that succeeds. -/
def decls : List Command := C14.decls ["SYSTem:ERRor:[NEXT]?", "SYSTem:ERRor:COUNt?", "F", "X"]

/-- The node `SYSTem:ERRor`: query slot 0 (the optional `NEXT` omitted), children
`NEXT` (query 0), `COUNT` and `COUN` (query 1). -/
def nErr : Node :=
  .mk 0 [(C14.b "NEXT", .mk 0 [] none (some 0)), (C14.b "COUNT", .mk 0 [] none (some 1)),
         (C14.b "COUN", .mk 0 [] none (some 1))] none (some 0)

def nSyst : Node := .mk 0 [(C14.b "ERROR", nErr), (C14.b "ERR", nErr)] none none

/-- The command tree (ids are positions in `decls`: `NEXT?` 0, `COUNt?` 1, `F` 2,
`X` 3).  `SYST:ERR?` and `SYST:ERR:NEXT?` both lead to id 0. -/
def tree : Node :=
  .mk 0 [(C14.b "SYSTEM", nSyst), (C14.b "SYST", nSyst), (C14.b "F", .mk 0 [] (some 2) none),
         (C14.b "X", .mk 0 [] (some 3) none)] none none

theorem decls_eq : decls =
    [⟨[⟨false, C14.b "SYST", C14.b "SYSTEM"⟩, ⟨false, C14.b "ERR", C14.b "ERROR"⟩,
        ⟨true, C14.b "NEXT", C14.b "NEXT"⟩], true⟩,
     ⟨[⟨false, C14.b "SYST", C14.b "SYSTEM"⟩, ⟨false, C14.b "ERR", C14.b "ERROR"⟩,
        ⟨false, C14.b "COUN", C14.b "COUNT"⟩], true⟩,
     ⟨[⟨false, C14.b "F", C14.b "F"⟩], false⟩, ⟨[⟨false, C14.b "X", C14.b "X"⟩], false⟩] := by
  decide +kernel

/-- `tree` is exactly the tree the macro model compiles from the declarations. -/
theorem tree_compiled : insertAll emptyNode decls 0 = .ok tree := by
  rw [decls_eq]
  simp [insertAll, insertPaths, insertAt, insertChild, Command.paths, extendPaths, emptyNode,
    C14.b, tree, nSyst, nErr]

/-- User state: the error queue and a log of the user handlers that ran. -/
abbrev St := EQueue × List Nat

def iface : Iface St where
  root := tree
  cmds :=
    [ { argTys := [], handler := fun s _ =>
          (((systemErrorNext s.1).1, s.2), .ok (systemErrorNext s.1).2) },
      { argTys := [], handler := fun s _ => (s, .ok (systemErrorCount s.1)) },
      { argTys := [], handler := fun s _ => ((s.1, s.2 ++ [2]), .error (.custom 42 [120])) },
      { argTys := [], handler := fun s _ => ((s.1, s.2 ++ [3]), .ok .unit) } ]
  onError := fun s e => (handleErrorQueue s.1 e, s.2)

/-- The demo interface is an `ErrorCommands` interface. -/
def E : ErrIface St where
  I := iface
  getQ := Prod.fst
  setQ := fun s q => (q, s.2)
  get_set := fun _ _ => rfl
  set_get := fun _ => rfl
  set_set := fun _ _ _ => rfl
  onError_eq := fun _ _ => rfl
  idNext := 0
  idCount := 1
  ids_ne := by decide
  next_cmd := ⟨_, rfl, rfl, fun _ _ => rfl⟩
  count_cmd := ⟨_, rfl, rfl, fun _ _ => rfl⟩
  others_keep := by
    intro id c hc h0 h1 s tvs
    match id, h0, h1, hc with
    | 2, _, _, hc => cases hc; rfl
    | 3, _, _, hc => cases hc; rfl
    | n + 4, _, _, hc => simp [iface] at hc

/-- `NOPE\nF;F\nSYST:ERR:COUN?;:SYST:ERR?;:SYST:ERR?;:SYST:ERR?\n` -/
def history : Bytes :=
  C14.b "NOPE\nF;F\nSYST:ERR:COUN?;:SYST:ERR?;:SYST:ERR?;:SYST:ERR?\n"

/-- Initial state: empty queue of capacity 2. -/
def s0 : St := ({ cap := 2 }, [])

def W : Writer := { cap := none }

/-- The events of the history: the undefined header, `F` twice (each invoked, each
failing with the custom error 42), then `COUNt?` and three times `NEXT?`. -/
example : eventsOf iface tree history W s0 =
    [.error (.std .UndefinedHeader), .call 2 [], .error (.custom 42 [120]), .call 2 [],
     .error (.custom 42 [120]), .call 1 [], .call 0 [], .call 0 [], .call 0 []] := by
  decide +kernel

/-- The responses: count `2`; then `-113,"Undefined header"` (the oldest); then
`-350,"Queue overflow"` (the second `F` error arrived while the queue was full and
replaced the newest entry, the first `F` error); then `0,""`.  All in one response
message, separated by the newlines `execute` writes. -/
example : (run iface history W s0).w.buf =
    C14.b "2\n-113,\"Undefined header\"\n-350,\"Queue overflow\"\n0,\"\"\n" := by
  decide +kernel

/-- After `NOPE\nF;F\n` the queue is `[-113, -350]`: the older entry is intact. -/
example : (run iface (C14.b "NOPE\nF;F\n") W s0).s.1.items =
    [.std .UndefinedHeader, .std .QueueOverflow] := by
  decide +kernel

/-- The hypotheses of `overflow_in_message` hold for the message `F\n` on the full queue
`[-113, 42]`, with `pre = [call F]` (the handler of `F` is invoked, then fails) and
`post = []`. -/
example :
    let s : St := ({ cap := 2, items := [.std .UndefinedHeader, .custom 42 [120]] }, [])
    eventsOf E.I E.I.root (C14.b "F\n") W s = [.call 2 []] ++ Ev.error (.custom 42 [120]) :: [] ∧
    ¬ (replay E.idNext (E.getQ s) [.call 2 []]).items.length <
        (replay E.idNext (E.getQ s) [.call 2 []]).cap ∧
    (replay E.idNext (E.getQ s) [.call 2 []]).items ≠ [] := by
  decide +kernel

/-- … and of `overflow_single_error` for the undefined header `NOPE\n`. -/
example :
    let s : St := ({ cap := 2, items := [.std .UndefinedHeader, .custom 42 [120]] }, [])
    eventsOf E.I E.I.root (C14.b "NOPE\n") W s = [Ev.error (.std .UndefinedHeader)] ∧
    (E.getQ (run E.I (C14.b "NOPE\n") W s).s).items =
      [.std .UndefinedHeader, .std .QueueOverflow] := by
  decide +kernel

/-- "The parser turns this input into a parameterless query unit whose node has `id` in
its query slot" as a Boolean, so that the kernel can evaluate it. -/
def isQueryCallTo (r : PResult (Option CommandCall)) (id : Nat) : Bool :=
  match r with
  | .ok _ (some call) => call.query && call.node.query == some id && call.args.isEmpty
  | _ => false

theorem isQueryCallTo_spec {r : PResult (Option CommandCall)} {id : Nat}
    (h : isQueryCallTo r id = true) :
    ∃ i call, r = .ok i (some call) ∧ call.query = true ∧ call.node.query = some id ∧
      call.args = [] := by
  unfold isQueryCallTo at h
  split at h
  · next i call =>
    simp only [Bool.and_eq_true, beq_iff_eq, List.isEmpty_iff] at h
    exact ⟨i, call, rfl, h.1.1, h.1.2, h.2⟩
  · cases h

/-- The hypotheses of `next_unit_response` / `count_unit_response` are satisfiable: the
calls the parser produces for `SYST:ERR?`, `system:error:next?` and `SYST:ERR:COUN?`. -/
example : ∃ i call, parse tree tree (C14.b "SYST:ERR?\n") = .ok i (some call) ∧
    call.query = true ∧ call.node.query = some E.idNext ∧ call.args = [] :=
  isQueryCallTo_spec (by decide +kernel)

example : ∃ i call, parse tree tree (C14.b "system:error:next?;") = .ok i (some call) ∧
    call.query = true ∧ call.node.query = some E.idNext ∧ call.args = [] :=
  isQueryCallTo_spec (by decide +kernel)

example : ∃ i call, parse tree tree (C14.b "SYST:ERR:COUN?\n") = .ok i (some call) ∧
    call.query = true ∧ call.node.query = some E.idCount ∧ call.args = [] :=
  isQueryCallTo_spec (by decide +kernel)

/-- `errors_stored_in_order` on `NOPE\nF\n` (no `NEXT?`, two errors fit). -/
example : (∀ args, Ev.call E.idNext args ∉ eventsOf E.I E.I.root (C14.b "NOPE\nF\n") W s0) ∧
    (E.getQ s0).items.length + (errorsOf E.I E.I.root (C14.b "NOPE\nF\n") W s0).length ≤
      (E.getQ s0).cap := by
  have h : eventsOf E.I E.I.root (C14.b "NOPE\nF\n") W s0 =
      [.error (.std .UndefinedHeader), .call 2 [], .error (.custom 42 [120])] := by
    decide +kernel
  refine ⟨fun args hm => ?_, ?_⟩
  · rw [h] at hm
    simp [E] at hm
  · rw [← eventsOf_errs, h]
    decide

end QDemo

end C09
end Scpi
