/-
C10 corner — a response that EXACTLY fills the response buffer is not lost.

`process::<N, _>` runs every message on a fresh `N`-byte response buffer
(`heapless::Vec<u8, N>`), and hands the buffer to the adapter (one `write`, one
`flush`) when it is not empty.  The theorems already in the project that compare this
with `run` on an unbounded writer (`C08.run_bounded_eq_unbounded`,
`C08.process_payload_newline`) carry the hypothesis `response length ≤ N` — with `≤`,
so the boundary `= N` is included — and `C07.process_eq_runs` gives the exact shape of
the adapter calls.  `process_exact_fit` below is therefore a SHORT COROLLARY of
`C07.process_eq_runs`, `C07.isMessage_check` and `C08.run_bounded_eq_unbounded`; it is
restated here under its own name, for one complete message, with
* the adapter calls spelled out (`[write out, flush]`, nothing if `out` is empty),
* the errors and handler invocations compared through the tracing wrapper
  (`process_exact_fit_traced`),
and with examples evaluated AT the boundary (`N = 5`, a 5-byte response) and one byte
below it (`N = 4`: the terminator of the same response no longer fits, one error).
-/
import Scpi.Props.C07
import Scpi.Props.C08Process

namespace Scpi
namespace C10

/-- **A response that exactly fills the buffer is delivered.**  Let the stream be one
complete message `m = body ++ ⏎` (no other newline, consumed entirely by `run`) that
fits the `n`-byte command buffer, and let `out`, the bytes `run` writes for it on an
UNBOUNDED writer, satisfy `out.length ≤ n` — the boundary `out.length = n` included.
Then `process` with buffer size `n`, over every read schedule without transport fault,
* makes exactly the adapter calls `write out, flush` (none if `out` is empty) besides
  its reads — one write with exactly the bytes of `run`, one flush, nothing lost,
  nothing added — and
* ends in the user state `run` ends in (the user state is arbitrary and is changed only
  by handlers and the error handler: same handlers, same errors; made explicit in
  `process_exact_fit_traced`). -/
theorem process_exact_fit {σ : Type} (I : Iface σ) (n : Nat) (sc : Script) (body : Bytes) (s : σ)
    (hf : sc.fault = none) (hst : sc.stream = body ++ [10]) (hb : ∀ b ∈ body, b ≠ 10)
    (hfit : (body ++ [10]).length ≤ n)
    (hc : (run I (body ++ [10]) { cap := none } s).rest = [])
    (hresp : (run I (body ++ [10]) { cap := none } s).w.buf.length ≤ n) :
    (process I n sc s).trace.filter PEv.nonRead =
      (if (run I (body ++ [10]) { cap := none } s).w.buf = [] then []
       else [PEv.w (run I (body ++ [10]) { cap := none } s).w.buf, PEv.f]) ∧
    (process I n sc s).user = (run I (body ++ [10]) { cap := none } s).s := by
  have hfit' : body.length + 1 ≤ n := by simpa using hfit
  have hmsg : IsMessage I n (body ++ [10]) :=
    C07.isMessage_check I n body { cap := none } s hb hfit' hc
  obtain ⟨hu, ht⟩ := C07.process_eq_runs I n sc [body ++ [10]] s (by omega) hf
    (by simp [hst]) (fun m hm => by
      simp only [List.mem_cons, List.not_mem_nil, or_false] at hm
      rw [hm]; exact hmsg)
  obtain ⟨es, eb, _⟩ := C08.run_bounded_eq_unbounded I n (body ++ [10]) s hresp
  simp only [runMessages, List.nil_append, eb, es] at hu ht
  exact ⟨ht, hu⟩

/-- **… and the same handlers run and the same errors are reported.**  With the tracing
wrapper (`I.traced` logs every handler invocation with its converted parameters and
every error handed to the error handler, in order, and otherwise behaves like `I`) the
log of `process` is the log of `run` on an unbounded writer: in particular NO error
(`TooMuchData`, `SystemError`) is caused by the response filling the buffer to the
last byte. -/
theorem process_exact_fit_traced {σ : Type} (I : Iface σ) (n : Nat) (sc : Script) (body : Bytes)
    (s : σ) (hf : sc.fault = none) (hst : sc.stream = body ++ [10]) (hb : ∀ b ∈ body, b ≠ 10)
    (hfit : (body ++ [10]).length ≤ n)
    (hc : (run I (body ++ [10]) { cap := none } s).rest = [])
    (hresp : (run I (body ++ [10]) { cap := none } s).w.buf.length ≤ n) :
    (process I.traced n sc (s, [])).trace.filter PEv.nonRead =
      (if (run I (body ++ [10]) { cap := none } s).w.buf = [] then []
       else [PEv.w (run I (body ++ [10]) { cap := none } s).w.buf, PEv.f]) ∧
    (process I.traced n sc (s, [])).user =
      ((run I (body ++ [10]) { cap := none } s).s,
       runLog I (fun id tvs => [Ev.call id tvs]) (fun e => [Ev.error e]) I.root (body ++ [10])
         { cap := none } s) := by
  have e : run I.traced (body ++ [10]) { cap := none } (s, []) =
      (run I (body ++ [10]) { cap := none } s).withLog
        ([] ++ runLog I _ _ I.root (body ++ [10]) { cap := none } s) :=
    runFrom_instrument I _ _ I.root (body ++ [10]) { cap := none } s []
  obtain ⟨a, b⟩ := process_exact_fit I.traced n sc body (s, []) hf hst hb hfit
    (by rw [e]; exact hc) (by rw [e]; exact hresp)
  rw [a, b, e]
  exact ⟨rfl, rfl⟩

/-! ### At the boundary: `N = 5` and a 5-byte response -/

/-- One query `Q?` answering `1234`: with the terminator the response is the 5 bytes
`1234⏎`.  The user state logs handler calls (`none`) and reported errors (`some e`). -/
def fitI : Iface (List (Option Err)) where
  root := .mk 0 [([81], .mk 1 [] none (some 0))] none none
  cmds := [{ argTys := [], handler := fun s _ => (s ++ [none], .ok (.int 1234)) }]
  onError := fun s e => s ++ [some e]

/-- `Q?⏎` delivered in reads of 1 and 2 bytes. -/
def fitScript : Script := { stream := [81, 63, 10], sizes := [1, 2] }

/-- On an unbounded writer `run` consumes `Q?⏎`, answers the 5 bytes `1234⏎` and
reports nothing. -/
theorem fit_run : (run fitI [81, 63, 10] { cap := none } []).rest = [] ∧
    (run fitI [81, 63, 10] { cap := none } []).w.buf = [49, 50, 51, 52, 10] ∧
    (run fitI [81, 63, 10] { cap := none } []).s = [none] := by decide +kernel

/-- The hypotheses of `process_exact_fit` hold with EQUALITY in the response bound
(`out.length = 5 = n`), so the theorem gives: one write of all 5 bytes, one flush. -/
example : (process fitI 5 fitScript []).trace.filter PEv.nonRead =
      [.w [49, 50, 51, 52, 10], .f] ∧
    (process fitI 5 fitScript []).user = [none] := by
  have hb : (run fitI ([81, 63] ++ [10]) { cap := none } []).w.buf = [49, 50, 51, 52, 10] :=
    fit_run.2.1
  have hs : (run fitI ([81, 63] ++ [10]) { cap := none } []).s = [none] := fit_run.2.2
  have h := process_exact_fit fitI 5 fitScript [81, 63] [] rfl rfl (by decide) (by decide)
    fit_run.1 (by rw [hb]; decide)
  rw [hb, hs] at h
  exact h

/-- The same by evaluating `process` itself: the whole trace, reads included. -/
example : (process fitI 5 fitScript []).trace = [.r 1 5, .r 2 4, .w [49, 50, 51, 52, 10], .f] ∧
    (process fitI 5 fitScript []).user = [none] := by decide +kernel

/-- The bound is sharp: with `N = 4` the digits fit but the terminator does not; the
unit reports `TooMuchData`, and the buffer sent is the truncated `1234`. -/
example : (process fitI 4 fitScript []).trace = [.r 1 4, .r 2 3, .w [49, 50, 51, 52], .f] ∧
    (process fitI 4 fitScript []).user = [none, some (.std .TooMuchData)] := by decide +kernel

end C10
end Scpi
