/-
C09 — the error queue is a bounded FIFO with IEEE 488.2 overflow semantics.

Spec: `BoundedFifo c` over plain lists.  Theorems: the model queue refines the
spec for every capacity and every operation sequence; the invariant
`length ≤ capacity`; older entries are untouched by an overflow; FIFO order; the
responses of `SYSTem:ERRor[:NEXT]?` / `:COUNt?`; the complete number/description
table.
-/
import Scpi.Commands

namespace Scpi
namespace C09

/-- Operations on an error queue. -/
inductive QOp where
  | push (e : Err)
  | pop
  | count
  deriving Repr

/-- What an operation returns. -/
inductive QRes where
  | none
  | popped (e : Option Err)
  | count (n : Nat)
  deriving Repr, DecidableEq

/-! ### The abstract specification -/

/-- Bounded FIFO of capacity `c`, oldest entry first. -/
def specPush (c : Nat) (l : List Err) (e : Err) : List Err :=
  if l.length < c then l ++ [e]
  else if l = [] then [] else l.dropLast ++ [Err.std .QueueOverflow]

def specStep (c : Nat) (l : List Err) : QOp → List Err × QRes
  | .push e => (specPush c l e, .none)
  | .pop => (l.tail, .popped l.head?)
  | .count => (l, .count l.length)

/-! ### The model -/

def step (q : EQueue) : QOp → EQueue × QRes
  | .push e => (q.push e, .none)
  | .pop => ((q.pop).2, .popped (q.pop).1)
  | .count => (q, .count q.count)

def runOps (q : EQueue) : List QOp → EQueue × List QRes
  | [] => (q, [])
  | op :: ops =>
    let (q', r) := step q op
    let (q'', rs) := runOps q' ops
    (q'', r :: rs)

def specRun (c : Nat) (l : List Err) : List QOp → List Err × List QRes
  | [] => (l, [])
  | op :: ops =>
    let (l', r) := specStep c l op
    let (l'', rs) := specRun c l' ops
    (l'', r :: rs)

theorem push_items (q : EQueue) (e : Err) : (q.push e).items = specPush q.cap q.items e := by
  unfold EQueue.push specPush
  split
  · rfl
  · cases h : q.items.reverse with
    | nil =>
      have : q.items = [] := by simpa using h
      simp [this]
    | cons x pre =>
      have hne : q.items ≠ [] := by intro h0; simp [h0] at h
      simp only [hne, if_false]
      have : q.items = pre.reverse ++ [x] := by
        have := congrArg List.reverse h
        simpa using this
      simp [this]

theorem push_cap (q : EQueue) (e : Err) : (q.push e).cap = q.cap := by
  unfold EQueue.push
  split
  · rfl
  · split <;> rfl

/-- One step of the model is one step of the specification. -/
theorem step_refines (q : EQueue) (op : QOp) :
    ((step q op).1.items, (step q op).2) = specStep q.cap q.items op ∧ (step q op).1.cap = q.cap := by
  cases op with
  | push e => exact ⟨by simp [step, specStep, push_items], push_cap q e⟩
  | pop =>
    cases h : q.items with
    | nil => simp [step, specStep, EQueue.pop, h]
    | cons x xs => simp [step, specStep, EQueue.pop, h]
  | count => simp [step, specStep, EQueue.count]

/-- **T9.1 `queue_refines`**: for every capacity and every operation sequence the
queue returns what the bounded FIFO returns and holds what it holds. -/
theorem queue_refines (ops : List QOp) (q : EQueue) :
    ((runOps q ops).1.items, (runOps q ops).2) = specRun q.cap q.items ops := by
  induction ops generalizing q with
  | nil => rfl
  | cons op ops ih =>
    obtain ⟨h1, h2⟩ := step_refines q op
    have h3 := ih (step q op).1
    simp only [runOps, specRun]
    rw [← h1]
    simp only []
    rw [h2] at h3
    rw [← h3]

/-- The specification never holds more than its capacity. -/
theorem specPush_length_le (c : Nat) (l : List Err) (e : Err) (h : l.length ≤ c) :
    (specPush c l e).length ≤ c := by
  unfold specPush
  split
  · simp; omega
  · split
    · simp
    · next hne =>
      have : 0 < l.length := List.length_pos_iff.mpr hne
      simp; omega

/-- **Invariant**: the queue never holds more than its capacity, for every
reachable state. -/
theorem length_le_cap (ops : List QOp) (q : EQueue) (h : q.items.length ≤ q.cap) :
    (runOps q ops).1.items.length ≤ q.cap := by
  induction ops generalizing q with
  | nil => simpa [runOps]
  | cons op ops ih =>
    simp only [runOps]
    have hc := (step_refines q op).2
    have : (step q op).1.items.length ≤ (step q op).1.cap := by
      rw [hc]
      cases op with
      | push e => simp only [step, push_items]; exact specPush_length_le _ _ _ h
      | pop =>
        cases hq : q.items with
        | nil => simp [step, EQueue.pop, hq]
        | cons x xs => simp [step, EQueue.pop, hq]; rw [hq] at h; simp at h; omega
      | count => simpa [step]
    have := ih (step q op).1 this
    rw [hc] at this
    exact this

/-- **Overflow** replaces only the newest entry: everything older is intact and
the newest becomes −350. -/
theorem overflow_keeps_older (q : EQueue) (e : Err) (hfull : ¬ q.items.length < q.cap)
    (hne : q.items ≠ []) :
    (q.push e).items = q.items.dropLast ++ [Err.std .QueueOverflow] := by
  rw [push_items]; unfold specPush; simp [hfull, hne]

/-- A push into a queue that is not full appends. -/
theorem push_appends (q : EQueue) (e : Err) (h : q.items.length < q.cap) :
    (q.push e).items = q.items ++ [e] := by
  rw [push_items]; unfold specPush; simp [h]

def pushAll (q : EQueue) (es : List Err) : EQueue := es.foldl EQueue.push q

/-- **FIFO order**: errors that fit are stored in the order they occurred. -/
theorem pushAll_items (es : List Err) (q : EQueue) (h : q.items.length + es.length ≤ q.cap) :
    (pushAll q es).items = q.items ++ es := by
  induction es generalizing q with
  | nil => simp [pushAll]
  | cons e es ih =>
    simp only [pushAll, List.foldl_cons]
    simp only [List.length_cons] at h
    have hp := push_appends q e (by omega)
    have hc := push_cap q e
    have := ih (q.push e) (by rw [hp, hc]; simp; omega)
    simp only [pushAll] at this
    rw [this, hp]; simp

/-- `SYSTem:ERRor[:NEXT]?` removes and returns the oldest entry as
`<number>,"<description>"`. -/
theorem next_returns_oldest (q : EQueue) (e : Err) (rest : List Err) (h : q.items = e :: rest) :
    (systemErrorNext q).1.items = rest ∧
    (systemErrorNext q).2 = .seq [.int e.number, .str e.descBytes] := by
  simp [systemErrorNext, EQueue.pop, h]

/-- … and `0,""` when the queue is empty (which stays empty). -/
theorem next_on_empty (q : EQueue) (h : q.items = []) :
    (systemErrorNext q).1.items = [] ∧ (systemErrorNext q).2 = .seq [.int 0, .str []] := by
  simp [systemErrorNext, EQueue.pop, h]

/-- `SYSTem:ERRor:COUNt?` returns the number of stored entries. -/
theorem count_is_length (q : EQueue) : systemErrorCount q = .int q.items.length := rfl

/-- The bytes of an error response: `<number>,"<description with quotes doubled>"`. -/
theorem next_encoding (n : Int) (d : Bytes) :
    (Resp.seq [.int n, .str d]).encode =
      (intPieces n).flatten ++ [44] ++ ((quotedCalls d).map WCall.bytes).flatten := by
  simp [Resp.encode, Resp.calls, Resp.seqCalls, WCall.bytes]

/-- **T9.3** the complete number table (59 standard errors), and `Custom(n, s) ↦ n, s`. -/
theorem number_table :
    StdErr.all.map StdErr.number =
      [-100, -101, -102, -103, -104, -105, -108, -109, -110, -111, -112, -113, -114, -115, -120,
       -121, -123, -124, -128, -130, -131, -134, -138, -140, -141, -144, -148, -150, -151, -158,
       -160, -161, -168, -170, -171, -178, -200, -201, -203, -220, -210, -221, -222, -223, -224,
       -225, -226, -230, -240, -300, -310, -320, -330, -340, -350, -360, -363, -365, -400] := by
  decide

theorem all_complete (e : StdErr) : e ∈ StdErr.all := by
  cases e <;> decide

theorem overflow_is_350 : (Err.std .QueueOverflow).number = -350 ∧
    StdErr.QueueOverflow.describe = "Queue overflow" := ⟨rfl, rfl⟩

theorem undefined_header_is_113 : (Err.std .UndefinedHeader).number = -113 ∧
    StdErr.UndefinedHeader.describe = "Undefined header" := ⟨rfl, rfl⟩

theorem custom_number_desc (n : Int) (d : Bytes) :
    (Err.custom n d).number = n ∧ (Err.custom n d).descBytes = d := ⟨rfl, rfl⟩

/-- Non-vacuity: a concrete overflow history on a queue of capacity 2. -/
example :
    (runOps { cap := 2 } [.push (.std .UndefinedHeader), .push (.std .InvalidCharacter),
        .push (.std .ExecutionError), .count, .pop, .pop, .pop]).2 =
      [.none, .none, .none, .count 2, .popped (some (.std .UndefinedHeader)),
       .popped (some (.std .QueueOverflow)), .popped none] := by decide

end C09
end Scpi
