/-
C05, `process` part — "for every byte sequence streamed through `process` — with any
command buffer size of at least one byte, any split of the stream into reads, and
response buffers of any capacity including ones too small for the response — the
library never panics and never loops without consuming input."

The model of `Interface::process::<N, A>` is `Scpi.process I n sc s`
(Scpi/Process.lean): `n` is the const generic `N` (the size of the command buffer AND
the capacity of the response buffer), the script `sc` gives the byte stream, the sizes
of the successive reads (any split, including zero-length reads) and an optional
transport fault.  Every place where the Rust code can panic (`cmd_buf[a..b]` out of
range, `usize` subtraction) or spin (an iteration of either loop that makes no
progress) is an explicit `crash` outcome of the model; the theorems below show that
none is reachable when `n ≥ 1`.

The two loops are analysed through their one-step functions `outerStep` and
`innerStep` (Scpi/Proofs/ProcStep.lean), which are proved there to generate `procLoop`
and `procInner` exactly (`procLoop_succ`, `procInner_succ`).  The helper definitions
(`PInv`, `IInv`, `outerStep`, `innerStep`, `initState`, …) live in the namespace `Scpi.Proc`.
-/
import Scpi.Proofs.ProcInv

namespace Scpi
open Proc
namespace C05

/-- **T5.3 (offsets invariant)**.  `PInv n st` is
`st.buf.length = n ∧ st.procOff ≤ st.readOff ∧ st.readOff < n`; `IInv n readEnd st` is
`st.buf.length = n ∧ st.procOff ≤ st.readOff ∧ st.readOff ≤ readEnd ∧ readEnd ≤ n`.

* `PInv` holds initially (this is where `n ≥ 1` is used);
* one iteration of the outer loop that goes round again re-establishes `PInv`
  (for every fault schedule), hence every state at the top of an outer iteration
  satisfies it;
* `PInv` gives `IInv` right after the read, and the inner loop keeps `IInv`
  whatever its fuel;
* under `PInv` the slice handed to `adapter.read` is not empty (`dstLen ≥ 1`). -/
theorem process_offsets_inv {σ : Type} (I : Iface σ) (n : Nat) (hn : 1 ≤ n) (sc : Script) (s : σ) :
    PInv n (initState I n sc s) ∧
    (∀ fault st st', PInv n st → outerStep I n fault st = .inl st' → PInv n st') ∧
    (∀ fault st, OuterReach I n fault (initState I n sc s) st → PInv n st) ∧
    (∀ st : PState σ, PInv n st → IInv n (st.readOff + readCount n st) (afterRead n st)) ∧
    (∀ fault readEnd fuel st, IInv n readEnd st →
        IInv n readEnd (procInner I n fault fuel readEnd st).1) ∧
    (∀ st : PState σ, PInv n st → 1 ≤ n - st.readOff) := by
  refine ⟨initState_inv I n sc s hn, ?_, ?_, afterRead_inv n, ?_, ?_⟩
  · intro fault st st' h hs
    have := outerStep_inv I n fault st h
    rw [hs] at this
    exact this.1
  · intro fault st h
    exact outerReach_inv I n fault _ st (initState_inv I n sc s hn) h
  · intro fault readEnd fuel st h
    exact procInner_keeps_inv I n fault readEnd fuel st h
  · intro st h
    have := h.lt
    omega

/-- **T5.2 (progress)**: an iteration of the outer loop that goes round again has consumed
a schedule entry or at least one byte of the stream; an iteration of the inner loop that goes
round again has moved `read_offset` forward (past a newline).  So the fuel of either loop
(`sizes.length + stream.length + 1`, resp. `count + 1`) is never used up — and running out of
fuel is the model's rendering of "loops without consuming input". -/
theorem process_progress {σ : Type} (I : Iface σ) (n : Nat) (fault : Option (Nat × Int)) :
    (∀ st st', PInv n st → outerStep I n fault st = .inl st' →
        st'.sizes.length + st'.stream.length < st.sizes.length + st.stream.length) ∧
    (∀ readEnd st st', IInv n readEnd st → innerStep I n fault readEnd st = .inl st' →
        st.readOff < st'.readOff ∧ st'.readOff ≤ readEnd) := by
  constructor
  · intro st st' h hs
    have := outerStep_inv I n fault st h
    rw [hs] at this
    exact this.2
  · intro readEnd st st' h hs
    have := innerStep_inv I n fault readEnd st h
    rw [hs] at this
    exact ⟨this.2, this.1.re⟩

/-- **T5.1 (`process`)**: for every interface (tree, handlers, error handler), every buffer
size `n ≥ 1`, every script (stream, read sizes — any split of the stream, zero-length reads
included — and fault) and every user state, `process` does not crash: no slice is out of
range, no subtraction underflows, no `unwrap` fails and neither loop runs out of fuel
(`Crash.noProgress`).  The response buffer has capacity `n` too, so this covers responses
that do not fit. -/
theorem process_never_crashes {σ : Type} (I : Iface σ) (n : Nat) (hn : 1 ≤ n) (sc : Script) (s : σ) :
    ∀ c, (process I n sc s).stop ≠ .crash c := by
  rw [process_eq]
  exact procLoop_no_crash I n sc.fault _ _ (initState_inv I n sc s hn) (Nat.lt_succ_self _)

/-- The hypothesis `n ≥ 1` is needed: with `N = 0` the real code calls `read` on an empty
slice for ever; the model reports it as `noProgress`. -/
example :
    let I : Iface Unit := { root := .mk 0 [] none none, cmds := [], onError := fun s _ => s }
    (process I 0 { stream := [88], sizes := [] } ()).stop = .crash .noProgress := rfl

/-! ### Non-vacuity: a run with `n = 2` on a stream longer than the buffer -/

/-- One command `X` without response. -/
def tree1 : Node := .mk 0 [([88], .mk 1 [] (some 0) none)] none none
def I1 : Iface Unit :=
  { root := tree1, cmds := [{ argTys := [], handler := fun s _ => (s, .ok .unit) }],
    onError := fun s _ => s }
/-- `X\nXXX\nX\n`, delivered as a 1-byte read, then a read limited by the buffer, then
buffer-sized reads. -/
def sc1 : Script := { stream := [88, 10, 88, 88, 88, 10, 88, 10], sizes := [1, 5] }

private def stt (buf : Bytes) (readOff : Nat) (stream : Bytes) (sizes : List Nat)
    (trace : List PEv) : PState Unit :=
  { buf, procOff := 0, readOff, header := tree1, user := (), stream, sizes,
    calls := trace.length, trace }

/-- The run: five reads (the third fills the 2-byte buffer with the unfinished `XX`, which is
discarded), then end of stream.  (Evaluated iteration by iteration; each `rfl` is checked by
the kernel.) -/
example : (process I1 2 sc1 ()).stop = .transport .eos ∧
    (process I1 2 sc1 ()).trace = [.r 1 2, .r 1 1, .r 2 2, .r 2 2, .r 2 2] := by
  have e : process I1 2 sc1 () = procLoop I1 2 none 11 (stt [0, 0] 0 sc1.stream sc1.sizes []) := rfl
  rw [e,
    procLoop_inl (st' := stt [88, 0] 1 [10, 88, 88, 88, 10, 88, 10] [5] [.r 1 2]) rfl,
    procLoop_inl (st' := stt [88, 10] 0 [88, 88, 88, 10, 88, 10] [] [.r 1 2, .r 1 1]) rfl,
    procLoop_inl (st' := stt [88, 88] 0 [88, 10, 88, 10] [] [.r 1 2, .r 1 1, .r 2 2]) rfl,
    procLoop_inl (st' := stt [88, 10] 0 [88, 10] [] [.r 1 2, .r 1 1, .r 2 2, .r 2 2]) rfl,
    procLoop_inl (st' := stt [88, 10] 0 [] [] [.r 1 2, .r 1 1, .r 2 2, .r 2 2, .r 2 2]) rfl,
    procLoop_inr (out := stopOut (.transport .eos)
      (stt [88, 10] 0 [] [] [.r 1 2, .r 1 1, .r 2 2, .r 2 2, .r 2 2])) rfl]
  exact ⟨rfl, rfl⟩

/-- `process_never_crashes` applies to it. -/
example : ∀ c, (process I1 2 sc1 ()).stop ≠ .crash c :=
  process_never_crashes I1 2 (by decide) sc1 ()

end C05
end Scpi
