/-
C06 — a faulty unit costs exactly one error, and nothing else: WHOLE MESSAGES.

"A complete program message (its only newline is its terminator and it leaves no string
or block open) in which one unit is faulty — syntax error, undefined header, wrong
parameter count, unconvertible parameter, or an error returned by its handler — hands
exactly one error to the error handler (the handler's own error value, verbatim, in the
last case), executes the units before the faulty one normally, does not invoke the
faulty unit's handler unless the fault is the handler's own, and executes either all or
none of the units after it."

Messages are given as ASTs `m : List (MsgUnit × Lex)` (Scpi/Spec/MsgAst.lean) rendered by
`renderMsg`; by `Scpi.Msg.run_render` the byte-level interpreter on ANY such rendering
computes `specExec`.  (Syntax errors proper — bytes that are not the rendering of any
AST — are outside this file: for them `Scpi.C06.one_error_per_unit` (Scpi/Props/C06.lean)
says that the iteration reports exactly one error and the run resumes behind the next
newline, and C07 says which error.)

Vocabulary (Scpi/Proofs/M6Verdict.lean, M6Fault.lean; namespace `Scpi.M6`):

* `UnitVerdict` = `undefined` (the header does not resolve: the parse-level fault) |
  `noSlot` | `arity` | `conversion e` | `handlerError e` | `writeError e` | `ok`;
  `verdict I cur u w s` classifies the unit `u` read with the path `cur` on writer `w`
  and user state `s` (`verdict_undefined_iff`, `verdictOn_cases`: what each verdict
  means and what the unit then does).  `v.error` is the error handed to the error
  handler, `v.invokes` says whether the unit's handler runs, `v.execLevel` whether the
  fault is one of the five execution-level ones.
* `verdicts I cur us w s`: the verdicts of the units `specExec` reaches, in order, on
  the path / writer / state threaded exactly as `specExec` threads them; the list ends
  behind an `undefined` unit (the rest of the message is dropped, not classified).
* `OneFault I cur us w s k v`: verdict number `k` is `v ≠ ok`, every other verdict is
  `ok`.  `FaultAt I cur pre u suf w s v`: the same for the message `pre ++ u :: suf`,
  spelled out: `pre` is fine, `u` gets `v` on the state `pre` leaves, and unless
  `v = undefined` the units `suf` are fine on the state `pre ++ [u]` leaves
  (`oneFault_iff_faultAt`).
* `pathThrough root cur pre`: the path with which the unit behind `pre` is read.
* `Iface.logged` / `Iface.traced` (Scpi/Proofs/RunStepsLog.lean): the error log and the
  log of events `Ev.call id tvs` / `Ev.error e`; `callEv (id, tvs) = Ev.call id tvs`.

Theorems: `errors_are_verdict_errors` (any number of faults), `one_fault_one_error`,
`prefix_unaffected`, `faulty_handler_invoked_iff`, `suffix_all_or_none`, `message_trace`,
`message_one_fault` (by index), then on the bytes `run_message_errors`, `run_one_fault`,
`run_one_fault_trace`, `terminator_only_newline`, `later_message_after_faulty`,
`later_message_errors`.

FINDING kept from Scpi/Props/C06.lean: the enumeration of the property lacks the sixth
way to fail, `writeError` (the handler succeeded, its response did not fit the writer);
the handler HAS run then, and the theorems below treat it like the handler's own error.
-/
import Scpi.Proofs.M6Logs
import Scpi.Props.RunRenderCor
import Scpi.Props.C06
import Scpi.Proofs.RunStepsDemo

namespace Scpi
namespace C06
open Msg M6

/-! ## 1. The classification -/

/-- `undefined` is the verdict of exactly the units whose header does not resolve. -/
theorem verdict_undefined_iff {σ : Type} (I : Iface σ) (cur : Node) (u : MsgUnit) (w : Writer)
    (s : σ) : verdict I cur u w s = .undefined ↔ resolve I.root cur u.hdr.path = none := by
  unfold verdict
  cases resolve I.root cur u.hdr.path with
  | none => simp
  | some np =>
    obtain ⟨node, parent⟩ := np
    simp only [reduceCtorEq, iff_false]
    unfold verdictOn
    repeat' split
    all_goals simp

/-- A header that resolves to `node`: the verdict is `verdictOn` on that node. -/
theorem verdict_resolved {σ : Type} (I : Iface σ) (cur : Node) (u : MsgUnit) (w : Writer) (s : σ)
    (node : Node) (parent : Option Node) (hr : resolve I.root cur u.hdr.path = some (node, parent)) :
    verdict I cur u w s = verdictOn I node u.hdr.query (u.lits.map Lit.value) w s := by
  simp only [verdict, hr]

/-- **What each verdict means, and what the unit then does** (`specUnit`: the new
writer and user state).  The cases exclude each other and are exhaustive.

* `noSlot`: the node has no handler of the kind asked for — `UndefinedHeader`;
* `arity`: wrong number of parameters — `UnexpectedNumberOfParameters`;
* `conversion e`: `e` is the error of the first parameter that does not convert;
  — in these three cases writer and user state are untouched but for the ONE `onError`;
* `handlerError e`: the handler ran on the converted parameters and returned `e`, which
  is handed on verbatim, on the state the handler left; nothing is written;
* `writeError e`: the handler ran and succeeded; writing its response failed with `e`;
* `ok`: the handler ran, its response was written; NO `onError`. -/
theorem verdictOn_cases {σ : Type} (I : Iface σ) (node : Node) (q : Bool) (args : List Value)
    (w : Writer) (s : σ) :
    match verdictOn I node q args w s with
    | .undefined => False
    | .noSlot => slotCmd I node q = none ∧
        specUnit I node q args w s = (w, I.onError s (.std .UndefinedHeader))
    | .arity => ∃ c, slotCmd I node q = some c ∧ args.length ≠ c.argTys.length ∧
        specUnit I node q args w s = (w, I.onError s (.std .UnexpectedNumberOfParameters))
    | .conversion e => ∃ c, slotCmd I node q = some c ∧ args.length = c.argTys.length ∧
        convertAll c.argTys args = .error e ∧ specUnit I node q args w s = (w, I.onError s e)
    | .handlerError e => ∃ c tvs s', slotCmd I node q = some c ∧ args.length = c.argTys.length ∧
        convertAll c.argTys args = .ok tvs ∧ c.handler s tvs = (s', .error e) ∧
        specUnit I node q args w s = (w, I.onError s' e)
    | .writeError e => ∃ c tvs s' resp w', slotCmd I node q = some c ∧
        args.length = c.argTys.length ∧ convertAll c.argTys args = .ok tvs ∧
        c.handler s tvs = (s', .ok resp) ∧ reply q w resp = (w', .error e) ∧
        specUnit I node q args w s = (w', I.onError s' e)
    | .ok => ∃ c tvs s' resp w', slotCmd I node q = some c ∧
        args.length = c.argTys.length ∧ convertAll c.argTys args = .ok tvs ∧
        c.handler s tvs = (s', .ok resp) ∧ reply q w resp = (w', .ok ()) ∧
        specUnit I node q args w s = (w', s') := by
  unfold verdictOn specUnit
  cases hs : slotCmd I node q with
  | none => exact ⟨rfl, rfl⟩
  | some c =>
    simp only []
    by_cases hl : args.length ≠ c.argTys.length
    · rw [if_pos hl, if_pos hl]
      exact ⟨c, rfl, hl, rfl⟩
    · simp only [if_neg hl]
      have hl' : args.length = c.argTys.length := Decidable.of_not_not hl
      cases hc : convertAll c.argTys args with
      | error e => exact ⟨c, rfl, hl', hc, rfl⟩
      | ok tvs =>
        simp only []
        rcases hh : c.handler s tvs with ⟨s', r⟩
        cases r with
        | error e => exact ⟨c, tvs, s', rfl, hl', hc, hh, rfl⟩
        | ok resp =>
          simp only []
          rcases hrp : reply q w resp with ⟨w', r'⟩
          cases r' with
          | error e => exact ⟨c, tvs, s', resp, w', rfl, hl', hc, hh, hrp, rfl⟩
          | ok x =>
            cases x
            exact ⟨c, tvs, s', resp, w', rfl, hl', hc, hh, hrp, rfl⟩

/-- The error of each verdict: `UndefinedHeader` for a header that does not resolve and
for an empty slot, `UnexpectedNumberOfParameters` for a wrong count, otherwise the
error carried — the conversion error, the handler's own error verbatim, the writer's. -/
theorem verdict_error_cases (e : Err) :
    UnitVerdict.undefined.error = some (.std .UndefinedHeader) ∧
    UnitVerdict.noSlot.error = some (.std .UndefinedHeader) ∧
    UnitVerdict.arity.error = some (.std .UnexpectedNumberOfParameters) ∧
    (UnitVerdict.conversion e).error = some e ∧ (UnitVerdict.handlerError e).error = some e ∧
    (UnitVerdict.writeError e).error = some e ∧ UnitVerdict.ok.error = none :=
  ⟨rfl, rfl, rfl, rfl, rfl, rfl, rfl⟩

/-- The verdicts of a message, unit by unit: the verdict of the first unit on the
current state; behind an undefined header nothing; otherwise the verdicts of the other
units on the path, writer and state the first unit left. -/
theorem verdicts_unfold {σ : Type} (I : Iface σ) (cur : Node) (u : MsgUnit) (us : List MsgUnit)
    (w : Writer) (s : σ) :
    verdicts I cur [] w s = [] ∧
    verdicts I cur (u :: us) w s =
      verdict I cur u w s ::
        match resolve I.root cur u.hdr.path with
        | none => []
        | some (node, parent) =>
          verdicts I (parent.getD cur) us (onNode I node u (w, s)).1 (onNode I node u (w, s)).2 :=
  ⟨rfl, verdicts_cons I cur u us w s⟩

/-- The two ways to say "exactly one faulty unit" agree. -/
theorem oneFault_iff_faultAt {σ : Type} (I : Iface σ) (cur : Node) (us : List MsgUnit) (w : Writer)
    (s : σ) (k : Nat) (v : UnitVerdict) :
    OneFault I cur us w s k v ↔
      ∃ pre u suf, us = pre ++ u :: suf ∧ pre.length = k ∧ FaultAt I cur pre u suf w s v := by
  constructor
  · exact faultAt_of_oneFault
  · rintro ⟨pre, u, suf, rfl, rfl, h⟩
    exact oneFault_of_faultAt h

/-! ## 2. The specification level -/

/-- **The errors of a message are the errors of its verdicts** — any number of faults.
With the logging wrapper, writer and user state are those of the plain interface and the
error log grows by `v.error` for each unit reached, in order: one error per faulty unit,
none per good one, none for a dropped one. -/
theorem errors_are_verdict_errors {σ : Type} (I : Iface σ) (cur : Node) (us : List MsgUnit)
    (w : Writer) (s : σ) (l : List Err) :
    specExec I.logged cur us w (s, l) =
      ((specExec I cur us w s).1, ((specExec I cur us w s).2,
        l ++ (verdicts I cur us w s).filterMap UnitVerdict.error)) :=
  specExec_logged I us cur w s l

/-- **One faulty unit, exactly one error**, and it is the error of the verdict:
`UndefinedHeader` for `undefined` / `noSlot`, `UnexpectedNumberOfParameters` for `arity`,
the conversion error, the handler's own error verbatim, the write error
(`verdict_error_cases`). -/
theorem one_fault_one_error {σ : Type} {I : Iface σ} {cur : Node} {pre : List MsgUnit} {u : MsgUnit}
    {suf : List MsgUnit} {w : Writer} {s : σ} {v : UnitVerdict}
    (h : FaultAt I cur pre u suf w s v) (l : List Err) :
    ∃ e, v.error = some e ∧
      specExec I.logged cur (pre ++ u :: suf) w (s, l) =
        ((specExec I cur (pre ++ u :: suf) w s).1, ((specExec I cur (pre ++ u :: suf) w s).2,
          l ++ [e])) :=
  h.logged l

/-- **The units before the faulty one are executed normally**: on their own they are a
fault-free message (all verdicts `ok`, nothing added to the error log), and the faulty
unit and its successors are read on exactly the path, writer and user state this
fault-free message leaves — where the faulty unit gets its verdict. -/
theorem prefix_unaffected {σ : Type} {I : Iface σ} {cur : Node} {pre : List MsgUnit} {u : MsgUnit}
    {suf : List MsgUnit} {w : Writer} {s : σ} {v : UnitVerdict}
    (h : FaultAt I cur pre u suf w s v) :
    verdicts I cur pre w s = List.replicate pre.length .ok ∧
    (∀ l, specExec I.logged cur pre w (s, l) =
      ((specExec I cur pre w s).1, ((specExec I cur pre w s).2, l))) ∧
    specExec I cur (pre ++ u :: suf) w s =
      specExec I (pathThrough I.root cur pre) (u :: suf) (specExec I cur pre w s).1
        (specExec I cur pre w s).2 ∧
    verdict I (pathThrough I.root cur pre) u (specExec I cur pre w s).1 (specExec I cur pre w s).2 = v :=
  ⟨h.before, h.logged_prefix, (append_split I pre (u :: suf) cur w s h.resolves).1, h.here⟩

/-- **The faulty unit's handler is invoked iff the fault is the handler's own** (or the
failure to write the handler's response).  Executed on the state the prefix leaves, with
the tracing wrapper, the faulty unit appends to the log: the event `call id tvs` of its
handler iff `v.invokes` — that is, iff `v` is `handlerError` or `writeError` — and then
the ONE event `error e`. -/
theorem faulty_handler_invoked_iff {σ : Type} {I : Iface σ} {cur : Node} {pre : List MsgUnit}
    {u : MsgUnit} {suf : List MsgUnit} {w : Writer} {s : σ} {v : UnitVerdict}
    (h : FaultAt I cur pre u suf w s v) :
    (v.invokes = true ↔ ∃ e, v = .handlerError e ∨ v = .writeError e) ∧
    ∃ (e : Err) (c : Option (Nat × List TVal)), v.error = some e ∧ c.isSome = v.invokes ∧
      ∀ l : List Ev,
        (specExec I.traced (pathThrough I.root cur pre) [u] (specExec I cur pre w s).1
            ((specExec I cur pre w s).2, l)).2.2 = l ++ (c.toList.map callEv ++ [Ev.error e]) := by
  refine ⟨invokes_iff_of_ne_ok h.fault, ?_⟩
  obtain ⟨e, c, cs, cs', he, hc, _, _, hl⟩ := h.traced
  exact ⟨e, c, he, hc, fun l => (hl l).2.1⟩

/-- **All or none of the units after the faulty one.**

* `undefined` (parse-level): NONE.  The message ends there: the outcome is the state the
  prefix left plus the one `onError UndefinedHeader`, and no unit behind is even
  classified (`verdicts` has `pre.length + 1` entries).
* execution-level (`noSlot`, `arity`, `conversion`, `handlerError`, `writeError`): ALL.
  The outcome is that of the units `suf` executed on the path, writer and state that
  `pre ++ [u]` leaves; every one of them is reached and has the verdict `ok` — its
  handler runs, its response is written (`verdictOn_cases`). -/
theorem suffix_all_or_none {σ : Type} {I : Iface σ} {cur : Node} {pre : List MsgUnit} {u : MsgUnit}
    {suf : List MsgUnit} {w : Writer} {s : σ} {v : UnitVerdict}
    (h : FaultAt I cur pre u suf w s v) :
    (v.execLevel = true ∨ v = .undefined) ∧
    (v = .undefined →
      specExec I cur (pre ++ u :: suf) w s =
        ((specExec I cur pre w s).1, I.onError (specExec I cur pre w s).2 (.std .UndefinedHeader)) ∧
      (verdicts I cur (pre ++ u :: suf) w s).length = pre.length + 1) ∧
    (v.execLevel = true →
      specExec I cur (pre ++ u :: suf) w s =
        specExec I (pathThrough I.root cur (pre ++ [u])) suf
          (specExec I cur (pre ++ [u]) w s).1 (specExec I cur (pre ++ [u]) w s).2 ∧
      verdicts I (pathThrough I.root cur (pre ++ [u])) suf
          (specExec I cur (pre ++ [u]) w s).1 (specExec I cur (pre ++ [u]) w s).2 =
        List.replicate suf.length .ok ∧
      (verdicts I cur (pre ++ u :: suf) w s).length = (pre ++ u :: suf).length) := by
  have hex := execLevel_iff_of_ne_ok h.fault
  refine ⟨?_, ?_, ?_⟩
  · by_cases hu : v = .undefined
    · exact Or.inr hu
    · exact Or.inl (hex.2 hu)
  · intro hu
    refine ⟨by rw [h.specExec_eq, if_pos hu], ?_⟩
    rw [h.verdicts_eq, if_pos hu]
    simp
  · intro hx
    have hu := hex.1 hx
    refine ⟨by rw [h.specExec_eq, if_neg hu], h.after hu, ?_⟩
    rw [h.verdicts_eq, if_neg hu]
    simp

/-- **The whole trace of a message with one faulty unit.**  With the tracing wrapper the
log grows by: one `call` event per unit of the prefix (`cs`, exactly the trace of the
prefix on its own); then the faulty unit's `call` iff `v.invokes`, and its ONE `error`;
then one `call` event per unit of the suffix if the fault is execution-level (`cs'`,
exactly the trace of the suffix on the state `pre ++ [u]` left) and NOTHING if the
fault is `undefined`.  No other `error` event anywhere. -/
theorem message_trace {σ : Type} {I : Iface σ} {cur : Node} {pre : List MsgUnit} {u : MsgUnit}
    {suf : List MsgUnit} {w : Writer} {s : σ} {v : UnitVerdict}
    (h : FaultAt I cur pre u suf w s v) :
    ∃ (e : Err) (c : Option (Nat × List TVal)) (cs cs' : List (Nat × List TVal)),
      v.error = some e ∧ c.isSome = v.invokes ∧ cs.length = pre.length ∧
      cs'.length = (if v = .undefined then 0 else suf.length) ∧
      ∀ l : List Ev,
        (specExec I.traced cur pre w (s, l)).2.2 = l ++ cs.map callEv ∧
        (specExec I.traced (pathThrough I.root cur pre) [u] (specExec I cur pre w s).1
            ((specExec I cur pre w s).2, l)).2.2 = l ++ (c.toList.map callEv ++ [Ev.error e]) ∧
        (v ≠ .undefined →
          (specExec I.traced (pathThrough I.root cur (pre ++ [u])) suf
            (specExec I cur (pre ++ [u]) w s).1 ((specExec I cur (pre ++ [u]) w s).2, l)).2.2 =
              l ++ cs'.map callEv) ∧
        (specExec I.traced cur (pre ++ u :: suf) w (s, l)).2.2 =
          l ++ (cs.map callEv ++ (c.toList.map callEv ++ [Ev.error e]) ++ cs'.map callEv) :=
  h.traced

/-- **C06 for a message, by index.**  If among the verdicts of the units of a message
exactly one — number `k` — is not `ok`, say `v`, then

1. the error log grows by exactly ONE error, the error `e` of `v`;
2. the first `k` units are executed exactly as the fault-free message `us.take k`
   (all its verdicts are `ok`) and unit `k` gets its verdict on the state that leaves;
3. the trace is: `k` handler calls; the call of unit `k`'s handler iff `v` is
   `handlerError` or `writeError`; the one `error e`; then `us.length - (k+1)` handler
   calls — ALL the units behind — if `v` is execution-level, and NONE if `v` is
   `undefined`. -/
theorem message_one_fault {σ : Type} (I : Iface σ) (cur : Node) (us : List MsgUnit) (w : Writer) (s : σ)
    (k : Nat) (v : UnitVerdict) (h : OneFault I cur us w s k v) :
    ∃ (e : Err) (c : Option (Nat × List TVal)) (cs cs' : List (Nat × List TVal)),
      v.error = some e ∧
      (c.isSome = true ↔ ∃ e', v = .handlerError e' ∨ v = .writeError e') ∧
      cs.length = k ∧ cs'.length = (if v = .undefined then 0 else us.length - (k + 1)) ∧
      (∀ l : List Err, specExec I.logged cur us w (s, l) =
        ((specExec I cur us w s).1, ((specExec I cur us w s).2, l ++ [e]))) ∧
      verdicts I cur (us.take k) w s = List.replicate k .ok ∧
      (∃ u, us[k]? = some u ∧
        verdict I (pathThrough I.root cur (us.take k)) u (specExec I cur (us.take k) w s).1
          (specExec I cur (us.take k) w s).2 = v) ∧
      ∀ l : List Ev,
        (specExec I.traced cur (us.take k) w (s, l)).2.2 = l ++ cs.map callEv ∧
        (specExec I.traced cur us w (s, l)).2.2 =
          l ++ (cs.map callEv ++ (c.toList.map callEv ++ [Ev.error e]) ++ cs'.map callEv) := by
  obtain ⟨pre, u, suf, rfl, rfl, hf⟩ := faultAt_of_oneFault h
  obtain ⟨e, c, cs, cs', he, hc, hcs, hcs', hl⟩ := hf.traced
  have htake : (pre ++ u :: suf).take pre.length = pre := by simp
  refine ⟨e, c, cs, cs', he, ?_, hcs, ?_, ?_, ?_, ?_, ?_⟩
  · rw [hc]; exact invokes_iff_of_ne_ok hf.fault
  · rw [hcs']
    by_cases hu : v = .undefined
    · simp [hu]
    · simp only [if_neg hu, List.length_append, List.length_cons]; omega
  · intro l
    obtain ⟨e', he', hl'⟩ := hf.logged l
    rw [he] at he'
    cases he'
    exact hl'
  · rw [htake]; exact hf.before
  · refine ⟨u, by simp, ?_⟩
    rw [htake]; exact hf.here
  · intro l
    rw [htake]
    exact ⟨(hl l).1, (hl l).2.2.2⟩

/-! ## 3. On the bytes -/

/-- **A complete message has one newline: its terminator.**  The rendering of a
non-empty list of well-formed units whose string and block payloads are free of
newlines is `body ++ [10]` with no byte 10 in `body`. -/
theorem terminator_only_newline : ∀ (m : List (MsgUnit × Lex)), m ≠ [] → wfMsg m = true →
    (units m).all unitNlFree = true → ∃ body, renderMsg m = body ++ [10] ∧ noNl body = true
  | [], h, _, _ => absurd rfl h
  | [(u, ℓ)], _, hw, hn => by
    simp only [wfMsg, List.all_cons, List.all_nil, Bool.and_true, Bool.and_eq_true] at hw
    simp only [units, List.map_cons, List.map_nil, List.all_cons, List.all_nil, Bool.and_true] at hn
    refine ⟨unitBody u ℓ, ?_, body_noNl hw.1.1 hw.1.2 hn⟩
    have := render_eq_body u ℓ .nl []
    simpa [renderMsg, Term.byte] using this
  | (u, ℓ) :: p :: m, _, hw, hn => by
    simp only [wfMsg, List.all_cons, Bool.and_eq_true] at hw
    simp only [units, List.map_cons, List.all_cons, Bool.and_eq_true] at hn
    obtain ⟨body, hb, hnb⟩ := terminator_only_newline (p :: m) (by simp)
      (by simp only [wfMsg, List.all_cons, Bool.and_eq_true]; exact hw.2)
      (by simp only [units, List.map_cons, List.all_cons, Bool.and_eq_true]; exact hn.2)
    refine ⟨unitBody u ℓ ++ 59 :: body, ?_, ?_⟩
    · have := render_eq_body u ℓ .semi (body ++ [10])
      simp only [renderMsg, hb]
      simpa [Term.byte] using this
    · exact noNl_append (body_noNl hw.1.1.1 hw.1.1.2 hn.1) (noNl_cons (by decide) hnb)

/-- **The errors a message reports**, on the bytes: the interpreter with the logging
wrapper, run on any rendering of the message, consumes it completely, ends at the root
without a crash, leaves the writer and user state of `specExec`, and has appended to the
error log exactly the errors of the verdicts. -/
theorem run_message_errors {σ : Type} (I : Iface σ) (m : List (MsgUnit × Lex)) (w : Writer) (s : σ)
    (l : List Err) (hne : m ≠ []) (hwf : wfMsg m = true)
    (hsafe : dropSafe I.root I.root (units m) = true) :
    run I.logged (renderMsg m) w (s, l) =
      finished I.logged ((specExec I I.root (units m) w s).1, ((specExec I I.root (units m) w s).2,
        l ++ (verdicts I I.root (units m) w s).filterMap UnitVerdict.error)) := by
  have hr : I.logged.root = I.root := rfl
  have := run_render_run I.logged m w (s, l) hne hwf (by rw [hr]; exact hsafe)
  rw [this, hr, specExec_logged]
  rfl

/-- **C06 on the bytes: one faulty unit, one error.**  A complete message — any
rendering of a non-empty list of well-formed units; its only newline is the terminator
— in which exactly one unit is faulty: the run consumes the message, ends at the root,
does not crash, and the error log has grown by exactly the one error of the verdict. -/
theorem run_one_fault {σ : Type} (I : Iface σ) (m : List (MsgUnit × Lex)) (w : Writer) (s : σ)
    (l : List Err) (k : Nat) (v : UnitVerdict) (hne : m ≠ []) (hwf : wfMsg m = true)
    (hnl : (units m).all unitNlFree = true) (h : OneFault I I.root (units m) w s k v) :
    ∃ e, v.error = some e ∧
      run I.logged (renderMsg m) w (s, l) =
        finished I.logged ((specExec I I.root (units m) w s).1,
          ((specExec I I.root (units m) w s).2, l ++ [e])) := by
  obtain ⟨e, c, cs, cs', he, _, _, _, hl, _⟩ := message_one_fault I I.root (units m) w s k v h
  refine ⟨e, he, ?_⟩
  rw [run_message_errors I m w s l hne hwf (dropSafe_of_nlFree I.root I.root _ hnl),
    ← errors_are_verdict_errors, hl l]

/-- … and its trace, on the bytes: `k` handler calls, the faulty unit's call iff the
fault is `handlerError` / `writeError`, the one error, then `m.length - (k+1)` calls
(all units behind) for an execution-level fault and none for `undefined`. -/
theorem run_one_fault_trace {σ : Type} (I : Iface σ) (m : List (MsgUnit × Lex)) (w : Writer) (s : σ)
    (k : Nat) (v : UnitVerdict) (hne : m ≠ []) (hwf : wfMsg m = true)
    (hnl : (units m).all unitNlFree = true) (h : OneFault I I.root (units m) w s k v) :
    ∃ (e : Err) (c : Option (Nat × List TVal)) (cs cs' : List (Nat × List TVal)),
      v.error = some e ∧
      (c.isSome = true ↔ ∃ e', v = .handlerError e' ∨ v = .writeError e') ∧
      cs.length = k ∧ cs'.length = (if v = .undefined then 0 else m.length - (k + 1)) ∧
      ∀ l : List Ev, run I.traced (renderMsg m) w (s, l) =
        finished I.traced ((specExec I I.root (units m) w s).1, ((specExec I I.root (units m) w s).2,
          l ++ (cs.map callEv ++ (c.toList.map callEv ++ [Ev.error e]) ++ cs'.map callEv))) := by
  obtain ⟨e, c, cs, cs', he, hc, hcs, hcs', _, _, _, hl⟩ :=
    message_one_fault I I.root (units m) w s k v h
  refine ⟨e, c, cs, cs', he, hc, hcs, by simpa [units] using hcs', fun l => ?_⟩
  have hr : I.traced.root = I.root := rfl
  have := run_render_run I.traced m w (s, l) hne hwf
    (by rw [hr]; exact dropSafe_of_nlFree I.root I.root _ hnl)
  rw [this, hr, specExec_traced, ← (hl l).2, specExec_traced]
  rfl

/-- **The message after a faulty one.**  Two messages in one buffer, the first faulty or
not: the second is run as a message of its own FROM THE ROOT — exactly as if the first
had not been sent, except for the writer and the user state the first one left (what
its good units and the error handler did).  Nothing else survives the terminator. -/
theorem later_message_after_faulty {σ : Type} (I : Iface σ) (m₁ m₂ : List (MsgUnit × Lex))
    (w : Writer) (s : σ) (hne₁ : m₁ ≠ []) (hw₁ : wfMsg m₁ = true)
    (hs₁ : dropSafe I.root I.root (units m₁) = true) :
    run I (renderMsg m₁ ++ renderMsg m₂) w s =
      run I (renderMsg m₂) (specExec I I.root (units m₁) w s).1 (specExec I I.root (units m₁) w s).2 :=
  C02.message_independent I m₁ (renderMsg m₂) w s hne₁ hw₁ hs₁

/-- … and the error log: the one error of the faulty first message, then exactly the
errors the second message has when executed on its own from the root on the state the
first one left — a fault in the first message causes no error in the second. -/
theorem later_message_errors {σ : Type} (I : Iface σ) (m₁ m₂ : List (MsgUnit × Lex))
    (w : Writer) (s : σ) (l : List Err) (k : Nat) (v : UnitVerdict)
    (hne₁ : m₁ ≠ []) (hne₂ : m₂ ≠ []) (hw₁ : wfMsg m₁ = true) (hw₂ : wfMsg m₂ = true)
    (hn₁ : (units m₁).all unitNlFree = true) (hs₂ : dropSafe I.root I.root (units m₂) = true)
    (h : OneFault I I.root (units m₁) w s k v) :
    ∃ e, v.error = some e ∧
      run I.logged (renderMsg m₁ ++ renderMsg m₂) w (s, l) =
        run I.logged (renderMsg m₂) (specExec I I.root (units m₁) w s).1
          ((specExec I I.root (units m₁) w s).2, l ++ [e]) ∧
      (run I.logged (renderMsg m₁ ++ renderMsg m₂) w (s, l)).s.2 =
        l ++ [e] ++
          (verdicts I I.root (units m₂) (specExec I I.root (units m₁) w s).1
            (specExec I I.root (units m₁) w s).2).filterMap UnitVerdict.error := by
  obtain ⟨e, c, cs, cs', he, _, _, _, hl, _⟩ := message_one_fault I I.root (units m₁) w s k v h
  have hr : I.logged.root = I.root := rfl
  have h1 := C02.message_independent I.logged m₁ (renderMsg m₂) w (s, l) hne₁ hw₁
    (by rw [hr]; exact dropSafe_of_nlFree I.root I.root _ hn₁)
  rw [hr, hl l] at h1
  refine ⟨e, he, h1, ?_⟩
  rw [h1, run_message_errors I m₂ _ _ _ hne₂ hw₂ hs₂]
  rfl

/-! ## 4. Non-vacuity: three units, the fault in the middle, every kind of fault

The interface `Scpi.Demo.I` (Scpi/Proofs/RunStepsDemo.lean): `X` (command 0, query 4
answering `7`), `S` (a node without handlers), `F <u8>` (command 6, returns the custom
error 1).  The user state lists the handlers that ran, 99 = the error handler. -/

namespace MsgEx

def mk (name : Nat) (q : Bool) (lits : List Lit) : MsgUnit :=
  { hdr := { path := .compound false [[name]], query := q }, lits := lits }

/-- the literal `1` -/
def one : Lit := .dec { sign := none, int := [49], dot := false, frac := [], exp := none }

def uX : MsgUnit := mk 88 false []
/-- `Y`: no such node -/
def uY : MsgUnit := mk 89 false []
/-- `S`: a node without command handler -/
def uS : MsgUnit := mk 83 false []
/-- `X 1`: one parameter too many -/
def uX1 : MsgUnit := mk 88 false [one]
/-- `F x`: character data for a `u8` -/
def uFx : MsgUnit := mk 70 false [.chars [120]]
/-- `F 1`: the handler returns an error -/
def uF1 : MsgUnit := mk 70 false [one]
/-- `X?`: answers `7⏎` — too long for a writer with room for one byte -/
def uXq : MsgUnit := mk 88 true []

def l0 : Lex := { lead := [], sep := [], commas := [], trail := [] }
def lx : Lex := { lead := [], sep := [32], commas := [], trail := [] }

/-- `X;<u>;X⏎` -/
def msg (u : MsgUnit) : List (MsgUnit × Lex) :=
  [(uX, l0), (u, if u.lits.isEmpty then l0 else lx), (uX, l0)]

def W1 : Writer := { cap := some 1 }

example : renderMsg (msg uF1) = [88, 59, 70, 32, 49, 59, 88, 10] := by decide

/-- The hypotheses of `run_one_fault` for every message. -/
example : ∀ u ∈ [uY, uS, uX1, uFx, uF1, uXq],
    msg u ≠ [] ∧ wfMsg (msg u) = true ∧ (units (msg u)).all unitNlFree = true := by decide

/-- `X;Y;X⏎` — `undefined`. -/
example : FaultAt Demo.I Demo.I.root [uX] uY [uX] Demo.W [] .undefined :=
  ⟨by decide, by decide +kernel, by decide +kernel, fun h => absurd rfl h⟩
/-- `X;S;X⏎` — `noSlot`. -/
example : FaultAt Demo.I Demo.I.root [uX] uS [uX] Demo.W [] .noSlot :=
  ⟨by decide, by decide +kernel, by decide +kernel, fun _ => by decide +kernel⟩
/-- `X;X 1;X⏎` — `arity`. -/
example : FaultAt Demo.I Demo.I.root [uX] uX1 [uX] Demo.W [] .arity :=
  ⟨by decide, by decide +kernel, by decide +kernel, fun _ => by decide +kernel⟩
/-- `X;F x;X⏎` — `conversion DataTypeError`. -/
example : FaultAt Demo.I Demo.I.root [uX] uFx [uX] Demo.W [] (.conversion (.std .DataTypeError)) :=
  ⟨by decide, by decide +kernel, by decide +kernel, fun _ => by decide +kernel⟩
/-- `X;F 1;X⏎` — `handlerError (custom 1)`. -/
example : FaultAt Demo.I Demo.I.root [uX] uF1 [uX] Demo.W [] (.handlerError (.custom 1 [])) :=
  ⟨by decide, by decide +kernel, by decide +kernel, fun _ => by decide +kernel⟩
/-- `X;X?;X⏎` on a writer with room for one byte — `writeError TooMuchData`. -/
example : FaultAt Demo.I Demo.I.root [uX] uXq [uX] W1 [] (.writeError (.std .TooMuchData)) :=
  ⟨by decide, by decide +kernel, by decide +kernel, fun _ => by decide +kernel⟩

/-- The same by index, through `oneFault_of_faultAt`. -/
example : OneFault Demo.I Demo.I.root (units (msg uF1)) Demo.W [] 1 (.handlerError (.custom 1 [])) :=
  oneFault_of_faultAt (pre := [uX]) (u := uF1) (suf := [uX])
    ⟨by decide, by decide +kernel, by decide +kernel, fun _ => by decide +kernel⟩

/-- What the interpreter does on the bytes (computed independently of the theorems):
user state (handlers run, 99 = error handler) and error log. -/
example :
    (run Demo.I.logged (renderMsg (msg uY)) Demo.W ([], [])).s = ([0, 99], [.std .UndefinedHeader]) ∧
    (run Demo.I.logged (renderMsg (msg uS)) Demo.W ([], [])).s = ([0, 99, 0], [.std .UndefinedHeader]) ∧
    (run Demo.I.logged (renderMsg (msg uX1)) Demo.W ([], [])).s =
      ([0, 99, 0], [.std .UnexpectedNumberOfParameters]) ∧
    (run Demo.I.logged (renderMsg (msg uFx)) Demo.W ([], [])).s = ([0, 99, 0], [.std .DataTypeError]) ∧
    (run Demo.I.logged (renderMsg (msg uF1)) Demo.W ([], [])).s = ([0, 6, 99, 0], [.custom 1 []]) ∧
    (run Demo.I.logged (renderMsg (msg uXq)) W1 ([], [])).s = ([0, 4, 99, 0], [.std .TooMuchData]) := by
  decide +kernel

/-- … and the traces: the faulty unit's handler is called in the last two cases only;
after `undefined` nothing more happens. -/
example :
    (run Demo.I.traced (renderMsg (msg uY)) Demo.W ([], [])).s.2 =
      [Ev.call 0 [], Ev.error (.std .UndefinedHeader)] ∧
    (run Demo.I.traced (renderMsg (msg uFx)) Demo.W ([], [])).s.2 =
      [Ev.call 0 [], Ev.error (.std .DataTypeError), Ev.call 0 []] ∧
    (run Demo.I.traced (renderMsg (msg uF1)) Demo.W ([], [])).s.2 =
      [Ev.call 0 [], Ev.call 6 [.int .u8 1], Ev.error (.custom 1 []), Ev.call 0 []] ∧
    (run Demo.I.traced (renderMsg (msg uXq)) W1 ([], [])).s.2 =
      [Ev.call 0 [], Ev.call 4 [], Ev.error (.std .TooMuchData), Ev.call 0 []] := by
  decide +kernel

/-- The later message: `X;Y;X⏎` then `X⏎` — one error, and the second message runs. -/
example : (run Demo.I.logged (renderMsg (msg uY) ++ renderMsg [(uX, l0)]) Demo.W ([], [])).s =
    ([0, 99, 0], [.std .UndefinedHeader]) := by decide +kernel

end MsgEx

end C06
end Scpi
