/-
C07 — what `process` does depends on the byte stream only, not on how the
transport splits it into reads.

`Scpi/Spec/Stream.lean` defines the byte-at-a-time machine `streamRun`: it has no
buffer offsets and no reads, so it is a function of the stream by construction.
`process_refines_stream` shows that `Interface::process::<N, _>` over any
fault-free read schedule performs exactly the writes and flushes of that machine
and ends in the same user state; since the user state is arbitrary (take a log of
handler calls and reported errors), the handlers invoked and the errors reported
are the same as well.
-/
import Scpi.Proofs.StreamLoop
import Scpi.Proofs.StreamRuns

namespace Scpi
namespace C07

/-- **T7.1**: for every interface (tree, handlers, error handler), buffer size
`n ≥ 1`, stream and read schedule without transport fault — reads of one byte, of
zero bytes, reads larger than the free space, a schedule that runs out (the
adapter then fills the buffer) — `process`
* performs exactly the writes and flushes of the stream machine, in the same order,
* ends in the same user state,
* stops with end-of-stream, after having delivered the whole stream. -/
theorem process_refines_stream {σ : Type} (I : Iface σ) (n : Nat) (sc : Script) (s : σ)
    (hn : 1 ≤ n) (hf : sc.fault = none) :
    (process I n sc s).trace.filter PEv.nonRead = (streamRun I n sc.stream s).out ∧
    (process I n sc s).user = (streamRun I n sc.stream s).user ∧
    (process I n sc s).stop = .transport .eos ∧
    (process I n sc s).final.stream = [] := by
  unfold process
  rw [hf]
  obtain ⟨h1, h2, _, h4, h5⟩ := procLoop_refines I n _ _
    (⟨by simp, rfl, hn⟩ : PInv n { buf := List.replicate n 0, header := I.root, user := s,
                                   stream := sc.stream, sizes := sc.sizes })
    (Nat.lt_succ_self _)
  exact ⟨h4, h5, h1, h2⟩

/-- **C07, first half**: two fault-free scripts with the same stream give the same
writes and flushes and the same final user state, whatever their read sizes. -/
theorem chunk_independent {σ : Type} (I : Iface σ) (n : Nat) (sc₁ sc₂ : Script) (s : σ)
    (hn : 1 ≤ n) (hf₁ : sc₁.fault = none) (hf₂ : sc₂.fault = none)
    (hs : sc₁.stream = sc₂.stream) :
    (process I n sc₁ s).trace.filter PEv.nonRead = (process I n sc₂ s).trace.filter PEv.nonRead ∧
    (process I n sc₁ s).user = (process I n sc₂ s).user := by
  obtain ⟨a₁, b₁, _, _⟩ := process_refines_stream I n sc₁ s hn hf₁
  obtain ⟨a₂, b₂, _, _⟩ := process_refines_stream I n sc₂ s hn hf₂
  rw [a₁, a₂, b₁, b₂, hs]
  exact ⟨rfl, rfl⟩

/-- **T7.2 (stream machine)**: if the stream is a sequence of complete messages — each
ends with its only newline, is at most `n` bytes long and is consumed entirely by
`run` — the stream machine does what `run` does on the messages one at a time (the
user state threaded through, a fresh `n`-byte response buffer per message, each
non-empty response written and flushed). -/
theorem stream_eq_runs {σ : Type} (I : Iface σ) (n : Nat) (msgs : List Bytes) (s : σ)
    (hm : ∀ m ∈ msgs, IsMessage I n m) :
    (streamRun I n msgs.flatten s).user = (runMessages I n msgs s []).1 ∧
    (streamRun I n msgs.flatten s).out = (runMessages I n msgs s []).2 := by
  unfold streamRun
  rw [stream_messages I n msgs (streamInit I s) hm rfl rfl]
  exact ⟨rfl, rfl⟩

/-- **C07, second half (T7.2)**: when every message fits in the command buffer and
contains no newline other than its terminator, `process` over any fault-free read
schedule calls the same handlers, writes the same responses and reports the same
errors as handing the messages to `run` one at a time. -/
theorem process_eq_runs {σ : Type} (I : Iface σ) (n : Nat) (sc : Script) (msgs : List Bytes) (s : σ)
    (hn : 1 ≤ n) (hf : sc.fault = none) (hs : sc.stream = msgs.flatten)
    (hm : ∀ m ∈ msgs, IsMessage I n m) :
    (process I n sc s).user = (runMessages I n msgs s []).1 ∧
    (process I n sc s).trace.filter PEv.nonRead = (runMessages I n msgs s []).2 := by
  obtain ⟨a, b, _, _⟩ := process_refines_stream I n sc s hn hf
  obtain ⟨c, d⟩ := stream_eq_runs I n msgs s hm
  rw [a, b, hs, c, d]
  exact ⟨rfl, rfl⟩

/-- Whether a newline-terminated message is consumed entirely by `run` does not depend
on the response buffer or the user state, so `IsMessage` can be established by one
evaluation. -/
theorem isMessage_check {σ : Type} (I : Iface σ) (n : Nat) (body : Bytes) (w₀ : Writer) (s₀ : σ)
    (hb : ∀ b ∈ body, b ≠ 10) (hfit : body.length + 1 ≤ n)
    (h : (run I (body ++ [10]) w₀ s₀).rest = []) : IsMessage I n (body ++ [10]) :=
  isMessage_of_one I n body w₀ s₀ hb hfit h

/-- The interface of the examples: one query `Q?` answering `7`; the user state
logs the handler calls (`none`) and the reported errors (`some e`). -/
def exI : Iface (List (Option Err)) where
  root := .mk 0 [([81], .mk 1 [] none (some 0))] none none
  cmds := [{ argTys := [], handler := fun s _ => (s ++ [none], .ok (.int 7)) }]
  onError := fun s e => s ++ [some e]

/-- Non-vacuity: `Q?\nQ?\n` through a 4-byte buffer, byte by byte … -/
example : (process exI 4 { stream := [81, 63, 10, 81, 63, 10], sizes := [1, 1, 1, 1, 1, 1] } []).trace
    = [.r 1 4, .r 1 3, .r 1 2, .w [55, 10], .f, .r 1 4, .r 1 3, .r 1 2, .w [55, 10], .f] := by decide +kernel

/-- … in one read request larger than the buffer (the adapter delivers 4 bytes, then
the schedule is exhausted and the adapter fills the free space) … -/
example : (process exI 4 { stream := [81, 63, 10, 81, 63, 10], sizes := [6] } []).trace
    = [.r 4 4, .w [55, 10], .f, .r 2 3, .w [55, 10], .f] := by decide +kernel

/-- … and with empty reads and a read that exactly fills the buffer. -/
example : (process exI 4 { stream := [81, 63, 10, 81, 63, 10], sizes := [0, 4, 0, 2] } []).trace
    = [.r 0 4, .r 4 4, .w [55, 10], .f, .r 0 3, .r 2 3, .w [55, 10], .f] := by decide +kernel

/-- All three agree with the stream machine, and the handler ran twice. -/
example : (streamRun exI 4 [81, 63, 10, 81, 63, 10] []).out = [.w [55, 10], .f, .w [55, 10], .f] ∧
    (streamRun exI 4 [81, 63, 10, 81, 63, 10] []).user = [none, none] := by decide +kernel

/-- `Q?\nQ?\n` byte by byte, with empty reads and a read that fills the buffer, and
in one request larger than the buffer. -/
def exBytewise : Script := { stream := [81, 63, 10, 81, 63, 10], sizes := [1, 1, 1, 1, 1, 1] }
def exEmptyReads : Script := { stream := [81, 63, 10, 81, 63, 10], sizes := [0, 4, 0, 2] }
def exOversize : Script := { stream := [81, 63, 10, 81, 63, 10], sizes := [6] }

/-- The hypotheses of `chunk_independent` (and of `process_refines_stream`) are satisfiable. -/
example : (process exI 4 exBytewise []).user = (process exI 4 exEmptyReads []).user :=
  (chunk_independent exI 4 exBytewise exEmptyReads [] (by decide) rfl rfl rfl).2

/-- `n ≥ 1` is needed: with a zero-length command buffer every read delivers nothing
and `process` spins (the model reports `noProgress`). -/
example : (match (process exI 0 { stream := [10], sizes := [] } []).stop with
    | .crash .noProgress => true
    | _ => false) = true := by decide +kernel

/-- Non-vacuity of T7.2: `Q?\n` is a complete message for a 4-byte buffer … -/
theorem exMessage : IsMessage exI 4 [81, 63, 10] :=
  isMessage_check exI 4 [81, 63] { cap := none } [] (by decide) (by decide) (by decide +kernel)

/-- … so the hypotheses of `process_eq_runs` are satisfiable … -/
example : (process exI 4 exOversize []).user
    = (runMessages exI 4 [[81, 63, 10], [81, 63, 10]] [] []).1 :=
  (process_eq_runs exI 4 exOversize [[81, 63, 10], [81, 63, 10]] [] (by decide) rfl rfl
    (fun m hm => by
      simp only [List.mem_cons, List.not_mem_nil, or_false, or_self] at hm
      rw [hm]; exact exMessage)).1

/-- … and two of them handed to `run` one at a time give the writes, flushes and user
state computed by `process` above. -/
example : runMessages exI 4 [[81, 63, 10], [81, 63, 10]] [] []
    = ([none, none], [.w [55, 10], .f, .w [55, 10], .f]) := by decide +kernel

/-- A message that does not fit is discarded by `process` but not by `run`: the
length hypothesis of T7.2 is needed (5-byte message `Q?  \n`, 4-byte buffer). -/
example : (process exI 4 { stream := [81, 63, 32, 32, 10], sizes := [] } []).trace.filter PEv.nonRead = [] ∧
    (run exI [81, 63, 32, 32, 10] { cap := some 4 } []).w.buf = [55, 10] := by decide +kernel

end C07
end Scpi
