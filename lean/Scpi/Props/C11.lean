/-
C11 — "Changing the case of mnemonics, adding or removing white space (any of the
bytes 0-9 and 11-32) where the syntax allows it — before a unit, between header and
parameters, around commas, before ';' or the terminator — or ending the message with
CR LF instead of LF never changes which handlers run, the arguments they receive, the
responses, or the errors reported."

Everything the dispatcher does with a program message unit is a function of the
`CommandCall` (or error) that `parse` returns and of the remaining input.  The
rendering theorem `parse_render` gives that result for EVERY rendering of a
well-formed unit (`Scpi/Spec/Ast.lean`): header `u.hdr`, literals `u.lits`, lexical
choices `ℓ : Lex` (white space before the unit, between header and parameters, around
each comma, before the terminator), terminator `t`, followed by any bytes `rest`:

    parse root cur (render u ℓ t ++ rest) =
      match resolve root cur u.hdr.path with
      | some (node, hdr) => ok rest (some {node, header := hdr, query, args := lits.map value, terminated := t = nl})
      | none             => fatal UndefinedHeader

The right-hand side does not mention `ℓ`: white space is irrelevant
(`parse_render_lex_irrelevant`, `crlf_eq_lf`).  It mentions the spelling of the
mnemonics only through `Node.child`, which ignores ASCII case
(`child_case_insensitive`, `resolve_case_insensitive`, `parse_render_case_irrelevant`).
The exchange of short and long forms is `Scpi.C01.same_handler`
(Scpi/Props/C01Macro.lean): every spelling that matches a declaration reaches the
same handler id by `childWalk`, which is the node component of `resolve`
(`resolve_node`).

The same theorem is the core of C03 (lexer part: `args = lits.map Lit.value`, the text
verbatim — Scpi/Props/C03Lex.lean), C08 (payloads verbatim — Scpi/Props/C08.lean) and
C01/C02 (`resolve` walks `Node.child` from the root or from the current path and
returns the parent as the new path: `resolve_node`, `resolve_parent`).

Proofs: Scpi/Proofs/Render*.lean.
-/
import Scpi.Proofs.RenderParse
import Scpi.Proofs.MacroKeys

namespace Scpi
namespace C11

/-! ### The rendering theorem -/

/-- **Rendering theorem.**  For every command tree `root`, current path `cur`,
well-formed unit `u`, white-space choices `ℓ` (with white space after the header when
there are parameters), terminator `t` and continuation `rest`, `parse` returns the
call described by the AST — or `UndefinedHeader` when the header does not resolve —
and leaves exactly `rest`. -/
theorem parse_render (root cur : Node) (u : MsgUnit) (ℓ : Lex) (t : Term) (rest : Bytes)
    (hu : u.wf = true) (hℓ : ℓ.wf = true) (hfit : ℓ.fits u = true) :
    parse root cur (render u ℓ t ++ rest) =
      match resolve root cur u.hdr.path with
      | some nh => .ok rest (some { node := nh.1, header := nh.2, query := u.hdr.query,
                                     args := u.lits.map Lit.value, terminated := decide (t = .nl) })
      | none => .fatal (.std .UndefinedHeader) :=
  parse_render' root cur t rest hu hℓ hfit

/-- **White space is irrelevant**: two renderings of the same unit that differ in any
of the lexical choices give the same result. -/
theorem parse_render_lex_irrelevant (root cur : Node) (u : MsgUnit) (ℓ₁ ℓ₂ : Lex) (t : Term)
    (rest : Bytes) (hu : u.wf = true) (h₁ : ℓ₁.wf = true) (h₂ : ℓ₂.wf = true)
    (f₁ : ℓ₁.fits u = true) (f₂ : ℓ₂.fits u = true) :
    parse root cur (render u ℓ₁ t ++ rest) = parse root cur (render u ℓ₂ t ++ rest) := by
  rw [parse_render root cur u ℓ₁ t rest hu h₁ f₁, parse_render root cur u ℓ₂ t rest hu h₂ f₂]

/-- The empty message: white space and a newline. -/
theorem parse_empty (root cur : Node) (w rest : Bytes) (hw : allWs w = true) :
    parse root cur (w ++ 10 :: rest) = .ok rest none :=
  Scpi.parse_empty root cur rest hw

/-! ### White space, byte by byte -/

/-- The white space bytes are exactly 0–9 and 11–32. -/
theorem isWs_iff (b : Nat) : isWs b = true ↔ (b ≤ 9 ∨ (11 ≤ b ∧ b ≤ 32)) := by
  simp only [isWs, Bool.or_eq_true, Bool.and_eq_true, decide_eq_true_eq]

/-- Carriage return is white space; the terminators are not. -/
example : isWs 13 = true ∧ isWs 10 = false ∧ isWs 59 = false := by decide

/-! ### CR LF -/

/-- The same lexical choices with a carriage return before the terminator. -/
def withCR (ℓ : Lex) : Lex := { ℓ with trail := ℓ.trail ++ [13] }

theorem withCR_wf {ℓ : Lex} (h : ℓ.wf = true) : (withCR ℓ).wf = true := by
  simp only [Lex.wf, Bool.and_eq_true] at h ⊢
  refine ⟨⟨⟨h.1.1.1, h.1.1.2⟩, h.1.2⟩, ?_⟩
  exact allWs_append h.2 (by decide)

/-- **CR LF instead of LF**: a message unit `x ++ "\n"` and the same bytes ending in
`"\r\n"` are two renderings of the same unit, hence parse alike. -/
theorem crlf_eq_lf (root cur : Node) (u : MsgUnit) (ℓ : Lex) (rest : Bytes)
    (hu : u.wf = true) (hℓ : ℓ.wf = true) (hfit : ℓ.fits u = true) :
    ∃ x, render u ℓ .nl = x ++ [10] ∧ render u (withCR ℓ) .nl = x ++ [13, 10] ∧
      parse root cur (x ++ [13, 10] ++ rest) = parse root cur (x ++ [10] ++ rest) := by
  refine ⟨ℓ.lead ++ (u.hdr.render ++ (ℓ.sep ++ (renderArgs u.lits ℓ.commas ++ ℓ.trail))), ?_, ?_, ?_⟩
  · simp only [render, Term.byte, List.append_assoc]
  · simp only [render, withCR, Term.byte, List.append_assoc, List.cons_append, List.nil_append]
  · have e1 : ℓ.lead ++ (u.hdr.render ++ (ℓ.sep ++ (renderArgs u.lits ℓ.commas ++ ℓ.trail))) ++ [13, 10]
        = render u (withCR ℓ) .nl := by
      simp only [render, withCR, Term.byte, List.append_assoc, List.cons_append, List.nil_append]
    have e2 : ℓ.lead ++ (u.hdr.render ++ (ℓ.sep ++ (renderArgs u.lits ℓ.commas ++ ℓ.trail))) ++ [10]
        = render u ℓ .nl := by
      simp only [render, Term.byte, List.append_assoc]
    rw [e1, e2]
    exact parse_render_lex_irrelevant root cur u (withCR ℓ) ℓ .nl rest hu (withCR_wf hℓ) hℓ hfit hfit

/-! ### Letter case of mnemonics -/

/-- `eq_ignore_ascii_case` is equality of the lower-cased strings. -/
theorem eqIgnoreAsciiCase_iff (a b : Bytes) :
    eqIgnoreAsciiCase a b = true ↔ a.map toLowerAscii = b.map toLowerAscii := by
  rw [eqIgnoreAsciiCase_eq]; exact beq_iff_eq

/-- Lower-casing a name gives a name that is equal ignoring case (and so does every
other change of the case of its ASCII letters: `eqIgnoreAsciiCase_iff`). -/
theorem eqIgnoreAsciiCase_map_lower (a : Bytes) :
    eqIgnoreAsciiCase a (a.map toLowerAscii) = true := by
  rw [eqIgnoreAsciiCase_iff, List.map_map]
  apply List.map_congr_left
  intro b _
  simp only [Function.comp, toLowerAscii]
  repeat' split
  all_goals omega

theorem eqIgnoreAsciiCase_map_upper (a : Bytes) :
    eqIgnoreAsciiCase a (a.map toUpperAscii) = true := by
  rw [eqIgnoreAsciiCase_iff, List.map_map]
  apply List.map_congr_left
  intro b _
  simp only [Function.comp, toLowerAscii, toUpperAscii]
  repeat' split
  all_goals omega

/-- **Case of a mnemonic**: names that are equal ignoring ASCII case select the same
child of every node. -/
theorem child_case_insensitive (n : Node) {name name' : Bytes}
    (h : eqIgnoreAsciiCase name name' = true) : n.child name = n.child name' := by
  have e := (eqIgnoreAsciiCase_iff _ _).1 h
  unfold Node.child
  generalize n.children = cs
  induction cs with
  | nil => rfl
  | cons p cs ih =>
    obtain ⟨k, c⟩ := p
    simp only [findChild, eqIgnoreAsciiCase_eq, e, ih]

/-- Headers whose mnemonics are pairwise equal ignoring case. -/
def SameIgnoringCase : List Bytes → List Bytes → Prop
  | [], [] => True
  | m :: ms, m' :: ms' => eqIgnoreAsciiCase m m' = true ∧ SameIgnoringCase ms ms'
  | _, _ => False

/-- … walk to the same node. -/
theorem childWalk_case_insensitive : ∀ {ms ms' : List Bytes}, SameIgnoringCase ms ms' →
    ∀ n : Node, childWalk n ms = childWalk n ms'
  | [], [], _, _ => rfl
  | [], _ :: _, h, _ => absurd h id
  | _ :: _, [], h, _ => absurd h id
  | m :: ms, m' :: ms', h, n => by
    simp only [childWalk, child_case_insensitive n h.1]
    cases n.child m' with
    | none => rfl
    | some c => exact childWalk_case_insensitive h.2 c

theorem resolveFrom_case_insensitive : ∀ {ms ms' : List Bytes}, SameIgnoringCase ms ms' →
    ∀ n : Node, resolveFrom n ms = resolveFrom n ms'
  | [], [], _, _ => rfl
  | [], _ :: _, h, _ => absurd h id
  | _ :: _, [], h, _ => absurd h id
  | [m], [m'], h, n => by simp only [resolveFrom, child_case_insensitive n h.1]
  | [_], _ :: _ :: _, h, _ => absurd h.2 id
  | _ :: _ :: _, [_], h, _ => absurd h.2 id
  | m :: m₂ :: ms, m' :: m₂' :: ms', h, n => by
    simp only [resolveFrom, child_case_insensitive n h.1]
    cases n.child m' with
    | none => rfl
    | some c => exact resolveFrom_case_insensitive h.2 c

/-- Header paths that differ only in the letter case of their mnemonics. -/
def PathSameIgnoringCase : HdrPath → HdrPath → Prop
  | .compound a ms, .compound a' ms' => a = a' ∧ SameIgnoringCase ms ms'
  | .common n, .common n' => eqIgnoreAsciiCase n n' = true
  | _, _ => False

/-- **Case of the header**: paths that differ only in letter case resolve alike. -/
theorem resolve_case_insensitive (root cur : Node) {p p' : HdrPath}
    (h : PathSameIgnoringCase p p') : resolve root cur p = resolve root cur p' := by
  cases p with
  | compound a ms =>
    cases p' with
    | compound a' ms' =>
      obtain ⟨e, h⟩ := h
      subst e
      exact resolveFrom_case_insensitive h _
    | common n' => exact absurd h id
  | common n =>
    cases p' with
    | compound a' ms' => exact absurd h id
    | common n' =>
      have h' : eqIgnoreAsciiCase (42 :: n) (42 :: n') = true := by
        simp only [eqIgnoreAsciiCase, beq_self_eq_true, Bool.true_and]
        exact h
      simp only [resolve, child_case_insensitive root h']

/-! Changing the case of letters keeps a header well-formed. -/

theorem class_of_lower_eq {b b' : Nat} (h : toLowerAscii b = toLowerAscii b') :
    isAlpha b = isAlpha b' ∧ isMnemonicTail b = isMnemonicTail b' := by
  simp only [toLowerAscii] at h
  constructor
  · rw [Bool.eq_iff_iff]
    simp only [isAlpha, Bool.or_eq_true, Bool.and_eq_true, decide_eq_true_eq]
    split at h <;> split at h <;> omega
  · rw [Bool.eq_iff_iff]
    simp only [isMnemonicTail, isAlnum, isAlpha, isDigit, Bool.or_eq_true, Bool.and_eq_true,
      decide_eq_true_eq, beq_iff_eq]
    split at h <;> split at h <;> omega

theorem all_tail_of_lower_eq : ∀ {m m' : Bytes}, m.map toLowerAscii = m'.map toLowerAscii →
    m.all isMnemonicTail = m'.all isMnemonicTail
  | [], [], _ => rfl
  | [], _ :: _, h => by cases h
  | _ :: _, [], h => by cases h
  | b :: m, b' :: m', h => by
    simp only [List.map_cons, List.cons.injEq] at h
    simp only [List.all_cons, (class_of_lower_eq h.1).2, all_tail_of_lower_eq h.2]

theorem isMnemonicText_case_insensitive {m m' : Bytes} (h : eqIgnoreAsciiCase m m' = true) :
    isMnemonicText m = isMnemonicText m' := by
  have e := (eqIgnoreAsciiCase_iff _ _).1 h
  cases m with
  | nil =>
    cases m' with
    | nil => rfl
    | cons _ _ => cases e
  | cons b m =>
    cases m' with
    | nil => cases e
    | cons b' m' =>
      simp only [List.map_cons, List.cons.injEq] at e
      simp only [isMnemonicText, (class_of_lower_eq e.1).1, all_tail_of_lower_eq e.2]

theorem all_mnemonicText_case_insensitive : ∀ {ms ms' : List Bytes}, SameIgnoringCase ms ms' →
    ms.all isMnemonicText = ms'.all isMnemonicText ∧ ms.isEmpty = ms'.isEmpty
  | [], [], _ => ⟨rfl, rfl⟩
  | [], _ :: _, h => absurd h id
  | _ :: _, [], h => absurd h id
  | m :: ms, m' :: ms', h => by
    simp only [List.all_cons, isMnemonicText_case_insensitive h.1,
      (all_mnemonicText_case_insensitive h.2).1, List.isEmpty_cons, and_self]

/-- A header stays well-formed under a change of letter case. -/
theorem path_wf_case_insensitive {p p' : HdrPath} (h : PathSameIgnoringCase p p') :
    p.wf = p'.wf := by
  cases p with
  | compound a ms =>
    cases p' with
    | compound a' ms' =>
      obtain ⟨_, h⟩ := h
      obtain ⟨h1, h2⟩ := all_mnemonicText_case_insensitive h
      simp only [HdrPath.wf, h1, h2]
    | common n' => exact absurd h id
  | common n =>
    cases p' with
    | compound a' ms' => exact absurd h id
    | common n' => exact isMnemonicText_case_insensitive h

/-- Lower-casing (or upper-casing) every mnemonic is such a change. -/
def mapPath (f : Nat → Nat) : HdrPath → HdrPath
  | .compound a ms => .compound a (ms.map (·.map f))
  | .common n => .common (n.map f)

theorem sameIgnoringCase_map {f : Nat → Nat} (hf : ∀ m : Bytes, eqIgnoreAsciiCase m (m.map f) = true) :
    ∀ ms : List Bytes, SameIgnoringCase ms (ms.map (·.map f))
  | [] => trivial
  | m :: ms => ⟨hf m, sameIgnoringCase_map hf ms⟩

theorem mapPath_lower_same (p : HdrPath) : PathSameIgnoringCase p (mapPath toLowerAscii p) := by
  cases p with
  | compound a ms => exact ⟨rfl, sameIgnoringCase_map eqIgnoreAsciiCase_map_lower ms⟩
  | common n => exact eqIgnoreAsciiCase_map_lower n

theorem mapPath_upper_same (p : HdrPath) : PathSameIgnoringCase p (mapPath toUpperAscii p) := by
  cases p with
  | compound a ms => exact ⟨rfl, sameIgnoringCase_map eqIgnoreAsciiCase_map_upper ms⟩
  | common n => exact eqIgnoreAsciiCase_map_upper n

/-- **C11 for `parse`**: two units with the same literals and query flag whose headers
differ only in the letter case of the mnemonics, rendered with ANY white space
choices, give the same call (or the same error).  (The second unit is well-formed
because the first is: `path_wf_case_insensitive`.) -/
theorem parse_render_case_irrelevant (root cur : Node) (u₁ u₂ : MsgUnit) (ℓ₁ ℓ₂ : Lex) (t : Term)
    (rest : Bytes) (hp : PathSameIgnoringCase u₁.hdr.path u₂.hdr.path)
    (hq : u₁.hdr.query = u₂.hdr.query) (hl : u₁.lits = u₂.lits)
    (hu₁ : u₁.wf = true) (h₁ : ℓ₁.wf = true) (h₂ : ℓ₂.wf = true)
    (f₁ : ℓ₁.fits u₁ = true) (f₂ : ℓ₂.fits u₂ = true) :
    parse root cur (render u₁ ℓ₁ t ++ rest) = parse root cur (render u₂ ℓ₂ t ++ rest) := by
  have hu₂ : u₂.wf = true := by
    simp only [MsgUnit.wf, ← path_wf_case_insensitive hp, ← hl] at hu₁ ⊢
    exact hu₁
  rw [parse_render root cur u₁ ℓ₁ t rest hu₁ h₁ f₁, parse_render root cur u₂ ℓ₂ t rest hu₂ h₂ f₂,
    resolve_case_insensitive root cur hp, hq, hl]

/-- In particular the unit with all mnemonics lower-cased (or upper-cased), in any
white space, parses like the original. -/
theorem parse_render_lower (root cur : Node) (u : MsgUnit) (ℓ₁ ℓ₂ : Lex) (t : Term) (rest : Bytes)
    (hu : u.wf = true) (h₁ : ℓ₁.wf = true) (h₂ : ℓ₂.wf = true) (f₁ : ℓ₁.fits u = true)
    (f₂ : ℓ₂.fits u = true) :
    parse root cur (render u ℓ₁ t ++ rest) =
      parse root cur (render { u with hdr := { u.hdr with path := mapPath toLowerAscii u.hdr.path } }
        ℓ₂ t ++ rest) :=
  parse_render_case_irrelevant root cur u _ ℓ₁ ℓ₂ t rest (mapPath_lower_same _) rfl rfl hu h₁ h₂ f₁ f₂

theorem parse_render_upper (root cur : Node) (u : MsgUnit) (ℓ₁ ℓ₂ : Lex) (t : Term) (rest : Bytes)
    (hu : u.wf = true) (h₁ : ℓ₁.wf = true) (h₂ : ℓ₂.wf = true) (f₁ : ℓ₁.fits u = true)
    (f₂ : ℓ₂.fits u = true) :
    parse root cur (render u ℓ₁ t ++ rest) =
      parse root cur (render { u with hdr := { u.hdr with path := mapPath toUpperAscii u.hdr.path } }
        ℓ₂ t ++ rest) :=
  parse_render_case_irrelevant root cur u _ ℓ₁ ℓ₂ t rest (mapPath_upper_same _) rfl rfl hu h₁ h₂ f₁ f₂

/-! ### `resolve` is the walk of C01/C02 -/

/-- The node a compound header designates is reached by `childWalk` (the walk to which
`Scpi.C01.same_handler` refers) from the root (leading colon) or the current path. -/
theorem resolveFrom_node : ∀ (ms : List Bytes) (p : Node), ms ≠ [] →
    (resolveFrom p ms).map (·.1) = childWalk p ms
  | [], _, h => absurd rfl h
  | [m], p, _ => by
    simp only [resolveFrom, childWalk]
    cases p.child m <;> rfl
  | m :: m' :: ms, p, _ => by
    simp only [resolveFrom, childWalk]
    cases p.child m with
    | none => rfl
    | some c =>
      simp only [Option.bind_some]
      have := resolveFrom_node (m' :: ms) c (by simp)
      simpa only [childWalk] using this

theorem resolve_node (root cur : Node) (a : Bool) (ms : List Bytes) (hne : ms ≠ []) :
    (resolve root cur (.compound a ms)).map (·.1) = childWalk (if a then root else cur) ms :=
  resolveFrom_node ms _ hne

/-- The path left for the next unit is the parent of the node reached: the node
reached by all mnemonics but the last. -/
theorem resolveFrom_parent : ∀ (ms : List Bytes) (p : Node),
    resolveFrom p ms = (childWalk p ms.dropLast).bind fun q =>
      ms.getLast?.bind fun m => (q.child m).map fun n => (n, some q)
  | [], _ => rfl
  | [m], p => by
    simp only [resolveFrom, List.dropLast_singleton, childWalk, Option.bind_some,
      List.getLast?_singleton]
  | m :: m' :: ms, p => by
    simp only [resolveFrom, List.dropLast_cons_cons, childWalk, List.getLast?_cons_cons]
    cases p.child m with
    | none => rfl
    | some c =>
      simp only [Option.bind_some]
      exact resolveFrom_parent (m' :: ms) c

theorem resolve_parent (root cur : Node) (a : Bool) (ms : List Bytes) :
    resolve root cur (.compound a ms) =
      (childWalk (if a then root else cur) ms.dropLast).bind fun q =>
        ms.getLast?.bind fun m => (q.child m).map fun n => (n, some q) :=
  resolveFrom_parent ms _

/-- A common command is looked up at the root under its name with the asterisk and
leaves no path. -/
theorem resolve_common (root cur : Node) (n : Bytes) :
    resolve root cur (.common n) = (root.child (42 :: n)).map fun node => (node, none) := rfl

/-! ### Non-vacuity -/

/-- The tree `S:A` (command handler 0 on `A`). -/
def tree : Node := .mk 0 [([83], .mk 1 [([65], .mk 2 [] (some 0) none)] none none)] none none

/-- The unit `s:a 1,"x;y\n"`: lower-case mnemonics, a decimal and a string whose payload
contains both terminators. -/
def unit1 : MsgUnit :=
  { hdr := { path := .compound false [[115], [97]], query := false },
    lits := [.dec { sign := none, int := [49], dot := false, frac := [], exp := none },
             .str 34 [120, 59, 121, 10]] }

/-- The same unit spelled `:S:A`. -/
def unit2 : MsgUnit :=
  { unit1 with hdr := { path := .compound true [[83], [65]], query := false } }

/-- Minimal white space. -/
def lexA : Lex := { lead := [], sep := [32], commas := [], trail := [] }
/-- Plenty of white space (tabs, blanks, a NUL, CR before the terminator). -/
def lexB : Lex := { lead := [32, 9], sep := [9, 32], commas := [([32], [0, 32])], trail := [32, 13] }

example : unit1.wf = true ∧ unit2.wf = true ∧ lexA.wf = true ∧ lexB.wf = true ∧
    lexA.fits unit1 = true ∧ lexB.fits unit1 = true := by decide

/-- `s:a 1,"x;y\n";` and `  s:a  1 , "x;y\n" \r\n` as bytes. -/
example : render unit1 lexA .semi
    = [115, 58, 97, 32, 49, 44, 34, 120, 59, 121, 10, 34, 59] := by decide
example : render unit1 lexB .nl
    = [32, 9, 115, 58, 97, 9, 32, 49, 32, 44, 0, 32, 34, 120, 59, 121, 10, 34, 32, 13, 10] := by
  decide

/-- The header resolves to node 2 with path node 1. -/
example : (resolve tree tree unit1.hdr.path).map (fun nh => (nh.1.tag, nh.2.map Node.tag))
    = some (2, some 1) := by decide

/-- Both renderings deliver the same node and the same two arguments, verbatim. -/
example : ∃ c, parse tree tree (render unit1 lexA .nl ++ [88]) = .ok [88] (some c) ∧
    c.node.tag = 2 ∧ c.args = [.dec [49], .str [120, 59, 121, 10]] ∧ c.terminated = true :=
  ⟨_, rfl, rfl, rfl, rfl⟩
example : ∃ c, parse tree tree (render unit1 lexB .nl ++ [88]) = .ok [88] (some c) ∧
    c.node.tag = 2 ∧ c.args = [.dec [49], .str [120, 59, 121, 10]] ∧ c.terminated = true :=
  ⟨_, rfl, rfl, rfl, rfl⟩

/-- The hypotheses of `parse_render_case_irrelevant` hold for `s:a` against `S:A`
(relative both): -/
example : PathSameIgnoringCase unit1.hdr.path (.compound false [[83], [65]]) :=
  ⟨rfl, by decide, by decide, trivial⟩

example : mapPath toUpperAscii unit1.hdr.path = .compound false [[83], [65]] := by decide

/-- `s:b 1,"x;y\n"`: an undefined header is the `none` branch. -/
def unit3 : MsgUnit :=
  { unit1 with hdr := { path := .compound false [[115], [98]], query := false } }

example : unit3.wf = true ∧ resolve tree tree unit3.hdr.path = none ∧
    parse tree tree (render unit3 lexB .nl) = .fatal (.std .UndefinedHeader) := ⟨by decide, rfl, rfl⟩

/-- The white space after the header is needed when there are parameters (`fits`):
`s:a1\n` is another header. -/
example : parse tree tree [115, 58, 97, 49, 10] = .fatal (.std .UndefinedHeader) := rfl

end C11
end Scpi
