/-
C04 — every successfully executed query produces exactly one response: the
handler's return value encoded as IEEE 488.2 response data, then a newline and a
flush of the writer.  Decoding the response yields exactly the returned value; the
bytes are the same for every writer that has room for them.  Commands, failed
queries and undefined headers produce no output.

Specification: `Scpi/Spec/Decode.lean` — the shapes `RespTy`, the typing relation
`HasTy`, the well-formedness conditions `RespTy.WF` / `Resp.WF` and the
type-directed reader `decode`, which never calls the model's encoder.

* T4.1  `decode_encode` (with the sub-lemmas `natDigits_roundtrip`,
  `intPieces_roundtrip`, `quoted_roundtrip`, `block_roundtrip`, `arb_too_long`);
  floats are covered under the formatter contract `FloatTextOk`, which the driver
  checks on every float the implementation prints (translation validation).
* T4.2  `nan_sentinel`, `inf_sentinel` (and the `f32` versions).
* T4.3  `writer_independent`, `written_is_encode`.
* T4.4  `execute_query_ok`, `execute_query_total`.
* T4.5  `no_output` and its instances, `command_unit_no_output`.
* order `two_queries_in_order`, `execute_appends`, `run_appends`.

Findings recorded here as theorems: `err_not_injective` (a custom error can print
exactly like a standard one) and the `ambiguous_*` witnesses which justify each
exclusion made by `RespTy.WF` / `Resp.WF`.
-/
import Scpi.Proofs.RespDecode
import Scpi.Proofs.RespExec
import Scpi.Proofs.RespRun

namespace Scpi
namespace C04

/-! ## T4.1 — decoding inverts encoding -/

/-- **Digits**: `Display` for unsigned integers prints at least one character, only
ASCII digits, and their decimal value is the number. -/
theorem natDigits_value (n : Nat) :
    natDigits n ≠ [] ∧ (∀ b ∈ natDigits n, isDig b = true) ∧ decVal (natDigits n) = n :=
  ⟨natDigits_ne_nil n, natDigits_all_dig n, decVal_natDigits n⟩

/-- **Digits round trip**: reading the digits of `n` (followed by anything that does
not start with a digit) gives back `n` and leaves what followed. -/
theorem natDigits_roundtrip (n : Nat) (rest : Bytes)
    (hr : ∀ b, rest.head? = some b → isDig b = false) :
    decNat (natDigits n ++ rest) = some (n, rest) :=
  decNat_natDigits n rest hr

/-- **Integer round trip**, negative numbers included: the pieces `Display` hands to
the writer (`-` and the digits of the absolute value), concatenated, read back as
the same integer. -/
theorem intPieces_roundtrip (v : Int) (rest : Bytes)
    (hr : ∀ b, rest.head? = some b → isDig b = false) :
    decInt ((intPieces v).flatten ++ rest) = some (v, rest) :=
  decInt_intPieces v rest hr

/-- The bytes `write_quoted` produces: an opening quote, the text with every double
quote doubled, a closing quote. -/
theorem quoted_bytes_eq (s : Bytes) :
    ((quotedCalls s).map WCall.bytes).flatten =
      34 :: (s.flatMap fun b => if b = 34 then [34, 34] else [b]) ++ [34] :=
  quoted_bytes s

/-- **String round trip**: `split('"')` + doubling (`write_quoted`) is inverted by
undoubling, for every text, whatever follows (unless it starts with a quote). -/
theorem quoted_roundtrip (s rest : Bytes) (hr : rest.head? ≠ some 34) :
    decStr (((quotedCalls s).map WCall.bytes).flatten ++ rest) = some (s, rest) :=
  decStr_quoted s rest hr

/-- **Block round trip** for every payload whose length has at most nine digits
(the empty block `#10` included), whatever follows. -/
theorem block_roundtrip (s rest : Bytes) (h : s.length < 10 ^ 9) :
    decArb ((Resp.arb s).encode ++ rest) = some (s, rest) :=
  decArb_encode s rest h

/-- The empty block is `#10`. -/
theorem arb_empty : (Resp.arb []).encode = [35, 49, 48] := encode_arb_empty

/-- A block of 10^9 bytes or more (a length of ten digits or more) is an error:
`write_response` refuses it with `TooMuchData` before writing anything, for every
writer. -/
theorem arb_too_long (s : Bytes) (h : 10 ^ 9 ≤ s.length) :
    (Resp.arb s).calls = [.fail (.std .TooMuchData)] ∧
    ∀ w : Writer, w.writeResp (.arb s) = (w, .error (.std .TooMuchData)) := by
  have hc := calls_arb_too_long s h
  refine ⟨hc, fun w => ?_⟩
  unfold Writer.writeResp
  rw [hc]
  exact Writer.calls_fail w _

/-- **T4.1, prefix form.**  A well-formed value of a well-formed type is read back
from the front of any text that continues with nothing or — for a type of fixed
arity — with a comma; the continuation is left unread. -/
theorem decodeP_encode_append (r : Resp) (ty : RespTy) (rest : Bytes) (hw : r.WF) (ht : HasTy r ty)
    (hty : ty.WF = true) (hf : FloatsOk r)
    (hr : rest = [] ∨ (ty.fixed = true ∧ rest.head? = some 44)) :
    decodeP ty (r.encode ++ rest) = some (r, rest) :=
  decodeP_encode ty r rest ht hw hf hty hr

/-- **T4.1** — decoding the response text yields exactly the value the handler
returned: for every well-formed value `r` of every well-formed shape `ty`, provided
the float formatter contract `FloatTextOk` holds for the finite floats occurring in
`r` (bit-exactness of floats is part of `FloatTextOk`: the text parses back to the
same bit pattern). -/
theorem decode_encode (r : Resp) (ty : RespTy) (hw : r.WF) (ht : HasTy r ty)
    (hty : ty.WF = true) (hf : FloatsOk r) : decode ty r.encode = some r := by
  have := decodeP_encode ty r [] ht hw hf hty (Or.inl rfl)
  rw [List.append_nil] at this
  simp only [decode, this]

/-- A value without float leaves. -/
def NoFloatLeaf : Resp → Prop
  | .f32 _ => False
  | .f64 _ => False
  | _ => True

/-- **T4.1 without any assumption on the float formatter**: values that contain no
floats (integers, booleans, strings, character data, blocks, errors and their
tuples and lists). -/
theorem decode_encode_no_floats (r : Resp) (ty : RespTy) (hw : r.WF) (ht : HasTy r ty)
    (hty : ty.WF = true) (hn : r.All NoFloatLeaf) : decode ty r.encode = some r := by
  refine decode_encode r ty hw ht hty (all_mono (fun x hx => ?_) r hn)
  cases x <;> simp only [LeafFloatOk] <;> first | trivial | exact absurd hx (by simp [NoFloatLeaf])

/-- A list of integers has type `list int`. -/
theorem hasTy_int_list (l : List Int) : HasTy (.seq (l.map Resp.int)) (.list .int) := by
  refine .list fun x hx => ?_
  obtain ⟨v, _, rfl⟩ := List.mem_map.mp hx
  exact .int v

/-! ### Non-vacuity of T4.1 -/

/-- The concrete value `-5,"a""b",1`. -/
example : (Resp.seq [.int (-5), .str [97, 34, 98], .bool true]).encode =
    [45, 53, 44, 34, 97, 34, 34, 98, 34, 44, 49] := by rfl

example : decode (.seq [.int, .str, .bool])
    (Resp.seq [.int (-5), .str [97, 34, 98], .bool true]).encode =
    some (.seq [.int (-5), .str [97, 34, 98], .bool true]) := by rfl

/-- The hypotheses of `decode_encode` are satisfiable on that value (no floats). -/
example : decode (.seq [.int, .str, .bool])
    (Resp.seq [.int (-5), .str [97, 34, 98], .bool true]).encode =
    some (.seq [.int (-5), .str [97, 34, 98], .bool true]) :=
  decode_encode_no_floats _ _
    (by simp [Resp.WF, Resp.All, Resp.AllL, Resp.LeafWF])
    (.tuple (.cons (.int _) (.cons (.str _) (.cons (.bool _) .nil))))
    (by decide)
    (by simp [Resp.All, Resp.AllL, NoFloatLeaf])

/-- … and on a nested value with floats, a block, character data, a `unit`
position and a variable-length tail: `1.5,-0.15625,#13<1><2><3>,,AB,7,8,9`. -/
example : decode (.seq [.f64, .f32, .arb, .unit, .chars, .list .int])
    (Resp.seq [.f64 0x3ff8000000000000, .f32 0xbe200000, .arb [1, 2, 3], .unit, .chars [65, 66],
      .seq [.int 7, .int 8, .int 9]]).encode =
    some (.seq [.f64 0x3ff8000000000000, .f32 0xbe200000, .arb [1, 2, 3], .unit, .chars [65, 66],
      .seq [.int 7, .int 8, .int 9]]) :=
  decode_encode _ _
    (by simp [Resp.WF, Resp.All, Resp.AllL, Resp.LeafWF]; decide)
    (.tuple (.cons (.f64 _) (.cons (.f32 _) (.cons (.arb _) (.cons .unit (.cons (.chars _)
      (.cons (hasTy_int_list [7, 8, 9]) .nil)))))))
    (by decide)
    (by
      simp only [FloatsOk, Resp.All, Resp.AllL, LeafFloatOk, and_true]
      exact ⟨fun _ _ => ⟨by decide, by decide⟩, fun _ _ => ⟨by decide, by decide⟩⟩)

/-- `FloatTextOk` is satisfiable: `1.5` and `-0.15625`. -/
example : FloatTextOk fmt64 0x3ff8000000000000 ∧ FloatTextOk fmt32 0xbe200000 :=
  ⟨⟨by decide, by decide⟩, ⟨by decide, by decide⟩⟩

/-! ### Why the exclusions of `WF` are needed (witnesses) -/

/-- **Finding.**  `Error → (number, description)` is not injective: the custom
error `Custom(-100, "Command error")` prints exactly like `Error::CommandError`.
Hence `Err.Canonical` in `Resp.WF`. -/
theorem err_not_injective :
    (Resp.err (.custom (-100) (strBytes "Command error"))).encode =
      (Resp.err (.std .CommandError)).encode ∧
    Err.custom (-100) (strBytes "Command error") ≠ Err.std .CommandError := by
  refine ⟨?_, by intro h; cases h⟩
  rw [encode_err, encode_err]
  rfl

/-- Two variable-length lists in one tuple: `([1],[2,3])` and `([1,2],[3])` both
print `1,2,3`.  Hence "`list` only in tail position". -/
theorem ambiguous_two_lists :
    (Resp.seq [.seq [.int 1], .seq [.int 2, .int 3]]).encode =
      (Resp.seq [.seq [.int 1, .int 2], .seq [.int 3]]).encode ∧
    HasTy (.seq [.seq [.int 1], .seq [.int 2, .int 3]]) (.seq [.list .int, .list .int]) ∧
    HasTy (.seq [.seq [.int 1, .int 2], .seq [.int 3]]) (.seq [.list .int, .list .int]) := by
  exact ⟨by rfl, .tuple (.cons (hasTy_int_list [1]) (.cons (hasTy_int_list [2, 3]) .nil)),
    .tuple (.cons (hasTy_int_list [1, 2]) (.cons (hasTy_int_list [3]) .nil))⟩

/-- A list of lists: `[[1],[2]]` and `[[1,2]]` both print `1,2`.  Hence "the element
type of a `list` is `fixed`". -/
theorem ambiguous_nested_list :
    (Resp.seq [.seq [.int 1], .seq [.int 2]]).encode = (Resp.seq [.seq [.int 1, .int 2]]).encode := by
  rfl

/-- A list of `()`: `[()]` and `[]` both print nothing.  Hence "the element type of a
`list` is `nonEmpty`". -/
theorem ambiguous_unit_list : (Resp.seq [.unit]).encode = (Resp.seq []).encode := by rfl

/-- Character data is written verbatim: `A,B` as one element prints like the two
elements `A` and `B`; an empty element prints like no element.  Hence the two
conditions on `chars` in `Resp.WF`. -/
theorem ambiguous_chars :
    (Resp.seq [.chars [65, 44, 66]]).encode = (Resp.seq [.chars [65], .chars [66]]).encode ∧
    (Resp.seq [.chars []]).encode = (Resp.seq []).encode := ⟨by rfl, by rfl⟩

/-! ## T4.2 — NaN and the infinities are replaced by sentinels -/

theorem floatCalls_nan (f : FloatFmt) (bits : Nat) (h : f.isNan bits = true) :
    floatCalls f bits = [.direct (strBytes "9.91E+37")] := by
  simp [floatCalls, h]

theorem floatCalls_inf (f : FloatFmt) (bits : Nat) (h : f.isInf bits = true) :
    floatCalls f bits =
      [.direct (if f.negOf bits then strBytes "-9.9E+37" else strBytes "9.9E+37")] := by
  have hn : f.isNan bits = false := by
    simp only [FloatFmt.isInf, Bool.and_eq_true, beq_iff_eq] at h
    simp [FloatFmt.isNan, h.2]
  simp only [floatCalls, hn, h, Bool.false_eq_true, if_false, if_true]
  split <;> rfl

/-- **T4.2** every `f64` NaN (any sign, any payload) is written as `9.91E+37`, in
one `write_str`. -/
theorem nan_sentinel (bits : Nat) (h : fmt64.isNan bits = true) :
    (Resp.f64 bits).calls = [.direct (strBytes "9.91E+37")] ∧
    (Resp.f64 bits).encode = [57, 46, 57, 49, 69, 43, 51, 55] := by
  have hc : (Resp.f64 bits).calls = [.direct (strBytes "9.91E+37")] := by
    simp only [Resp.calls]; exact floatCalls_nan _ _ h
  refine ⟨hc, ?_⟩
  simp only [Resp.encode, hc, List.map_cons, List.map_nil, WCall.bytes, strBytes_nan]
  rfl

theorem nan_sentinel_f32 (bits : Nat) (h : fmt32.isNan bits = true) :
    (Resp.f32 bits).calls = [.direct (strBytes "9.91E+37")] ∧
    (Resp.f32 bits).encode = [57, 46, 57, 49, 69, 43, 51, 55] := by
  have hc : (Resp.f32 bits).calls = [.direct (strBytes "9.91E+37")] := by
    simp only [Resp.calls]; exact floatCalls_nan _ _ h
  refine ⟨hc, ?_⟩
  simp only [Resp.encode, hc, List.map_cons, List.map_nil, WCall.bytes, strBytes_nan]
  rfl

/-- **T4.2** the `f64` infinities are written as `9.9E+37` and `-9.9E+37`. -/
theorem inf_sentinel (bits : Nat) (h : fmt64.isInf bits = true) :
    (Resp.f64 bits).encode =
      if fmt64.negOf bits then [45, 57, 46, 57, 69, 43, 51, 55] else [57, 46, 57, 69, 43, 51, 55] := by
  have hc : (Resp.f64 bits).calls =
      [.direct (if fmt64.negOf bits then strBytes "-9.9E+37" else strBytes "9.9E+37")] := by
    simp only [Resp.calls]; exact floatCalls_inf _ _ h
  simp only [Resp.encode, hc, List.map_cons, List.map_nil, WCall.bytes]
  split <;> simp [strBytes_inf, strBytes_ninf]

theorem inf_sentinel_f32 (bits : Nat) (h : fmt32.isInf bits = true) :
    (Resp.f32 bits).encode =
      if fmt32.negOf bits then [45, 57, 46, 57, 69, 43, 51, 55] else [57, 46, 57, 69, 43, 51, 55] := by
  have hc : (Resp.f32 bits).calls =
      [.direct (if fmt32.negOf bits then strBytes "-9.9E+37" else strBytes "9.9E+37")] := by
    simp only [Resp.calls]; exact floatCalls_inf _ _ h
  simp only [Resp.encode, hc, List.map_cons, List.map_nil, WCall.bytes]
  split <;> simp [strBytes_inf, strBytes_ninf]

/-- Non-vacuity: the canonical NaN and the two infinities of `f64`. -/
example : fmt64.isNan fmt64.nanBits = true ∧ fmt64.isInf fmt64.infBits = true ∧
    fmt64.isInf (fmt64.infBits + fmt64.signBit) = true ∧
    fmt64.negOf (fmt64.infBits + fmt64.signBit) = true := by decide

/-- The sentinels are not round-trip values: the text of NaN reads back as the
finite number 9.91·10^37. -/
example : ∃ b, decode .f64 (Resp.f64 fmt64.nanBits).encode = some (.f64 b) ∧
    fmt64.isNan b = false := by
  rw [(nan_sentinel fmt64.nanBits (by decide)).2]
  exact ⟨_, rfl, by decide⟩

/-! ## T4.3 — the bytes do not depend on the writer -/

/-- "The writer has room for `n` more bytes": it is unbounded, or it is a
`heapless::Vec<u8, c>` with `len + n ≤ c`. -/
theorem fits_iff (w : Writer) (n : Nat) :
    w.fits n = true ↔ (w.cap = none ∨ ∃ c, w.cap = some c ∧ w.buf.length + n ≤ c) := by
  unfold Writer.fits
  cases h : w.cap with
  | none => simp
  | some c => simp

/-- **T4.3** For every writer that has room for the bytes of the response —
unbounded (`std::vec::Vec`, pass-through) or bounded (`heapless::Vec`) — and every
value without over-long block, `write_response` succeeds, and afterwards the
buffer is the old buffer followed by exactly `r.encode`; the events the writer saw
are write events (no flush) whose concatenation is `r.encode`.  The bytes are thus
the same for every writer implementation. -/
theorem writer_independent (r : Resp) (w : Writer) (hnf : ∀ c ∈ r.calls, c.isFail = false)
    (hroom : w.cap = none ∨ ∃ c, w.cap = some c ∧ w.buf.length + r.encode.length ≤ c) :
    ∃ w', w.writeResp r = (w', .ok ()) ∧ w'.buf = w.buf ++ r.encode ∧ w'.cap = w.cap ∧
      ∃ ws : List Bytes, w'.evs = w.evs ++ ws.map WEv.w ∧ ws.flatten = r.encode := by
  have hfits : w.fits (callsBytes r.calls).length = true := (fits_iff w _).mpr hroom
  obtain ⟨w', hw'⟩ := Writer.calls_fits r.calls w hnf hfits
  obtain ⟨hc, hb, hev⟩ := Writer.calls_ok r.calls w w' hw'
  exact ⟨w', hw', hb, hc, hev⟩

/-- `writer_independent` for well-formed values (they contain no over-long block). -/
theorem writer_independent_wf (r : Resp) (w : Writer) (hw : r.WF)
    (hroom : w.cap = none ∨ ∃ c, w.cap = some c ∧ w.buf.length + r.encode.length ≤ c) :
    ∃ w', w.writeResp r = (w', .ok ()) ∧ w'.buf = w.buf ++ r.encode :=
  let ⟨w', h1, h2, _⟩ := writer_independent r w (wf_no_fail r hw) hroom
  ⟨w', h1, h2⟩

/-- Conversely, whenever `write_response` succeeds — on ANY writer — the writer has
received exactly `r.encode`: a success is never a partial response. -/
theorem written_is_encode (r : Resp) (w w' : Writer) (h : w.writeResp r = (w', .ok ())) :
    w'.buf = w.buf ++ r.encode ∧ w'.cap = w.cap ∧
      ∃ ws : List Bytes, w'.evs = w.evs ++ ws.map WEv.w ∧ ws.flatten = r.encode := by
  obtain ⟨hc, hb, hev⟩ := Writer.calls_ok r.calls w w' h
  exact ⟨hb, hc, hev⟩

/-- Two writers that both accept the response hold the same new bytes. -/
theorem same_bytes (r : Resp) (w1 w1' w2 w2' : Writer) (h1 : w1.writeResp r = (w1', .ok ()))
    (h2 : w2.writeResp r = (w2', .ok ())) :
    w1'.buf.drop w1.buf.length = w2'.buf.drop w2.buf.length := by
  rw [(written_is_encode r w1 w1' h1).1, (written_is_encode r w2 w2' h2).1]
  simp

/-- Non-vacuity: a `heapless::Vec<u8, 16>` and an unbounded writer, same bytes. -/
example :
    ((Writer.mk (some 16) [] []).writeResp (.seq [.int (-5), .str [97, 34, 98], .bool true])).1.buf =
      [45, 53, 44, 34, 97, 34, 34, 98, 34, 44, 49] ∧
    ((Writer.mk none [] []).writeResp (.seq [.int (-5), .str [97, 34, 98], .bool true])).1.buf =
      [45, 53, 44, 34, 97, 34, 34, 98, 34, 44, 49] := ⟨by rfl, by rfl⟩

/-! ## T4.4 — a successful query writes one response, a newline, and flushes -/

/-- **T4.4** If `execute` succeeds on a query, then the query slot of the node holds
a command `id` whose handler ran on the converted arguments and returned a value
`resp` (`Returned`), and — for every writer — the writer has received exactly
`resp.encode ++ [10]` and then exactly one flush, and nothing else: the new events
are write events whose concatenation is `resp.encode ++ [10]`, followed by `.f`. -/
theorem execute_query_ok {σ : Type} (I : Iface σ) (call : CommandCall) (w w' : Writer) (s s' : σ)
    (h : execute I call w s = (s', w', .ok)) (hq : call.query = true) :
    ∃ id resp, call.node.query = some id ∧ Returned I id call.args s s' resp ∧
      w'.cap = w.cap ∧ w'.buf = w.buf ++ resp.encode ++ [10] ∧
      ∃ ws : List Bytes, w'.evs = w.evs ++ ws.map WEv.w ++ [WEv.f] ∧
        ws.flatten = resp.encode ++ [10] := by
  obtain ⟨id, resp, w1, hslot, hret, hw, hw', _⟩ := execute_query_ok_aux h hq
  obtain ⟨hb, hc, ws, hev, hfl⟩ := written_is_encode resp w w1 hw
  subst hw'
  refine ⟨id, resp, hslot, hret, hc, ?_, ws ++ [[10]], ?_, ?_⟩
  · simp [Writer.flush, Writer.push, hb]
  · simp [Writer.flush, Writer.push, hev]
  · simp [hfl]

/-- **T4.4, existence.**  If the handler of the query returns `resp`, `resp` has no
over-long block and the writer has room for `resp.encode` and the newline, then
`execute` succeeds (and `execute_query_ok` describes the writer). -/
theorem execute_query_total {σ : Type} (I : Iface σ) (call : CommandCall) (w : Writer) (s s' : σ)
    (id : Nat) (resp : Resp) (hq : call.query = true) (hslot : call.node.query = some id)
    (hret : Returned I id call.args s s' resp) (hnf : ∀ c ∈ resp.calls, c.isFail = false)
    (hroom : w.cap = none ∨ ∃ c, w.cap = some c ∧ w.buf.length + (resp.encode.length + 1) ≤ c) :
    ∃ w', execute I call w s = (s', w', .ok) := by
  have hfits : w.fits (resp.encode.length + 1) = true := (fits_iff w _).mpr hroom
  have hfits0 : w.fits (callsBytes resp.calls).length = true :=
    Writer.fits_mono hfits (Nat.le_add_right _ _)
  obtain ⟨w1, hw1⟩ := Writer.calls_fits resp.calls w hnf hfits0
  have hwrote := Writer.calls_ok resp.calls w w1 hw1
  have h1 : w1.fits 1 = true := Writer.fits_wrote hwrote hfits
  have hs : callSlot call = some id := by simp [callSlot, hq, hslot]
  exact ⟨_, execute_cmd_ok_query I call w s id hs hq
    (executeCommand_of_returned_ok hret hw1) h1⟩

/-! ## T4.5 — no output otherwise -/

/-- **T4.5** If `execute` does not get as far as a handler that returns a value —
the header has no handler of the requested kind, the handler table has no such
command, the number of arguments is wrong, an argument cannot be converted, or the
handler returns an error — then the writer is untouched (no byte, no flush) and
the result is not `ok`. -/
theorem no_output {σ : Type} (I : Iface σ) (call : CommandCall) (w : Writer) (s : σ)
    (h : ∀ id, callSlot call = some id → ∀ s' resp, ¬ Returned I id call.args s s' resp) :
    (execute I call w s).2.1 = w ∧ ∀ s' w', execute I call w s ≠ (s', w', .ok) := by
  cases hs : callSlot call with
  | none => rw [execute_undefined I call w s hs]; exact ⟨rfl, fun _ _ h => by cases h⟩
  | some id =>
    obtain ⟨hw, hnok⟩ := executeCommand_not_returned (h id hs) w
    cases hec : executeCommand I id call.args w s with
    | mk s1 p =>
      cases p with
      | mk w1 r1 =>
        rw [hec] at hw
        cases r1 with
        | ok => exact absurd hec (hnok s1 w1)
        | err e =>
          rw [execute_cmd_err I call w s id hs hec]
          exact ⟨hw, fun _ _ h => by cases h⟩
        | crash c =>
          rw [execute_cmd_crash I call w s id hs hec]
          exact ⟨hw, fun _ _ h => by cases h⟩

/-- Undefined header (no handler of the requested kind on the node). -/
theorem no_output_undefined_header {σ : Type} (I : Iface σ) (call : CommandCall) (w : Writer)
    (s : σ) (h : (if call.query then call.node.query else call.node.command) = none) :
    execute I call w s = (s, w, .err (.std .UndefinedHeader)) :=
  execute_undefined I call w s h

/-- Wrong number of arguments. -/
theorem no_output_arity {σ : Type} (I : Iface σ) (call : CommandCall) (w : Writer) (s : σ)
    (id : Nat) (c : Cmd σ) (hs : callSlot call = some id) (hc : I.cmds[id]? = some c)
    (hlen : call.args.length ≠ c.argTys.length) :
    execute I call w s = (s, w, .err (.std .UnexpectedNumberOfParameters)) := by
  refine execute_cmd_err I call w s id hs ?_
  simp [executeCommand, hc, hlen]

/-- An argument that cannot be converted to the parameter type. -/
theorem no_output_conversion {σ : Type} (I : Iface σ) (call : CommandCall) (w : Writer) (s : σ)
    (id : Nat) (c : Cmd σ) (e : Err) (hs : callSlot call = some id) (hc : I.cmds[id]? = some c)
    (hlen : call.args.length = c.argTys.length)
    (hconv : convertArgs c.argTys call.args = .error (.inl e)) :
    execute I call w s = (s, w, .err e) := by
  refine execute_cmd_err I call w s id hs ?_
  simp [executeCommand, hc, hlen, hconv]

/-- A handler that returns an error (only the user state may change). -/
theorem no_output_handler_error {σ : Type} (I : Iface σ) (call : CommandCall) (w : Writer) (s s' : σ)
    (id : Nat) (c : Cmd σ) (tvs : List TVal) (e : Err) (hs : callSlot call = some id)
    (hc : I.cmds[id]? = some c) (hlen : call.args.length = c.argTys.length)
    (hconv : convertArgs c.argTys call.args = .ok tvs) (hh : c.handler s tvs = (s', .error e)) :
    execute I call w s = (s', w, .err e) := by
  refine execute_cmd_err I call w s id hs ?_
  simp [executeCommand, hc, hlen, hconv, hh]

/-- **T4.5** A command (not a query) whose handler returns `()` leaves the writer
untouched: `().write_response` makes no call, and `execute` adds neither newline
nor flush. -/
theorem command_unit_no_output {σ : Type} (I : Iface σ) (call : CommandCall) (w : Writer) (s s' : σ)
    (id : Nat) (hq : call.query = false) (hslot : call.node.command = some id)
    (hret : Returned I id call.args s s' .unit) : execute I call w s = (s', w, .ok) := by
  have hs : callSlot call = some id := by simp [callSlot, hq, hslot]
  refine execute_cmd_ok_command I call w s id hs hq (executeCommand_of_returned_ok hret ?_)
  simp [Writer.writeResp, Resp.calls, Writer.calls]

theorem unit_calls : Resp.unit.calls = [] := by simp [Resp.calls]

/-! ### Non-vacuity of T4.4 / T4.5 -/

/-- An interface with one query (id 0, no parameters, returns `(-5, "a\"b", true)` and
counts its calls) and one command (id 1, one `bool` parameter, returns `()`). -/
def demoIface : Iface Nat where
  root := .mk 0 [] (some 1) (some 0)
  cmds := [⟨[], fun n _ => (n + 1, .ok (.seq [.int (-5), .str [97, 34, 98], .bool true]))⟩,
           ⟨[.bool], fun n _ => (n + 1, .ok .unit)⟩]
  onError := fun n _ => n

def demoQuery : CommandCall :=
  { node := demoIface.root, header := none, query := true, args := [], terminated := true }

def demoCommand (args : List Value) : CommandCall :=
  { node := demoIface.root, header := none, query := false, args := args, terminated := true }

/-- The query succeeds on a `heapless::Vec<u8, 12>`; the response, newline, flush. -/
example : ∃ w', execute demoIface demoQuery (Writer.mk (some 12) [] []) 0 = (1, w', .ok) ∧
    w'.buf = [45, 53, 44, 34, 97, 34, 34, 98, 34, 44, 49, 10] ∧ w'.evs.getLast? = some .f :=
  ⟨_, by rfl, by rfl, by rfl⟩

/-- The command with a proper argument runs and writes nothing. -/
example : execute demoIface (demoCommand [.dec [49]]) (Writer.mk (some 12) [] []) 0 =
    (1, Writer.mk (some 12) [] [], .ok) := by rfl

/-- The hypothesis of `no_output` holds for the command without its argument … -/
example : (execute demoIface (demoCommand []) (Writer.mk (some 12) [7] []) 0).2.1 =
    Writer.mk (some 12) [7] [] :=
  (no_output demoIface (demoCommand []) _ 0 (by
    intro id hid s' resp ⟨c, tvs, hc, hlen, _, _⟩
    have : id = 1 := by simpa [callSlot, demoCommand, demoIface, Node.command] using hid.symm
    subst this
    simp [demoIface] at hc
    subst hc
    simp [demoCommand] at hlen)).1

/-! ## Execution order -/

/-- Two queries executed one after the other (the second on the writer and user
state the first one left): the writer holds the first response and its newline,
then the second response and its newline. -/
theorem two_queries_in_order {σ : Type} (I : Iface σ) (c1 c2 : CommandCall) (w w1 w2 : Writer)
    (s s1 s2 : σ) (h1 : execute I c1 w s = (s1, w1, .ok)) (h2 : execute I c2 w1 s1 = (s2, w2, .ok))
    (q1 : c1.query = true) (q2 : c2.query = true) :
    ∃ id1 id2 r1 r2, c1.node.query = some id1 ∧ c2.node.query = some id2 ∧
      Returned I id1 c1.args s s1 r1 ∧ Returned I id2 c2.args s1 s2 r2 ∧
      w2.buf = w.buf ++ (r1.encode ++ [10]) ++ (r2.encode ++ [10]) := by
  obtain ⟨id1, r1, hs1, hr1, _, hb1, _⟩ := execute_query_ok I c1 w w1 s s1 h1 q1
  obtain ⟨id2, r2, hs2, hr2, _, hb2, _⟩ := execute_query_ok I c2 w1 w2 s1 s2 h2 q2
  exact ⟨id1, id2, r1, r2, hs1, hs2, hr1, hr2, by rw [hb2, hb1]; simp⟩

/-- Whatever its outcome, `execute` only appends to the writer: what earlier units
wrote is never changed or removed. -/
theorem execute_appends {σ : Type} (I : Iface σ) (call : CommandCall) (w : Writer) (s : σ) :
    (execute I call w s).2.1.cap = w.cap ∧ (∃ out, (execute I call w s).2.1.buf = w.buf ++ out) ∧
      ∃ evs, (execute I call w s).2.1.evs = w.evs ++ evs :=
  extends_execute I call w s

/-- … and so does a whole `run_from` / `run`: the final buffer is the initial one
followed by the output of the units, which `runLoop` executes one after the other,
each on the writer the previous one left. -/
theorem runFrom_appends {σ : Type} (I : Iface σ) (header : Node) (input : Bytes) (w : Writer) (s : σ) :
    (runFrom I header input w s).w.cap = w.cap ∧
      (∃ out, (runFrom I header input w s).w.buf = w.buf ++ out) ∧
      ∃ evs, (runFrom I header input w s).w.evs = w.evs ++ evs :=
  extends_runLoop I _ header input w s

theorem run_appends {σ : Type} (I : Iface σ) (input : Bytes) (w : Writer) (s : σ) :
    (run I input w s).w.cap = w.cap ∧ (∃ out, (run I input w s).w.buf = w.buf ++ out) ∧
      ∃ evs, (run I input w s).w.evs = w.evs ++ evs :=
  runFrom_appends I I.root input w s

end C04
end Scpi
