/-
C01 corners — a surplus level separator is never ignored.

A program header in which a `:` is not followed by a mnemonic — `A:B:⏎`, `A:;`, `A:?`,
`A::B`, `A: ⏎`, `:⏎`, or the input simply ending behind the colon — is never accepted
as the header without that colon.  `parse` answers the fatal error `UndefinedHeader`:
the compound form fails behind the colon (`program_mnemonic` does not match), the
common form, tried last, fails on the first byte (which is not `*`), and that failure
is `UndefinedHeader`.

The header text in front of the surplus colon is as general as the parser allows:
optional white space, an optional leading colon, any number `≥ 1` of mnemonics, each
level separator with its own optional white space on BOTH sides (`Sep`,
`header_separator` of parser.rs accepts `ws* ':' ws*`).  All statements hold for every
tree, every current path and every continuation; no lookup in the tree has to
succeed (when one fails the verdict is the same `UndefinedHeader`).

* `header_trailing_colon`      `… m sep c rest`, `c` neither white space nor a letter;
* `header_trailing_colon_end`  `… m sep` and the input ends;
* `header_lone_colon`, `header_lone_colon_end`   the same with no mnemonic at all
                               (a leading colon that nothing follows);
* `header_trailing_colon_plain`, `header_trailing_colon_plain_end`   restated for the
  plain spelling `HdrPath.render` of `Spec/Ast.lean` (single colons, no white space)
  in the form "never `.ok`".

FINDINGS
* The statement asked for — "`pre ++ 58 :: c :: rest` is never accepted when `c` cannot
  start a mnemonic" — is FALSE for `c` white space: the separator swallows white space
  on both sides, so `S: A⏎` and `S : A⏎` are the header `S:A`
  (`colon_then_space_is_accepted`).  The true condition is on the first byte behind
  the colon AND its white space; that is what the theorems state.
* When the input ENDS behind the colon the verdict is not `incomplete` but the same
  fatal `UndefinedHeader` (`header_trailing_colon_end`; `S:` alone,
  `trailing_colon_end_is_fatal`): `command_program_header` discards the `Incomplete`
  of the compound form (`or_else`) and the common form then fails on the first byte.
  (`S` and `S:A` without terminator are `incomplete`, `no_colon_end_is_incomplete`.)
-/
import Scpi.Proofs.CornerHdr
import Scpi.Proofs.RunStepsDemo

namespace Scpi
namespace C01

theorem mnemonic_nil_not_ok (i v : Bytes) : mnemonic [] ≠ .ok i v := by
  simp [mnemonic, satisfy, PResult.bind]

theorem mnemonic_cons_not_ok {c : Nat} (rest : Bytes) (hc : isAlpha c = false) (i v : Bytes) :
    mnemonic (c :: rest) ≠ .ok i v := by
  rw [mnemonic_soft rest hc]; simp

/-- The general form, for any `X` behind the last separator on which `mnemonic` does
not succeed and which does not begin with white space. -/
theorem header_trailing_sep (root header : Node) (w0 : Bytes) (abs : Option Bytes) (m : Bytes)
    (more : List (Sep × Bytes)) (s : Sep) (X : Bytes)
    (hw0 : allWs w0 = true) (habs : ∀ a ∈ abs, allWs a = true) (hm : isMnemonicText m = true)
    (hmore : wfSeps more = true) (hs : s.wf = true) (hXw : Ends isWs X)
    (hX : ∀ i v, mnemonic X ≠ .ok i v) :
    parse root header (w0 ++ (renderAbs abs ++ (m ++ (renderSeps more ++ (s.render ++ X))))) =
      .fatal (.std .UndefinedHeader) := by
  have hc := compoundHeader_trailing_sep root header abs m more s X habs hm hmore hs hXw hX
  obtain ⟨b0, t0, e0, hb0⟩ := mnemonicText_head hm
  cases abs with
  | some a =>
    simp only [renderAbs, List.cons_append] at hc ⊢
    exact parse_of_header_undefined root header w0 58 _ hw0 (by decide) (by decide)
      (commandHeader_of_compound_fails root header 58 _ (by decide) hc)
  | none =>
    simp only [renderAbs, List.nil_append] at hc ⊢
    rw [e0, List.cons_append] at hc ⊢
    exact parse_of_header_undefined root header w0 b0 _ hw0 (alpha_not_ws hb0) (alpha_ne hb0).2.2
      (commandHeader_of_compound_fails root header b0 _ (alpha_ne hb0).2.1 hc)

/-- **A surplus level separator is never ignored.**  Header text `[ws] [: ws] m₁ sep m₂
… sep mₖ` (`k ≥ 1`; every `sep` is a colon with optional white space on both sides),
then one more separator `s`, then a byte `c` that is neither white space nor a letter
— newline, `;`, `?`, `:`, `*`, a digit, a quote, … — and anything behind it: `parse`
answers the fatal error `UndefinedHeader`, for every tree and every current path.  In
particular the unit is not accepted as the header `m₁:…:mₖ`. -/
theorem header_trailing_colon (root header : Node) (w0 : Bytes) (abs : Option Bytes) (m : Bytes)
    (more : List (Sep × Bytes)) (s : Sep) (c : Nat) (rest : Bytes)
    (hw0 : allWs w0 = true) (habs : ∀ a ∈ abs, allWs a = true) (hm : isMnemonicText m = true)
    (hmore : wfSeps more = true) (hs : s.wf = true) (hcw : isWs c = false)
    (hca : isAlpha c = false) :
    parse root header
        (w0 ++ (renderAbs abs ++ (m ++ (renderSeps more ++ (s.render ++ c :: rest))))) =
      .fatal (.std .UndefinedHeader) :=
  header_trailing_sep root header w0 abs m more s (c :: rest) hw0 habs hm hmore hs
    (ends_cons hcw) (mnemonic_cons_not_ok rest hca)

/-- **… nor when the input ends behind it**: the same header text, one more separator,
end of input.  The verdict is the same fatal `UndefinedHeader` — NOT `incomplete`
(see the findings at the top): the parser does not wait for the mnemonic. -/
theorem header_trailing_colon_end (root header : Node) (w0 : Bytes) (abs : Option Bytes)
    (m : Bytes) (more : List (Sep × Bytes)) (s : Sep)
    (hw0 : allWs w0 = true) (habs : ∀ a ∈ abs, allWs a = true) (hm : isMnemonicText m = true)
    (hmore : wfSeps more = true) (hs : s.wf = true) :
    parse root header (w0 ++ (renderAbs abs ++ (m ++ (renderSeps more ++ s.render)))) =
      .fatal (.std .UndefinedHeader) := by
  have := header_trailing_sep root header w0 abs m more s [] hw0 habs hm hmore hs
    (ends_nil _) mnemonic_nil_not_ok
  simpa only [List.append_nil] using this

/-- The general form for a header with NO mnemonic: `[ws] : [ws] X`. -/
theorem header_lone_sep (root header : Node) (w0 a X : Bytes) (hw0 : allWs w0 = true)
    (ha : allWs a = true) (hXw : Ends isWs X) (hX : ∀ i v, mnemonic X ≠ .ok i v) :
    parse root header (w0 ++ 58 :: (a ++ X)) = .fatal (.std .UndefinedHeader) :=
  parse_of_header_undefined root header w0 58 _ hw0 (by decide) (by decide)
    (commandHeader_of_compound_fails root header 58 _ (by decide)
      (compoundHeader_lone_colon root header a X ha hXw hX))

/-- **A leading colon that no mnemonic follows** (`:⏎`, `::X`, `:;`, `: ?`) is
`UndefinedHeader` as well … -/
theorem header_lone_colon (root header : Node) (w0 a : Bytes) (c : Nat) (rest : Bytes)
    (hw0 : allWs w0 = true) (ha : allWs a = true) (hcw : isWs c = false)
    (hca : isAlpha c = false) :
    parse root header (w0 ++ 58 :: (a ++ c :: rest)) = .fatal (.std .UndefinedHeader) :=
  header_lone_sep root header w0 a (c :: rest) hw0 ha (ends_cons hcw)
    (mnemonic_cons_not_ok rest hca)

/-- … also when the input ends behind it. -/
theorem header_lone_colon_end (root header : Node) (w0 a : Bytes) (hw0 : allWs w0 = true)
    (ha : allWs a = true) :
    parse root header (w0 ++ 58 :: a) = .fatal (.std .UndefinedHeader) := by
  have := header_lone_sep root header w0 a [] hw0 ha (ends_nil _) mnemonic_nil_not_ok
  simpa only [List.append_nil] using this

/-! ### The plain spelling of `Spec/Ast.lean` -/

theorem render_compound_plain (a : Bool) (m : Bytes) (ms : List Bytes) :
    (HdrPath.compound a (m :: ms)).render =
      renderAbs (if a then some [] else none) ++ (m ++ renderSeps (plainSeps ms)) := by
  rw [renderSeps_plain]
  cases a <;> simp only [HdrPath.render, renderPath_cons, renderAbs, if_true, Bool.false_eq_true,
    if_false]

/-- **In the form asked for**: `pre` the rendering `[:]m₁:m₂:…:mₖ` of a well-formed
compound header path (`k ≥ 1`, single colons), then a colon, optional white space `ws`,
and a byte `c` that is neither white space nor a letter: never `.ok` — precisely,
`UndefinedHeader`. -/
theorem header_trailing_colon_plain (root header : Node) (a : Bool) (ms : List Bytes)
    (ws : Bytes) (c : Nat) (rest : Bytes) (hp : (HdrPath.compound a ms).wf = true)
    (hws : allWs ws = true) (hcw : isWs c = false) (hca : isAlpha c = false) :
    parse root header ((HdrPath.compound a ms).render ++ 58 :: (ws ++ c :: rest)) =
        .fatal (.std .UndefinedHeader) ∧
    ∀ r v, parse root header ((HdrPath.compound a ms).render ++ 58 :: (ws ++ c :: rest)) ≠
        .ok r v := by
  cases ms with
  | nil => simp [HdrPath.wf] at hp
  | cons m ms =>
    simp only [HdrPath.wf, List.isEmpty_cons, Bool.not_false, Bool.true_and, List.all_cons,
      Bool.and_eq_true] at hp
    have h := header_trailing_colon root header [] (if a then some [] else none) m (plainSeps ms)
      ⟨[], ws⟩ c rest rfl (by cases a <;> simp [allWs]) hp.1 (wfSeps_plain hp.2)
      (by simpa [Sep.wf, allWs] using hws) hcw hca
    have e : (HdrPath.compound a (m :: ms)).render ++ 58 :: (ws ++ c :: rest) =
        [] ++ (renderAbs (if a then some [] else none) ++ (m ++ (renderSeps (plainSeps ms) ++
          ((⟨[], ws⟩ : Sep).render ++ c :: rest)))) := by
      simp only [render_compound_plain, Sep.render, List.nil_append, List.append_assoc,
        List.cons_append]
    rw [e, h]
    exact ⟨rfl, fun _ _ hh => by cases hh⟩

/-- … and when the input ends behind the colon (and its white space): never `.ok`,
and not `incomplete` either. -/
theorem header_trailing_colon_plain_end (root header : Node) (a : Bool) (ms : List Bytes)
    (ws : Bytes) (hp : (HdrPath.compound a ms).wf = true) (hws : allWs ws = true) :
    parse root header ((HdrPath.compound a ms).render ++ 58 :: ws) =
        .fatal (.std .UndefinedHeader) ∧
    ∀ r v, parse root header ((HdrPath.compound a ms).render ++ 58 :: ws) ≠ .ok r v := by
  cases ms with
  | nil => simp [HdrPath.wf] at hp
  | cons m ms =>
    simp only [HdrPath.wf, List.isEmpty_cons, Bool.not_false, Bool.true_and, List.all_cons,
      Bool.and_eq_true] at hp
    have h := header_trailing_colon_end root header [] (if a then some [] else none) m
      (plainSeps ms) ⟨[], ws⟩ rfl (by cases a <;> simp [allWs]) hp.1 (wfSeps_plain hp.2)
      (by simpa [Sep.wf, allWs] using hws)
    have e : (HdrPath.compound a (m :: ms)).render ++ 58 :: ws =
        [] ++ (renderAbs (if a then some [] else none) ++ (m ++ (renderSeps (plainSeps ms) ++
          (⟨[], ws⟩ : Sep).render))) := by
      simp only [render_compound_plain, Sep.render, List.nil_append, List.append_assoc]
    rw [e, h]
    exact ⟨rfl, fun _ _ hh => by cases hh⟩

/-! ### Non-vacuity and witnesses (demo tree: `X`, `S:A`, `S:B`, `*C`, `T`, `F`) -/

/-- `S:A:⏎` — the defined header `S:A` with a surplus colon. -/
example : parse Demo.tree Demo.tree [83, 58, 65, 58, 10] = .fatal (.std .UndefinedHeader) :=
  (header_trailing_colon_plain Demo.tree Demo.tree false [[83], [65]] [] 10 [] (by decide)
    (by decide) (by decide) (by decide)).1
/-- ` : S :A : ;X⏎` — white space everywhere the syntax allows it. -/
example : parse Demo.tree Demo.nS [32, 58, 32, 83, 32, 58, 65, 32, 58, 32, 59, 88, 10] =
    .fatal (.std .UndefinedHeader) :=
  header_trailing_colon Demo.tree Demo.nS [32] (some [32]) [83] [(⟨[32], []⟩, [65])] ⟨[32], [32]⟩
    59 [88, 10] (by decide) (by decide) (by decide) (by decide) (by decide) (by decide)
    (by decide)
/-- The verdicts computed directly: `S:A:⏎`, `X:?⏎`, `S::A⏎`, `:⏎`. -/
example : parse Demo.tree Demo.tree [83, 58, 65, 58, 10] = .fatal (.std .UndefinedHeader) ∧
    parse Demo.tree Demo.tree [88, 58, 63, 10] = .fatal (.std .UndefinedHeader) ∧
    parse Demo.tree Demo.tree [83, 58, 58, 65, 10] = .fatal (.std .UndefinedHeader) ∧
    parse Demo.tree Demo.tree [58, 10] = .fatal (.std .UndefinedHeader) := ⟨rfl, rfl, rfl, rfl⟩

/-- FINDING: white space behind the colon does not make it surplus: `S: A⏎` and
`S : A⏎` are accepted, as the header `S:A` (node 3). -/
theorem colon_then_space_is_accepted :
    (parse Demo.tree Demo.tree [83, 58, 32, 65, 10]).isOk = true ∧
    (parse Demo.tree Demo.tree [83, 32, 58, 32, 65, 10]).isOk = true ∧
    (match parse Demo.tree Demo.tree [83, 58, 32, 65, 10] with
     | .ok r (some call) => r == [] && call.node.tag == 3
     | _ => false) = true := by decide

/-- FINDING: `S:` and the input ends: fatal `UndefinedHeader`, not `incomplete` … -/
theorem trailing_colon_end_is_fatal :
    parse Demo.tree Demo.tree [83, 58] = .fatal (.std .UndefinedHeader) :=
  (header_trailing_colon_plain_end Demo.tree Demo.tree false [[83]] [] (by decide) (by decide)).1

/-- … whereas `S` and `S:A` without a terminator are `incomplete`. -/
theorem no_colon_end_is_incomplete :
    parse Demo.tree Demo.tree [83] = .incomplete ∧
    parse Demo.tree Demo.tree [83, 58, 65] = .incomplete := ⟨rfl, rfl⟩

end C01
end Scpi
