/-
C04 — the float formatter contract discharged.

`Scpi/Props/C04.lean` proves the response round trip `decode_encode` under the hypothesis
`FloatsOk r` (`FloatTextOk` for every finite float in the value), which the driver validates
value by value at run time.  This file PROVES the contract for binary32 and binary64:

* `floatText_ok`: for every finite bit pattern of the format's width (both signs, ±0,
  sub-normals, powers of two with their asymmetric rounding interval, the largest finite
  value), the text printed by `Display` (`floatText`: Rust's `flt2dec` Dragon strategy
  `format_shortest` + `digits_to_dec_str`) is a plain decimal and `str::parse`
  (`parseFloat`: nearest, ties to even) reads it back to exactly the same bits.
* `decode_encode_floats`: hence the round trip `decode ty r.encode = some r` holds without
  `FloatsOk`, for values whose float leaves are patterns of the right width
  (`FloatsInRange`; the model's `Resp.f32 bits` carries an unconstrained `Nat`, and a
  pattern with bits beyond the width prints like its truncation —
  `floats_out_of_range_witness`).

The proof is the classical correctness argument of the free-format algorithm
(Steele–White / Burger–Dybvig): see `Scpi/Proofs/Dragon*.lean` —
`loop_spec` (digit loop invariant and termination within the fuel), `select_spec` (final
round-up choice, `roundUp_spec` with carry), `formatShortest_eq` (uniform scaling),
`estimate_first` (the integer `log10` estimate is never more than one too small; table
`estimateOk_1100` checked by kernel evaluation), `sub_no_tie` (sub-normals, for which `decode`
always reports an inclusive interval, never print a boundary), `decode_interval` (the
interval is bounded by the midpoints to the neighbouring floats), `roundRat_of_between`
(anything between the midpoints rounds back), `renderBody_parse`/`renderBody_plain` (text).
-/
import Scpi.Props.C04
import Scpi.Proofs.DragonSign

namespace Scpi
namespace C04
open Dragon

theorem smallFmt_of (f : FloatFmt) (hf : f = fmt32 ∨ f = fmt64) : SmallFmt f := by
  rcases hf with rfl | rfl
  · exact ⟨by decide, by decide, by decide⟩
  · exact ⟨by decide, by decide, by decide⟩

/-- **Shape and value of the printed digits** (any finite non-zero pattern of the width):
`formatShortest` returns a non-empty list of decimal digits, and the decimal they denote,
`digitsValue ds · 10^(k - length ds)`, is rounded by `roundRat` (nearest, ties to even) to
the magnitude `bits % signBit` of the pattern. -/
theorem formatShortest_roundtrips (f : FloatFmt) (hf : f = fmt32 ∨ f = fmt64) (bits : Nat)
    (hfin : f.expOf bits ≠ f.expMax) (hnz : ¬ (f.expOf bits = 0 ∧ f.fracOf bits = 0)) :
    (formatShortest f bits).1 ≠ [] ∧ (∀ d ∈ (formatShortest f bits).1, d < 10) ∧
    roundRat f
      (C03.digitsValue 10 (formatShortest f bits).1 *
        10 ^ ((formatShortest f bits).2 - ((formatShortest f bits).1.length : Nat)).toNat)
      (10 ^ ((((formatShortest f bits).1.length : Nat) : Int) - (formatShortest f bits).2).toNat) =
      bits % f.signBit := by
  have hs : 0 < f.signBit := by unfold FloatFmt.signBit; exact Dragon.two_pow_pos _
  have hlt := Nat.mod_lt bits hs
  have hb : bits % f.signBit < f.infBits :=
    lt_infBits f _ hlt (by rw [expOf_mod_sign]; exact hfin)
  have hb0 : 0 < bits % f.signBit := by
    rcases Nat.eq_zero_or_pos (bits % f.signBit) with h | h
    · exfalso
      apply hnz
      rw [← expOf_mod_sign, ← fracOf_mod_sign, h]
      simp [FloatFmt.expOf, FloatFmt.fracOf]
    · exact h
  have := roundtrip_pos f (smallFmt_of f hf) _ hb0 hb
  rw [formatShortest_mod_sign] at this
  exact this

/-- **The formatter contract holds for every finite float.**  For binary32 and binary64
and EVERY finite bit pattern of the format's width — either sign, ±0, sub-normal, normal,
powers of two, the largest finite value — the text `Display` prints is a plain decimal
(optional `-`, digits, optionally `.` and digits; no exponent) and `str::parse` reads it
back to exactly the same bit pattern. -/
theorem floatText_ok (f : FloatFmt) (hf : f = fmt32 ∨ f = fmt64) (bits : Nat)
    (hw : bits < 2 * f.signBit) (hfin : f.expOf bits ≠ f.expMax) : FloatTextOk f bits := by
  obtain ⟨hsplit, hlt⟩ := split_sign f bits hw
  unfold FloatTextOk
  rw [floatText_eq]
  by_cases hz : f.expOf bits = 0 ∧ f.fracOf bits = 0
  · rw [if_pos hz]
    have hb0 : bits % f.signBit = 0 :=
      eq_zero_of_fields f _ hlt (by rw [expOf_mod_sign]; exact hz.1)
        (by rw [fracOf_mod_sign]; exact hz.2)
    refine ⟨zero_plain _, ?_⟩
    rw [zero_parse f hf]
    rw [hb0] at hsplit
    rw [← hsplit]
  · rw [if_neg hz]
    obtain ⟨hne, hdig, hround⟩ := formatShortest_roundtrips f hf bits hfin hz
    refine ⟨renderBody_plain _ _ hne hdig _, ?_⟩
    rw [renderBody_parse f hf _ _ hne hdig, hround, ← hsplit]

/-- Shape alone. -/
theorem floatText_plain (f : FloatFmt) (hf : f = fmt32 ∨ f = fmt64) (bits : Nat)
    (hw : bits < 2 * f.signBit) (hfin : f.expOf bits ≠ f.expMax) :
    isPlainDecimal (floatText f bits) = true := (floatText_ok f hf bits hw hfin).1

/-- Round trip alone. -/
theorem floatText_parses_back (f : FloatFmt) (hf : f = fmt32 ∨ f = fmt64) (bits : Nat)
    (hw : bits < 2 * f.signBit) (hfin : f.expOf bits ≠ f.expMax) :
    parseFloat f (floatText f bits) = some bits := (floatText_ok f hf bits hw hfin).2

/-- The hypotheses of `floatText_ok` hold for `-0.15625` (binary32), the smallest binary64
sub-normal, `-0`, `1.0` (a power of two) and the largest finite binary64. -/
example : FloatTextOk fmt32 0xbe200000 ∧ FloatTextOk fmt64 1 ∧ FloatTextOk fmt64 (2 ^ 63) ∧
    FloatTextOk fmt64 0x3ff0000000000000 ∧ FloatTextOk fmt64 0x7fefffffffffffff :=
  ⟨floatText_ok _ (Or.inl rfl) _ (by decide) (by decide),
   floatText_ok _ (Or.inr rfl) _ (by decide) (by decide),
   floatText_ok _ (Or.inr rfl) _ (by decide) (by decide),
   floatText_ok _ (Or.inr rfl) _ (by decide) (by decide),
   floatText_ok _ (Or.inr rfl) _ (by decide) (by decide)⟩

/-! ### The response round trip without the run-time hypothesis -/

/-- Float leaves are bit patterns of the width of their type. -/
def LeafInRange : Resp → Prop
  | .f32 b => b < 2 ^ 32
  | .f64 b => b < 2 ^ 64
  | _ => True

/-- Every float in the value is a 32-bit (`f32`) / 64-bit (`f64`) pattern. -/
def FloatsInRange (r : Resp) : Prop := r.All LeafInRange

theorem finite_of_flags (f : FloatFmt) (b : Nat) (h1 : f.isNan b = false) (h2 : f.isInf b = false) :
    f.expOf b ≠ f.expMax := by
  intro h
  unfold FloatFmt.isNan at h1
  unfold FloatFmt.isInf at h2
  rw [h] at h1 h2
  simp at h1 h2
  exact h2 h1

/-- `FloatsOk` — the hypothesis of `decode_encode` — holds for every value whose floats are
patterns of the right width. -/
theorem floatsOk_of_inRange (r : Resp) (h : FloatsInRange r) : FloatsOk r := by
  refine all_mono (fun x hx => ?_) r h
  cases x <;> simp only [LeafFloatOk] <;> try trivial
  · intro h1 h2
    exact floatText_ok fmt32 (Or.inl rfl) _ (by rw [show 2 * fmt32.signBit = 2 ^ 32 from by decide]; exact hx)
      (finite_of_flags _ _ h1 h2)
  · intro h1 h2
    exact floatText_ok fmt64 (Or.inr rfl) _ (by rw [show 2 * fmt64.signBit = 2 ^ 64 from by decide]; exact hx)
      (finite_of_flags _ _ h1 h2)

/-- **T4.1 with floats, no run-time hypothesis.**  Decoding the response text yields
exactly the value the handler returned, for every well-formed value (finite floats, …) of
every well-formed shape, floats included — provided the float leaves are patterns of their
type's width (which every Rust `f32`/`f64` is; see `floats_out_of_range_witness`). -/
theorem decode_encode_floats (r : Resp) (ty : RespTy) (hw : r.WF) (hr : FloatsInRange r)
    (ht : HasTy r ty) (hty : ty.WF = true) : decode ty r.encode = some r :=
  decode_encode r ty hw ht hty (floatsOk_of_inRange r hr)

/-- The hypotheses of `decode_encode_floats` are satisfiable on a value with floats of both
widths — `1.5`, `-0.15625`, the smallest sub-normal `5e-324` and `-0` — and the theorem then
gives the round trip without evaluating the formatter. -/
example : decode (.seq [.f64, .f32, .f64, .f64])
    (Resp.seq [.f64 0x3ff8000000000000, .f32 0xbe200000, .f64 1, .f64 (2 ^ 63)]).encode =
    some (.seq [.f64 0x3ff8000000000000, .f32 0xbe200000, .f64 1, .f64 (2 ^ 63)]) :=
  decode_encode_floats _ _
    (by simp [Resp.WF, Resp.All, Resp.AllL, Resp.LeafWF]; decide)
    (by simp [FloatsInRange, Resp.All, Resp.AllL, LeafInRange])
    (.tuple (.cons (.f64 _) (.cons (.f32 _) (.cons (.f64 _) (.cons (.f64 _) .nil)))))
    (by decide)

/-- **Finding (model level).**  `Resp.f32 bits` carries an arbitrary natural number, and
`Resp.WF` only asks that it is not NaN/infinite.  A "pattern" with bits beyond the width is
printed like its truncation: `Resp.f32 (2^32)` is well formed, prints `0` and decodes to
`Resp.f32 0`.  So `FloatTextOk` fails for it and the round trip needs `FloatsInRange`
(no Rust `f32`/`f64` value is out of range; the condition only constrains the model). -/
theorem floats_out_of_range_witness :
    (Resp.f32 (2 ^ 32)).WF ∧ HasTy (.f32 (2 ^ 32)) .f32 ∧ RespTy.f32.WF = true ∧
    decode .f32 (Resp.f32 (2 ^ 32)).encode = some (.f32 0) ∧ ¬ FloatTextOk fmt32 (2 ^ 32) :=
  ⟨by simp [Resp.WF, Resp.All, Resp.LeafWF]; decide, .f32 _, rfl, rfl, by decide⟩

/-- … hence the round trip is FALSE without a width condition on float leaves. -/
theorem decode_encode_needs_range :
    ¬ ∀ (r : Resp) (ty : RespTy), r.WF → HasTy r ty → ty.WF = true → decode ty r.encode = some r := by
  intro h
  obtain ⟨h1, h2, h3, h4, -⟩ := floats_out_of_range_witness
  have := h _ _ h1 h2 h3
  rw [h4] at this
  have := Resp.f32.inj (Option.some.inj this)
  exact absurd this (by decide)

end C04
end Scpi
