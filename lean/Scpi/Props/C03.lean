/-
C03 (conversion part) — "integer literals in decimal or #H/#Q/#B notation converted
exactly to the declared integer type, decimal reals correctly rounded to f32/f64,
ON/OFF/1/0 booleans, and quoted strings and definite-length blocks byte for byte.  If a
literal does not fit the declared parameter — wrong kind of data (-104), not a
representable literal of that numeric type (-120), not a boolean (-224) — the handler
is not invoked and exactly one error is reported.  A wrapped, truncated, sign-flipped,
re-based or defaulted value is never delivered."

This file is about `convert : Ty → Value → Except Err TVal` (`TryInto<T> for &Value`,
value.rs), the function the generated dispatcher applies to every parameter.  That a
failed conversion means "handler not invoked, exactly one error" is C06
(`Scpi.C06.execute_err_cases` case (c), `Scpi.C06.convertArgs_first_error`,
`Scpi.C06.one_error_per_unit`); here it is shown WHICH values convert, to WHAT, and
which error is produced otherwise.

The specification (`Scpi/Spec/Numerals.lean`) says what a numeral is and what it
means (`IsNumeral`, `digitsValue`) without reference to the model's `fromStrRadix`.

* T3.2 integers: `fromStrRadix_iff`, `convert_int_spec`, `convert_int_error_numeric`,
  `convert_int_error_kind`, `convert_int_never_wrong`.
* T3.4 booleans: `convert_bool_table` (+ `strBytes_ON` … for the ten spellings).
* strings/blocks: `convert_str_bytes`, `convert_bytes_bytes`.
* T3.3 floats: `convert_f64_iff`, `convert_f32_iff` (conversion IS `parseFloat`), then the
  arithmetic heart, for every format with `mbits ≥ 1`, `ebits ≥ 2` and ALL `n/d` — normal,
  sub-normal, underflow to zero, overflow: `roundRat_finite_or_inf`, `roundRat_nearest`
  (nearest, ties to even; nothing is missing, so no `_partial`), `roundRat_nearest_finite`,
  `roundRat_inf_iff`, `roundRat_zero_iff`, `roundDec_shortcuts_sound`, `parseNumberBody_iff`
  (the number grammar reads what is written), `parseFloat_correct` (text → exact rational →
  nearest float, end to end), `parseFloat_nonnumber`.
  The value of a bit pattern is `fscaled f bits / funitDen f` (`Scpi/Spec/Numerals.lean`;
  `fscaled_spec` links it to significand and exponent); distances are cross-multiplied
  (`fdist`), so no rational numbers are needed.

NOT covered here (a fact about the SCPI recogniser `decimal` of Lex.lean, not about
conversion): that the text of every `.dec s` the parser produces is an `IsDecimalText`
after its sign, so that -120 can never arise for a float parameter from parsed input.
-/
import Scpi.Proofs.ConvInt
import Scpi.Proofs.ConvDec
import Scpi.Proofs.ConvDecText
import Scpi.Proofs.RespBytes

namespace Scpi
namespace C03

/-! ## The error numbers named in the property -/

theorem error_numbers :
    (Err.std .DataTypeError).number = -104 ∧ (Err.std .NumericDataError).number = -120 ∧
    (Err.std .IllegalParameterValue).number = -224 := ⟨rfl, rfl, rfl⟩

/-! ## T3.2 — integers -/

/-- **T3.2 `from_str_radix` is exact or nothing.**  For every signedness, width, radix
and text: the result is `some v` iff the text is a numeral of that radix (optional `+`,
`-` only for a signed type, at least one digit, all digits valid in the radix) whose
MATHEMATICAL value `v` lies in the range of the type.  Hence a value that is wrapped
(256 ↦ 0), truncated, sign-flipped (#H80 ↦ -128 for `i8`), read in another radix, or
defaulted is never returned: whatever is returned is the value of the numeral.
(No condition on the radix is needed; the library uses 2, 8, 10 and 16.) -/
theorem fromStrRadix_iff (signed : Bool) (bits radix : Nat) (s : Bytes) (v : Int) :
    fromStrRadix signed bits radix s = some v ↔
      IsNumeral signed radix s v ∧ intMin signed bits ≤ v ∧ v ≤ intMax signed bits :=
  fromStrRadix_iff' signed bits radix s v

/-- A numeral has one value only, so `fromStrRadix_iff` determines the result. -/
theorem numeral_value_unique {signed : Bool} {radix : Nat} {s : Bytes} {v v' : Int}
    (h : IsNumeral signed radix s v) (h' : IsNumeral signed radix s v') : v = v' :=
  isNumeral_unique h h'

/-- `NumKind v radix s`: the program data `v` is numeric, of the kind whose radix is
`radix`, with the text `s` (for `#H…`, `#B…`, `#Q…` the text after the two-byte prefix). -/
inductive NumKind : Value → Nat → Bytes → Prop where
  | dec (s : Bytes) : NumKind (.dec s) 10 s
  | hex (s : Bytes) : NumKind (.hex s) 16 s
  | bin (s : Bytes) : NumKind (.bin s) 2 s
  | oct (s : Bytes) : NumKind (.oct s) 8 s

/-- The three kinds of program data that are not numeric. -/
def NonNumeric (v : Value) : Prop := ∃ s, v = .str s ∨ v = .chars s ∨ v = .arb s

theorem numKind_or_nonNumeric (v : Value) : (∃ radix s, NumKind v radix s) ∨ NonNumeric v := by
  cases v with
  | str s => exact Or.inr ⟨s, Or.inl rfl⟩
  | chars s => exact Or.inr ⟨s, Or.inr (Or.inl rfl)⟩
  | arb s => exact Or.inr ⟨s, Or.inr (Or.inr rfl)⟩
  | dec s => exact Or.inl ⟨_, _, .dec s⟩
  | hex s => exact Or.inl ⟨_, _, .hex s⟩
  | bin s => exact Or.inl ⟨_, _, .bin s⟩
  | oct s => exact Or.inl ⟨_, _, .oct s⟩

/-- For an integer type `convert` is `convertInt` with that type's signedness and width. -/
theorem convert_int_eq {ty : Ty} {sg : Bool} {bits : Nat} (h : ty.intInfo = some (sg, bits))
    (v : Value) : convert ty v = convertInt ty sg bits v := by
  cases ty <;> simp [Ty.intInfo] at h <;> obtain ⟨rfl, rfl⟩ := h <;> rfl

/-- **T3.2 — conversion to each of the ten integer types is exact.**  For `ty` one of
`u8 i8 u16 i16 u32 i32 u64 i64 usize isize` (signedness `sg`, width `bits`):
`convert ty v` succeeds with `tv` iff `v` is numeric program data — decimal (radix 10),
`#H` (16), `#B` (2) or `#Q` (8) — whose text is a numeral of that radix with
mathematical value `n`, `n` is in the range of `ty`, and `tv` is that `n` at type `ty`. -/
theorem convert_int_spec (ty : Ty) (sg : Bool) (bits : Nat) (h : ty.intInfo = some (sg, bits))
    (v : Value) (tv : TVal) :
    convert ty v = .ok tv ↔
      ∃ radix s n, NumKind v radix s ∧ IsNumeral sg radix s n ∧
        intMin sg bits ≤ n ∧ n ≤ intMax sg bits ∧ tv = .int ty n := by
  rw [convert_int_eq h]
  have key : ∀ radix s,
      ((match fromStrRadix sg bits radix s with
        | some n => Except.ok (TVal.int ty n)
        | none => Except.error (Err.std .NumericDataError)) = .ok tv) ↔
      ∃ n, IsNumeral sg radix s n ∧ intMin sg bits ≤ n ∧ n ≤ intMax sg bits ∧ tv = .int ty n := by
    intro radix s
    cases hf : fromStrRadix sg bits radix s with
    | none =>
      refine ⟨fun h => (by cases h), ?_⟩
      rintro ⟨n, h1, h2, h3, -⟩
      have := (fromStrRadix_iff sg bits radix s n).mpr ⟨h1, h2, h3⟩
      rw [hf] at this; cases this
    | some n =>
      obtain ⟨h1, h2, h3⟩ := (fromStrRadix_iff sg bits radix s n).mp hf
      constructor
      · intro h; cases h; exact ⟨n, h1, h2, h3, rfl⟩
      · rintro ⟨n', h1', -, -, rfl⟩
        rw [isNumeral_unique h1 h1']
  cases v with
  | dec s =>
    exact (key 10 s).trans
      ⟨fun ⟨n, h⟩ => ⟨10, s, n, .dec s, h⟩, fun ⟨_, _, n, hk, h⟩ => by cases hk; exact ⟨n, h⟩⟩
  | hex s =>
    exact (key 16 s).trans
      ⟨fun ⟨n, h⟩ => ⟨16, s, n, .hex s, h⟩, fun ⟨_, _, n, hk, h⟩ => by cases hk; exact ⟨n, h⟩⟩
  | bin s =>
    exact (key 2 s).trans
      ⟨fun ⟨n, h⟩ => ⟨2, s, n, .bin s, h⟩, fun ⟨_, _, n, hk, h⟩ => by cases hk; exact ⟨n, h⟩⟩
  | oct s =>
    exact (key 8 s).trans
      ⟨fun ⟨n, h⟩ => ⟨8, s, n, .oct s, h⟩, fun ⟨_, _, n, hk, h⟩ => by cases hk; exact ⟨n, h⟩⟩
  | str s =>
    simp only [convertInt]
    exact ⟨fun h => (by cases h), fun ⟨_, _, _, hk, _⟩ => by cases hk⟩
  | chars s =>
    simp only [convertInt]
    exact ⟨fun h => (by cases h), fun ⟨_, _, _, hk, _⟩ => by cases hk⟩
  | arb s =>
    simp only [convertInt]
    exact ⟨fun h => (by cases h), fun ⟨_, _, _, hk, _⟩ => by cases hk⟩

/-- **-120 for numeric data that is not a representable literal of the type.**  For
numeric program data of radix `radix` and text `s`, conversion to the integer type
fails iff `s` is not a numeral (of that radix, `-` only if signed) with a value in the
range of the type — and the error is then `NumericDataError` (-120), nothing else. -/
theorem convert_int_error_numeric (ty : Ty) (sg : Bool) (bits : Nat)
    (h : ty.intInfo = some (sg, bits)) (v : Value) (radix : Nat) (s : Bytes)
    (hk : NumKind v radix s) :
    (convert ty v = .error (.std .NumericDataError) ↔
      ¬ ∃ n, IsNumeral sg radix s n ∧ intMin sg bits ≤ n ∧ n ≤ intMax sg bits) ∧
    (∀ e, convert ty v = .error e → e = .std .NumericDataError) := by
  rw [convert_int_eq h]
  have key : ∀ radix s,
      (((match fromStrRadix sg bits radix s with
        | some n => Except.ok (TVal.int ty n)
        | none => Except.error (Err.std .NumericDataError)) = .error (.std .NumericDataError)) ↔
       ¬ ∃ n, IsNumeral sg radix s n ∧ intMin sg bits ≤ n ∧ n ≤ intMax sg bits) ∧
      (∀ e, ((match fromStrRadix sg bits radix s with
        | some n => Except.ok (TVal.int ty n)
        | none => Except.error (Err.std .NumericDataError)) = .error e) →
        e = .std .NumericDataError) := by
    intro radix s
    cases hf : fromStrRadix sg bits radix s with
    | none =>
      refine ⟨⟨fun _ => ?_, fun _ => rfl⟩, fun e he => (by cases he; rfl)⟩
      rintro ⟨n, hn⟩
      have := (fromStrRadix_iff sg bits radix s n).mpr hn
      rw [hf] at this; cases this
    | some n =>
      refine ⟨⟨fun h => (by cases h), fun hne => ?_⟩, fun e he => (by cases he)⟩
      exact absurd ⟨n, (fromStrRadix_iff sg bits radix s n).mp hf⟩ hne
  cases hk <;> exact key _ _

/-- **-104 for the wrong kind of data.**  String, character and block data never
convert to an integer type: `DataTypeError` (-104). -/
theorem convert_int_error_kind (ty : Ty) (sg : Bool) (bits : Nat)
    (h : ty.intInfo = some (sg, bits)) (v : Value) (hv : NonNumeric v) :
    convert ty v = .error (.std .DataTypeError) := by
  rw [convert_int_eq h]
  obtain ⟨s, rfl | rfl | rfl⟩ := hv <;> rfl

/-- **Never a wrong value.**  Whatever `convert` delivers for an integer type is an
`.int` of that very type whose value is the mathematical value of the literal, in
range; in every other case the result is one of the two errors -120 / -104 (so there
is no third outcome: no default, no partial value). -/
theorem convert_int_never_wrong (ty : Ty) (sg : Bool) (bits : Nat)
    (h : ty.intInfo = some (sg, bits)) (v : Value) :
    (∃ radix s n, NumKind v radix s ∧ IsNumeral sg radix s n ∧ intMin sg bits ≤ n ∧
        n ≤ intMax sg bits ∧ convert ty v = .ok (.int ty n)) ∨
    ((∃ radix s, NumKind v radix s) ∧ convert ty v = .error (.std .NumericDataError)) ∨
    (NonNumeric v ∧ convert ty v = .error (.std .DataTypeError)) := by
  rcases numKind_or_nonNumeric v with ⟨radix, s, hk⟩ | hv
  · cases hc : convert ty v with
    | ok tv =>
      obtain ⟨radix', s', n, hk', h1, h2, h3, rfl⟩ := (convert_int_spec ty sg bits h v tv).mp hc
      exact Or.inl ⟨radix', s', n, hk', h1, h2, h3, rfl⟩
    | error e =>
      have := (convert_int_error_numeric ty sg bits h v radix s hk).2 e hc
      subst this
      exact Or.inr (Or.inl ⟨⟨radix, s, hk⟩, rfl⟩)
  · exact Or.inr (Or.inr ⟨hv, convert_int_error_kind ty sg bits h v hv⟩)

/-- The ten integer types and their ranges, spelled out. -/
theorem int_ranges :
    (intMin false 8 = 0 ∧ intMax false 8 = 255) ∧ (intMin true 8 = -128 ∧ intMax true 8 = 127) ∧
    (intMin false 16 = 0 ∧ intMax false 16 = 65535) ∧
    (intMin true 16 = -32768 ∧ intMax true 16 = 32767) ∧
    (intMin false 32 = 0 ∧ intMax false 32 = 4294967295) ∧
    (intMin true 32 = -2147483648 ∧ intMax true 32 = 2147483647) ∧
    (intMin false 64 = 0 ∧ intMax false 64 = 18446744073709551615) ∧
    (intMin true 64 = -9223372036854775808 ∧ intMax true 64 = 9223372036854775807) := by
  decide

/-! ### Non-vacuity (integers) -/

/-- `255` fits `u8` … -/
example : convert .u8 (.dec [50, 53, 53]) = .ok (.int .u8 255) := rfl
/-- … `256` does not: -120, not 0. -/
example : convert .u8 (.dec [50, 53, 54]) = .error (.std .NumericDataError) := rfl
/-- `#H80` is 128, which is not an `i8`: -120, not -128. -/
example : convert .i8 (.hex [56, 48]) = .error (.std .NumericDataError) := rfl
/-- `-128` is an `i8`. -/
example : convert .i8 (.dec [45, 49, 50, 56]) = .ok (.int .i8 (-128)) := rfl
/-- `-1` is not a `u8` (no sign flip, no wrap to 255). -/
example : convert .u8 (.dec [45, 49]) = .error (.std .NumericDataError) := rfl
/-- `#Q17` is 15, `#B101` is 5, `#HfF` is 255. -/
example : convert .u16 (.oct [49, 55]) = .ok (.int .u16 15) ∧
    convert .u16 (.bin [49, 48, 49]) = .ok (.int .u16 5) ∧
    convert .u16 (.hex [102, 70]) = .ok (.int .u16 255) := ⟨rfl, rfl, rfl⟩
/-- `1.0` and `1e2` are decimal program data but not integer literals: -120. -/
example : convert .i32 (.dec [49, 46, 48]) = .error (.std .NumericDataError) ∧
    convert .i32 (.dec [49, 101, 50]) = .error (.std .NumericDataError) := ⟨rfl, rfl⟩
/-- A string is the wrong kind of data: -104. -/
example : convert .i32 (.str [49]) = .error (.std .DataTypeError) := rfl
/-- The hypotheses of `convert_int_spec` are satisfiable: `+7F` in radix 16 is 127. -/
example : IsNumeral true 16 [43, 55, 70] 127 :=
  IsNumeral.plus [55, 70] [7, 15] (by simp) ⟨by decide, by decide⟩
example : IsNumeral true 10 [45, 49, 50, 56] (-128) :=
  IsNumeral.minus [49, 50, 56] [1, 2, 8] rfl (by simp) ⟨by decide, by decide⟩

/-! ## T3.4 — booleans -/

theorem strBytes_ON : strBytes "ON" = [79, 78] := by
  have h : "ON" = String.ofList ['O', 'N'] := rfl
  rw [h, strBytes_ofList]; decide
theorem strBytes_on : strBytes "on" = [111, 110] := by
  have h : "on" = String.ofList ['o', 'n'] := rfl
  rw [h, strBytes_ofList]; decide
theorem strBytes_TRUE : strBytes "TRUE" = [84, 82, 85, 69] := by
  have h : "TRUE" = String.ofList ['T', 'R', 'U', 'E'] := rfl
  rw [h, strBytes_ofList]; decide
theorem strBytes_true : strBytes "true" = [116, 114, 117, 101] := by
  have h : "true" = String.ofList ['t', 'r', 'u', 'e'] := rfl
  rw [h, strBytes_ofList]; decide
theorem strBytes_OFF : strBytes "OFF" = [79, 70, 70] := by
  have h : "OFF" = String.ofList ['O', 'F', 'F'] := rfl
  rw [h, strBytes_ofList]; decide
theorem strBytes_off : strBytes "off" = [111, 102, 102] := by
  have h : "off" = String.ofList ['o', 'f', 'f'] := rfl
  rw [h, strBytes_ofList]; decide
theorem strBytes_FALSE : strBytes "FALSE" = [70, 65, 76, 83, 69] := by
  have h : "FALSE" = String.ofList ['F', 'A', 'L', 'S', 'E'] := rfl
  rw [h, strBytes_ofList]; decide
theorem strBytes_false : strBytes "false" = [102, 97, 108, 115, 101] := by
  have h : "false" = String.ofList ['f', 'a', 'l', 's', 'e'] := rfl
  rw [h, strBytes_ofList]; decide

/-- The five spellings of *true*: character data `ON`, `on`, `TRUE`, `true`, decimal `1`. -/
def trueSpellings : List Value :=
  [.chars [79, 78], .chars [111, 110], .chars [84, 82, 85, 69], .chars [116, 114, 117, 101],
   .dec [49]]

/-- The five spellings of *false*: `OFF`, `off`, `FALSE`, `false`, decimal `0`. -/
def falseSpellings : List Value :=
  [.chars [79, 70, 70], .chars [111, 102, 102], .chars [70, 65, 76, 83, 69],
   .chars [102, 97, 108, 115, 101], .dec [48]]

/-- `convertBool` with the literals evaluated. -/
theorem convertBool_eq (v : Value) :
    convertBool v =
      if v ∈ trueSpellings then .ok (.bool true)
      else if v ∈ falseSpellings then .ok (.bool false)
      else .error (.std .IllegalParameterValue) := by
  unfold convertBool
  simp only [strBytes_ON, strBytes_on, strBytes_TRUE, strBytes_true, strBytes_OFF, strBytes_off,
    strBytes_FALSE, strBytes_false, trueSpellings, falseSpellings]
  cases v <;> simp [or_assoc]

/-- **T3.4 — the Boolean table.**  `convert .bool v` is `true` exactly for the five
spellings `ON on TRUE true 1`, `false` exactly for `OFF off FALSE false 0`, and
`IllegalParameterValue` (-224) for EVERYTHING else, whatever the kind of data — mixed
case (`On`), other numbers (`2`, `01`, `1.0`, `+1`), `#H1`, strings, blocks. -/
theorem convert_bool_table (v : Value) :
    (convert .bool v = .ok (.bool true) ↔ v ∈ trueSpellings) ∧
    (convert .bool v = .ok (.bool false) ↔ v ∈ falseSpellings) ∧
    (v ∉ trueSpellings → v ∉ falseSpellings →
      convert .bool v = .error (.std .IllegalParameterValue)) ∧
    (∀ e, convert .bool v = .error e → e = .std .IllegalParameterValue) ∧
    (∀ tv, convert .bool v = .ok tv → ∃ b, tv = .bool b) := by
  have hdisj : v ∈ trueSpellings → v ∉ falseSpellings := by
    intro h1 h2
    simp only [trueSpellings, falseSpellings, List.mem_cons, List.not_mem_nil, or_false] at h1 h2
    rcases h1 with rfl | rfl | rfl | rfl | rfl <;> simp at h2
  show (convertBool v = _ ↔ _) ∧ (convertBool v = _ ↔ _) ∧ (_ → _ → convertBool v = _) ∧
    (∀ e, convertBool v = _ → _) ∧ (∀ tv, convertBool v = _ → _)
  rw [convertBool_eq]
  by_cases ht : v ∈ trueSpellings
  · have hf := hdisj ht
    simp [ht, hf]
  · by_cases hf : v ∈ falseSpellings
    · simp [ht, hf]
    · simp [ht, hf]

/-- Rows of the table. -/
example : convert .bool (.chars [79, 78]) = .ok (.bool true) := by
  rw [(convert_bool_table _).1]; decide
example : convert .bool (.chars [111, 102, 102]) = .ok (.bool false) := by
  rw [(convert_bool_table _).2.1]; decide
example : convert .bool (.dec [49]) = .ok (.bool true) := rfl
example : convert .bool (.dec [48]) = .ok (.bool false) := rfl
/-- `On` (mixed case), `2`, `1.0`, `#H1` and the string `"ON"` are not Booleans. -/
example : convert .bool (.chars [79, 110]) = .error (.std .IllegalParameterValue) :=
  (convert_bool_table _).2.2.1 (by decide) (by decide)
example : convert .bool (.dec [50]) = .error (.std .IllegalParameterValue) := rfl
example : convert .bool (.dec [49, 46, 48]) = .error (.std .IllegalParameterValue) := rfl
example : convert .bool (.hex [49]) = .error (.std .IllegalParameterValue) := rfl
example : convert .bool (.str [79, 78]) = .error (.std .IllegalParameterValue) := rfl

/-! ## Strings and blocks -/

/-- **Strings byte for byte.**  `convert .str v` succeeds iff `v` is (quoted) string
data, and delivers exactly its bytes; every other kind of data is -104. -/
theorem convert_str_bytes (v : Value) (tv : TVal) :
    (convert .str v = .ok tv ↔ ∃ s, v = .str s ∧ tv = .str s) ∧
    ((∀ s, v ≠ .str s) → convert .str v = .error (.std .DataTypeError)) ∧
    (∀ e, convert .str v = .error e → e = .std .DataTypeError) := by
  cases v <;> simp [convert, eq_comm]

/-- **Blocks byte for byte.**  `convert .bytes v` succeeds iff `v` is a definite-length
block, and delivers exactly its bytes; every other kind of data is -104. -/
theorem convert_bytes_bytes (v : Value) (tv : TVal) :
    (convert .bytes v = .ok tv ↔ ∃ s, v = .arb s ∧ tv = .bytes s) ∧
    ((∀ s, v ≠ .arb s) → convert .bytes v = .error (.std .DataTypeError)) ∧
    (∀ e, convert .bytes v = .error e → e = .std .DataTypeError) := by
  cases v <;> simp [convert, eq_comm]

example : convert .str (.str [34, 0, 255, 10]) = .ok (.str [34, 0, 255, 10]) := rfl
example : convert .bytes (.arb [0, 10, 255]) = .ok (.bytes [0, 10, 255]) := rfl
example : convert .str (.chars [65]) = .error (.std .DataTypeError) := rfl
example : convert .bytes (.str [65]) = .error (.std .DataTypeError) := rfl

/-! ## T3.3 — floats: what `convert` does -/

/-- `convert .f64`: decimal program data is handed to `str::parse::<f64>`
(`parseFloat fmt64`); its result is delivered unchanged; unparsable text is -120; any
other kind of data is -104. -/
theorem convert_f64_iff (v : Value) (tv : TVal) :
    (convert .f64 v = .ok tv ↔ ∃ s b, v = .dec s ∧ parseFloat fmt64 s = some b ∧ tv = .f64 b) ∧
    (∀ s, v = .dec s → parseFloat fmt64 s = none →
      convert .f64 v = .error (.std .NumericDataError)) ∧
    ((∀ s, v ≠ .dec s) → convert .f64 v = .error (.std .DataTypeError)) := by
  cases v <;> simp [convert, convertFloat]
  rename_i s
  cases parseFloat fmt64 s <;> simp [eq_comm]

theorem convert_f32_iff (v : Value) (tv : TVal) :
    (convert .f32 v = .ok tv ↔ ∃ s b, v = .dec s ∧ parseFloat fmt32 s = some b ∧ tv = .f32 b) ∧
    (∀ s, v = .dec s → parseFloat fmt32 s = none →
      convert .f32 v = .error (.std .NumericDataError)) ∧
    ((∀ s, v ≠ .dec s) → convert .f32 v = .error (.std .DataTypeError)) := by
  cases v <;> simp [convert, convertFloat]
  rename_i s
  cases parseFloat fmt32 s <;> simp [eq_comm]

/-- The form asked for: on decimal data, `convert` IS `parseFloat`. -/
theorem convert_f64_dec (s : Bytes) (b : Nat) :
    convert .f64 (.dec s) = .ok (.f64 b) ↔ parseFloat fmt64 s = some b := by
  rw [(convert_f64_iff _ _).1]; simp

theorem convert_f32_dec (s : Bytes) (b : Nat) :
    convert .f32 (.dec s) = .ok (.f32 b) ↔ parseFloat fmt32 s = some b := by
  rw [(convert_f32_iff _ _).1]; simp

/-! ## T3.3 — floats: correct rounding

`roundRat f n d` is the function that turns the exact rational `n/d` into a bit pattern
(without sign).  The value of a pattern `u ≤ f.infBits` is `fscaled f u / funitDen f`
(for `u = f.infBits` this is `2^(expMax - bias)`, the value the first binade beyond the
finite range would start with — the reference point IEEE 754 uses to decide overflow),
and `fdist f n d u = |fscaled f u · d - n · funitDen f|` is `|value u - n/d|` multiplied
by the positive constant `d · funitDen f`.  -/

/-- The grid value of a pattern from its significand and exponent:
`fscaled = fmant · 2^(fexp - (1 - bias - mbits))`, the exponent difference being
`E - 1` (`0` for sub-normals); i.e. `value = fmant · 2^fexp = fscaled / 2^(bias+mbits-1)`. -/
theorem fscaled_spec (f : FloatFmt) (bits : Nat) :
    0 ≤ fexp f bits + f.bias + f.mbits - 1 ∧
    fscaled f bits = fmant f bits * 2 ^ (fexp f bits + f.bias + f.mbits - 1).toNat := by
  unfold fscaled fexp
  by_cases h : f.expOf bits = 0
  · rw [if_pos h, h]
    have : ((1 : Int) - f.bias - f.mbits + f.bias + f.mbits - 1).toNat = 0 - 1 := by omega
    rw [this]
    exact ⟨by omega, rfl⟩
  · rw [if_neg h]
    have : ((f.expOf bits : Int) - f.bias - f.mbits + f.bias + f.mbits - 1).toNat =
        f.expOf bits - 1 := by omega
    rw [this]
    exact ⟨by omega, rfl⟩

/-- The grid is strictly increasing in the bit pattern (so patterns and values
correspond one to one, `+0` ↦ 0, pattern 1 ↦ the smallest sub-normal, …). -/
theorem fscaled_strictMono (f : FloatFmt) (u v : Nat) (huv : u < v) (hv : v ≤ f.infBits) :
    fscaled f u < fscaled f v := fscaled_lt f u v huv hv

/-- **(a) The result is a finite pattern or the infinity pattern** — never a NaN, never
a pattern with the sign bit or beyond. -/
theorem roundRat_finite_or_inf (f : FloatFmt) (hm : 1 ≤ f.mbits) (he : 2 ≤ f.ebits) (n d : Nat)
    (hd : 0 < d) : roundRat f n d < f.infBits ∨ roundRat f n d = f.infBits := by
  by_cases hn : n = 0
  · subst hn
    rw [roundRat_zero_num]
    have := infBits_pos f hm he
    omega
  · exact Nat.lt_or_eq_of_le (roundRat_nearest' f hm he n d hn hd).1

/-- **T3.3 — `roundRat` rounds to nearest, ties to even.**  For every format with at
least one fraction bit and two exponent bits (binary32 and binary64 in particular) and
every positive rational `n/d`: with `b = roundRat f n d`, for EVERY pattern `u` up to the
infinity pattern,

* `|value b - n/d| ≤ |value u - n/d|`  (nearest), and
* if the distances are equal and `u ≠ b`, the fraction field of `b` is even (ties to even).

This covers normal and sub-normal results, underflow to zero and overflow (the infinity
pattern takes part with the value `2^(expMax-bias)`, see `roundRat_inf_iff`). -/
theorem roundRat_nearest (f : FloatFmt) (hm : 1 ≤ f.mbits) (he : 2 ≤ f.ebits) (n d : Nat)
    (hn : 0 < n) (hd : 0 < d) (u : Nat) (hu : u ≤ f.infBits) :
    fdist f n d (roundRat f n d) ≤ fdist f n d u ∧
    (fdist f n d (roundRat f n d) = fdist f n d u → u ≠ roundRat f n d →
      f.fracOf (roundRat f n d) % 2 = 0) :=
  (roundRat_nearest' f hm he n d (by omega) hd).2 u hu

/-- The form with finite patterns only: a finite result is nearest among the finite
values, ties to even. -/
theorem roundRat_nearest_finite (f : FloatFmt) (hm : 1 ≤ f.mbits) (he : 2 ≤ f.ebits) (n d : Nat)
    (hn : 0 < n) (hd : 0 < d) (_hb : roundRat f n d < f.infBits) (u : Nat) (hu : u < f.infBits) :
    fdist f n d (roundRat f n d) ≤ fdist f n d u ∧
    (fdist f n d (roundRat f n d) = fdist f n d u → u ≠ roundRat f n d →
      f.fracOf (roundRat f n d) % 2 = 0) :=
  roundRat_nearest f hm he n d hn hd u (Nat.le_of_lt hu)

/-- **Overflow exactly from the midpoint up.**  The result is the infinity pattern iff
`n/d ≥ (maxFinite + 2^(expMax-bias)) / 2 = maxFinite + ulp/2` — in particular ONLY IF;
below that the result is finite.  (`fscaled_maxFinite`, `fscaled_inf` give the two grid
values in closed form.) -/
theorem roundRat_inf_iff (f : FloatFmt) (hm : 1 ≤ f.mbits) (he : 2 ≤ f.ebits) (n d : Nat)
    (hd : 0 < d) :
    roundRat f n d = f.infBits ↔
      (fscaled f (f.infBits - 1) + fscaled f f.infBits) * d ≤ 2 * (n * funitDen f) :=
  roundRat_inf_iff' f hm he n d hd

/-- **Zero exactly up to half the smallest sub-normal**: `n/d ≤ 2^(-bias-mbits)`. -/
theorem roundRat_zero_iff (f : FloatFmt) (hm : 1 ≤ f.mbits) (he : 2 ≤ f.ebits) (n d : Nat)
    (hd : 0 < d) : roundRat f n d = 0 ↔ 2 * (n * funitDen f) ≤ d :=
  roundRat_zero_iff' f hm he n d hd

/-- **The magnitude shortcuts of `roundDec` are sound** for binary32 and binary64:
`roundDec f mant exp10` (which answers infinity for `mant · 10^exp10 ≥ 10^400` and zero
below `10^-400` without computing) equals `roundRat` applied to the exact value
`mant · 10^exp10` as a fraction. -/
theorem roundDec_shortcuts_sound (f : FloatFmt) (hf : f = fmt32 ∨ f = fmt64) (mant : Nat)
    (exp10 : Int) : roundDec f mant exp10 = roundDecExact f mant exp10 := by
  rcases hf with rfl | rfl
  · exact roundDec_eq_exact fmt32 (by decide) (by decide) (by decide +kernel) (by decide +kernel)
      mant exp10
  · exact roundDec_eq_exact fmt64 (by decide) (by decide) (by decide +kernel) (by decide +kernel)
      mant exp10

/-- **Decimal text to float, end to end.**  If the text after an optional sign is a
decimal number that `parseNumberBody` reads as `mant · 10^exp10`, then `parseFloat`
delivers the correctly rounded pattern of exactly that rational (`roundDecExact`, i.e.
`roundRat` — nearest, ties to even, by `roundRat_nearest`), with the sign bit set iff
the text starts with `-`. -/
theorem parseFloat_number (f : FloatFmt) (hf : f = fmt32 ∨ f = fmt64) (c : Nat) (rest : Bytes)
    (mant : Nat) (exp10 : Int)
    (h : parseNumberBody (if c = 45 ∨ c = 43 then rest else c :: rest) = some (mant, exp10)) :
    parseFloat f (c :: rest) =
      some (roundDecExact f mant exp10 + (if c = 45 then f.signBit else 0)) := by
  unfold parseFloat
  rw [← roundDec_shortcuts_sound f hf]
  by_cases h45 : c = 45
  · subst h45
    simp only [true_or, if_true] at h
    simp [h]
  · by_cases h43 : c = 43
    · subst h43
      simp only [or_true, if_true] at h
      simp [h]
    · simp only [h45, h43, or_self, if_false] at h
      simp [h45, h43, h]

/-- **The number grammar reads what is written.**  `parseNumberBody s` (the grammar of
`core::num::dec2flt`) succeeds with `(mant, exp10)` iff `s` is a decimal real literal
— digits, optional `.` and digits, at least one digit in all, optional exponent
`e`/`E` [sign] digits — and `mant · 10^exp10` is the number it denotes
(`IsDecimalText`, `Scpi/Spec/Numerals.lean`). -/
theorem parseNumberBody_iff (s : Bytes) (mant : Nat) (exp10 : Int) :
    parseNumberBody s = some (mant, exp10) ↔ IsDecimalText s mant exp10 :=
  parseNumberBody_iff' s mant exp10

/-- **T3.3 end to end — decimal reals are correctly rounded.**  If the text after the
optional sign is a decimal real literal denoting `mant · 10^exp10`, then `parseFloat`
— hence `convert .f32` / `convert .f64` — delivers `roundRat` of exactly that rational
(nearest, ties to even: `roundRat_nearest`; infinity/zero only beyond the midpoints:
`roundRat_inf_iff`, `roundRat_zero_iff`), with the sign bit set iff the text starts
with `-`. -/
theorem parseFloat_correct (f : FloatFmt) (hf : f = fmt32 ∨ f = fmt64) (c : Nat) (rest : Bytes)
    (mant : Nat) (exp10 : Int)
    (h : IsDecimalText (if c = 45 ∨ c = 43 then rest else c :: rest) mant exp10) :
    parseFloat f (c :: rest) =
      some ((if exp10 ≥ 0 then roundRat f (mant * 10 ^ exp10.toNat) 1
             else roundRat f mant (10 ^ (-exp10).toNat)) +
            (if c = 45 then f.signBit else 0)) :=
  parseFloat_number f hf c rest mant exp10 ((parseNumberBody_iff _ _ _).mpr h)

theorem strBytes_nan' : strBytes "nan" = [110, 97, 110] := by
  have h : "nan" = String.ofList ['n', 'a', 'n'] := rfl
  rw [h, strBytes_ofList]; decide
theorem strBytes_inf' : strBytes "inf" = [105, 110, 102] := by
  have h : "inf" = String.ofList ['i', 'n', 'f'] := rfl
  rw [h, strBytes_ofList]; decide
theorem strBytes_infinity : strBytes "infinity" = [105, 110, 102, 105, 110, 105, 116, 121] := by
  have h : "infinity" = String.ofList ['i', 'n', 'f', 'i', 'n', 'i', 't', 'y'] := rfl
  rw [h, strBytes_ofList]; decide

/-- **Text that is not a number.**  When the text after the optional sign is not a
decimal number, `parseFloat` (as `f64::from_str`) accepts only `nan`, `inf` and
`infinity` in any letter case, and fails on everything else — whence -120 in
`convert_f64_iff`.  (The SCPI recogniser for decimal data never produces such text.) -/
theorem parseFloat_nonnumber (f : FloatFmt) (c : Nat) (rest : Bytes)
    (h : parseNumberBody (if c = 45 ∨ c = 43 then rest else c :: rest) = none) :
    parseFloat f (c :: rest) =
      (if (if c = 45 ∨ c = 43 then rest else c :: rest).map lowerAscii = [110, 97, 110] then
        some (f.nanBits + (if c = 45 then f.signBit else 0))
      else if (if c = 45 ∨ c = 43 then rest else c :: rest).map lowerAscii = [105, 110, 102] ∨
          (if c = 45 ∨ c = 43 then rest else c :: rest).map lowerAscii =
            [105, 110, 102, 105, 110, 105, 116, 121] then
        some (f.infBits + (if c = 45 then f.signBit else 0))
      else none) := by
  unfold parseFloat
  rw [strBytes_nan', strBytes_inf', strBytes_infinity]
  by_cases h45 : c = 45
  · subst h45
    simp only [true_or, if_true] at h ⊢
    simp [h]
  · by_cases h43 : c = 43
    · subst h43
      simp only [or_true, if_true] at h ⊢
      simp [h]
    · simp only [h45, h43, or_self, if_false] at h ⊢
      simp [h45, h43, h]

/-! ### Non-vacuity (floats) -/

/-- `0.1` is `0x3FB999999999999A` in binary64 … -/
example : parseFloat fmt64 [48, 46, 49] = some 0x3FB999999999999A := by decide
example : convert .f64 (.dec [48, 46, 49]) = .ok (.f64 0x3FB999999999999A) := by rfl
/-- … and `16777217 = 2^24 + 1` is a tie in binary32, resolved to the even `2^24`. -/
example : parseFloat fmt32 [49, 54, 55, 55, 55, 50, 49, 55] = some 0x4B800000 := by decide
/-- `-2.5e-1` sets the sign bit. -/
example : parseFloat fmt64 [45, 50, 46, 53, 101, 45, 49] = some (0x3FD0000000000000 + 2 ^ 63) := by
  decide
/-- Premise of `parseFloat_number` on `0.1`: mantissa 1, exponent -1. -/
example : parseNumberBody [48, 46, 49] = some (1, -1) := by decide
/-- Premise of `parseFloat_correct` on `2.5e-1`: it denotes `25 · 10^-2`. -/
example : IsDecimalText [50, 46, 53, 101, 45, 49] 25 (-2) :=
  ⟨[50], [53], [101, 45, 49], -1, by simp [AllDigits], by simp [AllDigits], by simp,
   IsExponent.minus 101 [49] (Or.inr rfl) (by simp) (by simp [AllDigits]), Or.inr rfl,
   by decide, by decide⟩
/-- Overflow and underflow: `1e309` is infinity, `1e-400` is zero, `1e999999` and
`1e-999999` take the shortcuts. -/
example : parseFloat fmt64 [49, 101, 51, 48, 57] = some fmt64.infBits := by decide +kernel
example : parseFloat fmt64 [49, 101, 45, 52, 48, 48] = some 0 := by decide +kernel
example : roundDec fmt64 1 999999 = fmt64.infBits ∧ roundDec fmt64 1 (-999999) = 0 := by decide
/-- The largest finite binary64 value and the overflow midpoint. -/
example : roundRat fmt64 (2 ^ 1024 - 2 ^ 970 - 1) 1 = fmt64.infBits - 1 ∧
    roundRat fmt64 (2 ^ 1024 - 2 ^ 970) 1 = fmt64.infBits := by decide +kernel
/-- The smallest sub-normal `2^-1074` and the underflow midpoint `2^-1075` (tie → 0). -/
example : roundRat fmt64 1 (2 ^ 1074) = 1 ∧ roundRat fmt64 1 (2 ^ 1075) = 0 ∧
    roundRat fmt64 3 (2 ^ 1076) = 1 := by decide +kernel
/-- Text that is decimal program data for SCPI but no number: -120; `ABC` → -104. -/
example : convert .f64 (.dec [46]) = .error (.std .NumericDataError) :=
  (convert_f64_iff _ (.f64 0)).2.1 _ rfl (by rw [parseFloat_nonnumber _ _ _ (by decide)]; decide)
example : convert .f64 (.chars [65, 66, 67]) = .error (.std .DataTypeError) := by rfl

end C03
end Scpi
