/-
C03 (conversion part) — "integer literals in decimal or #H/#Q/#B notation converted
exactly to the declared integer type, decimal reals correctly rounded to f32/f64,
ON/OFF/1/0 booleans, and quoted strings and definite-length blocks byte for byte.  If a
literal does not fit the declared parameter — wrong kind of data (-104), not a
representable literal of that numeric type (-120), not a boolean (-224) — the handler
is not invoked and exactly one error is reported.  A wrapped, truncated, sign-flipped,
re-based or defaulted value is never delivered."

This file is about `convert : Ty → Value → Except Err TVal` (`TryInto<T> for &Value`,
value.rs), the function the generated dispatcher applies to every parameter.  That a
failed conversion means "handler not invoked, exactly one error" is C06
(`Scpi.C06.execute_err_cases` case (c), `Scpi.C06.convertArgs_first_error`,
`Scpi.C06.one_error_per_unit`); here it is shown WHICH values convert, to WHAT, and
which error is produced otherwise.

The specification (`Scpi/Spec/Numerals.lean`) says what a numeral is and what it
means (`IsNumeral`, `digitsValue`) without reference to the model's `fromStrRadix`.

* T3.2 integers: `fromStrRadix_iff`, `convert_int_spec`, `convert_int_error_numeric`,
  `convert_int_error_kind`, `convert_int_never_wrong`.
* T3.4 booleans: `convert_bool_table` (+ `strBytes_ON` … for the ten spellings).
* strings/blocks: `convert_str_bytes`, `convert_bytes_bytes`.
* T3.3 floats: `convert_f64_iff`, `convert_f32_iff`, and the rounding theorems
  (`roundRat_…`, in the second half of the file).
-/
import Scpi.Proofs.ConvInt
import Scpi.Proofs.RespBytes

namespace Scpi
namespace C03

/-! ## The error numbers named in the property -/

theorem error_numbers :
    (Err.std .DataTypeError).number = -104 ∧ (Err.std .NumericDataError).number = -120 ∧
    (Err.std .IllegalParameterValue).number = -224 := ⟨rfl, rfl, rfl⟩

/-! ## T3.2 — integers -/

/-- **T3.2 `from_str_radix` is exact or nothing.**  For every signedness, width, radix
and text: the result is `some v` iff the text is a numeral of that radix (optional `+`,
`-` only for a signed type, at least one digit, all digits valid in the radix) whose
MATHEMATICAL value `v` lies in the range of the type.  Hence a value that is wrapped
(256 ↦ 0), truncated, sign-flipped (#H80 ↦ -128 for `i8`), read in another radix, or
defaulted is never returned: whatever is returned is the value of the numeral.
(No condition on the radix is needed; the library uses 2, 8, 10 and 16.) -/
theorem fromStrRadix_iff (signed : Bool) (bits radix : Nat) (s : Bytes) (v : Int) :
    fromStrRadix signed bits radix s = some v ↔
      IsNumeral signed radix s v ∧ intMin signed bits ≤ v ∧ v ≤ intMax signed bits :=
  fromStrRadix_iff' signed bits radix s v

/-- A numeral has one value only, so `fromStrRadix_iff` determines the result. -/
theorem numeral_value_unique {signed : Bool} {radix : Nat} {s : Bytes} {v v' : Int}
    (h : IsNumeral signed radix s v) (h' : IsNumeral signed radix s v') : v = v' :=
  isNumeral_unique h h'

/-- `NumKind v radix s`: the program data `v` is numeric, of the kind whose radix is
`radix`, with the text `s` (for `#H…`, `#B…`, `#Q…` the text after the two-byte prefix). -/
inductive NumKind : Value → Nat → Bytes → Prop where
  | dec (s : Bytes) : NumKind (.dec s) 10 s
  | hex (s : Bytes) : NumKind (.hex s) 16 s
  | bin (s : Bytes) : NumKind (.bin s) 2 s
  | oct (s : Bytes) : NumKind (.oct s) 8 s

/-- The three kinds of program data that are not numeric. -/
def NonNumeric (v : Value) : Prop := ∃ s, v = .str s ∨ v = .chars s ∨ v = .arb s

theorem numKind_or_nonNumeric (v : Value) : (∃ radix s, NumKind v radix s) ∨ NonNumeric v := by
  cases v with
  | str s => exact Or.inr ⟨s, Or.inl rfl⟩
  | chars s => exact Or.inr ⟨s, Or.inr (Or.inl rfl)⟩
  | arb s => exact Or.inr ⟨s, Or.inr (Or.inr rfl)⟩
  | dec s => exact Or.inl ⟨_, _, .dec s⟩
  | hex s => exact Or.inl ⟨_, _, .hex s⟩
  | bin s => exact Or.inl ⟨_, _, .bin s⟩
  | oct s => exact Or.inl ⟨_, _, .oct s⟩

/-- For an integer type `convert` is `convertInt` with that type's signedness and width. -/
theorem convert_int_eq {ty : Ty} {sg : Bool} {bits : Nat} (h : ty.intInfo = some (sg, bits))
    (v : Value) : convert ty v = convertInt ty sg bits v := by
  cases ty <;> simp [Ty.intInfo] at h <;> obtain ⟨rfl, rfl⟩ := h <;> rfl

/-- **T3.2 — conversion to each of the ten integer types is exact.**  For `ty` one of
`u8 i8 u16 i16 u32 i32 u64 i64 usize isize` (signedness `sg`, width `bits`):
`convert ty v` succeeds with `tv` iff `v` is numeric program data — decimal (radix 10),
`#H` (16), `#B` (2) or `#Q` (8) — whose text is a numeral of that radix with
mathematical value `n`, `n` is in the range of `ty`, and `tv` is that `n` at type `ty`. -/
theorem convert_int_spec (ty : Ty) (sg : Bool) (bits : Nat) (h : ty.intInfo = some (sg, bits))
    (v : Value) (tv : TVal) :
    convert ty v = .ok tv ↔
      ∃ radix s n, NumKind v radix s ∧ IsNumeral sg radix s n ∧
        intMin sg bits ≤ n ∧ n ≤ intMax sg bits ∧ tv = .int ty n := by
  rw [convert_int_eq h]
  have key : ∀ radix s,
      ((match fromStrRadix sg bits radix s with
        | some n => Except.ok (TVal.int ty n)
        | none => Except.error (Err.std .NumericDataError)) = .ok tv) ↔
      ∃ n, IsNumeral sg radix s n ∧ intMin sg bits ≤ n ∧ n ≤ intMax sg bits ∧ tv = .int ty n := by
    intro radix s
    cases hf : fromStrRadix sg bits radix s with
    | none =>
      refine ⟨fun h => (by cases h), ?_⟩
      rintro ⟨n, h1, h2, h3, -⟩
      have := (fromStrRadix_iff sg bits radix s n).mpr ⟨h1, h2, h3⟩
      rw [hf] at this; cases this
    | some n =>
      obtain ⟨h1, h2, h3⟩ := (fromStrRadix_iff sg bits radix s n).mp hf
      constructor
      · intro h; cases h; exact ⟨n, h1, h2, h3, rfl⟩
      · rintro ⟨n', h1', -, -, rfl⟩
        rw [isNumeral_unique h1 h1']
  cases v with
  | dec s =>
    exact (key 10 s).trans
      ⟨fun ⟨n, h⟩ => ⟨10, s, n, .dec s, h⟩, fun ⟨_, _, n, hk, h⟩ => by cases hk; exact ⟨n, h⟩⟩
  | hex s =>
    exact (key 16 s).trans
      ⟨fun ⟨n, h⟩ => ⟨16, s, n, .hex s, h⟩, fun ⟨_, _, n, hk, h⟩ => by cases hk; exact ⟨n, h⟩⟩
  | bin s =>
    exact (key 2 s).trans
      ⟨fun ⟨n, h⟩ => ⟨2, s, n, .bin s, h⟩, fun ⟨_, _, n, hk, h⟩ => by cases hk; exact ⟨n, h⟩⟩
  | oct s =>
    exact (key 8 s).trans
      ⟨fun ⟨n, h⟩ => ⟨8, s, n, .oct s, h⟩, fun ⟨_, _, n, hk, h⟩ => by cases hk; exact ⟨n, h⟩⟩
  | str s =>
    simp only [convertInt]
    exact ⟨fun h => (by cases h), fun ⟨_, _, _, hk, _⟩ => by cases hk⟩
  | chars s =>
    simp only [convertInt]
    exact ⟨fun h => (by cases h), fun ⟨_, _, _, hk, _⟩ => by cases hk⟩
  | arb s =>
    simp only [convertInt]
    exact ⟨fun h => (by cases h), fun ⟨_, _, _, hk, _⟩ => by cases hk⟩

/-- **-120 for numeric data that is not a representable literal of the type.**  For
numeric program data of radix `radix` and text `s`, conversion to the integer type
fails iff `s` is not a numeral (of that radix, `-` only if signed) with a value in the
range of the type — and the error is then `NumericDataError` (-120), nothing else. -/
theorem convert_int_error_numeric (ty : Ty) (sg : Bool) (bits : Nat)
    (h : ty.intInfo = some (sg, bits)) (v : Value) (radix : Nat) (s : Bytes)
    (hk : NumKind v radix s) :
    (convert ty v = .error (.std .NumericDataError) ↔
      ¬ ∃ n, IsNumeral sg radix s n ∧ intMin sg bits ≤ n ∧ n ≤ intMax sg bits) ∧
    (∀ e, convert ty v = .error e → e = .std .NumericDataError) := by
  rw [convert_int_eq h]
  have key : ∀ radix s,
      (((match fromStrRadix sg bits radix s with
        | some n => Except.ok (TVal.int ty n)
        | none => Except.error (Err.std .NumericDataError)) = .error (.std .NumericDataError)) ↔
       ¬ ∃ n, IsNumeral sg radix s n ∧ intMin sg bits ≤ n ∧ n ≤ intMax sg bits) ∧
      (∀ e, ((match fromStrRadix sg bits radix s with
        | some n => Except.ok (TVal.int ty n)
        | none => Except.error (Err.std .NumericDataError)) = .error e) →
        e = .std .NumericDataError) := by
    intro radix s
    cases hf : fromStrRadix sg bits radix s with
    | none =>
      refine ⟨⟨fun _ => ?_, fun _ => rfl⟩, fun e he => (by cases he; rfl)⟩
      rintro ⟨n, hn⟩
      have := (fromStrRadix_iff sg bits radix s n).mpr hn
      rw [hf] at this; cases this
    | some n =>
      refine ⟨⟨fun h => (by cases h), fun hne => ?_⟩, fun e he => (by cases he)⟩
      exact absurd ⟨n, (fromStrRadix_iff sg bits radix s n).mp hf⟩ hne
  cases hk <;> exact key _ _

/-- **-104 for the wrong kind of data.**  String, character and block data never
convert to an integer type: `DataTypeError` (-104). -/
theorem convert_int_error_kind (ty : Ty) (sg : Bool) (bits : Nat)
    (h : ty.intInfo = some (sg, bits)) (v : Value) (hv : NonNumeric v) :
    convert ty v = .error (.std .DataTypeError) := by
  rw [convert_int_eq h]
  obtain ⟨s, rfl | rfl | rfl⟩ := hv <;> rfl

/-- **Never a wrong value.**  Whatever `convert` delivers for an integer type is an
`.int` of that very type whose value is the mathematical value of the literal, in
range; in every other case the result is one of the two errors -120 / -104 (so there
is no third outcome: no default, no partial value). -/
theorem convert_int_never_wrong (ty : Ty) (sg : Bool) (bits : Nat)
    (h : ty.intInfo = some (sg, bits)) (v : Value) :
    (∃ radix s n, NumKind v radix s ∧ IsNumeral sg radix s n ∧ intMin sg bits ≤ n ∧
        n ≤ intMax sg bits ∧ convert ty v = .ok (.int ty n)) ∨
    ((∃ radix s, NumKind v radix s) ∧ convert ty v = .error (.std .NumericDataError)) ∨
    (NonNumeric v ∧ convert ty v = .error (.std .DataTypeError)) := by
  rcases numKind_or_nonNumeric v with ⟨radix, s, hk⟩ | hv
  · cases hc : convert ty v with
    | ok tv =>
      obtain ⟨radix', s', n, hk', h1, h2, h3, rfl⟩ := (convert_int_spec ty sg bits h v tv).mp hc
      exact Or.inl ⟨radix', s', n, hk', h1, h2, h3, rfl⟩
    | error e =>
      have := (convert_int_error_numeric ty sg bits h v radix s hk).2 e hc
      subst this
      exact Or.inr (Or.inl ⟨⟨radix, s, hk⟩, rfl⟩)
  · exact Or.inr (Or.inr ⟨hv, convert_int_error_kind ty sg bits h v hv⟩)

/-- The ten integer types and their ranges, spelled out. -/
theorem int_ranges :
    (intMin false 8 = 0 ∧ intMax false 8 = 255) ∧ (intMin true 8 = -128 ∧ intMax true 8 = 127) ∧
    (intMin false 16 = 0 ∧ intMax false 16 = 65535) ∧
    (intMin true 16 = -32768 ∧ intMax true 16 = 32767) ∧
    (intMin false 32 = 0 ∧ intMax false 32 = 4294967295) ∧
    (intMin true 32 = -2147483648 ∧ intMax true 32 = 2147483647) ∧
    (intMin false 64 = 0 ∧ intMax false 64 = 18446744073709551615) ∧
    (intMin true 64 = -9223372036854775808 ∧ intMax true 64 = 9223372036854775807) := by
  decide

/-! ### Non-vacuity (integers) -/

/-- `255` fits `u8` … -/
example : convert .u8 (.dec [50, 53, 53]) = .ok (.int .u8 255) := rfl
/-- … `256` does not: -120, not 0. -/
example : convert .u8 (.dec [50, 53, 54]) = .error (.std .NumericDataError) := rfl
/-- `#H80` is 128, which is not an `i8`: -120, not -128. -/
example : convert .i8 (.hex [56, 48]) = .error (.std .NumericDataError) := rfl
/-- `-128` is an `i8`. -/
example : convert .i8 (.dec [45, 49, 50, 56]) = .ok (.int .i8 (-128)) := rfl
/-- `-1` is not a `u8` (no sign flip, no wrap to 255). -/
example : convert .u8 (.dec [45, 49]) = .error (.std .NumericDataError) := rfl
/-- `#Q17` is 15, `#B101` is 5, `#HfF` is 255. -/
example : convert .u16 (.oct [49, 55]) = .ok (.int .u16 15) ∧
    convert .u16 (.bin [49, 48, 49]) = .ok (.int .u16 5) ∧
    convert .u16 (.hex [102, 70]) = .ok (.int .u16 255) := ⟨rfl, rfl, rfl⟩
/-- `1.0` and `1e2` are decimal program data but not integer literals: -120. -/
example : convert .i32 (.dec [49, 46, 48]) = .error (.std .NumericDataError) ∧
    convert .i32 (.dec [49, 101, 50]) = .error (.std .NumericDataError) := ⟨rfl, rfl⟩
/-- A string is the wrong kind of data: -104. -/
example : convert .i32 (.str [49]) = .error (.std .DataTypeError) := rfl
/-- The hypotheses of `convert_int_spec` are satisfiable: `+7F` in radix 16 is 127. -/
example : IsNumeral true 16 [43, 55, 70] 127 :=
  IsNumeral.plus [55, 70] [7, 15] (by simp) ⟨by decide, by decide⟩
example : IsNumeral true 10 [45, 49, 50, 56] (-128) :=
  IsNumeral.minus [49, 50, 56] [1, 2, 8] rfl (by simp) ⟨by decide, by decide⟩

/-! ## T3.4 — booleans -/

theorem strBytes_ON : strBytes "ON" = [79, 78] := by
  have h : "ON" = String.ofList ['O', 'N'] := rfl
  rw [h, strBytes_ofList]; decide
theorem strBytes_on : strBytes "on" = [111, 110] := by
  have h : "on" = String.ofList ['o', 'n'] := rfl
  rw [h, strBytes_ofList]; decide
theorem strBytes_TRUE : strBytes "TRUE" = [84, 82, 85, 69] := by
  have h : "TRUE" = String.ofList ['T', 'R', 'U', 'E'] := rfl
  rw [h, strBytes_ofList]; decide
theorem strBytes_true : strBytes "true" = [116, 114, 117, 101] := by
  have h : "true" = String.ofList ['t', 'r', 'u', 'e'] := rfl
  rw [h, strBytes_ofList]; decide
theorem strBytes_OFF : strBytes "OFF" = [79, 70, 70] := by
  have h : "OFF" = String.ofList ['O', 'F', 'F'] := rfl
  rw [h, strBytes_ofList]; decide
theorem strBytes_off : strBytes "off" = [111, 102, 102] := by
  have h : "off" = String.ofList ['o', 'f', 'f'] := rfl
  rw [h, strBytes_ofList]; decide
theorem strBytes_FALSE : strBytes "FALSE" = [70, 65, 76, 83, 69] := by
  have h : "FALSE" = String.ofList ['F', 'A', 'L', 'S', 'E'] := rfl
  rw [h, strBytes_ofList]; decide
theorem strBytes_false : strBytes "false" = [102, 97, 108, 115, 101] := by
  have h : "false" = String.ofList ['f', 'a', 'l', 's', 'e'] := rfl
  rw [h, strBytes_ofList]; decide

/-- The five spellings of *true*: character data `ON`, `on`, `TRUE`, `true`, decimal `1`. -/
def trueSpellings : List Value :=
  [.chars [79, 78], .chars [111, 110], .chars [84, 82, 85, 69], .chars [116, 114, 117, 101],
   .dec [49]]

/-- The five spellings of *false*: `OFF`, `off`, `FALSE`, `false`, decimal `0`. -/
def falseSpellings : List Value :=
  [.chars [79, 70, 70], .chars [111, 102, 102], .chars [70, 65, 76, 83, 69],
   .chars [102, 97, 108, 115, 101], .dec [48]]

/-- `convertBool` with the literals evaluated. -/
theorem convertBool_eq (v : Value) :
    convertBool v =
      if v ∈ trueSpellings then .ok (.bool true)
      else if v ∈ falseSpellings then .ok (.bool false)
      else .error (.std .IllegalParameterValue) := by
  unfold convertBool
  simp only [strBytes_ON, strBytes_on, strBytes_TRUE, strBytes_true, strBytes_OFF, strBytes_off,
    strBytes_FALSE, strBytes_false, trueSpellings, falseSpellings]
  cases v <;> simp [or_assoc]

/-- **T3.4 — the Boolean table.**  `convert .bool v` is `true` exactly for the five
spellings `ON on TRUE true 1`, `false` exactly for `OFF off FALSE false 0`, and
`IllegalParameterValue` (-224) for EVERYTHING else, whatever the kind of data — mixed
case (`On`), other numbers (`2`, `01`, `1.0`, `+1`), `#H1`, strings, blocks. -/
theorem convert_bool_table (v : Value) :
    (convert .bool v = .ok (.bool true) ↔ v ∈ trueSpellings) ∧
    (convert .bool v = .ok (.bool false) ↔ v ∈ falseSpellings) ∧
    (v ∉ trueSpellings → v ∉ falseSpellings →
      convert .bool v = .error (.std .IllegalParameterValue)) ∧
    (∀ e, convert .bool v = .error e → e = .std .IllegalParameterValue) ∧
    (∀ tv, convert .bool v = .ok tv → ∃ b, tv = .bool b) := by
  have hdisj : v ∈ trueSpellings → v ∉ falseSpellings := by
    intro h1 h2
    simp only [trueSpellings, falseSpellings, List.mem_cons, List.not_mem_nil, or_false] at h1 h2
    rcases h1 with rfl | rfl | rfl | rfl | rfl <;> simp at h2
  show (convertBool v = _ ↔ _) ∧ (convertBool v = _ ↔ _) ∧ (_ → _ → convertBool v = _) ∧
    (∀ e, convertBool v = _ → _) ∧ (∀ tv, convertBool v = _ → _)
  rw [convertBool_eq]
  by_cases ht : v ∈ trueSpellings
  · have hf := hdisj ht
    simp [ht, hf]
  · by_cases hf : v ∈ falseSpellings
    · simp [ht, hf]
    · simp [ht, hf]

/-- Rows of the table. -/
example : convert .bool (.chars [79, 78]) = .ok (.bool true) := by
  rw [(convert_bool_table _).1]; decide
example : convert .bool (.chars [111, 102, 102]) = .ok (.bool false) := by
  rw [(convert_bool_table _).2.1]; decide
example : convert .bool (.dec [49]) = .ok (.bool true) := rfl
example : convert .bool (.dec [48]) = .ok (.bool false) := rfl
/-- `On` (mixed case), `2`, `1.0`, `#H1` and the string `"ON"` are not Booleans. -/
example : convert .bool (.chars [79, 110]) = .error (.std .IllegalParameterValue) :=
  (convert_bool_table _).2.2.1 (by decide) (by decide)
example : convert .bool (.dec [50]) = .error (.std .IllegalParameterValue) := rfl
example : convert .bool (.dec [49, 46, 48]) = .error (.std .IllegalParameterValue) := rfl
example : convert .bool (.hex [49]) = .error (.std .IllegalParameterValue) := rfl
example : convert .bool (.str [79, 78]) = .error (.std .IllegalParameterValue) := rfl

/-! ## Strings and blocks -/

/-- **Strings byte for byte.**  `convert .str v` succeeds iff `v` is (quoted) string
data, and delivers exactly its bytes; every other kind of data is -104. -/
theorem convert_str_bytes (v : Value) (tv : TVal) :
    (convert .str v = .ok tv ↔ ∃ s, v = .str s ∧ tv = .str s) ∧
    ((∀ s, v ≠ .str s) → convert .str v = .error (.std .DataTypeError)) ∧
    (∀ e, convert .str v = .error e → e = .std .DataTypeError) := by
  cases v <;> simp [convert, eq_comm]

/-- **Blocks byte for byte.**  `convert .bytes v` succeeds iff `v` is a definite-length
block, and delivers exactly its bytes; every other kind of data is -104. -/
theorem convert_bytes_bytes (v : Value) (tv : TVal) :
    (convert .bytes v = .ok tv ↔ ∃ s, v = .arb s ∧ tv = .bytes s) ∧
    ((∀ s, v ≠ .arb s) → convert .bytes v = .error (.std .DataTypeError)) ∧
    (∀ e, convert .bytes v = .error e → e = .std .DataTypeError) := by
  cases v <;> simp [convert, eq_comm]

example : convert .str (.str [34, 0, 255, 10]) = .ok (.str [34, 0, 255, 10]) := rfl
example : convert .bytes (.arb [0, 10, 255]) = .ok (.bytes [0, 10, 255]) := rfl
example : convert .str (.chars [65]) = .error (.std .DataTypeError) := rfl
example : convert .bytes (.str [65]) = .error (.std .DataTypeError) := rfl

/-! ## T3.3 — floats: what `convert` does -/

/-- `convert .f64`: decimal program data is handed to `str::parse::<f64>`
(`parseFloat fmt64`); its result is delivered unchanged; unparsable text is -120; any
other kind of data is -104. -/
theorem convert_f64_iff (v : Value) (tv : TVal) :
    (convert .f64 v = .ok tv ↔ ∃ s b, v = .dec s ∧ parseFloat fmt64 s = some b ∧ tv = .f64 b) ∧
    (∀ s, v = .dec s → parseFloat fmt64 s = none →
      convert .f64 v = .error (.std .NumericDataError)) ∧
    ((∀ s, v ≠ .dec s) → convert .f64 v = .error (.std .DataTypeError)) := by
  cases v <;> simp [convert, convertFloat]
  rename_i s
  cases parseFloat fmt64 s <;> simp [eq_comm]

theorem convert_f32_iff (v : Value) (tv : TVal) :
    (convert .f32 v = .ok tv ↔ ∃ s b, v = .dec s ∧ parseFloat fmt32 s = some b ∧ tv = .f32 b) ∧
    (∀ s, v = .dec s → parseFloat fmt32 s = none →
      convert .f32 v = .error (.std .NumericDataError)) ∧
    ((∀ s, v ≠ .dec s) → convert .f32 v = .error (.std .DataTypeError)) := by
  cases v <;> simp [convert, convertFloat]
  rename_i s
  cases parseFloat fmt32 s <;> simp [eq_comm]

/-- The form asked for: on decimal data, `convert` IS `parseFloat`. -/
theorem convert_f64_dec (s : Bytes) (b : Nat) :
    convert .f64 (.dec s) = .ok (.f64 b) ↔ parseFloat fmt64 s = some b := by
  rw [(convert_f64_iff _ _).1]; simp

theorem convert_f32_dec (s : Bytes) (b : Nat) :
    convert .f32 (.dec s) = .ok (.f32 b) ↔ parseFloat fmt32 s = some b := by
  rw [(convert_f32_iff _ _).1]; simp

end C03
end Scpi
