/-
C06, streaming half — "Every later message is executed exactly as if the faulty
message had never been sent, both when the messages are passed to run in one buffer
and when they arrive through process."

The half for `run` is `C06.later_messages_unaffected_closed`.  Here the same is shown
for the byte-at-a-time stream machine (`Scpi/Spec/Stream.lean`) and, through
`C07.process_refines_stream`, for `Interface::process::<N, _>` over every fault-free
read schedule.

A message — or several — is any byte string `m` that
* ends with a newline,
* fits in the `n`-byte command buffer (`m.length ≤ n`), and
* is consumed entirely by `run` (`rest = []`: no string or block is left open).
It may be faulty in any way (syntax error, undefined header, …: the errors go to
`I.onError`, i.e. into the user state) and it may contain newlines inside string or
block payloads.  After `m` the machine has nothing pending and its header path is the
root, so the only things that survive are the user state and the writes already made:
the bytes after `m` are processed exactly as a fresh `process` call would process them
on the user state `m` left.

Overflow (`stream_overflow_isolation`): an unfinished message that fills the command
buffer is forgotten completely, so the discarded bytes never influence what follows.

All theorems hold for every interface (tree, handlers, error handler); taking
`I.traced`/`I.logged` for `I` makes "which handlers ran with which parameters and
which errors were reported" part of the user state.
-/
import Scpi.Proofs.ResumeStream
import Scpi.Props.C07

namespace Scpi
namespace C06

/-- **T6.3 (stream machine, from any state between messages).**  If the machine has
nothing pending and its path is the root, then after a newline-terminated `m` that fits
in the buffer and that `run` consumes entirely (whatever writer and user state are used
for this check: the position does not depend on them) it is between messages again, and
any continuation `y` is processed as from the initial state with the user state `m`
left, the writes of `m` staying in front. -/
theorem stream_isolation_from {σ : Type} (I : Iface σ) (n : Nat) (m : Bytes) (st : SpecState σ)
    (w₀ : Writer) (s₀ : σ)
    (hm : m.getLast? = some 10) (hfit : m.length ≤ n) (hc : (run I m w₀ s₀).rest = [])
    (hp : st.pending = []) (hh : st.header = I.root) :
    (m.foldl (streamSpec I n) st).pending = [] ∧ (m.foldl (streamSpec I n) st).header = I.root ∧
    ∀ y, (m ++ y).foldl (streamSpec I n) st =
      (streamRun I n y (m.foldl (streamSpec I n) st).user).addOut
        (m.foldl (streamSpec I n) st).out := by
  obtain ⟨h1, h2⟩ := stream_closed I n m st w₀ s₀ hm hfit hc hp hh
  refine ⟨h1, h2, fun y => ?_⟩
  have e : m.foldl (streamSpec I n) st =
      (streamInit I (m.foldl (streamSpec I n) st).user).addOut
        (m.foldl (streamSpec I n) st).out := by
    cases hst : m.foldl (streamSpec I n) st with
    | mk p h u o =>
      rw [hst] at h1 h2
      simp only [] at h1 h2
      subst h1 h2
      simp [streamInit, SpecState.addOut]
  rw [List.foldl_append, e, foldl_spec_addOut]
  simp only [SpecState.addOut, streamInit, List.append_nil]
  rfl

/-- **T6.3 (stream machine).**  Let `m` end with a newline, fit in the buffer and be
consumed entirely by `run` — a complete message or several, FAULTY OR NOT.  Then for
every continuation `y` the stream `m ++ y` is processed as `m` followed by a fresh
start on `y` with the user state `m` left:
* the machine is between messages after `m` (nothing pending, path at the root);
* the final user state is that of `y` run from the user state after `m`;
* the writes and flushes are those of `m` followed by those of `y`;
* what is pending at the end and the final path are those of `y` alone.
So every message in `y` selects its handler, gets its parameters and reports its
errors exactly as if `m` had never been sent, except for what `m` did to the user's
state. -/
theorem stream_isolation {σ : Type} (I : Iface σ) (n : Nat) (m : Bytes) (s : σ)
    (hm : m.getLast? = some 10) (hfit : m.length ≤ n)
    (hc : (run I m { cap := some n } s).rest = []) :
    (streamRun I n m s).pending = [] ∧ (streamRun I n m s).header = I.root ∧
    ∀ y,
      (streamRun I n (m ++ y) s).user = (streamRun I n y (streamRun I n m s).user).user ∧
      (streamRun I n (m ++ y) s).out =
        (streamRun I n m s).out ++ (streamRun I n y (streamRun I n m s).user).out ∧
      (streamRun I n (m ++ y) s).pending = (streamRun I n y (streamRun I n m s).user).pending ∧
      (streamRun I n (m ++ y) s).header = (streamRun I n y (streamRun I n m s).user).header := by
  obtain ⟨h1, h2, h3⟩ := stream_isolation_from I n m (streamInit I s) _ s hm hfit hc rfl rfl
  refine ⟨h1, h2, fun y => ?_⟩
  have := h3 y
  unfold streamRun at *
  rw [this]
  exact ⟨rfl, rfl, rfl, rfl⟩

/-- **T6.3 (`process`)**: the same for `Interface::process::<N, _>` under every
fault-free read schedule.  `sc` delivers `m ++ y` in any chunking, `scm` delivers `m`
and `scy` delivers `y` (in any chunkings): the final user state of `sc` is that of
`scy` started on the user state `scm` ends in, and the writes and flushes of `sc` are
those of `scm` followed by those of `scy`. -/
theorem process_isolation {σ : Type} (I : Iface σ) (n : Nat) (sc scm scy : Script) (s : σ)
    (hf : sc.fault = none) (hfm : scm.fault = none) (hfy : scy.fault = none)
    (hs : sc.stream = scm.stream ++ scy.stream)
    (hm : scm.stream.getLast? = some 10) (hfit : scm.stream.length ≤ n)
    (hc : (run I scm.stream { cap := some n } s).rest = []) :
    (process I n sc s).user = (process I n scy (process I n scm s).user).user ∧
    (process I n sc s).trace.filter PEv.nonRead =
      (process I n scm s).trace.filter PEv.nonRead ++
      (process I n scy (process I n scm s).user).trace.filter PEv.nonRead := by
  have hn : 1 ≤ n := by
    cases hl : scm.stream with
    | nil => rw [hl] at hm; cases hm
    | cons b t => rw [hl] at hfit; simp only [List.length_cons] at hfit; omega
  obtain ⟨a, b, _, _⟩ := C07.process_refines_stream I n sc s hn hf
  obtain ⟨am, bm, _, _⟩ := C07.process_refines_stream I n scm s hn hfm
  obtain ⟨ay, bY, _, _⟩ := C07.process_refines_stream I n scy (process I n scm s).user hn hfy
  obtain ⟨_, _, h⟩ := stream_isolation I n scm.stream s hm hfit hc
  obtain ⟨h1, h2, _, _⟩ := h scy.stream
  rw [a, b, am, ay, bY, bm, hs, h1, h2]
  exact ⟨rfl, rfl⟩

/-! ## Overflow -/

/-- **One byte too many.**  When the byte just received makes the pending bytes fill the
buffer, the machine forgets them and the path: only the user state and the writes are
left, whatever the bytes were. -/
theorem stream_overflow_forgets {σ : Type} (I : Iface σ) (n : Nat) (st : SpecState σ) (b : Nat)
    (h : n ≤ (streamFeed I n st b).pending.length) :
    streamSpec I n st b = ⟨[], I.root, (streamFeed I n st b).user, (streamFeed I n st b).out⟩ :=
  streamSpec_overflow I n st b h

/-- **T6.4 (overflow isolation, stream machine).**  `n` bytes without a newline — an
unfinished message that fills the command buffer — sent between messages are thrown
away without trace: the rest of the stream is processed as if they had never been
sent.  In particular two different over-long junk prefixes give the same behaviour. -/
theorem stream_overflow_isolation {σ : Type} (I : Iface σ) (n : Nat) (j y : Bytes) (s : σ)
    (hn : 1 ≤ n) (hj : ∀ b ∈ j, b ≠ 10) (hlen : j.length = n) :
    streamRun I n (j ++ y) s = streamRun I n y s := by
  unfold streamRun
  rw [List.foldl_append, stream_junk I n j (streamInit I s) hj (by simpa [streamInit] using hlen)
    (by intro h; subst h; simp at hlen; omega)]
  rfl

/-- The same after a complete message `m` (faulty or not) and with bytes already
pending: whenever the newline-free bytes `j` bring the pending bytes to exactly `n`, the
machine is in the initial state again except for user state and writes. -/
theorem stream_overflow_isolation_from {σ : Type} (I : Iface σ) (n : Nat) (j : Bytes)
    (st : SpecState σ) (hj : ∀ b ∈ j, b ≠ 10) (hlen : st.pending.length + j.length = n)
    (hne : j ≠ []) (y : Bytes) :
    (j ++ y).foldl (streamSpec I n) st = y.foldl (streamSpec I n) ⟨[], I.root, st.user, st.out⟩ := by
  rw [List.foldl_append, stream_junk I n j st hj hlen hne]

/-- **T6.4 (`process`)**: under every fault-free read schedule, a stream that starts with
`n` newline-free bytes is processed — same writes, same flushes, same final user
state — like the stream without them. -/
theorem process_overflow_isolation {σ : Type} (I : Iface σ) (n : Nat) (sc scy : Script) (j : Bytes)
    (s : σ) (hn : 1 ≤ n) (hf : sc.fault = none) (hfy : scy.fault = none)
    (hs : sc.stream = j ++ scy.stream) (hj : ∀ b ∈ j, b ≠ 10) (hlen : j.length = n) :
    (process I n sc s).user = (process I n scy s).user ∧
    (process I n sc s).trace.filter PEv.nonRead = (process I n scy s).trace.filter PEv.nonRead := by
  obtain ⟨a, b, _, _⟩ := C07.process_refines_stream I n sc s hn hf
  obtain ⟨ay, bY, _, _⟩ := C07.process_refines_stream I n scy s hn hfy
  rw [a, b, ay, bY, hs, stream_overflow_isolation I n j scy.stream s hn hj hlen]
  exact ⟨rfl, rfl⟩

/-! ## Non-vacuity -/

/-- The example interface of C07 (`Q?` answers `7`; the user state logs handler calls as
`none` and reported errors as `some e`).  `X⏎` is a faulty message (undefined header),
`Q?⏎` a good one. -/
def exFaulty : Bytes := [88, 10]
def exGood : Bytes := [81, 63, 10]

/-- The hypotheses of `stream_isolation` hold for the faulty message `X⏎` and `n = 4`. -/
example : exFaulty.getLast? = some 10 ∧ exFaulty.length ≤ 4 ∧
    (run C07.exI exFaulty { cap := some 4 } []).rest = [] := by decide +kernel

/-- The faulty message reports one error … -/
example : (streamRun C07.exI 4 exFaulty []).user = [some (.std .UndefinedHeader)] ∧
    (streamRun C07.exI 4 exFaulty []).out = [] := by decide +kernel

/-- … and the message after it runs as it would on its own on that user state. -/
example : (streamRun C07.exI 4 (exFaulty ++ exGood) []).user = [some (.std .UndefinedHeader), none] ∧
    (streamRun C07.exI 4 exGood [some (.std .UndefinedHeader)]).user
      = [some (.std .UndefinedHeader), none] ∧
    (streamRun C07.exI 4 (exFaulty ++ exGood) []).out = [.w [55, 10], .f] := by decide +kernel

def exBoth : Script := { stream := exFaulty ++ exGood, sizes := [1, 3, 1] }
def exFirst : Script := { stream := exFaulty, sizes := [2] }
def exSecond : Script := { stream := exGood, sizes := [1, 1, 1] }

/-- An instance of `process_isolation`. -/
example : (process C07.exI 4 exBoth []).user =
    (process C07.exI 4 exSecond (process C07.exI 4 exFirst []).user).user :=
  (process_isolation C07.exI 4 exBoth exFirst exSecond [] rfl rfl rfl rfl (by decide) (by decide)
    (by decide +kernel)).1

/-- … whose two sides are this value. -/
example : (process C07.exI 4 exBoth []).user = [some (.std .UndefinedHeader), none] := by
  decide +kernel

/-- The premise `rest = []` of `stream_isolation` cannot be dropped: `m = Q? "⏎` ends with a
newline and fits, but leaves a string open; the continuation `y = "⏎` then closes the string
(one parameter too many for `Q?`) instead of being the faulty message it is on its own. -/
example : (run C07.exI [81, 63, 32, 34, 10] { cap := some 8 } []).rest ≠ [] ∧
    (streamRun C07.exI 8 ([81, 63, 32, 34, 10] ++ [34, 10]) []).user
      = [some (.std .UnexpectedNumberOfParameters)] ∧
    (streamRun C07.exI 8 [34, 10] (streamRun C07.exI 8 [81, 63, 32, 34, 10] []).user).user
      = [some (.std .UndefinedHeader)] := by decide +kernel

/-- Overflow: four junk bytes fill the 4-byte buffer and are forgotten; `Q?⏎` after them
answers as usual (an instance of `stream_overflow_isolation`, and its value). -/
example : streamRun C07.exI 4 ([120, 121, 122, 119] ++ exGood) [] = streamRun C07.exI 4 exGood [] :=
  stream_overflow_isolation C07.exI 4 [120, 121, 122, 119] exGood [] (by decide) (by decide) rfl

example : (streamRun C07.exI 4 ([120, 121, 122, 119] ++ exGood) []).user = [none] ∧
    (streamRun C07.exI 4 ([120, 121, 122, 119] ++ exGood) []).out = [.w [55, 10], .f] := by
  decide +kernel

/-- The length premise of `stream_isolation` is needed: the complete message `Q?  ⏎` does
not fit in a 4-byte buffer; its first four bytes are discarded and the fifth, the
newline, is then an empty message — the handler that `run` invokes is never called. -/
example : (run C07.exI [81, 63, 32, 32, 10] { cap := some 4 } []).rest = [] ∧
    (run C07.exI [81, 63, 32, 32, 10] { cap := some 4 } []).s = [none] ∧
    (streamRun C07.exI 4 [81, 63, 32, 32, 10] []).user = [] := by decide +kernel

end C06
end Scpi
