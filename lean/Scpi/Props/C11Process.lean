/-
C08 + C11 — `process` on well-formed traffic whose string and block payloads may contain
NEWLINES is given by the byte-free specification, under every chunking.

`Scpi.C07.process_render` (Scpi/Props/C07Render.lean) needs payloads without newline,
because `process` calls the interpreter at every byte 10.  Here that condition is
dropped: `Scpi.C08.process_payload_messages` (resumption at an unfinished unit) is
combined with the message-level refinement `Scpi.Msg.run_render`.

Specification (`Scpi.Combo.specSession`, Scpi/Proofs/ComboSession.lean):

    specSession I []           w s = (w, s)
    specSession I (us :: rest) w s = let (w', s') := specExec I I.root us w s
                                     specSession I rest w' s'

on the UNBOUNDED writer `{ cap := none }`; the observables are the final user state and
the BYTES handed to `adapter.write` (`outBytes`: the concatenation of the writes — how
they are split into writes depends on where the embedded newlines are, see the last
example of Scpi/Props/C07Render.lean).

Hypotheses:
* every message is `Renderable I.root n`: non-empty, `wfMsg`, fits the `n`-byte command
  buffer, and `dropSafe` from the root — a unit whose header does not resolve, and the
  units after it, have no newline in a payload (`Scpi.Msg.run_render_needs_dropSafe`
  shows that it is needed already for `run`); it holds when every header resolves;
* `RespFits I n`: the response of each message is at most `n` bytes (`process` has an
  `n`-byte response buffer per call of the interpreter; that some bound is needed:
  `Scpi.C08.exQ_response_bound_needed`).
-/
import Scpi.Proofs.ComboSession

namespace Scpi

namespace C08
open Msg Combo

/-- **`process` on rendered messages with arbitrary payloads.**  For every interface,
every `n ≥ 1`, every list of renderable messages in any white space / CR LF / letter
case, whose responses fit, and EVERY fault-free read schedule delivering the
concatenated renderings (cut inside payloads, at embedded newlines, anywhere): the
final user state is that of `specSession` on the unit lists and the bytes written are
the bytes `specSession` writes. -/
theorem process_render_payload {σ : Type} (I : Iface σ) (n : Nat)
    (ms : List (List (MsgUnit × Lex))) (sc : Script) (s : σ) (hn : 1 ≤ n) (hf : sc.fault = none)
    (hs : sc.stream = (ms.map renderMsg).flatten) (hm : ∀ m ∈ ms, Renderable I.root n m)
    (hr : RespFits I n (ms.map units) { cap := none } s) :
    (process I n sc s).user = (specSession I (ms.map units) { cap := none } s).2 ∧
    outBytes ((process I n sc s).trace.filter PEv.nonRead) =
      (specSession I (ms.map units) { cap := none } s).1.buf := by
  obtain ⟨a, b⟩ := process_payload_messages I n sc (ms.map renderMsg) s hn hf hs
    (session_render I n ms _ s hm hr)
  rw [a, b, hs, run_session_render I n ms _ s hm]
  exact ⟨rfl, rfl⟩

/-- **Observably**: the same with the tracing wrapper.  The log of handler invocations
(with the converted parameters — for strings and blocks the payload verbatim) and of
reported errors that `process` produces under any chunking is the log of the
specification; the first component of the user state is the final state of the
un-instrumented specification.  (Hypotheses about `I` only.) -/
theorem process_render_payload_traced {σ : Type} (I : Iface σ) (n : Nat)
    (ms : List (List (MsgUnit × Lex))) (sc : Script) (s : σ) (hn : 1 ≤ n) (hf : sc.fault = none)
    (hs : sc.stream = (ms.map renderMsg).flatten) (hm : ∀ m ∈ ms, Renderable I.root n m)
    (hr : RespFits I n (ms.map units) { cap := none } s) :
    (process I.traced n sc (s, [])).user.2 =
      (specSession I.traced (ms.map units) { cap := none } (s, [])).2.2 ∧
    (process I.traced n sc (s, [])).user.1 = (specSession I (ms.map units) { cap := none } s).2 ∧
    outBytes ((process I.traced n sc (s, [])).trace.filter PEv.nonRead) =
      (specSession I (ms.map units) { cap := none } s).1.buf := by
  have hm' : ∀ m ∈ ms, Renderable I.traced.root n m := hm
  obtain ⟨a, b⟩ := process_payload_messages I.traced n sc (ms.map renderMsg) (s, []) hn hf hs
    (session_traced I n _ _ s [] (session_render I n ms _ s hm hr))
  have e : run I.traced sc.stream { cap := none } (s, []) =
      (run I sc.stream { cap := none } s).withLog ([] ++ runLog I _ _ I.root sc.stream { cap := none } s) :=
    runFrom_instrument I _ _ I.root sc.stream { cap := none } s []
  refine ⟨?_, ?_, ?_⟩
  · rw [a, hs, run_session_render I.traced n ms _ _ hm']
    rfl
  · rw [a, e, hs, run_session_render I n ms _ s hm]
    rfl
  · rw [b, e, hs, run_session_render I n ms _ s hm]
    rfl

end C08

namespace C11
open Msg Combo

/-- **Lexical choices and chunking are jointly irrelevant, newlines in payloads
included.**  Two renderings of the same messages with different white space (CR LF or
LF, …), each fitting the buffer, the responses fitting, through ANY two fault-free read
schedules: the same final user state and the same bytes written. -/
theorem process_payload_lex_irrelevant {σ : Type} (I : Iface σ) (n : Nat)
    (ms₁ ms₂ : List (List (MsgUnit × Lex))) (sc₁ sc₂ : Script) (s : σ) (hn : 1 ≤ n)
    (hf₁ : sc₁.fault = none) (hf₂ : sc₂.fault = none)
    (hs₁ : sc₁.stream = (ms₁.map renderMsg).flatten) (hs₂ : sc₂.stream = (ms₂.map renderMsg).flatten)
    (hm₁ : ∀ m ∈ ms₁, Renderable I.root n m) (hm₂ : ∀ m ∈ ms₂, Renderable I.root n m)
    (hu : ms₁.map units = ms₂.map units)
    (hr : RespFits I n (ms₁.map units) { cap := none } s) :
    (process I n sc₁ s).user = (process I n sc₂ s).user ∧
    outBytes ((process I n sc₁ s).trace.filter PEv.nonRead) =
      outBytes ((process I n sc₂ s).trace.filter PEv.nonRead) := by
  obtain ⟨a₁, b₁⟩ := C08.process_render_payload I n ms₁ sc₁ s hn hf₁ hs₁ hm₁ hr
  obtain ⟨a₂, b₂⟩ := C08.process_render_payload I n ms₂ sc₂ s hn hf₂ hs₂ hm₂ (hu ▸ hr)
  rw [a₁, a₂, b₁, b₂, hu]
  exact ⟨rfl, rfl⟩

end C11

/-! ### Non-vacuity

The demo interface of Scpi/Props/RunRender.lean and its message
`x?;s:p "a;b,⏎",#14;,⏎⏎ ; b ⏎` (three embedded newlines), followed by `s:a;b;:x;*c⏎`. -/

namespace C08
open Msg Combo

def exMsgs : List (List (MsgUnit × Lex)) := [Msg.Demo.msg4, Msg.Demo.msg1]

example : (exMsgs.map renderMsg).flatten =
    [120, 63, 59, 32, 115, 58, 112, 9, 34, 97, 59, 98, 44, 10, 34, 32, 44, 32, 35, 49, 52, 59, 44,
     10, 10, 32, 9, 59, 32, 98, 9, 32, 9, 10,
     115, 58, 97, 59, 98, 59, 58, 120, 59, 42, 99, 10] := by decide

theorem exMsgs_ok : (∀ m ∈ exMsgs, Renderable Msg.Demo.I.root 34 m) ∧
    RespFits Msg.Demo.I 34 (exMsgs.map units) { cap := none } [] := by
  refine ⟨?_, ⟨by decide, by decide, trivial⟩⟩
  intro m hm
  simp only [exMsgs, List.mem_cons, List.not_mem_nil, or_false] at hm
  rcases hm with rfl | rfl <;> exact ⟨by decide, by decide, by decide, by decide⟩

/-- What the specification says: the query, the handler with both payloads verbatim, `b`,
then the four handlers of the second message; the bytes `7⏎`. -/
example : (specSession Msg.Demo.I (exMsgs.map units) { cap := none } []).1.buf = [55, 10] ∧
    (specSession Msg.Demo.I (exMsgs.map units) { cap := none } []).2 =
      [(4, []), (5, [.str [97, 59, 98, 44, 10], .bytes [59, 44, 10, 10]]), (2, []),
       (1, []), (2, []), (0, []), (3, [])] := by decide

/-- A schedule that cuts at the first embedded newline, inside the block, … -/
def exCuts : Script := { stream := (exMsgs.map renderMsg).flatten, sizes := [14, 9, 1, 0, 7, 100] }

/-- The theorem, instantiated … -/
example : (process Msg.Demo.I 34 exCuts []).user =
    (specSession Msg.Demo.I (exMsgs.map units) { cap := none } []).2 :=
  (process_render_payload Msg.Demo.I 34 exMsgs exCuts [] (by decide) rfl rfl exMsgs_ok.1 exMsgs_ok.2).1

/-- … and `process` computed independently of it. -/
example : (process Msg.Demo.I 34 exCuts []).user =
      [(4, []), (5, [.str [97, 59, 98, 44, 10], .bytes [59, 44, 10, 10]]), (2, []),
       (1, []), (2, []), (0, []), (3, [])] ∧
    outBytes ((process Msg.Demo.I 34 exCuts []).trace.filter PEv.nonRead) = [55, 10] := by
  decide +kernel

end C08
end Scpi
