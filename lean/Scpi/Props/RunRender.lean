/-
The message-level refinement theorem: what a whole well-formed program MESSAGE means.

Specification (Scpi/Spec/MsgAst.lean, namespace `Scpi.Msg`; ~60 lines, no bytes, no
white space, no parser):

    specExec I cur []        w s = (w, s)
    specExec I cur (u :: us) w s =
      match resolve I.root cur u.hdr.path with
      | none                => (w, I.onError s UndefinedHeader)        -- rest of the message dropped
      | some (node, parent) =>
        let (w', s') := specUnit I node u.hdr.query (u.lits.map Lit.value) w s
        specExec I (parent.getD cur) us w' s'

`resolve` is the SCPI path rule (absolute ⇒ from the root, relative ⇒ from `cur`,
common ⇒ child `*NAME` of the root, no new path), `specUnit` is one unit on its node
(slot by `?`, arity, conversion left to right, handler, response; one `onError` for
whichever of these fails).

Main theorem `run_render`: for every interface `I` (every tree, all handlers, every
error handler), every rendering `renderMsg m` of a non-empty list of well-formed units
(any white space where the syntax allows it, CR LF, any letter case, any payloads),
every writer, user state, current path `cur` and ANY continuation `rest`:

    runFrom I cur (renderMsg m ++ rest) w s = runFrom I I.root rest w' s'
        where (w', s') = specExec I cur (units m) w s

under ONE side condition, `dropSafe I.root cur (units m)`: if some header does not
resolve, then that unit and the units after it contain no newline inside a string or
block payload.  The condition cannot be dropped (`run_render_needs_dropSafe`): after
an undefined header the interpreter skips to the first BYTE 10, not to the message
terminator.  It holds in particular when every header resolves
(`run_render_resolving`: no condition on payloads at all) and when no payload
contains a newline (`run_render_nlFree`: no condition on headers at all).

`run_render_open` is the same theorem for the message whose last unit is followed by
`;` (`X;⏎`) and for the empty message (white space and newline).

What is NOT covered: messages with units that are not well-formed (syntax errors:
`Scpi.C06`, `Scpi.C07`), strings with doubled quotes (the AST `Lit.str` has payloads
without the quote character), more than ten parameters.

Proofs: Scpi/Proofs/MsgUnit.lean, MsgNewline.lean, MsgRun.lean (on top of
`Scpi.C11.parse_render` and the one-step equations of `runFrom`).
Corollaries for C01, C02, C03, C08, C11: Scpi/Props/RunRenderCor.lean.
-/
import Scpi.Proofs.MsgRun
import Scpi.Props.C11

namespace Scpi
namespace Msg

/-! ## The theorem -/

/-- **Message-level refinement.**  Running the interpreter on any rendering of a
message, followed by anything, is: do what `specExec` says, then run on what follows
FROM THE ROOT. -/
theorem run_render {σ : Type} (I : Iface σ) (m : List (MsgUnit × Lex)) (cur : Node) (rest : Bytes)
    (w : Writer) (s : σ) (hne : m ≠ []) (hwf : wfMsg m = true)
    (hsafe : dropSafe I.root cur (units m) = true) :
    runFrom I cur (renderMsg m ++ rest) w s =
      runFrom I I.root rest (specExec I cur (units m) w s).1 (specExec I cur (units m) w s).2 :=
  run_renderMsg I m cur rest w s hne hwf hsafe

/-- **A whole message on its own**: everything is consumed, the path is back at the
root, nothing crashed, and writer and user state are those of `specExec`. -/
theorem run_render_run {σ : Type} (I : Iface σ) (m : List (MsgUnit × Lex)) (w : Writer) (s : σ)
    (hne : m ≠ []) (hwf : wfMsg m = true) (hsafe : dropSafe I.root I.root (units m) = true) :
    run I (renderMsg m) w s =
      { rest := [], header := I.root, w := (specExec I I.root (units m) w s).1,
        s := (specExec I I.root (units m) w s).2, crash := none } := by
  have := run_render I m I.root [] w s hne hwf hsafe
  rw [List.append_nil, runFrom_nil] at this
  exact this

/-- The message with a `;` after its last unit, and the empty message (`m = []`). -/
theorem run_render_open {σ : Type} (I : Iface σ) (m : List (MsgUnit × Lex)) (ws : Bytes) (cur : Node)
    (rest : Bytes) (w : Writer) (s : σ) (hwf : wfMsg m = true) (hws : allWs ws = true)
    (hsafe : dropSafe I.root cur (units m) = true) :
    runFrom I cur (renderOpen m ws ++ rest) w s =
      runFrom I I.root rest (specExec I cur (units m) w s).1 (specExec I cur (units m) w s).2 :=
  run_renderOpen I m ws cur rest w s hwf hws hsafe

/-- The empty message does nothing (but resets the path). -/
theorem run_render_empty {σ : Type} (I : Iface σ) (ws : Bytes) (cur : Node) (rest : Bytes)
    (w : Writer) (s : σ) (hws : allWs ws = true) :
    runFrom I cur (ws ++ 10 :: rest) w s = runFrom I I.root rest w s :=
  runFrom_blank I cur ws rest w s hws

/-- **All headers resolve**: no condition on the payloads — strings and blocks may
contain newlines, semicolons, commas. -/
theorem run_render_resolving {σ : Type} (I : Iface σ) (m : List (MsgUnit × Lex)) (cur : Node)
    (rest : Bytes) (w : Writer) (s : σ) (hne : m ≠ []) (hwf : wfMsg m = true)
    (hres : allResolve I.root cur (units m) = true) :
    runFrom I cur (renderMsg m ++ rest) w s =
      runFrom I I.root rest (specExec I cur (units m) w s).1 (specExec I cur (units m) w s).2 :=
  run_render I m cur rest w s hne hwf (dropSafe_of_allResolve I.root cur _ hres)

/-- **No newline in any payload**: no condition on the headers — the first one that
does not resolve costs one `UndefinedHeader` and the rest of the message is dropped. -/
theorem run_render_nlFree {σ : Type} (I : Iface σ) (m : List (MsgUnit × Lex)) (cur : Node)
    (rest : Bytes) (w : Writer) (s : σ) (hne : m ≠ []) (hwf : wfMsg m = true)
    (hfree : (units m).all unitNlFree = true) :
    runFrom I cur (renderMsg m ++ rest) w s =
      runFrom I I.root rest (specExec I cur (units m) w s).1 (specExec I cur (units m) w s).2 :=
  run_render I m cur rest w s hne hwf (dropSafe_of_nlFree I.root cur _ hfree)

/-- The failing case on its own: the first unit's header does not resolve; it and the
units after it are free of newlines.  One error, nothing executed, nothing written,
and the run goes on behind the message terminator. -/
theorem run_render_undefined {σ : Type} (I : Iface σ) (u : MsgUnit) (ℓ : Lex)
    (m : List (MsgUnit × Lex)) (cur : Node) (rest : Bytes) (w : Writer) (s : σ)
    (hwf : wfMsg ((u, ℓ) :: m) = true) (hr : resolve I.root cur u.hdr.path = none)
    (hfree : (u :: units m).all unitNlFree = true) :
    runFrom I cur (renderMsg ((u, ℓ) :: m) ++ rest) w s =
      runFrom I I.root rest w (I.onError s (.std .UndefinedHeader)) := by
  have hd : dropSafe I.root cur (units ((u, ℓ) :: m)) = true := by
    simp only [units, List.map_cons, dropSafe, hr]
    exact hfree
  have := run_render I ((u, ℓ) :: m) cur rest w s (by simp) hwf hd
  simpa only [units, List.map_cons, specExec, hr] using this

/-! ## `specUnit` and the model's `execute` -/

/-- `specUnit` is the model's `execute` followed by the error report of the loop. -/
theorem specUnit_is_execute {σ : Type} (I : Iface σ) (call : CommandCall) (w : Writer) (s : σ) :
    specUnit I call.node call.query call.args w s =
      ((execute I call w s).2.1,
       match (execute I call w s).2.2 with
       | .err e => I.onError (execute I call w s).1 e
       | _ => (execute I call w s).1) := by
  rw [specUnit_eq_execute]
  cases (execute I call w s).2.2 <;> rfl

/-! ## Non-vacuity: a tiny interface

Tree `X` (command 0, query 4: answers 7), `S:A` (1), `S:B` (2), `S:P <string>,<block>`
(5), `*C` (3).  Every handler appends its number and the parameters it received to the
user state; the error handler appends 99. -/

namespace Demo

def nS : Node :=
  .mk 2 [([65], .mk 3 [] (some 1) none), ([66], .mk 4 [] (some 2) none),
         ([80], .mk 6 [] (some 5) none)] none none

def tree : Node :=
  .mk 0 [([88], .mk 1 [] (some 0) (some 4)), ([83], nS), ([42, 67], .mk 5 [] (some 3) none)]
    none none

def log (n : Nat) (tys : List Ty) : Cmd (List (Nat × List TVal)) :=
  { argTys := tys, handler := fun s tvs => (s ++ [(n, tvs)], .ok .unit) }

def I : Iface (List (Nat × List TVal)) :=
  { root := tree
    cmds := [log 0 [], log 1 [], log 2 [], log 3 [],
             { argTys := [], handler := fun s _ => (s ++ [(4, [])], .ok (.int 7)) },
             log 5 [.str, .bytes]]
    onError := fun s _ => s ++ [(99, [])] }

def W : Writer := { cap := none }

def unit (p : HdrPath) : MsgUnit := { hdr := { path := p, query := false }, lits := [] }

/-- The units of `s:a ; b ; :x ; *c`. -/
def uA : MsgUnit := unit (.compound false [[115], [97]])
def uB : MsgUnit := unit (.compound false [[98]])
def uX : MsgUnit := unit (.compound true [[120]])
def uC : MsgUnit := unit (.common [99])

/-- No white space at all. -/
def tight : Lex := { lead := [], sep := [], commas := [], trail := [] }
/-- Blanks and tabs around everything. -/
def loose : Lex := { lead := [32], sep := [9], commas := [([32], [32])], trail := [32, 9] }
/-- … and a carriage return before the terminator. -/
def looseCR : Lex := { loose with trail := [32, 13] }

/-- `s:a;b;:x;*c⏎` -/
def msg1 : List (MsgUnit × Lex) := [(uA, tight), (uB, tight), (uX, tight), (uC, tight)]
/-- ` s:a\t \t; b\t \t; :x\t \t; *c\t \r⏎` -/
def msg2 : List (MsgUnit × Lex) := [(uA, loose), (uB, loose), (uX, loose), (uC, looseCR)]

example : renderMsg msg1 = [115, 58, 97, 59, 98, 59, 58, 120, 59, 42, 99, 10] := by decide
example : renderMsg msg2 =
    [32, 115, 58, 97, 9, 32, 9, 59, 32, 98, 9, 32, 9, 59, 32, 58, 120, 9, 32, 9, 59,
     32, 42, 99, 9, 32, 13, 10] := by decide

/-- The hypotheses of `run_render` hold for both renderings … -/
example : msg1 ≠ [] ∧ wfMsg msg1 = true ∧ wfMsg msg2 = true ∧ units msg1 = units msg2 ∧
    dropSafe I.root I.root (units msg1) = true ∧ allResolve I.root I.root (units msg1) = true := by
  decide

/-- … the specification says: handlers 1, 2, 0, 3 in this order, no error … -/
example : (specExec I I.root (units msg1) W []).2 = [(1, []), (2, []), (0, []), (3, [])] := by
  decide

/-- … and so does the interpreter on the bytes (computed independently of the theorem). -/
example : (run I (renderMsg msg1) W []).s = [(1, []), (2, []), (0, []), (3, [])] ∧
    (run I (renderMsg msg2) W []).s = [(1, []), (2, []), (0, []), (3, [])] ∧
    (run I (renderMsg msg2) W []).rest = [] ∧ (run I (renderMsg msg2) W []).header.tag = 0 := by
  decide

/-- The theorem, instantiated. -/
example : run I (renderMsg msg2) W [] =
    { rest := [], header := I.root, w := (specExec I I.root (units msg1) W []).1,
      s := (specExec I I.root (units msg1) W []).2, crash := none } :=
  run_render_run I msg2 W [] (by decide) (by decide) (by decide)

/-- `s:a;x;b⏎`: `x` is looked up under `S` — undefined; `b` is dropped. -/
def msg3 : List (MsgUnit × Lex) :=
  [(uA, tight), (unit (.compound false [[120]]), loose), (uB, tight)]

example : wfMsg msg3 = true ∧ dropSafe I.root I.root (units msg3) = true ∧
    allResolve I.root I.root (units msg3) = false ∧
    (specExec I I.root (units msg3) W []).2 = [(1, []), (99, [])] ∧
    (run I (renderMsg msg3) W []).s = [(1, []), (99, [])] := by decide

/-- `x?;s:p "a;b,⏎",#14;,⏎⏎ ; b ;⏎` — a query, payloads with every delimiter, and a
trailing semicolon (`renderOpen`). -/
def uQ : MsgUnit := { hdr := { path := .compound false [[120]], query := true }, lits := [] }
def uP : MsgUnit :=
  { hdr := { path := .compound false [[115], [112]], query := false },
    lits := [.str 34 [97, 59, 98, 44, 10], .block 1 [59, 44, 10, 10]] }

def msg4 : List (MsgUnit × Lex) := [(uQ, tight), (uP, loose), (uB, loose)]

example : wfMsg msg4 = true ∧ allResolve I.root I.root (units msg4) = true ∧
    (units msg4).all unitNlFree = false := by decide

example : (specExec I I.root (units msg4) W []).2 =
      [(4, []), (5, [.str [97, 59, 98, 44, 10], .bytes [59, 44, 10, 10]]), (2, [])] ∧
    (specExec I I.root (units msg4) W []).1.buf = [55, 10] := by decide

example : (run I (renderOpen msg4 [32]) W []).s =
      [(4, []), (5, [.str [97, 59, 98, 44, 10], .bytes [59, 44, 10, 10]]), (2, [])] ∧
    (run I (renderOpen msg4 [32]) W []).w.buf = [55, 10] ∧
    (run I (renderOpen msg4 [32]) W []).rest = [] := by decide

end Demo

/-- **The side condition is needed.**  `y "a⏎b"⏎` (an undefined header followed by a
well-formed string parameter that contains a newline): `specExec` reports one error;
the interpreter skips to the newline INSIDE the string and runs `b"⏎` as a message of
its own — a second error.  (The same finding as `Scpi.C06.newline_in_string_after_fault`.) -/
theorem run_render_needs_dropSafe :
    let u : MsgUnit := { hdr := { path := .compound false [[121]], query := false },
                         lits := [.str 34 [97, 10, 98]] }
    let m := [(u, Demo.loose)]
    wfMsg m = true ∧ dropSafe Demo.I.root Demo.I.root (units m) = false ∧
    (specExec Demo.I Demo.I.root (units m) Demo.W []).2 = [(99, [])] ∧
    (run Demo.I (renderMsg m) Demo.W []).s = [(99, []), (99, [])] := by
  decide

end Msg
end Scpi
