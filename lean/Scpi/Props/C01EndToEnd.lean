/-
C01, end to end — "a program header invokes a handler iff each of its mnemonics equals,
ignoring ASCII case, the short form or the long form of the corresponding declared
node, with optional nodes present or omitted and the query mark matching the
declaration; every such spelling invokes the same handler exactly once.  Any other
header invokes nothing and reports exactly one 'Undefined header' (-113) error.  The
standard SYSTem:VERSion?, SYSTem:ERRor[:NEXT]? and SYSTem:ERRor:COUNt? commands exist
exactly when they were requested in the attribute."

`Scpi/Props/C01Macro.lean` proves the statement for the tree the macro emits and the
walk `childWalk`; `Scpi/Props/C11.lean` proves that `parse`, on every rendering of a
well-formed unit, delivers the node `resolve` reaches (`parse_render`), and that
`resolve` is `childWalk` (`resolve_node`).  This file puts them together with the
dispatcher (`execute`, `run`):

  bytes of a message ──parse_render──▶ `resolve` ──resolve_node──▶ `childWalk` on the
  compiled tree ──invokes_iff──▶ declaration `i` ──execute──▶ `executeCommand I i []`.

Setting: `cmds` are the declarations (lower-case-free parts, e.g. parsed ones), `t` the
tree `insertAll emptyNode cmds 0` compiles, `I` ANY interface whose root is `t`
(arbitrary user state, handlers, error handler).  The message is one parameterless
unit with compound header `[:]n₁:n₂:…[?]` (`hdrUnit a ns q`), rendered with any
white space the syntax allows (`ℓ : Lex`) and terminated by newline.

* `header_dispatch`        a header that spells declaration `i` makes `run` do exactly
                           what the generated `execute_command` does for id `i`
                           (`execId`), once — whatever the spelling;
* `header_undefined`       a header that spells no declaration invokes nothing, writes
                           nothing, and the user state changes by exactly one
                           `onError (UndefinedHeader)`; the error log is `[-113]`;
* `header_dispatch_iff`    in terms of the tracing wrapper: handler `i` is invoked iff
                           the header spells declaration `i`;
* `header_invokes_once`    and then the trace is that one invocation, followed by the
                           error of the execution if there is one;
* `spelled_unique`         a header spells at most one declaration;
* `std_decls_iff`, `std_version_defined_iff`, `std_error_next_defined_iff`,
  `std_error_count_defined_iff`, `std_headers_defined_iff`
                           the standard commands exist exactly when requested.
-/
import Scpi.Proofs.E2EHeader
import Scpi.Props.C01Macro
import Scpi.Props.C06

namespace Scpi
namespace C01

open E2E C14

/-- The header with mnemonics `ns` and query mark `q` spells declaration `i`: the
declaration has kind `q` and every mnemonic equals, ignoring ASCII case, the short or
the long form of the corresponding declared node, optional nodes present or omitted. -/
def SpelledBy (cmds : List Command) (i : Nat) (ns : List Bytes) (q : Bool) : Prop :=
  ∃ c, cmds[i]? = some c ∧ c.query = q ∧ HeaderMatches c.parts ns

/-- Some declaration is spelled by the header: the header is defined. -/
def Defined (cmds : List Command) (ns : List Bytes) (q : Bool) : Prop :=
  ∃ i, SpelledBy cmds i ns q

theorem not_defined_iff (cmds : List Command) (ns : List Bytes) (q : Bool) :
    ¬ Defined cmds ns q ↔ ∀ c ∈ cmds, c.query = q → ¬ HeaderMatches c.parts ns := by
  constructor
  · intro h c hc hq hm
    obtain ⟨i, hi⟩ := List.getElem?_of_mem hc
    exact h ⟨i, c, hi, hq, hm⟩
  · rintro h ⟨i, c, hc, hq, hm⟩
    exact h c (List.mem_of_getElem? hc) hq hm

section
variable {σ : Type} (I : Iface σ) {cmds : List Command} {t : Node}

/-- The slot `resolve` reaches from the root is `some i` iff the header spells
declaration `i` (`parse_render` ∘ `resolve_node` ∘ `invokes_iff`). -/
theorem resolve_slot_iff (hcmds : ∀ c ∈ cmds, PartsLowerFree c)
    (ht : insertAll emptyNode cmds 0 = .ok t) (a : Bool) (ns : List Bytes) (q : Bool) (hne : ns ≠ [])
    (i : Nat) :
    (resolve t t (.compound a ns)).bind (fun nh => slot q nh.1) = some i ↔ SpelledBy cmds i ns q := by
  rw [resolve_root_slot t a ns q hne]
  exact invokes_iff hcmds ht ns q i

/-- **A header spells at most one declaration** (of the tree that compiled): "every
such spelling invokes the same handler". -/
theorem spelled_unique (hcmds : ∀ c ∈ cmds, PartsLowerFree c)
    (ht : insertAll emptyNode cmds 0 = .ok t) (ns : List Bytes) (q : Bool) (i j : Nat)
    (hi : SpelledBy cmds i ns q) (hj : SpelledBy cmds j ns q) : i = j := by
  have h1 := (invokes_iff hcmds ht ns q i).2 hi
  have h2 := (invokes_iff hcmds ht ns q j).2 hj
  rw [h1] at h2
  exact Option.some.inj h2

/-- **`header_dispatch`.**  If the header spells declaration `i`, then `run` on the
message — any letter case, short or long forms, optional nodes in or out, leading
colon or not, any permitted white space — does exactly what the generated
`execute_command` does for command id `i` with no parameters (`execId`: handler,
response, and for a query the newline and the flush), reports the error of that
execution if there is one (`reportExec`), consumes the whole message and leaves the
path at the root.  The right-hand side does not depend on the spelling. -/
theorem header_dispatch (hcmds : ∀ c ∈ cmds, PartsLowerFree c)
    (ht : insertAll emptyNode cmds 0 = .ok t) (hroot : I.root = t)
    (a : Bool) (ns : List Bytes) (q : Bool) (ℓ : Lex) (w : Writer) (s : σ)
    (hu : (hdrUnit a ns q).wf = true) (hℓ : ℓ.wf = true)
    (i : Nat) (hs : SpelledBy cmds i ns q) :
    run I (render (hdrUnit a ns q) ℓ .nl) w s =
      { rest := [], header := I.root, w := (execId I i q w s).2.1,
        s := reportExec I (execId I i q w s).1 (execId I i q w s).2.2 } := by
  subst hroot
  have hne := ((hdrUnit_wf_iff a ns q).1 hu).1
  have hslot := (resolve_slot_iff hcmds ht a ns q hne i).2 hs
  rw [run_hdrUnit I a ns q ℓ w s hu hℓ]
  cases hr : resolve I.root I.root (.compound a ns) with
  | none => rw [hr] at hslot; cases hslot
  | some nh =>
    rw [hr] at hslot
    simp only [Option.bind_some] at hslot
    simp only [execute_hdrCall_some I nh q i hslot]

/-- **`header_undefined`.**  If the header spells no declaration (of its kind), then
no handler is invoked, nothing is written (the writer is untouched), the user state
changes by exactly one `onError (UndefinedHeader)`, the message is consumed; the trace
is that single error report, and the error log of C06 is `[UndefinedHeader]` (−113,
`Scpi.C09.undefined_header_is_113`). -/
theorem header_undefined (hcmds : ∀ c ∈ cmds, PartsLowerFree c)
    (ht : insertAll emptyNode cmds 0 = .ok t) (hroot : I.root = t)
    (a : Bool) (ns : List Bytes) (q : Bool) (ℓ : Lex) (w : Writer) (s : σ)
    (hu : (hdrUnit a ns q).wf = true) (hℓ : ℓ.wf = true)
    (hno : ∀ c ∈ cmds, c.query = q → ¬ HeaderMatches c.parts ns) :
    run I (render (hdrUnit a ns q) ℓ .nl) w s =
      { rest := [], header := I.root, w := w, s := I.onError s (.std .UndefinedHeader) } ∧
    eventsOf I I.root (render (hdrUnit a ns q) ℓ .nl) w s = [Ev.error (.std .UndefinedHeader)] ∧
    (run I.logged (render (hdrUnit a ns q) ℓ .nl) w (s, [])).s.2 = [.std .UndefinedHeader] := by
  subst hroot
  have hne := ((hdrUnit_wf_iff a ns q).1 hu).1
  have hslot : (resolve I.root I.root (.compound a ns)).bind (fun nh => slot q nh.1) = none := by
    rw [resolve_root_slot I.root a ns q hne]
    exact no_match_no_handler hcmds ht ns q hno
  have hev : eventsOf I I.root (render (hdrUnit a ns q) ℓ .nl) w s =
      [Ev.error (.std .UndefinedHeader)] := by
    rw [events_hdrUnit I a ns q ℓ w s hu hℓ]
    cases hr : resolve I.root I.root (.compound a ns) with
    | none => rfl
    | some nh =>
      rw [hr] at hslot
      simp only [Option.bind_some] at hslot
      have hinv : invocation I (hdrCall nh q) = none := by
        unfold invocation
        rw [unitSlot_hdrCall, hslot]
      simp only [execute_hdrCall_none I nh q hslot, hinv, callLog, List.nil_append]
  refine ⟨?_, hev, ?_⟩
  · rw [run_hdrUnit I a ns q ℓ w s hu hℓ]
    cases hr : resolve I.root I.root (.compound a ns) with
    | none => rfl
    | some nh =>
      rw [hr] at hslot
      simp only [Option.bind_some] at hslot
      simp only [execute_hdrCall_none I nh q hslot, reportExec]
  · have := runFrom_logged I I.root (render (hdrUnit a ns q) ℓ .nl) w s []
    unfold run
    rw [show I.logged.root = I.root from rfl, this, ← eventsOf_errs, hev]
    rfl

/-- What the trace of a header-only message can contain as invocation: only the
handler whose declaration the header spells (for ANY interface on the compiled tree). -/
theorem invoked_only_if_spelled (hcmds : ∀ c ∈ cmds, PartsLowerFree c)
    (ht : insertAll emptyNode cmds 0 = .ok t) (hroot : I.root = t)
    (a : Bool) (ns : List Bytes) (q : Bool) (ℓ : Lex) (w : Writer) (s : σ)
    (hu : (hdrUnit a ns q).wf = true) (hℓ : ℓ.wf = true) (i : Nat) (tvs : List TVal)
    (hmem : Ev.call i tvs ∈ eventsOf I I.root (render (hdrUnit a ns q) ℓ .nl) w s) :
    SpelledBy cmds i ns q ∧ tvs = [] := by
  subst hroot
  have hne := ((hdrUnit_wf_iff a ns q).1 hu).1
  rw [events_hdrUnit I a ns q ℓ w s hu hℓ] at hmem
  cases hr : resolve I.root I.root (.compound a ns) with
  | none => rw [hr] at hmem; simp at hmem
  | some nh =>
    rw [hr] at hmem
    simp only [List.mem_append] at hmem
    rcases hmem with hmem | hmem
    · cases hinv : invocation I (hdrCall nh q) with
      | none => rw [hinv] at hmem; simp [callLog] at hmem
      | some p =>
        obtain ⟨j, tvs'⟩ := p
        rw [hinv] at hmem
        simp only [callLog, fcEv, List.mem_singleton, Ev.call.injEq] at hmem
        obtain ⟨rfl, rfl⟩ := hmem
        obtain ⟨c, _, hslot, hlen, hconv⟩ := invocation_some_cmd I _ _ _ hinv
        rw [unitSlot_hdrCall] at hslot
        refine ⟨(resolve_slot_iff hcmds ht a ns q hne i).1 (by rw [hr]; exact hslot), ?_⟩
        have h0 : c.argTys = [] := by
          have : c.argTys.length = 0 := by rw [← hlen]; rfl
          exact List.eq_nil_of_length_eq_zero this
        rw [h0] at hconv
        cases hconv
        rfl
    · split at hmem <;> simp at hmem

/-- **`header_invokes_once`.**  If the header spells declaration `i` and handler `i`
takes no parameters, the trace of the run is: the invocation of handler `i` — once —
followed by the error of the execution, if there is one (the handler's own error, or a
failure to write the response).  No other handler appears. -/
theorem header_invokes_once (hcmds : ∀ c ∈ cmds, PartsLowerFree c)
    (ht : insertAll emptyNode cmds 0 = .ok t) (hroot : I.root = t)
    (a : Bool) (ns : List Bytes) (q : Bool) (ℓ : Lex) (w : Writer) (s : σ)
    (hu : (hdrUnit a ns q).wf = true) (hℓ : ℓ.wf = true)
    (i : Nat) (hs : SpelledBy cmds i ns q) (ci : Cmd σ) (hci : I.cmds[i]? = some ci)
    (hty : ci.argTys = []) :
    eventsOf I I.root (render (hdrUnit a ns q) ℓ .nl) w s =
      Ev.call i [] ::
        (match (execId I i q w s).2.2 with
         | .err e => [Ev.error e]
         | _ => []) := by
  subst hroot
  have hne := ((hdrUnit_wf_iff a ns q).1 hu).1
  have hslot := (resolve_slot_iff hcmds ht a ns q hne i).2 hs
  rw [events_hdrUnit I a ns q ℓ w s hu hℓ]
  cases hr : resolve I.root I.root (.compound a ns) with
  | none => rw [hr] at hslot; cases hslot
  | some nh =>
    rw [hr] at hslot
    simp only [Option.bind_some] at hslot
    have hinv : invocation I (hdrCall nh q) = some (i, []) := by
      unfold invocation
      rw [unitSlot_hdrCall, hslot]
      simp only [hci, hdrCall, hty, List.length_nil, ne_eq, not_true_eq_false, if_false,
        convertArgs]
    simp only [execute_hdrCall_some I nh q i hslot, hinv, callLog, fcEv, List.singleton_append]
    rfl

/-- **`header_dispatch_iff`.**  For an interface on the compiled tree whose handler
`i` takes no parameters: the run on the message invokes handler `i` iff the header
spells declaration `i` — every mnemonic equal, ignoring ASCII case, to the short or the
long form of the corresponding declared node, optional nodes present or omitted, and
the query mark matching the kind of the declaration.  ("Invokes" is read off the trace
of the tracing wrapper, `Scpi.C09.events_are_the_trace`.) -/
theorem header_dispatch_iff (hcmds : ∀ c ∈ cmds, PartsLowerFree c)
    (ht : insertAll emptyNode cmds 0 = .ok t) (hroot : I.root = t)
    (a : Bool) (ns : List Bytes) (q : Bool) (ℓ : Lex) (w : Writer) (s : σ)
    (hu : (hdrUnit a ns q).wf = true) (hℓ : ℓ.wf = true)
    (i : Nat) (ci : Cmd σ) (hci : I.cmds[i]? = some ci) (hty : ci.argTys = []) :
    Ev.call i [] ∈ eventsOf I I.root (render (hdrUnit a ns q) ℓ .nl) w s ↔ SpelledBy cmds i ns q := by
  constructor
  · intro h
    exact (invoked_only_if_spelled I hcmds ht hroot a ns q ℓ w s hu hℓ i [] h).1
  · intro hs
    rw [header_invokes_once I hcmds ht hroot a ns q ℓ w s hu hℓ i hs ci hci hty]
    exact List.mem_cons_self

/-- The dichotomy, for every header: it spells exactly one declaration (and
`header_dispatch` applies) or none (and `header_undefined` applies). -/
theorem defined_or_undefined (cmds : List Command) (ns : List Bytes) (q : Bool) :
    Defined cmds ns q ∨ ∀ c ∈ cmds, c.query = q → ¬ HeaderMatches c.parts ns := by
  by_cases h : Defined cmds ns q
  · exact .inl h
  · exact .inr ((not_defined_iff cmds ns q).1 h)

end

/-! ## The standard commands -/

/-- `SYSTem:VERSion?` as the macro parses it. -/
def versionDecl : Command :=
  ⟨[⟨false, C14.b "SYST", C14.b "SYSTEM"⟩, ⟨false, C14.b "VERS", C14.b "VERSION"⟩], true⟩
/-- `SYSTem:ERRor:[NEXT]?` -/
def errorNextDecl : Command :=
  ⟨[⟨false, C14.b "SYST", C14.b "SYSTEM"⟩, ⟨false, C14.b "ERR", C14.b "ERROR"⟩,
    ⟨true, C14.b "NEXT", C14.b "NEXT"⟩], true⟩
/-- `SYSTem:ERRor:COUNt?` -/
def errorCountDecl : Command :=
  ⟨[⟨false, C14.b "SYST", C14.b "SYSTEM"⟩, ⟨false, C14.b "ERR", C14.b "ERROR"⟩,
    ⟨false, C14.b "COUN", C14.b "COUNT"⟩], true⟩

theorem strBytes_version : strBytes "SYSTem:VERSion?" = C14.b "SYSTem:VERSion?" := by decide +kernel
theorem strBytes_errorNext : strBytes "SYSTem:ERRor:[NEXT]?" = C14.b "SYSTem:ERRor:[NEXT]?" := by
  decide +kernel
theorem strBytes_errorCount : strBytes "SYSTem:ERRor:COUNt?" = C14.b "SYSTem:ERRor:COUNt?" := by
  decide +kernel

theorem parse_version : Command.parse (strBytes "SYSTem:VERSion?") = .ok versionDecl := by
  rw [strBytes_version]; rfl
theorem parse_errorNext : Command.parse (strBytes "SYSTem:ERRor:[NEXT]?") = .ok errorNextDecl := by
  rw [strBytes_errorNext]; rfl
theorem parse_errorCount : Command.parse (strBytes "SYSTem:ERRor:COUNt?") = .ok errorCountDecl := by
  rw [strBytes_errorCount]; rfl

/-- **`std_decls_iff`.**  The declarations the attribute appends: `SYSTem:VERSion?` iff
`standard_commands` was requested, `SYSTem:ERRor:[NEXT]?` and `SYSTem:ERRor:COUNt?` iff
`error_commands` was — and nothing else. -/
theorem std_decls_iff (std err : Bool) (d : Bytes) :
    d ∈ standardDecls std err ↔
      (d = strBytes "SYSTem:VERSion?" ∧ std = true) ∨
      (d = strBytes "SYSTem:ERRor:[NEXT]?" ∧ err = true) ∨
      (d = strBytes "SYSTem:ERRor:COUNt?" ∧ err = true) := by
  unfold standardDecls
  cases std <;> cases err <;> simp

theorem std_version_mem_iff (std err : Bool) :
    strBytes "SYSTem:VERSion?" ∈ standardDecls std err ↔ std = true := by
  rw [std_decls_iff, strBytes_version, strBytes_errorNext, strBytes_errorCount]
  have h1 : C14.b "SYSTem:VERSion?" ≠ C14.b "SYSTem:ERRor:[NEXT]?" := by decide
  have h2 : C14.b "SYSTem:VERSion?" ≠ C14.b "SYSTem:ERRor:COUNt?" := by decide
  simp [h1, h2]

theorem std_errorNext_mem_iff (std err : Bool) :
    strBytes "SYSTem:ERRor:[NEXT]?" ∈ standardDecls std err ↔ err = true := by
  rw [std_decls_iff, strBytes_version, strBytes_errorNext, strBytes_errorCount]
  have h1 : C14.b "SYSTem:ERRor:[NEXT]?" ≠ C14.b "SYSTem:VERSion?" := by decide
  have h2 : C14.b "SYSTem:ERRor:[NEXT]?" ≠ C14.b "SYSTem:ERRor:COUNt?" := by decide
  simp [h1, h2]

theorem std_errorCount_mem_iff (std err : Bool) :
    strBytes "SYSTem:ERRor:COUNt?" ∈ standardDecls std err ↔ err = true := by
  rw [std_decls_iff, strBytes_version, strBytes_errorNext, strBytes_errorCount]
  have h1 : C14.b "SYSTem:ERRor:COUNt?" ≠ C14.b "SYSTem:VERSion?" := by decide
  have h2 : C14.b "SYSTem:ERRor:COUNt?" ≠ C14.b "SYSTem:ERRor:[NEXT]?" := by decide
  simp [h1, h2]

/-- Two declarations of the same kind that do not collide (no common spelling,
`Scpi.C14.Collide`) are never spelled by the same header. -/
theorem no_common_header {c c' : Command} (hc : PartsLowerFree c) (hc' : PartsLowerFree c')
    (hq : c.query = c'.query) (hn : ¬ Collide c c') (ns : List Bytes)
    (h : HeaderMatches c.parts ns) (h' : HeaderMatches c'.parts ns) : False :=
  hn ⟨hq, upperPath ns, (headerMatches_iff_expands hc ns).1 h, (headerMatches_iff_expands hc' ns).1 h'⟩

section
variable {user : List Bytes} {std err : Bool} {cmds : List Command}

/-- A header is defined iff one of the declaration strings — the user's or the
appended standard ones — parses to a declaration it spells. -/
theorem defined_iff_decl
    (hparse : (user ++ standardDecls std err).map Command.parse = cmds.map Except.ok)
    (ns : List Bytes) (q : Bool) :
    Defined cmds ns q ↔
      ∃ d ∈ user ++ standardDecls std err, ∃ c, Command.parse d = .ok c ∧ c.query = q ∧
        HeaderMatches c.parts ns := by
  have key : ∀ i : Nat, ((user ++ standardDecls std err)[i]?).map Command.parse =
      (cmds[i]?).map Except.ok := by
    intro i
    have := congrArg (fun l => l[i]?) hparse
    simpa only [List.getElem?_map] using this
  constructor
  · rintro ⟨i, c, hc, hq, hm⟩
    have hk := key i
    rw [hc] at hk
    cases hd : (user ++ standardDecls std err)[i]? with
    | none => rw [hd] at hk; cases hk
    | some d =>
      rw [hd] at hk
      simp only [Option.map_some, Option.some.injEq] at hk
      exact ⟨d, List.mem_of_getElem? hd, c, hk, hq, hm⟩
  · rintro ⟨d, hd, c, hp, hq, hm⟩
    obtain ⟨i, hi⟩ := List.getElem?_of_mem hd
    have hk := key i
    rw [hi] at hk
    cases hc : cmds[i]? with
    | none => rw [hc] at hk; cases hk
    | some c' =>
      rw [hc] at hk
      simp only [Option.map_some, Option.some.injEq, hp, Except.ok.injEq] at hk
      subst hk
      exact ⟨i, c, hc, hq, hm⟩

/-- Which query headers are defined, given that no user declaration spells the header:
exactly those spelled by a standard declaration that was requested. -/
theorem defined_std_iff
    (hparse : (user ++ standardDecls std err).map Command.parse = cmds.map Except.ok)
    (ns : List Bytes)
    (huser : ∀ d ∈ user, ∀ c, Command.parse d = .ok c → c.query = true → ¬ HeaderMatches c.parts ns) :
    Defined cmds ns true ↔
      (std = true ∧ HeaderMatches versionDecl.parts ns) ∨
      (err = true ∧ HeaderMatches errorNextDecl.parts ns) ∨
      (err = true ∧ HeaderMatches errorCountDecl.parts ns) := by
  rw [defined_iff_decl hparse]
  constructor
  · rintro ⟨d, hd, c, hp, hq, hm⟩
    rcases List.mem_append.1 hd with hd | hd
    · exact absurd hm (huser d hd c hp hq)
    · rcases (std_decls_iff std err d).1 hd with ⟨rfl, h⟩ | ⟨rfl, h⟩ | ⟨rfl, h⟩
      · rw [parse_version] at hp; cases hp; exact .inl ⟨h, hm⟩
      · rw [parse_errorNext] at hp; cases hp; exact .inr (.inl ⟨h, hm⟩)
      · rw [parse_errorCount] at hp; cases hp; exact .inr (.inr ⟨h, hm⟩)
  · rintro (⟨h, hm⟩ | ⟨h, hm⟩ | ⟨h, hm⟩)
    · exact ⟨_, List.mem_append_right _ ((std_decls_iff std err _).2 (.inl ⟨rfl, h⟩)), _,
        parse_version, rfl, hm⟩
    · exact ⟨_, List.mem_append_right _ ((std_decls_iff std err _).2 (.inr (.inl ⟨rfl, h⟩))), _,
        parse_errorNext, rfl, hm⟩
    · exact ⟨_, List.mem_append_right _ ((std_decls_iff std err _).2 (.inr (.inr ⟨rfl, h⟩))), _,
        parse_errorCount, rfl, hm⟩

theorem versionDecl_lowerFree : PartsLowerFree versionDecl := by decide
theorem errorNextDecl_lowerFree : PartsLowerFree errorNextDecl := by decide
theorem errorCountDecl_lowerFree : PartsLowerFree errorCountDecl := by decide

/-- **`SYSTem:VERSion?` exists iff `standard_commands` was requested**: any header that
spells it (`SYST:VERS?`, `system:version?`, …), provided no user declaration spells the
same header, is defined iff `std`. -/
theorem std_version_defined_iff
    (hparse : (user ++ standardDecls std err).map Command.parse = cmds.map Except.ok)
    (ns : List Bytes) (hm : HeaderMatches versionDecl.parts ns)
    (huser : ∀ d ∈ user, ∀ c, Command.parse d = .ok c → c.query = true → ¬ HeaderMatches c.parts ns) :
    Defined cmds ns true ↔ std = true := by
  rw [defined_std_iff hparse ns huser]
  constructor
  · rintro (⟨h, _⟩ | ⟨_, h⟩ | ⟨_, h⟩)
    · exact h
    · exact (no_common_header versionDecl_lowerFree errorNextDecl_lowerFree rfl (by decide) ns hm h).elim
    · exact (no_common_header versionDecl_lowerFree errorCountDecl_lowerFree rfl (by decide) ns hm h).elim
  · exact fun h => .inl ⟨h, hm⟩

/-- **`SYSTem:ERRor[:NEXT]?` exists iff `error_commands` was requested.** -/
theorem std_error_next_defined_iff
    (hparse : (user ++ standardDecls std err).map Command.parse = cmds.map Except.ok)
    (ns : List Bytes) (hm : HeaderMatches errorNextDecl.parts ns)
    (huser : ∀ d ∈ user, ∀ c, Command.parse d = .ok c → c.query = true → ¬ HeaderMatches c.parts ns) :
    Defined cmds ns true ↔ err = true := by
  rw [defined_std_iff hparse ns huser]
  constructor
  · rintro (⟨_, h⟩ | ⟨h, _⟩ | ⟨h, _⟩)
    · exact (no_common_header versionDecl_lowerFree errorNextDecl_lowerFree rfl (by decide) ns h hm).elim
    · exact h
    · exact h
  · exact fun h => .inr (.inl ⟨h, hm⟩)

/-- **`SYSTem:ERRor:COUNt?` exists iff `error_commands` was requested.** -/
theorem std_error_count_defined_iff
    (hparse : (user ++ standardDecls std err).map Command.parse = cmds.map Except.ok)
    (ns : List Bytes) (hm : HeaderMatches errorCountDecl.parts ns)
    (huser : ∀ d ∈ user, ∀ c, Command.parse d = .ok c → c.query = true → ¬ HeaderMatches c.parts ns) :
    Defined cmds ns true ↔ err = true := by
  rw [defined_std_iff hparse ns huser]
  constructor
  · rintro (⟨_, h⟩ | ⟨h, _⟩ | ⟨h, _⟩)
    · exact (no_common_header versionDecl_lowerFree errorCountDecl_lowerFree rfl (by decide) ns h hm).elim
    · exact h
    · exact h
  · exact fun h => .inr (.inr ⟨h, hm⟩)

/-- **`std_commands_iff`.**  The four headers of the property text: `SYST:VERS?` is
defined iff `standard_commands` was requested; `SYST:ERR?`, `SYST:ERR:NEXT?` and
`SYST:ERR:COUN?` iff `error_commands` was — provided no user declaration spells them.
With `header_dispatch` / `header_undefined`: when requested, `run` dispatches the header
to the standard handler; when not, it reports one −113 and does nothing else. -/
theorem std_commands_iff
    (hparse : (user ++ standardDecls std err).map Command.parse = cmds.map Except.ok)
    (huser : ∀ ns ∈ [[C14.b "SYST", C14.b "VERS"], [C14.b "SYST", C14.b "ERR"],
        [C14.b "SYST", C14.b "ERR", C14.b "NEXT"], [C14.b "SYST", C14.b "ERR", C14.b "COUN"]],
      ∀ d ∈ user, ∀ c, Command.parse d = .ok c → c.query = true → ¬ HeaderMatches c.parts ns) :
    (Defined cmds [C14.b "SYST", C14.b "VERS"] true ↔ std = true) ∧
    (Defined cmds [C14.b "SYST", C14.b "ERR"] true ↔ err = true) ∧
    (Defined cmds [C14.b "SYST", C14.b "ERR", C14.b "NEXT"] true ↔ err = true) ∧
    (Defined cmds [C14.b "SYST", C14.b "ERR", C14.b "COUN"] true ↔ err = true) :=
  ⟨std_version_defined_iff hparse _ (by decide) (huser _ (by simp)),
   std_error_next_defined_iff hparse _ (by decide) (huser _ (by simp)),
   std_error_next_defined_iff hparse _ (by decide) (huser _ (by simp)),
   std_error_count_defined_iff hparse _ (by decide) (huser _ (by simp))⟩

end

/-! ## Non-vacuity -/

namespace HDemo

/-- `SYSTem:ERRor:[NEXT]?`, `SYSTem:ERRor:COUNt?`, `X`. -/
def decls : List Command := C14.decls ["SYSTem:ERRor:[NEXT]?", "SYSTem:ERRor:COUNt?", "X"]

theorem decls_lowerFree : ∀ c ∈ decls, PartsLowerFree c := by decide

theorem decls_compile : ∃ t, insertAll emptyNode decls 0 = .ok t :=
  (compiles_iff_pairwise _).2 (by decide)

/-- No white space at all. -/
def lex0 : Lex := { lead := [], sep := [], commas := [], trail := [] }
/-- Blanks before the unit, CR before the newline. -/
def lex1 : Lex := { lead := [32, 9], sep := [], commas := [], trail := [32, 13] }

/-- The messages as bytes. -/
example : render (hdrUnit false [C14.b "syst", C14.b "err"] true) lex0 .nl = C14.b "syst:err?\n" := by
  decide
example : render (hdrUnit false [C14.b "SYSTEM", C14.b "ERROR", C14.b "NEXT"] true) lex0 .nl =
    C14.b "SYSTEM:ERROR:NEXT?\n" := by decide
example : render (hdrUnit true [C14.b "SYSTEM", C14.b "ERROR", C14.b "NEXT"] true) lex1 .nl =
    C14.b " \t:SYSTEM:ERROR:NEXT? \r\n" := by decide
example : render (hdrUnit false [C14.b "SYST", C14.b "ERRO"] true) lex0 .nl = C14.b "SYST:ERRO?\n" := by
  decide
example : render (hdrUnit false [C14.b "X"] true) lex0 .nl = C14.b "X?\n" := by decide

/-- For EVERY interface on the tree compiled from the three declarations: `syst:err?⏎`,
`SYSTEM:ERROR:NEXT?⏎` and ` ⇥:SYSTEM:ERROR:NEXT? ␍⏎` are all dispatched to command 0
— the three runs are the same function of writer and state. -/
example {σ : Type} (I : Iface σ) (t : Node) (ht : insertAll emptyNode decls 0 = .ok t)
    (hroot : I.root = t) (w : Writer) (s : σ) :
    run I (C14.b "syst:err?\n") w s =
      { rest := [], header := I.root, w := (execId I 0 true w s).2.1,
        s := reportExec I (execId I 0 true w s).1 (execId I 0 true w s).2.2 } ∧
    run I (C14.b "SYSTEM:ERROR:NEXT?\n") w s = run I (C14.b "syst:err?\n") w s ∧
    run I (C14.b " \t:SYSTEM:ERROR:NEXT? \r\n") w s = run I (C14.b "syst:err?\n") w s := by
  have e1 : C14.b "syst:err?\n" =
      render (hdrUnit false [C14.b "syst", C14.b "err"] true) lex0 .nl := by decide
  have e2 : C14.b "SYSTEM:ERROR:NEXT?\n" =
      render (hdrUnit false [C14.b "SYSTEM", C14.b "ERROR", C14.b "NEXT"] true) lex0 .nl := by decide
  have e3 : C14.b " \t:SYSTEM:ERROR:NEXT? \r\n" =
      render (hdrUnit true [C14.b "SYSTEM", C14.b "ERROR", C14.b "NEXT"] true) lex1 .nl := by decide
  have h1 := header_dispatch I decls_lowerFree ht hroot false [C14.b "syst", C14.b "err"] true lex0 w s
    (by decide) (by decide) 0 ⟨_, rfl, rfl, by decide⟩
  have h2 := header_dispatch I decls_lowerFree ht hroot false
    [C14.b "SYSTEM", C14.b "ERROR", C14.b "NEXT"] true lex0 w s
    (by decide) (by decide) 0 ⟨_, rfl, rfl, by decide⟩
  have h3 := header_dispatch I decls_lowerFree ht hroot true
    [C14.b "SYSTEM", C14.b "ERROR", C14.b "NEXT"] true lex1 w s
    (by decide) (by decide) 0 ⟨_, rfl, rfl, by decide⟩
  rw [e1, e2, e3, h1, h2, h3]
  exact ⟨rfl, rfl, rfl⟩

/-- `SYST:ERRO?⏎` (between the short and the long form) and `X?⏎` (query mark on a
command-only node) invoke nothing, write nothing, and report exactly one −113. -/
example {σ : Type} (I : Iface σ) (t : Node) (ht : insertAll emptyNode decls 0 = .ok t)
    (hroot : I.root = t) (w : Writer) (s : σ) :
    (run I (C14.b "SYST:ERRO?\n") w s =
        { rest := [], header := I.root, w := w, s := I.onError s (.std .UndefinedHeader) } ∧
      eventsOf I I.root (C14.b "SYST:ERRO?\n") w s = [Ev.error (.std .UndefinedHeader)] ∧
      (run I.logged (C14.b "SYST:ERRO?\n") w (s, [])).s.2 = [.std .UndefinedHeader]) ∧
    (run I (C14.b "X?\n") w s =
        { rest := [], header := I.root, w := w, s := I.onError s (.std .UndefinedHeader) } ∧
      eventsOf I I.root (C14.b "X?\n") w s = [Ev.error (.std .UndefinedHeader)] ∧
      (run I.logged (C14.b "X?\n") w (s, [])).s.2 = [.std .UndefinedHeader]) := by
  have e1 : C14.b "SYST:ERRO?\n" =
      render (hdrUnit false [C14.b "SYST", C14.b "ERRO"] true) lex0 .nl := by decide
  have e2 : C14.b "X?\n" = render (hdrUnit false [C14.b "X"] true) lex0 .nl := by decide
  rw [e1, e2]
  exact ⟨header_undefined I decls_lowerFree ht hroot false _ true lex0 w s (by decide) (by decide)
      (by decide),
    header_undefined I decls_lowerFree ht hroot false _ true lex0 w s (by decide) (by decide)
      (by decide)⟩

/-- `X⏎` (no query mark) is dispatched to command 2. -/
example : SpelledBy decls 2 [C14.b "x"] false := ⟨_, rfl, rfl, by decide⟩

/-- The hypotheses of `std_commands_iff` are satisfiable: user declaration `X`, both
attribute flags set; the resulting declaration list is `X`, `SYSTem:VERSion?`,
`SYSTem:ERRor:[NEXT]?`, `SYSTem:ERRor:COUNt?`. -/
example :
    ([C14.b "X"] ++ standardDecls true true).map Command.parse =
      ([⟨[⟨false, C14.b "X", C14.b "X"⟩], false⟩, versionDecl, errorNextDecl, errorCountDecl] :
        List Command).map Except.ok := by
  simp only [standardDecls, if_true, List.cons_append, List.nil_append, List.map_cons, List.map_nil,
    parse_version, parse_errorNext, parse_errorCount]
  rfl

example : ∀ ns ∈ [[C14.b "SYST", C14.b "VERS"], [C14.b "SYST", C14.b "ERR"],
      [C14.b "SYST", C14.b "ERR", C14.b "NEXT"], [C14.b "SYST", C14.b "ERR", C14.b "COUN"]],
    ∀ d ∈ [C14.b "X"], ∀ c, Command.parse d = .ok c → c.query = true → ¬ HeaderMatches c.parts ns := by
  intro ns _ d hd c hp hq
  simp only [List.mem_singleton] at hd
  subst hd
  have : Command.parse (C14.b "X") = .ok ⟨[⟨false, C14.b "X", C14.b "X"⟩], false⟩ := rfl
  rw [this] at hp
  cases hp
  cases hq

end HDemo

end C01
end Scpi
