/-
C12, prefix determinacy — the longer-to-shorter direction.

`Scpi/Props/C12.lean` shows that an accepted unit stays accepted, with the same
call, when bytes are appended (`parse_ok_append`): from a SHORTER input to a LONGER
one.  That alone does not say that the result is "determined solely by the bytes up
to and including the unit's terminator": a parser that answered `incomplete` on
`X;` while accepting the unit `X;` on `X;Y` would satisfy every theorem of
`C12.lean`.  The theorems below close the gap, from the LONGER input to the SHORTER
one: if `parse` accepts on `p ++ z` and returns exactly `z`, then it accepts on the
consumed bytes `p` alone — hence on `p ++ z'` for every `z'` — with the same call.
So the verdict on an input whose front is a complete unit is a function of that
unit's bytes only, and `incomplete` is returned only when the input ends inside a
unit.

All statements hold for every command tree `root`, every start node `header` and
all byte strings.  Proofs: `Scpi/Proofs/PD*.lean` (the consumed part ends with a
terminator byte, so every recogniser that ran before the final `tag` ran on an input
whose own part still contains a terminator; class-bounded recognisers then do not
depend on what follows, and `quoted`/`arbitrary` succeeded inside the consumed
part).
-/
import Scpi.Props.C12
import Scpi.Proofs.PDParse

namespace Scpi
namespace C12

/-- **T12.5 (the unit alone)**: if `parse` accepts on `p ++ z` and the returned rest is
exactly `z`, then the consumed bytes `p` on their own are accepted, with the same
call and nothing left.  In particular cutting the input right after the unit's
terminator never turns acceptance into `incomplete` or an error. -/
theorem parse_unit_alone (root header : Node) (p z : Bytes) (c : Option CommandCall)
    (h : parse root header (p ++ z) = .ok z c) : parse root header p = .ok [] c :=
  PD.parse_back root header h

/-- **T12.5 (prefix determinacy)**: the result of an accepting `parse` is determined
solely by the consumed bytes `p`: whatever follows `p` instead of `z` is returned
untouched and the call is the same. -/
theorem parse_prefix_determined (root header : Node) (p z : Bytes) (c : Option CommandCall)
    (h : parse root header (p ++ z) = .ok z c) :
    ∀ z', parse root header (p ++ z') = .ok z' c := by
  intro z'
  have h' := parse_ok_append root header p z' [] c (parse_unit_alone root header p z c h)
  rw [List.nil_append] at h'
  exact h'

/-- Both directions together: `p` is the consumed part of an accepted input with call
`c` iff `p` alone is accepted with call `c` and nothing left. -/
theorem parse_unit_iff (root header : Node) (p z : Bytes) (c : Option CommandCall) :
    parse root header (p ++ z) = .ok z c ↔ parse root header p = .ok [] c := by
  constructor
  · exact parse_unit_alone root header p z c
  · intro h
    have h' := parse_ok_append root header p z [] c h
    rw [List.nil_append] at h'
    exact h'

/-- **T12.5 (consumed part)**: every accepted input splits into the consumed part and
the returned rest, and the consumed part alone is accepted with the same call. -/
theorem parse_consumed_alone (root header : Node) (x r : Bytes) (c : Option CommandCall)
    (h : parse root header x = .ok r c) :
    ∃ p, x = p ++ r ∧ p ≠ [] ∧ parse root header p = .ok [] c := by
  obtain ⟨hlt, p, hp⟩ := parse_ok_consumes root header x r c h
  subst hp
  refine ⟨p, rfl, ?_, parse_unit_alone root header p r c h⟩
  intro e
  subst e
  simp only [List.nil_append] at hlt
  omega

/-- **T12.4 (strong form)**: an input whose front `p` is a complete unit (or empty
message) — i.e. `p` is what `parse` consumed on some input — is never `incomplete`,
whatever follows.  So `incomplete` is returned only when the input ends inside a
unit.  (`parse_incomplete_only_inside` only excluded prefixes that are accepted *on
their own*; by `parse_unit_alone` that is the same thing.) -/
theorem parse_complete_unit_never_incomplete (root header : Node) (p z : Bytes)
    (c : Option CommandCall) (h : parse root header (p ++ z) = .ok z c) (z' : Bytes) :
    parse root header (p ++ z') ≠ .incomplete := by
  rw [parse_prefix_determined root header p z c h z']
  intro e
  cases e

/-- The same read from the `incomplete` side: when `parse` answers `incomplete`, no
prefix of the input is the consumed part of any accepted input. -/
theorem parse_incomplete_no_unit_prefix (root header : Node) (x : Bytes)
    (h : parse root header x = .incomplete) (p q z : Bytes) (c : Option CommandCall)
    (hpq : x = p ++ q) : parse root header (p ++ z) ≠ .ok z c := by
  intro hz
  subst hpq
  exact parse_complete_unit_never_incomplete root header p z c hz q h

/-- **T12.5 (same front, same verdict)**: if `parse` accepts `x` leaving `r`, then every
input `x'` that agrees with `x` on the consumed bytes (the first
`x.length - r.length` bytes) is accepted with the same call, leaving everything
after those bytes. -/
theorem parse_verdict_of_unit (root header : Node) (x r : Bytes) (c : Option CommandCall)
    (h : parse root header x = .ok r c) (x' : Bytes)
    (hx' : x'.take (x.length - r.length) = x.take (x.length - r.length)) :
    parse root header x' = .ok (x'.drop (x.length - r.length)) c := by
  obtain ⟨_, p, hp⟩ := parse_ok_consumes root header x r c h
  subst hp
  have hn : (p ++ r).length - r.length = p.length := by
    simp only [List.length_append]; omega
  rw [hn] at hx' ⊢
  rw [List.take_left' rfl] at hx'
  have hsplit : x' = p ++ x'.drop p.length := by
    conv => lhs; rw [← List.take_append_drop p.length x']
    rw [hx']
  rw [hsplit, List.drop_left' rfl]
  exact parse_prefix_determined root header p r c h _

/-- Two accepted inputs whose consumed parts coincide carry the same call. -/
theorem parse_call_of_unit (root header : Node) (p z z' : Bytes) (c c' : Option CommandCall)
    (h : parse root header (p ++ z) = .ok z c) (h' : parse root header (p ++ z') = .ok z' c') :
    c = c' := by
  have e := parse_prefix_determined root header p z' c' h' z
  rw [h] at e
  injection e

/-! ### Non-vacuity, on the tree of `C12.lean` with the single command `X` -/

/-- `X;Y`: the unit `X;` is accepted and `Y` is left (hypothesis of T12.5). -/
example : ∃ c, parse tree tree ([88, 59] ++ [89]) = .ok [89] (some c) := ⟨_, rfl⟩

/-- … so `X;` alone is accepted (and indeed it is) … -/
example : ∃ c, parse tree tree [88, 59] = .ok [] (some c) := ⟨_, rfl⟩

/-- … and `X;` followed by anything is accepted with the same call: the seeded change
"`X;` is `incomplete` although `X;Y` accepts `X;`" contradicts T12.5. -/
example : ∃ c, ∀ z', parse tree tree ([88, 59] ++ z') = .ok z' (some c) :=
  ⟨_, parse_prefix_determined tree tree [88, 59] [89] _ rfl⟩

/-- `X "a;b\n";X\n`: the consumed unit contains both terminator bytes inside a string;
the unit `X "a;b\n";` alone is accepted. -/
example : ∃ c, parse tree tree ([88, 32, 34, 97, 59, 98, 10, 34, 59] ++ [88, 10])
    = .ok [88, 10] (some c) ∧ parse tree tree [88, 32, 34, 97, 59, 98, 10, 34, 59] = .ok [] (some c) :=
  ⟨_, rfl, rfl⟩

/-- `X #13a;\n;X`: block data whose payload contains `;` and `\n`. -/
example : ∃ c, parse tree tree ([88, 32, 35, 49, 51, 97, 59, 10, 59] ++ [88])
    = .ok [88] (some c) ∧ parse tree tree [88, 32, 35, 49, 51, 97, 59, 10, 59] = .ok [] (some c) :=
  ⟨_, rfl, rfl⟩

/-- `X ;Y` (white space, then no parameter: the soft failure of the argument list is
followed by the end of the unit) and the empty message `\n`. -/
example : ∃ c, parse tree tree ([88, 32, 59] ++ [89]) = .ok [89] (some c) := ⟨_, rfl⟩
example : parse tree tree ([10] ++ [88]) = .ok [88] none := rfl

/-- The hypothesis "the rest is exactly `z`" matters: `X 1e` is a prefix of the accepted
`X 1e5;` but is not its consumed part, and alone it is an error. -/
example : (parse tree tree ([88, 32, 49, 101] ++ [53, 59])).isOk = true ∧
    parse tree tree [88, 32, 49, 101] = .soft (some (.std .InvalidCharacter)) := ⟨rfl, rfl⟩

/-- `X "a;` is `incomplete` (hypothesis of `parse_incomplete_no_unit_prefix`). -/
example : parse tree tree [88, 32, 34, 97, 59] = .incomplete := rfl

end C12
end Scpi
