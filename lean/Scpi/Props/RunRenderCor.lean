/-
Corollaries of the message-level refinement theorem `Scpi.Msg.run_render`
(Scpi/Props/RunRender.lean) for five properties.  All of them hold for every interface
(every tree, all handlers, every error handler), every writer and user state.

Vocabulary (Scpi/Spec/MsgAst.lean): `onNode I node u (w, s)` — the unit `u` executed on
`node` (`specUnit`); `resume I rest (w, s)` — go on with `rest` from the root;
`finished I (w, s)` — the outcome "everything consumed, path at the root, no crash".

* C11 `run_render_lex_irrelevant`, `run_lex_irrelevant`, `run_render_case_irrelevant`,
  `run_render_lower`, `run_render_upper`.
* C02 `path_rule`, `path_rule_relative`, `path_rule_relative_undefined`,
  `path_rule_absolute`, `path_rule_common`, `message_independent`,
  `message_independent_spec`.
* C01 `dispatch_header`, `dispatch_common`, `dispatch_handler`, `dispatch_no_slot`,
  `dispatch_undefined_traced`, `dispatch_called_traced`.
* C03 `args_delivered`, `args_positional`, `args_rejected`, `args_miscounted`.
* C08 `payload_units_run`, `payload_delivered`.
-/
import Scpi.Props.RunRender
import Scpi.Proofs.MsgCor

namespace Scpi

/-! ## C11 — white space, CR LF and letter case are irrelevant for whole messages -/

namespace C11
open Msg

/-- **Lexical choices are irrelevant.**  Two renderings of the same unit list — any
white space before each unit, between header and parameters, around each comma, before
each `;` and before the terminator, CR LF or LF — followed by the same bytes give the
same run: the same writer (responses), user state (handlers run, errors reported),
unread rest, path and crash flag. -/
theorem run_render_lex_irrelevant {σ : Type} (I : Iface σ) (m₁ m₂ : List (MsgUnit × Lex))
    (cur : Node) (rest : Bytes) (w : Writer) (s : σ) (hne : m₁ ≠ []) (hw₁ : wfMsg m₁ = true)
    (hw₂ : wfMsg m₂ = true) (hu : units m₁ = units m₂)
    (hsafe : dropSafe I.root cur (units m₁) = true) :
    runFrom I cur (renderMsg m₁ ++ rest) w s = runFrom I cur (renderMsg m₂ ++ rest) w s := by
  have hne₂ : m₂ ≠ [] := by
    intro e
    subst e
    exact hne (List.map_eq_nil_iff.1 hu)
  rw [run_render I m₁ cur rest w s hne hw₁ hsafe,
    run_render I m₂ cur rest w s hne₂ hw₂ (hu ▸ hsafe), hu]

/-- The same for `run` on the message alone. -/
theorem run_lex_irrelevant {σ : Type} (I : Iface σ) (m₁ m₂ : List (MsgUnit × Lex)) (w : Writer)
    (s : σ) (hne : m₁ ≠ []) (hw₁ : wfMsg m₁ = true) (hw₂ : wfMsg m₂ = true)
    (hu : units m₁ = units m₂) (hsafe : dropSafe I.root I.root (units m₁) = true) :
    run I (renderMsg m₁) w s = run I (renderMsg m₂) w s := by
  have := run_render_lex_irrelevant I m₁ m₂ I.root [] w s hne hw₁ hw₂ hu hsafe
  simp only [List.append_nil] at this
  exact this

/-- **Letter case is irrelevant.**  Two messages whose units have the same literals and
query flags and headers that differ only in the letter case of the mnemonics
(`SameUpToCase`), each in ANY white space, give the same run. -/
theorem run_render_case_irrelevant {σ : Type} (I : Iface σ) (m₁ m₂ : List (MsgUnit × Lex))
    (cur : Node) (rest : Bytes) (w : Writer) (s : σ) (hne₁ : m₁ ≠ []) (hne₂ : m₂ ≠ [])
    (hw₁ : wfMsg m₁ = true) (hw₂ : wfMsg m₂ = true) (hu : SameUpToCase (units m₁) (units m₂))
    (hsafe : dropSafe I.root cur (units m₁) = true) :
    runFrom I cur (renderMsg m₁ ++ rest) w s = runFrom I cur (renderMsg m₂ ++ rest) w s := by
  rw [run_render I m₁ cur rest w s hne₁ hw₁ hsafe,
    run_render I m₂ cur rest w s hne₂ hw₂ (dropSafe_sameUpToCase I.root _ _ hu cur ▸ hsafe),
    specExec_sameUpToCase I _ _ hu]

/-- In particular: every mnemonic in lower case (the result is again well-formed). -/
theorem run_render_lower {σ : Type} (I : Iface σ) (m : List (MsgUnit × Lex)) (cur : Node)
    (rest : Bytes) (w : Writer) (s : σ) (hne : m ≠ []) (hw : wfMsg m = true)
    (hsafe : dropSafe I.root cur (units m) = true) :
    wfMsg (mapMsgCase toLowerAscii m) = true ∧
    runFrom I cur (renderMsg (mapMsgCase toLowerAscii m) ++ rest) w s =
      runFrom I cur (renderMsg m ++ rest) w s := by
  have hw' := wfMsg_map mapPath_lower_same m hw
  refine ⟨hw', (run_render_case_irrelevant I m _ cur rest w s hne ?_ hw hw'
    (sameUpToCase_map mapPath_lower_same m) hsafe).symm⟩
  intro e
  exact hne (List.map_eq_nil_iff.1 e)

/-- … or in upper case. -/
theorem run_render_upper {σ : Type} (I : Iface σ) (m : List (MsgUnit × Lex)) (cur : Node)
    (rest : Bytes) (w : Writer) (s : σ) (hne : m ≠ []) (hw : wfMsg m = true)
    (hsafe : dropSafe I.root cur (units m) = true) :
    wfMsg (mapMsgCase toUpperAscii m) = true ∧
    runFrom I cur (renderMsg (mapMsgCase toUpperAscii m) ++ rest) w s =
      runFrom I cur (renderMsg m ++ rest) w s := by
  have hw' := wfMsg_map mapPath_upper_same m hw
  refine ⟨hw', (run_render_case_irrelevant I m _ cur rest w s hne ?_ hw hw'
    (sameUpToCase_map mapPath_upper_same m) hsafe).symm⟩
  intro e
  exact hne (List.map_eq_nil_iff.1 e)

/-- Non-vacuity: the two renderings `s:a;b;:x;*c⏎` and ` s:a\t \t; b … *c\t \r⏎` of
`Scpi/Props/RunRender.lean` and the upper-case spelling `S:A;B;:X;*C⏎`. -/
example : run Msg.Demo.I (renderMsg Msg.Demo.msg1) Msg.Demo.W [] =
    run Msg.Demo.I (renderMsg Msg.Demo.msg2) Msg.Demo.W [] :=
  run_lex_irrelevant _ _ _ _ _ (by decide) (by decide) (by decide) (by decide) (by decide)

example : renderMsg (mapMsgCase toUpperAscii Msg.Demo.msg1) =
    [83, 58, 65, 59, 66, 59, 58, 88, 59, 42, 67, 10] := by decide

example : (run Msg.Demo.I (renderMsg (mapMsgCase toUpperAscii Msg.Demo.msg1)) Msg.Demo.W []).s =
    [(1, []), (2, []), (0, []), (3, [])] := by decide

end C11

/-! ## C02 — the path rule and the independence of messages -/

namespace C02
open Msg

/-- **The path rule.**  A unit whose header resolves to `node` with parent `parent`
(`none` for a common command) and that is followed by `;` is executed on `node`, and
the remainder of the message is read with the path `parent.getD cur`: the parent of
the node addressed — the header without its last mnemonic — or the path unchanged
after a common command.  (No side condition: the unit is executed, whatever its
payloads.) -/
theorem path_rule {σ : Type} (I : Iface σ) (cur : Node) (u : MsgUnit) (ℓ : Lex)
    (m : List (MsgUnit × Lex)) (rest : Bytes) (w : Writer) (s : σ) (hne : m ≠ [])
    (hu : u.wf = true) (hℓ : ℓ.wf = true) (hfit : ℓ.fits u = true) (node : Node)
    (parent : Option Node) (hr : resolve I.root cur u.hdr.path = some (node, parent)) :
    runFrom I cur (renderMsg ((u, ℓ) :: m) ++ rest) w s =
      runFrom I (parent.getD cur) (renderMsg m ++ rest)
        (onNode I node u (w, s)).1 (onNode I node u (w, s)).2 := by
  cases m with
  | nil => exact absurd rfl hne
  | cons p m =>
    simp only [renderMsg, List.append_assoc]
    exact runFrom_render_resolved I cur u ℓ .semi _ w s hu hℓ hfit node parent hr

/-- What `resolve` is, case by case: a relative header is walked from the current
path, an absolute one from the root, a common one is a child of the root and reports
no parent. -/
theorem path_rule_resolve (root cur : Node) (ms : List Bytes) (n : Bytes) :
    resolve root cur (.compound false ms) = resolveFrom cur ms ∧
    resolve root cur (.compound true ms) = resolveFrom root ms ∧
    resolve root cur (.common n) = (root.child (42 :: n)).map fun node => (node, none) :=
  ⟨rfl, rfl, rfl⟩

/-- **`u₁ ; u₂` with `u₂` relative**: `u₂` is resolved from the PARENT `p₁` of the node
`u₁` addressed, and executed on the writer and state `u₁` left. -/
theorem path_rule_relative {σ : Type} (I : Iface σ) (cur : Node) (u₁ u₂ : MsgUnit) (ℓ₁ ℓ₂ : Lex)
    (rest : Bytes) (w : Writer) (s : σ) (hw : wfMsg [(u₁, ℓ₁), (u₂, ℓ₂)] = true)
    (n₁ p₁ : Node) (h₁ : resolve I.root cur u₁.hdr.path = some (n₁, some p₁))
    (ms : List Bytes) (hrel : u₂.hdr.path = .compound false ms)
    (n₂ : Node) (q₂ : Option Node) (h₂ : resolveFrom p₁ ms = some (n₂, q₂)) :
    runFrom I cur (renderMsg [(u₁, ℓ₁), (u₂, ℓ₂)] ++ rest) w s =
      resume I rest (onNode I n₂ u₂ (onNode I n₁ u₁ (w, s))) := by
  have h₂' : resolve I.root ((some p₁).getD cur) u₂.hdr.path = some (n₂, q₂) := by
    rw [hrel]; exact h₂
  have hd : dropSafe I.root cur (units [(u₁, ℓ₁), (u₂, ℓ₂)]) = true := by
    simp only [units, List.map_cons, List.map_nil, dropSafe, h₁, h₂']
  rw [run_render I _ cur rest w s (by simp) hw hd]
  simp only [units, List.map_cons, List.map_nil, specExec, h₁, h₂', onNode, resume]

/-- … and if `u₂` is not a child of that parent: one `UndefinedHeader`, `u₂` is not
executed — there is no second look-up at the root.  (`u₂` without newline in its
parameters.) -/
theorem path_rule_relative_undefined {σ : Type} (I : Iface σ) (cur : Node) (u₁ u₂ : MsgUnit)
    (ℓ₁ ℓ₂ : Lex) (rest : Bytes) (w : Writer) (s : σ) (hw : wfMsg [(u₁, ℓ₁), (u₂, ℓ₂)] = true)
    (n₁ p₁ : Node) (h₁ : resolve I.root cur u₁.hdr.path = some (n₁, some p₁))
    (ms : List Bytes) (hrel : u₂.hdr.path = .compound false ms)
    (h₂ : resolveFrom p₁ ms = none) (hfree : unitNlFree u₂ = true) :
    runFrom I cur (renderMsg [(u₁, ℓ₁), (u₂, ℓ₂)] ++ rest) w s =
      resume I rest ((onNode I n₁ u₁ (w, s)).1,
        I.onError (onNode I n₁ u₁ (w, s)).2 (.std .UndefinedHeader)) := by
  have h₂' : resolve I.root ((some p₁).getD cur) u₂.hdr.path = none := by
    rw [hrel]; exact h₂
  have hd : dropSafe I.root cur (units [(u₁, ℓ₁), (u₂, ℓ₂)]) = true := by
    simp only [units, List.map_cons, List.map_nil, dropSafe, h₁, h₂', List.all_cons, List.all_nil,
      Bool.and_true, hfree]
  rw [run_render I _ cur rest w s (by simp) hw hd]
  simp only [units, List.map_cons, List.map_nil, specExec, h₁, h₂', onNode, resume]

/-- **`u₁ ; u₂` with `u₂` absolute**: `u₂` is resolved from the ROOT, wherever `u₁` led. -/
theorem path_rule_absolute {σ : Type} (I : Iface σ) (cur : Node) (u₁ u₂ : MsgUnit) (ℓ₁ ℓ₂ : Lex)
    (rest : Bytes) (w : Writer) (s : σ) (hw : wfMsg [(u₁, ℓ₁), (u₂, ℓ₂)] = true)
    (n₁ : Node) (p₁ : Option Node) (h₁ : resolve I.root cur u₁.hdr.path = some (n₁, p₁))
    (ms : List Bytes) (habs : u₂.hdr.path = .compound true ms)
    (n₂ : Node) (q₂ : Option Node) (h₂ : resolveFrom I.root ms = some (n₂, q₂)) :
    runFrom I cur (renderMsg [(u₁, ℓ₁), (u₂, ℓ₂)] ++ rest) w s =
      resume I rest (onNode I n₂ u₂ (onNode I n₁ u₁ (w, s))) := by
  have h₂' : resolve I.root (p₁.getD cur) u₂.hdr.path = some (n₂, q₂) := by
    rw [habs]; exact h₂
  have hd : dropSafe I.root cur (units [(u₁, ℓ₁), (u₂, ℓ₂)]) = true := by
    simp only [units, List.map_cons, List.map_nil, dropSafe, h₁, h₂']
  rw [run_render I _ cur rest w s (by simp) hw hd]
  simp only [units, List.map_cons, List.map_nil, specExec, h₁, h₂', onNode, resume]

/-- **`u₁ ; *c ; u₃`**: the common command is looked up at the root and LEAVES THE PATH:
the relative `u₃` is still resolved from the parent `p₁` of `u₁`'s node. -/
theorem path_rule_common {σ : Type} (I : Iface σ) (cur : Node) (u₁ u₂ u₃ : MsgUnit) (ℓ₁ ℓ₂ ℓ₃ : Lex)
    (rest : Bytes) (w : Writer) (s : σ) (hw : wfMsg [(u₁, ℓ₁), (u₂, ℓ₂), (u₃, ℓ₃)] = true)
    (n₁ p₁ : Node) (h₁ : resolve I.root cur u₁.hdr.path = some (n₁, some p₁))
    (name : Bytes) (hcom : u₂.hdr.path = .common name)
    (n₂ : Node) (h₂ : I.root.child (42 :: name) = some n₂)
    (ms : List Bytes) (hrel : u₃.hdr.path = .compound false ms)
    (n₃ : Node) (q₃ : Option Node) (h₃ : resolveFrom p₁ ms = some (n₃, q₃)) :
    runFrom I cur (renderMsg [(u₁, ℓ₁), (u₂, ℓ₂), (u₃, ℓ₃)] ++ rest) w s =
      resume I rest (onNode I n₃ u₃ (onNode I n₂ u₂ (onNode I n₁ u₁ (w, s)))) := by
  have h₂' : resolve I.root ((some p₁).getD cur) u₂.hdr.path = some (n₂, none) := by
    rw [hcom]; simp only [resolve, h₂, Option.map_some]
  have h₃' : resolve I.root ((none : Option Node).getD ((some p₁).getD cur)) u₃.hdr.path
      = some (n₃, q₃) := by
    rw [hrel]; exact h₃
  have hd : dropSafe I.root cur (units [(u₁, ℓ₁), (u₂, ℓ₂), (u₃, ℓ₃)]) = true := by
    simp only [units, List.map_cons, List.map_nil, dropSafe, h₁, h₂', h₃']
  rw [run_render I _ cur rest w s (by simp) hw hd]
  simp only [units, List.map_cons, List.map_nil, specExec, h₁, h₂', h₃', onNode, resume]

/-- **Messages are independent.**  A message followed by ANY bytes `y` (for instance
further messages): `y` is run from the root, on the writer and user state the message
left — nothing else of the first message survives its terminator, whatever path it
was read with. -/
theorem message_independent {σ : Type} (I : Iface σ) (m : List (MsgUnit × Lex)) (y : Bytes)
    (w : Writer) (s : σ) (hne : m ≠ []) (hw : wfMsg m = true)
    (hsafe : dropSafe I.root I.root (units m) = true) :
    run I (renderMsg m ++ y) w s =
      run I y (specExec I I.root (units m) w s).1 (specExec I I.root (units m) w s).2 :=
  run_render I m I.root y w s hne hw hsafe

/-- Two messages in one buffer: the second is executed from the root after the first. -/
theorem message_independent_spec {σ : Type} (I : Iface σ) (m₁ m₂ : List (MsgUnit × Lex))
    (w : Writer) (s : σ) (hne₁ : m₁ ≠ []) (hne₂ : m₂ ≠ []) (hw₁ : wfMsg m₁ = true)
    (hw₂ : wfMsg m₂ = true) (hs₁ : dropSafe I.root I.root (units m₁) = true)
    (hs₂ : dropSafe I.root I.root (units m₂) = true) :
    run I (renderMsg m₁ ++ renderMsg m₂) w s =
      finished I (specExec I I.root (units m₂) (specExec I I.root (units m₁) w s).1
        (specExec I I.root (units m₁) w s).2) := by
  rw [message_independent I m₁ _ w s hne₁ hw₁ hs₁, run_render_run I m₂ _ _ hne₂ hw₂ hs₂]
  rfl

/-- Non-vacuity on the demo interface of Scpi/Props/RunRender.lean: `s:a;b⏎` (relative:
`b` under `S`), `s:a;:x⏎` (absolute), `s:a;*c;b⏎` (common keeps the path), `s:a;x⏎`
(no second look-up at the root), and `s:a⏎b⏎` (the terminator resets the path: `b` is
undefined at the root). -/
example : (run Msg.Demo.I (renderMsg [(Msg.Demo.uA, Msg.Demo.tight), (Msg.Demo.uB, Msg.Demo.loose)])
      Msg.Demo.W []).s = [(1, []), (2, [])] ∧
    (run Msg.Demo.I (renderMsg [(Msg.Demo.uA, Msg.Demo.tight), (Msg.Demo.uX, Msg.Demo.loose)])
      Msg.Demo.W []).s = [(1, []), (0, [])] ∧
    (run Msg.Demo.I (renderMsg [(Msg.Demo.uA, Msg.Demo.tight), (Msg.Demo.uC, Msg.Demo.loose),
      (Msg.Demo.uB, Msg.Demo.tight)]) Msg.Demo.W []).s = [(1, []), (3, []), (2, [])] ∧
    (run Msg.Demo.I (renderMsg Msg.Demo.msg3) Msg.Demo.W []).s = [(1, []), (99, [])] ∧
    (run Msg.Demo.I (renderMsg [(Msg.Demo.uA, Msg.Demo.tight)] ++
      renderMsg [(Msg.Demo.uB, Msg.Demo.tight)]) Msg.Demo.W []).s = [(1, []), (99, [])] := by
  decide

/-- The hypotheses of `path_rule_common` on the demo tree. -/
example : ∃ n₁ n₂ n₃ q₃, resolve Msg.Demo.tree Msg.Demo.tree Msg.Demo.uA.hdr.path = some (n₁, some Msg.Demo.nS) ∧
    Msg.Demo.tree.child (42 :: [99]) = some n₂ ∧ resolveFrom Msg.Demo.nS [[98]] = some (n₃, q₃) ∧
    n₁.tag = 3 ∧ n₂.tag = 5 ∧ n₃.tag = 4 := ⟨_, _, _, _, rfl, rfl, rfl, rfl, rfl, rfl⟩

end C02

/-! ## C01 — the header selects the handler -/

namespace C01
open Msg

/-- **Dispatch of a compound header.**  A one-unit message without parameters, header
`[:]M₁:…:Mₖ[?]` in any white space: `run` walks the mnemonics from the root with
`childWalk` (the walk of `Scpi.C01.same_handler`) and executes the unit on the node
reached (`specUnit`: the query slot iff the header ends in `?`); if the walk fails it
reports exactly one `UndefinedHeader` and does nothing else. -/
theorem dispatch_header {σ : Type} (I : Iface σ) (u : MsgUnit) (ℓ : Lex) (w : Writer) (s : σ)
    (a : Bool) (ms : List Bytes) (hp : u.hdr.path = .compound a ms) (hl : u.lits = [])
    (hu : u.wf = true) (hℓ : ℓ.wf = true) :
    run I (renderMsg [(u, ℓ)]) w s =
      match childWalk I.root ms with
      | some node => finished I (specUnit I node u.hdr.query [] w s)
      | none => finished I (w, I.onError s (.std .UndefinedHeader)) := by
  have hfit : ℓ.fits u = true := by simp only [Lex.fits, hl, List.isEmpty_nil, Bool.true_or]
  have hw : wfMsg [(u, ℓ)] = true := by
    simp only [wfMsg, List.all_cons, List.all_nil, hu, hℓ, hfit, Bool.and_self]
  have hfree : (units [(u, ℓ)]).all unitNlFree = true := by
    simp only [units, List.map_cons, List.map_nil, List.all_cons, List.all_nil, unitNlFree, hl,
      Bool.and_self]
  have hms : ms ≠ [] := by
    apply compound_ne_nil (a := a)
    simp only [MsgUnit.wf, Bool.and_eq_true, hp] at hu
    exact hu.1.1
  rw [run_render_run I _ w s (by simp) hw (dropSafe_of_nlFree I.root I.root _ hfree)]
  have hres : resolve I.root I.root u.hdr.path = resolveFrom I.root ms := by
    rw [hp]; simp only [resolve, ite_self]
  cases hc : childWalk I.root ms with
  | none =>
    have := resolveFrom_of_childWalk_none hms hc
    simp only [units, List.map_cons, List.map_nil, specExec, hres, this]
    rfl
  | some node =>
    obtain ⟨parent, hr⟩ := resolveFrom_of_childWalk_some hms hc
    simp only [units, List.map_cons, List.map_nil, specExec, hres, hr, hl]
    rfl

/-- **Dispatch of a common header** `*NAME[?]`: the child `*NAME` of the root. -/
theorem dispatch_common {σ : Type} (I : Iface σ) (u : MsgUnit) (ℓ : Lex) (w : Writer) (s : σ)
    (n : Bytes) (hp : u.hdr.path = .common n) (hl : u.lits = [])
    (hu : u.wf = true) (hℓ : ℓ.wf = true) :
    run I (renderMsg [(u, ℓ)]) w s =
      match I.root.child (42 :: n) with
      | some node => finished I (specUnit I node u.hdr.query [] w s)
      | none => finished I (w, I.onError s (.std .UndefinedHeader)) := by
  have hfit : ℓ.fits u = true := by simp only [Lex.fits, hl, List.isEmpty_nil, Bool.true_or]
  have hw : wfMsg [(u, ℓ)] = true := by
    simp only [wfMsg, List.all_cons, List.all_nil, hu, hℓ, hfit, Bool.and_self]
  have hfree : (units [(u, ℓ)]).all unitNlFree = true := by
    simp only [units, List.map_cons, List.map_nil, List.all_cons, List.all_nil, unitNlFree, hl,
      Bool.and_self]
  rw [run_render_run I _ w s (by simp) hw (dropSafe_of_nlFree I.root I.root _ hfree)]
  cases hc : I.root.child (42 :: n) with
  | none =>
    simp only [units, List.map_cons, List.map_nil, specExec, hp, resolve, hc, Option.map_none]
    rfl
  | some node =>
    simp only [units, List.map_cons, List.map_nil, specExec, hp, resolve, hc, Option.map_some, hl]
    rfl

/-- **The slot is invoked**: on a node whose slot (query slot for `?`, else command
slot) holds a handler without parameters, the unit IS that handler's call — on the
current user state, with no arguments — followed by its response; an error of the
handler (or of writing the response) is reported once. -/
theorem dispatch_handler {σ : Type} (I : Iface σ) (node : Node) (q : Bool) (w : Writer) (s : σ)
    (c : Cmd σ) (hs : slotCmd I node q = some c) (h0 : c.argTys = []) :
    specUnit I node q [] w s =
      match c.handler s [] with
      | (s', .error e) => (w, I.onError s' e)
      | (s', .ok resp) =>
        match reply q w resp with
        | (w', .error e) => (w', I.onError s' e)
        | (w', .ok ()) => (w', s') :=
  specUnit_called I node q [] w s c hs (by rw [h0]; rfl) [] (by rw [h0]; rfl)

/-- **An empty slot**: the node exists but has no handler of the kind asked for (or
its id is not in the table): exactly one `UndefinedHeader`, nothing written, no
handler applied to the user state. -/
theorem dispatch_no_slot {σ : Type} (I : Iface σ) (node : Node) (q : Bool) (args : List Value)
    (w : Writer) (s : σ) (hs : slotCmd I node q = none) :
    specUnit I node q args w s = (w, I.onError s (.std .UndefinedHeader)) :=
  specUnit_no_slot I node q args w s hs

/-- **Nothing is called, one error is reported — observably.**  With the tracing wrapper
(`Iface.traced`: every handler invocation and every `onError` appends an event to a
log): if the header does not resolve, or the node it reaches has an empty slot, the
log grows by exactly the one event `error UndefinedHeader` — no `call` event. -/
theorem dispatch_undefined_traced {σ : Type} (I : Iface σ) (u : MsgUnit) (ℓ : Lex) (w : Writer)
    (s : σ) (l : List Ev) (a : Bool) (ms : List Bytes) (hp : u.hdr.path = .compound a ms)
    (hl : u.lits = []) (hu : u.wf = true) (hℓ : ℓ.wf = true)
    (hnone : ∀ node, childWalk I.root ms = some node → slotCmd I node u.hdr.query = none) :
    run I.traced (renderMsg [(u, ℓ)]) w (s, l) =
      finished I.traced (w, (I.onError s (.std .UndefinedHeader),
        l ++ [Ev.error (.std .UndefinedHeader)])) := by
  rw [dispatch_header I.traced u ℓ w (s, l) a ms hp hl hu hℓ]
  have hroot : I.traced.root = I.root := rfl
  rw [hroot]
  cases hc : childWalk I.root ms with
  | none => rfl
  | some node =>
    simp only []
    rw [specUnit_no_slot I.traced node _ _ _ _ (slotCmd_traced_none I node _ (hnone node hc))]
    rfl

/-- **Exactly the handler of the slot is called — observably.**  If the header reaches
`node` and its slot holds the handler `c` (number `id` of the table) without
parameters, the log grows by the event `call id []` followed by at most one `error`
event (the handler's own error, or a response that did not fit the writer). -/
theorem dispatch_called_traced {σ : Type} (I : Iface σ) (u : MsgUnit) (ℓ : Lex) (w : Writer)
    (s : σ) (l : List Ev) (a : Bool) (ms : List Bytes) (hp : u.hdr.path = .compound a ms)
    (hl : u.lits = []) (hu : u.wf = true) (hℓ : ℓ.wf = true) (node : Node)
    (hc : childWalk I.root ms = some node) (c : Cmd σ) (hs : slotCmd I node u.hdr.query = some c)
    (h0 : c.argTys = []) :
    ∃ id tail, (if u.hdr.query then node.query else node.command) = some id ∧ I.cmds[id]? = some c ∧
      (run I.traced (renderMsg [(u, ℓ)]) w (s, l)).s.2 = l ++ Ev.call id [] :: tail ∧
      (tail = [] ∨ ∃ e, tail = [Ev.error e]) := by
  obtain ⟨id, hid, hcmd, hst⟩ := slotCmd_traced_some I node u.hdr.query c hs
  rw [dispatch_header I.traced u ℓ w (s, l) a ms hp hl hu hℓ]
  have hroot : I.traced.root = I.root := rfl
  rw [hroot, hc]
  simp only []
  rw [dispatch_handler I.traced node u.hdr.query w (s, l) _ hst h0]
  simp only [Cmd.instrument]
  rcases c.handler s [] with ⟨s', r⟩
  cases r with
  | error e =>
    exact ⟨id, [Ev.error e], hid, hcmd, by simp [finished, Iface.traced, Iface.instrument], Or.inr ⟨e, rfl⟩⟩
  | ok resp =>
    simp only []
    rcases reply u.hdr.query w resp with ⟨w', r'⟩
    cases r' with
    | error e =>
      exact ⟨id, [Ev.error e], hid, hcmd, by simp [finished, Iface.traced, Iface.instrument],
        Or.inr ⟨e, rfl⟩⟩
    | ok x =>
      cases x
      exact ⟨id, [], hid, hcmd, by simp [finished], Or.inl rfl⟩

/-- Non-vacuity on the demo interface: `x⏎` calls handler 0, `X?⏎` handler 4 (and
answers `7⏎`), `s⏎` reaches a node with an empty slot, `y⏎` reaches nothing. -/
example :
    (run Msg.Demo.I.traced (renderMsg [(Msg.Demo.unit (.compound false [[120]]), Msg.Demo.loose)])
      Msg.Demo.W ([], [])).s.2 = [Ev.call 0 []] ∧
    (run Msg.Demo.I.traced (renderMsg [(Msg.Demo.uQ, Msg.Demo.loose)]) Msg.Demo.W ([], [])).s.2
      = [Ev.call 4 []] ∧
    (run Msg.Demo.I (renderMsg [(Msg.Demo.uQ, Msg.Demo.loose)]) Msg.Demo.W []).w.buf = [55, 10] ∧
    (run Msg.Demo.I.traced (renderMsg [(Msg.Demo.unit (.compound true [[115]]), Msg.Demo.loose)])
      Msg.Demo.W ([], [])).s.2 = [Ev.error (.std .UndefinedHeader)] ∧
    (run Msg.Demo.I.traced (renderMsg [(Msg.Demo.unit (.compound false [[121]]), Msg.Demo.loose)])
      Msg.Demo.W ([], [])).s.2 = [Ev.error (.std .UndefinedHeader)] := by decide

example : childWalk Msg.Demo.I.root [[115]] = some Msg.Demo.nS ∧
    slotCmd Msg.Demo.I Msg.Demo.nS false = none ∧ childWalk Msg.Demo.I.root [[121]] = none :=
  ⟨rfl, rfl, rfl⟩

end C01

/-! ## C03 — the handler receives the converted parameters, positionally -/

namespace C03
open Msg

/-- **The parameters are delivered.**  A unit (anywhere in a message: any current
path, ended by `;` or the terminator, followed by anything) whose header resolves to
`node`, whose slot holds `c`, with as many literals as `c` has parameter types, all of
which convert: the handler is called on the current user state with EXACTLY
`tvs = convertAll c.argTys (u.lits.map Lit.value)` — the text of each literal as
written (`Lit.value`), converted to the declared type, in the order written. -/
theorem args_delivered {σ : Type} (I : Iface σ) (cur : Node) (u : MsgUnit) (ℓ : Lex) (t : Term)
    (rest : Bytes) (w : Writer) (s : σ) (hu : u.wf = true) (hℓ : ℓ.wf = true)
    (hfit : ℓ.fits u = true) (node : Node) (parent : Option Node)
    (hr : resolve I.root cur u.hdr.path = some (node, parent)) (c : Cmd σ)
    (hs : slotCmd I node u.hdr.query = some c) (hl : u.lits.length = c.argTys.length)
    (tvs : List TVal) (hc : convertAll c.argTys (u.lits.map Lit.value) = .ok tvs) :
    runFrom I cur (render u ℓ t ++ rest) w s =
      match c.handler s tvs with
      | (s', .error e) => runFrom I (pathAfter I.root cur parent t) rest w (I.onError s' e)
      | (s', .ok resp) =>
        match reply u.hdr.query w resp with
        | (w', .error e) => runFrom I (pathAfter I.root cur parent t) rest w' (I.onError s' e)
        | (w', .ok ()) => runFrom I (pathAfter I.root cur parent t) rest w' s' := by
  rw [runFrom_render_resolved I cur u ℓ t rest w s hu hℓ hfit node parent hr,
    specUnit_called I node u.hdr.query _ w s c hs (by simpa using hl) tvs hc]
  rcases c.handler s tvs with ⟨s', r⟩
  cases r with
  | error e => rfl
  | ok resp =>
    simp only []
    rcases reply u.hdr.query w resp with ⟨w', r'⟩
    cases r' with
    | error e => rfl
    | ok x => cases x; rfl

/-- **Positionally**: `convertAll` succeeds with `tvs` iff `tvs` has one entry per
declared type and entry `i` is the conversion of literal `i` to type `i`. -/
theorem args_positional (tys : List Ty) (lits : List Lit) (tvs : List TVal)
    (hl : lits.length = tys.length) :
    convertAll tys (lits.map Lit.value) = .ok tvs ↔
      ∃ (_ : tvs.length = tys.length), ∀ (i : Nat) (hi : i < tys.length),
        convert tys[i] (lits[i]'(by omega)).value = .ok (tvs[i]'(by omega)) := by
  rw [convertAll_ok_iff tys _ tvs (by simpa using hl)]
  simp only [List.getElem_map]

/-- A parameter that does not convert: the handler is NOT called (user state and
writer untouched); the error of the first such parameter is reported once; the run
goes on behind the unit. -/
theorem args_rejected {σ : Type} (I : Iface σ) (cur : Node) (u : MsgUnit) (ℓ : Lex) (t : Term)
    (rest : Bytes) (w : Writer) (s : σ) (hu : u.wf = true) (hℓ : ℓ.wf = true)
    (hfit : ℓ.fits u = true) (node : Node) (parent : Option Node)
    (hr : resolve I.root cur u.hdr.path = some (node, parent)) (c : Cmd σ)
    (hs : slotCmd I node u.hdr.query = some c) (hl : u.lits.length = c.argTys.length)
    (e : Err) (hc : convertAll c.argTys (u.lits.map Lit.value) = .error e) :
    runFrom I cur (render u ℓ t ++ rest) w s =
      runFrom I (pathAfter I.root cur parent t) rest w (I.onError s e) := by
  rw [runFrom_render_resolved I cur u ℓ t rest w s hu hℓ hfit node parent hr,
    specUnit_convert_error I node u.hdr.query _ w s c hs (by simpa using hl) e hc]

/-- A wrong number of parameters: not called, `UnexpectedNumberOfParameters` once. -/
theorem args_miscounted {σ : Type} (I : Iface σ) (cur : Node) (u : MsgUnit) (ℓ : Lex) (t : Term)
    (rest : Bytes) (w : Writer) (s : σ) (hu : u.wf = true) (hℓ : ℓ.wf = true)
    (hfit : ℓ.fits u = true) (node : Node) (parent : Option Node)
    (hr : resolve I.root cur u.hdr.path = some (node, parent)) (c : Cmd σ)
    (hs : slotCmd I node u.hdr.query = some c) (hl : u.lits.length ≠ c.argTys.length) :
    runFrom I cur (render u ℓ t ++ rest) w s =
      runFrom I (pathAfter I.root cur parent t) rest w
        (I.onError s (.std .UnexpectedNumberOfParameters)) := by
  rw [runFrom_render_resolved I cur u ℓ t rest w s hu hℓ hfit node parent hr,
    specUnit_arity I node u.hdr.query _ w s c hs (by simpa using hl)]

/-- Non-vacuity: the hypotheses of `args_delivered` for the unit `s:p "a;b,⏎",#14;,⏎⏎`
of the demo interface, and the parameters its handler receives. -/
example : ∃ node parent c, resolve Msg.Demo.I.root Msg.Demo.I.root Msg.Demo.uP.hdr.path = some (node, parent) ∧
    slotCmd Msg.Demo.I node Msg.Demo.uP.hdr.query = some c ∧
    Msg.Demo.uP.lits.length = c.argTys.length ∧
    convertAll c.argTys (Msg.Demo.uP.lits.map Lit.value) =
      .ok [.str [97, 59, 98, 44, 10], .bytes [59, 44, 10, 10]] :=
  ⟨_, _, _, rfl, rfl, rfl, rfl⟩

end C03

/-! ## C08 — payloads never end a unit -/

namespace C08
open Msg

/-- A string or block literal. -/
def isPayload : Lit → Bool
  | .str _ _ => true
  | .block _ _ => true
  | _ => false

/-- The parameter type that accepts it … -/
def payloadTy : Lit → Ty
  | .block _ _ => .bytes
  | _ => .str

/-- … and the value a handler of that type receives: the payload, verbatim. -/
def payloadVal : Lit → TVal
  | .str _ p => .str p
  | .block _ p => .bytes p
  | _ => .str []

/-- **Every unit runs.**  A message whose headers resolve, with ANY well-formed
literals — in particular strings and blocks whose payloads contain `;`, `,`, `:`, `#`,
quotes of the other kind or newlines: no payload byte ends a unit or the message.  The
interpreter executes EVERY unit, in order, each on the node its header addresses
(`nodesOf`) and with the arguments `u.lits.map Lit.value` (`onNode`) — for a string or
a block that is the payload verbatim (`payload_delivered`) — and goes on behind the
message terminator. -/
theorem payload_units_run {σ : Type} (I : Iface σ) (m : List (MsgUnit × Lex)) (cur : Node)
    (rest : Bytes) (w : Writer) (s : σ) (hne : m ≠ []) (hwf : wfMsg m = true)
    (hres : allResolve I.root cur (units m) = true) :
    (nodesOf I.root cur (units m)).length = m.length ∧
    runFrom I cur (renderMsg m ++ rest) w s =
      resume I rest
        (((nodesOf I.root cur (units m)).zip (units m)).foldl (fun ws p => onNode I p.1 p.2 ws) (w, s)) := by
  obtain ⟨h1, h2⟩ := specExec_eq_foldl I (units m) cur w s hres
  refine ⟨by simpa [units] using h1, ?_⟩
  rw [run_render_resolving I m cur rest w s hne hwf hres, h2]
  rfl

/-- **Payloads arrive verbatim.**  String and block literals convert to the types
`str` / `bytes`, and the handler receives exactly the payload bytes. -/
theorem payload_delivered : ∀ (lits : List Lit), lits.all isPayload = true →
    convertAll (lits.map payloadTy) (lits.map Lit.value) = .ok (lits.map payloadVal)
  | [], _ => rfl
  | l :: ls, h => by
    simp only [List.all_cons, Bool.and_eq_true] at h
    have ih := payload_delivered ls h.2
    cases l with
    | str q p => simp only [List.map_cons, convertAll, payloadTy, Lit.value, convert, ih, payloadVal]
    | block nd p => simp only [List.map_cons, convertAll, payloadTy, Lit.value, convert, ih, payloadVal]
    | chars _ => cases h.1
    | dec _ => cases h.1
    | hex _ _ => cases h.1
    | bin _ _ => cases h.1
    | oct _ _ => cases h.1

/-- Non-vacuity: `x?;s:p "a;b,⏎",#14;,⏎⏎ ; b ⏎` of the demo interface — three units,
three nodes, every handler ran, the payloads are those written. -/
example : wfMsg Msg.Demo.msg4 = true ∧
    allResolve Msg.Demo.I.root Msg.Demo.I.root (units Msg.Demo.msg4) = true ∧
    (nodesOf Msg.Demo.I.root Msg.Demo.I.root (units Msg.Demo.msg4)).map Node.tag = [1, 6, 4] ∧
    Msg.Demo.uP.lits.all isPayload = true ∧
    (run Msg.Demo.I (renderMsg Msg.Demo.msg4) Msg.Demo.W []).s =
      [(4, []), (5, Msg.Demo.uP.lits.map payloadVal), (2, [])] := by decide

end C08

end Scpi
