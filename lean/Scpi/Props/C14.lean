/-
C14 — "If two handlers of one interface would be reachable by the same header
spelling and the same kind (command or query) — including collisions that arise
only through short/long forms or optional nodes — the program does not compile; a
declaration is never silently shadowed by another.  Declaration sets without
such a collision compile."

Model: the attribute macro inserts the declarations in order into a trie
(`insertAll emptyNode cmds 0`, Scpi/Macro.lean); a compile error is
`insertAll … = .error …`.  Specification: `Spells c p` (Scpi/Spec/Spelling.lean),
the set of key sequences obtained by choosing for every part its long form, its
short form or — for optional parts — nothing.

Main theorems
* `paths_iff`               : the macro's path enumeration is exactly `Expands`.
* `compiles_iff`            : compilation succeeds iff no two different
                              declarations of the same kind share a spelling.
* `insertAll_ok_iff`        : the same, stated with `Command.paths`.
* `first_collision`         : on failure the reported index is the first
                              declaration colliding with an earlier one, the
                              error kind is that declaration's kind and the
                              reported tree is that of the declarations before.
* `first_collision_reported`: conversely, the first colliding declaration is
                              the one reported.
* `lookup_iff`              : the compiled trie contains exactly the union of the
                              spelled paths, each owned by its declaration.
* `no_shadowing`            : every spelling of every declaration reaches that
                              declaration's own id.
* `insertAll_invariant`     : the generalisation used for the induction (any
                              start tree whose ids are below the start id).
-/
import Scpi.Proofs.MacroPaths
import Scpi.Proofs.MacroInsert

namespace Scpi
namespace C14

/-- Two declarations collide: same kind and a common spelling. -/
def Collide (c c' : Command) : Prop := c.query = c'.query ∧ ∃ p, Spells c p ∧ Spells c' p

/-- The same with the macro's enumeration. -/
def CollideP (c c' : Command) : Prop := c.query = c'.query ∧ ∃ p, p ∈ c.paths ∧ p ∈ c'.paths

theorem collideP_iff (c c' : Command) : CollideP c c' ↔ Collide c c' := by
  simp only [CollideP, Collide, Spells, mem_paths_iff]

theorem Collide.symm {c c' : Command} (h : Collide c c') : Collide c' c :=
  ⟨h.1.symm, h.2.elim fun p hp => ⟨p, hp.2, hp.1⟩⟩

instance (c c' : Command) : Decidable (CollideP c c') :=
  decidable_of_iff (c.query = c'.query ∧ ∃ p ∈ c.paths, p ∈ c'.paths)
    (by simp only [CollideP])

instance (c c' : Command) : Decidable (Collide c c') :=
  decidable_of_iff _ (collideP_iff c c')

/-- T1.1 — the macro's path enumeration `Command::paths` yields exactly the
spellings of the declaration: per part the long form, the short form, or nothing
if the part is optional. -/
theorem paths_iff (c : Command) (p : List Bytes) : p ∈ c.paths ↔ Expands c.parts p :=
  mem_paths_iff c p

example :
    let c : Command := ⟨[⟨true, [83], [83, 89]⟩, ⟨false, [84], [84, 73]⟩], true⟩
    [[84]] ∈ c.paths ∧ [[83, 89], [84]] ∈ c.paths ∧ ¬ [[83, 89]] ∈ c.paths := by decide

theorem pathsDisjoint_iff (c c' : Command) : PathsDisjoint c c' ↔ ¬ Collide c c' := by
  rw [← collideP_iff]
  unfold PathsDisjoint CollideP
  constructor
  · rintro h ⟨hq, p, hp, hp'⟩; exact h hq p hp hp'
  · intro h hq p hp hp'; exact h ⟨hq, p, hp, hp'⟩

theorem pairwise_iff (cmds : List Command) :
    cmds.Pairwise PathsDisjoint ↔
      ∀ (i j : Nat) (c c' : Command), i ≠ j → cmds[i]? = some c → cmds[j]? = some c' → ¬ Collide c c' := by
  rw [List.pairwise_iff_getElem]
  constructor
  · intro h i j c c' hne hi hj
    obtain ⟨hi', rfl⟩ := List.getElem?_eq_some_iff.1 hi
    obtain ⟨hj', rfl⟩ := List.getElem?_eq_some_iff.1 hj
    rcases Nat.lt_or_gt_of_ne hne with hlt | hgt
    · exact (pathsDisjoint_iff _ _).1 (h i j hi' hj' hlt)
    · exact fun hc => (pathsDisjoint_iff _ _).1 (h j i hj' hi' hgt) hc.symm
  · intro h i j hi hj hlt
    exact (pathsDisjoint_iff _ _).2
      (h i j _ _ (Nat.ne_of_lt hlt) (List.getElem?_eq_getElem hi) (List.getElem?_eq_getElem hj))

/-- Generalisation used for the induction: starting from any tree `n` whose ids
are all below `start`, `insertAll n cmds start`
* succeeds iff every path of every declaration is free (for its kind) in `n` and
  the declarations are pairwise collision-free;
* on success the resulting tree contains exactly the old entries and, for each
  declaration number `i` (counted from `start`), its paths under its kind. -/
theorem insertAll_invariant (n : Node) (cmds : List Command) (start : Nat)
    (hb : ∀ q p i, lookupId q n p = some i → i < start) :
    ((∃ n', insertAll n cmds start = .ok n') ↔
      (∀ c ∈ cmds, ∀ p, Spells c p → lookupId c.query n p = none) ∧
      (∀ (i j : Nat) (c c' : Command), i ≠ j → cmds[i]? = some c → cmds[j]? = some c' → ¬ Collide c c')) ∧
    (∀ n', insertAll n cmds start = .ok n' → ∀ q p i,
      lookupId q n' p = some i ↔
        lookupId q n p = some i ∨
          (start ≤ i ∧ ∃ c, cmds[i - start]? = some c ∧ c.query = q ∧ Spells c p)) := by
  refine ⟨?_, ?_⟩
  · rw [insertAll_ok_iff_gen n cmds start hb, pairwise_iff]
    simp only [Spells, ← mem_paths_iff]
  · intro n' h q p i
    rw [insertAll_lookup hb h q p i]
    simp only [Owns, Spells, ← mem_paths_iff]

/-- T14.1 — compilation succeeds iff there are no two DIFFERENT declarations
`i ≠ j` of the same kind with a common path.  (A declaration never collides with
itself: `[AB]:[AB]` enumerates the path `AB` twice and compiles.) -/
theorem insertAll_ok_iff (cmds : List Command) :
    (∃ t, insertAll emptyNode cmds 0 = .ok t) ↔
      ∀ (i j : Nat) (c c' : Command), i ≠ j → cmds[i]? = some c → cmds[j]? = some c' →
        ¬ (c.query = c'.query ∧ ∃ p, p ∈ c.paths ∧ p ∈ c'.paths) := by
  rw [insertAll_ok_iff_gen emptyNode cmds 0 (below_emptyNode 0), pairwise_iff]
  constructor
  · rintro ⟨_, h⟩ i j c c' hne hi hj hc
    exact h i j c c' hne hi hj ((collideP_iff c c').1 hc)
  · intro h
    refine ⟨?_, ?_⟩
    · intro c _ p _; rw [emptyNode, lookupId_empty]
    · intro i j c c' hne hi hj hc
      exact h i j c c' hne hi hj ((collideP_iff c c').2 hc)

/-- C14, both directions, against the abstract specification: the interface
compiles iff no two different declarations of the same kind have a common
spelling (through any combination of long forms, short forms and omitted
optional nodes). -/
theorem compiles_iff (cmds : List Command) :
    (∃ t, insertAll emptyNode cmds 0 = .ok t) ↔
      ∀ (i j : Nat) (c c' : Command), i ≠ j → cmds[i]? = some c → cmds[j]? = some c' → ¬ Collide c c' := by
  rw [insertAll_ok_iff]
  constructor
  · intro h i j c c' hne hi hj hc
    exact h i j c c' hne hi hj ((collideP_iff c c').2 hc)
  · intro h i j c c' hne hi hj hc
    exact h i j c c' hne hi hj ((collideP_iff c c').1 hc)

/-- A collision is a compile error. -/
theorem collision_fails (cmds : List Command) {i j : Nat} {c c' : Command} (hne : i ≠ j)
    (hi : cmds[i]? = some c) (hj : cmds[j]? = some c') (hc : Collide c c') :
    ∃ e k t, insertAll emptyNode cmds 0 = .error (e, k, t) := by
  cases h : insertAll emptyNode cmds 0 with
  | ok t => exact absurd hc ((compiles_iff cmds).1 ⟨t, h⟩ i j c c' hne hi hj)
  | error x => obtain ⟨e, k, t⟩ := x; exact ⟨e, k, t, rfl⟩

/-- T1.2 / T14.2 — the compiled trie contains exactly the union of the spelled
paths: looking up path `p` for kind `q` by exact keys yields id `i` iff
declaration number `i` has kind `q` and spells `p`. -/
theorem lookup_iff {cmds : List Command} {t : Node} (h : insertAll emptyNode cmds 0 = .ok t)
    (p : List Bytes) (q : Bool) (i : Nat) :
    (walk t p).bind (slot q) = some i ↔ ∃ c, cmds[i]? = some c ∧ c.query = q ∧ Spells c p := by
  have := insertAll_lookup (below_emptyNode 0) h q p i
  rw [emptyNode, lookupId_empty] at this
  change lookupId q t p = some i ↔ _
  rw [this]
  simp only [Owns, Spells, ← mem_paths_iff, Nat.sub_zero, Nat.zero_le, true_and, reduceCtorEq,
    false_or]

/-- The same with the macro's enumeration. -/
theorem lookup_iff_paths {cmds : List Command} {t : Node}
    (h : insertAll emptyNode cmds 0 = .ok t) (p : List Bytes) (q : Bool) (i : Nat) :
    (walk t p).bind (slot q) = some i ↔ ∃ c, cmds[i]? = some c ∧ c.query = q ∧ p ∈ c.paths := by
  rw [lookup_iff h]; simp only [Spells, ← mem_paths_iff]

/-- No declaration is shadowed: in a compiled interface every spelling of every
declaration reaches that declaration's own id — all spellings of one declaration
invoke the same handler, and no other declaration's. -/
theorem no_shadowing {cmds : List Command} {t : Node} (h : insertAll emptyNode cmds 0 = .ok t)
    {i : Nat} {c : Command} (hi : cmds[i]? = some c) {p : List Bytes} (hp : Spells c p) :
    (walk t p).bind (slot c.query) = some i :=
  (lookup_iff h p c.query i).2 ⟨c, hi, rfl, hp⟩

/-- Nothing else is in the trie: ids are declaration indices. -/
theorem lookup_lt {cmds : List Command} {t : Node} (h : insertAll emptyNode cmds 0 = .ok t)
    {p : List Bytes} {q : Bool} {i : Nat} (hl : (walk t p).bind (slot q) = some i) :
    i < cmds.length := by
  obtain ⟨c, hc, _⟩ := (lookup_iff h p q i).1 hl
  exact (List.getElem?_eq_some_iff.1 hc).1

/-- On a compile error: the reported index `k` is a declaration that collides
with an earlier one (`j < k`), no declaration before `k` collides with an
earlier one, the error kind is `queryExists` iff declaration `k` is a query (and
`commandExists` otherwise), and the reported tree is the one built from the
declarations before `k`. -/
theorem first_collision {cmds : List Command} {e : MacroErr} {k : Nat} {t : Node}
    (h : insertAll emptyNode cmds 0 = .error (e, k, t)) :
    ∃ c, cmds[k]? = some c ∧
      (∃ j c', j < k ∧ cmds[j]? = some c' ∧ Collide c' c) ∧
      (∀ (k' j : Nat) (a a' : Command), k' < k → j < k' → cmds[k']? = some a → cmds[j]? = some a' → ¬ Collide a' a) ∧
      e = (if c.query then .queryExists else .commandExists) ∧
      insertAll emptyNode (cmds.take k) 0 = .ok t := by
  obtain ⟨pre, c, post, hcmds, hk, hpre, herr⟩ := insertAll_error_split h
  simp only [Nat.zero_add] at hk
  subst hk
  have htake : cmds.take pre.length = pre := by rw [hcmds]; simp
  have hget : ∀ j, j < pre.length → cmds[j]? = pre[j]? := by
    intro j hj; rw [hcmds, List.getElem?_append_left hj]
  refine ⟨c, by rw [hcmds]; simp, ?_, ?_, ?_, by rw [htake]; exact hpre⟩
  · obtain ⟨_, p, hp, j, hne, hj⟩ := insertPaths_error herr
    have := (insertAll_lookup (below_emptyNode 0) hpre c.query p j).1 hj
    rw [emptyNode, lookupId_empty] at this
    rcases this with h0 | ⟨_, c', hc', hq, hp'⟩
    · cases h0
    · rw [Nat.sub_zero] at hc'
      have hjlt := (List.getElem?_eq_some_iff.1 hc').1
      refine ⟨j, c', hjlt, by rw [hget j hjlt]; exact hc', hq, p, ?_, ?_⟩
      · exact (mem_paths_iff c' p).1 hp'
      · exact (mem_paths_iff c p).1 hp
  · intro k' j a a' hk' hj ha ha'
    have hpw := ((insertAll_ok_iff_gen emptyNode pre 0 (below_emptyNode 0)).1 ⟨t, hpre⟩).2
    rw [hget k' hk'] at ha
    rw [hget j (Nat.lt_trans hj hk')] at ha'
    exact (pairwise_iff pre).1 hpw j k' a' a (Nat.ne_of_lt hj) ha' ha
  · rw [(insertPaths_error herr).1]; rfl

/-- Conversely: if declaration `k` collides with an earlier one and no
declaration before `k` collides with an earlier one, then compilation fails and
reports exactly `k`. -/
theorem first_collision_reported {cmds : List Command} {k j : Nat} {c c' : Command}
    (hk : cmds[k]? = some c) (hj : cmds[j]? = some c') (hjk : j < k) (hc : Collide c' c)
    (hfirst : ∀ (k' j : Nat) (a a' : Command), k' < k → j < k' → cmds[k']? = some a → cmds[j]? = some a' →
      ¬ Collide a' a) :
    ∃ t, insertAll emptyNode cmds 0 =
      .error (if c.query then .queryExists else .commandExists, k, t) := by
  obtain ⟨e, k₀, t, h⟩ := collision_fails cmds (Nat.ne_of_lt hjk) hj hk hc
  obtain ⟨c₀, hk₀, ⟨j₀, c₀', hj₀, hc₀', hcoll⟩, hfirst₀, he, _⟩ := first_collision h
  have hkk : k₀ = k := by
    rcases Nat.lt_trichotomy k₀ k with hlt | heq | hgt
    · exact absurd hcoll (hfirst k₀ j₀ c₀ c₀' hlt hj₀ hk₀ hc₀')
    · exact heq
    · exact absurd hc (hfirst₀ k j c c' hgt hjk hk hj)
  subst hkk
  rw [hk] at hk₀; cases hk₀
  exact ⟨t, by rw [h, he]⟩

/-! ### Decidable forms -/

/-- Compilation succeeds iff the declaration list is pairwise collision-free
(a decidable criterion). -/
theorem compiles_iff_pairwise (cmds : List Command) :
    (∃ t, insertAll emptyNode cmds 0 = .ok t) ↔ cmds.Pairwise (fun a a' => ¬ Collide a a') := by
  rw [insertAll_ok_iff_gen emptyNode cmds 0 (below_emptyNode 0)]
  have : cmds.Pairwise PathsDisjoint ↔ cmds.Pairwise (fun a a' => ¬ Collide a a') := by
    constructor
    · exact List.Pairwise.imp fun hab => (pathsDisjoint_iff _ _).1 hab
    · exact List.Pairwise.imp fun hab => (pathsDisjoint_iff _ _).2 hab
  rw [this]
  constructor
  · exact fun h => h.2
  · intro h
    exact ⟨fun c _ p _ => by rw [emptyNode, lookupId_empty], h⟩

/-- Compilation fails at index `k` with error `e` iff the declarations before `k`
are pairwise collision-free, declaration `k` collides with one of them, and `e`
is the error kind of declaration `k` (a decidable criterion). -/
theorem fails_iff (cmds : List Command) (e : MacroErr) (k : Nat) :
    (∃ t, insertAll emptyNode cmds 0 = .error (e, k, t)) ↔
      ∃ c, cmds[k]? = some c ∧ (cmds.take k).Pairwise (fun a a' => ¬ Collide a a') ∧
        (∃ c' ∈ cmds.take k, Collide c' c) ∧
        e = (if c.query then .queryExists else .commandExists) := by
  have h0 := insertAll_error_iff emptyNode cmds 0 k e
  rw [Nat.zero_add] at h0
  rw [h0]
  constructor
  · rintro ⟨c, t, hc, hpre, herr⟩
    refine ⟨c, hc, (compiles_iff_pairwise _).1 ⟨t, hpre⟩, ?_, ?_⟩
    · obtain ⟨_, p, hp, j, hne, hj⟩ := insertPaths_error herr
      have := (insertAll_lookup (below_emptyNode 0) hpre c.query p j).1 hj
      rw [emptyNode, lookupId_empty] at this
      rcases this with h0 | ⟨_, c', hc', hq, hp'⟩
      · cases h0
      · exact ⟨c', List.mem_of_getElem? hc', hq, p, (mem_paths_iff c' p).1 hp',
          (mem_paths_iff c p).1 hp⟩
    · rw [(insertPaths_error herr).1]; rfl
  · rintro ⟨c, hc, hpw, ⟨c', hc', hq, p, hp', hp⟩, he⟩
    obtain ⟨t, hpre⟩ := (compiles_iff_pairwise _).2 hpw
    refine ⟨c, t, hc, hpre, ?_⟩
    rw [insertPaths_error_iff]
    refine ⟨by rw [he]; rfl, p, (mem_paths_iff c p).2 hp, ?_⟩
    obtain ⟨j, hj⟩ := List.getElem?_of_mem hc'
    have hjlt : j < (cmds.take k).length := (List.getElem?_eq_some_iff.1 hj).1
    rw [List.length_take] at hjlt
    refine ⟨j, by omega, ?_⟩
    rw [insertAll_lookup (below_emptyNode 0) hpre]
    exact .inr ⟨Nat.zero_le _, c', hj, hq, (mem_paths_iff c' p).2 hp'⟩

/-! ### Non-vacuity -/

/-- ASCII bytes of a literal (reduces in the kernel, unlike `strBytes`). -/
def b (s : String) : Bytes := s.toList.map Char.toNat

/-- Parse a list of declaration strings (a declaration that fails to parse is dropped). -/
def decls : List String → List Command
  | [] => []
  | s :: ss =>
    match Command.parse (b s) with
    | .ok c => c :: decls ss
    | .error _ => decls ss

example : decls ["SYSTem:ERRor:[NEXT]?"] =
    [⟨[⟨false, b "SYST", b "SYSTEM"⟩, ⟨false, b "ERR", b "ERROR"⟩, ⟨true, b "NEXT", b "NEXT"⟩],
      true⟩] := by decide

/-- The standard error-queue declarations compile … -/
example : ∃ t, insertAll emptyNode (decls ["SYSTem:ERRor:[NEXT]?", "SYSTem:ERRor:COUNt?"]) 0 = .ok t :=
  (compiles_iff_pairwise _).2 (by decide)

/-- … so `lookup_iff` applies to them: `SYST:ERR?` (optional node omitted) reaches
declaration 0, `SYSTEM:ERROR:COUN?` declaration 1, and there is no command
`SYST:ERR`. -/
example (t : Node)
    (h : insertAll emptyNode (decls ["SYSTem:ERRor:[NEXT]?", "SYSTem:ERRor:COUNt?"]) 0 = .ok t) :
    (walk t [b "SYST", b "ERR"]).bind (slot true) = some 0 ∧
    (walk t [b "SYSTEM", b "ERROR", b "COUN"]).bind (slot true) = some 1 ∧
    ¬ (walk t [b "SYST", b "ERR"]).bind (slot false) = some 0 := by
  refine ⟨(lookup_iff h _ _ _).2 ⟨_, rfl, rfl, by decide⟩,
    (lookup_iff h _ _ _).2 ⟨_, rfl, rfl, by decide⟩, ?_⟩
  rw [lookup_iff h]
  rintro ⟨c, hc, hq, _⟩
  cases hc; cases hq

/-- A declaration whose own paths coincide (`[AB]:[AB]` spells `AB` twice) compiles. -/
example : ∃ t, insertAll emptyNode (decls ["[AB]:[AB]"]) 0 = .ok t :=
  (compiles_iff_pairwise _).2 (by decide)
example : (decls ["[AB]:[AB]"])[0].paths = [[b "AB", b "AB"], [b "AB"], [b "AB"], []] := by decide

/-- Command and query of the same header do not collide. -/
example : ∃ t, insertAll emptyNode (decls ["VOLTage", "VOLTage?"]) 0 = .ok t :=
  (compiles_iff_pairwise _).2 (by decide)

/-- Collision only through the short form: reported at index 2 as `commandExists`. -/
example : ∃ t, insertAll emptyNode (decls ["FREQuency", "VOLTage", "VOLT"]) 0 =
    .error (.commandExists, 2, t) :=
  (fails_iff _ _ _).2 (by decide)

/-- Collision only through an optional node, query kind. -/
example : ∃ t, insertAll emptyNode (decls ["*IDN?", "[SOURce]:FREQuency?", "FREQ?"]) 0 =
    .error (.queryExists, 2, t) :=
  (fails_iff _ _ _).2 (by decide)

example : Collide (decls ["[SOURce]:FREQuency?"])[0] (decls ["FREQ?"])[0] := by decide
example : ¬ Collide (decls ["SYSTem:ERRor:[NEXT]?"])[0] (decls ["SYSTem:ERRor:COUNt?"])[0] := by
  decide

end C14
end Scpi
