/-
C03 — more parameters than the supported maximum (`MAX_ARGS` = 10).

`Scpi.Msg.run_render` and `Scpi.C11.parse_render` cover units with at most ten
parameters (`MsgUnit.wf`).  This file covers the rest: a unit whose header is
well-formed, whose literals are ALL well-formed, in any white space, but with MORE than
ten literals.

* `too_many_args_soft`: `parse` answers with the soft error `InvalidCharacter` when the
  header resolves, and with the fatal `UndefinedHeader` when it does not — never with a
  call.  Mechanism (Scpi/Proofs/ComboArity.lean): `arguments` refuses the eleventh
  `push` with `UnexpectedNumberOfParameters` (`arguments_overflow`), which is a soft
  error; `parse` then puts the input back to the first parameter (parser.rs:405-415)
  and looks for the unit terminator there; the first byte of a literal is not one.
  So the error REPORTED is `InvalidCharacter` (-101), not
  `UnexpectedNumberOfParameters` (-115).
* `too_many_args_runFrom`, `too_many_args_run`: consequently the interpreter reports
  exactly that one error, invokes no handler, writes nothing, drops the rest of the
  message and goes on behind the next newline from the root.
* `too_many_args_traced`: the same observably — the log of handler invocations and
  errors grows by the single event `error InvalidCharacter` (or `UndefinedHeader`).

All statements hold for every interface (every tree, all handlers — also a handler
DECLARED with eleven parameters is not invoked, see the examples), every writer and
user state.
-/
import Scpi.Proofs.ComboArity
import Scpi.Props.C02
import Scpi.Props.RunRender

namespace Scpi
namespace C03
open Msg Combo

/-- The error a unit with too many parameters costs: `InvalidCharacter` if its header
resolves, `UndefinedHeader` if not. -/
def overflowErr (root cur : Node) (u : MsgUnit) : Err :=
  match resolve root cur u.hdr.path with
  | some _ => .std .InvalidCharacter
  | none => .std .UndefinedHeader

/-- **More than `maxArgs` parameters: `parse` delivers no call.**  For every tree, every
current path, every unit with a well-formed header and MORE than ten well-formed
literals, every choice of white space (`ℓ.wf`, and some white space after the header:
`ℓ.fits u`), either terminator and anything behind it: a soft `InvalidCharacter` when
the header resolves, the fatal `UndefinedHeader` when it does not. -/
theorem too_many_args_soft (root cur : Node) (u : MsgUnit) (ℓ : Lex) (t : Term) (rest : Bytes)
    (hp : u.hdr.path.wf = true) (hl : u.lits.all Lit.wf = true) (hlen : maxArgs < u.lits.length)
    (hℓ : ℓ.wf = true) (hfit : ℓ.fits u = true) :
    parse root cur (render u ℓ t ++ rest) =
      match resolve root cur u.hdr.path with
      | some _ => .soft (some (.std .InvalidCharacter))
      | none => .fatal (.std .UndefinedHeader) :=
  parse_render_overflow root cur t rest hp hl hlen hℓ hfit

/-- What `arguments` itself says about the parameter list (before `parse` puts the input
back): the soft error `UnexpectedNumberOfParameters`, with the first ten values in the
vector.  `tl` is what follows the last literal (it starts with a delimiter). -/
theorem too_many_args_arguments (l : Lit) (ls : List Lit) (cs : List (Bytes × Bytes)) (w : Bytes)
    (t : Term) (rest : Bytes) (hwf : (l :: ls).all Lit.wf = true)
    (hcs : cs.all (fun p => allWs p.1 && allWs p.2) = true) (hw : allWs w = true)
    (hlen : maxArgs < (l :: ls).length) :
    arguments (renderArgs (l :: ls) cs ++ (w ++ t.byte :: rest)) =
      (.soft (some (.std .UnexpectedNumberOfParameters)), ((l :: ls).take maxArgs).map Lit.value) :=
  arguments_overflow hwf hcs hlen
    (delimHead_ws_append hw (by rcases t.byte_cases with e | e <;> rw [e] <;> decide))

/-- **One error, no handler, nothing written** (general form).  The unit anywhere in a
message (any current path `cur`, ended by `;` or by the terminator, followed by
anything), no newline inside its string and block payloads: `run_from` applies the
error handler once (`overflowErr`), leaves the writer untouched — no handler ran, and a
handler can only be reached through a call delivered by `parse` — and skips to behind
the next newline: the rest of the MESSAGE is dropped, as after any syntax error. -/
theorem too_many_args_runFrom {σ : Type} (I : Iface σ) (cur : Node) (u : MsgUnit) (ℓ : Lex)
    (t : Term) (rest : Bytes) (w : Writer) (s : σ)
    (hp : u.hdr.path.wf = true) (hl : u.lits.all Lit.wf = true) (hlen : maxArgs < u.lits.length)
    (hℓ : ℓ.wf = true) (hfit : ℓ.fits u = true) (hfree : unitNlFree u = true) :
    runFrom I cur (render u ℓ t ++ rest) w s =
      match afterNewline (t.byte :: rest) with
      | some r => runFrom I I.root r w (I.onError s (overflowErr I.root cur u))
      | none => { rest := render u ℓ t ++ rest, header := cur, w := w,
                  s := I.onError s (overflowErr I.root cur u) } := by
  have hparse := too_many_args_soft I.root cur u ℓ t rest hp hl hlen hℓ hfit
  have ha := afterNewline_render_long hp hl hℓ hfree t rest
  have hne := render_append_ne_nil u ℓ t rest
  unfold overflowErr
  cases hr : resolve I.root cur u.hdr.path with
  | none =>
    rw [hr] at hparse
    rw [C02.runFrom_fatal I cur _ w s _ hne hparse, ha]
    rfl
  | some nh =>
    rw [hr] at hparse
    rw [C02.runFrom_soft I cur _ w s _ hne hparse, ha]
    rfl

/-- **The newline-terminated unit**: one error, then on behind the terminator from the
root, with the writer as it was. -/
theorem too_many_args_run_from {σ : Type} (I : Iface σ) (cur : Node) (u : MsgUnit) (ℓ : Lex)
    (rest : Bytes) (w : Writer) (s : σ)
    (hp : u.hdr.path.wf = true) (hl : u.lits.all Lit.wf = true) (hlen : maxArgs < u.lits.length)
    (hℓ : ℓ.wf = true) (hfit : ℓ.fits u = true) (hfree : unitNlFree u = true) :
    runFrom I cur (render u ℓ .nl ++ rest) w s =
      runFrom I I.root rest w (I.onError s (overflowErr I.root cur u)) := by
  rw [too_many_args_runFrom I cur u ℓ .nl rest w s hp hl hlen hℓ hfit hfree]
  simp only [Term.byte, afterNewline_nl]

/-- **A message consisting of such a unit**: `run` consumes it, ends at the root without
crash; the user state is `onError s e` for the ONE error `e = overflowErr …` — no
handler was applied to it — and the writer is untouched. -/
theorem too_many_args_run {σ : Type} (I : Iface σ) (u : MsgUnit) (ℓ : Lex) (w : Writer) (s : σ)
    (hp : u.hdr.path.wf = true) (hl : u.lits.all Lit.wf = true) (hlen : maxArgs < u.lits.length)
    (hℓ : ℓ.wf = true) (hfit : ℓ.fits u = true) (hfree : unitNlFree u = true) :
    run I (render u ℓ .nl) w s = finished I (w, I.onError s (overflowErr I.root I.root u)) := by
  have := too_many_args_run_from I I.root u ℓ [] w s hp hl hlen hℓ hfit hfree
  rw [List.append_nil, runFrom_nil] at this
  exact this

/-- **Observably**: with the tracing wrapper (every handler invocation appends a `call`
event, every `onError` an `error` event) the log grows by exactly one `error` event and
no `call` event. -/
theorem too_many_args_traced {σ : Type} (I : Iface σ) (u : MsgUnit) (ℓ : Lex) (w : Writer) (s : σ)
    (l : List Ev)
    (hp : u.hdr.path.wf = true) (hl : u.lits.all Lit.wf = true) (hlen : maxArgs < u.lits.length)
    (hℓ : ℓ.wf = true) (hfit : ℓ.fits u = true) (hfree : unitNlFree u = true) :
    run I.traced (render u ℓ .nl) w (s, l) =
      finished I.traced (w, (I.onError s (overflowErr I.root I.root u),
        l ++ [Ev.error (overflowErr I.root I.root u)])) :=
  too_many_args_run I.traced u ℓ w (s, l) hp hl hlen hℓ hfit hfree

/-! ### Non-vacuity

A tree with one command `T` whose handler is DECLARED with eleven `u8` parameters; the
user state counts handler invocations and logs errors. -/

namespace ArityDemo

def I : Iface (Nat × List Err) where
  root := .mk 0 [([84], .mk 1 [] (some 0) none)] none none
  cmds := [{ argTys := List.replicate 11 .u8, handler := fun s _ => ((s.1 + 1, s.2), .ok .unit) }]
  onError := fun s e => (s.1, s.2 ++ [e])

/-- The decimal literal `k` (one digit). -/
def d (k : Nat) : Lit := .dec { sign := none, int := [48 + k], dot := false, frac := [], exp := none }

/-- `T` (or the undefined `U`) with `n` one-digit parameters `0,1,2,…`. -/
def unit (name n : Nat) : MsgUnit :=
  { hdr := { path := .compound false [[name]], query := false }, lits := (List.range n).map fun k => d (k % 10) }

def ℓ : Lex := { lead := [], sep := [32], commas := [([], [32])], trail := [13] }

example : render (unit 84 11) ℓ .nl =
    [84, 32, 48, 44, 32, 49, 44, 50, 44, 51, 44, 52, 44, 53, 44, 54, 44, 55, 44, 56, 44, 57, 44, 48, 13, 10] := by
  decide

/-- The hypotheses hold for 11 and for 12 literals … -/
example : (unit 84 11).hdr.path.wf = true ∧ (unit 84 11).lits.all Lit.wf = true ∧
    maxArgs < (unit 84 11).lits.length ∧ maxArgs < (unit 84 12).lits.length ∧
    (unit 84 12).lits.all Lit.wf = true ∧ ℓ.wf = true ∧ ℓ.fits (unit 84 11) = true ∧
    unitNlFree (unit 84 11) = true ∧ unitNlFree (unit 84 12) = true := by decide

/-- … `parse` (computed, independently of the theorem) … -/
example : (match parse I.root I.root (render (unit 84 11) ℓ .nl) with
      | .soft (some (.std .InvalidCharacter)) => true | _ => false) = true ∧
    (match parse I.root I.root (render (unit 84 12) ℓ .semi ++ [88, 10]) with
      | .soft (some (.std .InvalidCharacter)) => true | _ => false) = true ∧
    (match parse I.root I.root (render (unit 85 11) ℓ .nl) with
      | .fatal (.std .UndefinedHeader) => true | _ => false) = true := by decide +kernel

/-- … and `run`: one error, the handler — declared with eleven parameters — not invoked,
nothing written; with ten parameters it is the handler's turn (and it refuses nothing:
the arity check reports `UnexpectedNumberOfParameters`). -/
example : (run I (render (unit 84 11) ℓ .nl) { cap := none } (0, [])).s = (0, [.std .InvalidCharacter]) ∧
    (run I (render (unit 84 12) ℓ .nl) { cap := none } (0, [])).s = (0, [.std .InvalidCharacter]) ∧
    (run I (render (unit 85 11) ℓ .nl) { cap := none } (0, [])).s = (0, [.std .UndefinedHeader]) ∧
    (run I (render (unit 84 11) ℓ .nl) { cap := none } (0, [])).w.buf = [] ∧
    (run I (render (unit 84 10) ℓ .nl) { cap := none } (0, [])).s =
      (0, [.std .UnexpectedNumberOfParameters]) := by decide +kernel

/-- The theorem, instantiated. -/
example : run I (render (unit 84 11) ℓ .nl) { cap := none } (0, []) =
    finished I ({ cap := none }, (0, [.std .InvalidCharacter])) :=
  too_many_args_run I (unit 84 11) ℓ _ _ (by decide) (by decide) (by decide) (by decide) (by decide)
    (by decide)

/-- The rest of the message is dropped: `T 0,…,0 ; T⏎ T⏎` — one error for the first
message (not two), one for the second (`T` without parameters: arity). -/
example : (run I (render (unit 84 11) ℓ .semi ++ [84, 10, 84, 10]) { cap := none } (0, [])).s =
    (0, [.std .InvalidCharacter, .std .UnexpectedNumberOfParameters]) := by decide +kernel

/-- The payload condition of `too_many_args_runFrom` is needed: with a newline inside the
eleventh (string) parameter the skipping ends there and what follows the embedded newline
is read as a new message — a second error. -/
example :
    let u : MsgUnit := { unit 84 10 with lits := (unit 84 10).lits ++ [.str 34 [10, 33]] }
    u.lits.all Lit.wf = true ∧ maxArgs < u.lits.length ∧
    (run I (render u ℓ .nl) { cap := none } (0, [])).s =
      (0, [.std .InvalidCharacter, .std .UndefinedHeader]) := by decide +kernel

end ArityDemo

end C03
end Scpi
