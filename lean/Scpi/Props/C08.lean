/-
C08 (recogniser and `parse` level) — "The payload of a quoted string or
definite-length block may contain any byte its syntax permits — ';', ',', ':', '#',
the other quote character, white space, and newline — and is delivered verbatim, never
interpreted as a separator or terminator."

* `string_verbatim`  : `quoted q` on `q payload q rest` returns `payload` and leaves
  `rest`, for EVERY payload that is valid UTF-8 and does not contain the byte `q`.
* `block_verbatim`   : `arbitrary` on `#`, the digit `nd`, the length in `nd` decimal
  digits (zero-padded), `payload`, `rest` returns `payload` and leaves `rest`, for
  EVERY payload (all byte values, also ≥ 128 and invalid UTF-8) and every 1 ≤ nd ≤ 9.
* `argument_string`, `argument_block` : the ordered choice `argument` selects these
  recognisers for such inputs.
* `parse_string_param`, `parse_block_param`, `parse_args_verbatim` : the unit that
  `parse` returns carries the payloads unchanged and ends at the terminator AFTER the
  payload, even when the payload contains `;` or newline.

The streaming half (the payload may be split over several `process` calls) is in
Scpi/Props/C08Process.lean.  Proofs: Scpi/Proofs/RenderLit.lean, RenderArg.lean.
-/
import Scpi.Props.C11

namespace Scpi
namespace C08

/-! ### Strings -/

/-- **Strings are verbatim**: whatever bytes other than the quote `q` the payload
contains — `;` `,` `:` `#` newline, white space, the other quote — they are payload,
and what follows the closing quote is untouched (also when it is empty). -/
theorem string_verbatim (q : Nat) (payload rest : Bytes) (hv : validUtf8 payload = true)
    (hq : ∀ b ∈ payload, b ≠ q) :
    quoted q (q :: (payload ++ q :: rest)) = .ok rest (.str payload) :=
  quoted_render q rest hv (List.all_eq_true.mpr fun b hb => by simpa using hq b hb)

/-- `argument` recognises a single- or double-quoted string as a string. -/
theorem argument_string (q : Nat) (payload rest : Bytes) (hq39 : q = 39 ∨ q = 34)
    (hv : validUtf8 payload = true) (hq : ∀ b ∈ payload, b ≠ q) :
    argument (q :: (payload ++ q :: rest)) = .ok rest (.str payload) :=
  argument_str rest (by rcases hq39 with e | e <;> subst e <;> rfl) hv
    (List.all_eq_true.mpr fun b hb => by simpa using hq b hb)

/-- The payload `a;b,c:d#e'f \n` (all the separators, the other quote, a blank and a
newline) in double quotes, followed by `;X`. -/
example : argument ([34] ++ [97, 59, 98, 44, 99, 58, 100, 35, 101, 39, 102, 32, 10] ++ [34] ++ [59, 88])
    = .ok [59, 88] (.str [97, 59, 98, 44, 99, 58, 100, 35, 101, 39, 102, 32, 10]) := rfl

/-- The hypotheses of `string_verbatim` hold for that payload. -/
example : validUtf8 [97, 59, 98, 44, 99, 58, 100, 35, 101, 39, 102, 32, 10] = true ∧
    ∀ b ∈ [97, 59, 98, 44, 99, 58, 100, 35, 101, 39, 102, 32, 10], b ≠ 34 := by decide

/-! ### Blocks -/

/-- `#`, the number of length digits, the length in that many digits. -/
def blockHeader (nd len : Nat) : Bytes := 35 :: (48 + nd) :: padDigits nd len

example : blockHeader 1 5 = [35, 49, 53] ∧ blockHeader 3 42 = [35, 51, 48, 52, 50] ∧
    blockHeader 9 0 = [35, 57, 48, 48, 48, 48, 48, 48, 48, 48, 48] := by decide

/-- The length field is the decimal spelling of the length: its digits evaluate to it. -/
theorem blockHeader_length_value (nd len : Nat) (h : len < 10 ^ nd) :
    (padDigits nd len).length = nd ∧ (padDigits nd len).all isDigit = true ∧
      digitsVal 10 (padDigits nd len) 0 = some len :=
  ⟨padDigits_length nd len, padDigits_all_digit nd len, by
    rw [digitsVal_padDigits, Nat.mod_eq_of_lt h]⟩

/-- **Blocks are verbatim**: exactly `payload.length` bytes of ANY value follow the
header and are the payload; what follows is untouched (also when it is empty). -/
theorem block_verbatim (nd : Nat) (payload rest : Bytes) (h1 : 1 ≤ nd) (h9 : nd ≤ 9)
    (hl : payload.length < 10 ^ nd) :
    arbitrary (blockHeader nd payload.length ++ payload ++ rest) = .ok rest (.arb payload) := by
  have := arbitrary_render payload rest h1 h9 hl
  simpa only [blockHeader, List.cons_append, List.append_assoc] using this

/-- `argument` recognises it as a block (not as `#H`, `#B`, `#Q` data). -/
theorem argument_block (nd : Nat) (payload rest : Bytes) (h1 : 1 ≤ nd) (h9 : nd ≤ 9)
    (hl : payload.length < 10 ^ nd) :
    argument (blockHeader nd payload.length ++ payload ++ rest) = .ok rest (.arb payload) := by
  have := Scpi.argument_block payload rest h1 h9 hl
  simpa only [blockHeader, List.cons_append, List.append_assoc] using this

/-- `#206` and the six bytes `; \n , 0xFF 0x00 "`, followed by `\n`. -/
example : argument (blockHeader 2 6 ++ [59, 10, 44, 255, 0, 34] ++ [10])
    = .ok [10] (.arb [59, 10, 44, 255, 0, 34]) := rfl

/-! ### `parse` -/

/-- **Every parameter of an accepted unit is delivered verbatim** (for strings and
blocks: the payload), whatever white space the unit is rendered with; the unit ends at
the terminator after the last parameter. -/
theorem parse_args_verbatim (root cur : Node) (u : MsgUnit) (ℓ : Lex) (t : Term) (rest : Bytes)
    (hu : u.wf = true) (hℓ : ℓ.wf = true) (hfit : ℓ.fits u = true) (nh : Node × Option Node)
    (hr : resolve root cur u.hdr.path = some nh) :
    ∃ c, parse root cur (render u ℓ t ++ rest) = .ok rest (some c) ∧ c.node = nh.1 ∧
      c.args = u.lits.map Lit.value := by
  rw [C11.parse_render root cur u ℓ t rest hu hℓ hfit, hr]
  exact ⟨_, rfl, rfl, rfl⟩

/-- A header, a blank and one string parameter. -/
theorem parse_string_param (root cur : Node) (p : HdrPath) (q : Nat) (payload rest : Bytes)
    (t : Term) (hp : p.wf = true) (hq39 : q = 39 ∨ q = 34) (hv : validUtf8 payload = true)
    (hq : ∀ b ∈ payload, b ≠ q) (nh : Node × Option Node) (hr : resolve root cur p = some nh) :
    parse root cur (p.render ++ 32 :: q :: (payload ++ q :: t.byte :: rest)) =
      .ok rest (some { node := nh.1, header := nh.2, query := false, args := [.str payload],
                       terminated := decide (t = .nl) }) := by
  have hw : (MsgUnit.mk ⟨p, false⟩ [.str q payload]).wf = true := by
    have hq' : (q == 39 || q == 34) = true := by rcases hq39 with e | e <;> subst e <;> rfl
    have hall : payload.all (fun c => c != q) = true :=
      List.all_eq_true.mpr fun b hb => by simpa using hq b hb
    simp [MsgUnit.wf, hp, Lit.wf, hq', hv, hall, maxArgs]
  have := C11.parse_render root cur ⟨⟨p, false⟩, [.str q payload]⟩ ⟨[], [32], [], []⟩ t rest hw
    (by decide) rfl
  simp only [hr] at this
  simpa only [render, Hdr.render, renderArgs, renderMore, Lit.render, Lit.value, List.nil_append,
    List.append_nil, List.append_assoc, List.cons_append, Bool.false_eq_true, if_false,
    List.map_cons, List.map_nil] using this

/-- A header, a blank and one block parameter. -/
theorem parse_block_param (root cur : Node) (p : HdrPath) (nd : Nat) (payload rest : Bytes)
    (t : Term) (hp : p.wf = true) (h1 : 1 ≤ nd) (h9 : nd ≤ 9) (hl : payload.length < 10 ^ nd)
    (nh : Node × Option Node) (hr : resolve root cur p = some nh) :
    parse root cur (p.render ++ 32 :: (blockHeader nd payload.length ++ payload ++ t.byte :: rest)) =
      .ok rest (some { node := nh.1, header := nh.2, query := false, args := [.arb payload],
                       terminated := decide (t = .nl) }) := by
  have hw : (MsgUnit.mk ⟨p, false⟩ [.block nd payload]).wf = true := by
    simp [MsgUnit.wf, hp, Lit.wf, h1, h9, hl, maxArgs]
  have := C11.parse_render root cur ⟨⟨p, false⟩, [.block nd payload]⟩ ⟨[], [32], [], []⟩ t rest hw
    (by decide) rfl
  simp only [hr] at this
  simpa only [render, Hdr.render, renderArgs, renderMore, Lit.render, Lit.value, blockHeader,
    List.nil_append, List.append_nil, List.append_assoc, List.cons_append, Bool.false_eq_true,
    if_false, List.map_cons, List.map_nil] using this

/-- `S:A "x;y\n";S:A\n`: the first unit ends at the `;` after the closing quote. -/
example : ∃ c, parse C11.tree C11.tree
      ([83, 58, 65, 32, 34, 120, 59, 121, 10, 34, 59] ++ [83, 58, 65, 10])
    = .ok [83, 58, 65, 10] (some c) ∧ c.args = [.str [120, 59, 121, 10]] ∧ c.terminated = false :=
  ⟨_, rfl, rfl, rfl⟩

/-- `S:A #13;\n;\n`: the three payload bytes `;\n;` are data, the final `\n` terminates. -/
example : ∃ c, parse C11.tree C11.tree [83, 58, 65, 32, 35, 49, 51, 59, 10, 59, 10]
    = .ok [] (some c) ∧ c.args = [.arb [59, 10, 59]] ∧ c.terminated = true :=
  ⟨_, rfl, rfl, rfl⟩

end C08
end Scpi
