/-
C03 — the two halves joined for real parameters: from the SPELLING of a decimal literal
(`DecText`, Scpi/Spec/Ast.lean — the grammar of the SCPI recogniser, for which
`Scpi.C03.decimal_verbatim` in Scpi/Props/C03Lex.lean shows that the parser delivers
`.dec d.render` verbatim) to the float the handler receives.

* `decText_denotes`: the text of a well-formed decimal literal, after its sign, is an
  `IsDecimalText` denoting `int.frac · 10^exp`.
* `decimal_literal_to_float`: `convert .f64 (.dec d.render)` (and `.f32`) succeeds — a
  well-formed decimal literal NEVER yields -120 for a float parameter — and delivers
  `roundRat` of exactly that rational (nearest, ties to even, `C03.roundRat_nearest`),
  sign bit set iff the literal's sign is `-`.
-/
import Scpi.Props.C03
import Scpi.Spec.Ast

namespace Scpi
namespace C03

/-- The exponent a decimal spelling denotes (0 when absent). -/
def decExpValue : Option (Nat × Option Nat × Bytes) → Int
  | none => 0
  | some (_, s, ds) => if s = some 45 then -(decimalValue ds : Int) else (decimalValue ds : Int)

/-- The text of a decimal spelling after its sign. -/
def decBody (d : DecText) : Bytes :=
  d.int ++ ((if d.dot then [46] else []) ++ d.frac) ++ DecText.renderExp d.exp

theorem decText_render (d : DecText) : d.render = d.sign.toList ++ decBody d := by
  simp [DecText.render, DecText.renderMantissa, decBody]

theorem allDigits_of_all {s : Bytes} (h : s.all isDigit = true) : AllDigits s := by
  intro b hb
  have := List.all_eq_true.mp h b hb
  simpa [isDigit] using this

theorem isExponent_render (ex : Option (Nat × Option Nat × Bytes))
    (h : (match ex with
          | none => true
          | some (e, s, ds) =>
            (e == 69 || e == 101) && isSignOpt s && ds.all isDigit && !ds.isEmpty) = true) :
    IsExponent (DecText.renderExp ex) (decExpValue ex) := by
  cases ex with
  | none => exact .absent
  | some t =>
    obtain ⟨e, s, ds⟩ := t
    simp only [Bool.and_eq_true, Bool.or_eq_true, beq_iff_eq, Bool.not_eq_true',
      List.isEmpty_eq_false_iff] at h
    obtain ⟨⟨⟨he, hs⟩, hd⟩, hne⟩ := h
    have hd' := allDigits_of_all hd
    cases s with
    | none => exact .plain e ds he hne hd'
    | some sg =>
      simp only [isSignOpt, Bool.or_eq_true, beq_iff_eq] at hs
      rcases hs with rfl | rfl
      · exact .plus e ds he hne hd'
      · exact .minus e ds he hne hd'

/-- **A well-formed decimal spelling denotes `int.frac · 10^exp`.** -/
theorem decText_denotes (d : DecText) (hw : d.wf = true) :
    IsDecimalText (decBody d) (decimalValue (d.int ++ d.frac))
      (decExpValue d.exp - (d.frac.length : Int)) ∧ isSignOpt d.sign = true := by
  unfold DecText.wf at hw
  simp only [Bool.and_eq_true, Bool.or_eq_true, Bool.not_eq_true', List.isEmpty_iff,
    List.isEmpty_eq_false_iff] at hw
  obtain ⟨⟨⟨⟨⟨hsg, hint⟩, hfrac⟩, hdot⟩, hne⟩, hex⟩ := hw
  refine ⟨⟨d.int, d.frac, DecText.renderExp d.exp, decExpValue d.exp, allDigits_of_all hint,
    allDigits_of_all hfrac, hne, isExponent_render d.exp hex, ?_, rfl, rfl⟩, hsg⟩
  unfold decBody
  by_cases hd : d.dot = true
  · right
    simp [hd]
  · rcases hdot with h | h
    · exact absurd h hd
    · left
      simp [hd, h]

/-- A decimal body starts with a digit or the point — not with a sign. -/
theorem isDecimalText_head {s : Bytes} {m : Nat} {e : Int} (h : IsDecimalText s m e) :
    ∃ c rest, s = c :: rest ∧ c ≠ 45 ∧ c ≠ 43 := by
  obtain ⟨ip, fp, ex, x, hip, hfp, hne, hex, hs, -, -⟩ := h
  cases ip with
  | cons b ip' =>
    have := (hip b (by simp))
    rcases hs with ⟨rfl, -⟩ | rfl
    · exact ⟨b, _, rfl, by omega, by omega⟩
    · exact ⟨b, _, rfl, by omega, by omega⟩
  | nil =>
    rcases hs with ⟨-, rfl⟩ | rfl
    · exact absurd rfl hne
    · exact ⟨46, _, rfl, by omega, by omega⟩

/-- **A well-formed decimal literal always converts to a float, correctly rounded.**
For binary32 and binary64: the text `d.render` of a well-formed decimal spelling parses
(so `convert` never answers -120 for it), and the pattern delivered is `roundRat` of
the exact rational `int.frac · 10^exp` it denotes, plus the sign bit iff its sign is `-`. -/
theorem decimal_literal_to_float (f : FloatFmt) (hf : f = fmt32 ∨ f = fmt64) (d : DecText)
    (hw : d.wf = true) :
    parseFloat f d.render =
      some (roundDecExact f (decimalValue (d.int ++ d.frac))
              (decExpValue d.exp - (d.frac.length : Int)) +
            (if d.sign = some 45 then f.signBit else 0)) := by
  obtain ⟨hden, hsg⟩ := decText_denotes d hw
  rw [decText_render]
  obtain ⟨c, rest, hbody, h45, h43⟩ := isDecimalText_head hden
  cases hs : d.sign with
  | none =>
    simp only [Option.toList_none, List.nil_append, hbody]
    have := parseFloat_correct f hf c rest _ _ (by simpa [h45, h43, hbody] using hden)
    simpa [roundDecExact, h45] using this
  | some sg =>
    rw [hs] at hsg
    simp only [isSignOpt, Bool.or_eq_true, beq_iff_eq] at hsg
    simp only [Option.toList_some, List.singleton_append]
    rcases hsg with rfl | rfl
    · have := parseFloat_correct f hf 43 (decBody d) _ _ (by simpa using hden)
      simpa [roundDecExact] using this
    · have := parseFloat_correct f hf 45 (decBody d) _ _ (by simpa using hden)
      simpa [roundDecExact] using this

/-- … so `convert .f64` / `.f32` succeed on it. -/
theorem decimal_literal_converts (d : DecText) (hw : d.wf = true) :
    (∃ b, convert .f64 (.dec d.render) = .ok (.f64 b)) ∧
    (∃ b, convert .f32 (.dec d.render) = .ok (.f32 b)) := by
  refine ⟨⟨_, (convert_f64_dec _ _).mpr (decimal_literal_to_float fmt64 (Or.inr rfl) d hw)⟩,
    ⟨_, (convert_f32_dec _ _).mpr (decimal_literal_to_float fmt32 (Or.inl rfl) d hw)⟩⟩

/-- Non-vacuity: `+01.50e-3` is well formed, renders as written and denotes `150 · 10^-5`. -/
example :
    let d : DecText := ⟨some 43, [48, 49], true, [53, 48], some (101, some 45, [51])⟩
    d.wf = true ∧ d.render = [43, 48, 49, 46, 53, 48, 101, 45, 51] ∧
    decimalValue (d.int ++ d.frac) = 150 ∧ decExpValue d.exp - (d.frac.length : Int) = -5 := by
  decide

end C03
end Scpi
