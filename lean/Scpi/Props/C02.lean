/-
C02 — compound-command path rule, message isolation, sequential execution
(dispatcher side: the decision logic of `run`/`run_from`; the lexical side of the
header recognisers is in the parser properties).

"Within one program message a unit that follows ';' is resolved relative to the path
of the preceding unit's header (that header without its last mnemonic), a leading ':'
makes the unit absolute and resets the path to the root, and common '*' commands
leave the path untouched.  Every message terminator resets the path to the root, so
the handler a message selects never depends on any message sent before it.  Units
execute one at a time, in the order written, each finishing (response included)
before the next starts."

All theorems hold for every interface: every tree, every handler table (arbitrary
functions `σ → List TVal → σ × Except Err Resp`), every error handler, every writer.

* T2.3 (sequencing): `runLoop_fuel_irrelevant`, the one-step equations
  `runFrom_incomplete … runFrom_call`, `run_sequential`, `run_is_big_step`,
  `events_in_order`.
* T2.1 (path rule): `common_keeps_path`, `absolute_ignores_path`,
  `relative_starts_at_path`, `new_path_is_parent`, `path_after_unit`.
* T2.2 (isolation): `run_append_message`, `run_append_message_run`; they take parser
  finality (`ParseFinalOk`, `ParseFinalErr`, proved with the parser properties) as
  explicit hypotheses.
-/
import Scpi.Proofs.RunStepsLog
import Scpi.Proofs.RunStepsPath
import Scpi.Proofs.RunStepsIso
import Scpi.Proofs.RunStepsDemo

namespace Scpi
namespace C02

/-! ## T2.3 — one unit at a time, in the order written -/

/-- The fuel of the loop is only a termination device: any two amounts above the
input length give the same run, so `runFrom` is a function of its arguments that
can be unfolded one unit at a time. -/
theorem runLoop_fuel_irrelevant {σ : Type} (I : Iface σ) (f1 f2 : Nat) (h : Node) (input : Bytes)
    (w : Writer) (s : σ) (h1 : input.length < f1) (h2 : input.length < f2) :
    runLoop I f1 h input w s = runLoop I f2 h input w s :=
  Scpi.runLoop_fuel_irrelevant I f1 f2 h input w s h1 h2

/-- Nothing to read: nothing happens. -/
theorem runFrom_nil {σ : Type} (I : Iface σ) (h : Node) (w : Writer) (s : σ) :
    runFrom I h [] w s = { rest := [], header := h, w := w, s := s } :=
  Scpi.runFrom_nil I h w s

/-- An incomplete unit is left in the buffer; path, writer and user state are untouched. -/
theorem runFrom_incomplete {σ : Type} (I : Iface σ) (h : Node) (input : Bytes) (w : Writer) (s : σ)
    (hne : input ≠ []) (hp : parse I.root h input = .incomplete) :
    runFrom I h input w s = { rest := input, header := h, w := w, s := s } :=
  runFrom_stop hne (unitStep_incomplete I ⟨h, input, w, s⟩ hp)

/-- A recoverable syntax error: exactly one `onError`, then the run goes on after the
first newline, from the root (or stops, keeping the input, when there is no newline). -/
theorem runFrom_soft {σ : Type} (I : Iface σ) (h : Node) (input : Bytes) (w : Writer) (s : σ)
    (e : Option Err) (hne : input ≠ []) (hp : parse I.root h input = .soft e) :
    runFrom I h input w s =
      match afterNewline input with
      | some rest => runFrom I I.root rest w (I.onError s (parseErrToErr e))
      | none => { rest := input, header := h, w := w, s := I.onError s (parseErrToErr e) } := by
  rw [runFrom_step I h input w s hne, unitStep_soft I ⟨h, input, w, s⟩ e hp]
  simp only []
  cases afterNewline input <;> rfl

/-- A fatal error (undefined header): the same, with the error itself. -/
theorem runFrom_fatal {σ : Type} (I : Iface σ) (h : Node) (input : Bytes) (w : Writer) (s : σ)
    (e : Err) (hne : input ≠ []) (hp : parse I.root h input = .fatal e) :
    runFrom I h input w s =
      match afterNewline input with
      | some rest => runFrom I I.root rest w (I.onError s e)
      | none => { rest := input, header := h, w := w, s := I.onError s e } := by
  rw [runFrom_step I h input w s hne, unitStep_fatal I ⟨h, input, w, s⟩ e hp]
  simp only []
  cases afterNewline input <;> rfl

/-- An empty message (a bare terminator): the run goes on behind it, from the root. -/
theorem runFrom_empty_message {σ : Type} (I : Iface σ) (h : Node) (input i : Bytes) (w : Writer)
    (s : σ) (hne : input ≠ []) (hp : parse I.root h input = .ok i none) :
    runFrom I h input w s = runFrom I I.root i w s := by
  rw [runFrom_step I h input w s hne, unitStep_empty_message I ⟨h, input, w, s⟩ i hp]

/-- An accepted unit: it is executed — handler and response — to the end, on the
writer and user state the previous units left; `onError` is applied once iff the
execution returned an error (with exactly that error); then the run goes on behind
the unit with the writer and state the unit left and the path
`headerAfter I.root h call` (root after a terminator, else the unit's own path, else
— common command — the path unchanged). -/
theorem runFrom_call {σ : Type} (I : Iface σ) (h : Node) (input i : Bytes) (call : CommandCall)
    (w : Writer) (s : σ) (hne : input ≠ []) (hp : parse I.root h input = .ok i (some call)) :
    runFrom I h input w s =
      runFrom I (headerAfter I.root h call) i (execute I call w s).2.1
        (reportExec I (execute I call w s).1 (execute I call w s).2.2) := by
  rw [runFrom_step I h input w s hne, unitStep_call I ⟨h, input, w, s⟩ i call hp]

/-- `reportExec`: the error handler runs iff the unit's execution returned an error. -/
theorem reportExec_eq {σ : Type} (I : Iface σ) (s : σ) (r : ExecRes) :
    reportExec I s r = match r with | .err e => I.onError s e | _ => s := by
  cases r <;> rfl

/-- `runFrom` is exactly the big-step relation "perform unit steps one after the other,
each on the configuration the previous one left, until one stops or the input is
used up". -/
theorem run_is_big_step {σ : Type} (I : Iface σ) (h : Node) (input : Bytes) (w : Writer) (s : σ)
    (o : RunOut σ) : runFrom I h input w s = o ↔ Runs I ⟨h, input, w, s⟩ o :=
  runFrom_iff_runs I ⟨h, input, w, s⟩ o

/-- **T2.3**: every run is a finite chain of configurations `c₀ → c₁ → … → last`,
`c₀` the initial one, each obtained from its predecessor by ONE `unitStep` (which
parses one unit at the front of the unread input and executes it completely, response
included, before the next configuration exists), and the result of the run is what
the last configuration yields: its own writer and user state when the input is used
up, else whatever the stopping step (incomplete unit, error without newline) returns.
So writer and user state are folded through the units in the order written. -/
theorem run_sequential {σ : Type} (I : Iface σ) (h : Node) (input : Bytes) (w : Writer) (s : σ) :
    ∃ (cs : List (Cfg σ)) (last : Cfg σ), IsTrace I ⟨h, input, w, s⟩ cs last ∧
      ((last.input = [] ∧
          runFrom I h input w s =
            { rest := [], header := last.header, w := last.w, s := last.s }) ∨
       (last.input ≠ [] ∧ unitStep I last = .stop (runFrom I h input w s))) :=
  runs_trace I _ _ ((runFrom_iff_runs I ⟨h, input, w, s⟩ _).1 rfl)

/-- Each step of the chain reads strictly further into the same buffer. -/
theorem step_advances {σ : Type} (I : Iface σ) (c c' : Cfg σ) (h : unitStep I c = .next c') :
    c'.input.length < c.input.length ∧ c'.input <:+ c.input :=
  unitStep_next_lt I c c' h

/-- **Order of the observable events.**  With the tracing wrapper (every handler
invocation and every `onError` appends an event to a log; behaviour is otherwise
unchanged, see `traced_same_behaviour`) the events of a run are: those of the first
unit — its handler invocation, if any, BEFORE its error report, if any — followed by
the events of the run on the configuration that unit left. -/
theorem events_in_order {σ : Type} (I : Iface σ) (h : Node) (x : Bytes) (w : Writer) (s : σ)
    (hne : x ≠ []) :
    runLog I (fun id tvs => [Ev.call id tvs]) (fun e => [Ev.error e]) h x w s =
      unitLog I (fun id tvs => [Ev.call id tvs]) (fun e => [Ev.error e]) ⟨h, x, w, s⟩ ++
        match unitStep I ⟨h, x, w, s⟩ with
        | .stop _ => []
        | .next c => runLog I (fun id tvs => [Ev.call id tvs]) (fun e => [Ev.error e])
            c.header c.input c.w c.s :=
  runLog_step I _ _ h x w s hne

/-- The tracing wrapper changes nothing but the log, and the log only grows. -/
theorem traced_same_behaviour {σ : Type} (I : Iface σ) (h : Node) (x : Bytes) (w : Writer) (s : σ)
    (l : List Ev) :
    runFrom I.traced h x w (s, l) =
      (runFrom I h x w s).withLog
        (l ++ runLog I (fun id tvs => [Ev.call id tvs]) (fun e => [Ev.error e]) h x w s) :=
  runFrom_instrument I _ _ h x w s l

/-! ## T2.1 — the path rule -/

/-- **Common commands leave the path untouched**: an accepted `*` header reports no
path (`hdr = none`) and is looked up at the ROOT whatever the current path is; the
loop then keeps its path (`headerAfter … = h` unless the unit ended the message). -/
theorem common_keeps_path (root h : Node) (i rest : Bytes) (node : Node) (hdr : Option Node)
    (hc : commonHeader root i = .ok rest (node, hdr)) :
    hdr = none ∧ (∃ name, root.child (42 :: name) = some node) ∧
    ∀ call : CommandCall, call.header = hdr → call.terminated = false →
      headerAfter root h call = h := by
  obtain ⟨h1, h2⟩ := commonHeader_ok root i rest node hdr hc
  refine ⟨h1, h2, fun call hh ht => ?_⟩
  simp [headerAfter, ht, hh, h1]

/-- **A leading colon makes the unit absolute**: the compound header (hence the
whole header recogniser) gives the same result from every path … -/
theorem absolute_ignores_path (root h h' : Node) (i i1 : Bytes) (u : Unit)
    (hs : optP headerSeparator i = .ok i1 (some u)) :
    compoundHeader root h i = compoundHeader root h' i ∧
    commandHeader root h i = commandHeader root h' i :=
  ⟨compoundHeader_absolute root h h' i i1 u hs, commandHeader_absolute root h h' i i1 u hs⟩

/-- … and so does `parse` for a unit that begins (after white space) with a colon. -/
theorem absolute_unit_ignores_path (root h h' : Node) (input i1 i2 i3 : Bytes) (v : Option Bytes)
    (t : Option Nat) (u : Unit) (e1 : optP whitespace input = .ok i1 v)
    (e2 : optP (tag 10) i1 = .ok i2 t) (hs : optP headerSeparator i2 = .ok i3 (some u)) :
    parse root h input = parse root h' input :=
  parse_absolute root h h' input i1 i2 i3 v t u e1 e2 hs

/-- **Without a colon the walkKeys starts at the current path**; in both cases the header
is a walkKeys down the tree: the node selected is reached from the start node (root if
there was a colon, else `h`) by the mnemonics `names`, and the path reported is the
node reached by all of them BUT THE LAST. -/
theorem relative_starts_at_path (root h : Node) (i rest : Bytes) (node : Node) (hdr : Option Node)
    (hc : compoundHeader root h i = .ok rest (node, hdr)) :
    ∃ (i1 : Bytes) (colon : Option Unit) (names : List Bytes),
      optP headerSeparator i = .ok i1 colon ∧ names ≠ [] ∧
      walkKeys (if colon.isSome then root else h) names = some node ∧
      hdr = walkKeys (if colon.isSome then root else h) names.dropLast ∧ hdr.isSome :=
  compoundHeader_walk root h i rest node hdr hc

/-- **The new path is the header without its last mnemonic**: every accepted header is
either compound — then it reports a path `p` of which the selected node is a child —
or common — then it reports none. -/
theorem new_path_is_parent (root h : Node) (i rest : Bytes) (node : Node) (hdr : Option Node)
    (hc : commandHeader root h i = .ok rest (node, hdr)) :
    (compoundHeader root h i = .ok rest (node, hdr) ∧ ∃ p k, hdr = some p ∧ p.child k = some node) ∨
    (commonHeader root i = .ok rest (node, hdr) ∧ hdr = none) :=
  commandHeader_ok root h i rest node hdr hc

/-- **The path the loop carries to the next unit.**  For an accepted unit the node and
path of the call are those its header reported, and the loop continues with: the root
if the unit was ended by the terminator; the parent of the selected node if the
header was compound; the old path if it was a common command. -/
theorem path_after_unit (root h : Node) (input r : Bytes) (call : CommandCall)
    (hp : parse root h input = .ok r (some call)) :
    (call.terminated = true → headerAfter root h call = root) ∧
    (call.terminated = false →
      (∃ p k, call.header = some p ∧ p.child k = some call.node ∧ headerAfter root h call = p) ∨
      (call.header = none ∧ headerAfter root h call = h)) := by
  obtain ⟨i2, i3, _, hc⟩ := parse_call_header root h input r call hp
  refine ⟨fun ht => by simp [headerAfter, ht], fun ht => ?_⟩
  rcases commandHeader_ok root h i2 i3 _ _ hc with ⟨_, p, k, hh, hk⟩ | ⟨_, hh⟩
  · exact Or.inl ⟨p, k, hh, hk, by simp [headerAfter, ht, hh]⟩
  · exact Or.inr ⟨hh, by simp [headerAfter, ht, hh]⟩

/-- A unit is ended by the terminator iff `terminated`, else by `;`: the byte before
the rest `parse` returns. -/
theorem unit_separator (root h : Node) (input r : Bytes) (call : CommandCall)
    (hp : parse root h input = .ok r (some call)) :
    ((if call.terminated then 10 else 59) :: r) <:+ input :=
  parse_call_sep root h input r call hp

/-- Hypotheses of the path theorems on the demo tree: `*C;` is a common header … -/
example : ∃ rest node, commonHeader Demo.tree [42, 67, 59] = .ok rest (node, none) ∧ node.tag = 5 :=
  ⟨_, _, rfl, rfl⟩
/-- … `:X⏎` begins with a colon … -/
example : ∃ i1, optP headerSeparator [58, 88, 10] = .ok i1 (some ()) := ⟨_, rfl⟩
/-- … `B⏎` read at the path `S` selects `S:B` (node 4) and reports the path `S` (node 2) … -/
example : ∃ rest node p, compoundHeader Demo.tree Demo.nS [66, 10] = .ok rest (node, some p) ∧
    node.tag = 4 ∧ p.tag = 2 := ⟨_, _, _, rfl, rfl, rfl⟩
/-- … and `S:A;` is an accepted unit, not terminated, that leaves the path `S`. -/
example : ∃ r call, parse Demo.tree Demo.tree [83, 58, 65, 59] = .ok r (some call) ∧
    call.terminated = false ∧ (headerAfter Demo.tree Demo.tree call).tag = 2 :=
  ⟨_, _, rfl, rfl, rfl⟩

/-! ## T2.2 — no interpreter state survives a terminator -/

/-- **Isolation.**  Let `x` end with a terminator and be consumed completely by the
run (a sequence of complete messages — faulty or not; a trailing incomplete unit,
e.g. an unterminated string that swallowed the terminator, is excluded by
`rest = []`, and must be: what follows could complete it).  Then the path is back at
the root, and running on `x ++ y` is running on `x` and then on `y` FROM THE ROOT: the
only traces `x` leaves are in the writer and in the user's state. -/
theorem run_append_message {σ : Type} (I : Iface σ) (hOk : ParseFinalOk) (hErr : ParseFinalErr)
    (h : Node) (x : Bytes) (w : Writer) (s : σ) (hx : x.getLast? = some 10)
    (hrest : (runFrom I h x w s).rest = []) :
    (runFrom I h x w s).header = I.root ∧ (runFrom I h x w s).crash = none ∧
    ∀ y, runFrom I h (x ++ y) w s =
      runFrom I I.root y (runFrom I h x w s).w (runFrom I h x w s).s :=
  ⟨(runFrom_append_aux I hOk hErr _ h x w s (Nat.le_refl _) hx hrest).1,
   (runFrom_good I h x w s).1,
   (runFrom_append_aux I hOk hErr _ h x w s (Nat.le_refl _) hx hrest).2⟩

/-- The same for `run`: the handler a message selects never depends on any message
sent before it. -/
theorem run_append_message_run {σ : Type} (I : Iface σ) (hOk : ParseFinalOk) (hErr : ParseFinalErr)
    (x y : Bytes) (w : Writer) (s : σ) (hx : x.getLast? = some 10)
    (hrest : (run I x w s).rest = []) :
    run I (x ++ y) w s = run I y (run I x w s).w (run I x w s).s :=
  (run_append_message I hOk hErr I.root x w s hx hrest).2.2 y

/-- The premise `x.getLast? = some 10` cannot be dropped: after `S:A;` everything is
consumed but the path is `S` (node number 2), not the root (node number 0). -/
example : (run Demo.I [83, 58, 65, 59] Demo.W []).rest = [] ∧
    (run Demo.I [83, 58, 65, 59] Demo.W []).header.tag = 2 ∧ Demo.I.root.tag = 0 := by decide

/-- The premise `rest = []` cannot be dropped either: `x = T 'a⏎` ends with a newline
but is an incomplete unit (the string swallowed it; `rest = x`), and `y = b'⏎` completes
it — `x ++ y` runs handler 5, whereas `y` on its own is an undefined header. -/
example : [84, 32, 39, 97, (10 : Nat)].getLast? = some 10 ∧
    (run Demo.I [84, 32, 39, 97, 10] Demo.W []).rest = [84, 32, 39, 97, 10] ∧
    (run Demo.I ([84, 32, 39, 97, 10] ++ [98, 39, 10]) Demo.W []).s = [5] ∧
    (run Demo.I [98, 39, 10] Demo.W []).s = [99] := by decide

/-! ## Non-vacuity on the demo interface (`Scpi/Proofs/RunStepsDemo.lean`) -/

/-- `S:A;B⏎` runs `S:A` then `S:B`: the second unit is resolved relative to `S`. -/
example : (run Demo.I [83, 58, 65, 59, 66, 10] Demo.W []).s = [1, 2] := by decide
/-- `S:A;X⏎`: `X` is looked up under `S`, where it does not exist — one error, and `X`
(which exists at the root) is NOT run. -/
example : (run Demo.I [83, 58, 65, 59, 88, 10] Demo.W []).s = [1, 99] := by decide
/-- `S:A;:X⏎`: the colon makes it absolute. -/
example : (run Demo.I [83, 58, 65, 59, 58, 88, 10] Demo.W []).s = [1, 0] := by decide
/-- `S:A⏎X⏎`: the terminator resets the path. -/
example : (run Demo.I [83, 58, 65, 10, 88, 10] Demo.W []).s = [1, 0] := by decide
/-- `S:A;*C;B⏎`: the common command keeps the path `S` for `B`. -/
example : (run Demo.I [83, 58, 65, 59, 42, 67, 59, 66, 10] Demo.W []).s = [1, 3, 2] := by decide
/-- `S:A;:X;B⏎`: the absolute unit reset the path to the root, where `B` is unknown. -/
example : (run Demo.I [83, 58, 65, 59, 58, 88, 59, 66, 10] Demo.W []).s = [1, 0, 99] := by decide
/-- The premises of `run_append_message` are satisfiable (`x = "S:A;B⏎"`). -/
example : [83, 58, 65, 59, 66, (10 : Nat)].getLast? = some 10 ∧
    (run Demo.I [83, 58, 65, 59, 66, 10] Demo.W []).rest = [] := by decide
/-- … and its conclusion on a concrete `y = "B⏎"`: `B` alone is unknown at the root. -/
example : (run Demo.I ([83, 58, 65, 59, 66, 10] ++ [66, 10]) Demo.W []).s = [1, 2, 99] := by decide
/-- The events of `X?⏎`: the query handler (4), and its response `7⏎` is in the writer
before anything else happens. -/
example : (run Demo.I.traced [88, 63, 10] Demo.W ([], [])).s = ([4], [Ev.call 4 []]) ∧
    (run Demo.I [88, 63, 10] Demo.W []).w.buf = [55, 10] := by decide

end C02
end Scpi
