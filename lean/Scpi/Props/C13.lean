/-
C13 (capacity part) — "Parsing, dispatching and formatting responses into a
fixed-capacity buffer perform no heap allocation for any input."

A purely functional model has no heap, so allocation itself is not observable in it
(the harness measures it on the real code with a counting allocator).  What the model
CAN carry is the reason why no allocation is ever needed: every container the library
uses has a fixed capacity, and no input makes any of them exceed it — an overflow
surfaces as an error value, never as growth.  The four containers:

1. the argument vector `heapless::Vec<Value, MAX_ARGS>` of `parse`: `args_le_max`
   (and `arguments_le_max` for the vector `arguments` leaves behind when it fails);
2. the response buffer `heapless::Vec<u8, N>`: `writer_within_cap` for one call, a call
   sequence and `write_response`; `execute_within_cap`, `runFrom_within_cap` for the
   dispatcher; `process_response_within_cap` for the buffer `process` creates;
3. the error queue `heapless::Deque<Error, N>`: `queue_length_le_cap` (= `C09.length_le_cap`);
4. the command buffer `[u8; N]` of `process` and its two offsets: `process_offsets_inv`
   (= `C05.process_offsets_inv`).
-/
import Scpi.Proofs.Capacity
import Scpi.Props.C09
import Scpi.Props.C05Process
import Scpi.Proofs.RunStepsDemo

namespace Scpi
namespace C13

/-! ## 1. The argument vector -/

/-- **The argument vector never exceeds `MAX_ARGS = 10`.**  Whatever the tree, the
header path and the input: a unit that `parse` accepts carries at most `maxArgs`
arguments.  (In `argsLoop` the push is refused — `UnexpectedNumberOfParameters` — when
the vector already holds `maxArgs` entries.) -/
theorem args_le_max (root h : Node) (x r : Bytes) (call : CommandCall)
    (hp : parse root h x = .ok r (some call)) : call.args.length ≤ maxArgs :=
  parse_bounded root h x r call hp

/-- The same for the vector that `arguments` returns — ALSO when it fails: the Rust
code fills the caller's vector in place and leaves the partial vector behind on a
failure (`parseArgs` then hands it on after a soft failure), and that partial vector
is within the capacity too. -/
theorem arguments_le_max (x : Bytes) : (arguments x).2.length ≤ maxArgs :=
  arguments_length x

theorem maxArgs_eq : maxArgs = 10 := rfl

/-- Non-vacuity: ten arguments `1,1,…,1` are accepted and fill the vector … -/
example : (arguments [49, 44, 49, 44, 49, 44, 49, 44, 49, 44, 49, 44, 49, 44, 49, 44, 49, 44,
    49]).2.length = 10 := by decide
/-- … the eleventh is refused, the vector stays at ten. -/
example : (arguments [49, 44, 49, 44, 49, 44, 49, 44, 49, 44, 49, 44, 49, 44, 49, 44, 49, 44,
    49, 44, 49]).2.length = 10 ∧
    (arguments [49, 44, 49, 44, 49, 44, 49, 44, 49, 44, 49, 44, 49, 44, 49, 44, 49, 44,
    49, 44, 49]).1.isOk = false := by decide
/-- `args_le_max` applies to a real unit: `F 1⏎` of the demo interface has one argument. -/
example : ∃ r call, parse Demo.tree Demo.tree [70, 32, 49, 10] = .ok r (some call) ∧
    call.args = [.dec [49]] := ⟨_, _, rfl, rfl⟩

/-! ## 2. The response buffer -/

/-- **A bounded writer never grows beyond its capacity.**  For a writer that is
`heapless::Vec<u8, c>` (`cap = some c`) holding at most `c` bytes: after any single
call of the `Write` trait, any sequence of calls, and any `write_response`, it is
still a writer of capacity `c` holding at most `c` bytes — whatever the result of the
call (an overflow is reported as `TooMuchData` / `SystemError`). -/
theorem writer_within_cap (c : Nat) (w : Writer) (hc : w.cap = some c) (hl : w.buf.length ≤ c) :
    (∀ x : WCall, (w.call x).1.cap = some c ∧ (w.call x).1.buf.length ≤ c) ∧
    (∀ xs : List WCall, (w.calls xs).1.cap = some c ∧ (w.calls xs).1.buf.length ≤ c) ∧
    (∀ r : Resp, (w.writeResp r).1.cap = some c ∧ (w.writeResp r).1.buf.length ≤ c) :=
  ⟨fun x => within_call w x ⟨hc, hl⟩, fun xs => within_calls xs w ⟨hc, hl⟩,
   fun r => within_writeResp w r ⟨hc, hl⟩⟩

/-- … hence executing a unit (conversion, handler, response, newline, flush) keeps the
response buffer within its capacity, for every interface and every handler … -/
theorem execute_within_cap {σ : Type} (I : Iface σ) (call : CommandCall) (c : Nat) (w : Writer)
    (s : σ) (hc : w.cap = some c) (hl : w.buf.length ≤ c) :
    (execute I call w s).2.1.cap = some c ∧ (execute I call w s).2.1.buf.length ≤ c :=
  within_execute I call w s ⟨hc, hl⟩

/-- … and so does a whole `run_from`, for every input. -/
theorem runFrom_within_cap {σ : Type} (I : Iface σ) (h : Node) (x : Bytes) (c : Nat) (w : Writer)
    (s : σ) (hc : w.cap = some c) (hl : w.buf.length ≤ c) :
    (runFrom I h x w s).w.cap = some c ∧ (runFrom I h x w s).w.buf.length ≤ c :=
  within_runLoop I _ h x w s ⟨hc, hl⟩

/-- The response buffer `process::<N, _>` creates for each message (empty,
capacity `n`) never holds more than `n` bytes, whatever the message does. -/
theorem process_response_within_cap {σ : Type} (I : Iface σ) (h : Node) (x : Bytes) (n : Nat)
    (s : σ) : (runFrom I h x { cap := some n } s).w.buf.length ≤ n :=
  (runFrom_within_cap I h x n { cap := some n } s rfl (Nat.zero_le _)).2

/-- Non-vacuity: the query `X?⏎` answers `7⏎`; in a 1-byte buffer only `7` is kept
(and an error reported, C06), in a 2-byte buffer both bytes. -/
example : (run Demo.I [88, 63, 10] { cap := some 1 } []).w.buf = [55] ∧
    (run Demo.I [88, 63, 10] { cap := some 2 } []).w.buf = [55, 10] := by decide

/-! ## 3. The error queue, 4. the command buffer -/

/-- The error queue never holds more than its capacity (`Scpi.C09.length_le_cap`). -/
theorem queue_length_le_cap (ops : List C09.QOp) (q : EQueue) (h : q.items.length ≤ q.cap) :
    (C09.runOps q ops).1.items.length ≤ q.cap :=
  C09.length_le_cap ops q h

/-- The command buffer of `process` keeps its length `n` and both offsets stay inside
it, at every iteration of either loop (`Scpi.C05.process_offsets_inv`; `PInv n st` is
`st.buf.length = n ∧ st.procOff ≤ st.readOff ∧ st.readOff < n`). -/
theorem process_offsets_inv {σ : Type} (I : Iface σ) (n : Nat) (hn : 1 ≤ n) (sc : Script) (s : σ) :
    Proc.PInv n (Proc.initState I n sc s) ∧
    (∀ fault st st', Proc.PInv n st → Proc.outerStep I n fault st = .inl st' → Proc.PInv n st') ∧
    (∀ fault st, Proc.OuterReach I n fault (Proc.initState I n sc s) st → Proc.PInv n st) ∧
    (∀ st : PState σ, Proc.PInv n st →
        Proc.IInv n (st.readOff + Proc.readCount n st) (Proc.afterRead n st)) ∧
    (∀ fault readEnd fuel st, Proc.IInv n readEnd st →
        Proc.IInv n readEnd (procInner I n fault fuel readEnd st).1) ∧
    (∀ st : PState σ, Proc.PInv n st → 1 ≤ n - st.readOff) :=
  C05.process_offsets_inv I n hn sc s

end C13
end Scpi
