/-
C03 (lexer part) — every literal is delivered to the handler with its text verbatim.

For each kind of program data the AST `Lit` (Scpi/Spec/Ast.lean) describes ALL
spellings the grammar allows:

* character data: a letter, then letters, digits, `_`;
* decimal: optional sign, integer digits, optional `.`, fraction digits, optional
  exponent (`e`/`E`, optional sign, digits), at least one mantissa digit, leading
  zeros allowed (`DecText`);
* `#H`/`#h`, `#Q`/`#q`, `#B`/`#b` followed by at least one digit of the class;
* strings in either quote kind; blocks with 1–9 length digits.

`literal_verbatim` : `argument` on the rendering of a well-formed literal, followed by
nothing or by a byte that cannot extend the literal (`Lit.ext`; in a message: white
space, `,`, `;`, newline — `literal_verbatim_delim`), returns `Lit.value`: the text of
the literal, byte for byte (for `#H…` the digits without the prefix, as in the Rust
code; for strings and blocks the payload), tagged with its kind, and leaves the rest
of the input untouched.  Since the kind is part of the value, this also says that the
ordered choice of `argument` takes the right alternative: a decimal is not cut short
by `characters`, `#H…` is not taken by `decimal`, a block is not taken by `#H/#B/#Q`
(`dec_not_characters`, `hash_not_decimal`, …).

`arguments_values` lifts this to the comma-separated list and `parse_args_values` to
`parse`.  The conversion of the text to a number is the other half of C03
(Scpi/Props/C03.lean).  Proofs: Scpi/Proofs/RenderLit.lean, RenderArg.lean,
RenderArgs.lean.
-/
import Scpi.Props.C11

namespace Scpi
namespace C03

/-! ### One literal -/

/-- **Literals are delivered verbatim.** -/
theorem literal_verbatim (l : Lit) (rest : Bytes) (hw : l.wf = true) (he : Ends l.ext rest) :
    argument (l.render ++ rest) = .ok rest l.value :=
  argument_render hw he

/-- … in particular before white space, a comma, a semicolon or a newline. -/
theorem literal_verbatim_delim (l : Lit) (d : Nat) (r : Bytes) (hw : l.wf = true)
    (hd : isDelim d = true) : argument (l.render ++ d :: r) = .ok (d :: r) l.value :=
  argument_render hw (ends_ext_of_delim l r hd)

/-- … and at the end of the input. -/
theorem literal_verbatim_end (l : Lit) (hw : l.wf = true) : argument l.render = .ok [] l.value := by
  have := argument_render (rest := []) hw (ends_nil _)
  simpa only [List.append_nil] using this

/-- The delimiters, byte by byte. -/
theorem isDelim_iff (b : Nat) :
    isDelim b = true ↔ (b ≤ 9 ∨ (11 ≤ b ∧ b ≤ 32)) ∨ b = 44 ∨ b = 59 ∨ b = 10 := by
  simp only [isDelim, isWs, Bool.or_eq_true, Bool.and_eq_true, decide_eq_true_eq, beq_iff_eq,
    or_assoc]

/-- The value of a literal is its text (payload), tagged with its kind. -/
theorem value_cases (l : Lit) :
    (∃ s, l = .chars s ∧ l.value = .chars s ∧ l.render = s) ∨
    (∃ d, l = .dec d ∧ l.value = .dec l.render) ∨
    (∃ u ds, l = .hex u ds ∧ l.value = .hex ds ∧ l.render = 35 :: (if u then 72 else 104) :: ds) ∨
    (∃ u ds, l = .bin u ds ∧ l.value = .bin ds ∧ l.render = 35 :: (if u then 66 else 98) :: ds) ∨
    (∃ u ds, l = .oct u ds ∧ l.value = .oct ds ∧ l.render = 35 :: (if u then 81 else 113) :: ds) ∨
    (∃ q p, l = .str q p ∧ l.value = .str p ∧ l.render = q :: (p ++ [q])) ∨
    (∃ nd p, l = .block nd p ∧ l.value = .arb p ∧
      l.render = 35 :: (48 + nd) :: (padDigits nd p.length ++ p)) := by
  cases l with
  | chars s => exact Or.inl ⟨s, rfl, rfl, rfl⟩
  | dec d => exact Or.inr (Or.inl ⟨d, rfl, rfl⟩)
  | hex u ds => exact Or.inr (Or.inr (Or.inl ⟨u, ds, rfl, rfl, rfl⟩))
  | bin u ds => exact Or.inr (Or.inr (Or.inr (Or.inl ⟨u, ds, rfl, rfl, rfl⟩)))
  | oct u ds => exact Or.inr (Or.inr (Or.inr (Or.inr (Or.inl ⟨u, ds, rfl, rfl, rfl⟩))))
  | str q p => exact Or.inr (Or.inr (Or.inr (Or.inr (Or.inr (Or.inl ⟨q, p, rfl, rfl, rfl⟩)))))
  | block nd p =>
    exact Or.inr (Or.inr (Or.inr (Or.inr (Or.inr (Or.inr ⟨nd, p, rfl, rfl, rfl⟩)))))

/-! ### The recognisers one by one -/

/-- Character data. -/
theorem characters_verbatim (s rest : Bytes) (hs : isMnemonicText s = true)
    (he : Ends isMnemonicTail rest) : characters (s ++ rest) = .ok rest (.chars s) :=
  characters_append hs he

/-- **All decimal spellings** — sign, leading zeros, `.`, exponent in either case —
are taken whole and delivered as written. -/
theorem decimal_verbatim (d : DecText) (rest : Bytes) (hw : d.wf = true)
    (he : Ends (fun b => isDigit b || b == 46 || b == 69 || b == 101) rest) :
    decimal (d.render ++ rest) = .ok rest (.dec d.render) :=
  decimal_render hw he

/-- `#H`/`#h`, hexadecimal digits in either case. -/
theorem hexadecimal_verbatim (upper : Bool) (ds rest : Bytes) (hne : ds ≠ [])
    (hd : ds.all isHexDigit = true) (he : Ends isHexDigit rest) :
    hexadecimal (35 :: (if upper then 72 else 104) :: (ds ++ rest)) = .ok rest (.hex ds) :=
  nondecimal_render (L := fun c => c == 72 || c == 104) .hex (by cases upper <;> rfl) hne hd
    (fun _ => isHexDigit_lt) he

/-- `#B`/`#b`. -/
theorem binary_verbatim (upper : Bool) (ds rest : Bytes) (hne : ds ≠ [])
    (hd : ds.all isBinDigit = true) (he : Ends isBinDigit rest) :
    binary (35 :: (if upper then 66 else 98) :: (ds ++ rest)) = .ok rest (.bin ds) :=
  nondecimal_render (L := fun c => c == 66 || c == 98) .bin (by cases upper <;> rfl) hne hd
    (fun _ => isBinDigit_lt) he

/-- `#Q`/`#q`. -/
theorem octal_verbatim (upper : Bool) (ds rest : Bytes) (hne : ds ≠ [])
    (hd : ds.all isOctDigit = true) (he : Ends isOctDigit rest) :
    octal (35 :: (if upper then 81 else 113) :: (ds ++ rest)) = .ok rest (.oct ds) :=
  nondecimal_render (L := fun c => c == 81 || c == 113) .oct (by cases upper <;> rfl) hne hd
    (fun _ => isOctDigit_lt) he

/-! ### The ordered choice -/

/-- A decimal literal is not (partly) taken as character data … -/
theorem dec_not_characters (d : DecText) (rest : Bytes) (hw : d.wf = true) :
    characters (d.render ++ rest) = .soft (some (.std .InvalidCharacter)) := by
  obtain ⟨b, r, e, hb⟩ := DecText.render_head hw
  rw [e]
  refine characters_soft _ ?_
  simp [isAlpha]
  rcases hb with h | h | h | h
  · omega
  · omega
  · simp [isDigit] at h; omega
  · omega

/-- … and anything that starts with `#` neither as character data nor as a decimal. -/
theorem hash_not_decimal (r : Bytes) :
    characters (35 :: r) = .soft (some (.std .InvalidCharacter)) ∧
    decimal (35 :: r) = .soft (some (.std .InvalidCharacter)) :=
  ⟨hash_chars_soft r, hash_decimal_soft r⟩

/-- A block header `#1`…`#9` is not taken by the `#H/#B/#Q` recognisers. -/
theorem block_not_nondecimal (nd : Nat) (r : Bytes) (h1 : 1 ≤ nd) (h9 : nd ≤ 9) :
    hexadecimal (35 :: (48 + nd) :: r) = .soft (some (.std .InvalidCharacter)) ∧
    binary (35 :: (48 + nd) :: r) = .soft (some (.std .InvalidCharacter)) ∧
    octal (35 :: (48 + nd) :: r) = .soft (some (.std .InvalidCharacter)) :=
  ⟨nondecimal_soft_letter (L := fun c => c == 72 || c == 104) .hex r (by simp; omega),
   nondecimal_soft_letter (L := fun c => c == 66 || c == 98) .bin r (by simp; omega),
   nondecimal_soft_letter (L := fun c => c == 81 || c == 113) .oct r (by simp; omega)⟩

/-! ### Lists of literals -/

/-- **The parameter list**: for literals `l :: ls` (at most ten) separated by commas with
any white space `cs` around them and followed by white space `w` and a terminator
`d`, `arguments` returns their values in order and stops before `w`. -/
theorem arguments_values (l : Lit) (ls : List Lit) (cs : List (Bytes × Bytes)) (w : Bytes) (d : Nat)
    (r : Bytes) (hwf : (l :: ls).all Lit.wf = true)
    (hcs : cs.all (fun p => allWs p.1 && allWs p.2) = true) (hlen : (l :: ls).length ≤ maxArgs)
    (hw : allWs w = true) (hd : d = 59 ∨ d = 10) :
    arguments (renderArgs (l :: ls) cs ++ (w ++ d :: r))
      = (.ok (w ++ d :: r) (), (l :: ls).map Lit.value) :=
  arguments_render r hwf hcs hlen hw hd

/-- **`parse` delivers the text of every literal**: the arguments of the call are the
values of the literals of the unit, however it is rendered. -/
theorem parse_args_values (root cur : Node) (u : MsgUnit) (ℓ : Lex) (t : Term) (rest : Bytes)
    (hu : u.wf = true) (hℓ : ℓ.wf = true) (hfit : ℓ.fits u = true) (nh : Node × Option Node)
    (hr : resolve root cur u.hdr.path = some nh) :
    ∃ c, parse root cur (render u ℓ t ++ rest) = .ok rest (some c) ∧
      c.args = u.lits.map Lit.value := by
  rw [C11.parse_render root cur u ℓ t rest hu hℓ hfit, hr]
  exact ⟨_, rfl, rfl⟩

/-! ### Non-vacuity: spellings -/

/-- `+01.50e-3`, `.5`, `-1.`, `007`, `1E+05`. -/
def decA : DecText := ⟨some 43, [48, 49], true, [53, 48], some (101, some 45, [51])⟩
def decB : DecText := ⟨none, [], true, [53], none⟩
def decC : DecText := ⟨some 45, [49], true, [], none⟩
def decD : DecText := ⟨none, [48, 48, 55], false, [], none⟩
def decE : DecText := ⟨none, [49], false, [], some (69, some 43, [48, 53])⟩

example : decA.wf = true ∧ decB.wf = true ∧ decC.wf = true ∧ decD.wf = true ∧ decE.wf = true := by
  decide
example : decA.render = [43, 48, 49, 46, 53, 48, 101, 45, 51] ∧ decB.render = [46, 53] ∧
    decC.render = [45, 49, 46] ∧ decD.render = [48, 48, 55] ∧
    decE.render = [49, 69, 43, 48, 53] := by decide

/-- Not decimal texts: no mantissa digit, a fraction without the point, an exponent
without digits. -/
example : (⟨some 43, [], true, [], none⟩ : DecText).wf = false ∧
    (⟨none, [49], false, [50], none⟩ : DecText).wf = false ∧
    (⟨none, [49], false, [], some (101, none, [])⟩ : DecText).wf = false := by decide

/-- The model on `+01.50e-3,` and on `.5;`. -/
example : argument (decA.render ++ [44]) = .ok [44] (.dec [43, 48, 49, 46, 53, 48, 101, 45, 51]) := rfl
example : argument (decB.render ++ [59]) = .ok [59] (.dec [46, 53]) := rfl

/-- `#HfF`, `#q17`, `#B01`, `'it'`, `"it"`, `#3005hello`, `DEF_1`. -/
def lits : List Lit :=
  [.hex true [102, 70], .oct false [49, 55], .bin true [48, 49], .str 39 [105, 116],
   .str 34 [105, 116], .block 3 [104, 101, 108, 108, 111], .chars [68, 69, 70, 95, 49],
   .dec decA]

example : lits.all Lit.wf = true := by decide
example : lits.map Lit.render =
    [[35, 72, 102, 70], [35, 113, 49, 55], [35, 66, 48, 49], [39, 105, 116, 39],
     [34, 105, 116, 34], [35, 51, 48, 48, 53, 104, 101, 108, 108, 111], [68, 69, 70, 95, 49],
     [43, 48, 49, 46, 53, 48, 101, 45, 51]] := by decide
example : lits.map Lit.value =
    [.hex [102, 70], .oct [49, 55], .bin [48, 49], .str [105, 116], .str [105, 116],
     .arb [104, 101, 108, 108, 111], .chars [68, 69, 70, 95, 49],
     .dec [43, 48, 49, 46, 53, 48, 101, 45, 51]] := by decide

/-- The whole list with mixed white space around the commas, followed by ` \n`. -/
example : arguments (renderArgs lits [([], []), ([32], []), ([], [9]), ([32], [32])] ++ [32, 10])
    = (.ok [32, 10] (), lits.map Lit.value) := rfl

/-- Without a delimiter a class-bounded literal would be extended: `12` followed by
`3`. -/
example : argument ((Lit.dec ⟨none, [49, 50], false, [], none⟩).render ++ [51])
    = .ok [] (.dec [49, 50, 51]) := rfl

end C03
end Scpi
