/-
C06 — a faulty unit costs exactly one error, and nothing else
(dispatcher side: the decision logic of `execute_command`, `execute`, `run`).

"A complete program message in which one unit is faulty — syntax error, undefined
header, wrong parameter count, unconvertible parameter, or an error returned by its
handler — hands exactly one error to the error handler (the handler's own error
value, verbatim, in the last case), executes the units before the faulty one
normally, does not invoke the faulty unit's handler unless the fault is the handler's
own, and executes either all or none of the units after it.  Every later message is
executed exactly as if the faulty message had never been sent."

All theorems hold for every interface: every tree, every handler table (arbitrary
functions `σ → List TVal → σ × Except Err Resp`), every error handler, every writer.
Because the model is purely functional, "the handler was / was not invoked" and "how
many errors were reported" are made observable by instrumenting the interface with a
log (`Iface.logged`, `Iface.traced`) and proving that the instrumentation changes
nothing else (`logged_same_behaviour`).

* T6.1 one unit: `convertArgs_spec`, `convertArgs_first_error`, `execute_err_cases`,
  `execute_ok_cases`, `handler_invoked_at_most_once`, `one_error_per_unit`,
  `unit_faulty_iff`, `errors_of_run`, `errors_along_trace`.
* T6.2 later messages: `later_messages_unaffected`, `later_errors_unaffected`.

FINDINGS (statements that had to be corrected; witnesses below):
* `convertArgs_spec` needs the arity premise (`convertArgs_surplus_witness`).
* Re-synchronisation after a parse-level fault is on the raw byte 10, not on the
  message terminator: a newline inside a string or block parameter that FOLLOWS the
  faulty unit in the same message ends the skipping, and the tail of that parameter
  is run as a message of its own (`newline_in_string_after_fault`: one faulty unit,
  two errors).  `one_error_per_unit` is therefore a statement per loop iteration, and
  the message-level count holds for messages whose only byte 10 is the terminator.
* A sixth way to fail is not in the enumeration of the property: the handler
  succeeded but its response (or the newline of a query) did not fit the writer
  (case (e) of `execute_err_cases`); the handler HAS run then.
-/
import Scpi.Proofs.RunStepsFault
import Scpi.Proofs.RunStepsDemo

namespace Scpi
namespace C06

/-! ## Parameter conversion -/

/-- **Conversion is positional, in order, one type per parameter**: with at least as
many parameters as types (the dispatcher checks equality before), `convertArgs`
succeeds with `tvs` iff `tvs` has one entry per type and entry `i` is the conversion
of parameter `i` to type `i`. -/
theorem convertArgs_spec (tys : List Ty) (args : List Value) (tvs : List TVal)
    (hl : tys.length ≤ args.length) :
    convertArgs tys args = .ok tvs ↔
      ∃ (_ : tvs.length = tys.length), ∀ (i : Nat) (hi : i < tys.length),
        convert tys[i] (args[i]'(by omega)) = .ok (tvs[i]'(by omega)) :=
  convertArgs_ok_iff tys args tvs hl

/-- **The error is that of the first parameter that does not convert**: `convertArgs`
fails with `e` iff some parameter `i` fails with `e` and all before it convert. -/
theorem convertArgs_first_error (tys : List Ty) (args : List Value) (e : Err)
    (hl : tys.length ≤ args.length) :
    convertArgs tys args = .error (.inl e) ↔
      ∃ (i : Nat) (hi : i < tys.length), convert tys[i] (args[i]'(by omega)) = .error e ∧
        ∀ (j : Nat) (hj : j < i), ∃ tv, convert (tys[j]'(by omega)) (args[j]'(by omega)) = .ok tv :=
  convertArgs_err_iff tys args e hl

/-- FINDING: without the arity premise the equivalence asked for (`… ↔ tys.length =
args.length ∧ …`) is false: surplus parameters are ignored by `convertArgs` itself;
it is `executeCommand` that rejects them beforehand. -/
theorem convertArgs_surplus_witness :
    convertArgs [] [Value.dec [49]] = .ok [] ∧ ([] : List Ty).length ≠ [Value.dec [49]].length :=
  ⟨rfl, by decide⟩

/-! ## One unit -/

/-- **T6.1 — the ways a unit can fail in execution, and what each does.**  If
`execute` returns the error `e` then exactly one of the following holds (the cases
exclude each other: `resolveCmd` is `none` or `some c`; the arity matches or not;
`convertArgs` fails or succeeds; the handler returns an error or a response):

(a) the slot is missing (`resolve_eq_none_iff`: the node has no handler of the kind
    asked for, or the id is not in the table): `UndefinedHeader`;
(b) the number of parameters is wrong: `UnexpectedNumberOfParameters`;
(c) a parameter does not convert: the error of the first such parameter
    (`convertArgs_first_error`);
    — in (a)–(c) user state and writer are untouched and NO handler invocation is made;
(d) the handler was invoked (once, with the converted parameters `tvs`) and returned
    the error `e` — handed on verbatim; the user state is the handler's, nothing written;
(e) the handler was invoked and succeeded, and writing its response failed with `e`
    (`respond_err_iff`: in the response, or in the newline of a query). -/
theorem execute_err_cases {σ : Type} (I : Iface σ) (call : CommandCall) (w w' : Writer) (s s' : σ)
    (e : Err) (h : execute I call w s = (s', w', .err e)) :
    (resolveCmd I call = none ∧ e = .std .UndefinedHeader ∧ s' = s ∧ w' = w ∧
        invocation I call = none) ∨
    ∃ c, resolveCmd I call = some c ∧
      ((call.args.length ≠ c.argTys.length ∧ e = .std .UnexpectedNumberOfParameters ∧
          s' = s ∧ w' = w ∧ invocation I call = none) ∨
       (call.args.length = c.argTys.length ∧ convertArgs c.argTys call.args = .error (.inl e) ∧
          s' = s ∧ w' = w ∧ invocation I call = none) ∨
       ∃ tvs id, call.args.length = c.argTys.length ∧ convertArgs c.argTys call.args = .ok tvs ∧
         invocation I call = some (id, tvs) ∧ I.cmds[id]? = some c ∧
         ((c.handler s tvs = (s', .error e) ∧ w' = w) ∨
          ∃ resp, c.handler s tvs = (s', .ok resp) ∧ respond call.query w resp = (w', .err e))) := by
  rcases execute_err_cases' I call w w' s s' e h with ⟨h1, h2, h3, h4⟩ | ⟨c, hc, hrest⟩
  · exact Or.inl ⟨h1, h2, h3, h4, invocation_of_resolve_none I call h1⟩
  · refine Or.inr ⟨c, hc, ?_⟩
    rcases hrest with ⟨h1, h2, h3, h4⟩ | ⟨h1, h2, h3, h4⟩ | ⟨tvs, h1, h2, h3⟩
    · exact Or.inl ⟨h1, h2, h3, h4, invocation_of_arity I call c hc h1⟩
    · exact Or.inr (Or.inl ⟨h1, h2, h3, h4, invocation_of_convert_error I call c hc _ h2⟩)
    · obtain ⟨id, _, hid, hinv⟩ := invocation_of_convert_ok I call c hc h1 tvs h2
      exact Or.inr (Or.inr ⟨tvs, id, h1, h2, hinv, hid, h3⟩)

/-- **A unit that succeeds**: slot present, arity right, every parameter converted;
the handler was invoked with exactly the converted parameters, and its response
(plus, for a query, the newline; then a flush) was written completely. -/
theorem execute_ok_cases {σ : Type} (I : Iface σ) (call : CommandCall) (w w' : Writer) (s s' : σ)
    (h : execute I call w s = (s', w', .ok)) :
    ∃ c tvs resp id, resolveCmd I call = some c ∧ call.args.length = c.argTys.length ∧
      convertArgs c.argTys call.args = .ok tvs ∧ invocation I call = some (id, tvs) ∧
      I.cmds[id]? = some c ∧ c.handler s tvs = (s', .ok resp) ∧
      respond call.query w resp = (w', .ok) := by
  obtain ⟨c, tvs, resp, hc, hl, hca, hh, hr⟩ := execute_ok_cases' I call w w' s s' h
  obtain ⟨id, _, hid, hinv⟩ := invocation_of_convert_ok I call c hc hl tvs hca
  exact ⟨c, tvs, resp, id, hc, hl, hca, hinv, hid, hh, hr⟩

/-- `execute` in closed form, from which the two case theorems are read off. -/
theorem execute_closed_form {σ : Type} (I : Iface σ) (call : CommandCall) (w : Writer) (s : σ) :
    execute I call w s =
      match resolveCmd I call with
      | none => (s, w, .err (.std .UndefinedHeader))
      | some c =>
        if call.args.length ≠ c.argTys.length then (s, w, .err (.std .UnexpectedNumberOfParameters))
        else
          match convertArgs c.argTys call.args with
          | .error (.inl e) => (s, w, .err e)
          | .error (.inr cr) => (s, w, .crash cr)
          | .ok tvs =>
            match c.handler s tvs with
            | (s', .error e) => (s', w, .err e)
            | (s', .ok resp) => (s', respond call.query w resp) :=
  execute_eq I call w s

/-- **The handler is invoked at most once per unit — observably.**  With the tracing
wrapper (every handler appends `Ev.call id tvs` to a log when it runs) one `execute`
appends exactly the invocation `invocation I call` names — one event or none — and
does otherwise exactly what the untraced `execute` does. -/
theorem handler_invoked_at_most_once {σ : Type} (I : Iface σ) (call : CommandCall) (w : Writer)
    (s : σ) (l : List Ev) :
    execute I.traced call w (s, l) =
      (((execute I call w s).1,
        l ++ match invocation I call with
             | none => []
             | some (id, tvs) => [Ev.call id tvs]),
       (execute I call w s).2.1, (execute I call w s).2.2) :=
  execute_traced I call w s l

/-! ## One iteration of the loop: at most one error, and what follows -/

/-- **Logging does not change behaviour.**  `I.logged` pairs the user state with a
list of errors; its handlers act on the first component as those of `I`, its error
handler additionally appends the error.  A run of `I.logged` is the run of `I` with
the log `l ++ errorsOf …` beside the user state: rest, path, writer, crash flag and
user state agree, and the log only grows. -/
theorem logged_same_behaviour {σ : Type} (I : Iface σ) (x : Bytes) (w : Writer) (s : σ)
    (l : List Err) :
    (run I.logged x w (s, l)).s.1 = (run I x w s).s ∧
    (run I.logged x w (s, l)).w = (run I x w s).w ∧
    (run I.logged x w (s, l)).rest = (run I x w s).rest ∧
    (run I.logged x w (s, l)).header = (run I x w s).header ∧
    (run I.logged x w (s, l)).crash = (run I x w s).crash ∧
    (run I.logged x w (s, l)).s.2 = l ++ errorsOf I I.root x w s := by
  have : run I.logged x w (s, l) = (run I x w s).withLog (l ++ errorsOf I I.root x w s) :=
    runFrom_logged I I.root x w s l
  rw [this]
  exact ⟨rfl, rfl, rfl, rfl, rfl, rfl⟩

/-- The same for `runFrom`, as one equation. -/
theorem logged_runFrom {σ : Type} (I : Iface σ) (h : Node) (x : Bytes) (w : Writer) (s : σ)
    (l : List Err) :
    runFrom I.logged h x w (s, l) = (runFrom I h x w s).withLog (l ++ errorsOf I h x w s) :=
  runFrom_logged I h x w s l

/-- A unit is faulty — `unitFault I c = some e` — iff it has a syntax error (`e` is the
parser's error, `SyntaxError` if it gave none), or an undefined header (`fatal`), or
was accepted and its execution returned the error `e`. -/
theorem unit_faulty_iff {σ : Type} (I : Iface σ) (c : Cfg σ) (e : Err) :
    unitFault I c = some e ↔
      (∃ e', parse I.root c.header c.input = .soft e' ∧ e = parseErrToErr e') ∨
      parse I.root c.header c.input = .fatal e ∨
      ∃ i call, parse I.root c.header c.input = .ok i (some call) ∧
        (execute I call c.w c.s).2.2 = .err e :=
  unitFault_eq_some_iff I c e

/-- **T6.1 — one iteration, one error at most.**  One iteration of the loop of the
logging interface is the iteration of `I` with `(unitFault I c).toList` — no entry,
or the one error of the unit — appended to the log.  Moreover the iteration is of
exactly one of four kinds:

1. incomplete unit: nothing reported, the run stops with everything untouched;
2. empty message: nothing reported, go on behind the terminator from the root;
3. PARSE-LEVEL fault `e` (syntax error or undefined header): `onError e` once; the run
   goes on after the next byte 10 from the root — NONE of the following units of the
   message is executed — or stops if there is none;
4. accepted unit: executed; `onError e` once iff the execution returned `.err e`; and
   WHETHER OR NOT it did, the run goes on behind the unit, on the same rest and with
   the same path — ALL following units are executed as after a successful unit. -/
theorem one_error_per_unit {σ : Type} (I : Iface σ) (c : Cfg σ) (l : List Err) :
    unitStep I.logged (c.withLog l) = (unitStep I c).withLog (l ++ (unitFault I c).toList) ∧
    (unitFault I c).toList.length ≤ 1 ∧
    ((parse I.root c.header c.input = .incomplete ∧ unitFault I c = none ∧
        unitStep I c = .stop { rest := c.input, header := c.header, w := c.w, s := c.s }) ∨
     (∃ i, parse I.root c.header c.input = .ok i none ∧ unitFault I c = none ∧
        unitStep I c = .next ⟨I.root, i, c.w, c.s⟩) ∨
     (∃ e, ((∃ e', parse I.root c.header c.input = .soft e' ∧ e = parseErrToErr e') ∨
            parse I.root c.header c.input = .fatal e) ∧
        unitFault I c = some e ∧
        unitStep I c =
          match afterNewline c.input with
          | some rest => .next ⟨I.root, rest, c.w, I.onError c.s e⟩
          | none => .stop { rest := c.input, header := c.header, w := c.w, s := I.onError c.s e }) ∨
     (∃ i call, parse I.root c.header c.input = .ok i (some call) ∧
        unitFault I c = (match (execute I call c.w c.s).2.2 with
                         | .err e => some e
                         | _ => none) ∧
        unitStep I c = .next ⟨headerAfter I.root c.header call, i, (execute I call c.w c.s).2.1,
          match (execute I call c.w c.s).2.2 with
          | .err e => I.onError (execute I call c.w c.s).1 e
          | _ => (execute I call c.w c.s).1⟩)) := by
  refine ⟨unitStep_logged I c l, unitFault_length I c, ?_⟩
  have hstrict := parse_strict I.root c.header c.input
  cases hp : parse I.root c.header c.input with
  | crash cr => exact absurd hp (hstrict.noCrash cr)
  | incomplete =>
    exact Or.inl ⟨rfl, by simp [unitFault, hp], unitStep_incomplete I c hp⟩
  | soft e' =>
    refine Or.inr (Or.inr (Or.inl ⟨parseErrToErr e', Or.inl ⟨e', rfl, rfl⟩,
      by simp [unitFault, hp], unitStep_soft I c e' hp⟩))
  | fatal e =>
    refine Or.inr (Or.inr (Or.inl ⟨e, Or.inr rfl, by simp [unitFault, hp], unitStep_fatal I c e hp⟩))
  | ok i oc =>
    cases oc with
    | none =>
      exact Or.inr (Or.inl ⟨i, rfl, by simp [unitFault, hp], unitStep_empty_message I c i hp⟩)
    | some call =>
      refine Or.inr (Or.inr (Or.inr ⟨i, call, rfl, ?_, ?_⟩))
      · simp only [unitFault, hp]
        cases (execute I call c.w c.s).2.2 <;> rfl
      · rw [unitStep_call I c i call hp]
        cases (execute I call c.w c.s).2.2 <;> rfl

/-- **The errors of a whole run** are, unit by unit in the order written, the fault of
each unit that is reached: the first unit's (none or one), then those of the run on
the configuration it left.  So the number of errors reported equals the number of
faulty iterations, and each error is the one `unit_faulty_iff` names — for a handler's
own error, the handler's value verbatim (`execute_err_cases` (d)). -/
theorem errors_of_run {σ : Type} (I : Iface σ) (h : Node) (x : Bytes) (w : Writer) (s : σ)
    (hne : x ≠ []) :
    errorsOf I h x w s =
      (unitFault I ⟨h, x, w, s⟩).toList ++
        match unitStep I ⟨h, x, w, s⟩ with
        | .stop _ => []
        | .next c => errorsOf I c.header c.input c.w c.s :=
  errorsOf_step I h x w s hne

/-- **Error count = number of faulty iterations.**  Along the chain of configurations a
run passes through (`C02.run_sequential`) the errors reported are exactly the faults
of the configurations passed, in order — one per faulty unit, none per good one. -/
theorem errors_along_trace {σ : Type} (I : Iface σ) (cs : List (Cfg σ)) (c last : Cfg σ)
    (ht : IsTrace I c cs last) :
    errorsOf I c.header c.input c.w c.s =
      ((c :: cs).dropLast.filterMap (unitFault I)) ++
        errorsOf I last.header last.input last.w last.s :=
  errorsOf_trace I cs c last ht

theorem errors_of_nothing {σ : Type} (I : Iface σ) (h : Node) (w : Writer) (s : σ) :
    errorsOf I h [] w s = [] :=
  errorsOf_nil I h w s

/-! ## T6.2 — later messages -/

/-- **Every later message is executed as if the earlier ones had not been sent** —
except for what they did to the writer and the user's state (for a faulty message:
what its good units and the error handler did).  `x`: any input that ends with a
terminator and is consumed completely, faulty or not.  Parser finality enters as
hypotheses (proved with the parser properties). -/
theorem later_messages_unaffected {σ : Type} (I : Iface σ) (hOk : ParseFinalOk)
    (hErr : ParseFinalErr) (x y : Bytes) (w : Writer) (s : σ) (hx : x.getLast? = some 10)
    (hrest : (run I x w s).rest = []) :
    run I (x ++ y) w s = run I y (run I x w s).w (run I x w s).s :=
  (runFrom_append_aux I hOk hErr _ I.root x w s (Nat.le_refl _) hx hrest).2 y

/-- … and the errors reported for `x ++ y` are those for `x` followed by those `y`
gets when run on its own (from the root, on the writer and state `x` left). -/
theorem later_errors_unaffected {σ : Type} (I : Iface σ) (hOk : ParseFinalOk)
    (hErr : ParseFinalErr) (x y : Bytes) (w : Writer) (s : σ) (hx : x.getLast? = some 10)
    (hrest : (run I x w s).rest = []) :
    errorsOf I I.root (x ++ y) w s =
      errorsOf I I.root x w s ++ errorsOf I I.root y (run I x w s).w (run I x w s).s :=
  errorsOf_append I hOk hErr I.root x y w s hx hrest

/-! ## Non-vacuity and witnesses on the demo interface (`Scpi/Proofs/RunStepsDemo.lean`)

The user state lists the handlers that ran (99 = the error handler); the second
component is the error log. -/

/-- (d) `F 1;X⏎`: the handler of `F` runs (6), returns the custom error 1, which is
reported verbatim; `X` runs afterwards. -/
example : (run Demo.I.logged [70, 32, 49, 59, 88, 10] Demo.W ([], [])).s =
    ([6, 99, 0], [.custom 1 []]) := by decide
/-- … and in the trace the invocation of `F` precedes its error, which precedes `X`. -/
example : (run Demo.I.traced [70, 32, 49, 59, 88, 10] Demo.W ([], [])).s.2 =
    [Ev.call 6 [.int .u8 1], Ev.error (.custom 1 []), Ev.call 0 []] := by decide
/-- (c) `F x;X⏎`: the parameter does not convert; `F`'s handler does NOT run; `X` runs. -/
example : (run Demo.I.logged [70, 32, 120, 59, 88, 10] Demo.W ([], [])).s =
    ([99, 0], [.std .DataTypeError]) := by decide
/-- (b) `X 1;X⏎`: wrong parameter count; the first `X` does not run, the second does. -/
example : (run Demo.I.logged [88, 32, 49, 59, 88, 10] Demo.W ([], [])).s =
    ([99, 0], [.std .UnexpectedNumberOfParameters]) := by decide
/-- (a) `S;X⏎`: the node `S` exists but has no command handler: execution-level
`UndefinedHeader`; `X` runs. -/
example : (run Demo.I.logged [83, 59, 88, 10] Demo.W ([], [])).s =
    ([99, 0], [.std .UndefinedHeader]) := by decide
/-- (e) `X?⏎` on a writer with room for one byte: the handler runs (4), the response
`7` is written, the newline does not fit: `TooMuchData`. -/
example : (run Demo.I.logged [88, 63, 10] { cap := some 1 } ([], [])).s =
    ([4, 99], [.std .TooMuchData]) := by decide
/-- Parse-level undefined header, `?;X⏎`: one error, `X` does NOT run (none of the
following units). -/
example : (run Demo.I.logged [63, 59, 88, 10] Demo.W ([], [])).s =
    ([99], [.std .UndefinedHeader]) := by decide
/-- Parse-level syntax error, `X $;X⏎`: one error, neither `X` runs. -/
example : (run Demo.I.logged [88, 32, 36, 59, 88, 10] Demo.W ([], [])).s.1 = [99] ∧
    (run Demo.I.logged [88, 32, 36, 59, 88, 10] Demo.W ([], [])).s.2.length = 1 := by decide
/-- Units before the faulty one run normally: `S:A;B;?;X⏎`. -/
example : (run Demo.I.logged [83, 58, 65, 59, 66, 59, 63, 59, 88, 10] Demo.W ([], [])).s =
    ([1, 2, 99], [.std .UndefinedHeader]) := by decide
/-- The message after a faulty one: `?;X⏎X⏎`. -/
example : (run Demo.I.logged ([63, 59, 88, 10] ++ [88, 10]) Demo.W ([], [])).s =
    ([99, 0], [.std .UndefinedHeader]) := by decide
/-- The premises of `later_messages_unaffected` hold for the faulty message `?;X⏎`. -/
example : [63, 59, 88, (10 : Nat)].getLast? = some 10 ∧
    (run Demo.I [63, 59, 88, 10] Demo.W []).rest = [] := by decide

/-- FINDING — **one faulty unit, two errors.**  The message `?;T 'a⏎b'⏎` has one
faulty unit (`?`) followed by the well-formed unit `T 'a⏎b'` (on its own it runs
handler 5 and reports nothing).  After the fault the interpreter skips to the first
BYTE 10 — which is inside the string — and runs `b'⏎` as a message of its own: a
second error.  Skipping is by byte, not by message terminator. -/
theorem newline_in_string_after_fault :
    (run Demo.I.logged [84, 32, 39, 97, 10, 98, 39, 10] Demo.W ([], [])).s = ([5], []) ∧
    (run Demo.I.logged [63, 59, 84, 32, 39, 97, 10, 98, 39, 10] Demo.W ([], [])).s =
      ([99, 99], [.std .UndefinedHeader, .std .UndefinedHeader]) := by decide

end C06
end Scpi
