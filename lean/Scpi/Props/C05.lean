/-
C05 — no input can crash or hang the interpreter (`run` part; the `process`
part is in `Scpi/Props/C05Process.lean`).

Every site where the Rust code can panic (slice bounds, `usize` subtraction,
`unwrap`) or spin (a loop iteration that consumes nothing) is an explicit
`crash` outcome of the model; these theorems show it is unreachable for every
tree, every handler table, every writer and every byte string.
-/
import Scpi.Proofs.RunGood

namespace Scpi
namespace C05

/-- **T5.1 (parser)**: `parse` never crashes, for every tree, start node and input. -/
theorem parse_no_crash (root header : Node) (input : Bytes) (c : Crash) :
    parse root header input ≠ .crash c :=
  (parse_strict root header input).noCrash c

/-- **T5.2 (parser)**: what `parse` returns is a suffix of its input, and an accepted
unit or empty message consumed at least one byte — so the loop of `run` terminates. -/
theorem parse_rest_suffix (root header : Node) (input rest : Bytes) (call : Option CommandCall)
    (h : parse root header input = .ok rest call) : rest <:+ input ∧ rest.length < input.length :=
  ⟨(parse_strict root header input).suffix _ _ h, (parse_strict root header input).lt _ _ h⟩

/-- **T5.1 (dispatcher)**: executing a unit never crashes: `args.get(i).unwrap()` is
guarded by the arity check; a failing response write is an error, not a panic. -/
theorem execute_never_crashes {σ : Type} (I : Iface σ) (call : CommandCall) (w : Writer) (s : σ)
    (c : Crash) : (execute I call w s).2.2 ≠ .crash c :=
  execute_no_crash I call w s c

/-- **T5.1/T5.2 (`run`)**: for every interface (tree, handlers, error handler), every
byte string, every writer (any capacity, including 0) and user state, `run` neither
crashes nor runs out of fuel (every iteration consumes input) … -/
theorem run_never_crashes {σ : Type} (I : Iface σ) (input : Bytes) (w : Writer) (s : σ) :
    (run I input w s).crash = none :=
  run_no_crash I input w s

/-- … and returns a suffix of the buffer it was given. -/
theorem run_returns_suffix {σ : Type} (I : Iface σ) (input : Bytes) (w : Writer) (s : σ) :
    (run I input w s).rest <:+ input :=
  run_rest_suffix I input w s

/-- The same from any header path (what `process` calls). -/
theorem runFrom_never_crashes {σ : Type} (I : Iface σ) (header : Node) (input : Bytes) (w : Writer)
    (s : σ) : (runFrom I header input w s).crash = none ∧ (runFrom I header input w s).rest <:+ input :=
  runFrom_good I header input w s

/-- Non-vacuity: a concrete run on a tree with one command, with a writer of capacity 0. -/
example :
    let tree : Node := .mk 0 [([88], .mk 1 [] (some 0) none)] none none
    let I : Iface Unit := { root := tree, cmds := [{ argTys := [], handler := fun s _ => (s, .ok .unit) }],
                            onError := fun s _ => s }
    (run I [88, 10, 33] { cap := some 0 } ()).rest = [33] := by decide

end C05
end Scpi
