/-
C07 + C11 — `process` on well-formed traffic is given by the byte-free specification.

Combines the chunk-independence theorem `Scpi.C07.process_eq_runs` (Scpi/Props/C07.lean)
with the message-level refinement `Scpi.Msg.run_render_run` (Scpi/Props/RunRender.lean).

Specification (`Scpi.Combo.specMessages`, Scpi/Proofs/ComboMsg.lean — no bytes, no white
space, no parser, no buffer, no reads):

    specMessages I n []           s out = (s, out)
    specMessages I n (us :: rest) s out =
      let (w, s') := specExec I I.root us { cap := some n } s      -- fresh n-byte writer
      specMessages I n rest s' (out ++ if w.buf = [] then [] else [.w w.buf, .f])

Hypotheses on each message `m : List (MsgUnit × Lex)` (`Scpi.Combo.Sendable n m`):
* `m ≠ []` and `wfMsg m` — at least one unit, all units and white-space choices
  well-formed;
* `(units m).all unitNlFree` — no newline inside a string or block payload.  `process`
  cuts the stream at every BYTE 10, so a message with a newline in a payload is not
  handed to the interpreter in one piece (that case is `Scpi.C08.process_payload_newline`);
* `(renderMsg m).length ≤ n` — the rendering fits the command buffer.  Needed: a longer
  message is discarded by `process` (last example of Scpi/Props/C07.lean).
Nothing is assumed about the headers (an undefined header costs one error and drops the
rest of its message: that is part of `specExec`), about the handlers, or about the size
of the responses (a response that does not fit the `n`-byte writer is an error reported
through `onError`: that is part of `specUnit`).
-/
import Scpi.Proofs.ComboMsg

namespace Scpi

namespace C07
open Msg Combo

/-- **`process` on rendered messages.**  For every interface, every buffer size `n ≥ 1`,
every list `ms` of sendable messages, every choice of white space / CR LF / letter case
in their renderings, and EVERY fault-free read schedule `sc` delivering the concatenated
renderings: the final user state of `process::<n>` (handlers run, errors reported) and
its writes and flushes are those of the specification `specMessages` on the unit lists. -/
theorem process_render {σ : Type} (I : Iface σ) (n : Nat) (ms : List (List (MsgUnit × Lex)))
    (sc : Script) (s : σ) (hn : 1 ≤ n) (hf : sc.fault = none)
    (hs : sc.stream = (ms.map renderMsg).flatten) (hm : ∀ m ∈ ms, Sendable n m) :
    (process I n sc s).user = (specMessages I n (ms.map units) s []).1 ∧
    (process I n sc s).trace.filter PEv.nonRead = (specMessages I n (ms.map units) s []).2 := by
  have h := process_eq_runs I n sc (ms.map renderMsg) s hn hf hs (by
    intro b hb
    obtain ⟨m, hmem, rfl⟩ := List.mem_map.1 hb
    exact isMessage_render I n (hm m hmem))
  rw [runMessages_render I n ms s [] hm] at h
  exact h

/-- The stream machine itself (no reads at all) on rendered messages. -/
theorem stream_render {σ : Type} (I : Iface σ) (n : Nat) (ms : List (List (MsgUnit × Lex)))
    (s : σ) (hm : ∀ m ∈ ms, Sendable n m) :
    (streamRun I n (ms.map renderMsg).flatten s).user = (specMessages I n (ms.map units) s []).1 ∧
    (streamRun I n (ms.map renderMsg).flatten s).out = (specMessages I n (ms.map units) s []).2 := by
  have h := stream_eq_runs I n (ms.map renderMsg) s (by
    intro b hb
    obtain ⟨m, hmem, rfl⟩ := List.mem_map.1 hb
    exact isMessage_render I n (hm m hmem))
  rw [runMessages_render I n ms s [] hm] at h
  exact h

/-- A rendered sendable message is a complete message in the sense of T7.2. -/
theorem isMessage_renderMsg {σ : Type} (I : Iface σ) (n : Nat) (m : List (MsgUnit × Lex))
    (h : Sendable n m) : IsMessage I n (renderMsg m) :=
  isMessage_render I n h

/-! ### Non-vacuity

The demo interface of Scpi/Props/RunRender.lean; messages `s:a;b;:x;*c⏎` (12 bytes, in
the loose rendering 28 bytes) and `x?⏎`; a 28-byte command buffer. -/

/-- `x?` tight. -/
def exQ : List (MsgUnit × Lex) := [(Msg.Demo.uQ, Msg.Demo.tight)]

theorem ex_sendable : ∀ m ∈ [Msg.Demo.msg2, exQ, Msg.Demo.msg1], Sendable 28 m := by
  intro m hm
  simp only [List.mem_cons, List.not_mem_nil, or_false] at hm
  rcases hm with rfl | rfl | rfl <;> exact ⟨by decide, by decide, by decide, by decide⟩

/-- The 43-byte stream of the three messages … -/
def exStream : Bytes := ([Msg.Demo.msg2, exQ, Msg.Demo.msg1].map renderMsg).flatten

/-- … byte by byte with empty reads in between, and in reads of 28 (exactly the
buffer), 1 and 100 bytes. -/
def exSlow : Script := { stream := exStream, sizes := (List.replicate 43 [0, 1]).flatten }
def exFast : Script := { stream := exStream, sizes := [28, 1, 100] }

/-- What the specification says: handlers 1,2,0,3, then the query 4 answering `7⏎`, then
1,2,0,3 again; one response written and flushed. -/
example : specMessages Msg.Demo.I 28 ([Msg.Demo.msg2, exQ, Msg.Demo.msg1].map units) [] [] =
    ([(1, []), (2, []), (0, []), (3, []), (4, []), (1, []), (2, []), (0, []), (3, [])],
     [.w [55, 10], .f]) := by decide

/-- The theorem, instantiated for both schedules. -/
example : (process Msg.Demo.I 28 exSlow []).user =
      (specMessages Msg.Demo.I 28 ([Msg.Demo.msg2, exQ, Msg.Demo.msg1].map units) [] []).1 ∧
    (process Msg.Demo.I 28 exFast []).trace.filter PEv.nonRead =
      (specMessages Msg.Demo.I 28 ([Msg.Demo.msg2, exQ, Msg.Demo.msg1].map units) [] []).2 :=
  ⟨(process_render Msg.Demo.I 28 _ exSlow [] (by decide) rfl rfl ex_sendable).1,
   (process_render Msg.Demo.I 28 _ exFast [] (by decide) rfl rfl ex_sendable).2⟩

/-- Computed independently of the theorem: `process` on the fast schedule. -/
example : (process Msg.Demo.I 28 exFast []).user =
      [(1, []), (2, []), (0, []), (3, []), (4, []), (1, []), (2, []), (0, []), (3, [])] ∧
    (process Msg.Demo.I 28 exFast []).trace.filter PEv.nonRead = [.w [55, 10], .f] := by
  decide +kernel

/-- The length bound is needed: with a 27-byte buffer the 28-byte first message is
discarded (its four handlers are not called) although `specMessages` runs it. -/
example : (process Msg.Demo.I 27 exFast []).user ≠
    (specMessages Msg.Demo.I 27 ([Msg.Demo.msg2, exQ, Msg.Demo.msg1].map units) [] []).1 := by
  decide +kernel

/-- The payload condition is needed for this statement: `x?;s:p "a⏎",#10;:x?⏎` (every
header resolves, a newline in the string).  `process` hands the bytes up to the embedded
newline to the interpreter first (`x?` is answered and the answer sent), keeps the
unfinished unit and goes on at the terminator: the user state is that of the
specification, but the two answers are sent in two writes instead of one.  (Messages
with newlines in payloads: `Scpi.C08.process_render_payload`, which compares the bytes
sent rather than the individual writes.) -/
def exNl : List (MsgUnit × Lex) :=
  [(Msg.Demo.uQ, Msg.Demo.tight),
   ({ hdr := { path := .compound false [[115], [112]], query := false },
      lits := [.str 34 [97, 10], .block 1 []] }, { Msg.Demo.tight with sep := [32] }),
   ({ hdr := { path := .compound true [[120]], query := true }, lits := [] }, Msg.Demo.tight)]

example : exNl ≠ [] ∧ wfMsg exNl = true ∧ (renderMsg exNl).length ≤ 28 ∧
    allResolve Msg.Demo.I.root Msg.Demo.I.root (units exNl) = true ∧
    (specMessages Msg.Demo.I 28 [units exNl] [] []).2 = [.w [55, 10, 55, 10], .f] ∧
    (process Msg.Demo.I 28 { stream := renderMsg exNl, sizes := [] } []).trace.filter PEv.nonRead =
      [.w [55, 10], .f, .w [55, 10], .f] := by
  decide +kernel

end C07

namespace C11
open Msg Combo

/-- **Lexical choices and chunking are jointly irrelevant.**  Two streams that render
the same messages (`ms₁.map units = ms₂.map units`) with different white space — before
each unit, after the header, around each comma, before each `;` and before the
terminator, CR LF or LF — each rendering fitting the buffer, delivered through ANY two
fault-free read schedules: the same final user state and the same writes and flushes. -/
theorem process_lex_irrelevant {σ : Type} (I : Iface σ) (n : Nat)
    (ms₁ ms₂ : List (List (MsgUnit × Lex))) (sc₁ sc₂ : Script) (s : σ) (hn : 1 ≤ n)
    (hf₁ : sc₁.fault = none) (hf₂ : sc₂.fault = none)
    (hs₁ : sc₁.stream = (ms₁.map renderMsg).flatten) (hs₂ : sc₂.stream = (ms₂.map renderMsg).flatten)
    (hm₁ : ∀ m ∈ ms₁, Sendable n m) (hm₂ : ∀ m ∈ ms₂, Sendable n m)
    (hu : ms₁.map units = ms₂.map units) :
    (process I n sc₁ s).user = (process I n sc₂ s).user ∧
    (process I n sc₁ s).trace.filter PEv.nonRead = (process I n sc₂ s).trace.filter PEv.nonRead := by
  obtain ⟨a₁, b₁⟩ := C07.process_render I n ms₁ sc₁ s hn hf₁ hs₁ hm₁
  obtain ⟨a₂, b₂⟩ := C07.process_render I n ms₂ sc₂ s hn hf₂ hs₂ hm₂
  rw [a₁, a₂, b₁, b₂, hu]
  exact ⟨rfl, rfl⟩

/-- **… and so is the letter case of the mnemonics.**  The same with messages that
differ, unit by unit, only in the letter case of the header mnemonics
(`SameMsgsUpToCase`: same literals, same `?`, `PathSameIgnoringCase` headers). -/
theorem process_case_irrelevant {σ : Type} (I : Iface σ) (n : Nat)
    (ms₁ ms₂ : List (List (MsgUnit × Lex))) (sc₁ sc₂ : Script) (s : σ) (hn : 1 ≤ n)
    (hf₁ : sc₁.fault = none) (hf₂ : sc₂.fault = none)
    (hs₁ : sc₁.stream = (ms₁.map renderMsg).flatten) (hs₂ : sc₂.stream = (ms₂.map renderMsg).flatten)
    (hm₁ : ∀ m ∈ ms₁, Sendable n m) (hm₂ : ∀ m ∈ ms₂, Sendable n m)
    (hu : SameMsgsUpToCase (ms₁.map units) (ms₂.map units)) :
    (process I n sc₁ s).user = (process I n sc₂ s).user ∧
    (process I n sc₁ s).trace.filter PEv.nonRead = (process I n sc₂ s).trace.filter PEv.nonRead := by
  obtain ⟨a₁, b₁⟩ := C07.process_render I n ms₁ sc₁ s hn hf₁ hs₁ hm₁
  obtain ⟨a₂, b₂⟩ := C07.process_render I n ms₂ sc₂ s hn hf₂ hs₂ hm₂
  rw [a₁, a₂, b₁, b₂, specMessages_sameUpToCase I n _ _ hu]
  exact ⟨rfl, rfl⟩

/-- Non-vacuity: `s:a;b;:x;*c⏎` tight (12 bytes) read byte by byte against the loose
28-byte rendering with CR LF read in one piece … -/
example : (process Msg.Demo.I 28 { stream := renderMsg Msg.Demo.msg1, sizes := List.replicate 12 1 } []).user =
    (process Msg.Demo.I 28 { stream := renderMsg Msg.Demo.msg2, sizes := [28] } []).user :=
  (process_lex_irrelevant Msg.Demo.I 28 [Msg.Demo.msg1] [Msg.Demo.msg2] _ _ [] (by decide) rfl rfl
    (by simp only [List.map_cons, List.map_nil, List.flatten_cons, List.flatten_nil, List.append_nil])
    (by simp only [List.map_cons, List.map_nil, List.flatten_cons, List.flatten_nil, List.append_nil])
    (by intro m hm; simp only [List.mem_cons, List.not_mem_nil, or_false] at hm; subst hm
        exact ⟨by decide, by decide, by decide, by decide⟩)
    (by intro m hm; simp only [List.mem_cons, List.not_mem_nil, or_false] at hm; subst hm
        exact ⟨by decide, by decide, by decide, by decide⟩)
    (by decide)).1

/-- … and against the upper-case spelling `S:A;B;:X;*C⏎`. -/
example : SameMsgsUpToCase ([Msg.Demo.msg1].map units) ([mapMsgCase toUpperAscii Msg.Demo.msg1].map units) :=
  ⟨sameUpToCase_map C11.mapPath_upper_same _, trivial⟩

end C11
end Scpi
