/-
C08, streaming half — "The payload of a quoted string or definite-length block may
contain … newline — and is delivered verbatim, never interpreted as a separator or
terminator, whether the message is given to run whole or streamed through process in
any chunking.  In particular a newline inside a payload neither ends the message nor
produces an error, and all units of that message execute exactly as they would without
the embedded newline."

What `process` does at a newline: it hands everything received since the last completely
interpreted unit to `run_from`, with a fresh `N`-byte response buffer.  If the newline
lies inside a string or block payload, the unit under the cursor is `incomplete`:
`run_from` stops there and returns the unfinished unit and the header path reached;
`process` keeps both and calls `run_from` again at the next newline.

* `runFrom_resume` (T8.2): stopping at an unfinished unit and continuing later, from
  the returned rest, path, writer and user state, is the same as one `run_from` over all
  the bytes.  `runFrom_split` is the same for every newline, inside a payload or not.
* `stream_payload_newline` (T8.3): a message with newlines inside payloads, streamed
  byte by byte through the stream machine of `Scpi/Spec/Stream.lean`, ends in the user
  state in which `run` ends when given the message whole, with nothing pending, the
  path at the root, and the bytes sent are the bytes `run` writes.
  `stream_payload_messages` is the same for a whole session of such messages.
* `process_payload_newline`, `process_payload_messages`: with `C07.process_refines_stream`,
  the same for `Interface::process::<N, _>` under EVERY fault-free chunking of the stream.
* `process_payload_newline_traced`: … so the handlers invoked, their parameters and the
  errors reported are, in order, those of `run` on the whole message.

ASSUMPTIONS of T8.3, all stated as hypotheses:
* the message fits in the command buffer (`m.length ≤ n`; a longer unfinished message
  is discarded by `process`, see `C06.stream_overflow_isolation`);
* `run` consumes it entirely (`rest = []`: it is complete);
* the response `run` writes for the whole message is at most `n` bytes.  `process` uses a
  fresh `n`-byte response buffer per newline while `run` is given one writer for the
  whole message, so the comparison is with `run` on an UNBOUNDED writer, and no response
  buffer may overflow; the bound on the whole response is a simple sufficient condition
  (`exQ_response_bound_needed` shows that some bound is needed).  Under this bound `run`
  with an `n`-byte buffer does the same as with the unbounded writer
  (`run_bounded_eq_unbounded`), so the comparison holds for that run as well.

All theorems hold for every interface: every tree, all handlers, every error handler.
-/
import Scpi.Proofs.ResumeRun
import Scpi.Props.C07
import Scpi.Props.C06

namespace Scpi
namespace C08

/-! ## T8.2 — resuming `run_from` -/

/-- **T8.2 (resumption).**  Let `x` end with a newline and let `run_from` stop on it with a
non-empty rest — it cannot crash (`runFrom_good`), so it stopped because the unit under
the cursor is unfinished: the final newline of `x` lies inside a string or block payload.
Then for every continuation `y`, running on `x ++ y` is running on `rest ++ y` from the
header path, writer and user state returned for `x`.  (Every unit before the unfinished
one got a final verdict — accepted, or rejected on an input that ends with a newline — so
by parser finality, C12, it is treated the same when `y` follows.) -/
theorem runFrom_resume {σ : Type} (I : Iface σ) (h : Node) (x : Bytes) (w : Writer) (s : σ)
    (hx : x.getLast? = some 10) (hrest : (runFrom I h x w s).rest ≠ []) (y : Bytes) :
    runFrom I h (x ++ y) w s =
      runFrom I (runFrom I h x w s).header ((runFrom I h x w s).rest ++ y)
        (runFrom I h x w s).w (runFrom I h x w s).s :=
  Scpi.runFrom_resume I h x w s hx hrest y

/-- **T8.2 (every newline).**  The same whether the newline ended a message (`rest = []`,
path at the root) or lies inside a payload. -/
theorem runFrom_split {σ : Type} (I : Iface σ) (h : Node) (x : Bytes) (w : Writer) (s : σ)
    (hx : x.getLast? = some 10) (y : Bytes) :
    runFrom I h (x ++ y) w s =
      runFrom I (runFrom I h x w s).header ((runFrom I h x w s).rest ++ y)
        (runFrom I h x w s).w (runFrom I h x w s).s :=
  Scpi.runFrom_split I h x w s hx y

/-- What is returned as unfinished is still unfinished when looked at again: no error is
reported and no handler runs for it. -/
theorem runFrom_rest_idem {σ : Type} (I : Iface σ) (h : Node) (x : Bytes) (w : Writer) (s : σ)
    (hx : x.getLast? = some 10) :
    runFrom I (runFrom I h x w s).header (runFrom I h x w s).rest
        (runFrom I h x w s).w (runFrom I h x w s).s = runFrom I h x w s :=
  Scpi.runFrom_rest_idem I h x w s hx

/-! ## T8.3 — the stream machine on a message with newlines in payloads -/

/-- A response buffer that is large enough is as good as an unbounded one: if `run` on an
unbounded writer writes at most `n` bytes, `run` with an `n`-byte buffer stops at the same
place, ends in the same user state and has written the same bytes. -/
theorem run_bounded_eq_unbounded {σ : Type} (I : Iface σ) (n : Nat) (m : Bytes) (s : σ)
    (hresp : (run I m { cap := none } s).w.buf.length ≤ n) :
    (run I m { cap := some n } s).s = (run I m { cap := none } s).s ∧
    (run I m { cap := some n } s).w.buf = (run I m { cap := none } s).w.buf ∧
    (run I m { cap := some n } s).rest = (run I m { cap := none } s).rest := by
  obtain ⟨r1, _, r3, _, r5⟩ := runFrom_sim I n [] I.root m { cap := some n } { cap := none } s
    ⟨rfl, rfl, rfl⟩ (by show _ ≤ 0 + n; rw [Nat.zero_add]; exact hresp)
  have hb := r5.2.2
  rw [List.nil_append] at hb
  exact ⟨r3, hb.symm, r1⟩

/-- **T8.3 (stream machine).**  Let `m` end with a newline, fit in the `n`-byte command
buffer, be consumed entirely by `run` — a complete message (or several), which may contain
any number of newlines inside string and block payloads — and let the response `run`
writes on an unbounded writer be at most `n` bytes.  Streamed byte by byte, `m`
* leaves nothing pending and the path at the root,
* ends in the user state `run` ends in when given `m` whole, and
* the bytes sent are exactly the bytes `run` writes.
The user state is arbitrary and is changed only by handlers and the error handler, so
no error is reported that `run` does not report and every handler runs with the
parameters it gets from `run` (`process_payload_newline_traced`). -/
theorem stream_payload_newline {σ : Type} (I : Iface σ) (n : Nat) (m : Bytes) (s : σ)
    (hm : m.getLast? = some 10) (hfit : m.length ≤ n)
    (hc : (run I m { cap := none } s).rest = [])
    (hresp : (run I m { cap := none } s).w.buf.length ≤ n) :
    (streamRun I n m s).pending = [] ∧ (streamRun I n m s).header = I.root ∧
    (streamRun I n m s).user = (run I m { cap := none } s).s ∧
    outBytes (streamRun I n m s).out = (run I m { cap := none } s).w.buf := by
  obtain ⟨h1, h2, h3, d, h4, h5⟩ := stream_eq_run_from I n m (streamInit I s) { cap := none } rfl
    hm hfit hc (by show _ ≤ 0 + n; rw [Nat.zero_add]; exact hresp) rfl rfl
  refine ⟨h1, h2, h3, ?_⟩
  unfold streamRun
  rw [h5]
  simp only [streamInit] at h4 ⊢
  rw [h4]
  rfl

/-- … and these are also the user state and the bytes of `run` with an `n`-byte response
buffer, as `process` would be compared with in T7.2. -/
theorem stream_payload_newline_bounded {σ : Type} (I : Iface σ) (n : Nat) (m : Bytes) (s : σ)
    (hm : m.getLast? = some 10) (hfit : m.length ≤ n)
    (hc : (run I m { cap := none } s).rest = [])
    (hresp : (run I m { cap := none } s).w.buf.length ≤ n) :
    (streamRun I n m s).user = (run I m { cap := some n } s).s ∧
    outBytes (streamRun I n m s).out = (run I m { cap := some n } s).w.buf := by
  obtain ⟨_, _, a, b⟩ := stream_payload_newline I n m s hm hfit hc hresp
  obtain ⟨c, d, _⟩ := run_bounded_eq_unbounded I n m s hresp
  rw [a, b, c, d]
  exact ⟨rfl, rfl⟩

/-- A session: messages handed to `run` one after the other on the unbounded writer `W`;
each ends with a newline, fits in the command buffer, is consumed entirely and adds at
most `n` bytes to the writer. -/
def Session {σ : Type} (I : Iface σ) (n : Nat) : List Bytes → Writer → σ → Prop
  | [], _, _ => True
  | m :: ms, W, s =>
    m.getLast? = some 10 ∧ m.length ≤ n ∧ (run I m W s).rest = [] ∧
    (run I m W s).w.buf.length ≤ W.buf.length + n ∧
    Session I n ms (run I m W s).w (run I m W s).s

/-- Sessions from any state of the machine between messages. -/
theorem stream_session_from {σ : Type} (I : Iface σ) (n : Nat) : ∀ (msgs : List Bytes)
    (st : SpecState σ) (W : Writer), W.cap = none → Session I n msgs W st.user →
    st.pending = [] → st.header = I.root →
    (msgs.flatten.foldl (streamSpec I n) st).pending = [] ∧
    (msgs.flatten.foldl (streamSpec I n) st).header = I.root ∧
    (msgs.flatten.foldl (streamSpec I n) st).user = (run I msgs.flatten W st.user).s ∧
    ∃ d, (run I msgs.flatten W st.user).w.buf = W.buf ++ d ∧
      outBytes (msgs.flatten.foldl (streamSpec I n) st).out = outBytes st.out ++ d := by
  intro msgs
  induction msgs with
  | nil =>
    intro st W _ _ hp hh
    simp only [List.flatten_nil, List.foldl_nil, run, runFrom_nil]
    exact ⟨hp, hh, trivial, [], by simp, by simp⟩
  | cons m ms ih =>
    intro st W hW hs hp hh
    obtain ⟨hm, hfit, hc, hresp, hrest⟩ := hs
    obtain ⟨a1, a2, a3, d1, a4, a5⟩ := stream_eq_run_from I n m st W hW hm hfit hc hresp hp hh
    have hW1 : (run I m W st.user).w.cap = none := (extends_runFrom I _ _ _ _).1.trans hW
    rw [← a3] at hrest
    obtain ⟨b1, b2, b3, d2, b4, b5⟩ := ih (m.foldl (streamSpec I n) st) _ hW1 hrest a1 a2
    have hrun := C06.later_messages_unaffected_closed I m ms.flatten W st.user hm hc
    rw [List.flatten_cons, List.foldl_append, hrun, ← a3]
    refine ⟨b1, b2, b3, d1 ++ d2, ?_, ?_⟩
    · rw [b4, a4, List.append_assoc]
    · rw [b5, a5, List.append_assoc]

/-- **T8.3 (a whole session).**  A stream that is a sequence of complete messages — each
fits in the command buffer, each may contain newlines inside payloads, each response is
at most `n` bytes — is processed by the stream machine as by ONE call of `run` on the
whole stream with an unbounded writer: same final user state, same bytes sent. -/
theorem stream_payload_messages {σ : Type} (I : Iface σ) (n : Nat) (msgs : List Bytes) (s : σ)
    (hs : Session I n msgs { cap := none } s) :
    (streamRun I n msgs.flatten s).pending = [] ∧ (streamRun I n msgs.flatten s).header = I.root ∧
    (streamRun I n msgs.flatten s).user = (run I msgs.flatten { cap := none } s).s ∧
    outBytes (streamRun I n msgs.flatten s).out = (run I msgs.flatten { cap := none } s).w.buf := by
  obtain ⟨h1, h2, h3, d, h4, h5⟩ := stream_session_from I n msgs (streamInit I s) { cap := none }
    rfl hs rfl rfl
  refine ⟨h1, h2, h3, ?_⟩
  unfold streamRun
  rw [h5]
  simp only [streamInit] at h4 ⊢
  rw [h4]
  rfl

/-! ## T8.3 for `process`, under every chunking -/

/-- **T8.3 (`process`).**  Whatever the sizes of the reads that deliver it (one byte at a
time, cut inside the payload, cut at the embedded newline, all at once, …), a message `m`
as in `stream_payload_newline` makes `Interface::process::<N, _>` end in the user state
of `run` on `m` given whole, and the bytes handed to `adapter.write` are the bytes `run`
writes. -/
theorem process_payload_newline {σ : Type} (I : Iface σ) (n : Nat) (sc : Script) (s : σ)
    (hf : sc.fault = none)
    (hm : sc.stream.getLast? = some 10) (hfit : sc.stream.length ≤ n)
    (hc : (run I sc.stream { cap := none } s).rest = [])
    (hresp : (run I sc.stream { cap := none } s).w.buf.length ≤ n) :
    (process I n sc s).user = (run I sc.stream { cap := none } s).s ∧
    outBytes ((process I n sc s).trace.filter PEv.nonRead) =
      (run I sc.stream { cap := none } s).w.buf := by
  have hn : 1 ≤ n := by
    cases hl : sc.stream with
    | nil => rw [hl] at hm; cases hm
    | cons b t => rw [hl] at hfit; simp only [List.length_cons] at hfit; omega
  obtain ⟨a, b, _, _⟩ := C07.process_refines_stream I n sc s hn hf
  obtain ⟨_, _, c, d⟩ := stream_payload_newline I n sc.stream s hm hfit hc hresp
  rw [a, b, c, d]
  exact ⟨rfl, rfl⟩

/-- **T8.3 (`process`, a whole session)**: a stream of complete messages with newlines in
payloads, delivered in any chunking (reads may span several messages). -/
theorem process_payload_messages {σ : Type} (I : Iface σ) (n : Nat) (sc : Script)
    (msgs : List Bytes) (s : σ) (hn : 1 ≤ n) (hf : sc.fault = none) (hst : sc.stream = msgs.flatten)
    (hs : Session I n msgs { cap := none } s) :
    (process I n sc s).user = (run I sc.stream { cap := none } s).s ∧
    outBytes ((process I n sc s).trace.filter PEv.nonRead) =
      (run I sc.stream { cap := none } s).w.buf := by
  obtain ⟨a, b, _, _⟩ := C07.process_refines_stream I n sc s hn hf
  obtain ⟨_, _, c, d⟩ := stream_payload_messages I n msgs s hs
  rw [a, b, hst, c, d]
  exact ⟨rfl, rfl⟩

/-- **Two chunkings** of the same message give the same final user state and the same
bytes — and both are those of `run`. -/
theorem process_payload_chunking {σ : Type} (I : Iface σ) (n : Nat) (sc₁ sc₂ : Script) (s : σ)
    (hf₁ : sc₁.fault = none) (hf₂ : sc₂.fault = none) (hst : sc₁.stream = sc₂.stream)
    (hm : sc₁.stream.getLast? = some 10) (hfit : sc₁.stream.length ≤ n)
    (hc : (run I sc₁.stream { cap := none } s).rest = [])
    (hresp : (run I sc₁.stream { cap := none } s).w.buf.length ≤ n) :
    (process I n sc₁ s).user = (process I n sc₂ s).user ∧
    outBytes ((process I n sc₁ s).trace.filter PEv.nonRead) =
      outBytes ((process I n sc₂ s).trace.filter PEv.nonRead) := by
  obtain ⟨a, b⟩ := process_payload_newline I n sc₁ s hf₁ hm hfit hc hresp
  obtain ⟨c, d⟩ := process_payload_newline I n sc₂ s hf₂ (hst ▸ hm) (hst ▸ hfit) (hst ▸ hc)
    (hst ▸ hresp)
  rw [a, b, c, d, hst]
  exact ⟨rfl, rfl⟩

/-- **Same handlers, same parameters, same errors.**  With the tracing wrapper (`I.traced`
logs every handler invocation with its converted parameters and every error handed to the
error handler, in order, and otherwise behaves like `I`): the log of `process` over any
chunking of `m` is the log of `run` on `m` given whole.  So a newline inside a payload
produces no error, ends no message, and every unit of the message runs as by `run`. -/
theorem process_payload_newline_traced {σ : Type} (I : Iface σ) (n : Nat) (sc : Script) (s : σ)
    (hf : sc.fault = none)
    (hm : sc.stream.getLast? = some 10) (hfit : sc.stream.length ≤ n)
    (hc : (run I sc.stream { cap := none } s).rest = [])
    (hresp : (run I sc.stream { cap := none } s).w.buf.length ≤ n) :
    (process I.traced n sc (s, [])).user.2 = (run I.traced sc.stream { cap := none } (s, [])).s.2 ∧
    (process I.traced n sc (s, [])).user.1 = (run I sc.stream { cap := none } s).s := by
  have e : run I.traced sc.stream { cap := none } (s, []) =
      (run I sc.stream { cap := none } s).withLog ([] ++ runLog I _ _ I.root sc.stream { cap := none } s) :=
    runFrom_instrument I _ _ I.root sc.stream { cap := none } s []
  obtain ⟨a, _⟩ := process_payload_newline I.traced n sc (s, []) hf hm hfit
    (by rw [e]; exact hc) (by rw [e]; exact hresp)
  rw [a]
  refine ⟨rfl, ?_⟩
  rw [e]
  rfl

/-! ## Non-vacuity: `T 'a⏎b'⏎` -/

/-- One command `T` taking a string; the user state is the list of strings `T` was called
with and the list of errors reported. -/
def exT : Iface (List Bytes × List Err) where
  root := .mk 0 [([84], .mk 1 [] (some 0) none)] none none
  cmds := [{ argTys := [.str]
             handler := fun s tvs =>
               match tvs with
               | [.str b] => ((s.1 ++ [b], s.2), .ok .unit)
               | _ => (s, .ok .unit) }]
  onError := fun s e => (s.1, s.2 ++ [e])

/-- `T 'a⏎b'⏎`: the string payload is `a`, newline, `b`. -/
def exMsg : Bytes := [84, 32, 39, 97, 10, 98, 39, 10]

/-- Given whole to `run`: one call of the handler with `a⏎b`, no error. -/
example : (run exT exMsg { cap := none } ([], [])).s = ([[97, 10, 98]], []) ∧
    (run exT exMsg { cap := none } ([], [])).rest = [] := by decide +kernel

/-- Streamed through a 16-byte buffer: the handler is called once, with `a⏎b`, and no error
is reported; nothing is pending afterwards. -/
example : (streamRun exT 16 exMsg ([], [])).user = ([[97, 10, 98]], []) ∧
    (streamRun exT 16 exMsg ([], [])).pending = [] ∧
    (streamRun exT 16 exMsg ([], [])).out = [] := by decide +kernel

/-- After the first five bytes `T 'a⏎` — the newline inside the payload has arrived —
nothing has been executed, nothing has been reported and the five bytes are kept. -/
example : (streamRun exT 16 [84, 32, 39, 97, 10] ([], [])).user = ([], []) ∧
    (streamRun exT 16 [84, 32, 39, 97, 10] ([], [])).pending = [84, 32, 39, 97, 10] := by
  decide +kernel

/-- The hypotheses of `runFrom_resume` hold for `x = T 'a⏎`. -/
example : ([84, 32, 39, 97, 10] : Bytes).getLast? = some 10 ∧
    (runFrom exT exT.root [84, 32, 39, 97, 10] { cap := some 16 } ([], [])).rest ≠ [] := by
  decide +kernel

/-- The premise `x.getLast? = some 10` of `runFrom_resume` is needed (it always holds in
`process`, which calls `run_from` at newlines only): `x = T 1e` is rejected for lack of an
exponent and returned as rest, with one error reported; continuing with `y = 5⏎` reports
that error in addition to what `run_from` reports for `T 1e5⏎` given whole. -/
theorem resume_needs_newline :
    (runFrom exT exT.root [84, 32, 49, 101] { cap := none } ([], [])).rest = [84, 32, 49, 101] ∧
    (runFrom exT exT.root [84, 32, 49, 101] { cap := none } ([], [])).s
      = ([], [.std .InvalidCharacter]) ∧
    (runFrom exT exT.root ([84, 32, 49, 101] ++ [53, 10]) { cap := none } ([], [])).s
      = ([], [.std .DataTypeError]) ∧
    (runFrom exT exT.root ([84, 32, 49, 101] ++ [53, 10]) { cap := none }
        ([], [.std .InvalidCharacter])).s
      = ([], [.std .InvalidCharacter, .std .DataTypeError]) := by decide +kernel

/-- The hypotheses of `stream_payload_newline` hold for this message and `n = 16`. -/
theorem exMsg_ok : exMsg.getLast? = some 10 ∧ exMsg.length ≤ 16 ∧
    (run exT exMsg { cap := none } ([], [])).rest = [] ∧
    (run exT exMsg { cap := none } ([], [])).w.buf.length ≤ 16 := by decide +kernel

/-- The message cut inside the payload, at the embedded newline, byte by byte, and in one read. -/
def exCutInside : Script := { stream := exMsg, sizes := [4, 4] }
def exCutAtNewline : Script := { stream := exMsg, sizes := [5, 3] }
def exBytewise : Script := { stream := exMsg, sizes := [1, 1, 1, 1, 1, 1, 1, 1] }
def exWhole : Script := { stream := exMsg, sizes := [8] }

example : (process exT 16 exCutInside ([], [])).user = ([[97, 10, 98]], []) := by decide +kernel
example : (process exT 16 exCutAtNewline ([], [])).user = ([[97, 10, 98]], []) := by decide +kernel
example : (process exT 16 exBytewise ([], [])).user = ([[97, 10, 98]], []) := by decide +kernel
example : (process exT 16 exWhole ([], [])).user = ([[97, 10, 98]], []) := by decide +kernel

/-- An instance of `process_payload_newline`. -/
example : (process exT 16 exCutAtNewline ([], [])).user = (run exT exMsg { cap := none } ([], [])).s :=
  (process_payload_newline exT 16 exCutAtNewline ([], []) rfl exMsg_ok.1 exMsg_ok.2.1
    exMsg_ok.2.2.1 exMsg_ok.2.2.2).1

/-- The trace of `process` over the chunking cut at the embedded newline: the handler call,
with the payload verbatim, and nothing else. -/
example : (process exT.traced 16 exCutAtNewline (([], []), [])).user.2
    = [Ev.call 0 [.str [97, 10, 98]]] := by decide +kernel

/-- The same with a block: `T #13a⏎b⏎` is refused only because `T` wants a string — the
three payload bytes `a⏎b` are one parameter, and exactly one error is reported (by `run`
and by the stream machine alike). -/
example : (run exT [84, 32, 35, 49, 51, 97, 10, 98, 10] { cap := none } ([], [])).s
      = ([], [.std .DataTypeError]) ∧
    (streamRun exT 16 [84, 32, 35, 49, 51, 97, 10, 98, 10] ([], [])).user
      = ([], [.std .DataTypeError]) := by decide +kernel

/-! ## The bound on the response is needed -/

/-- `Q?` answers `1234567`; errors are logged. -/
def exQ : Iface (List Err) where
  root := .mk 0 [([81], .mk 1 [] none (some 0))] none none
  cmds := [{ argTys := [], handler := fun s _ => (s, .ok (.int 1234567)) }]
  onError := fun s e => s ++ [e]

/-- `Q?⏎` fits in a 4-byte command buffer but its response `1234567⏎` does not fit in the
4-byte response buffer `process` uses: the stream machine reports an error that `run`
with an unbounded writer does not.  Some bound on the response is needed in T8.3. -/
theorem exQ_response_bound_needed :
    (run exQ [81, 63, 10] { cap := none } []).s = [] ∧
    (run exQ [81, 63, 10] { cap := none } []).rest = [] ∧
    (streamRun exQ 4 [81, 63, 10] []).user ≠ [] := by decide +kernel

end C08
end Scpi
