/-
`StaticErrorQueue<N>` (error_queue.rs) over `heapless::Deque<Error, N>`.
-/
import Scpi.Basic

namespace Scpi

structure EQueue where
  cap : Nat
  items : List Err := []
  deriving Repr, Inhabited

namespace EQueue

/-- `push_error` (error_queue.rs:33-43): when `push_back` fails the most recent
entry is replaced by `QueueOverflow`. -/
def push (q : EQueue) (e : Err) : EQueue :=
  if q.items.length < q.cap then { q with items := q.items ++ [e] }
  else
    match q.items.reverse with
    | [] => q                                   -- capacity 0: `back_mut()` is `None`
    | _ :: pre => { q with items := (Err.std .QueueOverflow :: pre).reverse }

/-- `pop_error` (error_queue.rs:45-47). -/
def pop (q : EQueue) : Option Err × EQueue :=
  match q.items with
  | [] => (none, q)
  | e :: rest => (some e, { q with items := rest })

/-- `error_count` (error_queue.rs:49-51). -/
def count (q : EQueue) : Nat := q.items.length

end EQueue
end Scpi
