/-
`from_str_radix` for the primitive integer types re-stated from its
documentation (core::num): optional `+`, `-` only for signed types, at least one
digit, digits valid in the radix (letters in either case), value in range.
Modelled, not verified: validated by the `CONV` op class.
-/
import Scpi.Basic

namespace Scpi

/-- Value of an ASCII digit in radix ≤ 36, `char::to_digit`. -/
def digitVal (radix b : Nat) : Option Nat :=
  let v : Option Nat :=
    if 48 ≤ b ∧ b ≤ 57 then some (b - 48)
    else if 97 ≤ b ∧ b ≤ 122 then some (b - 97 + 10)
    else if 65 ≤ b ∧ b ≤ 90 then some (b - 65 + 10)
    else none
  match v with
  | some d => if d < radix then some d else none
  | none => none

/-- Value of a digit string (most significant first); `none` on an invalid digit. -/
def digitsVal (radix : Nat) : Bytes → Nat → Option Nat
  | [], acc => some acc
  | b :: rest, acc =>
    match digitVal radix b with
    | some d => digitsVal radix rest (acc * radix + d)
    | none => none

/-- Bounds of a primitive integer type. -/
def intMin (signed : Bool) (bits : Nat) : Int := if signed then -(2 ^ (bits - 1) : Nat) else 0
def intMax (signed : Bool) (bits : Nat) : Int :=
  if signed then (2 ^ (bits - 1) : Nat) - 1 else (2 ^ bits : Nat) - 1

/-- `<T>::from_str_radix(s, radix).ok()`. -/
def fromStrRadix (signed : Bool) (bits radix : Nat) (s : Bytes) : Option Int :=
  match s with
  | [] => none
  | [43] => none
  | [45] => none
  | b :: rest =>
    let (neg, ds) : Bool × Bytes :=
      if b == 43 then (false, rest)
      else if b == 45 && signed then (true, rest)
      else (false, b :: rest)
    match digitsVal radix ds 0 with
    | none => none
    | some m =>
      let v : Int := if neg then -(m : Int) else (m : Int)
      if intMin signed bits ≤ v ∧ v ≤ intMax signed bits then some v else none

end Scpi
