/-
Responses (response.rs): the writers (`Write` impls for `heapless::Vec<u8,N>`
and `std::vec::Vec<u8>`, and a pass-through writer) and `Response::write_response`
for every response type, as the sequence of calls made on the writer.
-/
import Scpi.Float

namespace Scpi

/-- Observable writer events (for the pass-through writer). -/
inductive WEv where
  | w (b : Bytes)
  | f
  deriving DecidableEq, Repr, Inhabited

/-- A response writer. `cap = some c` is `heapless::Vec<u8, c>`; `cap = none` is
unbounded (`std::vec::Vec<u8>` or a pass-through writer). -/
structure Writer where
  cap : Option Nat
  buf : Bytes := []
  evs : List WEv := []
  deriving Repr, Inhabited

/-- A call on the `Write` trait. -/
inductive WCall where
  /-- `write_bytes`, `write_char`, `write_str`: all or nothing, `TooMuchData` on overflow -/
  | direct (b : Bytes)
  /-- `write_fmt`: pieces written one by one (each all or nothing), `SystemError` on overflow -/
  | fmt (pieces : List Bytes)
  /-- an error returned by `write_response` itself before writing -/
  | fail (e : Err)
  deriving Repr, Inhabited

namespace Writer

def fits (w : Writer) (n : Nat) : Bool :=
  match w.cap with
  | none => true
  | some c => decide (w.buf.length + n ≤ c)

def push (w : Writer) (b : Bytes) : Writer :=
  { w with buf := w.buf ++ b, evs := w.evs ++ [.w b] }

/-- Pieces of a `write_fmt` on a bounded writer. -/
def pushPieces (w : Writer) : List Bytes → Writer × Bool
  | [] => (w, true)
  | p :: ps => if w.fits p.length then (w.push p).pushPieces ps else (w, false)

def call (w : Writer) : WCall → Writer × Except Err Unit
  | .direct b => if w.fits b.length then (w.push b, .ok ()) else (w, .error (.std .TooMuchData))
  | .fmt ps =>
    match w.cap with
    | none => (w.push ps.flatten, .ok ())   -- `format!` then one `extend_from_slice`
    | some _ =>
      match w.pushPieces ps with
      | (w', true) => (w', .ok ())
      | (w', false) => (w', .error (.std .SystemError))
  | .fail e => (w, .error e)

def calls (w : Writer) : List WCall → Writer × Except Err Unit
  | [] => (w, .ok ())
  | c :: cs =>
    match w.call c with
    | (w', .ok ()) => w'.calls cs
    | (w', .error e) => (w', .error e)

/-- `flush` never fails for the modelled writers. -/
def flush (w : Writer) : Writer := { w with evs := w.evs ++ [.f] }

end Writer

/-- A response value (every `Response` impl of response.rs). All integer types
print alike, as do `&str`, `heapless::String` and `String`; tuples, slices and
`heapless::Vec` are comma-separated sequences. -/
inductive Resp where
  | unit
  | bool (b : Bool)
  | int (v : Int)
  | f32 (bits : Nat)
  | f64 (bits : Nat)
  | str (s : Bytes)
  | chars (s : Bytes)
  | arb (s : Bytes)
  | err (e : Err)
  | seq (l : List Resp)
  deriving Repr, Inhabited

/-- Decimal digits of a natural number (`Display for u64`). -/
def natDigits (n : Nat) : Bytes := (Nat.toDigits 10 n).map Char.toNat

/-- `Display` for the integer types: sign and digits are separate pieces. -/
def intPieces (v : Int) : List Bytes :=
  if v < 0 then [[45], natDigits v.natAbs] else [natDigits v.toNat]

/-- `s.split('"')`. -/
def splitQuote : Bytes → Bytes → List Bytes
  | [], cur => [cur]
  | b :: rest, cur => if b == 34 then cur :: splitQuote rest [] else splitQuote rest (cur ++ [b])

/-- `write_quoted` (response.rs, the D6 repair). -/
def quotedCalls (s : Bytes) : List WCall :=
  let parts := splitQuote s []
  let rec go : List Bytes → Bool → List WCall
    | [], _ => []
    | p :: ps, first => (if first then [] else [WCall.direct [34, 34]]) ++ [WCall.direct p] ++ go ps false
  [WCall.direct [34]] ++ go parts true ++ [WCall.direct [34]]

def floatCalls (f : FloatFmt) (bits : Nat) : List WCall :=
  if f.isNan bits then [.direct (strBytes "9.91E+37")]
  else if f.isInf bits then
    if f.negOf bits then [.direct (strBytes "-9.9E+37")] else [.direct (strBytes "9.9E+37")]
  else [.fmt (floatPieces f bits)]

mutual
/-- `write_response` as the list of calls it makes on the writer (the sequence
stops at the first failing call, see `Writer.calls`). -/
def Resp.calls : Resp → List WCall
  | .unit => []
  | .bool b => [.direct [if b then 49 else 48]]
  | .int v => [.fmt (intPieces v)]
  | .f32 bits => floatCalls fmt32 bits
  | .f64 bits => floatCalls fmt64 bits
  | .str s => quotedCalls s
  | .chars s => [.direct s]
  | .arb s =>
    let len := s.length
    if len > 0 then
      let lenDigits := (natDigits len).length
      if lenDigits > 9 then [.fail (.std .TooMuchData)]
      else [.fmt [[35], natDigits lenDigits, natDigits len], .direct s]
    else [.direct (strBytes "#10")]
  -- `(self.number(), (*self).into()): (i16, &str)` written as a tuple
  | .err e => [.fmt (intPieces e.number), .direct [44]] ++ quotedCalls e.descBytes
  | .seq l => Resp.seqCalls l true
def Resp.seqCalls : List Resp → Bool → List WCall
  | [], _ => []
  | r :: rs, first => (if first then [] else [WCall.direct [44]]) ++ r.calls ++ Resp.seqCalls rs false
end

def Writer.writeResp (w : Writer) (r : Resp) : Writer × Except Err Unit := w.calls r.calls

/-- The complete bytes of a response. -/
def WCall.bytes : WCall → Bytes
  | .direct b => b
  | .fmt ps => ps.flatten
  | .fail _ => []

def Resp.encode (r : Resp) : Bytes := (r.calls.map WCall.bytes).flatten

end Scpi
