/-
The adapter-call trace of `process` (C10): shape of the trace, what is written,
the call counter, and how the run ends.

One invariant `TInv` on the loop state collects everything that is needed; it is
pushed through the response write, one step of the inner loop, the inner loop, one
step of the outer loop and the outer loop, so each body is analysed only once.
-/
import Scpi.Proofs.ProcInv

namespace Scpi
namespace Proc

/-! ### fault schedule -/

theorem faultAt_eq_some {fault : Option (Nat × Int)} {k : Nat} {c : Int} :
    faultAt fault k = some c ↔ fault = some (k, c) := by
  unfold faultAt
  cases fault with
  | none => simp
  | some p =>
    obtain ⟨i, c'⟩ := p
    simp only []
    split
    · next h => subst h; simp
    · next h =>
      simp only [Option.some.injEq, Prod.mk.injEq, false_iff, reduceCtorEq]
      intro ⟨h1, _⟩; exact h h1

theorem faultAt_none_fault (k : Nat) : faultAt none k = none := rfl

/-! ### shape of traces -/

/-- Traces made of complete exchanges: a successful read, or a non-empty write
followed by its flush. -/
inductive Complete : List PEv → Prop where
  | nil : Complete []
  | read {t : List PEv} (d l : Nat) : Complete t → Complete (t ++ [PEv.r d l])
  | resp {t : List PEv} {b : Bytes} : Complete t → b ≠ [] → Complete (t ++ [PEv.w b, PEv.f])

/-- `Gram false t`: complete exchanges only.  `Gram true t`: possibly followed by one
write whose flush did not succeed. -/
def Gram (pending : Bool) (t : List PEv) : Prop :=
  Complete t ∨ (pending = true ∧ ∃ pre b, t = pre ++ [PEv.w b] ∧ Complete pre ∧ b ≠ [])

theorem Gram.weaken {t : List PEv} (h : Gram false t) : Gram true t := by
  cases h with
  | inl h => exact .inl h
  | inr h => cases h.1

theorem gram_false {t : List PEv} : Gram false t ↔ Complete t := by
  constructor
  · intro h
    cases h with
    | inl h => exact h
    | inr h => cases h.1
  · exact .inl

/-! ### what is written -/

/-- `b` is what `run_from` left in a fresh response buffer of capacity `n`, for some
header path, some input and some user state. -/
def RunOutput {σ : Type} (I : Iface σ) (n : Nat) (b : Bytes) : Prop :=
  ∃ (header : Node) (data : Bytes) (user : σ),
    b = (runFrom I header data { cap := some n } user).w.buf

/-! ### the invariant -/

/-- Invariant of the loop state.  `Rp` is a property of the reads (`delivered`, `dstLen`). -/
structure TInv {σ : Type} (I : Iface σ) (n : Nat) (fault : Option (Nat × Int))
    (Rp : Nat → Nat → Prop) (pending : Bool) (st : PState σ) : Prop where
  /-- `calls` counts the successful adapter calls -/
  calls_eq : st.calls = st.trace.length
  /-- the faulty call has not been passed -/
  calls_le : ∀ k code, fault = some (k, code) → st.calls ≤ k
  gram : Gram pending st.trace
  reads : ∀ d l, PEv.r d l ∈ st.trace → Rp d l
  writes : ∀ b, PEv.w b ∈ st.trace → RunOutput I n b

theorem TInv.weaken {σ : Type} {I : Iface σ} {n : Nat} {fault : Option (Nat × Int)}
    {Rp : Nat → Nat → Prop} {st : PState σ} (h : TInv I n fault Rp false st) :
    TInv I n fault Rp true st :=
  ⟨h.calls_eq, h.calls_le, h.gram.weaken, h.reads, h.writes⟩

/-- `TInv` only looks at `calls` and `trace`. -/
theorem TInv.congr {σ : Type} {I : Iface σ} {n : Nat} {fault : Option (Nat × Int)}
    {Rp : Nat → Nat → Prop} {p : Bool} {st st' : PState σ} (h : TInv I n fault Rp p st)
    (hc : st'.calls = st.calls) (ht : st'.trace = st.trace) : TInv I n fault Rp p st' := by
  obtain ⟨a, b, c, d, e⟩ := h
  exact ⟨by rw [hc, ht]; exact a, by rw [hc]; exact b, by rw [ht]; exact c,
    by rw [ht]; exact d, by rw [ht]; exact e⟩

/-- How a loop may be left: normally, by a crash, or by the injected fault — at the call
whose number is the current value of `calls`. -/
def ExitOK {σ : Type} (I : Iface σ) (n : Nat) (fault : Option (Nat × Int))
    (Rp : Nat → Nat → Prop) (r : PState σ × Option PEnd) : Prop :=
  match r.2 with
  | none => TInv I n fault Rp false r.1
  | some (.crash _) => TInv I n fault Rp false r.1
  | some (.transport .eos) => False
  | some (.transport (.fault code)) => fault = some (r.1.calls, code) ∧ TInv I n fault Rp true r.1

/-- The response write: nothing happens for an empty buffer; otherwise the write and the
flush are appended, unless one of them is the faulty call. -/
theorem respWrite_spec {σ : Type} (I : Iface σ) (n : Nat) (fault : Option (Nat × Int))
    (Rp : Nat → Nat → Prop) (st : PState σ) (b : Bytes) (h : TInv I n fault Rp false st)
    (hb : RunOutput I n b) :
    ExitOK I n fault Rp (respWrite fault st b) ∧
    ((respWrite fault st b).2 = none →
      (respWrite fault st b).1 =
        (if b = [] then st
         else { st with calls := st.calls + 2, trace := st.trace ++ [PEv.w b, PEv.f] })) := by
  unfold respWrite
  cases b with
  | nil => exact ⟨h, fun _ => rfl⟩
  | cons x xs =>
    simp only [List.isEmpty_cons, Bool.false_eq_true, if_false, reduceCtorEq]
    cases h1 : faultAt fault st.calls with
    | some c =>
      simp only []
      exact ⟨⟨by simpa using faultAt_eq_some.mp h1, h.weaken⟩, fun h => by cases h⟩
    | none =>
      simp only []
      have hlt : ∀ k code, fault = some (k, code) → st.calls + 1 ≤ k := by
        intro k code hf
        have := h.calls_le k code hf
        have hne : st.calls ≠ k := by
          intro e
          rw [e, faultAt_eq_some.mpr hf] at h1
          cases h1
        omega
      have hw : ∀ b', PEv.w b' ∈ st.trace ++ [PEv.w (x :: xs)] → RunOutput I n b' := by
        intro b' hm
        rw [List.mem_append] at hm
        cases hm with
        | inl hm => exact h.writes b' hm
        | inr hm =>
          simp only [List.mem_singleton, PEv.w.injEq] at hm
          rw [hm]; exact hb
      have hr : ∀ d l, PEv.r d l ∈ st.trace ++ [PEv.w (x :: xs)] → Rp d l := by
        intro d l hm
        rw [List.mem_append] at hm
        cases hm with
        | inl hm => exact h.reads d l hm
        | inr hm => simp at hm
      cases h2 : faultAt fault (st.calls + 1) with
      | some c =>
        simp only []
        refine ⟨⟨by simpa using faultAt_eq_some.mp h2, ?_, ?_, ?_, hr, hw⟩, fun h => by cases h⟩
        · simp only [List.length_append, List.length_singleton]; rw [h.calls_eq]
        · intro k code hf; exact hlt k code hf
        · exact .inr ⟨rfl, _, _, rfl, gram_false.mp h.gram, by simp⟩
      | none =>
        simp only []
        refine ⟨⟨?_, ?_, ?_, ?_, ?_⟩, fun _ => by simp⟩
        · simp only [List.length_append, List.length_singleton]; rw [h.calls_eq]
        · intro k code hf
          have := hlt k code hf
          have hne : st.calls + 1 ≠ k := by
            intro e
            rw [e, faultAt_eq_some.mpr hf] at h2
            cases h2
          show st.calls + 1 + 1 ≤ k
          omega
        · rw [List.append_assoc]
          exact .inl (.resp (gram_false.mp h.gram) (by simp))
        · intro d l hm
          rw [List.mem_append] at hm
          cases hm with
          | inl hm => exact hr d l hm
          | inr hm => simp at hm
        · intro b' hm
          rw [List.mem_append] at hm
          cases hm with
          | inl hm => exact hw b' hm
          | inr hm => simp at hm

/-- The events a response buffer `b` gives rise to when no fault interferes. -/
def respEvents (b : Bytes) : List PEv := if b = [] then [] else [PEv.w b, PEv.f]

/-- One step of the inner loop keeps the invariant.  When the loop goes round again it has
handled one newline: it ran `run_from` on `data = cmd_buf[proc_offset ..= terminator]` with a
fresh response buffer, and appended to the trace the write and flush of exactly that buffer
if it is not empty, and nothing otherwise. -/
theorem innerStep_spec {σ : Type} (I : Iface σ) (n : Nat) (fault : Option (Nat × Int))
    (Rp : Nat → Nat → Prop) (readEnd : Nat) (st : PState σ) (h : TInv I n fault Rp false st) :
    match innerStep I n fault readEnd st with
    | .inl st' => TInv I n fault Rp false st' ∧
        ∃ window p data, slice st.buf st.readOff readEnd = some window ∧
          newlinePos window = some p ∧
          slice st.buf st.procOff (st.readOff + p + 1) = some data ∧
          st'.trace = st.trace
            ++ respEvents (runFrom I st.header data { cap := some n } st.user).w.buf ∧
          st'.calls = st.calls
            + (respEvents (runFrom I st.header data { cap := some n } st.user).w.buf).length ∧
          st'.user = (runFrom I st.header data { cap := some n } st.user).s ∧
          st'.header = (runFrom I st.header data { cap := some n } st.user).header
    | .inr r => ExitOK I n fault Rp r := by
  unfold innerStep
  cases hw : slice st.buf st.readOff readEnd with
  | none => exact h
  | some window =>
    simp only []
    cases hp : newlinePos window with
    | none => exact h
    | some position =>
      simp only []
      cases hd : slice st.buf st.procOff (st.readOff + position + 1) with
      | none => exact h
      | some data =>
        simp only []
        cases (runFrom I st.header data { cap := some n } st.user).crash with
        | some c => exact h.congr rfl rfl
        | none =>
          simp only []
          have hst1 : TInv I n fault Rp false
              { st with header := (runFrom I st.header data { cap := some n } st.user).header,
                        user := (runFrom I st.header data { cap := some n } st.user).s } :=
            h.congr rfl rfl
          obtain ⟨hx, he⟩ := respWrite_spec I n fault Rp _
            (runFrom I st.header data { cap := some n } st.user).w.buf hst1 ⟨_, _, _, rfl⟩
          revert hx he
          generalize respWrite fault _ _ = r
          obtain ⟨st2, e⟩ := r
          intro hx he
          cases e with
          | some e => exact hx
          | none =>
            have he := he rfl
            simp only at he
            have hx : TInv I n fault Rp false st2 := hx
            simp only []
            have key : st2.trace = st.trace
                  ++ respEvents (runFrom I st.header data { cap := some n } st.user).w.buf ∧
                st2.calls = st.calls
                  + (respEvents (runFrom I st.header data { cap := some n } st.user).w.buf).length ∧
                st2.user = (runFrom I st.header data { cap := some n } st.user).s ∧
                st2.header = (runFrom I st.header data { cap := some n } st.user).header := by
              rw [he]
              unfold respEvents
              split <;> simp
            by_cases hne : (!(runFrom I st.header data { cap := some n } st.user).rest.isEmpty) = true
            · rw [if_pos hne]
              by_cases hle : (runFrom I st.header data { cap := some n } st.user).rest.length
                  ≤ st2.procOff + data.length
              · rw [if_pos hle]
                exact ⟨hx.congr rfl rfl, window, position, data, rfl, hp, hd, key⟩
              · rw [if_neg hle]; exact hx
            · rw [if_neg hne]
              exact ⟨hx.congr rfl rfl, window, position, data, rfl, hp, hd, key⟩

/-- The inner loop keeps the invariant. -/
theorem procInner_spec {σ : Type} (I : Iface σ) (n : Nat) (fault : Option (Nat × Int))
    (Rp : Nat → Nat → Prop) (readEnd fuel : Nat) (st : PState σ)
    (h : TInv I n fault Rp false st) :
    ExitOK I n fault Rp (procInner I n fault fuel readEnd st) := by
  refine procInner_induct I n fault readEnd (fun _ s => TInv I n fault Rp false s)
    (ExitOK I n fault Rp) (fun s h => h) ?_ ?_ fuel st h
  · intro k s s' h hs
    have := innerStep_spec I n fault Rp readEnd s h
    rw [hs] at this
    exact this.1
  · intro k s r h hs
    have := innerStep_spec I n fault Rp readEnd s h
    rw [hs] at this
    exact this

/-- The response write, when it completes: nothing for an empty buffer, else write and flush. -/
theorem respWrite_none {σ : Type} (fault : Option (Nat × Int)) (st : PState σ) (b : Bytes)
    (h : (respWrite fault st b).2 = none) :
    (respWrite fault st b).1 =
      (if b = [] then st
       else { st with calls := st.calls + 2, trace := st.trace ++ [PEv.w b, PEv.f] }) := by
  unfold respWrite at h ⊢
  cases b with
  | nil => rfl
  | cons x xs =>
    simp only [List.isEmpty_cons, Bool.false_eq_true, if_false, reduceCtorEq] at h ⊢
    cases h1 : faultAt fault st.calls with
    | some c => rw [h1] at h; cases h
    | none =>
      rw [h1] at h
      simp only [] at h ⊢
      cases h2 : faultAt fault (st.calls + 1) with
      | some c => rw [h2] at h; cases h
      | none => simp

/-- **One newline handled** (no hypothesis on the state): when a step of the inner loop goes
round again it has found the first newline at `read_offset + p` in the bytes just read, run
`run_from` on `data = cmd_buf[proc_offset ..= read_offset + p]` from the current header path
with a fresh response buffer of capacity `n`, and appended to the trace the write and the
flush of exactly that buffer if it is not empty, and nothing if it is empty. -/
theorem innerStep_inl {σ : Type} (I : Iface σ) (n : Nat) (fault : Option (Nat × Int))
    (readEnd : Nat) (st st' : PState σ) (h : innerStep I n fault readEnd st = .inl st') :
    ∃ window p data, slice st.buf st.readOff readEnd = some window ∧
      newlinePos window = some p ∧
      slice st.buf st.procOff (st.readOff + p + 1) = some data ∧
      st'.trace = st.trace
        ++ respEvents (runFrom I st.header data { cap := some n } st.user).w.buf ∧
      st'.calls = st.calls
        + (respEvents (runFrom I st.header data { cap := some n } st.user).w.buf).length ∧
      st'.user = (runFrom I st.header data { cap := some n } st.user).s ∧
      st'.header = (runFrom I st.header data { cap := some n } st.user).header ∧
      st'.readOff = st.readOff + p + 1 := by
  unfold innerStep at h
  cases hw : slice st.buf st.readOff readEnd with
  | none => rw [hw] at h; cases h
  | some window =>
    rw [hw] at h
    simp only [] at h
    cases hp : newlinePos window with
    | none => rw [hp] at h; cases h
    | some position =>
      rw [hp] at h
      simp only [] at h
      cases hd : slice st.buf st.procOff (st.readOff + position + 1) with
      | none => rw [hd] at h; cases h
      | some data =>
        rw [hd] at h
        simp only [] at h
        cases hc : (runFrom I st.header data { cap := some n } st.user).crash with
        | some c => rw [hc] at h; cases h
        | none =>
          rw [hc] at h
          simp only [] at h
          have he := respWrite_none fault
            { st with header := (runFrom I st.header data { cap := some n } st.user).header,
                      user := (runFrom I st.header data { cap := some n } st.user).s }
            (runFrom I st.header data { cap := some n } st.user).w.buf
          revert he h
          generalize respWrite fault _ _ = r
          obtain ⟨st2, e⟩ := r
          intro h he
          cases e with
          | some e => cases h
          | none =>
            have he := he rfl
            simp only at he h
            have key : st2.trace = st.trace
                  ++ respEvents (runFrom I st.header data { cap := some n } st.user).w.buf ∧
                st2.calls = st.calls
                  + (respEvents (runFrom I st.header data { cap := some n } st.user).w.buf).length ∧
                st2.user = (runFrom I st.header data { cap := some n } st.user).s ∧
                st2.header = (runFrom I st.header data { cap := some n } st.user).header := by
              rw [he]
              unfold respEvents
              split <;> simp
            refine ⟨window, position, data, rfl, hp, hd, ?_⟩
            by_cases hne : (!(runFrom I st.header data { cap := some n } st.user).rest.isEmpty) = true
            · rw [if_pos hne] at h
              by_cases hle : (runFrom I st.header data { cap := some n } st.user).rest.length
                  ≤ st2.procOff + data.length
              · rw [if_pos hle] at h
                cases h
                exact ⟨key.1, key.2.1, key.2.2.1, key.2.2.2, rfl⟩
              · rw [if_neg hle] at h; cases h
            · rw [if_neg hne] at h
              cases h
              exact ⟨key.1, key.2.1, key.2.2.1, key.2.2.2, rfl⟩

/-- The inner loop is left normally only when no newline is left in the bytes just read. -/
theorem innerStep_exit_none {σ : Type} (I : Iface σ) (n : Nat) (fault : Option (Nat × Int))
    (readEnd : Nat) (st st' : PState σ) (h : innerStep I n fault readEnd st = .inr (st', none)) :
    st' = st ∧ ∃ window, slice st.buf st.readOff readEnd = some window ∧ newlinePos window = none := by
  unfold innerStep at h
  cases hw : slice st.buf st.readOff readEnd with
  | none => rw [hw] at h; cases h
  | some window =>
    rw [hw] at h
    simp only [] at h
    cases hp : newlinePos window with
    | none =>
      rw [hp] at h
      cases h
      exact ⟨rfl, window, rfl, hp⟩
    | some position =>
      rw [hp] at h
      simp only [] at h
      cases hd : slice st.buf st.procOff (st.readOff + position + 1) with
      | none => rw [hd] at h; cases h
      | some data =>
        rw [hd] at h
        simp only [] at h
        cases hc : (runFrom I st.header data { cap := some n } st.user).crash with
        | some c => rw [hc] at h; cases h
        | none =>
          rw [hc] at h
          simp only [] at h
          revert h
          generalize respWrite fault _ _ = r
          obtain ⟨st2, e⟩ := r
          intro h
          cases e with
          | some e => cases h
          | none =>
            simp only at h
            by_cases hne : (!(runFrom I st.header data { cap := some n } st.user).rest.isEmpty) = true
            · rw [if_pos hne] at h
              by_cases hle : (runFrom I st.header data { cap := some n } st.user).rest.length
                  ≤ st2.procOff + data.length
              · rw [if_pos hle] at h; cases h
              · rw [if_neg hle] at h; cases h
            · rw [if_neg hne] at h; cases h

/-- When the inner loop is left normally, the bytes read so far contain no newline from
`read_offset` on: every complete message received has been run (and answered). -/
theorem procInner_exit_none {σ : Type} (I : Iface σ) (n : Nat) (fault : Option (Nat × Int))
    (readEnd fuel : Nat) (st : PState σ) :
    (procInner I n fault fuel readEnd st).2 = none →
      ∃ window, slice (procInner I n fault fuel readEnd st).1.buf
          (procInner I n fault fuel readEnd st).1.readOff readEnd = some window ∧
        newlinePos window = none := by
  refine procInner_induct I n fault readEnd (fun _ _ => True)
    (fun r => r.2 = none → ∃ window, slice r.1.buf r.1.readOff readEnd = some window ∧
      newlinePos window = none) ?_ ?_ ?_ fuel st trivial
  · intro s _ h; cases h
  · intro _ _ _ _ _; trivial
  · intro k s r _ hs hr
    obtain ⟨s', e⟩ := r
    simp only at hr
    subst hr
    obtain ⟨h1, h2⟩ := innerStep_exit_none I n fault readEnd s s' hs
    subst h1
    exact h2

/-- How `process` may return. -/
def OutOK {σ : Type} (I : Iface σ) (n : Nat) (fault : Option (Nat × Int))
    (Rp : Nat → Nat → Prop) (out : POut σ) : Prop :=
  out.trace = out.final.trace ∧ out.user = out.final.user ∧
  match out.stop with
  | .crash _ => TInv I n fault Rp false out.final
  | .transport .eos =>
      faultAt fault out.final.calls = none ∧ TInv I n fault Rp false out.final ∧
      out.final.stream = [] ∧ out.final.sizes = []
  | .transport (.fault code) =>
      fault = some (out.final.calls, code) ∧ TInv I n fault Rp true out.final

theorem exitOK_stopOut {σ : Type} {I : Iface σ} {n : Nat} {fault : Option (Nat × Int)}
    {Rp : Nat → Nat → Prop} {st : PState σ} {e : PEnd} (h : ExitOK I n fault Rp (st, some e)) :
    OutOK I n fault Rp (stopOut e st) := by
  refine ⟨rfl, rfl, ?_⟩
  cases e with
  | crash c => exact h
  | transport t =>
    cases t with
    | eos => exact absurd h id
    | fault code => exact h

theorem shiftBuf_calls {σ : Type} (readEnd : Nat) (st st' : PState σ)
    (h : shiftBuf readEnd st = .ok st') : st'.calls = st.calls ∧ st'.trace = st.trace := by
  unfold shiftBuf at h
  split at h
  · split at h
    · cases h
    · split at h
      · cases h; exact ⟨rfl, rfl⟩
      · cases h
  · cases h; exact ⟨rfl, rfl⟩

theorem resetFull_calls {σ : Type} (I : Iface σ) (n : Nat) (st : PState σ) :
    (resetFull I n st).calls = st.calls ∧ (resetFull I n st).trace = st.trace := by
  unfold resetFull
  split <;> exact ⟨rfl, rfl⟩

/-- One iteration of the outer loop keeps the invariant, provided the read it issues
satisfies `Rp`. -/
theorem outerStep_spec {σ : Type} (I : Iface σ) (n : Nat) (fault : Option (Nat × Int))
    (Rp : Nat → Nat → Prop) (st : PState σ) (h : TInv I n fault Rp false st)
    (hR : Rp (readCount n st) (n - st.readOff)) :
    match outerStep I n fault st with
    | .inl st' => TInv I n fault Rp false st'
    | .inr out => OutOK I n fault Rp out := by
  unfold outerStep
  by_cases h0 : st.readOff > n
  · rw [if_pos h0]; exact ⟨rfl, rfl, h⟩
  · rw [if_neg h0]
    cases h1 : faultAt fault st.calls with
    | some c => exact ⟨rfl, rfl, faultAt_eq_some.mp h1, h.weaken⟩
    | none =>
      simp only []
      by_cases h2 : st.stream.isEmpty ∧ st.sizes.isEmpty
      · rw [if_pos h2]
        exact ⟨rfl, rfl, h1, h, by simpa [stopOut] using h2.1, by simpa [stopOut] using h2.2⟩
      · rw [if_neg h2]
        have hst1 : TInv I n fault Rp false (afterRead n st) := by
          refine ⟨?_, ?_, ?_, ?_, ?_⟩
          · show st.calls + 1 = (st.trace ++ [_]).length
            simp only [List.length_append, List.length_singleton]; rw [h.calls_eq]
          · intro k code hf
            have := h.calls_le k code hf
            have hne : st.calls ≠ k := by
              intro e
              rw [e, faultAt_eq_some.mpr hf] at h1
              cases h1
            show st.calls + 1 ≤ k
            omega
          · exact .inl (.read _ _ (gram_false.mp h.gram))
          · intro d l hm
            have hm : PEv.r d l ∈ st.trace ++ [PEv.r (readCount n st) (n - st.readOff)] := hm
            rw [List.mem_append] at hm
            cases hm with
            | inl hm => exact h.reads d l hm
            | inr hm =>
              simp only [List.mem_singleton, PEv.r.injEq] at hm
              rw [hm.1, hm.2]; exact hR
          · intro b hm
            have hm : PEv.w b ∈ st.trace ++ [PEv.r (readCount n st) (n - st.readOff)] := hm
            rw [List.mem_append] at hm
            cases hm with
            | inl hm => exact h.writes b hm
            | inr hm => simp at hm
        have hx := procInner_spec I n fault Rp (st.readOff + readCount n st) (readCount n st + 1)
          (afterRead n st) hst1
        revert hx
        generalize procInner I n fault _ _ _ = r
        obtain ⟨st2, e⟩ := r
        intro hx
        cases e with
        | some e => exact exitOK_stopOut hx
        | none =>
          simp only []
          have hx : TInv I n fault Rp false st2 := hx
          cases hs : shiftBuf (st.readOff + readCount n st)
              { st2 with readOff := st.readOff + readCount n st } with
          | error e =>
            simp only []
            refine ⟨rfl, rfl, ?_⟩
            unfold shiftBuf at hs
            split at hs
            · split at hs
              · cases hs; exact hx.congr rfl rfl
              · split at hs
                · cases hs
                · cases hs; exact hx.congr rfl rfl
            · cases hs
          | ok st3 =>
            simp only []
            obtain ⟨e1, e2⟩ := shiftBuf_calls _ _ _ hs
            obtain ⟨e3, e4⟩ := resetFull_calls I n st3
            exact hx.congr (by rw [e3, e1]) (by rw [e4, e2])

/-- The outer loop: from a state with the invariant, where `J` is an invariant of the top of
the loop that makes every read satisfy `Rp`, the result is well formed. -/
theorem procLoop_spec {σ : Type} (I : Iface σ) (n : Nat) (fault : Option (Nat × Int))
    (Rp : Nat → Nat → Prop) (J : PState σ → Prop)
    (hJ : ∀ st st', J st → outerStep I n fault st = .inl st' → J st')
    (hR : ∀ st, J st → Rp (readCount n st) (n - st.readOff))
    (fuel : Nat) (st : PState σ) (hj : J st) (h : TInv I n fault Rp false st) :
    OutOK I n fault Rp (procLoop I n fault fuel st) := by
  refine procLoop_induct I n fault (fun _ s => J s ∧ TInv I n fault Rp false s)
    (OutOK I n fault Rp) ?_ ?_ ?_ fuel st ⟨hj, h⟩
  · intro s h; exact ⟨rfl, rfl, h.2⟩
  · intro k s s' h hs
    have := outerStep_spec I n fault Rp s h.2 (hR s h.1)
    rw [hs] at this
    exact ⟨hJ s s' h.1 hs, this⟩
  · intro k s out h hs
    have := outerStep_spec I n fault Rp s h.2 (hR s h.1)
    rw [hs] at this
    exact this

theorem initState_tinv {σ : Type} (I : Iface σ) (n : Nat) (sc : Script) (s : σ)
    (Rp : Nat → Nat → Prop) : TInv I n sc.fault Rp false (initState I n sc s) :=
  ⟨rfl, fun _ _ _ => Nat.zero_le _, .inl .nil, (fun _ _ h => nomatch h), (fun _ h => nomatch h)⟩

theorem readCount_le_dst {σ : Type} (n : Nat) (st : PState σ) :
    readCount n st ≤ n - st.readOff ∧ n - st.readOff ≤ n :=
  ⟨(readCount_le n st).1, Nat.sub_le _ _⟩

/-- `process`, any `n`: the result is well formed and every read delivered at most the
length of its slice, which is at most `n`. -/
theorem process_outOK {σ : Type} (I : Iface σ) (n : Nat) (sc : Script) (s : σ) :
    OutOK I n sc.fault (fun d l => d ≤ l ∧ l ≤ n) (process I n sc s) := by
  rw [process_eq]
  exact procLoop_spec I n sc.fault _ (fun _ => True) (fun _ _ _ _ => trivial)
    (fun st _ => readCount_le_dst n st) _ _ trivial (initState_tinv I n sc s _)

/-- `process`, `n ≥ 1`: moreover every read was issued on a non-empty slice. -/
theorem process_outOK_pos {σ : Type} (I : Iface σ) (n : Nat) (hn : 1 ≤ n) (sc : Script) (s : σ) :
    OutOK I n sc.fault (fun d l => 1 ≤ l ∧ d ≤ l ∧ l ≤ n) (process I n sc s) := by
  rw [process_eq]
  refine procLoop_spec I n sc.fault _ (PInv n) ?_ ?_ _ _ (initState_inv I n sc s hn)
    (initState_tinv I n sc s _)
  · intro st st' h hs
    have := outerStep_inv I n sc.fault st h
    rw [hs] at this
    exact this.1
  · intro st h
    have := h.lt
    have := readCount_le_dst n st
    omega

/-! ### a two-state recogniser for traces -/

/-- State `some false`: between exchanges; `some true`: a write has succeeded and its flush
is due; `none`: ill-formed. -/
def wfStep : Option Bool → PEv → Option Bool
  | some false, .r _ _ => some false
  | some false, .w b => if b = [] then none else some true
  | some true, .f => some false
  | _, _ => none

/-- Run the recogniser over a trace. -/
def wfRun (s : Option Bool) (t : List PEv) : Option Bool := t.foldl wfStep s

theorem wfRun_none (t : List PEv) : wfRun none t = none := by
  induction t with
  | nil => rfl
  | cons e t ih => exact ih

theorem complete_wfRun {t : List PEv} (h : Complete t) : wfRun (some false) t = some false := by
  induction h with
  | nil => rfl
  | read d l _ ih => unfold wfRun at *; rw [List.foldl_append, ih]; rfl
  | resp _ hb ih =>
    unfold wfRun at *
    rw [List.foldl_append, ih]
    simp [wfStep, hb]

theorem gram_wfRun {p : Bool} {t : List PEv} (h : Gram p t) :
    wfRun (some false) t = some false ∨ (p = true ∧ wfRun (some false) t = some true) := by
  cases h with
  | inl h => exact .inl (complete_wfRun h)
  | inr h =>
    obtain ⟨hp, pre, b, ht, hc, hb⟩ := h
    refine .inr ⟨hp, ?_⟩
    have := complete_wfRun hc
    unfold wfRun at *
    rw [ht, List.foldl_append, this]
    simp [wfStep, hb]

/-- In an accepted trace every write is non-empty and is followed by a flush, unless it is
the last event and the recogniser ends in the state "flush due". -/
theorem wfRun_write : ∀ (t : List PEv) (s : Option Bool), wfRun s t ≠ none →
    ∀ i b, t[i]? = some (PEv.w b) →
      b ≠ [] ∧ (t[i + 1]? = some PEv.f ∨ (i + 1 = t.length ∧ wfRun s t = some true)) := by
  intro t
  induction t with
  | nil => intro s _ i b h; simp at h
  | cons e t ih =>
    intro s hs i b hi
    have hs' : wfRun (wfStep s e) t ≠ none := hs
    cases i with
    | succ j =>
      have := ih (wfStep s e) hs' j b (by simpa using hi)
      refine ⟨this.1, ?_⟩
      cases this.2 with
      | inl h => exact .inl (by simpa using h)
      | inr h => exact .inr ⟨by simp only [List.length_cons]; omega, h.2⟩
    | zero =>
      simp only [List.getElem?_cons_zero, Option.some.injEq] at hi
      subst hi
      cases s with
      | none => exact absurd (wfRun_none _) hs'
      | some a =>
        cases a with
        | true => exact absurd (wfRun_none _) hs'
        | false =>
          by_cases hb : b = []
          · have : wfStep (some false) (PEv.w b) = none := by simp [wfStep, hb]
            rw [this] at hs'
            exact absurd (wfRun_none _) hs'
          · refine ⟨hb, ?_⟩
            have e1 : wfStep (some false) (PEv.w b) = some true := by simp [wfStep, hb]
            rw [e1] at hs'
            cases t with
            | nil => exact .inr ⟨rfl, by show wfRun (wfStep (some false) (PEv.w b)) [] = _; rw [e1]; rfl⟩
            | cons e2 t2 =>
              left
              cases e2 with
              | f => rfl
              | r d l => exact absurd (wfRun_none _) hs'
              | w b2 => exact absurd (wfRun_none _) hs'

/-- In an accepted trace a flush occurs only right after a write (or first, if the recogniser
was started in the state "flush due"). -/
theorem wfRun_flush : ∀ (t : List PEv) (s : Option Bool), wfRun s t ≠ none →
    ∀ i, t[i]? = some PEv.f →
      (i = 0 ∧ s = some true) ∨ ∃ j b, i = j + 1 ∧ t[j]? = some (PEv.w b) := by
  intro t
  induction t with
  | nil => intro s _ i h; simp at h
  | cons e t ih =>
    intro s hs i hi
    have hs' : wfRun (wfStep s e) t ≠ none := hs
    cases i with
    | zero =>
      simp only [List.getElem?_cons_zero, Option.some.injEq] at hi
      subst hi
      left
      refine ⟨rfl, ?_⟩
      cases s with
      | none => exact absurd (wfRun_none _) hs'
      | some a =>
        cases a with
        | true => rfl
        | false => exact absurd (wfRun_none _) hs'
    | succ j =>
      right
      cases ih (wfStep s e) hs' j (by simpa using hi) with
      | inl h =>
        obtain ⟨hj, hst⟩ := h
        subst hj
        refine ⟨0, ?_⟩
        cases e with
        | w b => exact ⟨b, rfl, rfl⟩
        | f =>
          exfalso
          cases s with
          | none => cases hst
          | some a => cases a <;> cases hst
        | r d l =>
          exfalso
          cases s with
          | none => cases hst
          | some a => cases a <;> cases hst
      | inr h =>
        obtain ⟨k, b, hk, hb⟩ := h
        exact ⟨k + 1, b, by omega, by simpa using hb⟩

end Proc
end Scpi
