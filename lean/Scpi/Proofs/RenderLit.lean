/-
Each literal recogniser accepts exactly the rendering of a well-formed literal and
delivers its text verbatim (C03 lexer part, C08 recogniser part).
-/
import Scpi.Proofs.RenderComb

namespace Scpi

/-! ### Character data -/

theorem characters_append {s rest : Bytes} (hs : isMnemonicText s = true)
    (he : Ends isMnemonicTail rest) : characters (s ++ rest) = .ok rest (.chars s) := by
  simp only [characters, mnemonic_append hs he, PResult.bind, fromUtf8_valid _ (validUtf8_mnemonic hs)]

theorem characters_soft {b : Nat} (r : Bytes) (h : isAlpha b = false) :
    characters (b :: r) = .soft (some (.std .InvalidCharacter)) := by
  simp only [characters, mnemonic_soft r h, PResult.bind]

/-! ### Signs -/

theorem sign_cons {s : Nat} (r : Bytes) (h : (s == 43 || s == 45) = true) : sign (s :: r) = .ok r s := by
  simp only [Bool.or_eq_true, beq_iff_eq] at h
  rcases h with h | h
  · subst h; simp only [sign, tag_cons_self, PResult.orElse]
  · subst h; simp only [sign, tag_cons_ne (t := 43) (b := 45) r (by decide), tag_cons_self, PResult.orElse]

theorem optP_sign_ends {rest : Bytes} (he : Ends (fun b => b == 43 || b == 45) rest) :
    optP sign rest = .ok rest none := by
  cases rest with
  | nil => rfl
  | cons d r =>
    have h := he.head
    simp only [Bool.or_eq_false_iff, beq_eq_false_iff_ne] at h
    simp only [optP, sign, tag_cons_ne r h.1, tag_cons_ne r h.2, PResult.orElse]

/-- An optional sign, present or not, is consumed. -/
theorem optP_sign_toList {s : Option Nat} {rest : Bytes} (hs : isSignOpt s = true)
    (he : Ends (fun b => b == 43 || b == 45) rest) :
    ∃ v, optP sign (s.toList ++ rest) = .ok rest v := by
  cases s with
  | none => exact ⟨none, optP_sign_ends he⟩
  | some c => exact ⟨some c, by simp only [Option.toList, List.cons_append, List.nil_append, optP,
      sign_cons rest hs]⟩

theorem digit_not_sign {b : Nat} (h : isDigit b = true) : (b == 43 || b == 45) = false := by
  simp [isDigit] at h; simp; omega

/-! ### Decimal numbers -/

theorem consumed_of_eq {α : Type} {input t rest : Bytes} (k : Bytes → PResult α)
    (h : input = t ++ rest) : consumed input rest k = k t := by
  subst h; exact consumed_append _ _ _

/-- Mantissa with integer digits. -/
theorem mantissa_int {s : Option Nat} {int dotb frac R : Bytes} (hs : isSignOpt s = true)
    (hi : int.all isDigit = true) (hne : int ≠ []) (hf : frac.all isDigit = true)
    (hdf : dotb = [46] ∨ (dotb = [] ∧ frac = [])) (h1 : Ends isDigit R)
    (h2 : Ends (fun b => b == 46) R) :
    mantissa (s.toList ++ (int ++ (dotb ++ frac)) ++ R) = .ok R (s.toList ++ (int ++ (dotb ++ frac))) := by
  have hint : ∃ b t, int = b :: t := by
    cases int with
    | nil => exact absurd rfl hne
    | cons b t => exact ⟨b, t, rfl⟩
  obtain ⟨b0, t0, e0⟩ := hint
  have hb0 : isDigit b0 = true := by
    subst e0; simp only [List.all_cons, Bool.and_eq_true] at hi; exact hi.1
  have hsg : Ends (fun b => b == 43 || b == 45) (int ++ (dotb ++ frac) ++ R) := by
    subst e0; exact ends_cons (digit_not_sign hb0)
  obtain ⟨v1, e1⟩ := optP_sign_toList hs hsg
  unfold mantissa
  rw [List.append_assoc, e1]
  simp only [PResult.bind]
  rcases hdf with hd | ⟨hd, hfe⟩
  · subst hd
    have hE : Ends isDigit (([46] ++ frac) ++ R) := ends_cons (by decide)
    rw [List.append_assoc, optP_digits_append hne hi hE]
    obtain ⟨v4, e4⟩ := optP_digits_append' hf h1
    simp only [List.cons_append, List.nil_append]
    have e3 : optP (tag 46) (46 :: (frac ++ R)) = .ok (frac ++ R) (some 46) :=
      optP_satisfy_cons _ (by decide)
    rw [e3]
    simp only [Option.isSome_some, if_true, e4]
    exact consumed_of_eq _ (by simp only [List.append_assoc, List.cons_append])
  · subst hd hfe
    simp only [List.append_nil]
    rw [optP_digits_append hne hi h1]
    have e3 : optP (tag 46) R = .ok R none := optP_satisfy_ends h2
    simp only [e3, Option.isSome_some, if_true, optP_digits_ends h1]
    exact consumed_of_eq _ (by simp only [List.append_assoc])

/-- Mantissa without integer digits: `[sign] . digits`. -/
theorem mantissa_frac {s : Option Nat} {frac R : Bytes} (hs : isSignOpt s = true)
    (hf : frac.all isDigit = true) (hne : frac ≠ []) (h1 : Ends isDigit R) :
    mantissa (s.toList ++ ([] ++ ([46] ++ frac)) ++ R) = .ok R (s.toList ++ ([] ++ ([46] ++ frac))) := by
  have hsg : Ends (fun b => b == 43 || b == 45) (([] ++ ([46] ++ frac)) ++ R) := ends_cons (by decide)
  obtain ⟨v1, e1⟩ := optP_sign_toList hs hsg
  unfold mantissa
  rw [List.append_assoc, e1]
  simp only [PResult.bind, List.nil_append, List.cons_append]
  have hE : Ends isDigit (46 :: (frac ++ R)) := ends_cons (by decide)
  rw [optP_digits_ends hE]
  have e3 : optP (tag 46) (46 :: (frac ++ R)) = .ok (frac ++ R) (some 46) :=
    optP_satisfy_cons _ (by decide)
  simp only [e3, Option.isSome_none, Bool.false_eq_true, if_false,
    digits_append hne hf h1, PResult.map]
  exact consumed_of_eq _ (by simp only [List.append_assoc, List.cons_append])

/-- The mantissa part of a well-formed decimal text is recognised verbatim. -/
theorem mantissa_render {d : DecText} {R : Bytes} (hw : d.wf = true) (h1 : Ends isDigit R)
    (h2 : Ends (fun b => b == 46) R) : mantissa (d.renderMantissa ++ R) = .ok R d.renderMantissa := by
  simp only [DecText.wf, Bool.and_eq_true] at hw
  obtain ⟨⟨⟨⟨⟨hs, hi⟩, hf⟩, hdf⟩, hne⟩, _⟩ := hw
  unfold DecText.renderMantissa
  by_cases hint : d.int = []
  · rw [hint] at hne ⊢
    have hfne : d.frac ≠ [] := by
      intro e; rw [e] at hne; simp at hne
    have hdot : d.dot = true := by
      cases hd : d.dot with
      | true => rfl
      | false =>
        rw [hd] at hdf
        simp only [Bool.false_or, List.isEmpty_iff] at hdf
        exact absurd hdf hfne
    rw [hdot]
    exact mantissa_frac hs hf hfne h1
  · refine mantissa_int hs hi hint hf ?_ h1 h2
    cases hd : d.dot with
    | true => exact Or.inl rfl
    | false =>
      rw [hd] at hdf
      simp only [Bool.false_or, List.isEmpty_iff] at hdf
      exact Or.inr ⟨rfl, hdf⟩

theorem exponent_render {e : Nat} {s : Option Nat} {ds rest : Bytes}
    (he : (e == 69 || e == 101) = true) (hs : isSignOpt s = true) (hd : ds.all isDigit = true)
    (hne : ds ≠ []) (h1 : Ends isDigit rest) :
    exponent (e :: (s.toList ++ ds) ++ rest) = .ok rest (e :: (s.toList ++ ds)) := by
  have hds : ∃ b t, ds = b :: t := by
    cases ds with
    | nil => exact absurd rfl hne
    | cons b t => exact ⟨b, t, rfl⟩
  obtain ⟨b0, t0, e0⟩ := hds
  have hb0 : isDigit b0 = true := by
    subst e0; simp only [List.all_cons, Bool.and_eq_true] at hd; exact hd.1
  have hsg : Ends (fun b => b == 43 || b == 45) (ds ++ rest) := by
    subst e0; exact ends_cons (digit_not_sign hb0)
  obtain ⟨v1, e1⟩ := optP_sign_toList hs hsg
  unfold exponent
  simp only [List.cons_append, List.append_assoc,
    satisfy_cons_true (p := fun c => c == 69 || c == 101) _ he, PResult.bind, e1,
    digits_append hne hd h1]
  exact consumed_of_eq _ (by simp only [List.append_assoc, List.cons_append])

theorem optP_exponent_ends {rest : Bytes} (he : Ends (fun c => c == 69 || c == 101) rest) :
    optP exponent rest = .ok rest none := by
  cases rest with
  | nil => rfl
  | cons d r =>
    simp only [optP, exponent, satisfy_cons_false' (p := fun c => c == 69 || c == 101) r he.head,
      PResult.bind]

/-- Every byte of a well-formed decimal text is ASCII. -/
theorem DecText.render_ascii {d : DecText} (hw : d.wf = true) : ∀ b ∈ d.render, b < 128 := by
  simp only [DecText.wf, Bool.and_eq_true] at hw
  obtain ⟨⟨⟨⟨⟨hs, hi⟩, hf⟩, _⟩, _⟩, hx⟩ := hw
  have hsign : ∀ {s : Option Nat}, isSignOpt s = true → ∀ b ∈ s.toList, b < 128 := by
    intro s hs b hb
    cases s with
    | none => cases hb
    | some c =>
      simp only [Option.toList, List.mem_singleton] at hb
      subst hb
      simp only [isSignOpt, Bool.or_eq_true, beq_iff_eq] at hs
      omega
  have hdig : ∀ {ds : Bytes}, ds.all isDigit = true → ∀ b ∈ ds, b < 128 :=
    fun h b hb => isDigit_lt (List.all_eq_true.mp h b hb)
  intro b hb
  simp only [DecText.render, DecText.renderMantissa, List.mem_append] at hb
  rcases hb with (hb | hb | hb | hb) | hb
  · exact hsign hs b hb
  · exact hdig hi b hb
  · split at hb
    · simp only [List.mem_singleton] at hb; omega
    · cases hb
  · exact hdig hf b hb
  · cases hexp : d.exp with
    | none => rw [hexp] at hb; cases hb
    | some x =>
      obtain ⟨e, s, ds⟩ := x
      rw [hexp] at hb hx
      simp only [Bool.and_eq_true] at hx
      obtain ⟨⟨⟨he, hs'⟩, hd'⟩, _⟩ := hx
      simp only [DecText.renderExp, List.mem_cons, List.mem_append] at hb
      rcases hb with hb | hb | hb
      · simp only [Bool.or_eq_true, beq_iff_eq] at he; omega
      · exact hsign hs' b hb
      · exact hdig hd' b hb

/-- **Decimal literals are delivered verbatim**, whatever the spelling. -/
theorem decimal_render {d : DecText} {rest : Bytes} (hw : d.wf = true)
    (he : Ends (fun b => isDigit b || b == 46 || b == 69 || b == 101) rest) :
    decimal (d.render ++ rest) = .ok rest (.dec d.render) := by
  have hdig : Ends isDigit rest := he.mono fun b h => by
    simp only [Bool.or_eq_false_iff] at h; exact h.1.1.1
  have hdot : Ends (fun b => b == 46) rest := he.mono fun b h => by
    simp only [Bool.or_eq_false_iff] at h; exact h.1.1.2
  have hexp : Ends (fun c => c == 69 || c == 101) rest := he.mono fun b h => by
    simp only [Bool.or_eq_false_iff] at h
    simp only [Bool.or_eq_false_iff]; exact ⟨h.1.2, h.2⟩
  have hv := validUtf8_ascii (DecText.render_ascii hw)
  have hw' := hw
  simp only [DecText.wf, Bool.and_eq_true] at hw'
  obtain ⟨_, hx⟩ := hw'
  unfold decimal DecText.render at *
  cases hx' : d.exp with
  | none =>
    rw [hx'] at hv
    simp only [DecText.renderExp, List.append_nil] at hv ⊢
    rw [mantissa_render hw hdig hdot]
    simp only [PResult.bind, optP_exponent_ends hexp, consumed_append, fromUtf8_valid _ hv]
  | some x =>
    obtain ⟨e, s, ds⟩ := x
    rw [hx'] at hx hv
    simp only [Bool.and_eq_true] at hx
    obtain ⟨⟨⟨hee, hs'⟩, hd'⟩, hne⟩ := hx
    have hne' : ds ≠ [] := by
      intro e; rw [e] at hne; simp at hne
    have hee' := hee
    simp only [Bool.or_eq_true, beq_iff_eq] at hee'
    have hR1 : Ends isDigit (e :: (s.toList ++ ds) ++ rest) :=
      ends_cons (by simp [isDigit]; omega)
    have hR2 : Ends (fun b => b == 46) (e :: (s.toList ++ ds) ++ rest) :=
      ends_cons (by simp; omega)
    simp only [DecText.renderExp] at hv ⊢
    rw [List.append_assoc, mantissa_render hw hR1 hR2]
    simp only [PResult.bind, optP, exponent_render hee hs' hd' hne' hdig]
    rw [← List.append_assoc, consumed_append, fromUtf8_valid _ hv]

/-- The first byte of a decimal text is a sign, a digit or the point. -/
theorem DecText.render_head {d : DecText} (hw : d.wf = true) :
    ∃ b r, d.render = b :: r ∧ (b = 43 ∨ b = 45 ∨ isDigit b = true ∨ b = 46) := by
  simp only [DecText.wf, Bool.and_eq_true] at hw
  obtain ⟨⟨⟨⟨⟨hs, hi⟩, hf⟩, hdf⟩, hne⟩, _⟩ := hw
  unfold DecText.render DecText.renderMantissa
  cases hsg : d.sign with
  | some c =>
    rw [hsg] at hs
    simp only [isSignOpt, Bool.or_eq_true, beq_iff_eq] at hs
    exact ⟨c, _, rfl, by omega⟩
  | none =>
    cases hint : d.int with
    | cons b t =>
      rw [hint] at hi
      simp only [List.all_cons, Bool.and_eq_true] at hi
      exact ⟨b, _, rfl, Or.inr (Or.inr (Or.inl hi.1))⟩
    | nil =>
      cases hd : d.dot with
      | true => exact ⟨46, _, rfl, Or.inr (Or.inr (Or.inr rfl))⟩
      | false =>
        rw [hd] at hdf; rw [hint] at hne
        simp only [Bool.false_or, List.isEmpty_iff] at hdf
        rw [hdf] at hne
        simp at hne

theorem decimal_soft {b : Nat} (r : Bytes) (h1 : b ≠ 43) (h2 : b ≠ 45) (h3 : isDigit b = false)
    (h4 : b ≠ 46) : decimal (b :: r) = .soft (some (.std .InvalidCharacter)) := by
  have hs : Ends (fun b => b == 43 || b == 45) (b :: r) := ends_cons (by simp; omega)
  have hd : Ends isDigit (b :: r) := ends_cons h3
  have hp : Ends (fun c => c == 46) (b :: r) := ends_cons (by simpa using h4)
  simp only [decimal, mantissa, optP_sign_ends hs, PResult.bind, optP_digits_ends hd,
    optP_satisfy_ends (p := fun c => c == 46) hp, tag, Option.isSome_none, Bool.false_eq_true,
    if_false, digits, satisfy_cons_false' r h3, PResult.map]

/-! ### `#H`, `#B`, `#Q` -/

theorem nondecimal_render {L D : Nat → Bool} (mk : Bytes → Value) {c : Nat} {ds rest : Bytes}
    (hc : L c = true) (hne : ds ≠ []) (hd : ds.all D = true) (hlt : ∀ b, D b = true → b < 128)
    (he : Ends D rest) : nondecimal L D mk (35 :: c :: (ds ++ rest)) = .ok rest (mk ds) := by
  cases ds with
  | nil => exact absurd rfl hne
  | cons b t =>
    have hv : validUtf8 (b :: t) = true := validUtf8_of_all hlt hd
    simp only [List.all_cons, Bool.and_eq_true] at hd
    simp only [nondecimal, tag_cons_self, PResult.bind, satisfy_cons_true _ hc, List.cons_append,
      satisfy_cons_true _ hd.1, takeWhileP_append hd.2 he, consumed_cons_append, fromUtf8_valid _ hv]

theorem nondecimal_soft_head {L D : Nat → Bool} (mk : Bytes → Value) {b : Nat} (r : Bytes)
    (h : b ≠ 35) : nondecimal L D mk (b :: r) = .soft (some (.std .InvalidCharacter)) := by
  simp only [nondecimal, tag_cons_ne r h, PResult.bind]

theorem nondecimal_soft_letter {L D : Nat → Bool} (mk : Bytes → Value) {c : Nat} (r : Bytes)
    (h : L c = false) : nondecimal L D mk (35 :: c :: r) = .soft (some (.std .InvalidCharacter)) := by
  simp only [nondecimal, tag_cons_self, satisfy_cons_false' r h, PResult.bind]

/-! ### Strings (C08) -/

/-- **A quoted string is delivered verbatim**: the payload may contain any byte but
the quote itself (`;`, `,`, `:`, `#`, newline, the other quote, white space, …), and
whatever follows the closing quote is left untouched. -/
theorem quoted_render (q : Nat) {payload : Bytes} (rest : Bytes) (hv : validUtf8 payload = true)
    (hq : payload.all (fun c => c != q) = true) :
    quoted q (q :: (payload ++ q :: rest)) = .ok rest (.str payload) := by
  have he : Ends (fun c => c != q) (q :: rest) := ends_cons (by simp)
  simp only [quoted, tag_cons_self, PResult.bind, takeWhileP_append hq he, fromUtf8_valid _ hv]

theorem quoted_soft {q b : Nat} (r : Bytes) (h : b ≠ q) :
    quoted q (b :: r) = .soft (some (.std .InvalidCharacter)) := by
  simp only [quoted, tag_cons_ne r h, PResult.bind]

end Scpi
