/-
One iteration of the loop of `run_from` as a function (`unitStep`), fuel
irrelevance of `runLoop`, and the one-step equations of `runFrom`.

`runLoop` carries fuel only to be structurally recursive; with
`input.length < fuel` the result does not depend on the fuel, so `runFrom` can be
unfolded one program message unit at a time.
-/
import Scpi.Proofs.RunGood

namespace Scpi

/-- The interpreter state between two units: header path, unread input, writer, user state. -/
structure Cfg (σ : Type) where
  header : Node
  input : Bytes
  w : Writer
  s : σ

/-- What one iteration of the loop does: return (`stop`) or go round again (`next`). -/
inductive Step (σ : Type) where
  | stop (out : RunOut σ)
  | next (c : Cfg σ)

/-- The header path after an executed unit (interface.rs: `header = if call.terminated
{ root } else { call.header.unwrap_or(header) }`). -/
def headerAfter (root header : Node) (call : CommandCall) : Node :=
  if call.terminated then root
  else match call.header with
    | some h => h
    | none => header

/-- The user state after a unit was executed with outcome `r`: the error handler
is applied exactly when the outcome is an error, with that error. -/
def reportExec {σ : Type} (I : Iface σ) (s : σ) : ExecRes → σ
  | .err e => I.onError s e
  | _ => s

/-- One iteration of the loop of `run_from` on a non-empty input. -/
def unitStep {σ : Type} (I : Iface σ) (c : Cfg σ) : Step σ :=
  match parse I.root c.header c.input with
  | .crash cr => .stop { rest := c.input, header := c.header, w := c.w, s := c.s, crash := some cr }
  | .incomplete => .stop { rest := c.input, header := c.header, w := c.w, s := c.s }
  | .soft e =>
    match afterNewline c.input with
    | some rest => .next ⟨I.root, rest, c.w, I.onError c.s (parseErrToErr e)⟩
    | none => .stop { rest := c.input, header := c.header, w := c.w,
                      s := I.onError c.s (parseErrToErr e) }
  | .fatal e =>
    match afterNewline c.input with
    | some rest => .next ⟨I.root, rest, c.w, I.onError c.s e⟩
    | none => .stop { rest := c.input, header := c.header, w := c.w, s := I.onError c.s e }
  | .ok i none => .next ⟨I.root, i, c.w, c.s⟩
  | .ok i (some call) =>
    match execute I call c.w c.s with
    | (s', w', .crash cr) =>
      .stop { rest := c.input, header := c.header, w := w', s := s', crash := some cr }
    | (s', w', r) => .next ⟨headerAfter I.root c.header call, i, w', reportExec I s' r⟩

/-- The loop in terms of `unitStep`. -/
theorem runLoop_succ {σ : Type} (I : Iface σ) (fuel : Nat) (h : Node) (input : Bytes) (w : Writer)
    (s : σ) :
    runLoop I (fuel + 1) h input w s =
      if input.isEmpty then { rest := [], header := h, w := w, s := s }
      else match unitStep I ⟨h, input, w, s⟩ with
        | .stop o => o
        | .next c => runLoop I fuel c.header c.input c.w c.s := by
  rw [runLoop]
  split
  · rfl
  · unfold unitStep
    simp only []
    cases hp : parse I.root h input with
    | crash c => rfl
    | incomplete => rfl
    | soft e => simp only []; cases afterNewline input <;> rfl
    | fatal e => simp only []; cases afterNewline input <;> rfl
    | ok i oc =>
      cases oc with
      | none => rfl
      | some call =>
        simp only []
        rcases he : execute I call w s with ⟨s', w', r⟩
        cases r <;> rfl

/-- A `next` step strictly shortens the input (and returns a suffix of it). -/
theorem unitStep_next_lt {σ : Type} (I : Iface σ) (c c' : Cfg σ) (h : unitStep I c = .next c') :
    c'.input.length < c.input.length ∧ c'.input <:+ c.input := by
  have hp := parse_strict I.root c.header c.input
  unfold unitStep at h
  split at h
  · cases h
  · cases h
  · split at h
    · next rest hr => cases h; have := afterNewline_suffix _ _ hr; exact ⟨this.2, this.1⟩
    · cases h
  · split at h
    · next rest hr => cases h; have := afterNewline_suffix _ _ hr; exact ⟨this.2, this.1⟩
    · cases h
  · next i e => cases h; exact ⟨hp.lt _ _ e, hp.suffix _ _ e⟩
  · next i call e =>
    split at h
    · cases h
    · cases h; exact ⟨hp.lt _ _ e, hp.suffix _ _ e⟩

/-- **Fuel irrelevance**: any two amounts of fuel above the input length give the same run. -/
theorem runLoop_fuel_irrelevant {σ : Type} (I : Iface σ) : ∀ (f1 f2 : Nat) (h : Node) (input : Bytes)
    (w : Writer) (s : σ), input.length < f1 → input.length < f2 →
    runLoop I f1 h input w s = runLoop I f2 h input w s := by
  intro f1
  induction f1 with
  | zero => intro _ _ input _ _ h; omega
  | succ n ih =>
    intro f2 h input w s h1 h2
    cases f2 with
    | zero => omega
    | succ m =>
      rw [runLoop_succ, runLoop_succ]
      split
      · rfl
      · cases hs : unitStep I ⟨h, input, w, s⟩ with
        | stop o => rfl
        | next c =>
          have := (unitStep_next_lt I _ _ hs).1
          simp only [] at this ⊢
          exact ih m _ _ _ _ (by omega) (by omega)

theorem runLoop_eq_runFrom {σ : Type} (I : Iface σ) (f : Nat) (h : Node) (input : Bytes)
    (w : Writer) (s : σ) (hf : input.length < f) : runLoop I f h input w s = runFrom I h input w s :=
  runLoop_fuel_irrelevant I _ _ _ _ _ _ hf (Nat.lt_succ_self _)

theorem runFrom_nil {σ : Type} (I : Iface σ) (h : Node) (w : Writer) (s : σ) :
    runFrom I h [] w s = { rest := [], header := h, w := w, s := s } := by
  unfold runFrom; rw [runLoop_succ]; rfl

/-- **The unfolding equation of `runFrom`**: on a non-empty input do one `unitStep`,
then run on the configuration it produced. -/
theorem runFrom_step {σ : Type} (I : Iface σ) (h : Node) (input : Bytes) (w : Writer) (s : σ)
    (hne : input ≠ []) :
    runFrom I h input w s =
      match unitStep I ⟨h, input, w, s⟩ with
      | .stop o => o
      | .next c => runFrom I c.header c.input c.w c.s := by
  unfold runFrom
  rw [runLoop_succ]
  have : input.isEmpty = false := by cases input <;> simp_all
  simp only [this, Bool.false_eq_true, if_false]
  cases hs : unitStep I ⟨h, input, w, s⟩ with
  | stop o => rfl
  | next c =>
    have := (unitStep_next_lt I _ _ hs).1
    simp only [] at this ⊢
    exact runLoop_fuel_irrelevant I _ _ _ _ _ _ (by omega) (by omega)

theorem runFrom_stop {σ : Type} {I : Iface σ} {h : Node} {input : Bytes} {w : Writer} {s : σ}
    {o : RunOut σ} (hne : input ≠ []) (hs : unitStep I ⟨h, input, w, s⟩ = .stop o) :
    runFrom I h input w s = o := by
  rw [runFrom_step I h input w s hne, hs]

theorem runFrom_next {σ : Type} {I : Iface σ} {h : Node} {input : Bytes} {w : Writer} {s : σ}
    {c : Cfg σ} (hne : input ≠ []) (hs : unitStep I ⟨h, input, w, s⟩ = .next c) :
    runFrom I h input w s = runFrom I c.header c.input c.w c.s := by
  rw [runFrom_step I h input w s hne, hs]

end Scpi

/-! ### `unitStep`, one equation per verdict of `parse` -/

namespace Scpi

theorem unitStep_incomplete {σ : Type} (I : Iface σ) (c : Cfg σ)
    (hp : parse I.root c.header c.input = .incomplete) :
    unitStep I c = .stop { rest := c.input, header := c.header, w := c.w, s := c.s } := by
  unfold unitStep; rw [hp]

theorem unitStep_soft {σ : Type} (I : Iface σ) (c : Cfg σ) (e : Option Err)
    (hp : parse I.root c.header c.input = .soft e) :
    unitStep I c =
      match afterNewline c.input with
      | some rest => .next ⟨I.root, rest, c.w, I.onError c.s (parseErrToErr e)⟩
      | none => .stop { rest := c.input, header := c.header, w := c.w,
                        s := I.onError c.s (parseErrToErr e) } := by
  unfold unitStep; rw [hp]

theorem unitStep_fatal {σ : Type} (I : Iface σ) (c : Cfg σ) (e : Err)
    (hp : parse I.root c.header c.input = .fatal e) :
    unitStep I c =
      match afterNewline c.input with
      | some rest => .next ⟨I.root, rest, c.w, I.onError c.s e⟩
      | none => .stop { rest := c.input, header := c.header, w := c.w, s := I.onError c.s e } := by
  unfold unitStep; rw [hp]

theorem unitStep_empty_message {σ : Type} (I : Iface σ) (c : Cfg σ) (i : Bytes)
    (hp : parse I.root c.header c.input = .ok i none) :
    unitStep I c = .next ⟨I.root, i, c.w, c.s⟩ := by
  unfold unitStep; rw [hp]

/-- An accepted unit is executed; the loop always goes on (execution cannot crash),
on the rest `parse` returned, with the writer `execute` left, the user state after
`execute` and — iff the outcome is `.err e` — one `onError … e`. -/
theorem unitStep_call {σ : Type} (I : Iface σ) (c : Cfg σ) (i : Bytes) (call : CommandCall)
    (hp : parse I.root c.header c.input = .ok i (some call)) :
    unitStep I c = .next ⟨headerAfter I.root c.header call, i, (execute I call c.w c.s).2.1,
      reportExec I (execute I call c.w c.s).1 (execute I call c.w c.s).2.2⟩ := by
  unfold unitStep; rw [hp]
  simp only []
  have hnc := execute_no_crash I call c.w c.s
  rcases he : execute I call c.w c.s with ⟨s', w', r⟩
  rw [he] at hnc
  cases r with
  | ok => rfl
  | err e => rfl
  | crash cr => exact absurd rfl (hnc cr)

/-- `unitStep` never stops with a crash. -/
theorem unitStep_stop_no_crash {σ : Type} (I : Iface σ) (c : Cfg σ) (o : RunOut σ)
    (h : unitStep I c = .stop o) : o.crash = none ∧ o.rest = c.input ∧ o.header = c.header := by
  have hp := parse_strict I.root c.header c.input
  cases hq : parse I.root c.header c.input with
  | crash cr => exact absurd hq (hp.noCrash cr)
  | incomplete => rw [unitStep_incomplete I c hq] at h; cases h; exact ⟨rfl, rfl, rfl⟩
  | soft e =>
    rw [unitStep_soft I c e hq] at h
    split at h <;> cases h; exact ⟨rfl, rfl, rfl⟩
  | fatal e =>
    rw [unitStep_fatal I c e hq] at h
    split at h <;> cases h; exact ⟨rfl, rfl, rfl⟩
  | ok i oc =>
    cases oc with
    | none => rw [unitStep_empty_message I c i hq] at h; cases h
    | some call => rw [unitStep_call I c i call hq] at h; cases h

/-! ### The run as a sequence of unit steps -/

/-- Big-step reading of the loop: `Runs I c o` iff starting in configuration `c`
the interpreter performs unit steps one after the other — each on the writer and
user state the previous one left — until one of them stops or the input is used up,
and then returns `o`. -/
inductive Runs {σ : Type} (I : Iface σ) : Cfg σ → RunOut σ → Prop where
  | done (c : Cfg σ) : c.input = [] →
      Runs I c { rest := [], header := c.header, w := c.w, s := c.s }
  | stop (c : Cfg σ) (o : RunOut σ) : c.input ≠ [] → unitStep I c = .stop o → Runs I c o
  | step (c c' : Cfg σ) (o : RunOut σ) : c.input ≠ [] → unitStep I c = .next c' → Runs I c' o →
      Runs I c o

theorem runs_runFrom {σ : Type} (I : Iface σ) : ∀ (n : Nat) (c : Cfg σ), c.input.length ≤ n →
    Runs I c (runFrom I c.header c.input c.w c.s) := by
  intro n
  induction n with
  | zero =>
    intro c hl
    have h0 : c.input = [] := List.eq_nil_of_length_eq_zero (by omega)
    have := Runs.done (I := I) c h0
    rw [h0, runFrom_nil]; exact this
  | succ n ih =>
    intro c hl
    by_cases h0 : c.input = []
    · have := Runs.done (I := I) c h0
      rw [h0, runFrom_nil]; exact this
    · cases hs : unitStep I c with
      | stop o =>
        rw [runFrom_stop h0 hs]; exact Runs.stop c o h0 hs
      | next c' =>
        rw [runFrom_next h0 hs]
        have := (unitStep_next_lt I c c' hs).1
        exact Runs.step c c' _ h0 hs (ih c' (by omega))

theorem runs_deterministic {σ : Type} (I : Iface σ) (c : Cfg σ) (o o' : RunOut σ)
    (h : Runs I c o) (h' : Runs I c o') : o = o' := by
  induction h with
  | done c h0 =>
    cases h' with
    | done _ _ => rfl
    | stop _ _ hne _ => exact absurd h0 hne
    | step _ _ _ hne _ _ => exact absurd h0 hne
  | stop c o hne hs =>
    cases h' with
    | done _ h0 => exact absurd h0 hne
    | stop _ _ _ hs' => rw [hs] at hs'; cases hs'; rfl
    | step _ _ _ _ hs' _ => rw [hs] at hs'; cases hs'
  | step c c1 o hne hs _ ih =>
    cases h' with
    | done _ h0 => exact absurd h0 hne
    | stop _ _ _ hs' => rw [hs] at hs'; cases hs'
    | step _ c2 _ _ hs' hr => rw [hs] at hs'; cases hs'; exact ih hr

/-- `runFrom` is the function computed by the big-step relation. -/
theorem runFrom_iff_runs {σ : Type} (I : Iface σ) (c : Cfg σ) (o : RunOut σ) :
    runFrom I c.header c.input c.w c.s = o ↔ Runs I c o :=
  ⟨fun h => h ▸ runs_runFrom I _ c (Nat.le_refl _),
   fun h => runs_deterministic I c _ _ (runs_runFrom I _ c (Nat.le_refl _)) h⟩

/-- A finite trace of configurations, each obtained from the previous one by one unit step. -/
def IsTrace {σ : Type} (I : Iface σ) : Cfg σ → List (Cfg σ) → Cfg σ → Prop
  | c, [], last => c = last
  | c, c' :: cs, last => c.input ≠ [] ∧ unitStep I c = .next c' ∧ IsTrace I c' cs last

theorem runs_trace {σ : Type} (I : Iface σ) (c : Cfg σ) (o : RunOut σ) (h : Runs I c o) :
    ∃ (cs : List (Cfg σ)) (last : Cfg σ), IsTrace I c cs last ∧
      ((last.input = [] ∧ o = { rest := [], header := last.header, w := last.w, s := last.s }) ∨
       (last.input ≠ [] ∧ unitStep I last = .stop o)) := by
  induction h with
  | done c h0 => exact ⟨[], c, rfl, Or.inl ⟨h0, rfl⟩⟩
  | stop c o hne hs => exact ⟨[], c, rfl, Or.inr ⟨hne, hs⟩⟩
  | step c c' o hne hs _ ih =>
    obtain ⟨cs, last, ht, hl⟩ := ih
    exact ⟨c' :: cs, last, ⟨hne, hs, ht⟩, hl⟩

end Scpi
