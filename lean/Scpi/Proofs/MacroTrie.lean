/-
The trie insertion of the macro model (`insertAt`, `insertChild`, `insertPaths`)
specified through the exact-key observation `lookupId`.
-/
import Scpi.Macro
import Scpi.Spec.Lookup

namespace Scpi

/-- The error kind reported for a collision of the given kind. -/
def errKind (q : Bool) : MacroErr := if q then .queryExists else .commandExists

/-- `lookupId` below a list of children. -/
def lookupCh (q : Bool) (ch : List (Bytes × Node)) (k : Bytes) (p : List Bytes) : Option Nat :=
  (lookupKey ch k).bind fun c => lookupId q c p

theorem lookupId_nil (q : Bool) (n : Node) : lookupId q n [] = slot q n := rfl

theorem lookupId_cons (q : Bool) (t : Nat) (ch : List (Bytes × Node)) (cmd qq : Option Nat)
    (k : Bytes) (p : List Bytes) :
    lookupId q (.mk t ch cmd qq) (k :: p) = lookupCh q ch k p := by
  simp only [lookupId, walk, Node.children, lookupCh]
  cases lookupKey ch k <;> rfl

theorem lookupCh_nil (q : Bool) (k : Bytes) (p : List Bytes) : lookupCh q [] k p = none := rfl

theorem lookupCh_cons (q : Bool) (k0 : Bytes) (c : Node) (more : List (Bytes × Node)) (k : Bytes)
    (p : List Bytes) :
    lookupCh q ((k0, c) :: more) k p = if k0 = k then lookupId q c p else lookupCh q more k p := by
  simp only [lookupCh, lookupKey]
  split <;> rfl

theorem lookupId_empty (q : Bool) (t : Nat) (p : List Bytes) :
    lookupId q (.mk t [] none none) p = none := by
  cases p with
  | nil => cases q <;> rfl
  | cons k p => rw [lookupId_cons]; rfl

/-- `n'` is `n` with the entry `(path, q) ↦ id` added. -/
def Upd (n n' : Node) (path : List Bytes) (id : Nat) (q : Bool) : Prop :=
  ∀ q' p', lookupId q' n' p' = if p' = path ∧ q' = q then some id else lookupId q' n p'

/-- Outcome of one insertion, in terms of the observation. -/
def InsSpec (n : Node) (path : List Bytes) (id : Nat) (q : Bool) : Prop :=
  (∃ j, j ≠ id ∧ lookupId q n path = some j ∧ insertAt n path id q = .error (errKind q)) ∨
  (∃ n', (∀ j, lookupId q n path = some j → j = id) ∧ insertAt n path id q = .ok n' ∧
    Upd n n' path id q)

theorem insertAt_nil (t : Nat) (ch : List (Bytes × Node)) (cmd qq : Option Nat) (id : Nat)
    (isQuery : Bool) :
    insertAt (.mk t ch cmd qq) [] id isQuery =
      if isQuery then
        match qq with
        | some existing =>
          if existing = id then .ok (.mk t ch cmd qq) else .error .queryExists
        | none => .ok (.mk t ch cmd (some id))
      else
        match cmd with
        | some existing =>
          if existing = id then .ok (.mk t ch cmd qq) else .error .commandExists
        | none => .ok (.mk t ch (some id) qq) := by
  rw [insertAt.eq_def]
  cases cmd <;> cases qq <;> rfl

theorem insertAt_cons (t : Nat) (ch : List (Bytes × Node)) (cmd qq : Option Nat) (part : Bytes)
    (rest : List Bytes) (id : Nat) (isQuery : Bool) :
    insertAt (.mk t ch cmd qq) (part :: rest) id isQuery =
      match insertChild ch part rest id isQuery with
      | .ok ch' => .ok (.mk t ch' cmd qq)
      | .error e => .error e := by
  rw [insertAt.eq_def]
  cases cmd <;> cases qq <;> rfl

theorem insSpec_nil (n : Node) (id : Nat) (q : Bool) : InsSpec n [] id q := by
  obtain ⟨t, ch, cmd, qq⟩ := n
  unfold InsSpec Upd
  rw [insertAt_nil, lookupId_nil]
  cases q with
  | true =>
    simp only [slot, Node.query, if_true]
    cases qq with
    | none =>
      refine .inr ⟨_, by simp, rfl, ?_⟩
      intro q' p'
      cases p' with
      | nil => cases q' <;> simp [lookupId_nil, slot, Node.query, Node.command]
      | cons k p' => simp [lookupId_cons]
    | some j =>
      by_cases hj : j = id
      · subst hj
        refine .inr ⟨.mk t ch cmd (some j), by simp, by simp, ?_⟩
        intro q' p'
        split
        · next h => obtain ⟨rfl, rfl⟩ := h; rfl
        · rfl
      · exact .inl ⟨j, hj, rfl, by simp [hj, errKind]⟩
  | false =>
    simp only [slot, Node.command, Bool.false_eq_true, if_false]
    cases cmd with
    | none =>
      refine .inr ⟨_, by simp, rfl, ?_⟩
      intro q' p'
      cases p' with
      | nil => cases q' <;> simp [lookupId_nil, slot, Node.query, Node.command]
      | cons k p' => simp [lookupId_cons]
    | some j =>
      by_cases hj : j = id
      · subst hj
        refine .inr ⟨.mk t ch (some j) qq, by simp, by simp, ?_⟩
        intro q' p'
        split
        · next h => obtain ⟨rfl, rfl⟩ := h; rfl
        · rfl
      · exact .inl ⟨j, hj, rfl, by simp [hj, errKind]⟩

/-- Outcome of `insertChild`, in terms of the observation below a children list. -/
def InsChSpec (ch : List (Bytes × Node)) (part : Bytes) (rest : List Bytes) (id : Nat)
    (q : Bool) : Prop :=
  (∃ j, j ≠ id ∧ lookupCh q ch part rest = some j ∧
    insertChild ch part rest id q = .error (errKind q)) ∨
  (∃ ch', (∀ j, lookupCh q ch part rest = some j → j = id) ∧
    insertChild ch part rest id q = .ok ch' ∧
    ∀ q' k' p', lookupCh q' ch' k' p' =
      if (k' = part ∧ p' = rest) ∧ q' = q then some id else lookupCh q' ch k' p')

theorem insChSpec (rest : List Bytes) (id : Nat) (q : Bool) (ih : ∀ n, InsSpec n rest id q)
    (ch : List (Bytes × Node)) (part : Bytes) : InsChSpec ch part rest id q := by
  induction ch with
  | nil =>
    unfold InsChSpec
    rw [insertChild]
    rcases ih (.mk 0 [] none none) with ⟨j, _, hj, _⟩ | ⟨n', _, hok, hupd⟩
    · rw [lookupId_empty] at hj; cases hj
    · refine .inr ⟨[(part, n')], by simp [lookupCh_nil], by rw [hok], ?_⟩
      intro q' k' p'
      rw [lookupCh_cons, lookupCh_nil, hupd, lookupId_empty]
      by_cases hk : part = k'
      · subst hk; simp
      · have : ¬ k' = part := fun h => hk h.symm
        simp [hk, this]
  | cons kc more ihm =>
    obtain ⟨k, c⟩ := kc
    unfold InsChSpec
    rw [insertChild]
    by_cases hk : k = part
    · subst hk
      simp only [if_true, lookupCh_cons]
      rcases ih c with ⟨j, hne, hj, herr⟩ | ⟨c', hcomp, hok, hupd⟩
      · exact .inl ⟨j, hne, hj, by rw [herr]⟩
      · refine .inr ⟨(k, c') :: more, hcomp, by rw [hok], ?_⟩
        intro q' k' p'
        rw [lookupCh_cons, hupd]
        by_cases hk' : k = k'
        · subst hk'; simp
        · have : ¬ k' = k := fun h => hk' h.symm
          simp [hk', this]
    · simp only [hk, if_false, lookupCh_cons]
      rcases ihm with ⟨j, hne, hj, herr⟩ | ⟨more', hcomp, hok, hupd⟩
      · exact .inl ⟨j, hne, hj, by rw [herr]⟩
      · refine .inr ⟨(k, c) :: more', hcomp, by rw [hok], ?_⟩
        intro q' k' p'
        rw [lookupCh_cons, hupd]
        by_cases hk' : k = k'
        · subst hk'; simp [hk]
        · simp [hk']

/-- The complete input/output behaviour of `insertAt`: it fails exactly when the
slot for `(path, q)` holds a different id, with the error kind of `q`; otherwise
it adds the entry and changes nothing else. -/
theorem insSpec (n : Node) (path : List Bytes) (id : Nat) (q : Bool) : InsSpec n path id q := by
  induction path generalizing n with
  | nil => exact insSpec_nil n id q
  | cons part rest ih =>
    obtain ⟨t, ch, cmd, qq⟩ := n
    unfold InsSpec Upd
    rw [insertAt_cons, lookupId_cons]
    rcases insChSpec rest id q ih ch part with ⟨j, hne, hj, herr⟩ | ⟨ch', hcomp, hok, hupd⟩
    · exact .inl ⟨j, hne, hj, by rw [herr]⟩
    · refine .inr ⟨_, hcomp, by rw [hok], ?_⟩
      intro q' p'
      cases p' with
      | nil => simp [lookupId_nil, slot, Node.query, Node.command]
      | cons k' p' =>
        rw [lookupId_cons, lookupId_cons, hupd]
        simp

end Scpi
