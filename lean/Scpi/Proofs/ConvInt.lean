/-
Helpers for C03 (integer part): `digitVal`/`digitsVal`/`fromStrRadix` of the model
against the specification `IsNumeral` of `Scpi/Spec/Numerals.lean`.
-/
import Scpi.Spec.Numerals

namespace Scpi
namespace C03

/-- The model's `digitVal` is `charDigit` filtered by the radix. -/
theorem digitVal_eq (radix b : Nat) :
    digitVal radix b = (charDigit b).bind fun d => if d < radix then some d else none := by
  show (match charDigit b with
        | some d => if d < radix then some d else none
        | none => none) = _
  cases charDigit b <;> rfl

theorem digitVal_eq_some {radix b d : Nat} :
    digitVal radix b = some d ↔ charDigit b = some d ∧ d < radix := by
  rw [digitVal_eq]
  cases h : charDigit b with
  | none => simp
  | some d' =>
    simp only [Option.bind_some, Option.some.injEq]
    constructor
    · intro h1
      split at h1
      · cases h1; exact ⟨rfl, by assumption⟩
      · cases h1
    · rintro ⟨rfl, h2⟩
      simp [h2]

/-- Sign bytes are not digits. -/
theorem charDigit_plus : charDigit 43 = none := by decide
theorem charDigit_minus : charDigit 45 = none := by decide

theorem isDigits_nil_iff {radix : Nat} {ds : List Nat} : IsDigits radix [] ds ↔ ds = [] := by
  unfold IsDigits
  constructor
  · rintro ⟨h, _⟩
    cases ds with
    | nil => rfl
    | cons d ds => simp at h
  · rintro rfl; simp

theorem isDigits_cons_iff {radix b : Nat} {s : Bytes} {ds : List Nat} :
    IsDigits radix (b :: s) ds ↔
      ∃ d ds', ds = d :: ds' ∧ charDigit b = some d ∧ d < radix ∧ IsDigits radix s ds' := by
  unfold IsDigits
  constructor
  · rintro ⟨h, hlt⟩
    cases ds with
    | nil => simp at h
    | cons d ds' =>
      simp only [List.map_cons, List.cons.injEq] at h
      exact ⟨d, ds', rfl, h.1, hlt d (by simp), h.2, fun x hx => hlt x (by simp [hx])⟩
  · rintro ⟨d, ds', rfl, h1, h2, h3, h4⟩
    refine ⟨by simp [h1, h3], ?_⟩
    intro x hx
    simp only [List.mem_cons] at hx
    rcases hx with rfl | hx
    · exact h2
    · exact h4 x hx

/-- The digit values of a digit string are unique. -/
theorem isDigits_unique {radix : Nat} {s : Bytes} {ds ds' : List Nat}
    (h : IsDigits radix s ds) (h' : IsDigits radix s ds') : ds = ds' := by
  have := h.1.symm.trans h'.1
  exact (List.map_inj_right (fun a b hab => Option.some.inj hab)).mp this

/-- `digitsVal` with an accumulator is Horner evaluation from that accumulator. -/
theorem digitsVal_eq_some {radix : Nat} : ∀ (s : Bytes) (acc m : Nat),
    digitsVal radix s acc = some m ↔
      ∃ ds, IsDigits radix s ds ∧ m = ds.foldl (fun a d => a * radix + d) acc := by
  intro s
  induction s with
  | nil =>
    intro acc m
    simp only [digitsVal, Option.some.injEq, isDigits_nil_iff]
    constructor
    · rintro rfl; exact ⟨[], rfl, rfl⟩
    · rintro ⟨ds, rfl, rfl⟩; rfl
  | cons b s ih =>
    intro acc m
    simp only [digitsVal]
    cases hb : digitVal radix b with
    | none =>
      refine ⟨fun h => (by cases h), ?_⟩
      rintro ⟨ds, hd, -⟩
      obtain ⟨d, ds', -, h1, h2, -⟩ := isDigits_cons_iff.mp hd
      have := digitVal_eq_some.mpr ⟨h1, h2⟩
      rw [hb] at this; cases this
    | some d =>
      obtain ⟨hc, hlt⟩ := digitVal_eq_some.mp hb
      simp only []
      rw [ih]
      constructor
      · rintro ⟨ds, hd, rfl⟩
        exact ⟨d :: ds, isDigits_cons_iff.mpr ⟨d, ds, rfl, hc, hlt, hd⟩, rfl⟩
      · rintro ⟨ds, hd, rfl⟩
        obtain ⟨d', ds', rfl, h1, -, h3⟩ := isDigits_cons_iff.mp hd
        rw [hc] at h1; cases h1
        exact ⟨ds', h3, rfl⟩

theorem digitsVal_zero_eq_some {radix : Nat} {s : Bytes} {m : Nat} :
    digitsVal radix s 0 = some m ↔ ∃ ds, IsDigits radix s ds ∧ m = digitsValue radix ds :=
  digitsVal_eq_some s 0 m

/-- A non-empty digit string does not start with a sign. -/
theorem isDigits_head_ne_sign {radix b : Nat} {s : Bytes} {ds : List Nat}
    (h : IsDigits radix (b :: s) ds) : b ≠ 43 ∧ b ≠ 45 := by
  obtain ⟨d, ds', -, h1, -⟩ := isDigits_cons_iff.mp h
  constructor <;> rintro rfl
  · rw [charDigit_plus] at h1; cases h1
  · rw [charDigit_minus] at h1; cases h1

/-- Inversion of `IsNumeral` by the first byte. -/
theorem isNumeral_iff {signed : Bool} {radix : Nat} {s : Bytes} {v : Int} :
    IsNumeral signed radix s v ↔
      ∃ body ds, body ≠ [] ∧ IsDigits radix body ds ∧
        ((s = body ∧ v = digitsValue radix ds) ∨
         (s = 43 :: body ∧ v = digitsValue radix ds) ∨
         (s = 45 :: body ∧ signed = true ∧ v = -(digitsValue radix ds : Int))) := by
  constructor
  · intro h
    cases h with
    | unsignedDigits s ds hne hd => exact ⟨s, ds, hne, hd, Or.inl ⟨rfl, rfl⟩⟩
    | plus s ds hne hd => exact ⟨s, ds, hne, hd, Or.inr (Or.inl ⟨rfl, rfl⟩)⟩
    | minus s ds hs hne hd => exact ⟨s, ds, hne, hd, Or.inr (Or.inr ⟨rfl, hs, rfl⟩)⟩
  · rintro ⟨body, ds, hne, hd, (⟨rfl, rfl⟩ | ⟨rfl, rfl⟩ | ⟨rfl, hs, rfl⟩)⟩
    · exact .unsignedDigits _ _ hne hd
    · exact .plus _ _ hne hd
    · exact .minus _ _ hs hne hd

/-- The model's sign split, stated as a function. -/
def signSplit (signed : Bool) (b : Nat) (rest : Bytes) : Bool × Bytes :=
  if b == 43 then (false, rest)
  else if b == 45 && signed then (true, rest)
  else (false, b :: rest)

/-- `fromStrRadix` on a non-empty text that is not a lone sign. -/
theorem fromStrRadix_cons (signed : Bool) (bits radix b : Nat) (rest : Bytes)
    (h : ¬ (rest = [] ∧ (b = 43 ∨ b = 45))) :
    fromStrRadix signed bits radix (b :: rest) =
      match digitsVal radix (signSplit signed b rest).2 0 with
      | none => none
      | some m =>
        let v : Int := if (signSplit signed b rest).1 then -(m : Int) else (m : Int)
        if intMin signed bits ≤ v ∧ v ≤ intMax signed bits then some v else none := by
  unfold fromStrRadix signSplit
  split
  · rename_i heq; cases heq
  · rename_i heq; cases heq; exact absurd ⟨rfl, Or.inl rfl⟩ h
  · rename_i heq; cases heq; exact absurd ⟨rfl, Or.inr rfl⟩ h
  · rename_i b' rest' _ _ heq
    cases heq
    rfl

theorem fromStrRadix_lone_sign (signed : Bool) (bits radix b : Nat) (h : b = 43 ∨ b = 45) :
    fromStrRadix signed bits radix [b] = none := by
  rcases h with rfl | rfl <;> rfl

/-- The value delivered by `fromStrRadix`, before the range check: the numeral's value. -/
theorem numeral_of_split {signed : Bool} {radix b : Nat} {rest : Bytes} {m : Nat}
    (hne : ¬ (rest = [] ∧ (b = 43 ∨ b = 45)))
    (h : digitsVal radix (signSplit signed b rest).2 0 = some m) :
    IsNumeral signed radix (b :: rest)
      (if (signSplit signed b rest).1 then -(m : Int) else (m : Int)) := by
  obtain ⟨ds, hd, rfl⟩ := digitsVal_zero_eq_some.mp h
  unfold signSplit at hd ⊢
  by_cases h43 : b = 43
  · subst h43
    simp only [beq_self_eq_true, if_true] at hd ⊢
    have : rest ≠ [] := fun h0 => hne ⟨h0, Or.inl rfl⟩
    simpa using IsNumeral.plus rest ds this hd
  · have h43' : (b == 43) = false := by simpa using h43
    simp only [h43', Bool.false_eq_true, if_false] at hd ⊢
    by_cases h45 : b = 45 ∧ signed = true
    · obtain ⟨rfl, hs⟩ := h45
      subst hs
      simp only [beq_self_eq_true, Bool.and_self, if_true] at hd ⊢
      have : rest ≠ [] := fun h0 => hne ⟨h0, Or.inr rfl⟩
      exact IsNumeral.minus rest ds rfl this hd
    · have : (b == 45 && signed) = false := by
        cases signed <;> simp at h45 ⊢
        exact h45
      simp only [this, Bool.false_eq_true, if_false] at hd ⊢
      exact IsNumeral.unsignedDigits (b :: rest) ds (by simp) hd

/-- Conversely every numeral is found by the split, with the same digits. -/
theorem split_of_numeral {signed : Bool} {radix : Nat} {s : Bytes} {v : Int}
    (h : IsNumeral signed radix s v) :
    ∃ b rest m, s = b :: rest ∧ ¬ (rest = [] ∧ (b = 43 ∨ b = 45)) ∧
      digitsVal radix (signSplit signed b rest).2 0 = some m ∧
      v = (if (signSplit signed b rest).1 then -(m : Int) else (m : Int)) := by
  cases h with
  | unsignedDigits s ds hne hd =>
    cases s with
    | nil => exact absurd rfl hne
    | cons b rest =>
      obtain ⟨h43, h45⟩ := isDigits_head_ne_sign hd
      refine ⟨b, rest, digitsValue radix ds, rfl, fun hh => ?_, ?_, ?_⟩
      · rcases hh.2 with h | h
        · exact h43 h
        · exact h45 h
      · have : signSplit signed b rest = (false, b :: rest) := by
          unfold signSplit; simp [h43, h45]
        rw [this]; exact digitsVal_zero_eq_some.mpr ⟨ds, hd, rfl⟩
      · have : signSplit signed b rest = (false, b :: rest) := by
          unfold signSplit; simp [h43, h45]
        rw [this]; simp
  | plus s ds hne hd =>
    refine ⟨43, s, digitsValue radix ds, rfl, fun hh => hne hh.1, ?_, ?_⟩
    · exact digitsVal_zero_eq_some.mpr ⟨ds, hd, rfl⟩
    · simp [signSplit]
  | minus s ds hs hne hd =>
    subst hs
    refine ⟨45, s, digitsValue radix ds, rfl, fun hh => hne hh.1, ?_, ?_⟩
    · exact digitsVal_zero_eq_some.mpr ⟨ds, hd, rfl⟩
    · simp [signSplit]

/-- A numeral has exactly one value. -/
theorem isNumeral_unique {signed : Bool} {radix : Nat} {s : Bytes} {v v' : Int}
    (h : IsNumeral signed radix s v) (h' : IsNumeral signed radix s v') : v = v' := by
  obtain ⟨b, rest, m, rfl, -, hm, rfl⟩ := split_of_numeral h
  obtain ⟨b', rest', m', heq, -, hm', rfl⟩ := split_of_numeral h'
  cases heq
  rw [hm] at hm'; cases hm'; rfl

/-- `fromStrRadix` returns the mathematical value of the numeral when it is in range,
and nothing otherwise. -/
theorem fromStrRadix_iff' (signed : Bool) (bits radix : Nat) (s : Bytes) (v : Int) :
    fromStrRadix signed bits radix s = some v ↔
      IsNumeral signed radix s v ∧ intMin signed bits ≤ v ∧ v ≤ intMax signed bits := by
  cases s with
  | nil =>
    refine ⟨fun h => (by cases h), ?_⟩
    rintro ⟨h, -⟩
    obtain ⟨b, rest, m, heq, -⟩ := split_of_numeral h
    cases heq
  | cons b rest =>
    by_cases hl : rest = [] ∧ (b = 43 ∨ b = 45)
    · obtain ⟨rfl, hb⟩ := hl
      rw [fromStrRadix_lone_sign _ _ _ _ hb]
      refine ⟨fun h => (by cases h), ?_⟩
      rintro ⟨h, -⟩
      obtain ⟨b', rest', m, heq, hn, -⟩ := split_of_numeral h
      cases heq
      exact absurd ⟨rfl, hb⟩ hn
    · rw [fromStrRadix_cons _ _ _ _ _ hl]
      cases hm : digitsVal radix (signSplit signed b rest).2 0 with
      | none =>
        refine ⟨fun h => (by cases h), ?_⟩
        rintro ⟨h, -⟩
        obtain ⟨b', rest', m, heq, -, hm', -⟩ := split_of_numeral h
        cases heq
        rw [hm] at hm'; cases hm'
      | some m =>
        have hnum := numeral_of_split hl hm
        simp only []
        generalize (if (signSplit signed b rest).1 = true then -(m : Int) else (m : Int)) = val
          at hnum ⊢
        constructor
        · intro h
          by_cases hr : intMin signed bits ≤ val ∧ val ≤ intMax signed bits
          · rw [if_pos hr] at h
            cases h
            exact ⟨hnum, hr⟩
          · rw [if_neg hr] at h
            cases h
        · rintro ⟨h, hr⟩
          have := isNumeral_unique h hnum
          subst this
          rw [if_pos hr]

end C03
end Scpi
