/-
Prefix determinacy (C12, the longer-to-shorter direction): lexical recognisers.

A success of `quoted`/`arbitrary`/`argument` on `x ++ y` that leaves at least `y`
consumed only bytes of `x`, hence is a success on `x` alone (`argument_back`);
the same for the argument loop (`argsLoop_back`, `arguments_back`).
-/
import Scpi.Proofs.PDComb

namespace Scpi.PD

/-! ### Small facts -/

theorem ofErr_bind {α β : Type} (e : StdErr) (k : Bytes → α → PResult β) :
    (ofErr e : PResult α).bind k = ofErr e := by
  unfold ofErr; split <;> rfl

theorem ofErr_map {α β : Type} (e : StdErr) (f : α → β) :
    (ofErr e : PResult α).map f = ofErr e := by
  unfold ofErr; split <;> rfl

theorem satisfy_cons_ne_incomplete {cls : Nat → Bool} {b : Nat} {t : Bytes} :
    satisfy cls (b :: t) ≠ .incomplete := by
  unfold satisfy
  cases hb : cls b with
  | true => simp only [hb, if_true]; intro e; cases e
  | false => simp only [hb, Bool.false_eq_true, if_false]; exact ofErr_ne_incomplete

theorem tag_self (q : Nat) (t : Bytes) : tag q (q :: t) = .ok t q := by
  simp only [tag, satisfy, beq_self_eq_true, if_true]

theorem tag_head_ne {q b : Nat} (t : Bytes) (h : b ≠ q) : tag q (b :: t) = ofErr .InvalidCharacter := by
  have hb : (fun c => c == q) b = false := by simpa using h
  exact satisfy_cons_false t hb

theorem fromUtf8_eq_ok {α : Type} {s : Bytes} {k : Bytes → PResult α} {R : Bytes} {v : α}
    (h : fromUtf8 s k = .ok R v) : k s = .ok R v := by
  unfold fromUtf8 at h
  split at h
  · exact h
  · exact absurd h ofErr_ne_ok

theorem fromUtf8_ne_incomplete {α : Type} {s : Bytes} {k : Bytes → PResult α}
    (hk : k s ≠ .incomplete) : fromUtf8 s k ≠ .incomplete := by
  unfold fromUtf8
  split
  · exact hk
  · exact ofErr_ne_incomplete

/-! ### `quoted` -/

theorem quoted_head_ne {q b : Nat} (t : Bytes) (h : b ≠ q) :
    quoted q (b :: t) = ofErr .InvalidCharacter := by
  unfold quoted
  rw [tag_head_ne t h, ofErr_bind]

/-- A quoted string accepted on `x ++ y` with at least `y` left has its closing quote
inside `x`: the verdict on `x` is not `incomplete`. -/
theorem quoted_ne_incomplete (q : Nat) (x y r : Bytes) (v : Value) (hx : x ≠ [])
    (h : quoted q (x ++ y) = .ok (r ++ y) v) : quoted q x ≠ .incomplete := by
  intro hn
  cases x with
  | nil => exact hx rfl
  | cons b t =>
    by_cases hb : b = q
    · subst hb
      unfold quoted at hn h
      rw [List.cons_append, tag_self] at h
      rw [tag_self] at hn
      simp only [PResult.bind, takeWhileP] at hn h
      cases hd : t.dropWhile (fun c => c != b) with
      | nil =>
        rw [List.dropWhile_append, hd] at h
        simp only [List.isEmpty_nil, if_true] at h
        obtain ⟨i3, _, e3, h⟩ := bind_eq_ok h
        have l3 := satisfy_ok_length e3
        have ls := (List.dropWhile_suffix (fun c => c != b) (l := y)).length_le
        have h' := fromUtf8_eq_ok h
        injection h' with h1 h2
        rw [h1, List.length_append] at l3
        omega
      | cons c d =>
        rw [hd] at hn
        cases hc : tag b (c :: d) with
        | ok i3 w =>
          rw [hc] at hn
          exact fromUtf8_ne_incomplete (by intro e; cases e) hn
        | soft e => rw [hc] at hn; cases hn
        | fatal e => rw [hc] at hn; cases hn
        | incomplete => exact satisfy_cons_ne_incomplete hc
        | crash c => rw [hc] at hn; cases hn
    · rw [List.cons_append, quoted_head_ne _ hb] at h
      exact ofErr_ne_ok h

theorem quoted_pb (q : Nat) (x y : Bytes) (hx : x ≠ []) :
    PB (∃ t, x = q :: t) y (quoted q x) (quoted q (x ++ y)) := by
  refine ⟨quoted_mext q x y, fun r v h => ?_, fun hn => Or.inr ?_⟩
  · have hm := quoted_mext q x y (quoted_ne_incomplete q x y r v hx h)
    rw [hm] at h
    obtain ⟨r', ha, hr⟩ := extend_eq_ok h
    rw [List.append_cancel_right hr]
    exact ha
  · cases x with
    | nil => exact absurd rfl hx
    | cons b t =>
      by_cases hb : b = q
      · exact ⟨t, by rw [hb]⟩
      · rw [quoted_head_ne t hb] at hn
        exact absurd hn ofErr_ne_incomplete

/-! ### `arbitrary` -/

theorem arbitrary_head_ne {b : Nat} (t : Bytes) (h : b ≠ 35) :
    arbitrary (b :: t) = ofErr .InvalidCharacter := by
  unfold arbitrary
  rw [tag_head_ne t h, ofErr_bind]

theorem arbitrary_ok_inv {w R : Bytes} {v : Value} (h : arbitrary w = .ok R v) :
    ∃ d i2 cnt, w = 35 :: d :: i2 ∧ d - 48 ≤ i2.length ∧
      fromStrRadix false 64 10 (i2.take (d - 48)) = some cnt ∧
      Int.toNat cnt ≤ (i2.drop (d - 48)).length ∧ R = (i2.drop (d - 48)).drop (Int.toNat cnt) := by
  unfold arbitrary at h
  obtain ⟨i1, t, e1, h1⟩ := bind_eq_ok h
  clear h
  obtain ⟨i2, nd, e2, h⟩ := bind_eq_ok h1
  clear h1
  obtain ⟨d, e2', rfl⟩ := map_eq_ok e2
  clear e2
  obtain ⟨rfl, ht⟩ := satisfy_ok_cons e1
  obtain ⟨rfl, hd⟩ := satisfy_ok_cons e2'
  simp only [beq_iff_eq] at ht
  subst ht
  by_cases hl : i2.length < d - 48
  · simp only [hl, if_true] at h; cases h
  · simp only [hl, if_false] at h
    cases hv : validUtf8 (i2.take (d - 48)) with
    | false =>
      simp only [hv, Bool.not_false, if_true] at h
      exact absurd h ofErr_ne_ok
    | true =>
      simp only [hv, Bool.not_true, Bool.false_eq_true, if_false] at h
      cases hf : fromStrRadix false 64 10 (i2.take (d - 48)) with
      | none => simp only [hf] at h; exact absurd h ofErr_ne_ok
      | some cnt =>
        simp only [hf] at h
        by_cases hc : (i2.drop (d - 48)).length < cnt.toNat
        · simp only [hc, if_true] at h; cases h
        · simp only [hc, if_false] at h
          injection h with h1 h2
          exact ⟨d, i2, cnt, rfl, Nat.le_of_not_lt hl, hf, Nat.le_of_not_lt hc, h1.symm⟩

theorem arbitrary_incomplete_inv {x : Bytes} (h : arbitrary x = .incomplete) :
    x = [] ∨ x = [35] ∨ ∃ d i2, x = 35 :: d :: i2 ∧ (i2.length < d - 48 ∨
      (d - 48 ≤ i2.length ∧ ∃ cnt, fromStrRadix false 64 10 (i2.take (d - 48)) = some cnt ∧
        (i2.drop (d - 48)).length < Int.toNat cnt)) := by
  cases x with
  | nil => exact Or.inl rfl
  | cons b x1 =>
    by_cases hb : b = 35
    · subst hb
      cases x1 with
      | nil => exact Or.inr (Or.inl rfl)
      | cons d i2 =>
        refine Or.inr (Or.inr ⟨d, i2, rfl, ?_⟩)
        unfold arbitrary at h
        rw [tag_self] at h
        simp only [PResult.bind] at h
        cases hs : satisfy (fun c => decide (49 ≤ c) && decide (c ≤ 57)) (d :: i2) with
        | ok i2' d' =>
          obtain ⟨e, _⟩ := satisfy_ok_cons hs
          injection e with e1 e2
          subst e1; subst e2
          rw [hs] at h
          simp only [PResult.map] at h
          by_cases hl : i2.length < d - 48
          · exact Or.inl hl
          · refine Or.inr ⟨Nat.le_of_not_lt hl, ?_⟩
            simp only [hl, if_false] at h
            cases hv : validUtf8 (i2.take (d - 48)) with
            | false =>
              simp only [hv, Bool.not_false, if_true] at h
              exact absurd h ofErr_ne_incomplete
            | true =>
              simp only [hv, Bool.not_true, Bool.false_eq_true, if_false] at h
              cases hf : fromStrRadix false 64 10 (i2.take (d - 48)) with
              | none => simp only [hf] at h; exact absurd h ofErr_ne_incomplete
              | some cnt =>
                simp only [hf] at h
                by_cases hc : (i2.drop (d - 48)).length < cnt.toNat
                · exact ⟨cnt, rfl, hc⟩
                · simp only [hc, if_false] at h; cases h
        | soft e => rw [hs] at h; cases h
        | fatal e => rw [hs] at h; cases h
        | incomplete => exact absurd hs satisfy_cons_ne_incomplete
        | crash c => rw [hs] at h; cases h
    · rw [arbitrary_head_ne x1 hb] at h
      exact absurd h ofErr_ne_incomplete

/-- A block accepted on `x ++ y` with at least `y` left lies inside `x`. -/
theorem arbitrary_ne_incomplete (x y r : Bytes) (v : Value) (hx : x ≠ [])
    (h : arbitrary (x ++ y) = .ok (r ++ y) v) : arbitrary x ≠ .incomplete := by
  intro hn
  obtain ⟨d, i2w, cnt, hw, hnd, hf, hcnt, hR⟩ := arbitrary_ok_inv h
  have hRl := congrArg List.length hR
  simp only [List.length_append, List.length_drop] at hRl hcnt
  rcases arbitrary_incomplete_inv hn with rfl | rfl | ⟨d', i2, rfl, hcase⟩
  · exact hx rfl
  · simp only [List.cons_append, List.nil_append] at hw
    injection hw with _ hw
    subst hw
    simp only [List.length_cons] at hRl
    omega
  · simp only [List.cons_append] at hw
    injection hw with _ hw
    injection hw with hd hw
    subst hd; subst hw
    simp only [List.length_append] at hRl hcnt hnd
    rcases hcase with hl | ⟨hle, cnt', hf', hc'⟩
    · omega
    · rw [List.take_append_of_le_length hle, hf'] at hf
      injection hf with hf
      subst hf
      simp only [List.length_drop] at hc'
      omega

theorem arbitrary_pb (x y : Bytes) (hx : x ≠ []) :
    PB True y (arbitrary x) (arbitrary (x ++ y)) := by
  refine ⟨arbitrary_mext x y, fun r v h => ?_, fun _ => Or.inr trivial⟩
  have hm := arbitrary_mext x y (arbitrary_ne_incomplete x y r v hx h)
  rw [hm] at h
  obtain ⟨r', ha, hr⟩ := extend_eq_ok h
  rw [List.append_cancel_right hr]
  exact ha

/-! ### `argument` -/

/-- **Backward lemma for one parameter.**  On an input `x` that contains a
terminator, an argument accepted on `x ++ y` with at least `y` left is accepted on
`x` alone, with the same value. -/
theorem argument_back (x y r : Bytes) (v : Value) (hT : HasTerm x)
    (h : argument (x ++ y) = .ok (r ++ y) v) : argument x = .ok r v := by
  have hx := hT.ne_nil
  have h8 : PB ((((False ∨ ∃ t, x = 39 :: t) ∨ ∃ t, x = 34 :: t)) ∨ True) y
      (argument x) (argument (x ++ y)) := by
    unfold argument
    refine pb_orNext (pb_orNext (pb_orNext (rel_pb (rel_orNext (rel_orNext (rel_orNext (rel_orNext
      (cb_characters x y hT) (cb_decimal x y hT)) (cb_hexadecimal x y hT)) (cb_binary x y hT))
      (cb_octal x y hT))) (quoted_pb 39 x y hx) (fun f => f.elim)) (quoted_pb 34 x y hx) ?_)
      (arbitrary_pb x y hx) ?_
    · rintro (f | ⟨t, rfl⟩) R w
      · exact f.elim
      · show quoted 34 (39 :: t ++ y) ≠ _
        rw [List.cons_append, quoted_head_ne _ (by decide)]
        exact ofErr_ne_ok
    · rintro ((f | ⟨t, rfl⟩) | ⟨t, rfl⟩) R w
      · exact f.elim
      · rw [List.cons_append, arbitrary_head_ne _ (by decide)]
        exact ofErr_ne_ok
      · rw [List.cons_append, arbitrary_head_ne _ (by decide)]
        exact ofErr_ne_ok
  exact h8.bk r v h

end Scpi.PD

