/-
Offsets invariant of `process` and absence of crashes (C05, process part).
-/
import Scpi.Proofs.ProcStep
import Scpi.Proofs.RunGood

namespace Scpi
namespace Proc

/-! ### `slice` and `newlinePos` -/

theorem slice_eq_some {l : Bytes} {a b : Nat} (h1 : a ≤ b) (h2 : b ≤ l.length) :
    slice l a b = some ((l.take b).drop a) := by
  simp [slice, h1, h2]

theorem slice_some {l w : Bytes} {a b : Nat} (h : slice l a b = some w) :
    a ≤ b ∧ b ≤ l.length ∧ w = (l.take b).drop a ∧ w.length = b - a := by
  unfold slice at h
  split at h
  · next hc =>
    cases h
    refine ⟨hc.1, hc.2, rfl, ?_⟩
    simp only [List.length_drop, List.length_take]
    omega
  · cases h

theorem slice_length {l : Bytes} {a b : Nat} (h1 : a ≤ b) (h2 : b ≤ l.length) :
    ((l.take b).drop a).length = b - a := by
  simp only [List.length_drop, List.length_take]
  omega

/-- `position` finds a newline inside the window. -/
theorem newlinePos_lt : ∀ (w : Bytes) (p : Nat), newlinePos w = some p →
    p < w.length ∧ w[p]? = some 10 := by
  intro w
  induction w with
  | nil => intro p h; cases h
  | cons b rest ih =>
    intro p h
    unfold newlinePos at h
    split at h
    · next hb =>
      cases h
      have : b = 10 := by simpa using hb
      simp [this]
    · cases hr : newlinePos rest with
      | none => rw [hr] at h; cases h
      | some q =>
        rw [hr] at h
        cases h
        obtain ⟨h1, h2⟩ := ih q hr
        exact ⟨by simp only [List.length_cons]; omega, by simpa using h2⟩

/-- … and it is the first one. -/
theorem newlinePos_first : ∀ (w : Bytes) (p : Nat), newlinePos w = some p →
    ∀ i, i < p → w[i]? ≠ some 10 := by
  intro w
  induction w with
  | nil => intro p h; cases h
  | cons b rest ih =>
    intro p h i hi
    unfold newlinePos at h
    split at h
    · cases h; omega
    · next hb =>
      cases hr : newlinePos rest with
      | none => rw [hr] at h; cases h
      | some q =>
        rw [hr] at h
        cases h
        cases i with
        | zero => simpa using hb
        | succ j =>
          have hi' : j + 1 < q + 1 := hi
          simpa using ih q hr j (by omega)

theorem newlinePos_none : ∀ (w : Bytes), newlinePos w = none → 10 ∉ w := by
  intro w
  induction w with
  | nil => intro _; simp
  | cons b rest ih =>
    intro h
    unfold newlinePos at h
    split at h
    · cases h
    · next hb =>
      cases hr : newlinePos rest with
      | some q => rw [hr] at h; cases h
      | none =>
        have := ih hr
        have hb' : ¬ b = 10 := by simpa using hb
        simp only [List.mem_cons, not_or]
        exact ⟨fun e => hb' e.symm, this⟩

/-! ### the response write -/

theorem respWrite_fst {σ : Type} (fault : Option (Nat × Int)) (st : PState σ) (b : Bytes) :
    ∃ c t, (respWrite fault st b).1 = { st with calls := c, trace := t } := by
  unfold respWrite
  split
  · exact ⟨_, _, rfl⟩
  · split
    · exact ⟨_, _, rfl⟩
    · simp only []
      split <;> exact ⟨_, _, rfl⟩

theorem respWrite_no_crash {σ : Type} (fault : Option (Nat × Int)) (st : PState σ) (b : Bytes)
    (c : Crash) : (respWrite fault st b).2 ≠ some (.crash c) := by
  unfold respWrite
  split
  · intro h; cases h
  · split
    · intro h; cases h
    · simp only []
      split <;> (intro h; cases h)

/-! ### the invariants -/

/-- Invariant of the inner loop: `proc_offset ≤ read_offset ≤ read_end ≤ N` and the command
buffer is `N` bytes long. -/
structure IInv {σ : Type} (n readEnd : Nat) (st : PState σ) : Prop where
  len : st.buf.length = n
  pr : st.procOff ≤ st.readOff
  re : st.readOff ≤ readEnd
  en : readEnd ≤ n

/-- Invariant at the top of the outer loop: the buffer is `N` long and
`proc_offset ≤ read_offset < N`, so the slice handed to `read` is not empty. -/
structure PInv {σ : Type} (n : Nat) (st : PState σ) : Prop where
  len : st.buf.length = n
  pr : st.procOff ≤ st.readOff
  lt : st.readOff < n

/-- One step of the inner loop keeps the invariant, never crashes, moves `read_offset`
forward when it continues, and touches neither the buffer nor the script. -/
theorem innerStep_inv {σ : Type} (I : Iface σ) (n : Nat) (fault : Option (Nat × Int))
    (readEnd : Nat) (st : PState σ) (hinv : IInv n readEnd st) :
    match innerStep I n fault readEnd st with
    | .inl st' => IInv n readEnd st' ∧ st.readOff < st'.readOff
    | .inr (st', e) => IInv n readEnd st' ∧ ∀ c, e ≠ some (.crash c) := by
  obtain ⟨hlen, hpr, hre, hen⟩ := hinv
  unfold innerStep
  rw [slice_eq_some hre (by omega)]
  simp only []
  have hwl := slice_length (l := st.buf) hre (by omega)
  cases hp : newlinePos ((st.buf.take readEnd).drop st.readOff) with
  | none => exact ⟨⟨hlen, hpr, hre, hen⟩, fun c h => by cases h⟩
  | some p =>
    simp only []
    obtain ⟨hplt, _⟩ := newlinePos_lt _ _ hp
    rw [hwl] at hplt
    rw [slice_eq_some (by omega) (by omega)]
    simp only []
    have hdl := slice_length (l := st.buf) (a := st.procOff) (b := st.readOff + p + 1) (by omega) (by omega)
    generalize hd : (st.buf.take (st.readOff + p + 1)).drop st.procOff = data at hdl
    obtain ⟨hnc, hsuf⟩ := runFrom_good I st.header data { cap := some n } st.user
    have hrl := hsuf.length_le
    rw [hnc]
    simp only []
    obtain ⟨c, t, hw⟩ := respWrite_fst fault
      { st with header := (runFrom I st.header data { cap := some n } st.user).header,
                user := (runFrom I st.header data { cap := some n } st.user).s }
      (runFrom I st.header data { cap := some n } st.user).w.buf
    have hwc := respWrite_no_crash fault
      { st with header := (runFrom I st.header data { cap := some n } st.user).header,
                user := (runFrom I st.header data { cap := some n } st.user).s }
      (runFrom I st.header data { cap := some n } st.user).w.buf
    revert hw hwc
    generalize respWrite fault _ _ = r
    obtain ⟨st2, e⟩ := r
    intro hw hwc
    simp only at hw hwc
    subst hw
    cases e with
    | some e => exact ⟨⟨hlen, hpr, hre, hen⟩, hwc⟩
    | none =>
      simp only []
      by_cases hne : (!(runFrom I st.header data { cap := some n } st.user).rest.isEmpty) = true
      · rw [if_pos hne, if_pos (by omega)]
        exact ⟨⟨hlen, by simp only []; omega, by simp only []; omega, hen⟩, by simp only []; omega⟩
      · rw [if_neg hne]
        exact ⟨⟨hlen, Nat.le_refl _, by simp only []; omega, hen⟩, by simp only []; omega⟩

/-- The inner loop touches neither the command buffer nor the adapter's script. -/
def Frame {σ : Type} (st st' : PState σ) : Prop :=
  st'.buf = st.buf ∧ st'.stream = st.stream ∧ st'.sizes = st.sizes

theorem innerStep_frame {σ : Type} (I : Iface σ) (n : Nat) (fault : Option (Nat × Int))
    (readEnd : Nat) (st : PState σ) :
    match innerStep I n fault readEnd st with
    | .inl st' => Frame st st'
    | .inr (st', _) => Frame st st' := by
  unfold innerStep
  cases slice st.buf st.readOff readEnd with
  | none => exact ⟨rfl, rfl, rfl⟩
  | some window =>
    simp only []
    cases newlinePos window with
    | none => exact ⟨rfl, rfl, rfl⟩
    | some position =>
      simp only []
      cases slice st.buf st.procOff (st.readOff + position + 1) with
      | none => exact ⟨rfl, rfl, rfl⟩
      | some data =>
        simp only []
        cases (runFrom I st.header data { cap := some n } st.user).crash with
        | some c => exact ⟨rfl, rfl, rfl⟩
        | none =>
          simp only []
          obtain ⟨c, t, hw⟩ := respWrite_fst fault
            { st with header := (runFrom I st.header data { cap := some n } st.user).header,
                      user := (runFrom I st.header data { cap := some n } st.user).s }
            (runFrom I st.header data { cap := some n } st.user).w.buf
          revert hw
          generalize respWrite fault _ _ = r
          obtain ⟨st2, e⟩ := r
          intro hw
          simp only at hw
          subst hw
          cases e with
          | some e => exact ⟨rfl, rfl, rfl⟩
          | none =>
            simp only []
            by_cases hne : (!(runFrom I st.header data { cap := some n } st.user).rest.isEmpty) = true
            · rw [if_pos hne]
              by_cases hle : (runFrom I st.header data { cap := some n } st.user).rest.length
                  ≤ st.procOff + data.length
              · rw [if_pos hle]; exact ⟨rfl, rfl, rfl⟩
              · rw [if_neg hle]; exact ⟨rfl, rfl, rfl⟩
            · rw [if_neg hne]
              exact ⟨rfl, rfl, rfl⟩

theorem procInner_frame {σ : Type} (I : Iface σ) (n : Nat) (fault : Option (Nat × Int))
    (readEnd fuel : Nat) (st : PState σ) :
    Frame st (procInner I n fault fuel readEnd st).1 := by
  refine procInner_induct I n fault readEnd (fun _ s => Frame st s) (fun r => Frame st r.1)
    (fun s h => h) ?_ ?_ fuel st ⟨rfl, rfl, rfl⟩
  · intro _ s s' h hs
    have := innerStep_frame I n fault readEnd s
    rw [hs] at this
    exact ⟨this.1.trans h.1, this.2.1.trans h.2.1, this.2.2.trans h.2.2⟩
  · intro _ s r h hs
    have := innerStep_frame I n fault readEnd s
    rw [hs] at this
    exact ⟨this.1.trans h.1, this.2.1.trans h.2.1, this.2.2.trans h.2.2⟩

/-- **Inner loop**: with the invariant and enough fuel (one unit per byte still to scan)
the loop keeps the invariant and never crashes — in particular it never runs out of fuel. -/
theorem procInner_inv {σ : Type} (I : Iface σ) (n : Nat) (fault : Option (Nat × Int))
    (readEnd fuel : Nat) (st : PState σ) (hinv : IInv n readEnd st)
    (hfuel : readEnd - st.readOff < fuel) :
    IInv n readEnd (procInner I n fault fuel readEnd st).1 ∧
      ∀ c, (procInner I n fault fuel readEnd st).2 ≠ some (.crash c) := by
  refine procInner_induct I n fault readEnd
    (fun k s => IInv n readEnd s ∧ readEnd - s.readOff < k)
    (fun r => IInv n readEnd r.1 ∧ ∀ c, r.2 ≠ some (.crash c))
    ?_ ?_ ?_ fuel st ⟨hinv, hfuel⟩
  · intro s h; omega
  · intro k s s' h hs
    have := innerStep_inv I n fault readEnd s h.1
    rw [hs] at this
    exact ⟨this.1, by have := this.1.re; omega⟩
  · intro k s r h hs
    have := innerStep_inv I n fault readEnd s h.1
    rw [hs] at this
    exact this

/-- The inner-loop invariant is kept whatever the fuel. -/
theorem procInner_keeps_inv {σ : Type} (I : Iface σ) (n : Nat) (fault : Option (Nat × Int))
    (readEnd fuel : Nat) (st : PState σ) (hinv : IInv n readEnd st) :
    IInv n readEnd (procInner I n fault fuel readEnd st).1 := by
  refine procInner_induct I n fault readEnd (fun _ s => IInv n readEnd s)
    (fun r => IInv n readEnd r.1) (fun s h => h) ?_ ?_ fuel st hinv
  · intro k s s' h hs
    have := innerStep_inv I n fault readEnd s h
    rw [hs] at this
    exact this.1
  · intro k s r h hs
    have := innerStep_inv I n fault readEnd s h
    rw [hs] at this
    exact this.1

/-! ### the outer loop -/

theorem readCount_le {σ : Type} (n : Nat) (st : PState σ) :
    readCount n st ≤ n - st.readOff ∧ readCount n st ≤ st.stream.length := by
  unfold readCount
  omega

/-- A read on a non-empty slice consumes a schedule entry or at least one byte. -/
theorem afterRead_measure {σ : Type} (n : Nat) (st : PState σ) (hlt : st.readOff < n)
    (hne : ¬(st.stream.isEmpty ∧ st.sizes.isEmpty)) :
    (afterRead n st).sizes.length + (afterRead n st).stream.length
      < st.sizes.length + st.stream.length := by
  unfold afterRead
  simp only [List.length_drop]
  cases hs : st.sizes with
  | cons k ks => simp only [List.length_cons]; omega
  | nil =>
    have hst : st.stream ≠ [] := by
      intro h
      apply hne
      simp [h, hs]
    have : 0 < st.stream.length := List.length_pos_iff.mpr hst
    have : readCount n st = min (n - st.readOff) (min (n - st.readOff) st.stream.length) := by
      unfold readCount; rw [hs]
    simp only [List.length_nil]
    omega

theorem afterRead_inv {σ : Type} (n : Nat) (st : PState σ) (h : PInv n st) :
    IInv n (st.readOff + readCount n st) (afterRead n st) := by
  obtain ⟨hlen, hpr, hlt⟩ := h
  obtain ⟨h1, h2⟩ := readCount_le n st
  refine ⟨?_, hpr, Nat.le_add_right _ _, by omega⟩
  unfold afterRead
  simp only [List.length_append, List.length_take, List.length_drop]
  omega

/-- The shift never fails when `proc_offset ≤ read_end ≤ N`, and leaves `proc_offset = 0`. -/
theorem shiftBuf_inv {σ : Type} (n readEnd : Nat) (st : PState σ) (hlen : st.buf.length = n)
    (hpr : st.procOff ≤ readEnd) (hro : st.readOff = readEnd) (hen : readEnd ≤ n) :
    ∃ st', shiftBuf readEnd st = .ok st' ∧ st'.buf.length = n ∧ st'.procOff = 0 ∧
      st'.readOff ≤ n ∧ st'.stream = st.stream ∧ st'.sizes = st.sizes ∧
      st'.calls = st.calls ∧ st'.trace = st.trace ∧ st'.user = st.user ∧ st'.header = st.header := by
  unfold shiftBuf
  by_cases hp : st.procOff > 0
  · rw [if_pos hp, slice_eq_some hpr (by omega)]
    simp only []
    rw [if_pos (by omega)]
    refine ⟨_, rfl, ?_, rfl, ?_, rfl, rfl, rfl, rfl, rfl, rfl⟩
    · simp only [List.length_append, List.length_take, List.length_drop]
      omega
    · simp only []; omega
  · rw [if_neg hp]
    exact ⟨st, rfl, hlen, by omega, by omega, rfl, rfl, rfl, rfl, rfl, rfl⟩

theorem resetFull_inv {σ : Type} (I : Iface σ) (n : Nat) (st : PState σ) (hn : 0 < n)
    (hlen : st.buf.length = n) (hp : st.procOff = 0) :
    PInv n (resetFull I n st) := by
  unfold resetFull
  split
  · exact ⟨hlen, by simp only []; omega, hn⟩
  · exact ⟨hlen, by omega, by omega⟩

/-- **T5.3, one iteration of the outer loop**: from a state with the invariant, one iteration
either goes round again in a state with the invariant and a strictly smaller
`sizes.length + stream.length`, or returns something that is not a crash. -/
theorem outerStep_inv {σ : Type} (I : Iface σ) (n : Nat) (fault : Option (Nat × Int))
    (st : PState σ) (h : PInv n st) :
    match outerStep I n fault st with
    | .inl st' => PInv n st' ∧
        st'.sizes.length + st'.stream.length < st.sizes.length + st.stream.length
    | .inr out => ∀ c, out.stop ≠ .crash c := by
  have hlt := h.lt
  unfold outerStep
  rw [if_neg (by omega)]
  cases faultAt fault st.calls with
  | some c => intro c h; cases h
  | none =>
    simp only []
    by_cases hne : st.stream.isEmpty ∧ st.sizes.isEmpty
    · rw [if_pos hne]; intro c h; cases h
    · rw [if_neg hne]
      have hm := afterRead_measure n st hlt hne
      have hi := afterRead_inv n st h
      obtain ⟨hi2, hnc⟩ := procInner_inv I n fault (st.readOff + readCount n st) (readCount n st + 1)
        (afterRead n st) hi (by show st.readOff + readCount n st - st.readOff < _; omega)
      obtain ⟨hf1, hf2, hf3⟩ := procInner_frame I n fault (st.readOff + readCount n st)
        (readCount n st + 1) (afterRead n st)
      revert hi2 hnc hf1 hf2 hf3
      generalize procInner I n fault _ _ _ = r
      obtain ⟨st2, e⟩ := r
      intro hi2 hnc hf1 hf2 hf3
      simp only at hi2 hnc hf1 hf2 hf3
      cases e with
      | some e =>
        intro c hc
        exact hnc c (by simp only [stopOut] at hc; rw [hc])
      | none =>
        simp only []
        obtain ⟨st3, hs, hl3, hp3, hr3, hst3, hsz3, _⟩ := shiftBuf_inv n (st.readOff + readCount n st)
          { st2 with readOff := st.readOff + readCount n st } hi2.len
          (Nat.le_trans hi2.pr hi2.re) rfl hi2.en
        rw [hs]
        simp only []
        refine ⟨resetFull_inv I n st3 (by omega) hl3 hp3, ?_⟩
        have e1 : (resetFull I n st3).sizes = st3.sizes := by unfold resetFull; split <;> rfl
        have e2 : (resetFull I n st3).stream = st3.stream := by unfold resetFull; split <;> rfl
        rw [e1, e2, hst3, hsz3]
        simp only []
        rw [hf2, hf3]
        exact hm

/-- **Outer loop**: with the invariant and enough fuel (one unit per schedule entry and per
stream byte, plus one) `process` does not crash and does not run out of fuel. -/
theorem procLoop_no_crash {σ : Type} (I : Iface σ) (n : Nat) (fault : Option (Nat × Int))
    (fuel : Nat) (st : PState σ) (h : PInv n st)
    (hfuel : st.sizes.length + st.stream.length < fuel) :
    ∀ c, (procLoop I n fault fuel st).stop ≠ .crash c := by
  refine procLoop_induct I n fault
    (fun k s => PInv n s ∧ s.sizes.length + s.stream.length < k)
    (fun out => ∀ c, out.stop ≠ .crash c) ?_ ?_ ?_ fuel st ⟨h, hfuel⟩
  · intro s h; omega
  · intro k s s' h hs
    have := outerStep_inv I n fault s h.1
    rw [hs] at this
    exact ⟨this.1, by omega⟩
  · intro k s out h hs
    have := outerStep_inv I n fault s h.1
    rw [hs] at this
    exact this

theorem initState_inv {σ : Type} (I : Iface σ) (n : Nat) (sc : Script) (s : σ) (hn : 1 ≤ n) :
    PInv n (initState I n sc s) :=
  ⟨List.length_replicate, Nat.le_refl _, hn⟩

/-- States at the top of an outer iteration that are reachable from `a`. -/
inductive OuterReach {σ : Type} (I : Iface σ) (n : Nat) (fault : Option (Nat × Int)) (a : PState σ) :
    PState σ → Prop where
  | refl : OuterReach I n fault a a
  | step {b c : PState σ} : OuterReach I n fault a b → outerStep I n fault b = .inl c →
      OuterReach I n fault a c

theorem outerReach_inv {σ : Type} (I : Iface σ) (n : Nat) (fault : Option (Nat × Int))
    (a b : PState σ) (ha : PInv n a) (h : OuterReach I n fault a b) : PInv n b := by
  induction h with
  | refl => exact ha
  | step _ hs ih =>
    have := outerStep_inv I n fault _ ih
    rw [hs] at this
    exact this.1

end Proc
end Scpi
