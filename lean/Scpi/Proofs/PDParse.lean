/-
Prefix determinacy (C12, the longer-to-shorter direction): `parse`.

1. An accepted unit ends with a terminator byte: the byte just before the returned
   rest is `\n` or `;` (`parse_ok_term`).
2. Hence the consumed part `p` ends with a terminator, every recogniser that ran
   before the final `tag` ran on `u ++ z` for a non-empty suffix `u` of `p`, which
   contains a terminator; the class-bounded recognisers therefore gave the same
   verdict as on `u` alone, and the payload recognisers succeeded inside `u`
   (`argument_back`).  Assembled along `parseTail`, `parseArgs`,
   `parseAfterHeader`, `parse` this gives `parse_back`:
   `parse (p ++ z) = ok z c → parse p = ok [] c`.
-/
import Scpi.Proofs.PDArgs

namespace Scpi.PD

/-! ### Where an accepted unit ends -/

theorem parseTail_ok_term {nh : Node × Option Node} {q : Bool} {args : List Value}
    {i6 r : Bytes} {c : Option CommandCall} (h : parseTail nh q i6 args = .ok r c) :
    ∃ t, (t = 10 ∨ t = 59) ∧ t :: r <:+ i6 := by
  unfold parseTail at h
  obtain ⟨i7, _, e7, h1⟩ := bind_eq_ok h
  obtain ⟨i8, t, e8, h2⟩ := bind_eq_ok h1
  have hr : i8 = r := by injection h2
  subst hr
  have s7 := (good_optP good_whitespace i6).suffix _ _ e7
  rcases orElse_eq_ok e8 with e | e
  · obtain ⟨_, e, _⟩ := map_eq_ok e
    obtain ⟨e9, hv⟩ := satisfy_ok_cons e
    simp only [beq_iff_eq] at hv
    subst hv
    rw [e9] at s7
    exact ⟨10, Or.inl rfl, s7⟩
  · obtain ⟨_, e, _⟩ := map_eq_ok e
    obtain ⟨e9, hv⟩ := satisfy_ok_cons e
    simp only [beq_iff_eq] at hv
    subst hv
    rw [e9] at s7
    exact ⟨59, Or.inr rfl, s7⟩

theorem parseArgs_ok_term {nh : Node × Option Node} {q : Bool} {i5 r : Bytes} {b : Bool}
    {c : Option CommandCall} (h : parseArgs nh q i5 b = .ok r c) :
    ∃ t, (t = 10 ∨ t = 59) ∧ t :: r <:+ i5 := by
  cases b with
  | false =>
    simp only [parseArgs, Bool.false_eq_true, if_false] at h
    exact parseTail_ok_term h
  | true =>
    simp only [parseArgs, if_true] at h
    cases ha : arguments i5 with
    | mk res args =>
      rw [ha] at h
      cases res with
      | ok i6 u =>
        simp only [] at h
        obtain ⟨t, ht, hs⟩ := parseTail_ok_term h
        exact ⟨t, ht, hs.trans ((arguments_good i5).suffix i6 u (by rw [ha]))⟩
      | soft e => simp only [] at h; exact parseTail_ok_term h
      | fatal e => cases h
      | incomplete => cases h
      | crash c => cases h

theorem parseAfterHeader_ok_term {nh : Node × Option Node} {i3 r : Bytes}
    {c : Option CommandCall} (h : parseAfterHeader nh i3 = .ok r c) :
    ∃ t, (t = 10 ∨ t = 59) ∧ t :: r <:+ i3 := by
  unfold parseAfterHeader at h
  have hq := queryMark_suffix i3
  cases hw : whitespace (queryMark i3).1 with
  | ok i5 _ =>
    rw [hw] at h
    obtain ⟨t, ht, hs⟩ := parseArgs_ok_term h
    exact ⟨t, ht, hs.trans (((good_whitespace _).suffix _ _ hw).trans hq)⟩
  | soft e =>
    rw [hw] at h
    obtain ⟨t, ht, hs⟩ := parseArgs_ok_term h
    exact ⟨t, ht, hs.trans hq⟩
  | fatal e => rw [hw] at h; cases h
  | incomplete => rw [hw] at h; cases h
  | crash c => rw [hw] at h; cases h

/-- The byte just before the rest returned by an accepting `parse` is a terminator. -/
theorem parse_ok_term {root header : Node} {x r : Bytes} {c : Option CommandCall}
    (h : parse root header x = .ok r c) : ∃ t, (t = 10 ∨ t = 59) ∧ t :: r <:+ x := by
  unfold parse at h
  obtain ⟨i1, _, e1, h1⟩ := bind_eq_ok h
  obtain ⟨i2, t, e2, h2⟩ := bind_eq_ok h1
  have s1 := (good_optP good_whitespace x).suffix _ _ e1
  cases t with
  | some v =>
    simp only [Option.isSome_some, if_true] at h2
    have hr : i2 = r := by injection h2
    subst hr
    unfold optP at e2
    cases ht : tag 10 i1 with
    | ok r1 v1 =>
      rw [ht] at e2
      have hr1 : r1 = i2 := by injection e2
      subst hr1
      obtain ⟨e9, hv⟩ := satisfy_ok_cons ht
      simp only [beq_iff_eq] at hv
      subst hv
      rw [e9] at s1
      exact ⟨10, Or.inl rfl, s1⟩
    | soft e => rw [ht] at e2; cases e2
    | fatal e => rw [ht] at e2; cases e2
    | incomplete => rw [ht] at e2; cases e2
    | crash c => rw [ht] at e2; cases e2
  | none =>
    simp only [Option.isSome_none, Bool.false_eq_true, if_false] at h2
    obtain ⟨i3, nh, e3, h3⟩ := bind_eq_ok h2
    have s2 := (good_optP (good_tag 10) i1).suffix _ _ e2
    have s3 := (good_commandHeader root header i2).suffix _ _ e3
    obtain ⟨t, ht, hs⟩ := parseAfterHeader_ok_term h3
    exact ⟨t, ht, hs.trans (s3.trans (s2.trans s1))⟩

/-- The part consumed by an accepting `parse` ends with a terminator. -/
theorem parse_ok_endsT {root header : Node} {p z : Bytes} {c : Option CommandCall}
    (h : parse root header (p ++ z) = .ok z c) : EndsT p := by
  obtain ⟨t, ht, hs⟩ := parse_ok_term h
  exact endsT_of_suffix ht hs

/-! ### Backward assembly -/

theorem append_eq_self_left {r z : Bytes} (h : z = r ++ z) : r = [] := by
  have hl := congrArg List.length h
  simp only [List.length_append] at hl
  exact List.eq_nil_of_length_eq_zero (by omega)

theorem parseTail_back (nh : Node × Option Node) (q : Bool) (args : List Value) {u z R : Bytes}
    {c : Option CommandCall} (hT : HasTerm u) (h : parseTail nh q (u ++ z) args = .ok R c) :
    ∃ r, R = r ++ z ∧ parseTail nh q u args = .ok r c := by
  rw [parseTail_ext nh q args hT z] at h
  obtain ⟨r, ha, hR⟩ := extend_eq_ok h
  exact ⟨r, hR, ha⟩

theorem parseTail_back_nil (nh : Node × Option Node) (q : Bool) (args : List Value) {u z : Bytes}
    {c : Option CommandCall} (hT : HasTerm u) (h : parseTail nh q (u ++ z) args = .ok z c) :
    parseTail nh q u args = .ok [] c := by
  obtain ⟨r, hr, ha⟩ := parseTail_back nh q args hT h
  rw [append_eq_self_left hr] at ha
  exact ha

theorem parseArgs_back (nh : Node × Option Node) (q : Bool) (b : Bool) {u z : Bytes}
    {c : Option CommandCall} (hE : EndsT u) (h : parseArgs nh q (u ++ z) b = .ok z c) :
    parseArgs nh q u b = .ok [] c := by
  have hT := hE.hasTerm
  cases b with
  | false =>
    simp only [parseArgs, Bool.false_eq_true, if_false] at h ⊢
    exact parseTail_back_nil nh q [] hT h
  | true =>
    simp only [parseArgs, if_true] at h ⊢
    cases ha : arguments (u ++ z) with
    | mk res args =>
      rw [ha] at h
      cases res with
      | ok i6' w =>
        simp only [] at h
        have hst := parseTail_strict (input := i6') nh q args (List.suffix_refl i6')
        have hlt := hst.lt _ _ h
        have hzs := hst.suffix _ _ h
        have h6s : i6' <:+ u ++ z := (arguments_good (u ++ z)).suffix i6' w (by rw [ha])
        obtain ⟨r6, rfl, hr6s⟩ := suffix_split hzs h6s
        have hr6 : r6 ≠ [] := by
          intro e; subst e
          simp only [List.nil_append] at hlt
          omega
        rw [arguments_back hE hr6 ha]
        simp only []
        exact parseTail_back_nil nh q args (hE.of_suffix hr6s hr6).hasTerm h
      | soft e =>
        simp only [] at h
        cases u with
        | nil => exact absurd rfl hE.ne_nil
        | cons b0 u' =>
          have hb := parseTail_ok_head h
          obtain ⟨e1, h1⟩ := arguments_head_soft (u' ++ z) hb
          obtain ⟨e2, h2⟩ := arguments_head_soft u' hb
          rw [List.cons_append, h1] at ha
          obtain ⟨_, ha2⟩ := Prod.mk.inj ha
          subst ha2
          rw [h2]
          simp only []
          exact parseTail_back_nil nh q [] hT h
      | fatal e => cases h
      | incomplete => cases h
      | crash c => cases h

theorem parseAfterHeader_back (nh : Node × Option Node) {i3 z : Bytes} {c : Option CommandCall}
    (hE : EndsT i3) (h : parseAfterHeader nh (i3 ++ z) = .ok z c) :
    parseAfterHeader nh i3 = .ok [] c := by
  have hT := hE.hasTerm
  obtain ⟨eq, hTq⟩ := queryMark_ext hT z
  have hqs := queryMark_suffix i3
  have hw := cb_whitespace (queryMark i3).1 z hTq
  unfold parseAfterHeader at h ⊢
  rw [eq] at h
  simp only [] at h
  rw [hw.ext] at h
  cases hws : whitespace (queryMark i3).1 with
  | ok i5 _ =>
    rw [hws] at h
    simp only [extend_ok] at h ⊢
    have hE5 : EndsT i5 :=
      hE.of_suffix (((good_whitespace _).suffix _ _ hws).trans hqs) (hw.keep _ _ hws).ne_nil
    exact parseArgs_back nh _ true hE5 h
  | soft e =>
    rw [hws] at h
    simp only [extend_soft] at h ⊢
    exact parseArgs_back nh _ false (hE.of_suffix hqs hTq.ne_nil) h
  | fatal e => rw [hws] at h; cases h
  | incomplete => rw [hws] at h; cases h
  | crash c => rw [hws] at h; cases h

/-- **Backward main lemma.**  If `parse` accepts on `p ++ z` and returns exactly `z`,
it accepts on `p` alone with the same call and nothing left. -/
theorem parse_back (root header : Node) {p z : Bytes} {c : Option CommandCall}
    (h : parse root header (p ++ z) = .ok z c) : parse root header p = .ok [] c := by
  have hE := parse_ok_endsT h
  have hT := hE.hasTerm
  have hw := cb_optP cb_whitespace p z hT
  unfold parse at h ⊢
  rw [hw.ext] at h
  obtain ⟨i1, w1, h1, g1⟩ := back_bind h
  clear h
  rw [h1]
  simp only [PResult.bind]
  have hT1 := hw.keep _ _ h1
  have s1 := (good_optP good_whitespace p).suffix _ _ h1
  have e2 : optP (tag 10) (i1 ++ z) = (optP (tag 10) i1).extend z :=
    optP_ext (satisfy_ext z hT1.ne_nil)
  rw [e2] at g1
  obtain ⟨i2, t, h2, g2⟩ := back_bind g1
  clear g1
  rw [h2]
  simp only []
  cases t with
  | some v =>
    simp only [Option.isSome_some, if_true] at g2 ⊢
    injection g2 with g3 g4
    rw [append_eq_self_left g3.symm, g4]
  | none =>
    have e3 := optP_none h2
    subst e3
    simp only [Option.isSome_none, Bool.false_eq_true, if_false] at g2 ⊢
    have hc := cb_commandHeader root header i2 z hT1
    rw [hc.ext] at g2
    obtain ⟨i3, nh, h3, g3⟩ := back_bind g2
    rw [h3]
    simp only []
    have s3 := (good_commandHeader root header i2).suffix _ _ h3
    exact parseAfterHeader_back nh (hE.of_suffix (s3.trans s1) (hc.keep _ _ h3).ne_nil) g3

end Scpi.PD
