/-
Helper lemmas for the end-to-end statement of C01: what `run` does on a message that
consists of one parameterless unit with a compound header (any rendering), in terms
of `resolve` and `execute`; and the events of that run.
-/
import Scpi.Proofs.E2EQueue
import Scpi.Props.C11
import Scpi.Props.C02
import Scpi.Proofs.RespExec

namespace Scpi
namespace E2E

/-! ### The only newline of a header-only message is its terminator -/

theorem afterNewline_first : ∀ (pre r : Bytes), 10 ∉ pre → afterNewline (pre ++ 10 :: r) = some r
  | [], r, _ => by simp [afterNewline]
  | b :: pre, r, h => by
    have hb : b ≠ 10 := fun e => h (e ▸ List.mem_cons_self)
    have ih := afterNewline_first pre r fun hm => h (List.mem_cons_of_mem _ hm)
    simp only [List.cons_append, afterNewline, beq_iff_eq, hb, if_false]
    exact ih

theorem allWs_no_nl {w : Bytes} (h : allWs w = true) : 10 ∉ w := by
  intro hm
  have := List.all_eq_true.1 h 10 hm
  revert this; decide

theorem mnemonicText_no_nl {m : Bytes} (h : isMnemonicText m = true) : 10 ∉ m := by
  cases m with
  | nil => cases h
  | cons b t =>
    simp only [isMnemonicText, Bool.and_eq_true] at h
    intro hm
    cases hm with
    | head => have := h.1; revert this; decide
    | tail _ hm => have := List.all_eq_true.1 h.2 10 hm; revert this; decide

theorem renderPath_no_nl : ∀ (ms : List Bytes), ms.all isMnemonicText = true → 10 ∉ renderPath ms
  | [], _ => by simp [renderPath]
  | [m], h => by
    simp only [List.all_cons, List.all_nil, Bool.and_true] at h
    simpa [renderPath] using mnemonicText_no_nl h
  | m :: m' :: ms, h => by
    simp only [List.all_cons, Bool.and_eq_true] at h
    have ih := renderPath_no_nl (m' :: ms) (by simp only [List.all_cons, Bool.and_eq_true]; exact h.2)
    simp only [renderPath, List.mem_append, List.mem_cons, not_or]
    refine ⟨mnemonicText_no_nl h.1, by decide, ?_⟩
    simpa [renderPath] using ih

/-- The unit with compound header `[:]ns[?]` and no parameters. -/
def hdrUnit (a : Bool) (ns : List Bytes) (q : Bool) : MsgUnit :=
  { hdr := { path := .compound a ns, query := q }, lits := [] }

theorem hdrUnit_wf_iff (a : Bool) (ns : List Bytes) (q : Bool) :
    (hdrUnit a ns q).wf = true ↔ ns ≠ [] ∧ ns.all isMnemonicText = true := by
  simp [hdrUnit, MsgUnit.wf, HdrPath.wf, maxArgs]

/-- A rendering of a header-only unit terminated by newline: its only newline is the
last byte. -/
theorem render_hdrUnit_nl (a : Bool) (ns : List Bytes) (q : Bool) (ℓ : Lex)
    (hu : (hdrUnit a ns q).wf = true) (hℓ : ℓ.wf = true) :
    ∃ pre, render (hdrUnit a ns q) ℓ .nl = pre ++ [10] ∧ 10 ∉ pre := by
  obtain ⟨_, hns⟩ := (hdrUnit_wf_iff a ns q).1 hu
  simp only [Lex.wf, Bool.and_eq_true] at hℓ
  obtain ⟨⟨⟨h1, h2⟩, _⟩, h4⟩ := hℓ
  refine ⟨ℓ.lead ++ ((hdrUnit a ns q).hdr.render ++ (ℓ.sep ++ ℓ.trail)), ?_, ?_⟩
  · simp [render, hdrUnit, renderArgs, Term.byte]
  · simp only [List.mem_append, not_or, Hdr.render, hdrUnit, HdrPath.render]
    refine ⟨allWs_no_nl h1, ⟨⟨?_, renderPath_no_nl ns hns⟩, ?_⟩, allWs_no_nl h2, allWs_no_nl h4⟩
    · cases a <;> simp
    · cases q <;> simp

/-! ### The run on a header-only message -/

section
variable {σ : Type} (I : Iface σ)

/-- The call the parser delivers for a header-only unit that resolves to `nh`. -/
def hdrCall (nh : Node × Option Node) (q : Bool) : CommandCall :=
  { node := nh.1, header := nh.2, query := q, args := [], terminated := true }

theorem parse_hdrUnit (root cur : Node) (a : Bool) (ns : List Bytes) (q : Bool) (ℓ : Lex)
    (hu : (hdrUnit a ns q).wf = true) (hℓ : ℓ.wf = true) :
    parse root cur (render (hdrUnit a ns q) ℓ .nl) =
      match resolve root cur (.compound a ns) with
      | some nh => .ok [] (some (hdrCall nh q))
      | none => .fatal (.std .UndefinedHeader) := by
  have := C11.parse_render root cur (hdrUnit a ns q) ℓ .nl [] hu hℓ (by simp [Lex.fits, hdrUnit])
  rw [List.append_nil] at this
  rw [this]
  show (match resolve root cur (.compound a ns) with
    | some nh => _
    | none => _) = _
  cases resolve root cur (.compound a ns) with
  | none => rfl
  | some nh => rfl

/-- **`run` on one header-only message**, any rendering: the header is resolved by
`resolve` from the root; an unresolvable header is reported once and nothing else
happens; a resolved one is executed once, its error (if any) reported once, and the run
ends with the whole input consumed and the path back at the root. -/
theorem run_hdrUnit (a : Bool) (ns : List Bytes) (q : Bool) (ℓ : Lex) (w : Writer) (s : σ)
    (hu : (hdrUnit a ns q).wf = true) (hℓ : ℓ.wf = true) :
    run I (render (hdrUnit a ns q) ℓ .nl) w s =
      match resolve I.root I.root (.compound a ns) with
      | some nh =>
        { rest := [], header := I.root, w := (execute I (hdrCall nh q) w s).2.1,
          s := reportExec I (execute I (hdrCall nh q) w s).1 (execute I (hdrCall nh q) w s).2.2 }
      | none => { rest := [], header := I.root, w := w, s := I.onError s (.std .UndefinedHeader) } := by
  obtain ⟨pre, hx, hpre⟩ := render_hdrUnit_nl a ns q ℓ hu hℓ
  have hne : render (hdrUnit a ns q) ℓ .nl ≠ [] := by rw [hx]; simp
  have hp := parse_hdrUnit I.root I.root a ns q ℓ hu hℓ
  unfold run
  cases hr : resolve I.root I.root (.compound a ns) with
  | none =>
    rw [hr] at hp
    simp only [] at hp ⊢
    rw [runFrom_step I _ _ w s hne, unitStep_fatal I ⟨I.root, render (hdrUnit a ns q) ℓ .nl, w, s⟩ _ hp]
    simp only []
    rw [hx, afterNewline_first pre [] hpre]
    simp only []
    rw [runFrom_nil]
  | some nh =>
    rw [hr] at hp
    simp only [] at hp ⊢
    rw [C02.runFrom_call I _ _ [] (hdrCall nh q) w s hne hp, runFrom_nil]
    rfl

/-- The observable events of that run: the handler invocation (if one is made), then
the error report (if there is one). -/
theorem events_hdrUnit (a : Bool) (ns : List Bytes) (q : Bool) (ℓ : Lex) (w : Writer) (s : σ)
    (hu : (hdrUnit a ns q).wf = true) (hℓ : ℓ.wf = true) :
    eventsOf I I.root (render (hdrUnit a ns q) ℓ .nl) w s =
      match resolve I.root I.root (.compound a ns) with
      | some nh =>
        callLog fcEv (invocation I (hdrCall nh q)) ++
          (match (execute I (hdrCall nh q) w s).2.2 with
           | .err e => [Ev.error e]
           | _ => [])
      | none => [Ev.error (.std .UndefinedHeader)] := by
  obtain ⟨pre, hx, hpre⟩ := render_hdrUnit_nl a ns q ℓ hu hℓ
  have hne : render (hdrUnit a ns q) ℓ .nl ≠ [] := by rw [hx]; simp
  have hp := parse_hdrUnit I.root I.root a ns q ℓ hu hℓ
  rw [eventsOf_step I _ _ w s hne]
  unfold unitEvents unitLog
  cases hr : resolve I.root I.root (.compound a ns) with
  | none =>
    rw [hr] at hp
    simp only [] at hp ⊢
    rw [hp, unitStep_fatal I ⟨I.root, render (hdrUnit a ns q) ℓ .nl, w, s⟩ _ hp]
    simp only []
    rw [hx, afterNewline_first pre [] hpre]
    simp only [eventsOf_nil, List.append_nil, feEv]
  | some nh =>
    rw [hr] at hp
    simp only [] at hp ⊢
    rw [hp, unitStep_call I ⟨I.root, render (hdrUnit a ns q) ℓ .nl, w, s⟩ [] _ hp]
    simp only [eventsOf_nil, List.append_nil, feEv]
    rfl

end

/-! ### `execute` when the slot is known -/

/-- What `execute` does once the slot has been found to hold command `id` (for a unit
without parameters): the generated `execute_command`, then — for a query that
succeeded — the newline and the flush. -/
def execId {σ : Type} (I : Iface σ) (id : Nat) (q : Bool) (w : Writer) (s : σ) : σ × Writer × ExecRes :=
  match executeCommand I id [] w s with
  | (s', w', .ok) =>
    if q then
      match w'.call (.direct [10]) with
      | (w'', .ok ()) => (s', w''.flush, .ok)
      | (w'', .error e) => (s', w'', .err e)
    else (s', w', .ok)
  | r => r

theorem execute_hdrCall_some {σ : Type} (I : Iface σ) (nh : Node × Option Node) (q : Bool) (id : Nat)
    (h : slot q nh.1 = some id) (w : Writer) (s : σ) :
    execute I (hdrCall nh q) w s = execId I id q w s := by
  cases q with
  | true =>
    have h' : nh.1.query = some id := h
    simp only [execute, execId, hdrCall, h', if_true]
    rcases executeCommand I id [] w s with ⟨s', w', r⟩
    cases r <;> rfl
  | false =>
    have h' : nh.1.command = some id := h
    simp only [execute, execId, hdrCall, h', Bool.false_eq_true, if_false]
    rcases executeCommand I id [] w s with ⟨s', w', r⟩
    cases r <;> rfl

theorem execute_hdrCall_none {σ : Type} (I : Iface σ) (nh : Node × Option Node) (q : Bool)
    (h : slot q nh.1 = none) (w : Writer) (s : σ) :
    execute I (hdrCall nh q) w s = (s, w, .err (.std .UndefinedHeader)) := by
  exact execute_undefined I (hdrCall nh q) w s h

theorem unitSlot_hdrCall (nh : Node × Option Node) (q : Bool) :
    unitSlot (hdrCall nh q) = slot q nh.1 := rfl

/-- The node component of `resolve`, from the root, absolute or not, is `childWalk`. -/
theorem resolve_root_slot (t : Node) (a : Bool) (ns : List Bytes) (q : Bool) (hne : ns ≠ []) :
    (resolve t t (.compound a ns)).bind (fun nh => slot q nh.1) = (childWalk t ns).bind (slot q) := by
  have := C11.resolve_node t t a ns hne
  have ht : (if a then t else t) = t := by cases a <;> rfl
  rw [ht] at this
  rw [← this]
  cases resolve t t (.compound a ns) <;> rfl

end E2E
end Scpi
