/-
Lemmas about `specExec`, `specUnit`, `resolve` used by the corollaries of
`Scpi.Msg.run_render` (Scpi/Props/RunRenderCor.lean).
-/
import Scpi.Proofs.MsgRun
import Scpi.Proofs.RunStepsLog
import Scpi.Props.C11

namespace Scpi
namespace Msg

/-! ### Unfolding `specExec` -/

theorem specExec_nil {σ : Type} (I : Iface σ) (cur : Node) (w : Writer) (s : σ) :
    specExec I cur [] w s = (w, s) := rfl

theorem specExec_cons_resolved {σ : Type} (I : Iface σ) (cur : Node) (u : MsgUnit) (us : List MsgUnit)
    (w : Writer) (s : σ) (node : Node) (parent : Option Node)
    (hr : resolve I.root cur u.hdr.path = some (node, parent)) :
    specExec I cur (u :: us) w s =
      specExec I (parent.getD cur) us (onNode I node u (w, s)).1 (onNode I node u (w, s)).2 := by
  simp only [specExec, hr, onNode]

theorem specExec_cons_undefined {σ : Type} (I : Iface σ) (cur : Node) (u : MsgUnit) (us : List MsgUnit)
    (w : Writer) (s : σ) (hr : resolve I.root cur u.hdr.path = none) :
    specExec I cur (u :: us) w s = (w, I.onError s (.std .UndefinedHeader)) := by
  simp only [specExec, hr]

theorem dropSafe_cons_resolved (root cur : Node) (u : MsgUnit) (us : List MsgUnit) (node : Node)
    (parent : Option Node) (hr : resolve root cur u.hdr.path = some (node, parent)) :
    dropSafe root cur (u :: us) = dropSafe root (parent.getD cur) us := by
  simp only [dropSafe, hr]

theorem dropSafe_cons_undefined (root cur : Node) (u : MsgUnit) (us : List MsgUnit)
    (hr : resolve root cur u.hdr.path = none) :
    dropSafe root cur (u :: us) = (u :: us).all unitNlFree := by
  simp only [dropSafe, hr]

/-- When every header resolves, `specExec` executes every unit: it is the fold of
`onNode` over the units paired with the nodes they address. -/
theorem specExec_eq_foldl {σ : Type} (I : Iface σ) : ∀ (us : List MsgUnit) (cur : Node) (w : Writer)
    (s : σ), allResolve I.root cur us = true →
    (nodesOf I.root cur us).length = us.length ∧
    specExec I cur us w s =
      ((nodesOf I.root cur us).zip us).foldl (fun ws p => onNode I p.1 p.2 ws) (w, s)
  | [], _, _, _, _ => ⟨rfl, rfl⟩
  | u :: us, cur, w, s, h => by
    simp only [allResolve] at h
    cases hr : resolve I.root cur u.hdr.path with
    | none => rw [hr] at h; cases h
    | some np =>
      obtain ⟨node, parent⟩ := np
      rw [hr] at h
      obtain ⟨h1, h2⟩ := specExec_eq_foldl I us (parent.getD cur)
        (onNode I node u (w, s)).1 (onNode I node u (w, s)).2 h
      refine ⟨?_, ?_⟩
      · simp only [nodesOf, hr, List.length_cons, h1]
      · rw [specExec_cons_resolved I cur u us w s node parent hr, h2]
        simp only [nodesOf, hr, List.zip_cons_cons, List.foldl_cons]

/-! ### `resolve` and `childWalk` -/

theorem resolveFrom_of_childWalk_some {ms : List Bytes} (hne : ms ≠ []) {p node : Node}
    (h : childWalk p ms = some node) : ∃ parent, resolveFrom p ms = some (node, parent) := by
  have := C11.resolveFrom_node ms p hne
  rw [h] at this
  cases hr : resolveFrom p ms with
  | none => rw [hr] at this; cases this
  | some np =>
    obtain ⟨n, q⟩ := np
    rw [hr] at this
    simp only [Option.map_some, Option.some.injEq] at this
    exact ⟨q, by rw [this]⟩

theorem resolveFrom_of_childWalk_none {ms : List Bytes} (hne : ms ≠ []) {p : Node}
    (h : childWalk p ms = none) : resolveFrom p ms = none := by
  have := C11.resolveFrom_node ms p hne
  rw [h] at this
  cases hr : resolveFrom p ms with
  | none => rfl
  | some np => rw [hr] at this; cases this

/-- A compound header has at least one mnemonic. -/
theorem compound_ne_nil {a : Bool} {ms : List Bytes} (h : (HdrPath.compound a ms).wf = true) :
    ms ≠ [] := by
  intro e
  subst e
  simp [HdrPath.wf] at h

/-! ### `specUnit`, case by case -/

theorem specUnit_no_slot {σ : Type} (I : Iface σ) (node : Node) (q : Bool) (args : List Value)
    (w : Writer) (s : σ) (h : slotCmd I node q = none) :
    specUnit I node q args w s = (w, I.onError s (.std .UndefinedHeader)) := by
  simp only [specUnit, h]

theorem specUnit_arity {σ : Type} (I : Iface σ) (node : Node) (q : Bool) (args : List Value)
    (w : Writer) (s : σ) (c : Cmd σ) (h : slotCmd I node q = some c)
    (hl : args.length ≠ c.argTys.length) :
    specUnit I node q args w s = (w, I.onError s (.std .UnexpectedNumberOfParameters)) := by
  simp only [specUnit, h, ne_eq, hl, not_false_eq_true, if_true]

theorem specUnit_convert_error {σ : Type} (I : Iface σ) (node : Node) (q : Bool) (args : List Value)
    (w : Writer) (s : σ) (c : Cmd σ) (h : slotCmd I node q = some c)
    (hl : args.length = c.argTys.length) (e : Err) (hc : convertAll c.argTys args = .error e) :
    specUnit I node q args w s = (w, I.onError s e) := by
  simp only [specUnit, h, ne_eq, hl, not_true_eq_false, if_false, hc]

/-- The handler is called, with the converted parameters. -/
theorem specUnit_called {σ : Type} (I : Iface σ) (node : Node) (q : Bool) (args : List Value)
    (w : Writer) (s : σ) (c : Cmd σ) (h : slotCmd I node q = some c)
    (hl : args.length = c.argTys.length) (tvs : List TVal) (hc : convertAll c.argTys args = .ok tvs) :
    specUnit I node q args w s =
      match c.handler s tvs with
      | (s', .error e) => (w, I.onError s' e)
      | (s', .ok resp) =>
        match reply q w resp with
        | (w', .error e) => (w', I.onError s' e)
        | (w', .ok ()) => (w', s') := by
  simp only [specUnit, h, ne_eq, hl, not_true_eq_false, if_false, hc]
  rcases c.handler s tvs with ⟨s', r⟩
  cases r with
  | error e => rfl
  | ok resp =>
    simp only []
    rcases reply q w resp with ⟨w', r'⟩
    cases r' with
    | error e => rfl
    | ok u => cases u; rfl

/-! ### The tracing wrapper -/

theorem slotCmd_traced_none {σ : Type} (I : Iface σ) (node : Node) (q : Bool)
    (h : slotCmd I node q = none) : slotCmd I.traced node q = none := by
  unfold slotCmd at h ⊢
  cases hs : (if q then node.query else node.command) with
  | none => rfl
  | some id =>
    rw [hs] at h
    simp only [Option.bind_some] at h ⊢
    simp only [Iface.traced, Iface.instrument, List.getElem?_mapIdx, h, Option.map_none]

theorem slotCmd_traced_some {σ : Type} (I : Iface σ) (node : Node) (q : Bool) (c : Cmd σ)
    (h : slotCmd I node q = some c) :
    ∃ id, (if q then node.query else node.command) = some id ∧ I.cmds[id]? = some c ∧
      slotCmd I.traced node q = some (c.instrument fun tvs => [Ev.call id tvs]) := by
  unfold slotCmd at h ⊢
  cases hs : (if q then node.query else node.command) with
  | none => rw [hs] at h; cases h
  | some id =>
    rw [hs] at h
    simp only [Option.bind_some] at h ⊢
    refine ⟨id, rfl, h, ?_⟩
    simp only [Iface.traced, Iface.instrument, List.getElem?_mapIdx, h, Option.map_some]

/-! ### `convertAll` is positional -/

theorem convertAll_ok_iff (tys : List Ty) (args : List Value) (tvs : List TVal)
    (hl : args.length = tys.length) :
    convertAll tys args = .ok tvs ↔
      ∃ (_ : tvs.length = tys.length), ∀ (i : Nat) (hi : i < tys.length),
        convert tys[i] (args[i]'(by omega)) = .ok (tvs[i]'(by omega)) := by
  rw [← convertArgs_ok_iff tys args tvs (by omega), convertArgs_eq_convertAll tys args hl]
  cases convertAll tys args with
  | error e => simp
  | ok t => simp

theorem convertAll_error_iff (tys : List Ty) (args : List Value) (e : Err)
    (hl : args.length = tys.length) :
    convertAll tys args = .error e ↔
      ∃ (i : Nat) (hi : i < tys.length), convert tys[i] (args[i]'(by omega)) = .error e ∧
        ∀ (j : Nat) (hj : j < i), ∃ tv, convert (tys[j]'(by omega)) (args[j]'(by omega)) = .ok tv := by
  rw [← convertArgs_err_iff tys args e (by omega), convertArgs_eq_convertAll tys args hl]
  cases convertAll tys args with
  | error e' => simp
  | ok t => simp

/-! ### Letter case of the mnemonics -/

/-- Two unit lists that differ only in the letter case of the header mnemonics. -/
def SameUpToCase : List MsgUnit → List MsgUnit → Prop
  | [], [] => True
  | u :: us, v :: vs =>
    C11.PathSameIgnoringCase u.hdr.path v.hdr.path ∧ u.hdr.query = v.hdr.query ∧ u.lits = v.lits ∧
      SameUpToCase us vs
  | _, _ => False

/-- The unit with `f` applied to every byte of every mnemonic of its header. -/
def mapUnitCase (f : Nat → Nat) (u : MsgUnit) : MsgUnit :=
  { u with hdr := { u.hdr with path := C11.mapPath f u.hdr.path } }

/-- The rendering with the same white space and `f` applied to the mnemonics. -/
def mapMsgCase (f : Nat → Nat) (m : List (MsgUnit × Lex)) : List (MsgUnit × Lex) :=
  m.map fun p => (mapUnitCase f p.1, p.2)

theorem nlFree_sameUpToCase : ∀ (us vs : List MsgUnit), SameUpToCase us vs →
    us.all unitNlFree = vs.all unitNlFree
  | [], [], _ => rfl
  | [], _ :: _, h => absurd h id
  | _ :: _, [], h => absurd h id
  | u :: us, v :: vs, h => by
    obtain ⟨_, _, hl, ht⟩ := h
    simp only [List.all_cons, unitNlFree, hl, nlFree_sameUpToCase us vs ht]

theorem specExec_sameUpToCase {σ : Type} (I : Iface σ) : ∀ (us vs : List MsgUnit),
    SameUpToCase us vs → ∀ (cur : Node) (w : Writer) (s : σ),
    specExec I cur us w s = specExec I cur vs w s
  | [], [], _, _, _, _ => rfl
  | [], _ :: _, h, _, _, _ => absurd h id
  | _ :: _, [], h, _, _, _ => absurd h id
  | u :: us, v :: vs, h, cur, w, s => by
    obtain ⟨hp, hq, hl, ht⟩ := h
    simp only [specExec, C11.resolve_case_insensitive I.root cur hp, hq, hl]
    cases resolve I.root cur v.hdr.path with
    | none => rfl
    | some np =>
      obtain ⟨node, parent⟩ := np
      simp only []
      exact specExec_sameUpToCase I us vs ht _ _ _

theorem dropSafe_sameUpToCase (root : Node) : ∀ (us vs : List MsgUnit),
    SameUpToCase us vs → ∀ cur : Node, dropSafe root cur us = dropSafe root cur vs
  | [], [], _, _ => rfl
  | [], _ :: _, h, _ => absurd h id
  | _ :: _, [], h, _ => absurd h id
  | u :: us, v :: vs, h, cur => by
    have hall := nlFree_sameUpToCase (u :: us) (v :: vs) h
    obtain ⟨hp, hq, hl, ht⟩ := h
    simp only [dropSafe, C11.resolve_case_insensitive root cur hp]
    cases resolve root cur v.hdr.path with
    | none => exact hall
    | some np =>
      obtain ⟨node, parent⟩ := np
      exact dropSafe_sameUpToCase root us vs ht _

theorem sameUpToCase_map {f : Nat → Nat}
    (hf : ∀ p : HdrPath, C11.PathSameIgnoringCase p (C11.mapPath f p)) :
    ∀ m : List (MsgUnit × Lex), SameUpToCase (units m) (units (mapMsgCase f m))
  | [] => trivial
  | _ :: m => ⟨hf _, rfl, rfl, sameUpToCase_map hf m⟩

theorem wfMsg_map {f : Nat → Nat}
    (hf : ∀ p : HdrPath, C11.PathSameIgnoringCase p (C11.mapPath f p)) :
    ∀ m : List (MsgUnit × Lex), wfMsg m = true → wfMsg (mapMsgCase f m) = true
  | [], _ => rfl
  | p :: m, h => by
    simp only [wfMsg, List.all_cons, Bool.and_eq_true] at h
    have ih := wfMsg_map hf m (by simpa only [wfMsg] using h.2)
    simp only [wfMsg] at ih
    simp only [wfMsg, mapMsgCase, List.map_cons, List.all_cons, Bool.and_eq_true]
    refine ⟨⟨⟨?_, h.1.1.2⟩, ?_⟩, ih⟩
    · have := h.1.1.1
      simp only [MsgUnit.wf, mapUnitCase, ← C11.path_wf_case_insensitive (hf p.1.hdr.path)] at this ⊢
      exact this
    · exact h.1.2

end Msg
end Scpi
