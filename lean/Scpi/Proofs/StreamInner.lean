/-
The inner loop of `process` (one iteration per newline among the bytes just
read) is the stream machine without the overflow rule fed with those bytes.
-/
import Scpi.Proofs.StreamList

namespace Scpi

theorem filter_nonRead_wf (b : Bytes) :
    List.filter PEv.nonRead [PEv.w b, PEv.f] = [PEv.w b, PEv.f] := rfl

theorem faultAt_none (k : Nat) : faultAt none k = none := rfl

theorem procInner_refines {σ : Type} (I : Iface σ) (n : Nat) : ∀ (fuel : Nat)
    (win pre pend post : Bytes) (st : PState σ) (readEnd : Nat),
    st.buf = pre ++ pend ++ win ++ post → st.procOff = pre.length →
    st.readOff = pre.length + pend.length → readEnd = st.readOff + win.length →
    win.length < fuel →
    ∃ st' pre' pend', procInner I n none fuel readEnd st = (st', none) ∧ st'.buf = st.buf ∧
      st.buf = pre' ++ pend' ++ post ∧ st'.procOff = pre'.length ∧
      st'.stream = st.stream ∧ st'.sizes = st.sizes ∧
      win.foldl (streamFeed I n) ⟨pend, st.header, st.user, st.trace.filter PEv.nonRead⟩
        = ⟨pend', st'.header, st'.user, st'.trace.filter PEv.nonRead⟩ := by
  intro fuel
  induction fuel with
  | zero => intro win _ _ _ _ _ _ _ _ _ h; omega
  | succ fuel ih =>
    intro win pre pend post st readEnd hbuf hproc hread hend hfuel
    unfold procInner
    have hs1 : slice st.buf st.readOff readEnd = some win := by
      rw [hbuf]
      exact slice_mid (pre ++ pend) win post st.readOff readEnd (by simp [hread]) (by simp [hend, hread])
    rw [hs1]
    simp only []
    cases hnl : newlinePos win with
    | none =>
      simp only []
      refine ⟨st, pre, pend ++ win, rfl, rfl, by simp [hbuf], hproc, rfl, rfl, ?_⟩
      rw [foldl_feed_plain I n win _ (newlinePos_none win hnl)]
    | some p =>
      obtain ⟨a, c, hw, hp, ha⟩ := newlinePos_some win p hnl
      simp only []
      have hs2 : slice st.buf st.procOff (st.readOff + p + 1) = some (pend ++ a ++ [10]) := by
        rw [hbuf, hw]
        have : pre ++ pend ++ (a ++ 10 :: c) ++ post = pre ++ (pend ++ a ++ [10]) ++ (c ++ post) := by
          simp
        rw [this]
        exact slice_mid pre _ _ _ _ hproc (by simp [hread, hp]; omega)
      rw [hs2]
      simp only []
      obtain ⟨hcr, hsuf⟩ := runFrom_good I st.header (pend ++ a ++ [10]) { cap := some n } st.user
      obtain ⟨used, hused⟩ := hsuf
      rw [hcr]
      simp only [faultAt_none]
      generalize ho : runFrom I st.header (pend ++ a ++ [10]) { cap := some n } st.user = o at hcr hused ⊢
      have hspec : win.foldl (streamFeed I n) ⟨pend, st.header, st.user, st.trace.filter PEv.nonRead⟩ =
          c.foldl (streamFeed I n) ⟨o.rest, o.header, o.s, st.trace.filter PEv.nonRead ++
            (if o.w.buf = [] then [] else [PEv.w o.w.buf, PEv.f])⟩ := by
        rw [hw, List.foldl_append, List.foldl_cons, foldl_feed_plain I n a _ ha]
        have ho' : runFrom I st.header (pend ++ (a ++ [10])) { cap := some n } st.user = o := by
          rw [← List.append_assoc]; exact ho
        simp [streamFeed, streamNewline, ho']
      rw [hspec]
      have hlen : used.length + o.rest.length = pend.length + a.length + 1 := by
        have := congrArg List.length hused
        simp at this; omega
      have hih : ∀ st2 : PState σ, st2.buf = st.buf → st2.procOff = pre.length + used.length →
          st2.readOff = st.readOff + p + 1 →
          ∃ st' pre' pend', procInner I n none fuel readEnd st2 = (st', none) ∧ st'.buf = st2.buf ∧
            st2.buf = pre' ++ pend' ++ post ∧ st'.procOff = pre'.length ∧
            st'.stream = st2.stream ∧ st'.sizes = st2.sizes ∧
            c.foldl (streamFeed I n) ⟨o.rest, st2.header, st2.user, st2.trace.filter PEv.nonRead⟩
              = ⟨pend', st'.header, st'.user, st'.trace.filter PEv.nonRead⟩ := by
        intro st2 h1 h2 h3
        refine ih c (pre ++ used) o.rest post st2 readEnd ?_ (by simp [h2]) ?_ ?_ ?_
        · rw [h1, hbuf, hw]
          have : pre ++ pend ++ (a ++ 10 :: c) ++ post = pre ++ (pend ++ a ++ [10]) ++ c ++ post := by simp
          rw [this, ← hused]
          simp
        · simp only [List.length_append, h3, hread]; omega
        · rw [h3, hend, hw]; simp; omega
        · rw [hw] at hfuel; simp at hfuel; omega
      by_cases hwb : o.w.buf = [] <;> by_cases hr : o.rest = []
      · simp only [hwb, hr, List.isEmpty_nil, if_true, Bool.not_true, Bool.false_eq_true, if_false]
        have hr0 : o.rest.length = 0 := by simp [hr]
        obtain ⟨st', pre', pend', h1, h2, h3, h4, h5, h6, h7⟩ := hih
          { buf := st.buf, procOff := st.readOff + p + 1, readOff := st.readOff + p + 1, header := o.header,
            user := o.s, stream := st.stream, sizes := st.sizes, calls := st.calls, trace := st.trace }
          rfl (by simp only [hread]; omega) rfl
        exact ⟨st', pre', pend', h1, h2, h3, h4, h5, h6, by simpa [hr] using h7⟩
      · have hr' : (!o.rest.isEmpty) = true := by simp [hr]
        have hle : o.rest.length ≤ st.procOff + (pend ++ a ++ [10]).length := by
          simp only [List.length_append, List.length_cons, List.length_nil]; omega
        simp only [hwb, List.isEmpty_nil, if_true, hr', hle]
        obtain ⟨st', pre', pend', h1, h2, h3, h4, h5, h6, h7⟩ := hih
          { buf := st.buf, procOff := st.procOff + List.length (pend ++ a ++ [10]) - List.length o.rest,
            readOff := st.readOff + p + 1, header := o.header, user := o.s, stream := st.stream, sizes := st.sizes,
            calls := st.calls, trace := st.trace }
          rfl (by simp only [List.length_append, List.length_cons, List.length_nil, hproc]; omega) rfl
        exact ⟨st', pre', pend', h1, h2, h3, h4, h5, h6, by simpa using h7⟩
      · have hwb' : o.w.buf.isEmpty = false := by simp [hwb]
        have hr0 : o.rest.length = 0 := by simp [hr]
        simp only [hwb', hwb, hr, List.isEmpty_nil, Bool.not_true, Bool.false_eq_true, if_false]
        obtain ⟨st', pre', pend', h1, h2, h3, h4, h5, h6, h7⟩ := hih
          { buf := st.buf, procOff := st.readOff + p + 1, readOff := st.readOff + p + 1, header := o.header,
            user := o.s, stream := st.stream, sizes := st.sizes, calls := st.calls + 1 + 1,
            trace := st.trace ++ [PEv.w o.w.buf] ++ [PEv.f] }
          rfl (by simp only [hread]; omega) rfl
        exact ⟨st', pre', pend', h1, h2, h3, h4, h5, h6, by simpa [hr, filter_nonRead_wf] using h7⟩
      · have hwb' : o.w.buf.isEmpty = false := by simp [hwb]
        have hr' : (!o.rest.isEmpty) = true := by simp [hr]
        have hle : o.rest.length ≤ st.procOff + (pend ++ a ++ [10]).length := by
          simp only [List.length_append, List.length_cons, List.length_nil]; omega
        simp only [hwb', hwb, Bool.false_eq_true, if_false, hr', hle, if_true]
        obtain ⟨st', pre', pend', h1, h2, h3, h4, h5, h6, h7⟩ := hih
          { buf := st.buf, procOff := st.procOff + List.length (pend ++ a ++ [10]) - List.length o.rest,
            readOff := st.readOff + p + 1, header := o.header, user := o.s, stream := st.stream, sizes := st.sizes,
            calls := st.calls + 1 + 1, trace := st.trace ++ [PEv.w o.w.buf] ++ [PEv.f] }
          rfl (by simp only [List.length_append, List.length_cons, List.length_nil, hproc]; omega) rfl
        exact ⟨st', pre', pend', h1, h2, h3, h4, h5, h6, by simpa [filter_nonRead_wf] using h7⟩

end Scpi
