/-
Helper lemmas for `Scpi/Props/C01Corners.lean`: the header walk on a header text whose
last level separator is not followed by a mnemonic.
-/
import Scpi.Proofs.RenderHdr
import Scpi.Proofs.GoodParse

namespace Scpi

/-- A level separator as the parser accepts it: a colon with optional white space on
both sides (`header_separator`, parser.rs:266-271). -/
structure Sep where
  before : Bytes
  after : Bytes
  deriving DecidableEq, Repr

def Sep.wf (s : Sep) : Bool := allWs s.before && allWs s.after

def Sep.render (s : Sep) : Bytes := s.before ++ 58 :: s.after

/-- The optional leading colon (with the white space behind it). -/
def renderAbs : Option Bytes → Bytes
  | some a => 58 :: a
  | none => []

/-- `sep m` for every further level, each with its own white space. -/
def renderSeps : List (Sep × Bytes) → Bytes
  | [] => []
  | (s, m) :: r => s.render ++ (m ++ renderSeps r)

/-- Every further level is a well-formed separator and a mnemonic. -/
def wfSeps (more : List (Sep × Bytes)) : Bool := more.all fun p => p.1.wf && isMnemonicText p.2

/-- The plain spelling: single colons, no white space. -/
def plainSeps (ms : List Bytes) : List (Sep × Bytes) := ms.map fun m => (⟨[], []⟩, m)

theorem renderSeps_plain (ms : List Bytes) : renderSeps (plainSeps ms) = renderColons ms := by
  induction ms with
  | nil => rfl
  | cons m ms ih =>
    simp only [plainSeps, List.map_cons, renderSeps, renderColons, Sep.render, List.nil_append,
      List.cons_append] at ih ⊢
    rw [ih]

theorem wfSeps_plain {ms : List Bytes} (h : ms.all isMnemonicText = true) :
    wfSeps (plainSeps ms) = true := by
  induction ms with
  | nil => rfl
  | cons m ms ih =>
    simp only [List.all_cons, Bool.and_eq_true] at h
    have := ih h.2
    simp only [wfSeps, plainSeps, List.map_cons, List.all_cons, Bool.and_eq_true] at this ⊢
    exact ⟨⟨rfl, h.1⟩, this⟩

theorem headerSeparator_sep {s : Sep} {X : Bytes} (hs : s.wf = true) (hX : Ends isWs X) :
    headerSeparator (s.render ++ X) = .ok X () := by
  simp only [Sep.wf, Bool.and_eq_true] at hs
  have h58 : Ends isWs (58 :: (s.after ++ X)) := ends_cons (by decide)
  obtain ⟨v1, e1⟩ := optP_whitespace_append hs.1 h58
  obtain ⟨v2, e2⟩ := optP_whitespace_append hs.2 hX
  simp only [Sep.render, List.append_assoc, List.cons_append, headerSeparator, e1, PResult.bind,
    tag_cons_self, PResult.mapErr, e2]

theorem headerSeparator_colon_ws {a X : Bytes} (ha : allWs a = true) (hX : Ends isWs X) :
    headerSeparator (58 :: (a ++ X)) = .ok X () :=
  headerSeparator_sep (s := ⟨[], a⟩) (X := X) (by simpa [Sep.wf, allWs] using ha) hX

theorem ws_not_mnemonicTail {b : Nat} (h : isWs b = true) : isMnemonicTail b = false := by
  simp [isWs] at h
  simp [isMnemonicTail, isAlnum, isAlpha, isDigit]
  omega

theorem ends_mnemonicTail_sep {s : Sep} (hs : s.wf = true) (Y : Bytes) :
    Ends isMnemonicTail (s.render ++ Y) := by
  simp only [Sep.wf, Bool.and_eq_true] at hs
  cases hb : s.before with
  | nil => simp only [Sep.render, hb, List.nil_append, List.cons_append]; exact ends_cons (by decide)
  | cons b t =>
    have : isWs b = true := by
      have := hs.1; rw [hb] at this
      simp only [allWs, List.all_cons, Bool.and_eq_true] at this
      exact this.1
    simp only [Sep.render, hb, List.cons_append]
    exact ends_cons (ws_not_mnemonicTail this)

theorem ends_ws_mnemonic {m : Bytes} (hm : isMnemonicText m = true) (Y : Bytes) :
    Ends isWs (m ++ Y) := by
  obtain ⟨b0, t0, e0, hb0⟩ := mnemonicText_head hm
  rw [e0]; exact ends_cons (alpha_not_ws hb0)

/-- **The loop never accepts a header whose last separator lacks its mnemonic**: after
any number of further levels `sep m`, a separator followed by `X` on which `mnemonic`
does not succeed makes `headerLoop` fail — whatever the fuel and the nodes. -/
theorem headerLoop_trailing_sep (s : Sep) (X : Bytes) (hs : s.wf = true) (hXw : Ends isWs X)
    (hX : ∀ i v, mnemonic X ≠ .ok i v) :
    ∀ (more : List (Sep × Bytes)) (fuel : Nat) (node header : Node), wfSeps more = true →
      ∀ i v, headerLoop fuel node header (renderSeps more ++ (s.render ++ X)) ≠ .ok i v := by
  intro more
  induction more with
  | nil =>
    intro fuel node header _ i v
    cases fuel with
    | zero => simp [headerLoop]
    | succ fuel =>
      simp only [renderSeps, List.nil_append, headerLoop, headerSeparator_sep hs hXw]
      cases hm : mnemonic X with
      | ok i' v' => exact absurd hm (hX i' v')
      | soft e => simp [PResult.bind]
      | fatal e => simp [PResult.bind]
      | incomplete => simp [PResult.bind]
      | crash c => simp [PResult.bind]
  | cons p more ih =>
    obtain ⟨s', m'⟩ := p
    intro fuel node header hwf i v
    simp only [wfSeps, List.all_cons, Bool.and_eq_true] at hwf
    cases fuel with
    | zero => simp [headerLoop]
    | succ fuel =>
      have hE : Ends isMnemonicTail (renderSeps more ++ (s.render ++ X)) := by
        cases more with
        | nil => exact ends_mnemonicTail_sep hs X
        | cons q more' =>
          obtain ⟨s'', m''⟩ := q
          simp only [List.all_cons, Bool.and_eq_true] at hwf
          simp only [renderSeps, List.append_assoc]
          exact ends_mnemonicTail_sep hwf.2.1.1 _
      simp only [renderSeps, List.append_assoc]
      rw [headerLoop]
      simp only [headerSeparator_sep hwf.1.1 (ends_ws_mnemonic hwf.1.2 _),
        mnemonic_append hwf.1.2 hE, PResult.bind, lookup_valid _ _ (validUtf8_mnemonic hwf.1.2)]
      cases node.child m' with
      | none => simp
      | some c => exact ih fuel c node (by simpa [wfSeps] using hwf.2) i v

/-- The compound form on `[: ws] m sep m … sep X`. -/
theorem compoundHeader_trailing_sep (root cur : Node) (abs : Option Bytes) (m : Bytes)
    (more : List (Sep × Bytes)) (s : Sep) (X : Bytes)
    (habs : ∀ a ∈ abs, allWs a = true) (hm : isMnemonicText m = true) (hmore : wfSeps more = true)
    (hs : s.wf = true) (hXw : Ends isWs X) (hX : ∀ i v, mnemonic X ≠ .ok i v) (i : Bytes)
    (v : Node × Option Node) :
    compoundHeader root cur
      (renderAbs abs ++
        (m ++ (renderSeps more ++ (s.render ++ X)))) ≠ .ok i v := by
  obtain ⟨b0, t0, e0, hb0⟩ := mnemonicText_head hm
  have hE : Ends isMnemonicTail (renderSeps more ++ (s.render ++ X)) := by
    cases more with
    | nil => exact ends_mnemonicTail_sep hs X
    | cons q more' =>
      obtain ⟨s'', m''⟩ := q
      simp only [wfSeps, List.all_cons, Bool.and_eq_true] at hmore
      simp only [renderSeps, List.append_assoc]
      exact ends_mnemonicTail_sep hmore.1.1 _
  have hopt : ∃ u, optP headerSeparator (renderAbs abs ++
        (m ++ (renderSeps more ++ (s.render ++ X)))) =
      .ok (m ++ (renderSeps more ++ (s.render ++ X))) u := by
    cases abs with
    | some a =>
      have := headerSeparator_colon_ws (X := m ++ (renderSeps more ++ (s.render ++ X)))
        (habs a rfl) (ends_ws_mnemonic hm _)
      exact ⟨some (), by simp only [renderAbs, List.cons_append, optP, this]⟩
    | none =>
      refine ⟨none, ?_⟩
      simp only [renderAbs, List.nil_append, optP]
      rw [e0, List.cons_append, headerSeparator_soft_cons _ (alpha_not_ws hb0) (alpha_ne hb0).1]
  obtain ⟨u, hu⟩ := hopt
  unfold compoundHeader
  rw [hu]
  simp only [PResult.bind, mnemonic_append hm hE, lookup_valid _ _ (validUtf8_mnemonic hm)]
  cases (if u.isSome = true then root else cur).child m with
  | none => simp
  | some n => exact headerLoop_trailing_sep s X hs hXw hX more _ n _ hmore i v

/-- The compound form on a lone colon that no mnemonic follows. -/
theorem compoundHeader_lone_colon (root cur : Node) (a X : Bytes) (ha : allWs a = true)
    (hXw : Ends isWs X) (hX : ∀ i v, mnemonic X ≠ .ok i v) (i : Bytes) (v : Node × Option Node) :
    compoundHeader root cur (58 :: (a ++ X)) ≠ .ok i v := by
  have := headerSeparator_colon_ws ha hXw
  unfold compoundHeader
  simp only [optP, this, PResult.bind]
  cases hm : mnemonic X with
  | ok i' v' => exact absurd hm (hX i' v')
  | soft e => simp
  | fatal e => simp
  | incomplete => simp
  | crash c => simp

/-- When the compound form fails on an input that does not begin with `*`, the header
is `UndefinedHeader`. -/
theorem commandHeader_of_compound_fails (root cur : Node) (b : Nat) (Y : Bytes) (hb : b ≠ 42)
    (hc : ∀ i v, compoundHeader root cur (b :: Y) ≠ .ok i v) :
    commandHeader root cur (b :: Y) = .fatal (.std .UndefinedHeader) := by
  have hcommon : commonHeader root (b :: Y) = .fatal (.std .UndefinedHeader) := by
    simp only [commonHeader, tag_cons_ne (t := 42) _ hb, PResult.mapErr, ofErr_undefinedHeader,
      PResult.bind]
  unfold commandHeader
  cases h : compoundHeader root cur (b :: Y) with
  | ok i v => exact absurd h (hc i v)
  | crash c => exact absurd h ((good_compoundHeader root cur (b :: Y)).noCrash c)
  | soft e => simp only [PResult.orElse, hcommon]
  | fatal e => simp only [PResult.orElse, hcommon]
  | incomplete => simp only [PResult.orElse, hcommon]

/-- `parse` on white space followed by a unit whose header is `UndefinedHeader`. -/
theorem parse_of_header_undefined (root cur : Node) (w0 : Bytes) (b : Nat) (Y : Bytes)
    (hw0 : allWs w0 = true) (hbw : isWs b = false) (hb10 : b ≠ 10)
    (hh : commandHeader root cur (b :: Y) = .fatal (.std .UndefinedHeader)) :
    parse root cur (w0 ++ b :: Y) = .fatal (.std .UndefinedHeader) := by
  obtain ⟨v1, e1⟩ := optP_whitespace_append hw0 (ends_cons (r := Y) hbw)
  unfold parse
  rw [e1]
  simp only [PResult.bind, optP, tag_cons_ne (t := 10) _ hb10,
    Option.isSome_none, Bool.false_eq_true, if_false, hh]

end Scpi
