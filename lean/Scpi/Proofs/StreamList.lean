/-
List arithmetic for the refinement proof of C07: slices of a buffer written as a
concatenation, the position of the first newline, and feeding newline-free blocks
to the stream machine.
-/
import Scpi.Spec.Stream
import Scpi.Proofs.RunGood

namespace Scpi

theorem slice_mid (pre mid post : Bytes) (a b : Nat) (ha : a = pre.length)
    (hb : b = pre.length + mid.length) : slice (pre ++ mid ++ post) a b = some mid := by
  subst ha hb
  unfold slice
  rw [if_pos (by simp only [List.length_append]; omega)]
  have h1 : (pre ++ mid ++ post).take (pre.length + mid.length) = pre ++ mid := by
    rw [← List.length_append]; exact List.take_left' rfl
  rw [h1]
  simp

theorem newlinePos_none : ∀ (w : Bytes), newlinePos w = none → ∀ b ∈ w, b ≠ 10 := by
  intro w
  induction w with
  | nil => intro _ b hb; cases hb
  | cons x rest ih =>
    intro h b hb
    unfold newlinePos at h
    split at h
    · cases h
    · next hx =>
      cases hr : newlinePos rest with
      | some p => rw [hr] at h; cases h
      | none =>
        cases hb with
        | head => simpa using hx
        | tail _ hb => exact ih hr b hb

theorem newlinePos_some : ∀ (w : Bytes) (p : Nat), newlinePos w = some p →
    ∃ a c, w = a ++ 10 :: c ∧ a.length = p ∧ ∀ b ∈ a, b ≠ 10 := by
  intro w
  induction w with
  | nil => intro p h; cases h
  | cons x rest ih =>
    intro p h
    unfold newlinePos at h
    split at h
    · next hx =>
      cases h
      have : x = 10 := by simpa using hx
      subst this
      exact ⟨[], rest, rfl, rfl, fun b hb => by cases hb⟩
    · next hx =>
      cases hr : newlinePos rest with
      | none => rw [hr] at h; cases h
      | some q =>
        rw [hr] at h
        cases h
        obtain ⟨a, c, h1, h2, h3⟩ := ih q hr
        refine ⟨x :: a, c, by rw [h1]; rfl, by simp [h2], ?_⟩
        intro b hb
        cases hb with
        | head => simpa using hx
        | tail _ hb => exact h3 b hb

/-- Feeding a block without newline just appends it to the pending bytes. -/
theorem foldl_feed_plain {σ : Type} (I : Iface σ) (n : Nat) : ∀ (l : Bytes) (st : SpecState σ),
    (∀ b ∈ l, b ≠ 10) →
    l.foldl (streamFeed I n) st = { st with pending := st.pending ++ l } := by
  intro l
  induction l with
  | nil => intro st _; simp
  | cons x rest ih =>
    intro st h
    rw [List.foldl_cons, ih _ (fun b hb => h b (List.mem_cons_of_mem _ hb))]
    have hx : x ≠ 10 := h x List.mem_cons_self
    simp [streamFeed, hx]

end Scpi
