/-
The text layer of float `Display` (`digits_to_dec_str`), separated from the digit
generation (`formatShortest`): `floatText` is a sign, then `0` or `renderBody` of the
digits and exponent; `renderBody ds k` is plain decimal text and `parseFloat` reads it
as `digitsValue ds · 10^(k - len)`.
-/
import Scpi.Props.C03
import Scpi.Spec.Decode

namespace Scpi
namespace Dragon

/-- The text of `digits_to_dec_str` (without sign) for digit values `ds` and exponent `k`. -/
def renderBody (ds : List Nat) (k : Int) : Bytes :=
  let dsb := ds.map (· + 48)
  let len : Int := (ds.length : Nat)
  if k ≤ 0 then [48, 46] ++ List.replicate (-k).toNat 48 ++ dsb
  else if k < len then dsb.take k.toNat ++ [46] ++ dsb.drop k.toNat
  else dsb ++ List.replicate (k - len).toNat 48

/-! ### `floatText` in closed form -/

theorem zeroChunks_flatten : ∀ (fuel n : Nat), n ≤ 64 * fuel →
    (zeroChunks fuel n).flatten = List.replicate n 48
  | 0, n, h => by
    have : n = 0 := by omega
    subst this
    simp [zeroChunks]
  | fuel + 1, n, h => by
    unfold zeroChunks
    split
    · next h0 => subst h0; simp
    · split
      · rw [List.flatten_cons, zeroChunks_flatten fuel (n - 64) (by omega),
          List.replicate_append_replicate]
        congr 1
        omega
      · simp

theorem zeroChunks_flatten' (n : Nat) : (zeroChunks (n + 1) n).flatten = List.replicate n 48 :=
  zeroChunks_flatten (n + 1) n (by omega)

/-- `floatText` is sign, then `0` for zero, else `renderBody` of `formatShortest`. -/
theorem floatText_eq (f : FloatFmt) (bits : Nat) :
    floatText f bits = (if f.negOf bits then [45] else []) ++
      (if f.expOf bits = 0 ∧ f.fracOf bits = 0 then [48]
       else renderBody (formatShortest f bits).1 (formatShortest f bits).2) := by
  unfold floatText floatPieces
  cases h : formatShortest f bits with
  | mk ds k =>
  simp only [renderBody]
  split
  · cases f.negOf bits <;> simp
  · split
    · simp only [List.flatten_append, zeroChunks_flatten']
      cases f.negOf bits <;> simp
    · split
      · cases f.negOf bits <;> simp
      · simp only [List.flatten_append, zeroChunks_flatten']
        cases f.negOf bits <;> simp

/-! ### Digit-string helpers -/

theorem allDigits_append {s t : Bytes} (hs : C03.AllDigits s) (ht : C03.AllDigits t) :
    C03.AllDigits (s ++ t) := by
  intro b hb
  rcases List.mem_append.mp hb with h | h
  · exact hs b h
  · exact ht b h

theorem allDigits_zeros (n : Nat) : C03.AllDigits (List.replicate n 48) := by
  intro b hb
  have := (List.mem_replicate.mp hb).2
  omega

theorem allDigits_dsb (ds : List Nat) (hd : ∀ d ∈ ds, d < 10) :
    C03.AllDigits (ds.map (· + 48)) := by
  intro b hb
  obtain ⟨d, hdm, rfl⟩ := List.mem_map.mp hb
  have := hd d hdm
  omega

theorem allDigits_take {s : Bytes} (n : Nat) (hs : C03.AllDigits s) : C03.AllDigits (s.take n) :=
  fun b hb => hs b (List.mem_of_mem_take hb)

theorem allDigits_drop {s : Bytes} (n : Nat) (hs : C03.AllDigits s) : C03.AllDigits (s.drop n) :=
  fun b hb => hs b (List.mem_of_mem_drop hb)

theorem map_sub_map_add (ds : List Nat) : (ds.map (· + 48)).map (· - 48) = ds := by
  induction ds with
  | nil => rfl
  | cons d ds ih =>
    rw [List.map_cons, List.map_cons, ih]
    simp

theorem decimalValue_dsb (ds : List Nat) :
    C03.decimalValue (ds.map (· + 48)) = C03.digitsValue 10 ds := by
  unfold C03.decimalValue
  rw [map_sub_map_add]

theorem digitsValue_zeros_append (n : Nat) (l : List Nat) :
    C03.digitsValue 10 (List.replicate n 0 ++ l) = C03.digitsValue 10 l := by
  induction n with
  | zero => simp
  | succ n ih =>
    rw [List.replicate_succ, List.cons_append]
    unfold C03.digitsValue at ih ⊢
    rw [List.foldl_cons]
    exact ih

theorem foldl_zeros (n : Nat) : ∀ a : Nat,
    (List.replicate n 0).foldl (fun acc d => acc * 10 + d) a = a * 10 ^ n := by
  induction n with
  | zero => intro a; simp
  | succ n ih =>
    intro a
    rw [List.replicate_succ, List.foldl_cons, ih, Nat.pow_succ, Nat.add_zero, Nat.mul_assoc,
      Nat.mul_comm 10]

theorem digitsValue_append_zeros (l : List Nat) (n : Nat) :
    C03.digitsValue 10 (l ++ List.replicate n 0) = C03.digitsValue 10 l * 10 ^ n := by
  unfold C03.digitsValue
  rw [List.foldl_append, foldl_zeros]

theorem decimalValue_zeros_append (n : Nat) (s : Bytes) :
    C03.decimalValue (List.replicate n 48 ++ s) = C03.decimalValue s := by
  unfold C03.decimalValue
  rw [List.map_append, List.map_replicate]
  exact digitsValue_zeros_append n _

theorem decimalValue_append_zeros (s : Bytes) (n : Nat) :
    C03.decimalValue (s ++ List.replicate n 48) = C03.decimalValue s * 10 ^ n := by
  unfold C03.decimalValue
  rw [List.map_append, List.map_replicate]
  exact digitsValue_append_zeros _ n

/-! ### The shape of `renderBody` -/

/-- `renderBody ds k` is `ip` or `ip . fp` with digit strings `ip ≠ []`, `fp ≠ []`, the
digits `ip fp` denote `digitsValue ds · 10^(k - len)` and there are `len - k` fraction
digits (truncated differences). -/
theorem renderBody_shape (ds : List Nat) (k : Int) (hne : ds ≠ []) (hd : ∀ d ∈ ds, d < 10) :
    ∃ ip fp : Bytes, C03.AllDigits ip ∧ C03.AllDigits fp ∧ ip ≠ [] ∧
      ((renderBody ds k = ip ∧ fp = []) ∨ (renderBody ds k = ip ++ 46 :: fp ∧ fp ≠ [])) ∧
      C03.decimalValue (ip ++ fp) =
        C03.digitsValue 10 ds * 10 ^ (k - (ds.length : Nat)).toNat ∧
      fp.length = (((ds.length : Nat) : Int) - k).toNat := by
  have hdsb := allDigits_dsb ds hd
  have hlen : 0 < ds.length := List.length_pos_iff.mpr hne
  have hdsbne : ds.map (· + 48) ≠ [] := by simpa using hne
  unfold renderBody
  simp only
  split
  · next hk =>
    refine ⟨[48], List.replicate (-k).toNat 48 ++ ds.map (· + 48), ?_, ?_, by simp, Or.inr ⟨by simp, by simp [hne]⟩, ?_, ?_⟩
    · intro b hb; simp at hb; omega
    · exact allDigits_append (allDigits_zeros _) hdsb
    · have h0 : (k - (ds.length : Nat)).toNat = 0 := by omega
      rw [h0, Nat.pow_zero, Nat.mul_one]
      have : [48] ++ (List.replicate (-k).toNat 48 ++ ds.map (· + 48))
          = List.replicate ((-k).toNat + 1) 48 ++ ds.map (· + 48) := by
        rw [List.replicate_succ]; simp
      rw [this, decimalValue_zeros_append, decimalValue_dsb]
    · simp only [List.length_append, List.length_replicate, List.length_map]
      omega
  · next hk =>
    split
    · next hk2 =>
      refine ⟨(ds.map (· + 48)).take k.toNat, (ds.map (· + 48)).drop k.toNat,
        allDigits_take _ hdsb, allDigits_drop _ hdsb, ?_, Or.inr ⟨by simp, ?_⟩, ?_, ?_⟩
      · intro h
        have := congrArg List.length h
        simp only [List.length_take, List.length_map, List.length_nil] at this
        omega
      · intro h
        have := congrArg List.length h
        simp only [List.length_drop, List.length_map, List.length_nil] at this
        omega
      · have h0 : (k - (ds.length : Nat)).toNat = 0 := by omega
        rw [h0, Nat.pow_zero, Nat.mul_one, List.take_append_drop, decimalValue_dsb]
      · simp only [List.length_drop, List.length_map]
        omega
    · next hk2 =>
      refine ⟨ds.map (· + 48) ++ List.replicate (k - (ds.length : Nat)).toNat 48, [],
        allDigits_append hdsb (allDigits_zeros _), C03.allDigits_nil, by simp [hne],
        Or.inl ⟨rfl, rfl⟩, ?_, ?_⟩
      · rw [List.append_nil, decimalValue_append_zeros, decimalValue_dsb]
      · simp only [List.length_nil]
        omega

/-- `renderBody` begins with a digit. -/
theorem renderBody_head (ds : List Nat) (k : Int) (hne : ds ≠ []) (hd : ∀ d ∈ ds, d < 10) :
    ∃ c rest, renderBody ds k = c :: rest ∧ 48 ≤ c ∧ c ≤ 57 := by
  obtain ⟨ip, fp, hip, _, hipne, hs, _, _⟩ := renderBody_shape ds k hne hd
  cases ip with
  | nil => exact absurd rfl hipne
  | cons c ip' =>
    have hc := (C03.allDigits_cons.mp hip).1
    rcases hs with ⟨h, _⟩ | ⟨h, _⟩
    · exact ⟨c, ip', h, hc⟩
    · exact ⟨c, ip' ++ 46 :: fp, by rw [h]; rfl, hc⟩

/-! ### Shape: plain decimal -/

theorem takeWhile_isDig_all (s : Bytes) (hs : C03.AllDigits s) (t : Bytes) :
    (s ++ 46 :: t).takeWhile C04.isDig = s ∧ (s ++ 46 :: t).dropWhile C04.isDig = 46 :: t := by
  induction s with
  | nil => simp [C04.isDig]
  | cons b s ih =>
    obtain ⟨hb, hs'⟩ := C03.allDigits_cons.mp hs
    have hbd : C04.isDig b = true := by simp [C04.isDig, hb.1, hb.2]
    simp only [List.cons_append, List.takeWhile_cons, List.dropWhile_cons, hbd, if_true]
    exact ⟨by rw [(ih hs').1], (ih hs').2⟩

theorem takeWhile_isDig_self (s : Bytes) (hs : C03.AllDigits s) :
    s.takeWhile C04.isDig = s ∧ s.dropWhile C04.isDig = [] := by
  induction s with
  | nil => simp
  | cons b s ih =>
    obtain ⟨hb, hs'⟩ := C03.allDigits_cons.mp hs
    have hbd : C04.isDig b = true := by simp [C04.isDig, hb.1, hb.2]
    simp only [List.takeWhile_cons, List.dropWhile_cons, hbd, if_true]
    exact ⟨by rw [(ih hs').1], (ih hs').2⟩

theorem all_isDig (s : Bytes) (hs : C03.AllDigits s) : s.all C04.isDig = true := by
  rw [List.all_eq_true]
  intro b hb
  have := hs b hb
  simp [C04.isDig, this.1, this.2]

/-- Stripping the optional `-` from a signed text whose body begins with a digit. -/
theorem strip_sign (neg : Bool) (c : Nat) (rest : Bytes) (hc : 48 ≤ c ∧ c ≤ 57) :
    (if ((if neg then [45] else []) ++ c :: rest).head? = some 45
      then ((if neg then [45] else []) ++ c :: rest).tail
      else (if neg then [45] else []) ++ c :: rest) = c :: rest := by
  cases neg
  · have : c ≠ 45 := by omega
    simp [this]
  · simp

theorem plain_of_shape (neg : Bool) (body ip fp : Bytes) (hip : C03.AllDigits ip)
    (hfp : C03.AllDigits fp) (hipne : ip ≠ [])
    (hs : (body = ip ∧ fp = []) ∨ (body = ip ++ 46 :: fp ∧ fp ≠ [])) :
    C04.isPlainDecimal ((if neg then [45] else []) ++ body) = true := by
  cases ip with
  | nil => exact absurd rfl hipne
  | cons c ip' =>
    have hc := (C03.allDigits_cons.mp hip).1
    unfold C04.isPlainDecimal
    rcases hs with ⟨h, _⟩ | ⟨h, hfpne⟩
    · subst h
      simp only [strip_sign neg c ip' hc, (takeWhile_isDig_self _ hip).1,
        (takeWhile_isDig_self _ hip).2]
      simp
    · subst h
      rw [List.cons_append]
      simp only [strip_sign neg c _ hc]
      rw [← List.cons_append]
      simp only [(takeWhile_isDig_all _ hip fp).1, (takeWhile_isDig_all _ hip fp).2]
      cases fp with
      | nil => exact absurd rfl hfpne
      | cons x fp' =>
        have := all_isDig _ hfp
        simp [this]

/-- shape -/
theorem renderBody_plain (ds : List Nat) (k : Int) (hne : ds ≠ []) (hd : ∀ d ∈ ds, d < 10)
    (neg : Bool) :
    C04.isPlainDecimal ((if neg then [45] else []) ++ renderBody ds k) = true := by
  obtain ⟨ip, fp, hip, hfp, hipne, hs, _, _⟩ := renderBody_shape ds k hne hd
  exact plain_of_shape neg _ ip fp hip hfp hipne hs

/-! ### Parse -/

/-- `renderBody ds k` is decimal text denoting `digitsValue ds · 10^(k - len)`. -/
theorem renderBody_isDecimalText (ds : List Nat) (k : Int) (hne : ds ≠ [])
    (hd : ∀ d ∈ ds, d < 10) :
    C03.IsDecimalText (renderBody ds k)
      (C03.digitsValue 10 ds * 10 ^ (k - (ds.length : Nat)).toNat)
      (-(((((ds.length : Nat) : Int) - k).toNat : Nat) : Int)) := by
  obtain ⟨ip, fp, hip, hfp, hipne, hs, hv, hl⟩ := renderBody_shape ds k hne hd
  refine ⟨ip, fp, [], 0, hip, hfp, by simp [hipne], C03.IsExponent.absent, ?_, hv.symm, ?_⟩
  · rcases hs with ⟨h, h2⟩ | ⟨h, _⟩
    · exact Or.inl ⟨by rw [h, List.append_nil], h2⟩
    · exact Or.inr (by rw [h, List.append_nil])
  · rw [hl]; omega

/-- `parseFloat` on a signed text whose body begins with a digit. -/
theorem parseFloat_signed (f : FloatFmt) (hf : f = fmt32 ∨ f = fmt64) (neg : Bool)
    (body : Bytes) (c : Nat) (rest : Bytes) (hb : body = c :: rest) (hc : 48 ≤ c ∧ c ≤ 57)
    (mant : Nat) (exp10 : Int) (h : C03.IsDecimalText body mant exp10) :
    parseFloat f ((if neg then [45] else []) ++ body) =
      some ((if exp10 ≥ 0 then roundRat f (mant * 10 ^ exp10.toNat) 1
             else roundRat f mant (10 ^ (-exp10).toNat)) +
            (if neg then f.signBit else 0)) := by
  cases neg
  · have h1 : ¬ (c = 45 ∨ c = 43) := by omega
    have h2 : c ≠ 45 := by omega
    have := C03.parseFloat_correct f hf c rest mant exp10 (by rw [if_neg h1, ← hb]; exact h)
    simpa [hb, h2] using this
  · have := C03.parseFloat_correct f hf 45 body mant exp10 (by simpa using h)
    simpa using this

/-- parse: the text denotes `digitsValue ds · 10^(k - len)` -/
theorem renderBody_parse (f : FloatFmt) (hf : f = fmt32 ∨ f = fmt64) (ds : List Nat) (k : Int)
    (hne : ds ≠ []) (hd : ∀ d ∈ ds, d < 10) (neg : Bool) :
    parseFloat f ((if neg then [45] else []) ++ renderBody ds k) =
      some (roundRat f (C03.digitsValue 10 ds * 10 ^ (k - (ds.length : Nat)).toNat)
                       (10 ^ (((ds.length : Nat) : Int) - k).toNat) +
            (if neg then f.signBit else 0)) := by
  obtain ⟨c, rest, hb, hc⟩ := renderBody_head ds k hne hd
  rw [parseFloat_signed f hf neg _ c rest hb hc _ _ (renderBody_isDecimalText ds k hne hd)]
  congr 2
  split
  · next h =>
    have h0 : (((ds.length : Nat) : Int) - k).toNat = 0 := by omega
    rw [h0]
    simp
  · next h =>
    congr 2
    omega

/-! ### Zero -/

/-- zero: the texts `0` and `-0` -/
theorem zero_plain (neg : Bool) :
    C04.isPlainDecimal ((if neg then [45] else []) ++ [48]) = true := by
  cases neg <;> decide

theorem zero_parse (f : FloatFmt) (hf : f = fmt32 ∨ f = fmt64) (neg : Bool) :
    parseFloat f ((if neg then [45] else []) ++ [48]) =
      some (0 + (if neg then f.signBit else 0)) := by
  have hz : C03.IsDecimalText [48] 0 0 :=
    ⟨[48], [], [], 0, by simp [C03.AllDigits], C03.allDigits_nil, by simp,
      C03.IsExponent.absent, Or.inl ⟨rfl, rfl⟩, by decide, by decide⟩
  rw [parseFloat_signed f hf neg [48] 48 [] rfl (by omega) 0 0 hz]
  simp [C03.roundRat_zero_num]

/-! ### Non-vacuity -/

/-- `1.5` is digits `[1, 5]` with `k = 1`; `0.015` has `k = -1`; `1500` has `k = 4`. -/
example : renderBody [1, 5] 1 = [49, 46, 53] := by decide
example : renderBody [1, 5] (-1) = [48, 46, 48, 49, 53] := by decide
example : renderBody [1, 5] 4 = [49, 53, 48, 48] := by decide
example : floatText fmt64 0x3FF8000000000000 = [49, 46, 53] := by decide +kernel

end Dragon
end Scpi
