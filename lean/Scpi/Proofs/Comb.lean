/-
Combinator lemmas for the predicate `RGood input r`:
"the result `r`, obtained while parsing `input`, is not a crash, and when it is
`ok rest _` then `rest` is a suffix of `input`".  Proved once per combinator;
every recogniser inherits it by composition.
-/
import Scpi.Parse

namespace Scpi

/-- Result `r` is crash-free and its rest is a suffix of `input`. -/
structure RGood {α : Type} (input : Bytes) (r : PResult α) : Prop where
  noCrash : ∀ c, r ≠ .crash c
  suffix : ∀ rest v, r = .ok rest v → rest <:+ input

/-- Parser `p` is good on every input. -/
def Good {α : Type} (p : Parser α) : Prop := ∀ i, RGood i (p i)

theorem RGood.mono {α : Type} {i j : Bytes} {r : PResult α} (h : RGood i r) (hij : i <:+ j) :
    RGood j r :=
  ⟨h.noCrash, fun rest v e => (h.suffix rest v e).trans hij⟩

theorem rgood_ok {α : Type} {input rest : Bytes} {v : α} (h : rest <:+ input) :
    RGood input (PResult.ok rest v) :=
  ⟨fun c e => (by cases e), fun r' v' e => (by cases e; exact h)⟩

theorem rgood_soft {α : Type} {input : Bytes} {e : Option Err} :
    RGood input (PResult.soft e : PResult α) :=
  ⟨fun c h => (by cases h), fun r v h => (by cases h)⟩

theorem rgood_fatal {α : Type} {input : Bytes} {e : Err} :
    RGood input (PResult.fatal e : PResult α) :=
  ⟨fun c h => (by cases h), fun r v h => (by cases h)⟩

theorem rgood_incomplete {α : Type} {input : Bytes} :
    RGood input (PResult.incomplete : PResult α) :=
  ⟨fun c h => (by cases h), fun r v h => (by cases h)⟩

theorem rgood_ofErr {α : Type} {input : Bytes} {e : StdErr} :
    RGood input (ofErr e : PResult α) := by
  unfold ofErr; split
  · exact rgood_fatal
  · exact rgood_soft

theorem rgood_bind {α β : Type} {input : Bytes} {r : PResult α} {k : Bytes → α → PResult β}
    (h : RGood input r) (hk : ∀ rest v, r = .ok rest v → rest <:+ input → RGood input (k rest v)) :
    RGood input (r.bind k) := by
  cases r with
  | ok rest v => exact hk rest v rfl (h.suffix rest v rfl)
  | soft e => exact rgood_soft
  | fatal e => exact rgood_fatal
  | incomplete => exact rgood_incomplete
  | crash c => exact absurd rfl (h.noCrash c)

theorem rgood_map {α β : Type} {input : Bytes} {r : PResult α} {f : α → β}
    (h : RGood input r) : RGood input (r.map f) := by
  cases r with
  | ok rest v => exact rgood_ok (h.suffix rest v rfl)
  | soft e => exact rgood_soft
  | fatal e => exact rgood_fatal
  | incomplete => exact rgood_incomplete
  | crash c => exact absurd rfl (h.noCrash c)

theorem rgood_orElse {α : Type} {input : Bytes} {a : PResult α} {b : Unit → PResult α}
    (ha : RGood input a) (hb : RGood input (b ())) : RGood input (a.orElse b) := by
  cases a with
  | ok rest v => exact ha
  | crash c => exact absurd rfl (ha.noCrash c)
  | soft e => exact hb
  | fatal e => exact hb
  | incomplete => exact hb

theorem rgood_orNext {α : Type} {input : Bytes} {a : PResult α} {b : Unit → PResult α}
    (ha : RGood input a) (hb : RGood input (b ())) : RGood input (a.orNext b) := by
  cases a with
  | ok rest v => exact ha
  | crash c => exact absurd rfl (ha.noCrash c)
  | soft e => exact hb
  | fatal e => exact hb
  | incomplete => exact rgood_incomplete

theorem rgood_mapErr {α : Type} {input : Bytes} {a : PResult α} {e : StdErr}
    (ha : RGood input a) : RGood input (a.mapErr e) := by
  cases a with
  | ok rest v => exact ha
  | crash c => exact absurd rfl (ha.noCrash c)
  | soft _ => exact rgood_ofErr
  | fatal _ => exact rgood_ofErr
  | incomplete => exact rgood_ofErr

theorem good_optP {α : Type} {p : Parser α} (h : Good p) : Good (optP p) := by
  intro i
  have hi := h i
  unfold optP
  cases hp : p i with
  | ok rest v => exact rgood_ok (hi.suffix rest v hp)
  | crash c => exact absurd hp (hi.noCrash c)
  | soft e => exact rgood_ok (List.suffix_refl i)
  | fatal e => exact rgood_ok (List.suffix_refl i)
  | incomplete => exact rgood_ok (List.suffix_refl i)

theorem good_takeWhileP (p : Nat → Bool) : Good (takeWhileP p) := by
  intro i
  exact rgood_ok (List.dropWhile_suffix p)

theorem good_satisfy (p : Nat → Bool) : Good (satisfy p) := by
  intro i
  unfold satisfy
  cases i with
  | nil => exact rgood_incomplete
  | cons b rest =>
    cases hb : p b with
    | true => simp only [hb, if_true]; exact rgood_ok (List.suffix_cons b rest)
    | false => simp only [hb, Bool.false_eq_true, if_false]; exact rgood_ofErr

theorem good_tag (t : Nat) : Good (tag t) := good_satisfy _

/-- `satisfy`/`tag` consume exactly one byte. -/
theorem satisfy_ok_length {p : Nat → Bool} {i rest : Bytes} {v : Nat}
    (h : satisfy p i = .ok rest v) : rest.length + 1 = i.length := by
  unfold satisfy at h
  cases i with
  | nil => cases h
  | cons b r =>
    cases hb : p b with
    | true => simp only [hb, if_true] at h; cases h; simp
    | false =>
      simp only [hb, Bool.false_eq_true, if_false] at h
      unfold ofErr at h; split at h <;> cases h

theorem consumed_rgood {α : Type} {input rest : Bytes} {k : Bytes → PResult α}
    (hs : rest <:+ input) (hk : ∀ s, RGood input (k s)) : RGood input (consumed input rest k) := by
  unfold consumed
  have := hs.length_le
  simp only [this, if_true]
  exact hk _

theorem fromUtf8_rgood {α : Type} {input s : Bytes} {k : Bytes → PResult α}
    (hk : ∀ s, RGood input (k s)) : RGood input (fromUtf8 s k) := by
  unfold fromUtf8; split
  · exact hk _
  · exact rgood_ofErr

end Scpi

namespace Scpi

theorem bind_eq_ok {α β : Type} {r : PResult α} {k : Bytes → α → PResult β} {rest : Bytes} {v : β}
    (h : r.bind k = .ok rest v) : ∃ r1 v1, r = .ok r1 v1 ∧ k r1 v1 = .ok rest v := by
  cases r with
  | ok r1 v1 => exact ⟨r1, v1, rfl, h⟩
  | soft e => cases h
  | fatal e => cases h
  | incomplete => cases h
  | crash c => cases h

theorem map_eq_ok {α β : Type} {r : PResult α} {f : α → β} {rest : Bytes} {v : β}
    (h : r.map f = .ok rest v) : ∃ v1, r = .ok rest v1 ∧ f v1 = v := by
  cases r with
  | ok r1 v1 => simp only [PResult.map] at h; cases h; exact ⟨v1, rfl, rfl⟩
  | soft e => cases h
  | fatal e => cases h
  | incomplete => cases h
  | crash c => cases h

theorem mapErr_eq_ok {α : Type} {r : PResult α} {e : StdErr} {rest : Bytes} {v : α}
    (h : r.mapErr e = .ok rest v) : r = .ok rest v := by
  cases r with
  | ok r1 v1 => exact h
  | soft _ => simp only [PResult.mapErr] at h; unfold ofErr at h; split at h <;> cases h
  | fatal _ => simp only [PResult.mapErr] at h; unfold ofErr at h; split at h <;> cases h
  | incomplete => simp only [PResult.mapErr] at h; unfold ofErr at h; split at h <;> cases h
  | crash c => cases h

theorem ofErr_ne_ok {α : Type} {e : StdErr} {rest : Bytes} {v : α} : (ofErr e : PResult α) ≠ .ok rest v := by
  unfold ofErr; split <;> intro h <;> cases h

theorem ofErr_ne_crash {α : Type} {e : StdErr} {c : Crash} : (ofErr e : PResult α) ≠ .crash c := by
  unfold ofErr; split <;> intro h <;> cases h

theorem orElse_eq_ok {α : Type} {a : PResult α} {b : Unit → PResult α} {rest : Bytes} {v : α}
    (h : a.orElse b = .ok rest v) : a = .ok rest v ∨ b () = .ok rest v := by
  cases a with
  | ok r1 v1 => exact Or.inl h
  | soft _ => exact Or.inr h
  | fatal _ => exact Or.inr h
  | incomplete => exact Or.inr h
  | crash c => cases h

end Scpi
