/-
Helper lemmas for C06: which handler invocation a call leads to, the
classification of one loop iteration by its fault, and isolation for the error log.
-/
import Scpi.Proofs.RunStepsLog
import Scpi.Proofs.RunStepsIso

namespace Scpi

section
variable {σ : Type} (I : Iface σ)

theorem invocation_of_resolve_none (call : CommandCall) (h : resolveCmd I call = none) :
    invocation I call = none := by
  unfold resolveCmd at h
  unfold invocation
  cases hs : unitSlot call with
  | none => rfl
  | some id =>
    rw [hs] at h
    simp only [Option.bind_some] at h
    simp only [h]

theorem resolve_some_slot (call : CommandCall) (c : Cmd σ) (h : resolveCmd I call = some c) :
    ∃ id, unitSlot call = some id ∧ I.cmds[id]? = some c := by
  unfold resolveCmd at h
  cases hs : unitSlot call with
  | none => rw [hs] at h; cases h
  | some id => rw [hs] at h; exact ⟨id, rfl, h⟩

theorem invocation_of_arity (call : CommandCall) (c : Cmd σ) (h : resolveCmd I call = some c)
    (hl : call.args.length ≠ c.argTys.length) : invocation I call = none := by
  obtain ⟨id, hs, hc⟩ := resolve_some_slot I call c h
  unfold invocation
  simp only [hs, hc, if_pos hl]

theorem invocation_of_convert_error (call : CommandCall) (c : Cmd σ) (h : resolveCmd I call = some c)
    (e : Err ⊕ Crash) (hca : convertArgs c.argTys call.args = .error e) : invocation I call = none := by
  obtain ⟨id, hs, hc⟩ := resolve_some_slot I call c h
  unfold invocation
  simp only [hs, hc, hca]
  split <;> rfl

theorem invocation_of_convert_ok (call : CommandCall) (c : Cmd σ) (h : resolveCmd I call = some c)
    (hl : call.args.length = c.argTys.length) (tvs : List TVal)
    (hca : convertArgs c.argTys call.args = .ok tvs) :
    ∃ id, unitSlot call = some id ∧ I.cmds[id]? = some c ∧ invocation I call = some (id, tvs) := by
  obtain ⟨id, hs, hc⟩ := resolve_some_slot I call c h
  refine ⟨id, hs, hc, ?_⟩
  unfold invocation
  have : ¬ call.args.length ≠ c.argTys.length := fun h => h hl
  simp only [hs, hc, hca, if_neg this]

/-- Tracing one unit: the log gets the invocation (at most one), nothing else. -/
theorem execute_traced (call : CommandCall) (w : Writer) (s : σ) (l : List Ev) :
    execute I.traced call w (s, l) =
      (((execute I call w s).1,
        l ++ match invocation I call with
             | none => []
             | some (id, tvs) => [Ev.call id tvs]),
       (execute I call w s).2.1, (execute I call w s).2.2) := by
  unfold Iface.traced
  rw [execute_instrument]
  unfold callLog
  cases invocation I call with
  | none => rfl
  | some p => rfl

theorem unitFault_length (c : Cfg σ) : (unitFault I c).toList.length ≤ 1 := by
  cases unitFault I c <;> simp

/-- When exactly a unit is faulty, and with which error. -/
theorem unitFault_eq_some_iff (c : Cfg σ) (e : Err) :
    unitFault I c = some e ↔
      (∃ e', parse I.root c.header c.input = .soft e' ∧ e = parseErrToErr e') ∨
      parse I.root c.header c.input = .fatal e ∨
      ∃ i call, parse I.root c.header c.input = .ok i (some call) ∧
        (execute I call c.w c.s).2.2 = .err e := by
  unfold unitFault
  cases hp : parse I.root c.header c.input with
  | soft e' => simp [eq_comm]
  | fatal e' => simp
  | incomplete => simp
  | crash cr => simp
  | ok i oc =>
    cases oc with
    | none => simp
    | some call =>
      simp only [reduceCtorEq, false_and, exists_false, PResult.ok.injEq, Option.some.injEq,
        false_or]
      cases hr : (execute I call c.w c.s).2.2 with
      | ok => simp [hr]
      | crash cr => simp [hr]
      | err e1 =>
        constructor
        · intro h; cases h; exact ⟨i, call, ⟨rfl, rfl⟩, hr⟩
        · rintro ⟨i', call', ⟨_, hc⟩, h⟩
          subst hc
          rw [hr] at h; cases h; rfl

end

/-- **Isolation for the error log**: the errors of `x ++ y` are those of `x` followed
by those of `y` run from the root on the writer and user state `x` left. -/
theorem errorsOf_append {σ : Type} (I : Iface σ) (hOk : ParseFinalOk) (hErr : ParseFinalErr)
    (h : Node) (x y : Bytes) (w : Writer) (s : σ) (hx : x.getLast? = some 10)
    (hrest : (runFrom I h x w s).rest = []) :
    errorsOf I h (x ++ y) w s =
      errorsOf I h x w s ++ errorsOf I I.root y (runFrom I h x w s).w (runFrom I h x w s).s := by
  have hl : (runFrom I.logged h x w (s, [])).rest = [] := by
    rw [runFrom_logged]; exact hrest
  have := (runFrom_append_aux I.logged hOk hErr _ h x w (s, []) (Nat.le_refl _) hx hl).2 y
  rw [runFrom_logged, runFrom_logged I h x] at this
  simp only [RunOut.withLog, List.nil_append] at this
  have hroot : I.logged.root = I.root := rfl
  rw [hroot, runFrom_logged] at this
  have := congrArg (fun o => o.s.2) this
  simpa [RunOut.withLog] using this

/-- The errors of a run along a trace: the faults of the configurations passed, in
order, then the errors of the run from the last one. -/
theorem errorsOf_trace {σ : Type} (I : Iface σ) : ∀ (cs : List (Cfg σ)) (c last : Cfg σ),
    IsTrace I c cs last →
    errorsOf I c.header c.input c.w c.s =
      ((c :: cs).dropLast.filterMap (unitFault I)) ++
        errorsOf I last.header last.input last.w last.s := by
  intro cs
  induction cs with
  | nil =>
    intro c last ht
    cases ht
    simp
  | cons c' cs ih =>
    intro c last ht
    obtain ⟨hne, hs, ht'⟩ := ht
    rw [errorsOf_step I c.header c.input c.w c.s hne]
    have : (⟨c.header, c.input, c.w, c.s⟩ : Cfg σ) = c := rfl
    rw [this, hs]
    simp only []
    rw [ih c' last ht']
    rw [List.dropLast_cons_cons, List.filterMap_cons]
    cases unitFault I c <;> simp

end Scpi
