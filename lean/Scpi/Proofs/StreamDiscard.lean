/-
The overflow rule of the stream machine can only fire on the last byte of a
block that fits in the free part of the buffer, so it may be applied once per
read instead of once per byte.
-/
import Scpi.Proofs.StreamList

namespace Scpi

theorem streamFeed_pending_le {σ : Type} (I : Iface σ) (n : Nat) (st : SpecState σ) (b : Nat) :
    (streamFeed I n st b).pending.length ≤ st.pending.length + 1 := by
  unfold streamFeed
  simp only []
  split
  · unfold streamNewline
    simp only []
    have h := (runFrom_good I st.header (st.pending ++ [b]) { cap := some n } st.user).2
    have := h.length_le
    simpa using this
  · simp

theorem streamDiscard_id {σ : Type} (I : Iface σ) (n : Nat) (st : SpecState σ)
    (h : st.pending.length < n) : streamDiscard I n st = st := by
  unfold streamDiscard
  rw [if_neg (by omega)]

theorem foldl_spec_eq_feed {σ : Type} (I : Iface σ) (n : Nat) : ∀ (l : Bytes) (st : SpecState σ),
    st.pending.length + l.length < n →
    l.foldl (streamSpec I n) st = l.foldl (streamFeed I n) st ∧
      (l.foldl (streamFeed I n) st).pending.length ≤ st.pending.length + l.length := by
  intro l
  induction l with
  | nil => intro st _; simp
  | cons x rest ih =>
    intro st h
    simp only [List.length_cons] at h
    have h1 := streamFeed_pending_le I n st x
    have h2 : streamSpec I n st x = streamFeed I n st x := streamDiscard_id I n _ (by omega)
    obtain ⟨a, b⟩ := ih (streamFeed I n st x) (by omega)
    simp only [List.foldl_cons, h2, List.length_cons]
    exact ⟨a, by omega⟩

/-- A block that fits in the free part of the buffer: the overflow rule once, at the end. -/
theorem foldl_spec_chunk {σ : Type} (I : Iface σ) (n : Nat) (l : Bytes) (st : SpecState σ)
    (h0 : st.pending.length < n) (h : st.pending.length + l.length ≤ n) :
    l.foldl (streamSpec I n) st = streamDiscard I n (l.foldl (streamFeed I n) st) := by
  rcases List.eq_nil_or_concat l with rfl | ⟨l', b, hl⟩
  · simp [streamDiscard_id I n st h0]
  · rw [List.concat_eq_append] at hl
    subst hl
    simp only [List.length_append, List.length_cons, List.length_nil] at h
    obtain ⟨a, _⟩ := foldl_spec_eq_feed I n l' st (by omega)
    simp only [List.foldl_append, List.foldl_cons, List.foldl_nil, a]
    rfl

end Scpi
