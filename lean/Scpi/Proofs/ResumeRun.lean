/-
The stream machine against ONE run over the whole input (C08, streaming half).

The machine interprets what is pending at every newline, with a fresh `n`-byte
response buffer, and keeps what `run_from` returns as unfinished.  `feed_sim` shows
that — as long as no response buffer overflows — this is one `run_from` over all the
bytes with an unbounded writer: same user state, same position, and the bytes written
are the bytes the machine has sent.
-/
import Scpi.Proofs.ResumeStream
import Scpi.Proofs.ResumeWriter

namespace Scpi

/-- The bytes handed to `adapter.write`, concatenated. -/
def outBytes : List PEv → Bytes
  | [] => []
  | .w b :: t => b ++ outBytes t
  | _ :: t => outBytes t

theorem outBytes_append (a b : List PEv) : outBytes (a ++ b) = outBytes a ++ outBytes b := by
  induction a with
  | nil => rfl
  | cons e t ih => cases e <;> simp [outBytes, ih]

/-- What a newline adds to the writes is the content of the response buffer. -/
theorem outBytes_response (b : Bytes) :
    outBytes (if b = [] then [] else [PEv.w b, PEv.f]) = b := by
  by_cases h : b = []
  · simp [h, outBytes]
  · simp [h, outBytes]

/-- One byte of the stream against the reference run: `W` is the unbounded writer of the
reference, `z` the bytes still to come.  If the reference ends with at most `n` bytes
more than `W` holds, the step of the machine is a step of the reference. -/
theorem feed_sim_step {σ : Type} (I : Iface σ) (n : Nat) (st : SpecState σ) (b : Nat) (z : Bytes)
    (W : Writer) (hW : W.cap = none)
    (hb : (runFrom I st.header (st.pending ++ b :: z) W st.user).w.buf.length ≤ W.buf.length + n) :
    ∃ (d : Bytes) (W' : Writer), W'.cap = none ∧ W'.buf = W.buf ++ d ∧
      outBytes (streamFeed I n st b).out = outBytes st.out ++ d ∧
      runFrom I st.header (st.pending ++ b :: z) W st.user =
        runFrom I (streamFeed I n st b).header ((streamFeed I n st b).pending ++ z) W'
          (streamFeed I n st b).user := by
  have e : st.pending ++ b :: z = (st.pending ++ [b]) ++ z := by simp
  by_cases hb10 : b = 10
  · subst hb10
    rw [e] at hb ⊢
    have hsplit := runFrom_split I st.header (st.pending ++ [10]) W st.user (by simp) z
    rw [hsplit] at hb
    have hbound : (runFrom I st.header (st.pending ++ [10]) W st.user).w.buf.length
        ≤ W.buf.length + n := Nat.le_trans (extends_runFrom I _ _ _ _).buf_le hb
    obtain ⟨r1, r2, r3, _, r5⟩ := runFrom_sim I n W.buf st.header (st.pending ++ [10])
      { cap := some n } W st.user ⟨rfl, hW, by simp⟩ hbound
    refine ⟨(runFrom I st.header (st.pending ++ [10]) { cap := some n } st.user).w.buf,
      (runFrom I st.header (st.pending ++ [10]) W st.user).w, r5.2.1, r5.2.2, ?_, ?_⟩
    · simp only [streamFeed, if_true, streamNewline, outBytes_append, outBytes_response]
    · rw [hsplit]
      simp only [streamFeed, if_true, streamNewline, r1, r2, r3]
  · refine ⟨[], W, hW, by simp, ?_, ?_⟩
    · simp only [streamFeed, hb10, if_false, List.append_nil]
    · simp only [streamFeed, hb10, if_false]
      rw [e]

/-- **The stream machine is one run** (without the overflow rule).  Feeding `l` from the
state `st`, with `y` still to come, against the reference run of `run_from` over
`pending ++ l ++ y` with the unbounded writer `W`: if the reference ends with at most `n`
bytes more than `W` holds — so that no per-newline response buffer overflows — the
reference is the run over the machine's pending bytes and `y` from the machine's path and
user state, with a writer that has gained exactly the bytes the machine has sent. -/
theorem feed_sim {σ : Type} (I : Iface σ) (n : Nat) : ∀ (l : Bytes) (st : SpecState σ) (y : Bytes)
    (W : Writer), W.cap = none →
    (runFrom I st.header (st.pending ++ (l ++ y)) W st.user).w.buf.length ≤ W.buf.length + n →
    ∃ (d : Bytes) (W' : Writer), W'.cap = none ∧ W'.buf = W.buf ++ d ∧
      outBytes (l.foldl (streamFeed I n) st).out = outBytes st.out ++ d ∧
      runFrom I st.header (st.pending ++ (l ++ y)) W st.user =
        runFrom I (l.foldl (streamFeed I n) st).header
          ((l.foldl (streamFeed I n) st).pending ++ y) W' (l.foldl (streamFeed I n) st).user := by
  intro l
  induction l with
  | nil => intro st y W hW _; exact ⟨[], W, hW, by simp, by simp, rfl⟩
  | cons b l ih =>
    intro st y W hW hb
    simp only [List.cons_append, List.foldl_cons] at hb ⊢
    obtain ⟨d1, W1, c1, b1, o1, e1⟩ := feed_sim_step I n st b (l ++ y) W hW hb
    rw [e1] at hb ⊢
    have hb' : (runFrom I (streamFeed I n st b).header ((streamFeed I n st b).pending ++ (l ++ y))
        W1 (streamFeed I n st b).user).w.buf.length ≤ W1.buf.length + n := by
      rw [b1, List.length_append]; omega
    obtain ⟨d2, W2, c2, b2, o2, e2⟩ := ih (streamFeed I n st b) y W1 c1 hb'
    exact ⟨d1 ++ d2, W2, c2, by rw [b2, b1, List.append_assoc],
      by rw [o2, o1, List.append_assoc], e2⟩

/-- **A message with newlines in payloads, streamed.**  Let `m` end with a newline, fit in
the `n`-byte command buffer and be consumed entirely by `run`; let the machine be between
messages.  If `run` on `m` with the unbounded writer `W` writes at most `n` bytes, the
machine ends between messages, in the user state `run` ends in, and the bytes it has
sent (`d`) are the bytes `run` has written. -/
theorem stream_eq_run_from {σ : Type} (I : Iface σ) (n : Nat) (m : Bytes) (st : SpecState σ)
    (W : Writer) (hW : W.cap = none)
    (hm : m.getLast? = some 10) (hfit : m.length ≤ n) (hc : (run I m W st.user).rest = [])
    (hresp : (run I m W st.user).w.buf.length ≤ W.buf.length + n)
    (hp : st.pending = []) (hh : st.header = I.root) :
    (m.foldl (streamSpec I n) st).pending = [] ∧
    (m.foldl (streamSpec I n) st).header = I.root ∧
    (m.foldl (streamSpec I n) st).user = (run I m W st.user).s ∧
    ∃ d, (run I m W st.user).w.buf = W.buf ++ d ∧
      outBytes (m.foldl (streamSpec I n) st).out = outBytes st.out ++ d := by
  have hcl := feed_closed I n m st W st.user hm hc hp hh
  rw [spec_eq_feed_closed I n m st W st.user hm hfit hc hp hh]
  have hb : (runFrom I st.header (st.pending ++ (m ++ [])) W st.user).w.buf.length
      ≤ W.buf.length + n := by
    rw [hp, hh, List.nil_append, List.append_nil]; exact hresp
  obtain ⟨d, W', c', b', o', e'⟩ := feed_sim I n m st [] W hW hb
  rw [hp, hh, List.nil_append, List.append_nil, hcl.1, hcl.2, List.nil_append, runFrom_nil] at e'
  unfold run
  rw [e']
  exact ⟨hcl.1, hcl.2, rfl, d, b', o'⟩

end Scpi
