/-
A bounded response buffer that never overflows behaves like an unbounded one.

`WSim n pre w₁ w₂`: `w₁` is an `n`-byte buffer, `w₂` is unbounded and holds the bytes
`pre` followed by the contents of `w₁`.  As long as the unbounded writer ends with at
most `n` bytes after `pre`, every write succeeds on both, the outcomes agree and the
relation is kept — for one call, a response, `execute`, and a whole `run_from`.

This is what relates the stream machine (a fresh `n`-byte response buffer at every
newline) to one `run` over the whole message.
-/
import Scpi.Proofs.RespRun
import Scpi.Proofs.RunSteps
import Scpi.Proofs.RunStepsExec

namespace Scpi

/-- `w₁`: `heapless::Vec<u8, n>`; `w₂`: unbounded, holding `pre` and then what `w₁` holds. -/
def WSim (n : Nat) (pre : Bytes) (w₁ w₂ : Writer) : Prop :=
  w₁.cap = some n ∧ w₂.cap = none ∧ w₂.buf = pre ++ w₁.buf

namespace Writer

theorem Extends.buf_le {w w' : Writer} (h : Extends w w') : w.buf.length ≤ w'.buf.length := by
  obtain ⟨_, ⟨b, hb⟩, _⟩ := h
  rw [hb, List.length_append]; omega

theorem wsim_push {n : Nat} {pre : Bytes} {w₁ w₂ : Writer} (h : WSim n pre w₁ w₂) (b : Bytes) :
    WSim n pre (w₁.push b) (w₂.push b) := by
  obtain ⟨c1, c2, hb⟩ := h
  exact ⟨c1, c2, by simp only [push, hb, List.append_assoc]⟩

theorem wsim_flush {n : Nat} {pre : Bytes} {w₁ w₂ : Writer} (h : WSim n pre w₁ w₂) :
    WSim n pre w₁.flush w₂.flush := h

theorem wsim_fits {n : Nat} {pre : Bytes} {w₁ w₂ : Writer} (h : WSim n pre w₁ w₂) (k : Nat)
    (hk : w₂.buf.length + k ≤ pre.length + n) : w₁.fits k = true := by
  obtain ⟨c1, _, hb⟩ := h
  rw [hb, List.length_append] at hk
  simp only [fits, c1, decide_eq_true_eq]
  omega

/-- One call. -/
theorem call_sim {n : Nat} {pre : Bytes} {w₁ w₂ : Writer} (h : WSim n pre w₁ w₂) (c : WCall)
    (hb : (w₂.call c).1.buf.length ≤ pre.length + n) :
    (w₁.call c).2 = (w₂.call c).2 ∧ WSim n pre (w₁.call c).1 (w₂.call c).1 := by
  have hc2 : w₂.cap = none := h.2.1
  cases c with
  | direct b =>
    have f2 : w₂.fits b.length = true := by simp [fits, hc2]
    simp only [call, f2, if_true, push, List.length_append] at hb
    have f1 := wsim_fits h b.length hb
    have e1 : w₁.call (.direct b) = (w₁.push b, .ok ()) := by simp only [call, f1, if_true]
    have e2 : w₂.call (.direct b) = (w₂.push b, .ok ()) := by simp only [call, f2, if_true]
    rw [e1, e2]
    exact ⟨rfl, wsim_push h b⟩
  | fmt ps =>
    have e2 : w₂.call (.fmt ps) = (w₂.push ps.flatten, .ok ()) := by simp only [call, hc2]
    rw [e2] at hb ⊢
    simp only [push, List.length_append] at hb
    obtain ⟨w', hw'⟩ := pushPieces_fits ps w₁ (wsim_fits h _ hb)
    obtain ⟨hcap, hbuf, _⟩ := pushPieces_true ps w₁ w' hw'
    have e1 : w₁.call (.fmt ps) = (w', .ok ()) := by simp only [call, h.1, hw']
    rw [e1]
    refine ⟨rfl, hcap.trans h.1, hc2, ?_⟩
    simp only [push, hbuf, h.2.2, List.append_assoc]
  | fail e => exact ⟨rfl, h⟩

/-- A sequence of calls. -/
theorem calls_sim {n : Nat} {pre : Bytes} : ∀ (cs : List WCall) (w₁ w₂ : Writer),
    WSim n pre w₁ w₂ → (w₂.calls cs).1.buf.length ≤ pre.length + n →
    (w₁.calls cs).2 = (w₂.calls cs).2 ∧ WSim n pre (w₁.calls cs).1 (w₂.calls cs).1
  | [], _, _, h, _ => ⟨rfl, h⟩
  | c :: cs, w₁, w₂, h, hb => by
    have hstep : (w₂.call c).1.buf.length ≤ pre.length + n := by
      refine Nat.le_trans ?_ hb
      unfold calls
      rcases hc : w₂.call c with ⟨w', r⟩
      cases r with
      | ok u => cases u; exact (extends_calls cs w').buf_le
      | error e => exact Nat.le_refl _
    obtain ⟨r1, s1⟩ := call_sim h c hstep
    unfold calls at hb ⊢
    rcases hc2 : w₂.call c with ⟨w2', r2⟩
    rcases hc1 : w₁.call c with ⟨w1', r1'⟩
    rw [hc1, hc2] at r1 s1
    rw [hc2] at hb
    simp only [] at r1 s1
    subst r1
    cases r1' with
    | ok u => cases u; exact calls_sim cs w1' w2' s1 hb
    | error e => exact ⟨rfl, s1⟩

end Writer

open Writer

/-- Writing the response of a handler (and the newline of a query). -/
theorem respond_sim {n : Nat} {pre : Bytes} {w₁ w₂ : Writer} (h : WSim n pre w₁ w₂) (q : Bool)
    (resp : Resp) (hb : (respond q w₂ resp).1.buf.length ≤ pre.length + n) :
    (respond q w₁ resp).2 = (respond q w₂ resp).2 ∧
    WSim n pre (respond q w₁ resp).1 (respond q w₂ resp).1 := by
  have hext : (w₂.writeResp resp).1.buf.length ≤ (respond q w₂ resp).1.buf.length := by
    unfold respond
    rcases hw : w₂.writeResp resp with ⟨w', r⟩
    cases r with
    | error e => exact Nat.le_refl _
    | ok u =>
      cases u
      simp only []
      cases q with
      | false => exact Nat.le_refl _
      | true =>
        simp only [if_true]
        have := extends_call w' (.direct [10])
        rcases hn : w'.call (.direct [10]) with ⟨w'', r''⟩
        rw [hn] at this
        cases r'' with
        | error e => exact this.buf_le
        | ok u => cases u; exact this.buf_le
  obtain ⟨r1, s1⟩ := calls_sim resp.calls w₁ w₂ h (Nat.le_trans hext hb)
  unfold respond at hb ⊢
  unfold Writer.writeResp at hb ⊢
  rcases hw2 : w₂.calls resp.calls with ⟨w2', r2⟩
  rcases hw1 : w₁.calls resp.calls with ⟨w1', r1'⟩
  rw [hw1, hw2] at r1 s1
  rw [hw2] at hb
  simp only [] at r1 s1
  subst r1
  cases r1' with
  | error e => exact ⟨rfl, s1⟩
  | ok u =>
    cases u
    simp only [] at hb ⊢
    cases q with
    | false => exact ⟨rfl, s1⟩
    | true =>
      simp only [if_true] at hb ⊢
      have hstep : (w2'.call (.direct [10])).1.buf.length ≤ pre.length + n := by
        refine Nat.le_trans ?_ hb
        rcases hn : w2'.call (.direct [10]) with ⟨w'', r''⟩
        cases r'' with
        | error e => exact Nat.le_refl _
        | ok u => cases u; exact Nat.le_refl _
      obtain ⟨r3, s3⟩ := call_sim s1 (.direct [10]) hstep
      rcases hn2 : w2'.call (.direct [10]) with ⟨w2'', r2''⟩
      rcases hn1 : w1'.call (.direct [10]) with ⟨w1'', r1''⟩
      rw [hn1, hn2] at r3 s3
      simp only [] at r3 s3
      subst r3
      cases r1'' with
      | error e => exact ⟨rfl, s3⟩
      | ok u => cases u; exact ⟨rfl, wsim_flush s3⟩

/-- Executing one unit: same user state, same outcome, related writers. -/
theorem execute_sim {σ : Type} (I : Iface σ) {n : Nat} {pre : Bytes} {w₁ w₂ : Writer}
    (h : WSim n pre w₁ w₂) (call : CommandCall) (s : σ)
    (hb : (execute I call w₂ s).2.1.buf.length ≤ pre.length + n) :
    (execute I call w₁ s).1 = (execute I call w₂ s).1 ∧
    (execute I call w₁ s).2.2 = (execute I call w₂ s).2.2 ∧
    WSim n pre (execute I call w₁ s).2.1 (execute I call w₂ s).2.1 := by
  rw [execute_eq I call w₁ s]
  rw [execute_eq I call w₂ s] at hb ⊢
  cases hr : resolveCmd I call with
  | none => exact ⟨rfl, rfl, h⟩
  | some c =>
    rw [hr] at hb
    simp only [] at hb ⊢
    by_cases hl : call.args.length ≠ c.argTys.length
    · simp only [if_pos hl]; exact ⟨trivial, trivial, h⟩
    · simp only [if_neg hl] at hb ⊢
      cases hca : convertArgs c.argTys call.args with
      | error e => cases e <;> exact ⟨rfl, rfl, h⟩
      | ok tvs =>
        rw [hca] at hb
        simp only [] at hb ⊢
        rcases hh : c.handler s tvs with ⟨s', r⟩
        rw [hh] at hb
        cases r with
        | error e => exact ⟨rfl, rfl, h⟩
        | ok resp =>
          simp only [] at hb ⊢
          obtain ⟨a, b⟩ := respond_sim h call.query resp hb
          exact ⟨trivial, a, b⟩

/-- Two outcomes of `run_from` that differ only in the writers, which are related. -/
def OutSim {σ : Type} (n : Nat) (pre : Bytes) (o₁ o₂ : RunOut σ) : Prop :=
  o₁.rest = o₂.rest ∧ o₁.header = o₂.header ∧ o₁.s = o₂.s ∧ o₁.crash = o₂.crash ∧
    WSim n pre o₁.w o₂.w

theorem extends_runFrom {σ : Type} (I : Iface σ) (h : Node) (x : Bytes) (w : Writer) (s : σ) :
    Extends w (runFrom I h x w s).w := extends_runLoop I _ h x w s

theorem runFrom_sim_aux {σ : Type} (I : Iface σ) (n : Nat) (pre : Bytes) :
    ∀ (k : Nat) (h : Node) (x : Bytes) (w₁ w₂ : Writer) (s : σ), x.length ≤ k →
    WSim n pre w₁ w₂ → (runFrom I h x w₂ s).w.buf.length ≤ pre.length + n →
    OutSim n pre (runFrom I h x w₁ s) (runFrom I h x w₂ s) := by
  intro k
  induction k with
  | zero =>
    intro h x w₁ w₂ s hl hs _
    have : x = [] := List.eq_nil_of_length_eq_zero (by omega)
    subst this
    rw [runFrom_nil, runFrom_nil]
    exact ⟨rfl, rfl, rfl, rfl, hs⟩
  | succ k ih =>
    intro h x w₁ w₂ s hl hs hb
    by_cases hne : x = []
    · subst hne
      rw [runFrom_nil, runFrom_nil]
      exact ⟨rfl, rfl, rfl, rfl, hs⟩
    have hstrict := parse_strict I.root h x
    cases hp : parse I.root h x with
    | crash c => exact absurd hp (hstrict.noCrash c)
    | incomplete =>
      rw [runFrom_stop hne (unitStep_incomplete I ⟨h, x, w₁, s⟩ hp),
        runFrom_stop hne (unitStep_incomplete I ⟨h, x, w₂, s⟩ hp)]
      exact ⟨rfl, rfl, rfl, rfl, hs⟩
    | soft e =>
      have h1 := unitStep_soft I ⟨h, x, w₁, s⟩ e hp
      have h2 := unitStep_soft I ⟨h, x, w₂, s⟩ e hp
      simp only [] at h1 h2
      cases ha : afterNewline x with
      | none =>
        rw [ha] at h1 h2
        rw [runFrom_stop hne h1, runFrom_stop hne h2]
        exact ⟨rfl, rfl, rfl, rfl, hs⟩
      | some r =>
        rw [ha] at h1 h2
        obtain ⟨_, hlt⟩ := afterNewline_suffix _ _ ha
        rw [runFrom_next hne h2] at hb
        rw [runFrom_next hne h1, runFrom_next hne h2]
        exact ih _ r w₁ w₂ _ (by omega) hs hb
    | fatal e =>
      have h1 := unitStep_fatal I ⟨h, x, w₁, s⟩ e hp
      have h2 := unitStep_fatal I ⟨h, x, w₂, s⟩ e hp
      simp only [] at h1 h2
      cases ha : afterNewline x with
      | none =>
        rw [ha] at h1 h2
        rw [runFrom_stop hne h1, runFrom_stop hne h2]
        exact ⟨rfl, rfl, rfl, rfl, hs⟩
      | some r =>
        rw [ha] at h1 h2
        obtain ⟨_, hlt⟩ := afterNewline_suffix _ _ ha
        rw [runFrom_next hne h2] at hb
        rw [runFrom_next hne h1, runFrom_next hne h2]
        exact ih _ r w₁ w₂ _ (by omega) hs hb
    | ok i oc =>
      have hlt := hstrict.lt _ _ hp
      cases oc with
      | none =>
        have h1 := unitStep_empty_message I ⟨h, x, w₁, s⟩ i hp
        have h2 := unitStep_empty_message I ⟨h, x, w₂, s⟩ i hp
        rw [runFrom_next hne h2] at hb
        rw [runFrom_next hne h1, runFrom_next hne h2]
        exact ih _ i w₁ w₂ _ (by omega) hs hb
      | some call =>
        have h1 := unitStep_call I ⟨h, x, w₁, s⟩ i call hp
        have h2 := unitStep_call I ⟨h, x, w₂, s⟩ i call hp
        simp only [] at h1 h2
        rw [runFrom_next hne h2] at hb
        rw [runFrom_next hne h1, runFrom_next hne h2]
        simp only [] at hb ⊢
        have hex : (execute I call w₂ s).2.1.buf.length ≤ pre.length + n :=
          Nat.le_trans (extends_runFrom I _ _ _ _).buf_le hb
        obtain ⟨e1, e2, e3⟩ := execute_sim I hs call s hex
        rw [e1, e2]
        exact ih _ i _ _ _ (by omega) e3 hb

/-- **A response buffer that is large enough is as good as an unbounded one.**  If the run
with the unbounded writer `w₂` ends with at most `n` bytes after `pre`, the run with the
`n`-byte buffer `w₁` stops at the same place with the same path, user state and outcome,
and has written the same bytes. -/
theorem runFrom_sim {σ : Type} (I : Iface σ) (n : Nat) (pre : Bytes) (h : Node) (x : Bytes)
    (w₁ w₂ : Writer) (s : σ) (hs : WSim n pre w₁ w₂)
    (hb : (runFrom I h x w₂ s).w.buf.length ≤ pre.length + n) :
    OutSim n pre (runFrom I h x w₁ s) (runFrom I h x w₂ s) :=
  runFrom_sim_aux I n pre _ h x w₁ w₂ s (Nat.le_refl _) hs hb

end Scpi
