/-
Facts about `run_from` on a complete message (for T7.2): a unit that is not
terminated ended at a semicolon, so after a message whose last byte is the newline
has been consumed completely the header path is the root again.
-/
import Scpi.Proofs.RunGood

namespace Scpi

theorem tag_ok_cons {t : Nat} {i r : Bytes} {b : Nat} (h : tag t i = .ok r b) : i = t :: r := by
  unfold tag satisfy at h
  cases i with
  | nil => cases h
  | cons x rest =>
    simp only [] at h
    split at h
    · next hx =>
      cases h
      have : b = t := by simpa using hx
      rw [this]
    · exact absurd h ofErr_ne_ok

theorem parseTail_semi {nh : Node × Option Node} {q : Bool} {i6 rest : Bytes} {args : List Value}
    {call : CommandCall} (h : parseTail nh q i6 args = .ok rest (some call))
    (ht : call.terminated = false) : (59 :: rest) <:+ i6 := by
  unfold parseTail at h
  obtain ⟨i7, _, e7, h⟩ := bind_eq_ok h
  obtain ⟨i8, t, e8, h⟩ := bind_eq_ok h
  cases h
  simp only [] at ht
  subst ht
  have s7 := (good_optP good_whitespace i6).suffix _ _ e7
  rcases orElse_eq_ok e8 with e | e
  · obtain ⟨_, _, e⟩ := map_eq_ok e; cases e
  · obtain ⟨_, e, _⟩ := map_eq_ok e
    rw [← tag_ok_cons e]
    exact s7

theorem parseArgs_semi {nh : Node × Option Node} {q hasArgs : Bool} {i5 rest : Bytes}
    {call : CommandCall} (h : parseArgs nh q i5 hasArgs = .ok rest (some call))
    (ht : call.terminated = false) : (59 :: rest) <:+ i5 := by
  unfold parseArgs at h
  split at h
  · have ha := arguments_good i5
    split at h
    · next i6 u args e =>
      have : (arguments i5).1 = .ok i6 u := by rw [e]
      exact (parseTail_semi h ht).trans (ha.suffix _ _ this)
    · exact parseTail_semi h ht
    · cases h
    · cases h
    · cases h
  · exact parseTail_semi h ht

theorem parseAfterHeader_semi {nh : Node × Option Node} {i3 rest : Bytes}
    {call : CommandCall} (h : parseAfterHeader nh i3 = .ok rest (some call))
    (ht : call.terminated = false) : (59 :: rest) <:+ i3 := by
  unfold parseAfterHeader at h
  have hq := queryMark_suffix i3
  cases e5 : whitespace (queryMark i3).1 with
  | ok i5 w5 =>
    rw [e5] at h
    exact ((parseArgs_semi h ht).trans ((good_whitespace _).suffix _ _ e5)).trans hq
  | soft e => rw [e5] at h; exact (parseArgs_semi h ht).trans hq
  | fatal e => rw [e5] at h; cases h
  | incomplete => rw [e5] at h; cases h
  | crash c => rw [e5] at h; cases h

/-- A unit that `parse` accepts without the message terminator ended at a semicolon. -/
theorem parse_semi {root header : Node} {input rest : Bytes} {call : CommandCall}
    (h : parse root header input = .ok rest (some call)) (ht : call.terminated = false) :
    (59 :: rest) <:+ input := by
  unfold parse at h
  obtain ⟨i1, _, e1, h⟩ := bind_eq_ok h
  obtain ⟨i2, t, e2, h⟩ := bind_eq_ok h
  have h1 := (good_optP good_whitespace input).suffix _ _ e1
  have h2 := (good_optP (good_tag 10) i1).suffix _ _ e2
  split at h
  · cases h
  · obtain ⟨i3, nh, e3, h⟩ := bind_eq_ok h
    have h3 := (good_commandHeader root header i2).suffix _ _ e3
    exact (((parseAfterHeader_semi h ht).trans h3).trans h2).trans h1

/-- The last byte, if there is one, is the newline. -/
def EndsNl (input : Bytes) : Prop := ∀ pre b, input = pre ++ [b] → b = 10

theorem EndsNl.suffix {i input : Bytes} (h : EndsNl input) (hs : i <:+ input) : EndsNl i := by
  obtain ⟨p, rfl⟩ := hs
  intro pre b e
  exact h (p ++ pre) b (by rw [e, List.append_assoc])

theorem endsNl_append_nl (body : Bytes) : EndsNl (body ++ [10]) := by
  intro pre b e
  have := List.append_inj' e rfl
  simpa using this.2.symm

end Scpi

namespace Scpi

/-- After a newline-terminated input has been consumed completely, the header path
is the root. -/
theorem runLoop_header_root {σ : Type} (I : Iface σ) : ∀ (fuel : Nat) (header : Node) (input : Bytes)
    (w : Writer) (s : σ), input.length < fuel → (input = [] → header = I.root) → EndsNl input →
    (runLoop I fuel header input w s).rest = [] →
    (runLoop I fuel header input w s).header = I.root := by
  intro fuel
  induction fuel with
  | zero => intro _ input _ _ h; omega
  | succ n ih =>
    intro header input w s hlt hnil hnl
    unfold runLoop
    split
    · next he => intro _; exact hnil (by simpa using he)
    · next hne =>
      have hne' : input ≠ [] := by simpa using hne
      have hp := parse_strict I.root header input
      split
      · intro h; exact absurd h hne'
      · intro h; exact absurd h hne'
      · next e _ =>
        simp only []
        split
        · next rest hr =>
          obtain ⟨h1, h2⟩ := afterNewline_suffix _ _ hr
          exact ih I.root rest w _ (by omega) (fun _ => rfl) (hnl.suffix h1)
        · intro h; exact absurd h hne'
      · next e _ =>
        simp only []
        split
        · next rest hr =>
          obtain ⟨h1, h2⟩ := afterNewline_suffix _ _ hr
          exact ih I.root rest w _ (by omega) (fun _ => rfl) (hnl.suffix h1)
        · intro h; exact absurd h hne'
      · next i e =>
        have h1 := hp.suffix _ _ e
        have h2 := hp.lt _ _ e
        exact ih I.root i w s (by omega) (fun _ => rfl) (hnl.suffix h1)
      · next i call e =>
        have h1 := hp.suffix _ _ e
        have h2 := hp.lt _ _ e
        split
        · intro h; exact absurd h hne'
        · next s' w' r _ he =>
          refine ih _ i _ _ (by omega) (fun hi => ?_) (hnl.suffix h1)
          cases ht : call.terminated with
          | true => simp
          | false =>
            have hs := parse_semi e ht
            rw [hi] at hs
            obtain ⟨p, hp'⟩ := hs
            have := hnl p 59 hp'.symm
            omega

theorem runFrom_header_root {σ : Type} (I : Iface σ) (body : Bytes) (w : Writer) (s : σ)
    (h : (runFrom I I.root (body ++ [10]) w s).rest = []) :
    (runFrom I I.root (body ++ [10]) w s).header = I.root :=
  runLoop_header_root I _ _ _ w s (Nat.lt_succ_self _) (fun _ => rfl) (endsNl_append_nl body) h

end Scpi
