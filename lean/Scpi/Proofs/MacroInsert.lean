/-
`insertPaths` and `insertAll` specified through the exact-key observation
`lookupId`: when they succeed, what the resulting trie contains, and which
declaration is reported on failure.
-/
import Scpi.Proofs.MacroTrie

namespace Scpi

/-! ### `insertAt` -/

theorem insertAt_ok_iff (n : Node) (path : List Bytes) (id : Nat) (q : Bool) :
    (∃ n', insertAt n path id q = .ok n') ↔ ∀ j, lookupId q n path = some j → j = id := by
  rcases insSpec n path id q with ⟨j, hne, hj, herr⟩ | ⟨n', hcomp, hok, _⟩
  · constructor
    · rintro ⟨n', h⟩; rw [herr] at h; cases h
    · intro h; exact absurd (h j hj) hne
  · exact ⟨fun _ => hcomp, fun _ => ⟨n', hok⟩⟩

theorem insertAt_upd {n n' : Node} {path : List Bytes} {id : Nat} {q : Bool}
    (h : insertAt n path id q = .ok n') : Upd n n' path id q := by
  rcases insSpec n path id q with ⟨j, _, _, herr⟩ | ⟨n'', _, hok, hupd⟩
  · rw [herr] at h; cases h
  · rw [hok] at h; cases h; exact hupd

theorem insertAt_error {n : Node} {path : List Bytes} {id : Nat} {q : Bool} {e : MacroErr}
    (h : insertAt n path id q = .error e) :
    e = errKind q ∧ ∃ j, j ≠ id ∧ lookupId q n path = some j := by
  rcases insSpec n path id q with ⟨j, hne, hj, herr⟩ | ⟨n'', _, hok, _⟩
  · rw [herr] at h; cases h; exact ⟨rfl, j, hne, hj⟩
  · rw [hok] at h; cases h

/-! ### `insertPaths` -/

/-- `n'` is `n` with the entries `(p, q) ↦ id` for all `p ∈ ps` added. -/
def UpdAll (n n' : Node) (ps : List (List Bytes)) (id : Nat) (q : Bool) : Prop :=
  ∀ q' p', lookupId q' n' p' = if p' ∈ ps ∧ q' = q then some id else lookupId q' n p'

theorem insertPaths_spec (n : Node) (ps : List (List Bytes)) (id : Nat) (q : Bool) :
    ((∃ p ∈ ps, ∃ j, j ≠ id ∧ lookupId q n p = some j) ∧
      insertPaths n ps id q = .error (errKind q)) ∨
    (∃ n', (∀ p ∈ ps, ∀ j, lookupId q n p = some j → j = id) ∧
      insertPaths n ps id q = .ok n' ∧ UpdAll n n' ps id q) := by
  induction ps generalizing n with
  | nil =>
    refine .inr ⟨n, by simp, rfl, ?_⟩
    intro q' p'; simp
  | cons p ps ih =>
    rw [insertPaths]
    rcases insSpec n p id q with ⟨j, hne, hj, herr⟩ | ⟨n1, hcomp, hok, hupd⟩
    · exact .inl ⟨⟨p, List.mem_cons_self, j, hne, hj⟩, by rw [herr]⟩
    · rw [hok]
      rcases ih n1 with ⟨⟨p', hp', j, hne, hj⟩, herr⟩ | ⟨n', hcomp', hok', hupd'⟩
      · refine .inl ⟨⟨p', List.mem_cons_of_mem _ hp', j, hne, ?_⟩, herr⟩
        rw [hupd] at hj
        split at hj
        · cases hj; exact absurd rfl hne
        · exact hj
      · refine .inr ⟨n', ?_, hok', ?_⟩
        · intro p' hp' j hj
          rcases List.mem_cons.1 hp' with rfl | hp'
          · exact hcomp j hj
          · by_cases hpp : p' = p
            · subst hpp; exact hcomp j hj
            · refine hcomp' p' hp' j ?_
              rw [hupd]; simp [hpp, hj]
        · intro q' p'
          rw [hupd', hupd]
          by_cases h1 : p' ∈ ps ∧ q' = q
          · simp [h1]
          · by_cases h2 : p' = p ∧ q' = q
            · simp [h2]
            · have : ¬ (p' ∈ p :: ps ∧ q' = q) := by
                rintro ⟨hm, hq⟩
                rcases List.mem_cons.1 hm with h | h
                · exact h2 ⟨h, hq⟩
                · exact h1 ⟨h, hq⟩
              rw [if_neg h1, if_neg h2, if_neg this]

theorem insertPaths_ok_iff (n : Node) (ps : List (List Bytes)) (id : Nat) (q : Bool) :
    (∃ n', insertPaths n ps id q = .ok n') ↔
      ∀ p ∈ ps, ∀ j, lookupId q n p = some j → j = id := by
  rcases insertPaths_spec n ps id q with ⟨⟨p, hp, j, hne, hj⟩, herr⟩ | ⟨n', hcomp, hok, _⟩
  · constructor
    · rintro ⟨n', h⟩; rw [herr] at h; cases h
    · intro h; exact absurd (h p hp j hj) hne
  · exact ⟨fun _ => hcomp, fun _ => ⟨n', hok⟩⟩

theorem insertPaths_upd {n n' : Node} {ps : List (List Bytes)} {id : Nat} {q : Bool}
    (h : insertPaths n ps id q = .ok n') : UpdAll n n' ps id q := by
  rcases insertPaths_spec n ps id q with ⟨_, herr⟩ | ⟨n'', _, hok, hupd⟩
  · rw [herr] at h; cases h
  · rw [hok] at h; cases h; exact hupd

theorem insertPaths_error {n : Node} {ps : List (List Bytes)} {id : Nat} {q : Bool}
    {e : MacroErr} (h : insertPaths n ps id q = .error e) :
    e = errKind q ∧ ∃ p ∈ ps, ∃ j, j ≠ id ∧ lookupId q n p = some j := by
  rcases insertPaths_spec n ps id q with ⟨hex, herr⟩ | ⟨n'', _, hok, _⟩
  · rw [herr] at h; cases h; exact ⟨rfl, hex⟩
  · rw [hok] at h; cases h

/-! ### `insertAll` -/

/-- Every id stored in `n` is below `b`. -/
def Below (n : Node) (b : Nat) : Prop := ∀ q p i, lookupId q n p = some i → i < b

/-- Declaration number `i` (counting from `start`) has kind `q` and path `p`. -/
def Owns (cmds : List Command) (start : Nat) (q : Bool) (p : List Bytes) (i : Nat) : Prop :=
  start ≤ i ∧ ∃ c, cmds[i - start]? = some c ∧ c.query = q ∧ p ∈ c.paths

/-- Two declarations have no path of the same kind in common. -/
def PathsDisjoint (c c' : Command) : Prop := c.query = c'.query → ∀ p ∈ c.paths, p ∉ c'.paths

theorem below_emptyNode (b : Nat) : Below emptyNode b := by
  intro q p i h; rw [emptyNode, lookupId_empty] at h; cases h

theorem insertAll_nil (n : Node) (id : Nat) : insertAll n [] id = .ok n := rfl

theorem insertAll_cons (n : Node) (c : Command) (cs : List Command) (id : Nat) :
    insertAll n (c :: cs) id =
      match insertPaths n c.paths id c.query with
      | .ok n' => insertAll n' cs (id + 1)
      | .error e => .error (e, id, n) := rfl

theorem owns_cons (c : Command) (cs : List Command) (start : Nat) (q : Bool) (p : List Bytes)
    (i : Nat) :
    Owns (c :: cs) start q p i ↔ (i = start ∧ c.query = q ∧ p ∈ c.paths) ∨ Owns cs (start + 1) q p i := by
  unfold Owns
  constructor
  · rintro ⟨hle, c', hc', hq, hp⟩
    by_cases hi : i = start
    · subst hi
      simp only [Nat.sub_self, List.getElem?_cons_zero, Option.some.injEq] at hc'
      subst hc'; exact .inl ⟨rfl, hq, hp⟩
    · have h1 : i - start = (i - (start + 1)) + 1 := by omega
      rw [h1, List.getElem?_cons_succ] at hc'
      exact .inr ⟨by omega, c', hc', hq, hp⟩
  · rintro (⟨rfl, hq, hp⟩ | ⟨hle, c', hc', hq, hp⟩)
    · exact ⟨Nat.le_refl _, c, by simp, hq, hp⟩
    · have h1 : i - start = (i - (start + 1)) + 1 := by omega
      exact ⟨by omega, c', by rw [h1, List.getElem?_cons_succ]; exact hc', hq, hp⟩

/-- Contents of the trie after a successful `insertAll`. -/
theorem insertAll_lookup {n n' : Node} {cmds : List Command} {start : Nat} (hb : Below n start)
    (h : insertAll n cmds start = .ok n') (q : Bool) (p : List Bytes) (i : Nat) :
    lookupId q n' p = some i ↔ lookupId q n p = some i ∨ Owns cmds start q p i := by
  induction cmds generalizing n start with
  | nil =>
    rw [insertAll_nil] at h; cases h
    constructor
    · exact .inl
    · rintro (h | ⟨_, c, hc, _⟩)
      · exact h
      · simp at hc
  | cons c cs ih =>
    rw [insertAll_cons] at h
    cases h1 : insertPaths n c.paths start c.query with
    | error e => rw [h1] at h; cases h
    | ok n1 =>
      rw [h1] at h
      have hupd := insertPaths_upd h1
      have hcomp := (insertPaths_ok_iff n c.paths start c.query).1 ⟨n1, h1⟩
      have hb1 : Below n1 (start + 1) := by
        intro q' p' i' hi'
        rw [hupd] at hi'
        split at hi'
        · cases hi'; omega
        · have := hb q' p' i' hi'; omega
      rw [ih hb1 h, owns_cons, hupd]
      by_cases hm : p ∈ c.paths ∧ q = c.query
      · obtain ⟨hm, rfl⟩ := hm
        rw [if_pos ⟨hm, rfl⟩]
        constructor
        · rintro (h | h)
          · cases h; exact .inr (.inl ⟨rfl, rfl, hm⟩)
          · exact .inr (.inr h)
        · rintro (h | ⟨rfl, _⟩ | h)
          · have h2 := hcomp p hm i h
            have h3 := hb _ _ _ h
            omega
          · exact .inl rfl
          · exact .inr h
      · rw [if_neg hm]
        constructor
        · rintro (h | h)
          · exact .inl h
          · exact .inr (.inr h)
        · rintro (h | ⟨_, hq, hp⟩ | h)
          · exact .inl h
          · exact absurd ⟨hp, hq.symm⟩ hm
          · exact .inr h

theorem insertAll_below {n n' : Node} {cmds : List Command} {start : Nat} (hb : Below n start)
    (h : insertAll n cmds start = .ok n') : Below n' (start + cmds.length) := by
  intro q p i hi
  rcases (insertAll_lookup hb h q p i).1 hi with h1 | ⟨hle, c, hc, _⟩
  · have := hb q p i h1; omega
  · have := (List.getElem?_eq_some_iff.1 hc).1; omega

/-- `insertAll` succeeds exactly when the declarations' paths are fresh in the
start tree and pairwise disjoint per kind. -/
theorem insertAll_ok_iff_gen (n : Node) (cmds : List Command) (start : Nat) (hb : Below n start) :
    (∃ n', insertAll n cmds start = .ok n') ↔
      (∀ c ∈ cmds, ∀ p ∈ c.paths, lookupId c.query n p = none) ∧
        cmds.Pairwise PathsDisjoint := by
  induction cmds generalizing n start with
  | nil => simp [insertAll_nil]
  | cons c cs ih =>
    rw [insertAll_cons]
    cases h1 : insertPaths n c.paths start c.query with
    | error e =>
      simp only [reduceCtorEq, exists_false, false_iff]
      rintro ⟨hfresh, _⟩
      obtain ⟨_, p, hp, j, _, hj⟩ := insertPaths_error h1
      rw [hfresh c List.mem_cons_self p hp] at hj; cases hj
    | ok n1 =>
      have hupd := insertPaths_upd h1
      have hcomp := (insertPaths_ok_iff n c.paths start c.query).1 ⟨n1, h1⟩
      have hb1 : Below n1 (start + 1) := by
        intro q' p' i' hi'
        rw [hupd] at hi'
        split at hi'
        · cases hi'; omega
        · have := hb q' p' i' hi'; omega
      have hc_fresh : ∀ p ∈ c.paths, lookupId c.query n p = none := by
        intro p hp
        cases hl : lookupId c.query n p with
        | none => rfl
        | some j =>
          have h2 := hcomp p hp j hl
          have h3 := hb _ _ _ hl
          omega
      simp only [ih n1 (start + 1) hb1, List.pairwise_cons, List.mem_cons, forall_eq_or_imp]
      constructor
      · rintro ⟨hfresh, hpw⟩
        refine ⟨⟨hc_fresh, ?_⟩, ?_, hpw⟩
        · intro c' hc' p hp
          have := hfresh c' hc' p hp
          rw [hupd] at this
          split at this
          · cases this
          · exact this
        · intro c' hc' hq p hp hp'
          have := hfresh c' hc' p hp'
          rw [hupd] at this
          simp [hp, hq] at this
      · rintro ⟨⟨_, hfresh⟩, hdis, hpw⟩
        refine ⟨?_, hpw⟩
        intro c' hc' p hp
        rw [hupd]
        have hn : ¬ (p ∈ c.paths ∧ c'.query = c.query) := by
          rintro ⟨hpc, hq⟩
          exact hdis c' hc' hq.symm p hpc hp
        simp only [hn, if_false]
        exact hfresh c' hc' p hp

/-- Shape of a failing `insertAll`: the declarations before the reported one
were inserted, giving the reported tree, and the reported one failed. -/
theorem insertAll_error_split {n t : Node} {cmds : List Command} {start k : Nat} {e : MacroErr}
    (h : insertAll n cmds start = .error (e, k, t)) :
    ∃ pre c post, cmds = pre ++ c :: post ∧ k = start + pre.length ∧
      insertAll n pre start = .ok t ∧ insertPaths t c.paths k c.query = .error e := by
  induction cmds generalizing n start with
  | nil => rw [insertAll_nil] at h; cases h
  | cons c cs ih =>
    rw [insertAll_cons] at h
    cases h1 : insertPaths n c.paths start c.query with
    | error e' =>
      rw [h1] at h
      cases h
      exact ⟨[], c, cs, rfl, rfl, rfl, h1⟩
    | ok n1 =>
      rw [h1] at h
      obtain ⟨pre, c', post, hcs, hk, hpre, herr⟩ := ih h
      refine ⟨c :: pre, c', post, by rw [hcs]; rfl, by simp only [List.length_cons]; omega, ?_, herr⟩
      rw [insertAll_cons, h1]; exact hpre

end Scpi

namespace Scpi

theorem insertPaths_error_iff (n : Node) (ps : List (List Bytes)) (id : Nat) (q : Bool)
    (e : MacroErr) :
    insertPaths n ps id q = .error e ↔
      e = errKind q ∧ ∃ p ∈ ps, ∃ j, j ≠ id ∧ lookupId q n p = some j := by
  constructor
  · exact insertPaths_error
  · rintro ⟨rfl, p, hp, j, hne, hj⟩
    rcases insertPaths_spec n ps id q with ⟨_, herr⟩ | ⟨n', hcomp, _, _⟩
    · exact herr
    · exact absurd (hcomp p hp j hj) hne

/-- `insertAll` over an append: the ids continue. -/
theorem insertAll_append (n : Node) (pre rest : List Command) (start : Nat) :
    insertAll n (pre ++ rest) start =
      match insertAll n pre start with
      | .ok t => insertAll t rest (start + pre.length)
      | .error x => .error x := by
  induction pre generalizing n start with
  | nil => simp [insertAll_nil]
  | cons c cs ih =>
    rw [List.cons_append, insertAll_cons, insertAll_cons]
    cases insertPaths n c.paths start c.query with
    | error e => rfl
    | ok n1 =>
      simp only [ih, List.length_cons]
      rw [show start + 1 + cs.length = start + (cs.length + 1) by omega]

/-- Exact condition for `insertAll` to fail at declaration `k` with error `e`. -/
theorem insertAll_error_iff (n : Node) (cmds : List Command) (start k : Nat) (e : MacroErr) :
    (∃ t, insertAll n cmds start = .error (e, start + k, t)) ↔
      ∃ c t, cmds[k]? = some c ∧ insertAll n (cmds.take k) start = .ok t ∧
        insertPaths t c.paths (start + k) c.query = .error e := by
  constructor
  · rintro ⟨t, h⟩
    obtain ⟨pre, c, post, hcmds, hk, hpre, herr⟩ := insertAll_error_split h
    have hk' : k = pre.length := by omega
    subst hk'
    refine ⟨c, t, by rw [hcmds]; simp, ?_, herr⟩
    rw [hcmds]; simpa using hpre
  · rintro ⟨c, t, hc, hpre, herr⟩
    obtain ⟨hk, rfl⟩ := List.getElem?_eq_some_iff.1 hc
    refine ⟨t, ?_⟩
    have hsplit : cmds = cmds.take k ++ cmds[k] :: cmds.drop (k + 1) := by
      rw [List.getElem_cons_drop, List.take_append_drop]
    have hlen : (cmds.take k).length = k := by rw [List.length_take]; omega
    rw [hsplit, insertAll_append, hlen]
    rw [hpre]
    show insertAll t (cmds[k] :: List.drop (k + 1) cmds) (start + k) = _
    rw [insertAll_cons, herr]

end Scpi
