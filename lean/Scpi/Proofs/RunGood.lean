/-
The dispatcher never crashes and `run` returns a suffix of its input
(C05, for every interface: all handlers, all trees, all writers).
-/
import Scpi.Proofs.GoodParse
import Scpi.Exec

namespace Scpi

theorem convertArgs_no_crash : ∀ (tys : List Ty) (args : List Value), args.length = tys.length →
    ∀ c, convertArgs tys args ≠ .error (.inr c) := by
  intro tys
  induction tys with
  | nil => intro args _ c h; cases args <;> simp [convertArgs] at h
  | cons t ts ih =>
    intro args hl c h
    cases args with
    | nil => simp at hl
    | cons v vs =>
      simp only [List.length_cons, Nat.add_right_cancel_iff] at hl
      unfold convertArgs at h
      cases hc : convert t v with
      | error e => rw [hc] at h; cases h
      | ok tv =>
        rw [hc] at h
        simp only [] at h
        cases hr : convertArgs ts vs with
        | ok tvs => rw [hr] at h; cases h
        | error e =>
          rw [hr] at h
          cases e with
          | inl e => cases h
          | inr c' => exact ih vs hl c' hr

theorem executeCommand_no_crash {σ : Type} (I : Iface σ) (id : Nat) (args : List Value) (w : Writer)
    (s : σ) : ∀ c, (executeCommand I id args w s).2.2 ≠ .crash c := by
  intro c
  unfold executeCommand
  split
  · intro h; cases h
  · next cmd _ =>
    split
    · intro h; cases h
    · next hlen =>
      have hlen' : args.length = cmd.argTys.length := by
        by_cases h : args.length = cmd.argTys.length
        · exact h
        · exact absurd h (by simpa using hlen)
      split
      · intro h; cases h
      · next c' hc => exact absurd hc (convertArgs_no_crash _ _ hlen' c')
      · split
        · intro h; cases h
        · split <;> (intro h; cases h)

theorem execute_no_crash {σ : Type} (I : Iface σ) (call : CommandCall) (w : Writer) (s : σ) :
    ∀ c, (execute I call w s).2.2 ≠ .crash c := by
  intro c
  unfold execute
  split
  · intro h; cases h
  · next id _ =>
    have hx := executeCommand_no_crash I id call.args w s
    split
    · next s' w' he =>
      split
      · split <;> (intro h; cases h)
      · intro h; cases h
    · next r hr =>
      intro h
      exact hx c h

theorem afterNewline_suffix : ∀ (i r : Bytes), afterNewline i = some r → r <:+ i ∧ r.length < i.length := by
  intro i
  induction i with
  | nil => intro r h; cases h
  | cons b rest ih =>
    intro r h
    unfold afterNewline at h
    split at h
    · cases h; exact ⟨List.suffix_cons b _, by simp⟩
    · obtain ⟨h1, h2⟩ := ih r h
      exact ⟨h1.trans (List.suffix_cons b rest), by simp; omega⟩

/-- With `input.length < fuel` the loop of `run_from` never crashes, never runs
out of fuel and returns a suffix of its input. -/
theorem runLoop_good {σ : Type} (I : Iface σ) : ∀ (fuel : Nat) (header : Node) (input : Bytes)
    (w : Writer) (s : σ), input.length < fuel →
    (runLoop I fuel header input w s).crash = none ∧ (runLoop I fuel header input w s).rest <:+ input := by
  intro fuel
  induction fuel with
  | zero => intro _ input _ _ h; omega
  | succ n ih =>
    intro header input w s hlt
    unfold runLoop
    split
    · exact ⟨rfl, List.nil_suffix⟩
    · have hp := parse_strict I.root header input
      split
      · next c e => exact absurd e (hp.noCrash c)
      · exact ⟨rfl, List.suffix_refl _⟩
      · next e _ =>
        simp only []
        split
        · next rest hr =>
          obtain ⟨h1, h2⟩ := afterNewline_suffix _ _ hr
          obtain ⟨a, b⟩ := ih I.root rest w (I.onError s (parseErrToErr e)) (by omega)
          exact ⟨a, b.trans h1⟩
        · exact ⟨rfl, List.suffix_refl _⟩
      · next e _ =>
        simp only []
        split
        · next rest hr =>
          obtain ⟨h1, h2⟩ := afterNewline_suffix _ _ hr
          obtain ⟨a, b⟩ := ih I.root rest w (I.onError s e) (by omega)
          exact ⟨a, b.trans h1⟩
        · exact ⟨rfl, List.suffix_refl _⟩
      · next i e =>
        have h1 := hp.suffix _ _ e
        have h2 := hp.lt _ _ e
        obtain ⟨a, b⟩ := ih I.root i w s (by omega)
        exact ⟨a, b.trans h1⟩
      · next i call e =>
        have h1 := hp.suffix _ _ e
        have h2 := hp.lt _ _ e
        split
        · next s' w' c he =>
          have := execute_no_crash I call w s c
          rw [he] at this
          exact absurd rfl this
        · next s' w' r _ he =>
          exact ⟨(ih _ i _ _ (by omega)).1, ((ih _ i _ _ (by omega)).2).trans h1⟩

/-- **T5.1/T5.2 for `run`**: for every interface, input, writer and user state. -/
theorem run_no_crash {σ : Type} (I : Iface σ) (input : Bytes) (w : Writer) (s : σ) :
    (run I input w s).crash = none :=
  (runLoop_good I _ I.root input w s (Nat.lt_succ_self _)).1

theorem run_rest_suffix {σ : Type} (I : Iface σ) (input : Bytes) (w : Writer) (s : σ) :
    (run I input w s).rest <:+ input :=
  (runLoop_good I _ I.root input w s (Nat.lt_succ_self _)).2

theorem runFrom_good {σ : Type} (I : Iface σ) (header : Node) (input : Bytes) (w : Writer) (s : σ) :
    (runFrom I header input w s).crash = none ∧ (runFrom I header input w s).rest <:+ input :=
  runLoop_good I _ header input w s (Nat.lt_succ_self _)

end Scpi
