/-
`Command.paths` (the macro's enumeration of spelled paths) enumerates exactly the
spellings allowed by the abstract specification `Expands`.
-/
import Scpi.Spec.Spelling

namespace Scpi

theorem mem_extendPaths (acc : List (List Bytes)) (p : Part) (x : List Bytes) :
    x ∈ extendPaths acc p ↔
      ∃ a ∈ acc, x = a ++ [p.long] ∨ x = a ++ [p.short] ∨ (p.optional = true ∧ x = a) := by
  unfold extendPaths
  simp only [List.mem_flatMap, List.mem_append, List.mem_singleton]
  constructor
  · rintro ⟨a, ha, (h | h) | h⟩
    · exact ⟨a, ha, .inl h⟩
    · split at h
      · exact ⟨a, ha, .inr (.inl (List.mem_singleton.1 h))⟩
      · cases h
    · split at h
      · next ho => exact ⟨a, ha, .inr (.inr ⟨ho, List.mem_singleton.1 h⟩)⟩
      · cases h
  · rintro ⟨a, ha, h | h | ⟨ho, h⟩⟩
    · exact ⟨a, ha, .inl (.inl h)⟩
    · by_cases hs : (p.short != p.long) = true
      · exact ⟨a, ha, .inl (.inr (by simp [hs, h]))⟩
      · have : p.short = p.long := by simpa using hs
        exact ⟨a, ha, .inl (.inl (by rw [h, this]))⟩
    · exact ⟨a, ha, .inr (by simp [ho, h])⟩

theorem mem_foldl_extendPaths (ps : List Part) (acc : List (List Bytes)) (x : List Bytes) :
    x ∈ ps.foldl extendPaths acc ↔ ∃ a ∈ acc, ∃ e, Expands ps e ∧ x = a ++ e := by
  induction ps generalizing acc with
  | nil =>
    simp only [List.foldl_nil, expands_nil_iff]
    constructor
    · intro h; exact ⟨x, h, [], rfl, by simp⟩
    · rintro ⟨a, ha, e, rfl, rfl⟩; simpa using ha
  | cons p ps ih =>
    simp only [List.foldl_cons, ih, mem_extendPaths, expands_cons_iff]
    constructor
    · rintro ⟨b, ⟨a, ha, hb⟩, e, he, rfl⟩
      refine ⟨a, ha, ?_⟩
      rcases hb with rfl | rfl | ⟨ho, rfl⟩
      · exact ⟨p.long :: e, .inl ⟨e, rfl, he⟩, by simp⟩
      · exact ⟨p.short :: e, .inr (.inl ⟨e, rfl, he⟩), by simp⟩
      · exact ⟨e, .inr (.inr ⟨ho, he⟩), rfl⟩
    · rintro ⟨a, ha, e, (⟨t, rfl, he⟩ | ⟨t, rfl, he⟩ | ⟨ho, he⟩), rfl⟩
      · exact ⟨a ++ [p.long], ⟨a, ha, .inl rfl⟩, t, he, by simp⟩
      · exact ⟨a ++ [p.short], ⟨a, ha, .inr (.inl rfl)⟩, t, he, by simp⟩
      · exact ⟨a, ⟨a, ha, .inr (.inr ⟨ho, rfl⟩)⟩, e, he, rfl⟩

/-- T1.1: the macro's path enumeration is exactly the set of spellings. -/
theorem mem_paths_iff (c : Command) (p : List Bytes) : p ∈ c.paths ↔ Expands c.parts p := by
  unfold Command.paths
  rw [mem_foldl_extendPaths]
  constructor
  · rintro ⟨a, ha, e, he, rfl⟩
    have : a = [] := by simpa using ha
    subst this; simpa using he
  · intro h; exact ⟨[], by simp, p, h, by simp⟩

end Scpi
