/-
Forward evaluation lemmas for the combinators and the elementary recognisers:
"`p (text ++ rest) = .ok rest v` when `text` is in the class and the first byte of
`rest` (if any) is not".  Used by the rendering theorems (C03/C08/C11).
-/
import Scpi.Spec.Ast
import Scpi.Proofs.Comb

namespace Scpi

/-! ### `Ends` -/

theorem ends_nil (p : Nat → Bool) : Ends p [] := fun _ _ h => by cases h

theorem ends_cons {p : Nat → Bool} {d : Nat} {r : Bytes} (h : p d = false) : Ends p (d :: r) :=
  fun _ _ e => by cases e; exact h

theorem Ends.head {p : Nat → Bool} {d : Nat} {r : Bytes} (h : Ends p (d :: r)) : p d = false :=
  h d r rfl

theorem Ends.mono {p q : Nat → Bool} {rest : Bytes} (h : Ends p rest)
    (hpq : ∀ b, p b = false → q b = false) : Ends q rest :=
  fun d r e => hpq d (h d r e)

/-- `Ends` only looks at the first byte. -/
theorem Ends.append {p : Nat → Bool} {d : Nat} {r : Bytes} (h : Ends p (d :: r)) (r' : Bytes) :
    Ends p (d :: r') := ends_cons h.head

theorem ends_append_of_ne_nil {p : Nat → Bool} {x : Bytes} (y : Bytes) (hx : x ≠ [])
    (h : Ends p x) : Ends p (x ++ y) := by
  cases x with
  | nil => exact absurd rfl hx
  | cons b r => exact ends_cons h.head

/-! ### Lists -/

theorem takeWhile_append_ends {p : Nat → Bool} : ∀ {t : Bytes} {rest : Bytes},
    t.all p = true → Ends p rest → (t ++ rest).takeWhile p = t ∧ (t ++ rest).dropWhile p = rest := by
  intro t
  induction t with
  | nil =>
    intro rest _ he
    cases rest with
    | nil => exact ⟨rfl, rfl⟩
    | cons d r =>
      have := he.head
      simp only [List.nil_append, List.takeWhile_cons, List.dropWhile_cons, this,
        Bool.false_eq_true, if_false, and_self]
  | cons b t ih =>
    intro rest ht he
    simp only [List.all_cons, Bool.and_eq_true] at ht
    obtain ⟨e1, e2⟩ := ih ht.2 he
    simp only [List.cons_append, List.takeWhile_cons, List.dropWhile_cons, ht.1, if_true, e1, e2,
      and_self]

theorem all_append {p : Nat → Bool} {a b : Bytes} (ha : a.all p = true) (hb : b.all p = true) :
    (a ++ b).all p = true := by
  simp only [List.all_append, ha, hb, Bool.and_self]

/-! ### `ofErr` -/

@[simp] theorem ofErr_invalidCharacter {α : Type} :
    (ofErr .InvalidCharacter : PResult α) = .soft (some (.std .InvalidCharacter)) := rfl
@[simp] theorem ofErr_invalidSeparator {α : Type} :
    (ofErr .InvalidSeparator : PResult α) = .soft (some (.std .InvalidSeparator)) := rfl
@[simp] theorem ofErr_headerSeparatorError {α : Type} :
    (ofErr .HeaderSeparatorError : PResult α) = .soft (some (.std .HeaderSeparatorError)) := rfl
@[simp] theorem ofErr_undefinedHeader {α : Type} :
    (ofErr .UndefinedHeader : PResult α) = .fatal (.std .UndefinedHeader) := rfl

/-! ### Elementary parsers -/

theorem satisfy_cons_true {p : Nat → Bool} {b : Nat} (r : Bytes) (h : p b = true) :
    satisfy p (b :: r) = .ok r b := by
  simp only [satisfy, h, if_true]

theorem satisfy_cons_false' {p : Nat → Bool} {b : Nat} (r : Bytes) (h : p b = false) :
    satisfy p (b :: r) = .soft (some (.std .InvalidCharacter)) := by
  simp only [satisfy, h, Bool.false_eq_true, if_false, ofErr_invalidCharacter]

theorem tag_cons_self (t : Nat) (r : Bytes) : tag t (t :: r) = .ok r t := by
  unfold tag; exact satisfy_cons_true r (by simp)

theorem tag_cons_ne {t b : Nat} (r : Bytes) (h : b ≠ t) :
    tag t (b :: r) = .soft (some (.std .InvalidCharacter)) := by
  unfold tag; exact satisfy_cons_false' r (by simpa using h)

/-- A failing `satisfy` under `optP` gives `none` and puts the input back — also at
the end of the input. -/
theorem optP_satisfy_ends {p : Nat → Bool} {rest : Bytes} (h : Ends p rest) :
    optP (satisfy p) rest = .ok rest none := by
  cases rest with
  | nil => rfl
  | cons d r => simp only [optP, satisfy_cons_false' r h.head]

theorem optP_satisfy_cons {p : Nat → Bool} {b : Nat} (r : Bytes) (h : p b = true) :
    optP (satisfy p) (b :: r) = .ok r (some b) := by
  simp only [optP, satisfy_cons_true r h]

theorem takeWhileP_append {p : Nat → Bool} {t rest : Bytes} (ht : t.all p = true)
    (he : Ends p rest) : takeWhileP p (t ++ rest) = .ok rest t := by
  obtain ⟨e1, e2⟩ := takeWhile_append_ends ht he
  simp only [takeWhileP, e1, e2]

theorem consumed_append {α : Type} (t rest : Bytes) (k : Bytes → PResult α) :
    consumed (t ++ rest) rest k = k t := by
  unfold consumed
  have h : rest.length ≤ (t ++ rest).length := by simp only [List.length_append]; omega
  have e : (t ++ rest).length - rest.length = t.length := by simp only [List.length_append]; omega
  simp only [h, if_true, e, List.take_left']

theorem consumed_cons_append {α : Type} (b : Nat) (t rest : Bytes) (k : Bytes → PResult α) :
    consumed (b :: (t ++ rest)) rest k = k (b :: t) := by
  rw [← List.cons_append]; exact consumed_append _ _ _

/-! ### UTF-8 of ASCII text -/

theorem validUtf8_ascii : ∀ {s : Bytes}, (∀ b ∈ s, b < 128) → validUtf8 s = true := by
  intro s
  induction s with
  | nil => intro _; rfl
  | cons b s ih =>
    intro h
    have hb : b < 0x80 := h b (List.mem_cons_self ..)
    unfold validUtf8
    simp only [hb, if_true]
    exact ih fun c hc => h c (List.mem_cons_of_mem _ hc)

theorem validUtf8_of_all {p : Nat → Bool} {s : Bytes} (hp : ∀ b, p b = true → b < 128)
    (h : s.all p = true) : validUtf8 s = true :=
  validUtf8_ascii fun b hb => hp b (List.all_eq_true.mp h b hb)

theorem fromUtf8_valid {α : Type} {s : Bytes} (k : Bytes → PResult α) (h : validUtf8 s = true) :
    fromUtf8 s k = k s := by
  simp only [fromUtf8, h, if_true]

/-! ### Byte classes -/

theorem isDigit_lt {b : Nat} (h : isDigit b = true) : b < 128 := by
  simp [isDigit] at h; omega
theorem isAlpha_lt {b : Nat} (h : isAlpha b = true) : b < 128 := by
  simp [isAlpha] at h; omega
theorem isMnemonicTail_lt {b : Nat} (h : isMnemonicTail b = true) : b < 128 := by
  simp [isMnemonicTail, isAlnum, isAlpha, isDigit] at h; omega
theorem isHexDigit_lt {b : Nat} (h : isHexDigit b = true) : b < 128 := by
  simp [isHexDigit, isDigit] at h; omega
theorem isBinDigit_lt {b : Nat} (h : isBinDigit b = true) : b < 128 := by
  simp [isBinDigit] at h; omega
theorem isOctDigit_lt {b : Nat} (h : isOctDigit b = true) : b < 128 := by
  simp [isOctDigit] at h; omega

theorem isDelim_not_mnemonicTail {b : Nat} (h : isDelim b = true) : isMnemonicTail b = false := by
  simp [isDelim, isWs] at h
  simp [isMnemonicTail, isAlnum, isAlpha, isDigit]; omega
theorem isDelim_not_hex {b : Nat} (h : isDelim b = true) : isHexDigit b = false := by
  simp [isDelim, isWs] at h
  simp [isHexDigit, isDigit]; omega
theorem isDelim_not_bin {b : Nat} (h : isDelim b = true) : isBinDigit b = false := by
  simp [isDelim, isWs] at h
  simp [isBinDigit]; omega
theorem isDelim_not_oct {b : Nat} (h : isDelim b = true) : isOctDigit b = false := by
  simp [isDelim, isWs] at h
  simp [isOctDigit]; omega
theorem isDelim_not_dec {b : Nat} (h : isDelim b = true) :
    (isDigit b || b == 46 || b == 69 || b == 101) = false := by
  simp [isDelim, isWs] at h
  simp [isDigit]; omega

/-! ### White space -/

theorem whitespace_append {w rest : Bytes} (hw : allWs w = true) (hne : w ≠ [])
    (he : Ends isWs rest) : whitespace (w ++ rest) = .ok rest w := by
  obtain ⟨e1, e2⟩ := takeWhile_append_ends (p := isWs) hw he
  unfold whitespace
  rw [e1, e2]
  cases w with
  | nil => exact absurd rfl hne
  | cons b w => rfl

theorem whitespace_soft {d : Nat} (r : Bytes) (h : isWs d = false) :
    whitespace (d :: r) = .soft (some (.std .InvalidCharacter)) := by
  simp only [whitespace, List.takeWhile_cons, List.dropWhile_cons, h, Bool.false_eq_true, if_false,
    ofErr_invalidCharacter]

/-- Optional white space: whatever is there is skipped. -/
theorem optP_whitespace_append {w rest : Bytes} (hw : allWs w = true) (he : Ends isWs rest) :
    ∃ v, optP whitespace (w ++ rest) = .ok rest v := by
  by_cases hne : w = []
  · subst hne
    cases rest with
    | nil => exact ⟨none, rfl⟩
    | cons d r =>
      refine ⟨none, ?_⟩
      simp only [List.nil_append, optP, whitespace_soft r he.head]
  · exact ⟨some w, by simp only [optP, whitespace_append hw hne he]⟩

/-! ### `digits`, `mnemonic` -/

theorem digits_append {ds rest : Bytes} (hne : ds ≠ []) (hd : ds.all isDigit = true)
    (he : Ends isDigit rest) : digits (ds ++ rest) = .ok rest ds := by
  cases ds with
  | nil => exact absurd rfl hne
  | cons b t =>
    simp only [List.all_cons, Bool.and_eq_true] at hd
    simp only [digits, List.cons_append, satisfy_cons_true _ hd.1, PResult.bind,
      takeWhileP_append hd.2 he]

theorem optP_digits_append {ds rest : Bytes} (hne : ds ≠ []) (hd : ds.all isDigit = true)
    (he : Ends isDigit rest) : optP digits (ds ++ rest) = .ok rest (some ds) := by
  simp only [optP, digits_append hne hd he]

theorem digits_ends {rest : Bytes} (he : Ends isDigit rest) :
    (∃ e, digits rest = .soft e) ∨ digits rest = .incomplete := by
  cases rest with
  | nil => exact Or.inr rfl
  | cons d r =>
    exact Or.inl ⟨some (.std .InvalidCharacter),
      by simp only [digits, satisfy_cons_false' r he.head, PResult.bind]⟩

theorem optP_digits_ends {rest : Bytes} (he : Ends isDigit rest) :
    optP digits rest = .ok rest none := by
  rcases digits_ends he with ⟨e, h⟩ | h <;> simp only [optP, h]

/-- Optional digits: whatever digits are there (possibly none) are taken. -/
theorem optP_digits_append' {ds rest : Bytes} (hd : ds.all isDigit = true)
    (he : Ends isDigit rest) : ∃ v, optP digits (ds ++ rest) = .ok rest v := by
  by_cases hne : ds = []
  · subst hne; exact ⟨none, optP_digits_ends he⟩
  · exact ⟨some ds, optP_digits_append hne hd he⟩

theorem mnemonic_append {m rest : Bytes} (hm : isMnemonicText m = true)
    (he : Ends isMnemonicTail rest) : mnemonic (m ++ rest) = .ok rest m := by
  cases m with
  | nil => cases hm
  | cons b t =>
    simp only [isMnemonicText, Bool.and_eq_true] at hm
    simp only [mnemonic, List.cons_append, satisfy_cons_true _ hm.1, PResult.bind,
      takeWhileP_append hm.2 he]

theorem mnemonic_soft {b : Nat} (r : Bytes) (h : isAlpha b = false) :
    mnemonic (b :: r) = .soft (some (.std .InvalidCharacter)) := by
  simp only [mnemonic, satisfy_cons_false' r h, PResult.bind]

theorem validUtf8_mnemonic {m : Bytes} (hm : isMnemonicText m = true) : validUtf8 m = true := by
  cases m with
  | nil => cases hm
  | cons b t =>
    simp only [isMnemonicText, Bool.and_eq_true] at hm
    refine validUtf8_ascii fun c hc => ?_
    rcases List.mem_cons.mp hc with e | hc
    · subst e; exact isAlpha_lt hm.1
    · exact isMnemonicTail_lt (List.all_eq_true.mp hm.2 c hc)

end Scpi
