/-
C04 (float Display): arithmetic helpers — comparing `x · B^p` with `y · B^q` when only the
difference of the exponents matters, and a 2-adic valuation argument.
-/
import Scpi.Proofs.DragonSpec

namespace Scpi
namespace Dragon

/-- `x·B^p ≤ y·B^q` only depends on `p - q`. -/
theorem shift_le (B : Nat) (hB : 0 < B) (x y p q p' q' : Nat) (h : x * B ^ p ≤ y * B ^ q)
    (e : p + q' = p' + q) : x * B ^ p' ≤ y * B ^ q' := by
  apply Nat.le_of_mul_le_mul_right (c := B ^ q) _ (Nat.pow_pos hB)
  calc x * B ^ p' * B ^ q = x * B ^ (p' + q) := by rw [Nat.mul_assoc, ← Nat.pow_add]
    _ = x * B ^ (p + q') := by rw [e]
    _ = x * B ^ p * B ^ q' := by rw [Nat.pow_add, Nat.mul_assoc]
    _ ≤ y * B ^ q * B ^ q' := Nat.mul_le_mul_right _ h
    _ = y * B ^ q' * B ^ q := by ac_rfl

theorem shift_lt (B : Nat) (hB : 0 < B) (x y p q p' q' : Nat) (h : x * B ^ p < y * B ^ q)
    (e : p + q' = p' + q) : x * B ^ p' < y * B ^ q' := by
  apply Nat.lt_of_mul_lt_mul_right (a := B ^ q)
  calc x * B ^ p' * B ^ q = x * B ^ (p' + q) := by rw [Nat.mul_assoc, ← Nat.pow_add]
    _ = x * B ^ (p + q') := by rw [e]
    _ = x * B ^ p * B ^ q' := by rw [Nat.pow_add, Nat.mul_assoc]
    _ < y * B ^ q * B ^ q' := Nat.mul_lt_mul_of_pos_right h (Nat.pow_pos hB)
    _ = y * B ^ q' * B ^ q := by ac_rfl

/-- Two bases at once: from `(X·2^a)·10^u ≤ (N·2^a')·10^w` to `X·2^s·10^u' ≤ N·10^w'·2^b`
when `s - b = a - a'` and `u' - w' = u - w`. -/
theorem shift2_le (X N a a' s b u w u' w' : Nat)
    (h : X * 2 ^ a * 10 ^ u ≤ N * 2 ^ a' * 10 ^ w) (e2 : a + b = s + a') (e10 : u + w' = u' + w) :
    X * 2 ^ s * 10 ^ u' ≤ N * 10 ^ w' * 2 ^ b := by
  have h1 := shift_le 10 (by decide) _ _ u w u' w' h e10
  have h2 : X * 10 ^ u' * 2 ^ a ≤ N * 10 ^ w' * 2 ^ a' := by
    calc X * 10 ^ u' * 2 ^ a = X * 2 ^ a * 10 ^ u' := by ac_rfl
      _ ≤ N * 2 ^ a' * 10 ^ w' := h1
      _ = N * 10 ^ w' * 2 ^ a' := by ac_rfl
  have h3 := shift_le 2 (by decide) _ _ a a' s b h2 e2
  calc X * 2 ^ s * 10 ^ u' = X * 10 ^ u' * 2 ^ s := by ac_rfl
    _ ≤ N * 10 ^ w' * 2 ^ b := h3

theorem shift2_lt (X N a a' s b u w u' w' : Nat)
    (h : X * 2 ^ a * 10 ^ u < N * 2 ^ a' * 10 ^ w) (e2 : a + b = s + a') (e10 : u + w' = u' + w) :
    X * 2 ^ s * 10 ^ u' < N * 10 ^ w' * 2 ^ b := by
  have h1 := shift_lt 10 (by decide) _ _ u w u' w' h e10
  have h2 : X * 10 ^ u' * 2 ^ a < N * 10 ^ w' * 2 ^ a' := by
    calc X * 10 ^ u' * 2 ^ a = X * 2 ^ a * 10 ^ u' := by ac_rfl
      _ < N * 2 ^ a' * 10 ^ w' := h1
      _ = N * 10 ^ w' * 2 ^ a' := by ac_rfl
  have h3 := shift_lt 2 (by decide) _ _ a a' s b h2 e2
  calc X * 2 ^ s * 10 ^ u' = X * 10 ^ u' * 2 ^ s := by ac_rfl
    _ < N * 10 ^ w' * 2 ^ b := h3

/-- A power of two dividing `2^B · odd` has exponent at most `B`. -/
theorem two_val (x y A B : Nat) (h : x * 2 ^ A = 2 ^ B * y) (hy : y % 2 = 1) : A ≤ B := by
  apply Nat.le_of_not_lt
  intro hlt
  obtain ⟨c, rfl⟩ : ∃ c, A = B + (c + 1) := ⟨A - B - 1, by omega⟩
  have h1 : 2 ^ B * (x * 2 ^ c * 2) = 2 ^ B * y := by
    rw [← h, Nat.pow_add, Nat.pow_succ]
    ac_rfl
  have h2 := Nat.eq_of_mul_eq_mul_left (two_pow_pos B) h1
  omega

theorem five_pow_odd (n : Nat) : 5 ^ n % 2 = 1 := by
  induction n with
  | zero => rfl
  | succ n ih => rw [Nat.pow_succ, Nat.mul_mod, ih]

theorem ten_pow_eq (n : Nat) : 10 ^ n = 2 ^ n * 5 ^ n := by
  rw [← Nat.mul_pow]

theorem two_le_ten_pow (n : Nat) : 2 ^ n ≤ 10 ^ n := Nat.pow_le_pow_left (by decide) n

end Dragon
end Scpi
