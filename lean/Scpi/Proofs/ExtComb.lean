/-
Stability of parse results under appending bytes to the input (for C12).

`r.extend y` is what the result `r` becomes when `y` is appended to the input and
the parser never looked at the end of the old input: the rest of a success grows
by `y`, every other verdict is unchanged.

Two kinds of recognisers:

* class-bounded ones (`CB`): they scan bytes of a character class that contains
  neither terminator (`\n` = 10, `;` = 59).  On an input that still contains a
  terminator (`HasTerm`) they stop before it, so *every* verdict (success or
  failure) is unchanged by appending, and the rest still contains a terminator.
  Proved once per combinator (`rel_bind`, `cb_optP`, `rel_orElse`, …).
* payload recognisers (`quoted`, `arbitrary`): they may consume terminator bytes,
  but every verdict other than `incomplete` is final (`MExt`).
-/
import Scpi.Proofs.GoodParse

namespace Scpi

/-- The result after appending `y` to an input whose end was not inspected. -/
def PResult.extend {α : Type} (r : PResult α) (y : Bytes) : PResult α :=
  match r with
  | .ok rest v => .ok (rest ++ y) v
  | .soft e => .soft e
  | .fatal e => .fatal e
  | .incomplete => .incomplete
  | .crash c => .crash c

@[simp] theorem extend_ok {α : Type} (r y : Bytes) (v : α) :
    (PResult.ok r v).extend y = .ok (r ++ y) v := rfl
@[simp] theorem extend_soft {α : Type} (e : Option Err) (y : Bytes) :
    (PResult.soft e : PResult α).extend y = .soft e := rfl
@[simp] theorem extend_fatal {α : Type} (e : Err) (y : Bytes) :
    (PResult.fatal e : PResult α).extend y = .fatal e := rfl
@[simp] theorem extend_incomplete {α : Type} (y : Bytes) :
    (PResult.incomplete : PResult α).extend y = .incomplete := rfl
@[simp] theorem extend_crash {α : Type} (c : Crash) (y : Bytes) :
    (PResult.crash c : PResult α).extend y = .crash c := rfl

@[simp] theorem extend_ofErr {α : Type} (e : StdErr) (y : Bytes) :
    (ofErr e : PResult α).extend y = ofErr e := by
  unfold ofErr; split <;> rfl

theorem ofErr_ne_incomplete {α : Type} {e : StdErr} : (ofErr e : PResult α) ≠ .incomplete := by
  unfold ofErr; split <;> intro h <;> cases h

/-- The input contains a program message (unit) terminator. -/
def HasTerm (x : Bytes) : Prop := 10 ∈ x ∨ 59 ∈ x

/-- The input ends with a newline. -/
def EndsNL (x : Bytes) : Prop := x.getLast? = some 10

theorem HasTerm.of_suffix {r x : Bytes} (h : HasTerm r) (hs : r <:+ x) : HasTerm x :=
  h.elim (fun h => Or.inl (hs.mem h)) (fun h => Or.inr (hs.mem h))

theorem HasTerm.ne_nil {x : Bytes} (h : HasTerm x) : x ≠ [] := by
  intro e; subst e; cases h with
  | inl h => cases h
  | inr h => cases h

theorem EndsNL.hasTerm {x : Bytes} (h : EndsNL x) : HasTerm x := Or.inl (List.mem_of_getLast? h)

theorem EndsNL.of_suffix {r x : Bytes} (h : EndsNL x) (hs : r <:+ x) (hr : r ≠ []) : EndsNL r := by
  obtain ⟨s, rfl⟩ := hs
  unfold EndsNL at h ⊢
  rw [List.getLast?_append] at h
  cases hl : r.getLast? with
  | none => exact absurd (List.getLast?_eq_none_iff.mp hl) hr
  | some b => rw [hl] at h; simpa using h

/-! ### Lists -/

/-- A scan that stops inside `x` is not affected by appending. -/
theorem dropWhile_takeWhile_append {p : Nat → Bool} : ∀ {x : Bytes} (y : Bytes),
    x.dropWhile p ≠ [] →
    (x ++ y).dropWhile p = x.dropWhile p ++ y ∧ (x ++ y).takeWhile p = x.takeWhile p := by
  intro x
  induction x with
  | nil => intro y h; exact absurd rfl h
  | cons b x ih =>
    intro y h
    cases hb : p b with
    | true =>
      simp only [List.dropWhile_cons, hb, if_true] at h
      obtain ⟨e1, e2⟩ := ih y h
      simp only [List.cons_append, List.dropWhile_cons, List.takeWhile_cons, hb, if_true, e1, e2,
        and_self]
    | false =>
      simp only [List.cons_append, List.dropWhile_cons, List.takeWhile_cons, hb, Bool.false_eq_true,
        if_false, and_self]

theorem hasTerm_dropWhile {p : Nat → Bool} (h10 : p 10 = false) (h59 : p 59 = false) :
    ∀ {x : Bytes}, HasTerm x → HasTerm (x.dropWhile p) := by
  intro x
  induction x with
  | nil => intro h; exact h
  | cons b x ih =>
    intro h
    cases hb : p b with
    | true =>
      simp only [List.dropWhile_cons, hb, if_true]
      apply ih
      rcases h with h | h
      · rcases List.mem_cons.mp h with e | h
        · rw [← e, h10] at hb; cases hb
        · exact Or.inl h
      · rcases List.mem_cons.mp h with e | h
        · rw [← e, h59] at hb; cases hb
        · exact Or.inr h
    | false =>
      simp only [List.dropWhile_cons, hb, Bool.false_eq_true, if_false]
      exact h

/-! ### The relation between the results on `x` and on `x ++ y` -/

/-- `a'` (the result on the extended input) is the extension of `a`, and a
success of `a` leaves a terminator in its rest. -/
structure Rel {α : Type} (y : Bytes) (a a' : PResult α) : Prop where
  ext : a' = a.extend y
  keep : ∀ r v, a = .ok r v → HasTerm r

/-- Class-bounded recogniser: on an input that contains a terminator, no verdict
depends on what follows the input, and the terminator is not consumed. -/
def CB {α : Type} (p : Parser α) : Prop := ∀ x y, HasTerm x → Rel y (p x) (p (x ++ y))

theorem rel_ok {α : Type} {y r : Bytes} {v : α} (h : HasTerm r) :
    Rel y (PResult.ok r v) (PResult.ok (r ++ y) v) :=
  ⟨rfl, fun _ _ e => by cases e; exact h⟩

theorem rel_soft {α : Type} {y : Bytes} {e : Option Err} :
    Rel y (PResult.soft e : PResult α) (PResult.soft e) :=
  ⟨rfl, fun _ _ e => by cases e⟩

theorem rel_fatal {α : Type} {y : Bytes} {e : Err} :
    Rel y (PResult.fatal e : PResult α) (PResult.fatal e) :=
  ⟨rfl, fun _ _ e => by cases e⟩

theorem rel_incomplete {α : Type} {y : Bytes} :
    Rel y (PResult.incomplete : PResult α) PResult.incomplete :=
  ⟨rfl, fun _ _ e => by cases e⟩

theorem rel_crash {α : Type} {y : Bytes} {c : Crash} :
    Rel y (PResult.crash c : PResult α) (PResult.crash c) :=
  ⟨rfl, fun _ _ e => by cases e⟩

theorem rel_ofErr {α : Type} {y : Bytes} {e : StdErr} :
    Rel y (ofErr e : PResult α) (ofErr e) :=
  ⟨(extend_ofErr e y).symm, fun _ _ h => absurd h ofErr_ne_ok⟩

theorem rel_bind {α β : Type} {y : Bytes} {a a' : PResult α} {k k' : Bytes → α → PResult β}
    (h : Rel y a a')
    (hk : ∀ r v, a = .ok r v → HasTerm r → Rel y (k r v) (k' (r ++ y) v)) :
    Rel y (a.bind k) (a'.bind k') := by
  obtain ⟨e, keep⟩ := h
  subst e
  cases a with
  | ok r v => exact hk r v rfl (keep r v rfl)
  | soft e => exact rel_soft
  | fatal e => exact rel_fatal
  | incomplete => exact rel_incomplete
  | crash c => exact rel_crash

theorem rel_map {α β : Type} {y : Bytes} {a a' : PResult α} {f : α → β} (h : Rel y a a') :
    Rel y (a.map f) (a'.map f) := by
  obtain ⟨e, keep⟩ := h
  subst e
  cases a with
  | ok r v => exact rel_ok (keep r v rfl)
  | soft e => exact rel_soft
  | fatal e => exact rel_fatal
  | incomplete => exact rel_incomplete
  | crash c => exact rel_crash

theorem rel_orElse {α : Type} {y : Bytes} {a a' : PResult α} {b b' : Unit → PResult α}
    (h : Rel y a a') (hb : Rel y (b ()) (b' ())) : Rel y (a.orElse b) (a'.orElse b') := by
  obtain ⟨e, keep⟩ := h
  subst e
  cases a with
  | ok r v => exact rel_ok (keep r v rfl)
  | soft e => exact hb
  | fatal e => exact hb
  | incomplete => exact hb
  | crash c => exact rel_crash

theorem rel_orNext {α : Type} {y : Bytes} {a a' : PResult α} {b b' : Unit → PResult α}
    (h : Rel y a a') (hb : Rel y (b ()) (b' ())) : Rel y (a.orNext b) (a'.orNext b') := by
  obtain ⟨e, keep⟩ := h
  subst e
  cases a with
  | ok r v => exact rel_ok (keep r v rfl)
  | soft e => exact hb
  | fatal e => exact hb
  | incomplete => exact rel_incomplete
  | crash c => exact rel_crash

theorem rel_mapErr {α : Type} {y : Bytes} {a a' : PResult α} {e : StdErr} (h : Rel y a a') :
    Rel y (a.mapErr e) (a'.mapErr e) := by
  obtain ⟨e', keep⟩ := h
  subst e'
  cases a with
  | ok r v => exact rel_ok (keep r v rfl)
  | soft _ => exact rel_ofErr
  | fatal _ => exact rel_ofErr
  | incomplete => exact rel_ofErr
  | crash c => exact rel_crash

theorem cb_optP {α : Type} {p : Parser α} (h : CB p) : CB (optP p) := by
  intro x y hT
  obtain ⟨e, keep⟩ := h x y hT
  unfold optP
  rw [e]
  cases hp : p x with
  | ok r v => exact rel_ok (keep r v hp)
  | soft e => exact rel_ok hT
  | fatal e => exact rel_ok hT
  | incomplete => exact rel_ok hT
  | crash c => exact rel_crash

theorem cb_takeWhileP {cls : Nat → Bool} (h10 : cls 10 = false) (h59 : cls 59 = false) :
    CB (takeWhileP cls) := by
  intro x y hT
  have hd := hasTerm_dropWhile h10 h59 hT
  obtain ⟨e1, e2⟩ := dropWhile_takeWhile_append (p := cls) y hd.ne_nil
  unfold takeWhileP
  rw [e1, e2]
  exact rel_ok hd

theorem cb_satisfy {cls : Nat → Bool} (h10 : cls 10 = false) (h59 : cls 59 = false) :
    CB (satisfy cls) := by
  intro x y hT
  cases x with
  | nil => exact absurd rfl hT.ne_nil
  | cons b r =>
    unfold satisfy
    cases hb : cls b with
    | true =>
      simp only [List.cons_append, hb, if_true]
      refine rel_ok ?_
      rcases hT with h | h
      · rcases List.mem_cons.mp h with e | h
        · rw [← e, h10] at hb; cases hb
        · exact Or.inl h
      · rcases List.mem_cons.mp h with e | h
        · rw [← e, h59] at hb; cases hb
        · exact Or.inr h
    | false =>
      simp only [List.cons_append, hb, Bool.false_eq_true, if_false]
      exact rel_ofErr

/-- `tag t` for a byte that is not a terminator. -/
theorem cb_tag {t : Nat} (h10 : t ≠ 10) (h59 : t ≠ 59) : CB (tag t) := by
  refine cb_satisfy ?_ ?_
  · simpa using fun h => h10 h.symm
  · simpa using fun h => h59 h.symm

/-- `satisfy` (hence `tag`) on a non-empty input looks at the first byte only. -/
theorem satisfy_ext {cls : Nat → Bool} {x : Bytes} (y : Bytes) (hx : x ≠ []) :
    satisfy cls (x ++ y) = (satisfy cls x).extend y := by
  cases x with
  | nil => exact absurd rfl hx
  | cons b r =>
    unfold satisfy
    cases hb : cls b with
    | true => simp only [List.cons_append, hb, if_true, extend_ok]
    | false => simp only [List.cons_append, hb, Bool.false_eq_true, if_false, extend_ofErr]

theorem rel_consumed {α : Type} {y x r : Bytes} {k k' : Bytes → PResult α}
    (hk : ∀ s, Rel y (k s) (k' s)) : Rel y (consumed x r k) (consumed (x ++ y) (r ++ y) k') := by
  unfold consumed
  by_cases h : r.length ≤ x.length
  · have h' : (r ++ y).length ≤ (x ++ y).length := by simp only [List.length_append]; omega
    have e : (x ++ y).length - (r ++ y).length = x.length - r.length := by
      simp only [List.length_append]; omega
    simp only [h, h', if_true, e]
    rw [List.take_append_of_le_length (Nat.sub_le _ _)]
    exact hk _
  · have h' : ¬ (r ++ y).length ≤ (x ++ y).length := by simp only [List.length_append]; omega
    simp only [h, h', if_false]
    exact rel_crash

theorem rel_fromUtf8 {α : Type} {y s : Bytes} {k k' : Bytes → PResult α}
    (hk : ∀ s, Rel y (k s) (k' s)) : Rel y (fromUtf8 s k) (fromUtf8 s k') := by
  unfold fromUtf8; split
  · exact hk _
  · exact rel_ofErr

/-! ### Verdicts that are final unless `incomplete` -/

/-- Unless `a` is `incomplete`, the result on the extended input is its extension. -/
def MExt {α : Type} (y : Bytes) (a a' : PResult α) : Prop := a ≠ .incomplete → a' = a.extend y

theorem Rel.mext {α : Type} {y : Bytes} {a a' : PResult α} (h : Rel y a a') : MExt y a a' :=
  fun _ => h.ext

theorem mext_orNext {α : Type} {y : Bytes} {a a' : PResult α} {b b' : Unit → PResult α}
    (h : MExt y a a') (hb : MExt y (b ()) (b' ())) : MExt y (a.orNext b) (a'.orNext b') := by
  intro hn
  cases a with
  | ok r v => rw [h (by intro e; cases e)]; rfl
  | soft e => rw [h (by intro e; cases e)]; exact hb hn
  | fatal e => rw [h (by intro e; cases e)]; exact hb hn
  | incomplete => exact absurd rfl hn
  | crash c => rw [h (by intro e; cases e)]; rfl

theorem ext_bind {α β : Type} {y : Bytes} {a a' : PResult α} {k k' : Bytes → α → PResult β}
    (h : a' = a.extend y) (hk : ∀ r v, a = .ok r v → k' (r ++ y) v = (k r v).extend y) :
    a'.bind k' = (a.bind k).extend y := by
  subst h
  cases a with
  | ok r v => exact hk r v rfl
  | soft e => rfl
  | fatal e => rfl
  | incomplete => rfl
  | crash c => rfl

end Scpi
