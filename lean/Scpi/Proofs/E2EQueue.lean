/-
Helper lemmas for the end-to-end statement of C09: the queue component of the user
state of an `ErrIface` along `execute`, `unitStep` and a whole `runFrom`, as a replay
of the observable events (`Ev`) of the run.
-/
import Scpi.Spec.StdIface
import Scpi.Proofs.RunStepsFault
import Scpi.Props.C09

namespace Scpi
namespace E2E

/-! ### The user state after `execute` -/

/-- The user state after `execute`: the state the invoked handler left, or the old
state when no handler was invoked. -/
def stateAfter {σ : Type} (I : Iface σ) (s : σ) : Option (Nat × List TVal) → σ
  | none => s
  | some (id, tvs) =>
    match I.cmds[id]? with
    | some c => (c.handler s tvs).1
    | none => s

theorem execute_state {σ : Type} (I : Iface σ) (call : CommandCall) (w : Writer) (s : σ) :
    (execute I call w s).1 = stateAfter I s (invocation I call) := by
  rw [execute_eq]
  cases hr : resolveCmd I call with
  | none => rw [invocation_of_resolve_none I call hr]; rfl
  | some c =>
    simp only []
    by_cases hl : call.args.length ≠ c.argTys.length
    · rw [if_pos hl, invocation_of_arity I call c hr hl]; rfl
    · rw [if_neg hl]
      have hl' : call.args.length = c.argTys.length := Decidable.of_not_not hl
      cases hca : convertArgs c.argTys call.args with
      | error e' =>
        rw [invocation_of_convert_error I call c hr e' hca]
        cases e' <;> rfl
      | ok tvs =>
        obtain ⟨id, _, hc, hinv⟩ := invocation_of_convert_ok I call c hr hl' tvs hca
        rw [hinv]
        simp only [stateAfter, hc]
        rcases hh : c.handler s tvs with ⟨s1, r⟩
        cases r <;> rfl

/-- An invocation names an existing command. -/
theorem invocation_some_cmd {σ : Type} (I : Iface σ) (call : CommandCall) (id : Nat) (tvs : List TVal)
    (h : invocation I call = some (id, tvs)) :
    ∃ c, I.cmds[id]? = some c ∧ unitSlot call = some id ∧ call.args.length = c.argTys.length ∧
      convertArgs c.argTys call.args = .ok tvs := by
  unfold invocation at h
  cases hs : unitSlot call with
  | none => rw [hs] at h; cases h
  | some id' =>
    rw [hs] at h
    simp only [] at h
    cases hc : I.cmds[id']? with
    | none => rw [hc] at h; cases h
    | some c =>
      rw [hc] at h
      simp only [] at h
      by_cases hl : call.args.length ≠ c.argTys.length
      · rw [if_pos hl] at h; cases h
      · rw [if_neg hl] at h
        cases hca : convertArgs c.argTys call.args with
        | error e => rw [hca] at h; cases h
        | ok tvs' =>
          rw [hca] at h
          cases h
          exact ⟨c, hc, rfl, Decidable.of_not_not hl, hca⟩

/-! ### Replaying events on a queue -/

/-- What one observable event does to the error queue of an `ErrorCommands`
interface whose `NEXT?` handler has number `idNext`: a reported error is pushed, an
invocation of `NEXT?` pops, every other handler invocation does nothing. -/
def evEffect (idNext : Nat) (q : EQueue) : Ev → EQueue
  | .call id _ => if id = idNext then q.pop.2 else q
  | .error e => q.push e

/-- Replay a list of events, oldest first. -/
def replay (idNext : Nat) (q : EQueue) (evs : List Ev) : EQueue := evs.foldl (evEffect idNext) q

theorem replay_nil (n : Nat) (q : EQueue) : replay n q [] = q := rfl

theorem replay_cons (n : Nat) (q : EQueue) (ev : Ev) (evs : List Ev) :
    replay n q (ev :: evs) = replay n (evEffect n q ev) evs := rfl

theorem replay_append (n : Nat) (q : EQueue) (a b : List Ev) :
    replay n q (a ++ b) = replay n (replay n q a) b := by
  simp [replay, List.foldl_append]

/-- The queue operation an event stands for (`count` stands for "no change"). -/
def evOp (idNext : Nat) : Ev → C09.QOp
  | .call id _ => if id = idNext then .pop else .count
  | .error e => .push e

theorem evEffect_eq_step (n : Nat) (q : EQueue) (ev : Ev) :
    evEffect n q ev = (C09.step q (evOp n ev)).1 := by
  cases ev with
  | call id args =>
    simp only [evEffect, evOp]
    split <;> rfl
  | error e => rfl

/-- Replaying events is running the corresponding operations of C09. -/
theorem replay_eq_runOps (n : Nat) (evs : List Ev) (q : EQueue) :
    replay n q evs = (C09.runOps q (evs.map (evOp n))).1 := by
  induction evs generalizing q with
  | nil => rfl
  | cons ev evs ih =>
    rw [replay_cons, ih, evEffect_eq_step]
    simp only [List.map_cons, C09.runOps]

theorem replay_cap (n : Nat) (evs : List Ev) (q : EQueue) : (replay n q evs).cap = q.cap := by
  induction evs generalizing q with
  | nil => rfl
  | cons ev evs ih =>
    rw [replay_cons, ih, evEffect_eq_step]
    exact (C09.step_refines q _).2

/-! ### The tracing functions -/

/-- The event a handler invocation leaves in the trace. -/
def fcEv : Nat → List TVal → List Ev := fun id tvs => [Ev.call id tvs]
/-- The event a reported error leaves in the trace. -/
def feEv : Err → List Ev := fun e => [Ev.error e]

/-- The observable events of the unit at configuration `c`. -/
def unitEvents {σ : Type} (I : Iface σ) (c : Cfg σ) : List Ev := unitLog I fcEv feEv c

/-- The observable events of a run, in order: handler invocations and reported
errors (this is the log of `I.traced`, see `Scpi.C02.traced_same_behaviour`). -/
def eventsOf {σ : Type} (I : Iface σ) (h : Node) (x : Bytes) (w : Writer) (s : σ) : List Ev :=
  runLog I fcEv feEv h x w s

theorem eventsOf_eq_traced {σ : Type} (I : Iface σ) (h : Node) (x : Bytes) (w : Writer) (s : σ) :
    eventsOf I h x w s = (runFrom I.traced h x w (s, [])).s.2 := rfl

theorem eventsOf_nil {σ : Type} (I : Iface σ) (h : Node) (w : Writer) (s : σ) :
    eventsOf I h [] w s = [] := runLog_nil I _ _ h w s

theorem eventsOf_step {σ : Type} (I : Iface σ) (h : Node) (x : Bytes) (w : Writer) (s : σ)
    (hne : x ≠ []) :
    eventsOf I h x w s =
      unitEvents I ⟨h, x, w, s⟩ ++
        match unitStep I ⟨h, x, w, s⟩ with
        | .stop _ => []
        | .next c => eventsOf I c.header c.input c.w c.s :=
  runLog_step I _ _ h x w s hne

/-! ### The queue along one unit -/

section
variable {σ : Type} (E : ErrIface σ)

/-- The queue after `execute`: the effect of the invoked handler, if any. -/
theorem getQ_execute (call : CommandCall) (w : Writer) (s : σ) :
    E.getQ (execute E.I call w s).1 =
      replay E.idNext (E.getQ s) (callLog fcEv (invocation E.I call)) := by
  rw [execute_state]
  cases hi : invocation E.I call with
  | none => rfl
  | some p =>
    obtain ⟨id, tvs⟩ := p
    obtain ⟨c, hc, _⟩ := invocation_some_cmd E.I call id tvs hi
    simp only [stateAfter, hc, callLog, fcEv, replay, List.foldl_cons, List.foldl_nil, evEffect]
    rw [E.getQ_handler id c hc]
    rfl

/-- The user state a step leaves. -/
def stepState : Step σ → σ
  | .stop o => o.s
  | .next c => c.s

/-- **One unit**: the queue after the unit is the queue before it with the unit's
events replayed. -/
theorem getQ_unitStep (c : Cfg σ) :
    E.getQ (stepState (unitStep E.I c)) = replay E.idNext (E.getQ c.s) (unitEvents E.I c) := by
  unfold unitEvents unitLog
  cases hp : parse E.I.root c.header c.input with
  | crash cr => exact absurd hp ((parse_strict _ _ _).noCrash cr)
  | incomplete => rw [unitStep_incomplete E.I c hp]; rfl
  | soft e =>
    rw [unitStep_soft E.I c e hp]
    cases afterNewline c.input <;>
      simp only [stepState, E.getQ_onError, feEv, replay, List.foldl_cons, List.foldl_nil, evEffect]
  | fatal e =>
    rw [unitStep_fatal E.I c e hp]
    cases afterNewline c.input <;>
      simp only [stepState, E.getQ_onError, feEv, replay, List.foldl_cons, List.foldl_nil, evEffect]
  | ok i oc =>
    cases oc with
    | none => rw [unitStep_empty_message E.I c i hp]; rfl
    | some call =>
      rw [unitStep_call E.I c i call hp]
      simp only [stepState]
      rw [replay_append, ← getQ_execute]
      cases (execute E.I call c.w c.s).2.2 with
      | ok => rfl
      | crash cr => rfl
      | err e =>
        simp only [reportExec, E.getQ_onError, feEv, replay, List.foldl_cons, List.foldl_nil,
          evEffect]

/-! ### The queue along a run -/

theorem getQ_runFrom_aux : ∀ (n : Nat) (h : Node) (x : Bytes) (w : Writer) (s : σ), x.length ≤ n →
    E.getQ (runFrom E.I h x w s).s = replay E.idNext (E.getQ s) (eventsOf E.I h x w s) := by
  intro n
  induction n with
  | zero =>
    intro h x w s hl
    have h0 : x = [] := List.eq_nil_of_length_eq_zero (by omega)
    subst h0
    rw [runFrom_nil, eventsOf_nil]; rfl
  | succ n ih =>
    intro h x w s hl
    by_cases h0 : x = []
    · subst h0
      rw [runFrom_nil, eventsOf_nil]; rfl
    · have hu := getQ_unitStep E ⟨h, x, w, s⟩
      rw [runFrom_step E.I h x w s h0, eventsOf_step E.I h x w s h0, replay_append]
      simp only [] at hu
      rw [← hu]
      cases hs : unitStep E.I ⟨h, x, w, s⟩ with
      | stop o => rfl
      | next c =>
        have hlt := (unitStep_next_lt E.I _ _ hs).1
        simp only [] at hlt ⊢
        exact ih c.header c.input c.w c.s (by omega)

/-- **A whole run**: the final queue is the initial queue with the events of the run
replayed in the order in which they happened. -/
theorem getQ_runFrom (h : Node) (x : Bytes) (w : Writer) (s : σ) :
    E.getQ (runFrom E.I h x w s).s = replay E.idNext (E.getQ s) (eventsOf E.I h x w s) :=
  getQ_runFrom_aux E _ h x w s (Nat.le_refl _)

end

/-! ### The bound -/

theorem evEffect_length_le (n : Nat) (q : EQueue) (ev : Ev) (h : q.items.length ≤ q.cap) :
    (evEffect n q ev).items.length ≤ q.cap := by
  rw [evEffect_eq_step]
  have := C09.length_le_cap [evOp n ev] q h
  simpa [C09.runOps] using this

theorem replay_length_le (n : Nat) (evs : List Ev) (q : EQueue) (h : q.items.length ≤ q.cap) :
    (replay n q evs).items.length ≤ q.cap := by
  rw [replay_eq_runOps]
  exact C09.length_le_cap _ q h

end E2E
end Scpi

/-! ### The reported errors are the error events of the trace -/

namespace Scpi
namespace E2E

/-- The error an event reports, if it is an error report. -/
def evErr? : Ev → Option Err
  | .error e => some e
  | .call _ _ => none

theorem callLog_fcEv_errs (o : Option (Nat × List TVal)) :
    (callLog fcEv o).filterMap evErr? = [] := by
  cases o with
  | none => rfl
  | some p => rfl

theorem unitEvents_errs {σ : Type} (I : Iface σ) (c : Cfg σ) :
    (unitEvents I c).filterMap evErr? = (unitFault I c).toList := by
  unfold unitEvents unitLog unitFault
  cases parse I.root c.header c.input with
  | ok i oc =>
    cases oc with
    | none => rfl
    | some call =>
      simp only [List.filterMap_append, callLog_fcEv_errs, List.nil_append]
      cases (execute I call c.w c.s).2.2 <;> rfl
  | _ => rfl

theorem eventsOf_errs_aux {σ : Type} (I : Iface σ) : ∀ (n : Nat) (h : Node) (x : Bytes) (w : Writer)
    (s : σ), x.length ≤ n → (eventsOf I h x w s).filterMap evErr? = errorsOf I h x w s := by
  intro n
  induction n with
  | zero =>
    intro h x w s hl
    have h0 : x = [] := List.eq_nil_of_length_eq_zero (by omega)
    subst h0
    rw [eventsOf_nil, errorsOf_nil]; rfl
  | succ n ih =>
    intro h x w s hl
    by_cases h0 : x = []
    · subst h0
      rw [eventsOf_nil, errorsOf_nil]; rfl
    · rw [eventsOf_step I h x w s h0, errorsOf_step I h x w s h0, List.filterMap_append,
        unitEvents_errs]
      cases hs : unitStep I ⟨h, x, w, s⟩ with
      | stop o => rfl
      | next c =>
        have hlt := (unitStep_next_lt I _ _ hs).1
        simp only [] at hlt ⊢
        rw [ih c.header c.input c.w c.s (by omega)]

/-- The error events of the trace are exactly the errors the logging wrapper of C06
records (`errorsOf`, see `Scpi.C06.errors_of_run`), in the same order. -/
theorem eventsOf_errs {σ : Type} (I : Iface σ) (h : Node) (x : Bytes) (w : Writer) (s : σ) :
    (eventsOf I h x w s).filterMap evErr? = errorsOf I h x w s :=
  eventsOf_errs_aux I _ h x w s (Nat.le_refl _)

/-- Without an invocation of `NEXT?` the replay is the fold of `push` over the errors. -/
theorem replay_no_next (n : Nat) (evs : List Ev) (q : EQueue)
    (h : ∀ args, Ev.call n args ∉ evs) :
    replay n q evs = C09.pushAll q (evs.filterMap evErr?) := by
  induction evs generalizing q with
  | nil => rfl
  | cons ev evs ih =>
    have ih' := fun q => ih q fun args hm => h args (List.mem_cons_of_mem _ hm)
    rw [replay_cons, ih']
    cases ev with
    | error e => rfl
    | call id args =>
      have : id ≠ n := fun hid => h args (hid ▸ List.mem_cons_self)
      simp only [evEffect, if_neg this, List.filterMap_cons, evErr?]

end E2E
end Scpi
