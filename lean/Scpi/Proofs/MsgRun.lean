/-
The induction behind `Scpi.Msg.run_render`: `runFrom` on a rendered message, unit by
unit, using the rendering theorem `parse_render` for each unit and the one-step
equations of `runFrom`.
-/
import Scpi.Proofs.MsgUnit
import Scpi.Proofs.MsgNewline
import Scpi.Proofs.RenderParse

namespace Scpi
namespace Msg

theorem render_append_ne_nil (u : MsgUnit) (ℓ : Lex) (t : Term) (rest : Bytes) :
    render u ℓ t ++ rest ≠ [] := by
  rw [render_eq_body]
  intro h
  have := congrArg List.length h
  simp only [List.length_append, List.length_cons, List.length_nil] at this
  omega

/-- The path with which the unit after `u` is read. -/
def pathAfter (root cur : Node) (parent : Option Node) : Term → Node
  | .nl => root
  | .semi => parent.getD cur

/-- **One resolved unit**: it is executed as `specUnit` says and the run goes on
behind it, from the root after the terminator, else from the parent of the node
addressed (common command: from the same path). -/
theorem runFrom_render_resolved {σ : Type} (I : Iface σ) (cur : Node) (u : MsgUnit) (ℓ : Lex)
    (t : Term) (rest : Bytes) (w : Writer) (s : σ) (hu : u.wf = true) (hℓ : ℓ.wf = true)
    (hfit : ℓ.fits u = true) (node : Node) (parent : Option Node)
    (hr : resolve I.root cur u.hdr.path = some (node, parent)) :
    runFrom I cur (render u ℓ t ++ rest) w s =
      runFrom I (pathAfter I.root cur parent t) rest
        (specUnit I node u.hdr.query (u.lits.map Lit.value) w s).1
        (specUnit I node u.hdr.query (u.lits.map Lit.value) w s).2 := by
  have hp := parse_render' I.root cur t rest hu hℓ hfit
  rw [hr] at hp
  simp only [] at hp
  rw [runFrom_step I cur _ w s (render_append_ne_nil u ℓ t rest),
    unitStep_call I ⟨cur, render u ℓ t ++ rest, w, s⟩ rest _ hp]
  simp only []
  rw [specUnit_eq_execute' I node parent u.hdr.query (decide (t = .nl))]
  have hh : headerAfter I.root cur
      { node := node, header := parent, query := u.hdr.query, args := u.lits.map Lit.value,
        terminated := decide (t = .nl) } = pathAfter I.root cur parent t := by
    cases t with
    | nl => rfl
    | semi =>
      simp only [headerAfter, pathAfter]
      cases parent <;> rfl
  rw [hh]

/-- **One unresolved unit**: one `UndefinedHeader`, then on behind the first byte 10. -/
theorem runFrom_render_unresolved {σ : Type} (I : Iface σ) (cur : Node) (u : MsgUnit) (ℓ : Lex)
    (t : Term) (rest : Bytes) (w : Writer) (s : σ) (hu : u.wf = true) (hℓ : ℓ.wf = true)
    (hfit : ℓ.fits u = true) (hr : resolve I.root cur u.hdr.path = none) (r : Bytes)
    (ha : afterNewline (render u ℓ t ++ rest) = some r) :
    runFrom I cur (render u ℓ t ++ rest) w s =
      runFrom I I.root r w (I.onError s (.std .UndefinedHeader)) := by
  have hp := parse_render' I.root cur t rest hu hℓ hfit
  rw [hr] at hp
  simp only [] at hp
  rw [runFrom_step I cur _ w s (render_append_ne_nil u ℓ t rest),
    unitStep_fatal I ⟨cur, render u ℓ t ++ rest, w, s⟩ _ hp]
  simp only [ha]

/-- The empty message, or what is left of a message after its last `;`. -/
theorem runFrom_blank {σ : Type} (I : Iface σ) (cur : Node) (ws rest : Bytes) (w : Writer) (s : σ)
    (hws : allWs ws = true) :
    runFrom I cur (ws ++ 10 :: rest) w s = runFrom I I.root rest w s := by
  have hp := Scpi.parse_empty I.root cur rest hws
  have hne : ws ++ 10 :: rest ≠ [] := by
    intro h
    have := congrArg List.length h
    simp only [List.length_append, List.length_cons, List.length_nil] at this
    omega
  rw [runFrom_step I cur _ w s hne, unitStep_empty_message I ⟨cur, ws ++ 10 :: rest, w, s⟩ rest hp]

/-! ### The message -/

theorem wfMsg_cons {u : MsgUnit} {ℓ : Lex} {m : List (MsgUnit × Lex)} (h : wfMsg ((u, ℓ) :: m) = true) :
    u.wf = true ∧ ℓ.wf = true ∧ ℓ.fits u = true ∧ wfMsg m = true := by
  simp only [wfMsg, List.all_cons, Bool.and_eq_true] at h
  exact ⟨h.1.1.1, h.1.1.2, h.1.2, h.2⟩

theorem run_renderMsg {σ : Type} (I : Iface σ) : ∀ (m : List (MsgUnit × Lex)) (cur : Node)
    (rest : Bytes) (w : Writer) (s : σ), m ≠ [] → wfMsg m = true →
    dropSafe I.root cur (units m) = true →
    runFrom I cur (renderMsg m ++ rest) w s =
      runFrom I I.root rest (specExec I cur (units m) w s).1 (specExec I cur (units m) w s).2
  | [], _, _, _, _, h, _, _ => absurd rfl h
  | [(u, ℓ)], cur, rest, w, s, _, hw, hd => by
    obtain ⟨hu, hℓ, hfit, _⟩ := wfMsg_cons hw
    simp only [units, List.map_cons, List.map_nil, dropSafe, specExec, renderMsg] at hd ⊢
    cases hr : resolve I.root cur u.hdr.path with
    | none =>
      rw [hr] at hd
      simp only [List.all_cons, List.all_nil, Bool.and_true] at hd
      exact runFrom_render_unresolved I cur u ℓ .nl rest w s hu hℓ hfit hr rest
        (afterNewline_render_nl hu hℓ hd rest)
    | some np =>
      obtain ⟨node, parent⟩ := np
      exact runFrom_render_resolved I cur u ℓ .nl rest w s hu hℓ hfit node parent hr
  | (u, ℓ) :: p :: m, cur, rest, w, s, _, hw, hd => by
    obtain ⟨hu, hℓ, hfit, hw'⟩ := wfMsg_cons hw
    have hunits : units ((u, ℓ) :: p :: m) = u :: units (p :: m) := rfl
    rw [hunits] at hd ⊢
    simp only [dropSafe, specExec, renderMsg, List.append_assoc] at hd ⊢
    cases hr : resolve I.root cur u.hdr.path with
    | none =>
      rw [hr] at hd
      simp only [List.all_cons, Bool.and_eq_true] at hd
      refine runFrom_render_unresolved I cur u ℓ .semi _ w s hu hℓ hfit hr rest ?_
      rw [afterNewline_render_semi hu hℓ hd.1]
      exact afterNewline_renderMsg (m := p :: m) (by simp) hw' hd.2 rest
    | some np =>
      obtain ⟨node, parent⟩ := np
      rw [hr] at hd
      simp only [] at hd ⊢
      rw [runFrom_render_resolved I cur u ℓ .semi _ w s hu hℓ hfit node parent hr]
      exact run_renderMsg I (p :: m) (parent.getD cur) rest _ _ (by simp) hw' hd

theorem run_renderOpen {σ : Type} (I : Iface σ) : ∀ (m : List (MsgUnit × Lex)) (ws : Bytes)
    (cur : Node) (rest : Bytes) (w : Writer) (s : σ), wfMsg m = true → allWs ws = true →
    dropSafe I.root cur (units m) = true →
    runFrom I cur (renderOpen m ws ++ rest) w s =
      runFrom I I.root rest (specExec I cur (units m) w s).1 (specExec I cur (units m) w s).2
  | [], ws, cur, rest, w, s, _, hws, _ => by
    simp only [renderOpen, renderSemis, List.nil_append, List.append_assoc, List.cons_append,
      units, List.map_nil, specExec]
    exact runFrom_blank I cur ws rest w s hws
  | (u, ℓ) :: m, ws, cur, rest, w, s, hw, hws, hd => by
    obtain ⟨hu, hℓ, hfit, hw'⟩ := wfMsg_cons hw
    have hunits : units ((u, ℓ) :: m) = u :: units m := rfl
    have hopen : renderOpen ((u, ℓ) :: m) ws ++ rest = render u ℓ .semi ++ (renderOpen m ws ++ rest) := by
      simp only [renderOpen, renderSemis, List.append_assoc]
    rw [hunits] at hd ⊢
    rw [hopen]
    simp only [dropSafe, specExec] at hd ⊢
    cases hr : resolve I.root cur u.hdr.path with
    | none =>
      rw [hr] at hd
      simp only [List.all_cons, Bool.and_eq_true] at hd
      refine runFrom_render_unresolved I cur u ℓ .semi _ w s hu hℓ hfit hr rest ?_
      rw [afterNewline_render_semi hu hℓ hd.1]
      exact afterNewline_renderOpen hw' hd.2 hws rest
    | some np =>
      obtain ⟨node, parent⟩ := np
      rw [hr] at hd
      simp only [] at hd ⊢
      rw [runFrom_render_resolved I cur u ℓ .semi _ w s hu hℓ hfit node parent hr]
      exact run_renderOpen I m ws (parent.getD cur) rest _ _ hw' hws hd

/-! ### The side condition -/

theorem dropSafe_of_allResolve (root : Node) : ∀ (cur : Node) (us : List MsgUnit),
    allResolve root cur us = true → dropSafe root cur us = true
  | _, [], _ => rfl
  | cur, u :: us, h => by
    simp only [allResolve, dropSafe] at h ⊢
    cases hr : resolve root cur u.hdr.path with
    | none => rw [hr] at h; cases h
    | some np =>
      obtain ⟨node, parent⟩ := np
      rw [hr] at h
      exact dropSafe_of_allResolve root _ us h

theorem dropSafe_of_nlFree (root : Node) : ∀ (cur : Node) (us : List MsgUnit),
    us.all unitNlFree = true → dropSafe root cur us = true
  | _, [], _ => rfl
  | cur, u :: us, h => by
    simp only [dropSafe]
    cases hr : resolve root cur u.hdr.path with
    | none => exact h
    | some np =>
      obtain ⟨node, parent⟩ := np
      simp only [List.all_cons, Bool.and_eq_true] at h
      exact dropSafe_of_nlFree root _ us h.2

end Msg
end Scpi
