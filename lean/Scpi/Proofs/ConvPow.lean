/-
Helpers for C03 (float part), stage 1: comparing a positive fraction `n/d` with a power
of two whose exponent is an integer, without rational numbers:
`GeI n d e` is "`2^e ≤ n/d`", stated as `d * 2^e⁺ ≤ n * 2^e⁻`.
-/
import Scpi.Spec.Numerals

namespace Scpi
namespace C03

theorem two_pow_pos' (k : Nat) : 0 < 2 ^ k := Nat.two_pow_pos k

/-- `2^(p-m) ≤ n/d`, cross-multiplied. -/
def Ge2 (n d p m : Nat) : Prop := d * 2 ^ p ≤ n * 2 ^ m

theorem ge2_scale (n d p m j : Nat) : Ge2 n d p m ↔ Ge2 n d (p + j) (m + j) := by
  unfold Ge2
  rw [Nat.pow_add, Nat.pow_add, ← Nat.mul_assoc, ← Nat.mul_assoc]
  exact (Nat.mul_le_mul_right_iff (two_pow_pos' j)).symm

theorem ge2_congr {n d p m p' m' : Nat} (h : (p : Int) - m = p' - m') :
    Ge2 n d p m ↔ Ge2 n d p' m' := by
  rw [ge2_scale n d p m m', ge2_scale n d p' m' m]
  have h1 : p + m' = p' + m := by omega
  have h2 : m + m' = m' + m := by omega
  rw [h1, h2]

theorem ge2_mono {n d p m p' m' : Nat} (h : (p' : Int) - m' ≤ p - m) (hg : Ge2 n d p m) :
    Ge2 n d p' m' := by
  rw [ge2_scale n d p' m' m]
  rw [ge2_scale n d p m m'] at hg
  unfold Ge2 at hg ⊢
  have h1 : p' + m ≤ p + m' := by omega
  have h2 : m + m' = m' + m := by omega
  rw [← h2]
  exact Nat.le_trans (Nat.mul_le_mul_left d (Nat.pow_le_pow_right (by decide) h1)) hg

/-- `2^e ≤ n/d` for an integer exponent. -/
def GeI (n d : Nat) (e : Int) : Prop := Ge2 n d e.toNat (-e).toNat

theorem geI_iff {n d p m : Nat} {e : Int} (h : (p : Int) - m = e) : GeI n d e ↔ Ge2 n d p m := by
  unfold GeI
  apply ge2_congr
  omega

theorem geI_mono {n d : Nat} {e e' : Int} (h : e' ≤ e) (hg : GeI n d e) : GeI n d e' := by
  unfold GeI at hg ⊢
  apply ge2_mono _ hg
  omega

/-- The model's comparison `ge` inside `roundRat`. -/
def geB (n d : Nat) (e : Int) : Bool :=
  if e ≥ 0 then decide (d * 2 ^ e.toNat ≤ n) else decide (d ≤ n * 2 ^ (-e).toNat)

theorem geB_iff (n d : Nat) (e : Int) : geB n d e = true ↔ GeI n d e := by
  unfold geB GeI Ge2
  split
  · rename_i h
    have : (-e).toNat = 0 := by omega
    rw [this]; simp
  · rename_i h
    have : e.toNat = 0 := by omega
    rw [this]; simp

/-- The exponent `roundRat` chooses: `floor (log2 (n/d))`. -/
def chooseE (n d : Nat) : Int :=
  if geB n d ((n.log2 : Int) - (d.log2 : Int) + 1) = true then (n.log2 : Int) - (d.log2 : Int) + 1
  else if geB n d ((n.log2 : Int) - (d.log2 : Int)) = true then (n.log2 : Int) - (d.log2 : Int)
  else (n.log2 : Int) - (d.log2 : Int) - 1

/-- `2^e ≤ n/d < 2^(e+1)` for the chosen exponent. -/
theorem chooseE_spec (n d : Nat) (hn : n ≠ 0) (hd : d ≠ 0) :
    GeI n d (chooseE n d) ∧ ¬ GeI n d (chooseE n d + 1) := by
  have hn1 : 2 ^ n.log2 ≤ n := Nat.log2_self_le hn
  have hn2 : n < 2 ^ (n.log2 + 1) := Nat.lt_log2_self
  have hd1 : 2 ^ d.log2 ≤ d := Nat.log2_self_le hd
  have hd2 : d < 2 ^ (d.log2 + 1) := Nat.lt_log2_self
  -- n/d < 2^(e0+1)
  have hup : ¬ GeI n d ((n.log2 : Int) - (d.log2 : Int) + 1) := by
    rw [geI_iff (p := n.log2 + 1) (m := d.log2) (by omega)]
    unfold Ge2
    intro h
    have h1 : n * 2 ^ d.log2 < 2 ^ (n.log2 + 1) * 2 ^ d.log2 :=
      Nat.mul_lt_mul_of_pos_right hn2 (two_pow_pos' _)
    have h2 : 2 ^ (n.log2 + 1) * 2 ^ d.log2 ≤ 2 ^ (n.log2 + 1) * d :=
      Nat.mul_le_mul_left _ hd1
    rw [Nat.mul_comm d] at h
    omega
  -- 2^(e0-1) ≤ n/d
  have hlo : GeI n d ((n.log2 : Int) - (d.log2 : Int) - 1) := by
    rw [geI_iff (p := n.log2) (m := d.log2 + 1) (by omega)]
    unfold Ge2
    have h1 : d * 2 ^ n.log2 ≤ 2 ^ (d.log2 + 1) * 2 ^ n.log2 :=
      Nat.mul_le_mul_right _ (Nat.le_of_lt hd2)
    have h2 : 2 ^ (d.log2 + 1) * 2 ^ n.log2 ≤ 2 ^ (d.log2 + 1) * n :=
      Nat.mul_le_mul_left _ hn1
    rw [Nat.mul_comm n]
    omega
  unfold chooseE
  split
  · rename_i h
    exact absurd ((geB_iff _ _ _).mp h) hup
  · split
    · rename_i h
      exact ⟨(geB_iff _ _ _).mp h, hup⟩
    · rename_i h
      refine ⟨hlo, ?_⟩
      intro hg
      apply h
      rw [geB_iff]
      have : (n.log2 : Int) - (d.log2 : Int) - 1 + 1 = (n.log2 : Int) - (d.log2 : Int) := by omega
      rw [this] at hg
      exact hg

end C03
end Scpi
