/-
Where the first newline of a rendered message is.

After a fatal error `run_from` skips to the first byte 10 (`afterNewline`).  The
rendering of a well-formed unit contains the byte 10 only inside string and block
payloads (`render_noNl`), so for a message whose remaining units are free of such
payloads the first newline is the message terminator (`afterNewline_renderMsg`,
`afterNewline_renderOpen`).
-/
import Scpi.Spec.MsgAst

namespace Scpi
namespace Msg

/-- No byte of `x` is the newline. -/
def noNl (x : Bytes) : Bool := x.all (· != 10)

theorem noNl_nil : noNl [] = true := rfl

theorem noNl_append {a b : Bytes} (ha : noNl a = true) (hb : noNl b = true) :
    noNl (a ++ b) = true := by
  simp only [noNl, List.all_append, Bool.and_eq_true] at ha hb ⊢
  exact ⟨ha, hb⟩

theorem noNl_cons {b : Nat} {x : Bytes} (hb : b ≠ 10) (hx : noNl x = true) :
    noNl (b :: x) = true := by
  simp only [noNl, List.all_cons, Bool.and_eq_true, bne_iff_ne, ne_eq] at hx ⊢
  exact ⟨hb, hx⟩

/-- A byte class that excludes the newline. -/
theorem noNl_of_all {p : Nat → Bool} (hp : ∀ b, p b = true → b ≠ 10) {x : Bytes}
    (h : x.all p = true) : noNl x = true := by
  simp only [noNl, List.all_eq_true, bne_iff_ne, ne_eq] at h ⊢
  exact fun b hb => hp b (h b hb)

/-! ### `afterNewline` -/

theorem afterNewline_nl (r : Bytes) : afterNewline (10 :: r) = some r := by
  simp only [afterNewline, beq_self_eq_true, if_true]

/-- `afterNewline` skips a newline-free prefix. -/
theorem afterNewline_append : ∀ {x : Bytes}, noNl x = true → ∀ y : Bytes,
    afterNewline (x ++ y) = afterNewline y
  | [], _, _ => rfl
  | b :: x, h, y => by
    simp only [noNl, List.all_cons, Bool.and_eq_true, bne_iff_ne, ne_eq] at h
    have hb : (b == 10) = false := by simp only [beq_eq_false_iff_ne, ne_eq]; exact h.1
    simp only [List.cons_append, afterNewline, hb, Bool.false_eq_true, if_false]
    exact afterNewline_append (x := x) h.2 y

/-! ### Byte classes without the newline -/

theorem isWs_ne_nl (b : Nat) (h : isWs b = true) : b ≠ 10 := by
  simp only [isWs, Bool.or_eq_true, Bool.and_eq_true, decide_eq_true_eq] at h
  omega

theorem isMnemonicTail_ne_nl (b : Nat) (h : isMnemonicTail b = true) : b ≠ 10 := by
  simp only [isMnemonicTail, isAlnum, isAlpha, isDigit, Bool.or_eq_true, Bool.and_eq_true,
    decide_eq_true_eq, beq_iff_eq] at h
  omega

theorem isAlpha_ne_nl (b : Nat) (h : isAlpha b = true) : b ≠ 10 := by
  simp only [isAlpha, Bool.or_eq_true, Bool.and_eq_true, decide_eq_true_eq] at h
  omega

theorem isDigit_ne_nl (b : Nat) (h : isDigit b = true) : b ≠ 10 := by
  simp only [isDigit, Bool.and_eq_true, decide_eq_true_eq] at h
  omega

theorem isHexDigit_ne_nl (b : Nat) (h : isHexDigit b = true) : b ≠ 10 := by
  simp only [isHexDigit, isDigit, Bool.or_eq_true, Bool.and_eq_true, decide_eq_true_eq] at h
  omega

theorem isBinDigit_ne_nl (b : Nat) (h : isBinDigit b = true) : b ≠ 10 := by
  simp only [isBinDigit, Bool.or_eq_true, beq_iff_eq] at h
  omega

theorem isOctDigit_ne_nl (b : Nat) (h : isOctDigit b = true) : b ≠ 10 := by
  simp only [isOctDigit, Bool.and_eq_true, decide_eq_true_eq] at h
  omega

theorem allWs_noNl {w : Bytes} (h : allWs w = true) : noNl w = true :=
  noNl_of_all isWs_ne_nl h

theorem mnemonic_noNl {m : Bytes} (h : isMnemonicText m = true) : noNl m = true := by
  cases m with
  | nil => rfl
  | cons b r =>
    simp only [isMnemonicText, Bool.and_eq_true] at h
    exact noNl_cons (isAlpha_ne_nl b h.1) (noNl_of_all isMnemonicTail_ne_nl h.2)

/-! ### Headers -/

theorem renderPath_noNl : ∀ {ms : List Bytes}, ms.all isMnemonicText = true →
    noNl (renderPath ms) = true
  | [], _ => rfl
  | [m], h => by
    simp only [List.all_cons, List.all_nil, Bool.and_true] at h
    exact mnemonic_noNl h
  | m :: m' :: ms, h => by
    simp only [List.all_cons, Bool.and_eq_true] at h
    simp only [renderPath]
    refine noNl_append (mnemonic_noNl h.1) (noNl_cons (by decide) ?_)
    apply renderPath_noNl
    simp only [List.all_cons, Bool.and_eq_true]
    exact h.2

theorem hdr_noNl {h : Hdr} (hw : h.path.wf = true) : noNl h.render = true := by
  unfold Hdr.render
  refine noNl_append ?_ (by cases h.query <;> rfl)
  cases hp : h.path with
  | compound a ms =>
    rw [hp] at hw
    simp only [HdrPath.wf, Bool.and_eq_true] at hw
    simp only [HdrPath.render]
    exact noNl_append (by cases a <;> rfl) (renderPath_noNl hw.2)
  | common n =>
    rw [hp] at hw
    simp only [HdrPath.wf] at hw
    simp only [HdrPath.render]
    exact noNl_cons (by decide) (mnemonic_noNl hw)

/-! ### Literals -/

theorem signOpt_noNl {s : Option Nat} (h : isSignOpt s = true) : noNl s.toList = true := by
  cases s with
  | none => rfl
  | some b =>
    simp only [isSignOpt, Bool.or_eq_true, beq_iff_eq] at h
    exact noNl_cons (by omega) rfl

theorem padDigits_noNl : ∀ (k n : Nat), noNl (padDigits k n) = true
  | 0, _ => rfl
  | k + 1, n => by
    simp only [padDigits]
    exact noNl_append (padDigits_noNl k (n / 10)) (noNl_cons (by omega) rfl)

theorem dec_noNl {d : DecText} (h : d.wf = true) : noNl d.render = true := by
  simp only [DecText.wf, Bool.and_eq_true] at h
  obtain ⟨⟨⟨⟨⟨hs, hi⟩, hf⟩, _⟩, _⟩, he⟩ := h
  unfold DecText.render DecText.renderMantissa
  refine noNl_append (noNl_append (signOpt_noNl hs) (noNl_append (noNl_of_all isDigit_ne_nl hi)
    (noNl_append (by cases d.dot <;> rfl) (noNl_of_all isDigit_ne_nl hf)))) ?_
  cases hx : d.exp with
  | none => rfl
  | some t =>
    obtain ⟨e, s, ds⟩ := t
    rw [hx] at he
    simp only [Bool.and_eq_true, Bool.or_eq_true, beq_iff_eq] at he
    simp only [DecText.renderExp]
    exact noNl_cons (by omega) (noNl_append (signOpt_noNl he.1.1.2) (noNl_of_all isDigit_ne_nl he.1.2))

/-- The bytes of a well-formed literal contain a newline only in a string or block
payload. -/
theorem lit_noNl {l : Lit} (hw : l.wf = true) (hn : litNlFree l = true) : noNl l.render = true := by
  cases l with
  | chars s => exact mnemonic_noNl hw
  | dec d => exact dec_noNl hw
  | hex up ds =>
    simp only [Lit.wf, Bool.and_eq_true] at hw
    exact noNl_cons (by decide) (noNl_cons (by cases up <;> decide) (noNl_of_all isHexDigit_ne_nl hw.2))
  | bin up ds =>
    simp only [Lit.wf, Bool.and_eq_true] at hw
    exact noNl_cons (by decide) (noNl_cons (by cases up <;> decide) (noNl_of_all isBinDigit_ne_nl hw.2))
  | oct up ds =>
    simp only [Lit.wf, Bool.and_eq_true] at hw
    exact noNl_cons (by decide) (noNl_cons (by cases up <;> decide) (noNl_of_all isOctDigit_ne_nl hw.2))
  | str q p =>
    simp only [Lit.wf, Bool.and_eq_true, Bool.or_eq_true, beq_iff_eq] at hw
    have hq : q ≠ 10 := by omega
    exact noNl_cons hq (noNl_append hn (noNl_cons hq rfl))
  | block nd p =>
    simp only [Lit.wf, Bool.and_eq_true, decide_eq_true_eq] at hw
    exact noNl_cons (by decide) (noNl_cons (by omega) (noNl_append (padDigits_noNl _ _) hn))

/-! ### Parameters and units -/

theorem commas_head_ws {cs : List (Bytes × Bytes)}
    (h : cs.all (fun p => allWs p.1 && allWs p.2) = true) :
    allWs (cs.head?.getD ([], [])).1 = true ∧ allWs (cs.head?.getD ([], [])).2 = true ∧
      cs.tail.all (fun p => allWs p.1 && allWs p.2) = true := by
  cases cs with
  | nil => exact ⟨rfl, rfl, rfl⟩
  | cons c cs =>
    simp only [List.all_cons, Bool.and_eq_true] at h
    exact ⟨h.1.1, h.1.2, h.2⟩

theorem renderMore_noNl : ∀ {ls : List Lit} {cs : List (Bytes × Bytes)},
    ls.all Lit.wf = true → ls.all litNlFree = true →
    cs.all (fun p => allWs p.1 && allWs p.2) = true → noNl (renderMore ls cs) = true
  | [], _, _, _, _ => rfl
  | l :: ls, cs, hw, hn, hc => by
    simp only [List.all_cons, Bool.and_eq_true] at hw hn
    obtain ⟨c1, c2, ct⟩ := commas_head_ws hc
    simp only [renderMore]
    exact noNl_append (allWs_noNl c1) (noNl_cons (by decide) (noNl_append (allWs_noNl c2)
      (noNl_append (lit_noNl hw.1 hn.1) (renderMore_noNl hw.2 hn.2 ct))))

theorem renderArgs_noNl {ls : List Lit} {cs : List (Bytes × Bytes)}
    (hw : ls.all Lit.wf = true) (hn : ls.all litNlFree = true)
    (hc : cs.all (fun p => allWs p.1 && allWs p.2) = true) : noNl (renderArgs ls cs) = true := by
  cases ls with
  | nil => rfl
  | cons l ls =>
    simp only [List.all_cons, Bool.and_eq_true] at hw hn
    simp only [renderArgs]
    exact noNl_append (lit_noNl hw.1 hn.1) (renderMore_noNl hw.2 hn.2 hc)

/-- A rendered unit is `body ++ [terminator]`. -/
def unitBody (u : MsgUnit) (ℓ : Lex) : Bytes :=
  ℓ.lead ++ (u.hdr.render ++ (ℓ.sep ++ (renderArgs u.lits ℓ.commas ++ ℓ.trail)))

theorem render_eq_body (u : MsgUnit) (ℓ : Lex) (t : Term) (rest : Bytes) :
    render u ℓ t ++ rest = unitBody u ℓ ++ t.byte :: rest := by
  simp only [render, unitBody, List.append_assoc, List.cons_append, List.nil_append]

/-- **The only newlines of a rendered unit are in string and block payloads** (and
the terminator). -/
theorem body_noNl {u : MsgUnit} {ℓ : Lex} (hu : u.wf = true) (hℓ : ℓ.wf = true)
    (hn : unitNlFree u = true) : noNl (unitBody u ℓ) = true := by
  simp only [MsgUnit.wf, Bool.and_eq_true] at hu
  simp only [Lex.wf, Bool.and_eq_true] at hℓ
  obtain ⟨⟨⟨h1, h2⟩, h3⟩, h4⟩ := hℓ
  exact noNl_append (allWs_noNl h1) (noNl_append (hdr_noNl hu.1.1) (noNl_append (allWs_noNl h2)
    (noNl_append (renderArgs_noNl hu.1.2 hn h3) (allWs_noNl h4))))

/-- Skipping from the start of a newline-free unit ended by `;`: on to the next unit. -/
theorem afterNewline_render_semi {u : MsgUnit} {ℓ : Lex} (hu : u.wf = true) (hℓ : ℓ.wf = true)
    (hn : unitNlFree u = true) (rest : Bytes) :
    afterNewline (render u ℓ .semi ++ rest) = afterNewline rest := by
  rw [render_eq_body, afterNewline_append (body_noNl hu hℓ hn)]
  simp only [Term.byte, afterNewline]
  rfl

/-- Skipping from the start of a newline-free unit ended by the terminator: to just
behind the terminator. -/
theorem afterNewline_render_nl {u : MsgUnit} {ℓ : Lex} (hu : u.wf = true) (hℓ : ℓ.wf = true)
    (hn : unitNlFree u = true) (rest : Bytes) :
    afterNewline (render u ℓ .nl ++ rest) = some rest := by
  rw [render_eq_body, afterNewline_append (body_noNl hu hℓ hn)]
  exact afterNewline_nl rest

/-- **The first newline of a message without newlines in payloads is its terminator.** -/
theorem afterNewline_renderMsg : ∀ {m : List (MsgUnit × Lex)}, m ≠ [] → wfMsg m = true →
    (units m).all unitNlFree = true → ∀ rest : Bytes,
    afterNewline (renderMsg m ++ rest) = some rest
  | [], h, _, _, _ => absurd rfl h
  | [(u, ℓ)], _, hw, hn, rest => by
    simp only [wfMsg, List.all_cons, List.all_nil, Bool.and_true, Bool.and_eq_true] at hw
    simp only [units, List.map_cons, List.map_nil, List.all_cons, List.all_nil, Bool.and_true] at hn
    exact afterNewline_render_nl hw.1.1 hw.1.2 hn rest
  | (u, ℓ) :: p :: m, _, hw, hn, rest => by
    simp only [wfMsg, List.all_cons, Bool.and_eq_true] at hw
    simp only [units, List.map_cons, List.all_cons, Bool.and_eq_true] at hn
    simp only [renderMsg, List.append_assoc]
    rw [afterNewline_render_semi hw.1.1.1 hw.1.1.2 hn.1]
    apply afterNewline_renderMsg (m := p :: m) (by simp)
    · simp only [wfMsg, List.all_cons, Bool.and_eq_true]; exact hw.2
    · simp only [units, List.map_cons, List.all_cons, Bool.and_eq_true]; exact hn.2

theorem afterNewline_renderOpen : ∀ {m : List (MsgUnit × Lex)} {ws : Bytes}, wfMsg m = true →
    (units m).all unitNlFree = true → allWs ws = true → ∀ rest : Bytes,
    afterNewline (renderOpen m ws ++ rest) = some rest
  | [], ws, _, _, hws, rest => by
    simp only [renderOpen, renderSemis, List.nil_append, List.append_assoc, List.cons_append]
    rw [afterNewline_append (allWs_noNl hws)]
    exact afterNewline_nl rest
  | (u, ℓ) :: m, ws, hw, hn, hws, rest => by
    simp only [wfMsg, List.all_cons, Bool.and_eq_true] at hw
    simp only [units, List.map_cons, List.all_cons, Bool.and_eq_true] at hn
    have := afterNewline_renderOpen (m := m) (ws := ws) hw.2 hn.2 hws rest
    simp only [renderOpen, renderSemis, List.append_assoc] at this ⊢
    rw [afterNewline_render_semi hw.1.1.1 hw.1.1.2 hn.1]
    exact this

end Msg
end Scpi
