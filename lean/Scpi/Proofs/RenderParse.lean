/-
`parse` on the rendering of a well-formed program message unit (the rendering
theorem behind C11, C03, C08, C01/C02).
-/
import Scpi.Proofs.RenderArgs
import Scpi.Proofs.RenderHdr
import Scpi.Proofs.ExtParse

namespace Scpi

/-! ### The end of the unit -/

theorem Term.byte_cases (t : Term) : t.byte = 59 ∨ t.byte = 10 := by
  cases t
  · exact Or.inl rfl
  · exact Or.inr rfl

theorem Term.byte_not_ws (t : Term) : isWs t.byte = false := by cases t <;> rfl

/-- Optional white space, then `;` or newline. -/
theorem parseTail_render (nh : Node × Option Node) (q : Bool) (args : List Value) {w : Bytes}
    (t : Term) (rest : Bytes) (hw : allWs w = true) :
    parseTail nh q (w ++ t.byte :: rest) args =
      .ok rest (some { node := nh.1, header := nh.2, query := q, args := args,
                       terminated := decide (t = .nl) }) := by
  cases t with
  | semi =>
    obtain ⟨v, e⟩ := optP_whitespace_append hw (ends_cons (d := 59) (r := rest) (by decide))
    simp only [parseTail, Term.byte, e, PResult.bind, tag_cons_ne (t := 10) (b := 59) rest (by decide),
      tag_cons_self, PResult.map, PResult.orElse]
    rfl
  | nl =>
    obtain ⟨v, e⟩ := optP_whitespace_append hw (ends_cons (d := 10) (r := rest) (by decide))
    simp only [parseTail, Term.byte, e, PResult.bind, tag_cons_self, PResult.map, PResult.orElse]
    rfl

/-! ### What follows the header -/

/-- The shape of everything after the header and the question mark: white space, then a
byte that is neither white space, colon nor question mark; without white space that
byte is a terminator. -/
structure BodyForm (body : Bytes) : Prop where
  form : ∃ w d r, body = w ++ d :: r ∧ allWs w = true ∧ isWs d = false ∧ d ≠ 58 ∧ d ≠ 63 ∧
    (w = [] → d = 59 ∨ d = 10)

theorem BodyForm.headerSeparator {body : Bytes} (h : BodyForm body) :
    headerSeparator body = .soft (some (.std .HeaderSeparatorError)) := by
  obtain ⟨w, d, r, e, hw, hd, h58, _, _⟩ := h.form
  rw [e]; exact headerSeparator_soft r hw hd h58

theorem BodyForm.ends_mnemonicTail {body : Bytes} (h : BodyForm body) : Ends isMnemonicTail body := by
  obtain ⟨w, d, r, e, hw, hd, _, _, hnil⟩ := h.form
  rw [e]
  cases w with
  | nil =>
    refine ends_cons ?_
    rcases hnil rfl with e | e <;> subst e <;> decide
  | cons b t =>
    simp only [allWs, List.all_cons, Bool.and_eq_true] at hw
    exact ends_cons (isDelim_not_mnemonicTail (isDelim_of_isWs hw.1))

theorem BodyForm.queryMark {body : Bytes} (h : BodyForm body) : queryMark body = (body, false) := by
  obtain ⟨w, d, r, e, hw, hd, _, h63, _⟩ := h.form
  rw [e]
  cases w with
  | nil => simp only [List.nil_append, Scpi.queryMark, tag_cons_ne r h63]
  | cons b t =>
    simp only [allWs, List.all_cons, Bool.and_eq_true] at hw
    have : b ≠ 63 := by
      have := hw.1; simp [isWs] at this; omega
    simp only [List.cons_append, Scpi.queryMark, tag_cons_ne _ this]

/-- The body of a rendered unit. -/
def renderBody (lits : List Lit) (ℓ : Lex) (t : Term) (rest : Bytes) : Bytes :=
  ℓ.sep ++ (renderArgs lits ℓ.commas ++ (ℓ.trail ++ t.byte :: rest))

theorem allWs_append {a b : Bytes} (ha : allWs a = true) (hb : allWs b = true) :
    allWs (a ++ b) = true := all_append ha hb

theorem renderBody_form {lits : List Lit} {ℓ : Lex} (t : Term) (rest : Bytes)
    (hl : lits.all Lit.wf = true) (hℓ : ℓ.wf = true)
    (hfit : (lits.isEmpty || !ℓ.sep.isEmpty) = true) : BodyForm (renderBody lits ℓ t rest) := by
  simp only [Lex.wf, Bool.and_eq_true] at hℓ
  obtain ⟨⟨⟨_, hsep⟩, _⟩, htrail⟩ := hℓ
  cases lits with
  | nil =>
    refine ⟨ℓ.sep ++ ℓ.trail, t.byte, rest, ?_, allWs_append hsep htrail, t.byte_not_ws, ?_, ?_, ?_⟩
    · simp only [renderBody, renderArgs, List.nil_append, List.append_assoc]
    · rcases t.byte_cases with e | e <;> omega
    · rcases t.byte_cases with e | e <;> omega
    · intro _; exact t.byte_cases
  | cons l ls =>
    simp only [List.all_cons, Bool.and_eq_true] at hl
    obtain ⟨b0, r0, e0, hws, _, h58, h63, _, _⟩ := Lit.render_head hl.1
    refine ⟨ℓ.sep, b0, r0 ++ (renderMore ls ℓ.commas ++ (ℓ.trail ++ t.byte :: rest)), ?_, hsep, hws,
      h58, h63, ?_⟩
    · simp only [renderBody, renderArgs, e0, List.append_assoc, List.cons_append]
    · intro e
      simp only [List.isEmpty_cons, Bool.false_or, Bool.not_eq_true', List.isEmpty_eq_false_iff] at hfit
      exact absurd e hfit

/-- `parse` after the header: the parameters and the terminator. -/
theorem parseAfterHeader_body (nh : Node × Option Node) (q : Bool) {lits : List Lit} {ℓ : Lex}
    (t : Term) (rest : Bytes) (hl : lits.all Lit.wf = true) (hlen : lits.length ≤ maxArgs)
    (hℓ : ℓ.wf = true) (hfit : (lits.isEmpty || !ℓ.sep.isEmpty) = true)
    (hq : queryMark ((if q then [63] else []) ++ renderBody lits ℓ t rest)
      = (renderBody lits ℓ t rest, q)) :
    parseAfterHeader nh ((if q then [63] else []) ++ renderBody lits ℓ t rest) =
      .ok rest (some { node := nh.1, header := nh.2, query := q, args := lits.map Lit.value,
                       terminated := decide (t = .nl) }) := by
  have hℓ' := hℓ
  simp only [Lex.wf, Bool.and_eq_true] at hℓ'
  obtain ⟨⟨⟨_, hsep⟩, hcs⟩, htrail⟩ := hℓ'
  unfold parseAfterHeader
  rw [hq]
  simp only []
  cases lits with
  | nil =>
    have hb : renderBody [] ℓ t rest = (ℓ.sep ++ ℓ.trail) ++ t.byte :: rest := by
      simp only [renderBody, renderArgs, List.nil_append, List.append_assoc]
    rw [hb]
    have hw := allWs_append hsep htrail
    by_cases hne : ℓ.sep ++ ℓ.trail = []
    · rw [hne]
      simp only [List.nil_append, whitespace_soft rest t.byte_not_ws, parseArgs, Bool.false_eq_true,
        if_false, List.map_nil]
      exact parseTail_render nh q [] (w := []) t rest rfl
    · rw [whitespace_append hw hne (ends_cons t.byte_not_ws)]
      obtain ⟨e, he⟩ := arguments_head_soft (b := t.byte) rest
        (by rcases t.byte_cases with e | e <;> omega)
      simp only [parseArgs, if_true, he, List.map_nil]
      exact parseTail_render nh q [] (w := []) t rest rfl
  | cons l ls =>
    simp only [List.isEmpty_cons, Bool.false_or, Bool.not_eq_true', List.isEmpty_eq_false_iff] at hfit
    have hl' := hl
    simp only [List.all_cons, Bool.and_eq_true] at hl'
    obtain ⟨b0, r0, e0, hws, _⟩ := Lit.render_head hl'.1
    have hX : Ends isWs (renderArgs (l :: ls) ℓ.commas ++ (ℓ.trail ++ t.byte :: rest)) := by
      simp only [renderArgs, e0, List.cons_append]; exact ends_cons hws
    unfold renderBody
    rw [whitespace_append hsep hfit hX]
    simp only [parseArgs, if_true,
      arguments_render rest hl hcs hlen htrail t.byte_cases]
    exact parseTail_render nh q _ t rest htrail

theorem queryMark_question (r : Bytes) : queryMark (63 :: r) = (r, true) := by
  simp only [queryMark, tag_cons_self]

/-! ### The path -/

theorem HdrPath.render_head {p : HdrPath} (hw : p.wf = true) :
    ∃ b r, p.render = b :: r ∧ isWs b = false ∧ b ≠ 10 := by
  cases p with
  | compound a ms =>
    cases a with
    | true => exact ⟨58, _, rfl, by decide, by decide⟩
    | false =>
      simp only [HdrPath.wf, Bool.and_eq_true, Bool.not_eq_true', List.isEmpty_eq_false_iff] at hw
      cases ms with
      | nil => exact absurd rfl hw.1
      | cons m ms =>
        have h2 := hw.2
        simp only [List.all_cons, Bool.and_eq_true] at h2
        obtain ⟨b0, t0, e0, hb0⟩ := mnemonicText_head h2.1
        refine ⟨b0, t0 ++ renderColons ms, ?_, alpha_not_ws hb0, (alpha_ne hb0).2.2⟩
        simp only [HdrPath.render, Bool.false_eq_true, if_false, List.nil_append, renderPath_cons, e0,
          List.cons_append]
  | common n => exact ⟨42, _, rfl, by decide, by decide⟩

/-! ### The rendering theorem -/

theorem render_append (u : MsgUnit) (ℓ : Lex) (t : Term) (rest : Bytes) :
    render u ℓ t ++ rest = ℓ.lead ++ (u.hdr.path.render ++
      ((if u.hdr.query then [63] else []) ++ renderBody u.lits ℓ t rest)) := by
  simp only [render, Hdr.render, renderBody, List.append_assoc, List.cons_append, List.nil_append]

/-- **`parse` on a rendering of a well-formed unit.** -/
theorem parse_render' (root cur : Node) {u : MsgUnit} {ℓ : Lex} (t : Term) (rest : Bytes)
    (hu : u.wf = true) (hℓ : ℓ.wf = true) (hfit : ℓ.fits u = true) :
    parse root cur (render u ℓ t ++ rest) =
      match resolve root cur u.hdr.path with
      | some nh => .ok rest (some { node := nh.1, header := nh.2, query := u.hdr.query,
                                     args := u.lits.map Lit.value, terminated := decide (t = .nl) })
      | none => .fatal (.std .UndefinedHeader) := by
  simp only [MsgUnit.wf, Bool.and_eq_true, decide_eq_true_eq] at hu
  obtain ⟨⟨hp, hl⟩, hlen⟩ := hu
  have hlead : allWs ℓ.lead = true := by
    simp only [Lex.wf, Bool.and_eq_true] at hℓ; exact hℓ.1.1.1
  have hbody := renderBody_form t rest hl hℓ hfit
  -- what follows the path
  have hq : queryMark ((if u.hdr.query then [63] else []) ++ renderBody u.lits ℓ t rest)
      = (renderBody u.lits ℓ t rest, u.hdr.query) := by
    cases u.hdr.query with
    | true => exact queryMark_question _
    | false => exact hbody.queryMark
  have htail : Ends isMnemonicTail ((if u.hdr.query then [63] else []) ++ renderBody u.lits ℓ t rest) := by
    cases u.hdr.query with
    | true => exact ends_cons (by decide)
    | false => exact hbody.ends_mnemonicTail
  have hsep : headerSeparator ((if u.hdr.query then [63] else []) ++ renderBody u.lits ℓ t rest)
      = .soft (some (.std .HeaderSeparatorError)) := by
    cases u.hdr.query with
    | true => exact headerSeparator_soft_cons _ (by decide) (by decide)
    | false => exact hbody.headerSeparator
  obtain ⟨b0, r0, e0, hb0, h10⟩ := HdrPath.render_head hp
  have hX : Ends isWs (u.hdr.path.render ++
      ((if u.hdr.query then [63] else []) ++ renderBody u.lits ℓ t rest)) := by
    rw [e0]; exact ends_cons hb0
  have hnl : Ends (fun b => b == 10) (u.hdr.path.render ++
      ((if u.hdr.query then [63] else []) ++ renderBody u.lits ℓ t rest)) := by
    rw [e0]; exact ends_cons (by simpa using h10)
  obtain ⟨v1, e1⟩ := optP_whitespace_append hlead hX
  have e2 : optP (tag 10) (u.hdr.path.render ++
      ((if u.hdr.query then [63] else []) ++ renderBody u.lits ℓ t rest)) = .ok _ none :=
    optP_satisfy_ends hnl
  rw [render_append]
  unfold parse
  rw [e1]
  simp only [PResult.bind]
  rw [e2]
  simp only [Option.isSome_none, Bool.false_eq_true, if_false,
    commandHeader_render root cur hp htail hsep]
  cases resolve root cur u.hdr.path with
  | none => rfl
  | some nh => exact parseAfterHeader_body nh u.hdr.query t rest hl hlen hℓ hfit hq

/-- The empty message: optional white space and a newline. -/
theorem parse_empty (root cur : Node) {w : Bytes} (rest : Bytes) (hw : allWs w = true) :
    parse root cur (w ++ 10 :: rest) = .ok rest none := by
  obtain ⟨v1, e1⟩ := optP_whitespace_append hw (ends_cons (r := rest) (show isWs 10 = false by decide))
  have e2 : optP (tag 10) (10 :: rest) = .ok rest (some 10) := optP_satisfy_cons _ (by decide)
  simp only [parse, e1, PResult.bind, e2, Option.isSome_some, if_true]

end Scpi
