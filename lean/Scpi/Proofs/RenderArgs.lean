/-
The parameter list: `arguments` on the rendering of a list of literals, with any
white space around the commas, delivers the values of the literals in order.
-/
import Scpi.Proofs.RenderArg

namespace Scpi

/-- A byte that may follow program data cannot extend any literal. -/
theorem ends_ext_of_delim (l : Lit) {d : Nat} (r : Bytes) (h : isDelim d = true) :
    Ends l.ext (d :: r) := by
  refine ends_cons ?_
  cases l with
  | chars s => exact isDelim_not_mnemonicTail h
  | dec x => exact isDelim_not_dec h
  | hex u ds => exact isDelim_not_hex h
  | bin u ds => exact isDelim_not_bin h
  | oct u ds => exact isDelim_not_oct h
  | str q p => rfl
  | block nd p => rfl

/-- What follows a parameter: nothing, or a delimiter. -/
def DelimHead (rest : Bytes) : Prop := ∀ d r, rest = d :: r → isDelim d = true

theorem DelimHead.ends (l : Lit) {rest : Bytes} (h : DelimHead rest) : Ends l.ext rest := by
  cases rest with
  | nil => exact ends_nil _
  | cons d r => exact ends_ext_of_delim l r (h d r rfl)

theorem delimHead_cons {d : Nat} {r : Bytes} (h : isDelim d = true) : DelimHead (d :: r) :=
  fun _ _ e => by cases e; exact h

theorem isDelim_of_isWs {b : Nat} (h : isWs b = true) : isDelim b = true := by
  simp only [isDelim, h, Bool.true_or]

/-- White space followed by a delimiter starts with a delimiter. -/
theorem delimHead_ws_append {w : Bytes} {d : Nat} {r : Bytes} (hw : allWs w = true)
    (hd : isDelim d = true) : DelimHead (w ++ d :: r) := by
  cases w with
  | nil => exact delimHead_cons hd
  | cons b t =>
    simp only [allWs, List.all_cons, Bool.and_eq_true] at hw
    exact delimHead_cons (isDelim_of_isWs hw.1)

/-! ### `argument_separator` -/

theorem argumentSeparator_render {a b X : Bytes} (ha : allWs a = true) (hb : allWs b = true)
    (hX : Ends isWs X) : argumentSeparator (a ++ 44 :: (b ++ X)) = .ok X () := by
  have h44 : Ends isWs (44 :: (b ++ X)) := ends_cons (by decide)
  obtain ⟨v1, e1⟩ := optP_whitespace_append ha h44
  obtain ⟨v2, e2⟩ := optP_whitespace_append hb hX
  simp only [argumentSeparator, e1, PResult.bind, tag_cons_self, PResult.mapErr, e2]

/-- No comma after optional white space: the separator fails softly. -/
theorem argumentSeparator_soft {w : Bytes} {d : Nat} (r : Bytes) (hw : allWs w = true)
    (hd : isWs d = false) (h44 : d ≠ 44) :
    argumentSeparator (w ++ d :: r) = .soft (some (.std .InvalidSeparator)) := by
  obtain ⟨v1, e1⟩ := optP_whitespace_append hw (ends_cons (r := r) hd)
  simp only [argumentSeparator, e1, PResult.bind, tag_cons_ne r h44, PResult.mapErr,
    ofErr_invalidSeparator]

/-! ### The loop -/

theorem renderMore_cons (l : Lit) (ls : List Lit) (cs : List (Bytes × Bytes)) :
    renderMore (l :: ls) cs =
      (cs.head?.getD ([], [])).1 ++ 44 :: ((cs.head?.getD ([], [])).2 ++
        (l.render ++ renderMore ls cs.tail)) := rfl

theorem commas_head_wf {cs : List (Bytes × Bytes)}
    (h : cs.all (fun p => allWs p.1 && allWs p.2) = true) :
    allWs (cs.head?.getD ([], [])).1 = true ∧ allWs (cs.head?.getD ([], [])).2 = true ∧
      cs.tail.all (fun p => allWs p.1 && allWs p.2) = true := by
  cases cs with
  | nil => exact ⟨rfl, rfl, rfl⟩
  | cons p t =>
    simp only [List.all_cons, Bool.and_eq_true] at h
    exact ⟨h.1.1, h.1.2, h.2⟩

/-- What follows a literal inside a rendered parameter list starts with a delimiter. -/
theorem delimHead_renderMore {ls : List Lit} {cs : List (Bytes × Bytes)} {tl : Bytes}
    (hcs : cs.all (fun p => allWs p.1 && allWs p.2) = true) (htl : DelimHead tl) :
    DelimHead (renderMore ls cs ++ tl) := by
  cases ls with
  | nil => exact htl
  | cons l ls =>
    obtain ⟨h1, _, _⟩ := commas_head_wf hcs
    rw [renderMore_cons, List.append_assoc, List.cons_append]
    exact delimHead_ws_append h1 (by decide)

theorem argsLoop_render : ∀ (ls : List Lit) (cs : List (Bytes × Bytes)) (fuel : Nat)
    (acc : List Value) (tl : Bytes) (e : Option Err),
    ls.all Lit.wf = true → cs.all (fun p => allWs p.1 && allWs p.2) = true →
    acc.length + ls.length ≤ maxArgs → DelimHead tl → argumentSeparator tl = .soft e →
    (renderMore ls cs ++ tl).length < fuel →
    argsLoop fuel acc (renderMore ls cs ++ tl) = (.ok tl (), acc ++ ls.map Lit.value) := by
  intro ls
  induction ls with
  | nil =>
    intro cs fuel acc tl e _ _ _ _ hsep hf
    cases fuel with
    | zero => exact absurd hf (Nat.not_lt_zero _)
    | succ fuel =>
      simp only [renderMore, List.nil_append, argsLoop, hsep, List.map_nil, List.append_nil]
  | cons l ls ih =>
    intro cs fuel acc tl e hwf hcs hlen htl hsep hf
    simp only [List.all_cons, Bool.and_eq_true] at hwf
    obtain ⟨h1, h2, h3⟩ := commas_head_wf hcs
    cases fuel with
    | zero => exact absurd hf (Nat.not_lt_zero _)
    | succ fuel =>
      obtain ⟨b0, r0, e0, hb0, _⟩ := Lit.render_head hwf.1
      have hX : Ends isWs (l.render ++ (renderMore ls cs.tail ++ tl)) := by
        rw [e0]; exact ends_cons hb0
      have hnext : DelimHead (renderMore ls cs.tail ++ tl) := delimHead_renderMore h3 htl
      have hlen' : acc.length < maxArgs := by simp only [List.length_cons] at hlen; omega
      have hf' : (renderMore ls cs.tail ++ tl).length < fuel := by
        rw [renderMore_cons] at hf
        simp only [List.length_append, List.length_cons] at hf ⊢
        omega
      rw [renderMore_cons]
      simp only [List.append_assoc, List.cons_append]
      rw [argsLoop]
      simp only [argumentSeparator_render h1 h2 hX, argument_render hwf.1 (hnext.ends l), hlen',
        if_true]
      rw [ih cs.tail fuel (acc ++ [l.value]) tl e hwf.2 h3
        (by simp only [List.length_append, List.length_cons, List.length_nil] at hlen ⊢; omega)
        htl hsep hf']
      simp only [List.map_cons, List.append_assoc, List.cons_append, List.nil_append]

/-- **The parameter list**: the values of the literals, in order, whatever white space
surrounds the commas; the input is consumed up to `tl` (what follows the last
literal: optional white space and something that is not a comma). -/
theorem arguments_render_gen {l : Lit} {ls : List Lit} {cs : List (Bytes × Bytes)} {tl : Bytes}
    {e : Option Err} (hwf : (l :: ls).all Lit.wf = true)
    (hcs : cs.all (fun p => allWs p.1 && allWs p.2) = true) (hlen : (l :: ls).length ≤ maxArgs)
    (htl : DelimHead tl) (hsep : argumentSeparator tl = .soft e) :
    arguments (renderArgs (l :: ls) cs ++ tl) = (.ok tl (), (l :: ls).map Lit.value) := by
  have hwf' := hwf
  simp only [List.all_cons, Bool.and_eq_true] at hwf'
  have hnext : DelimHead (renderMore ls cs ++ tl) := delimHead_renderMore hcs htl
  simp only [renderArgs, List.append_assoc, arguments, argument_render hwf'.1 (hnext.ends l)]
  have h0 : 0 < maxArgs := by decide
  simp only [h0, if_true]
  rw [argsLoop_render ls cs _ [l.value] tl e hwf'.2 hcs
    (by simp only [List.length_cons, List.length_nil] at hlen ⊢; omega) htl hsep (Nat.lt_succ_self _)]
  simp only [List.map_cons, List.cons_append, List.nil_append]

/-- The tail of a unit: white space and a terminator (or anything that is neither
white space nor a comma). -/
theorem arguments_render {l : Lit} {ls : List Lit} {cs : List (Bytes × Bytes)} {w : Bytes}
    {d : Nat} (r : Bytes) (hwf : (l :: ls).all Lit.wf = true)
    (hcs : cs.all (fun p => allWs p.1 && allWs p.2) = true) (hlen : (l :: ls).length ≤ maxArgs)
    (hw : allWs w = true) (hd : d = 59 ∨ d = 10) :
    arguments (renderArgs (l :: ls) cs ++ (w ++ d :: r)) = (.ok (w ++ d :: r) (), (l :: ls).map Lit.value) := by
  have hdw : isWs d = false := by rcases hd with e | e <;> subst e <;> decide
  have hdd : isDelim d = true := by rcases hd with e | e <;> subst e <;> decide
  have h44 : d ≠ 44 := by omega
  exact arguments_render_gen hwf hcs hlen (delimHead_ws_append hw hdd)
    (argumentSeparator_soft r hw hdw h44)

end Scpi
