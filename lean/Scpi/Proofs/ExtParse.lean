/-
Extension stability of the header recognisers (all class-bounded) and of `parse`
(for C12): when `parse` accepts, or when the input ends with a newline and the
verdict is not `incomplete`, the verdict is unchanged by appending bytes.
-/
import Scpi.Proofs.ExtLex

namespace Scpi

/-! ### Header recognisers -/

theorem cb_headerSeparator : CB headerSeparator := by
  intro x y hT
  unfold headerSeparator
  refine rel_bind (cb_optP cb_whitespace x y hT) fun i1 _ _ h1 => ?_
  refine rel_bind (rel_mapErr (cb_tag (by decide) (by decide) i1 y h1)) fun i2 _ _ h2 => ?_
  refine rel_bind (cb_optP cb_whitespace i2 y h2) fun i3 _ _ h3 => ?_
  exact rel_ok h3

theorem rel_lookup {α : Type} {y : Bytes} {node : Node} {name : Bytes} {k k' : Node → PResult α}
    (hk : ∀ n, Rel y (k n) (k' n)) : Rel y (lookup node name k) (lookup node name k') := by
  unfold lookup
  refine rel_fromUtf8 fun s => ?_
  split
  · exact hk _
  · exact rel_ofErr

theorem cb_commonHeader (root : Node) : CB (commonHeader root) := by
  intro x y hT
  unfold commonHeader
  refine rel_bind (rel_mapErr (cb_tag (by decide) (by decide) x y hT)) fun i1 star _ h1 => ?_
  refine rel_bind (cb_mnemonic i1 y h1) fun i2 res _ h2 => ?_
  exact rel_lookup fun n => rel_ok h2

theorem headerLoop_rel : ∀ (fuel : Nat) (node header : Node) (x : Bytes), x.length < fuel →
    HasTerm x → ∀ (y : Bytes) (fuel' : Nat), (x ++ y).length < fuel' →
    Rel y (headerLoop fuel node header x) (headerLoop fuel' node header (x ++ y)) := by
  intro fuel
  induction fuel with
  | zero => intro _ _ x h; omega
  | succ n ih =>
    intro node header x hlt hT y fuel' hlt'
    cases fuel' with
    | zero => omega
    | succ m =>
      have hs := cb_headerSeparator x y hT
      unfold headerLoop
      rw [hs.ext]
      cases hsep : headerSeparator x with
      | ok i u =>
        have hTi := hs.keep _ _ hsep
        have hil := headerSeparator_lt hsep
        simp only [extend_ok]
        refine rel_bind (cb_mnemonic i y hTi) fun i2 res e2 h2 => ?_
        have h2i := ((good_mnemonic i).suffix _ _ e2).length_le
        simp only [List.length_append] at hlt'
        exact rel_lookup fun child =>
          ih child node i2 (by omega) h2 y m (by simp only [List.length_append]; omega)
      | soft e => exact rel_ok hT
      | fatal e => exact rel_fatal
      | incomplete => exact rel_incomplete
      | crash c => exact rel_crash

theorem cb_compoundHeader (root header : Node) : CB (compoundHeader root header) := by
  intro x y hT
  unfold compoundHeader
  refine rel_bind (cb_optP cb_headerSeparator x y hT) fun i1 rc _ h1 => ?_
  simp only []
  refine rel_bind (cb_mnemonic i1 y h1) fun i2 res _ h2 => ?_
  exact rel_lookup fun n =>
    headerLoop_rel _ _ _ i2 (Nat.lt_succ_self _) h2 y _ (Nat.lt_succ_self _)

theorem cb_commandHeader (root header : Node) : CB (commandHeader root header) := by
  intro x y hT
  unfold commandHeader
  exact rel_orElse (cb_compoundHeader root header x y hT) (cb_commonHeader root x y hT)

/-! ### Small facts -/

theorem isOk_eq_true {α : Type} {r : PResult α} (h : r.isOk = true) : ∃ rest v, r = .ok rest v := by
  cases r with
  | ok rest v => exact ⟨rest, v, rfl⟩
  | soft e => cases h
  | fatal e => cases h
  | incomplete => cases h
  | crash c => cases h

theorem satisfy_ok_cons {cls : Nat → Bool} {i r : Bytes} {v : Nat} (h : satisfy cls i = .ok r v) :
    i = v :: r ∧ cls v = true := by
  unfold satisfy at h
  cases i with
  | nil => cases h
  | cons b i' =>
    cases hb : cls b with
    | true => simp only [hb, if_true] at h; cases h; exact ⟨rfl, hb⟩
    | false =>
      simp only [hb, Bool.false_eq_true, if_false] at h
      exact absurd h ofErr_ne_ok

theorem optP_ext {α : Type} {p : Parser α} {x y : Bytes} (h : p (x ++ y) = (p x).extend y) :
    optP p (x ++ y) = (optP p x).extend y := by
  unfold optP
  rw [h]
  cases p x <;> rfl

theorem optP_none {α : Type} {p : Parser α} {x r : Bytes} (h : optP p x = .ok r none) : r = x := by
  unfold optP at h
  cases hp : p x <;> rw [hp] at h <;> cases h <;> rfl

/-! ### The end of a unit -/

theorem parseTail_nil (nh : Node × Option Node) (q : Bool) (args : List Value) :
    parseTail nh q [] args = .incomplete := rfl

theorem parseTail_ext (nh : Node × Option Node) (q : Bool) (args : List Value) {i6 : Bytes}
    (hT : HasTerm i6) (y : Bytes) :
    parseTail nh q (i6 ++ y) args = (parseTail nh q i6 args).extend y := by
  have hw := cb_optP cb_whitespace i6 y hT
  unfold parseTail
  refine ext_bind hw.ext fun i7 _ h7 => ?_
  have hne := (hw.keep _ _ h7).ne_nil
  have e10 : tag 10 (i7 ++ y) = (tag 10 i7).extend y := satisfy_ext y hne
  have e59 : tag 59 (i7 ++ y) = (tag 59 i7).extend y := satisfy_ext y hne
  refine ext_bind ?_ fun i8 t h8 => rfl
  rw [e10, e59]
  cases tag 10 i7 <;> cases tag 59 i7 <;> rfl

/-- A unit can only end at a terminator. -/
theorem parseTail_ok_hasTerm {nh : Node × Option Node} {q : Bool} {args : List Value}
    {i6 r : Bytes} {c : Option CommandCall} (h : parseTail nh q i6 args = .ok r c) : HasTerm i6 := by
  unfold parseTail at h
  obtain ⟨i7, _, e7, h⟩ := bind_eq_ok h
  obtain ⟨i8, t, e8, h⟩ := bind_eq_ok h
  have h7 : HasTerm i7 := by
    rcases orElse_eq_ok e8 with e | e
    · obtain ⟨_, e, _⟩ := map_eq_ok e
      obtain ⟨rfl, hv⟩ := satisfy_ok_cons e
      simp only [beq_iff_eq] at hv; subst hv
      exact Or.inl (List.mem_cons_self)
    · obtain ⟨_, e, _⟩ := map_eq_ok e
      obtain ⟨rfl, hv⟩ := satisfy_ok_cons e
      simp only [beq_iff_eq] at hv; subst hv
      exact Or.inr (List.mem_cons_self)
  exact h7.of_suffix ((good_optP good_whitespace i6).suffix _ _ e7)

/-- A unit that ends here starts with white space or the terminator. -/
theorem parseTail_ok_head {nh : Node × Option Node} {q : Bool} {args : List Value}
    {b : Nat} {i r : Bytes} {c : Option CommandCall} (h : parseTail nh q (b :: i) args = .ok r c) :
    b ≤ 32 ∨ b = 59 := by
  by_cases hb : b ≤ 32 ∨ b = 59
  · exact hb
  · exfalso
    have hws : isWs b = false := by simp [isWs]; omega
    have h10 : (b == 10) = false := by simp; omega
    have h59 : (b == 59) = false := by simp; omega
    simp [parseTail, optP, whitespace, hws, ofErr, tag,
      satisfy, h10, h59, PResult.bind, PResult.map, PResult.orElse] at h

/-! ### The parameter part -/

theorem arguments_head_soft {b : Nat} (r : Bytes) (hb : b ≤ 32 ∨ b = 59) :
    ∃ e, arguments (b :: r) = (.soft e, []) := by
  obtain ⟨e, he⟩ := argument_head_soft b r hb
  exact ⟨e, by unfold arguments; rw [he]⟩

theorem parseArgs_ok_hasTerm {nh : Node × Option Node} {q : Bool} {i5 r : Bytes} {b : Bool}
    {c : Option CommandCall} (h : parseArgs nh q i5 b = .ok r c) : HasTerm i5 := by
  cases b with
  | false =>
    simp only [parseArgs, Bool.false_eq_true, if_false] at h
    exact parseTail_ok_hasTerm h
  | true =>
    simp only [parseArgs, if_true] at h
    cases ha : arguments i5 with
    | mk res args =>
      rw [ha] at h
      cases res with
      | ok i6 u =>
        simp only [] at h
        exact (parseTail_ok_hasTerm h).of_suffix ((arguments_good i5).suffix i6 u (by rw [ha]))
      | soft e => simp only [] at h; exact parseTail_ok_hasTerm h
      | fatal e => cases h
      | incomplete => cases h
      | crash c => cases h

/-- The verdict of the parameter part and the end of the unit is unchanged by
appending bytes when it is a success, or when the input ends with a newline and
the verdict is not `incomplete`. -/
theorem parseArgs_ext (nh : Node × Option Node) (q : Bool) (i5 : Bytes) (b : Bool) (y : Bytes)
    (hS : (parseArgs nh q i5 b).isOk = true ∨ EndsNL i5)
    (hI : parseArgs nh q i5 b ≠ .incomplete) :
    parseArgs nh q (i5 ++ y) b = (parseArgs nh q i5 b).extend y := by
  have hT : HasTerm i5 := by
    rcases hS with h | h
    · obtain ⟨r, c, h⟩ := isOk_eq_true h
      exact parseArgs_ok_hasTerm h
    · exact h.hasTerm
  cases b with
  | false =>
    simp only [parseArgs, Bool.false_eq_true, if_false]
    exact parseTail_ext nh q [] hT y
  | true =>
    simp only [parseArgs, if_true] at hS hI ⊢
    cases ha : arguments i5 with
    | mk res args =>
      rw [ha] at hS hI
      cases res with
      | ok i6 u =>
        simp only [] at hS hI ⊢
        have hT6 : HasTerm i6 := by
          rcases hS with h | h
          · obtain ⟨r, c, h⟩ := isOk_eq_true h
            exact parseTail_ok_hasTerm h
          · cases i6 with
            | nil => exact absurd (parseTail_nil nh q args) hI
            | cons c d =>
              exact (h.of_suffix ((arguments_good i5).suffix _ u (by rw [ha])) (by simp)).hasTerm
        rw [arguments_ok_ext ha hT6 y]
        exact parseTail_ext nh q args hT6 y
      | soft e =>
        simp only [] at hS hI ⊢
        rcases hS with h | h
        · obtain ⟨r, c, h⟩ := isOk_eq_true h
          cases i5 with
          | nil => exact absurd rfl hT.ne_nil
          | cons b0 r0 =>
            have hb := parseTail_ok_head h
            obtain ⟨e1, h1⟩ := arguments_head_soft r0 hb
            obtain ⟨e2, h2⟩ := arguments_head_soft (r0 ++ y) hb
            rw [h1] at ha
            cases ha
            rw [List.cons_append, h2]
            exact parseTail_ext nh q [] hT y
        · rw [arguments_nl_ext h ha (fun _ _ e => by cases e) (fun e => by cases e) y]
          exact parseTail_ext nh q args hT y
      | fatal e =>
        simp only [] at hS hI ⊢
        rcases hS with h | h
        · cases h
        · rw [arguments_nl_ext h ha (fun _ _ e => by cases e) (fun e => by cases e) y]
          rfl
      | incomplete => exact absurd rfl hI
      | crash c => exact absurd (by rw [ha]) ((arguments_good i5).noCrash c)

/-! ### After the header -/

theorem queryMark_ext {i3 : Bytes} (hT : HasTerm i3) (y : Bytes) :
    queryMark (i3 ++ y) = ((queryMark i3).1 ++ y, (queryMark i3).2) ∧ HasTerm (queryMark i3).1 := by
  have hs := cb_tag (t := 63) (by decide) (by decide) i3 y hT
  unfold queryMark
  rw [hs.ext]
  cases ht : tag 63 i3 with
  | ok r v => exact ⟨rfl, hs.keep _ _ ht⟩
  | soft e => exact ⟨rfl, hT⟩
  | fatal e => exact ⟨rfl, hT⟩
  | incomplete => exact ⟨rfl, hT⟩
  | crash c => exact ⟨rfl, hT⟩

theorem parseAfterHeader_ok_hasTerm {nh : Node × Option Node} {i3 r : Bytes}
    {c : Option CommandCall} (h : parseAfterHeader nh i3 = .ok r c) : HasTerm i3 := by
  unfold parseAfterHeader at h
  have hq := queryMark_suffix i3
  cases hw : whitespace (queryMark i3).1 with
  | ok i5 _ =>
    rw [hw] at h
    exact (parseArgs_ok_hasTerm h).of_suffix (((good_whitespace _).suffix _ _ hw).trans hq)
  | soft e => rw [hw] at h; exact (parseArgs_ok_hasTerm h).of_suffix hq
  | fatal e => rw [hw] at h; cases h
  | incomplete => rw [hw] at h; cases h
  | crash c => rw [hw] at h; cases h

theorem parseAfterHeader_ext (nh : Node × Option Node) (i3 y : Bytes)
    (hS : (parseAfterHeader nh i3).isOk = true ∨ EndsNL i3)
    (hI : parseAfterHeader nh i3 ≠ .incomplete) :
    parseAfterHeader nh (i3 ++ y) = (parseAfterHeader nh i3).extend y := by
  have hT : HasTerm i3 := by
    rcases hS with h | h
    · obtain ⟨r, c, h⟩ := isOk_eq_true h
      exact parseAfterHeader_ok_hasTerm h
    · exact h.hasTerm
  obtain ⟨eq, hTq⟩ := queryMark_ext hT y
  have hqs := queryMark_suffix i3
  have hw := cb_whitespace (queryMark i3).1 y hTq
  unfold parseAfterHeader at hS hI ⊢
  rw [eq]
  simp only []
  rw [hw.ext]
  cases hws : whitespace (queryMark i3).1 with
  | ok i5 _ =>
    rw [hws] at hS hI
    simp only [extend_ok] at hS hI ⊢
    refine parseArgs_ext nh _ i5 true y (hS.imp id fun h => ?_) hI
    exact h.of_suffix (((good_whitespace _).suffix _ _ hws).trans hqs) (hw.keep _ _ hws).ne_nil
  | soft e =>
    rw [hws] at hS hI
    simp only [extend_soft] at hS hI ⊢
    exact parseArgs_ext nh _ _ false y (hS.imp id fun h => h.of_suffix hqs hTq.ne_nil) hI
  | fatal e => rfl
  | incomplete => rfl
  | crash c => rfl

/-! ### `parse` -/

theorem parse_ok_hasTerm {root header : Node} {x r : Bytes} {c : Option CommandCall}
    (h : parse root header x = .ok r c) : HasTerm x := by
  unfold parse at h
  obtain ⟨i1, _, e1, h⟩ := bind_eq_ok h
  obtain ⟨i2, t, e2, h⟩ := bind_eq_ok h
  have s1 := (good_optP good_whitespace x).suffix _ _ e1
  cases t with
  | some v =>
    unfold optP at e2
    cases ht : tag 10 i1 with
    | ok r1 v1 =>
      obtain ⟨rfl, hv⟩ := satisfy_ok_cons ht
      simp only [beq_iff_eq] at hv; subst hv
      exact HasTerm.of_suffix (Or.inl List.mem_cons_self) s1
    | soft e => rw [ht] at e2; cases e2
    | fatal e => rw [ht] at e2; cases e2
    | incomplete => rw [ht] at e2; cases e2
    | crash c => rw [ht] at e2; cases e2
  | none =>
    simp only [Option.isSome_none, Bool.false_eq_true, if_false] at h
    obtain ⟨i3, nh, e3, h⟩ := bind_eq_ok h
    have s2 := (good_optP (good_tag 10) i1).suffix _ _ e2
    have s3 := (good_commandHeader root header i2).suffix _ _ e3
    exact (parseAfterHeader_ok_hasTerm h).of_suffix (s3.trans (s2.trans s1))

/-- **Main lemma for C12.**  The verdict of `parse` is unchanged by appending bytes
when it is a success, or when the input ends with a newline and the verdict is
not `incomplete`. -/
theorem parse_ext (root header : Node) (x y : Bytes)
    (hS : (parse root header x).isOk = true ∨ EndsNL x)
    (hI : parse root header x ≠ .incomplete) :
    parse root header (x ++ y) = (parse root header x).extend y := by
  have hT : HasTerm x := by
    rcases hS with h | h
    · obtain ⟨r, c, h⟩ := isOk_eq_true h
      exact parse_ok_hasTerm h
    · exact h.hasTerm
  have hw := cb_optP cb_whitespace x y hT
  unfold parse
  refine ext_bind hw.ext fun i1 w1 h1 => ?_
  have hT1 := hw.keep _ _ h1
  have s1 := (good_optP good_whitespace x).suffix _ _ h1
  refine ext_bind (optP_ext (satisfy_ext y hT1.ne_nil)) fun i2 t h2 => ?_
  cases t with
  | some v => rfl
  | none =>
    have e2 := optP_none h2
    subst e2
    simp only [Option.isSome_none, Bool.false_eq_true, if_false]
    have hc := cb_commandHeader root header i2 y hT1
    refine ext_bind hc.ext fun i3 nh h3 => ?_
    have s3 := (good_commandHeader root header i2).suffix _ _ h3
    have hp' : parse root header x = parseAfterHeader nh i3 := by
      unfold parse
      rw [h1]
      simp only [PResult.bind]
      rw [h2]
      simp only [Option.isSome_none, Bool.false_eq_true, if_false]
      rw [h3]
    rw [hp'] at hS hI
    refine parseAfterHeader_ext nh i3 y (hS.imp id fun h => ?_) hI
    exact h.of_suffix (s3.trans s1) (hc.keep _ _ h3).ne_nil

end Scpi
