/-
Prefix determinacy (C12, the longer-to-shorter direction): the argument list.

On an input `u` that ends with a terminator, an argument list accepted on `u ++ z`
with rest `r6 ++ z` (`r6` a non-empty part of `u`) is accepted on `u` alone with rest
`r6` and the same values.
-/
import Scpi.Proofs.PDLex

namespace Scpi.PD

theorem argsLoop_back : ∀ (fuel : Nat) (args : List Value) (u z r6 : Bytes) (w : Unit)
    (args' : List Value), (u ++ z).length < fuel → EndsT u → r6 ≠ [] →
    argsLoop fuel args (u ++ z) = (.ok (r6 ++ z) w, args') →
    ∀ fuel', u.length < fuel' → argsLoop fuel' args u = (.ok r6 w, args') := by
  intro fuel
  induction fuel with
  | zero => intro args u z r6 w args' h; omega
  | succ n ih =>
    intro args u z r6 w args' hlt hE hr6 h fuel' hlt'
    have hT := hE.hasTerm
    cases fuel' with
    | zero => omega
    | succ m =>
      have hs := cb_argumentSeparator u z hT
      unfold argsLoop at h ⊢
      rw [hs.ext] at h
      cases hsep : argumentSeparator u with
      | ok i _ =>
        rw [hsep] at h
        simp only [extend_ok] at h ⊢
        have hTi := hs.keep _ _ hsep
        have hisuf := (good_argumentSeparator u).suffix _ _ hsep
        have hEi : EndsT i := hE.of_suffix hisuf hTi.ne_nil
        have hil := argumentSeparator_lt hsep
        cases ha : argument (i ++ z) with
        | ok i2' arg =>
          rw [ha] at h
          simp only [] at h
          by_cases hlen : args.length < maxArgs
          · simp only [hlen, if_true] at h
            have hg := (good_argument (i ++ z)).suffix _ _ ha
            have hgl := hg.length_le
            simp only [List.length_append] at hlt hgl
            have hl2 : i2'.length < n := by omega
            have hs2 : r6 ++ z <:+ i2' :=
              (argsLoop_good n (args ++ [arg]) i2' hl2).suffix _ w (by rw [h])
            obtain ⟨i2, rfl, hi2⟩ := suffix_split ((List.suffix_append r6 z).trans hs2) hg
            have hr2 : r6 <:+ i2 := suffix_append_cancel hs2
            have hi2ne : i2 ≠ [] := by
              intro e; subst e
              exact hr6 (List.suffix_nil.mp hr2)
            have hEi2 := hEi.of_suffix hi2 hi2ne
            rw [argument_back i z i2 arg hTi ha]
            simp only [hlen, if_true]
            have hi2l := hi2.length_le
            exact ih _ _ _ _ _ _ (by simp only [List.length_append]; omega) hEi2 hr6 h m (by omega)
          · simp only [hlen, if_false] at h
            exact absurd (Prod.mk.inj h).1 ofErr_ne_ok
        | soft e => rw [ha] at h; cases h
        | fatal e => rw [ha] at h; cases h
        | incomplete => rw [ha] at h; cases h
        | crash c => rw [ha] at h; cases h
      | soft e =>
        rw [hsep] at h
        simp only [extend_soft] at h ⊢
        obtain ⟨h1, h2⟩ := Prod.mk.inj h
        injection h1 with h1 h3
        rw [List.append_cancel_right h1, h2]
      | fatal e => rw [hsep] at h; cases h
      | incomplete => rw [hsep] at h; cases h
      | crash c => rw [hsep] at h; cases h

theorem arguments_back {u z r6 : Bytes} {w : Unit} {args : List Value} (hE : EndsT u)
    (hr6 : r6 ≠ []) (h : arguments (u ++ z) = (.ok (r6 ++ z) w, args)) :
    arguments u = (.ok r6 w, args) := by
  have hT := hE.hasTerm
  unfold arguments at h ⊢
  cases ha : argument (u ++ z) with
  | ok i' arg =>
    rw [ha] at h
    simp only [maxArgs, Nat.zero_lt_succ, if_true] at h ⊢
    have hg := (good_argument (u ++ z)).suffix _ _ ha
    have hs2 : r6 ++ z <:+ i' :=
      (argsLoop_good _ [arg] i' (Nat.lt_succ_self _)).suffix _ w (by rw [h])
    obtain ⟨i, rfl, hi⟩ := suffix_split ((List.suffix_append r6 z).trans hs2) hg
    have hr2 : r6 <:+ i := suffix_append_cancel hs2
    have hine : i ≠ [] := by
      intro e; subst e
      exact hr6 (List.suffix_nil.mp hr2)
    rw [argument_back u z i arg hT ha]
    simp only []
    exact argsLoop_back _ _ _ _ _ _ _ (Nat.lt_succ_self _) (hE.of_suffix hi hine) hr6 h _
      (Nat.lt_succ_self _)
  | soft e => rw [ha] at h; cases h
  | fatal e => rw [ha] at h; cases h
  | incomplete => rw [ha] at h; cases h
  | crash c => rw [ha] at h; cases h

end Scpi.PD
