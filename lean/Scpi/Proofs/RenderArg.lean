/-
Definite-length blocks (C08) and the ordered choice of `argument`: the rendering of
every well-formed literal is recognised by the right alternative and delivered
verbatim (C03 lexer part).
-/
import Scpi.Proofs.RenderLit

namespace Scpi

/-! ### Zero-padded decimal lengths -/

theorem padDigits_length : ∀ (k n : Nat), (padDigits k n).length = k
  | 0, _ => rfl
  | k + 1, n => by simp only [padDigits, List.length_append, padDigits_length k, List.length_singleton]

theorem padDigits_all_digit : ∀ (k n : Nat), (padDigits k n).all isDigit = true
  | 0, _ => rfl
  | k + 1, n => by
    have h : isDigit (48 + n % 10) = true := by
      have := Nat.mod_lt n (show 10 > 0 by decide)
      simp [isDigit]; omega
    simp only [padDigits, List.all_append, padDigits_all_digit k, List.all_cons, h, List.all_nil,
      Bool.and_self]

theorem digitVal_digit {d : Nat} (h : d < 10) : digitVal 10 (48 + d) = some d := by
  have h1 : 48 ≤ 48 + d ∧ 48 + d ≤ 57 := by omega
  simp only [digitVal, h1, and_self, if_true, Nat.add_sub_cancel_left, h]

theorem digitsVal_append_digit {d : Nat} (h : d < 10) : ∀ (xs : Bytes) (acc : Nat),
    digitsVal 10 (xs ++ [48 + d]) acc = (digitsVal 10 xs acc).map fun m => m * 10 + d := by
  intro xs
  induction xs with
  | nil => intro acc; simp only [List.nil_append, digitsVal, digitVal_digit h, Option.map_some]
  | cons b xs ih =>
    intro acc
    simp only [List.cons_append, digitsVal]
    cases digitVal 10 b with
    | none => rfl
    | some v => exact ih _

/-- The value of `n` zero-padded to `k` digits is `n` (modulo `10^k`). -/
theorem digitsVal_padDigits : ∀ (k n : Nat), digitsVal 10 (padDigits k n) 0 = some (n % 10 ^ k)
  | 0, n => by simp only [padDigits, digitsVal, Nat.pow_zero, Nat.mod_one]
  | k + 1, n => by
    have hlt := Nat.mod_lt n (show 10 > 0 by decide)
    rw [padDigits, digitsVal_append_digit hlt, digitsVal_padDigits k (n / 10), Option.map_some]
    congr 1
    rw [Nat.pow_succ, Nat.mul_comm (10 ^ k) 10, Nat.mod_mul]
    omega

/-- `usize::from_str_radix(s, 10)` of a non-empty digit string on a 64-bit target. -/
theorem fromStrRadix_digits {s : Bytes} {m : Nat} (hne : s ≠ []) (hd : s.all isDigit = true)
    (hv : digitsVal 10 s 0 = some m) (hm : m < 2 ^ 64) :
    fromStrRadix false 64 10 s = some (m : Int) := by
  cases s with
  | nil => exact absurd rfl hne
  | cons b t =>
    simp only [List.all_cons, Bool.and_eq_true] at hd
    have hb := hd.1
    simp only [isDigit, Bool.and_eq_true, decide_eq_true_eq] at hb
    have h43 : (b == 43) = false := by simp; omega
    have h45 : (b == 45) = false := by simp; omega
    unfold fromStrRadix
    split
    · rename_i e; cases e
    · rename_i e; cases e; omega
    · rename_i e; cases e; omega
    · rename_i b' t' _ _ e
      cases e
      simp only [h43, h45, Bool.false_and, Bool.false_eq_true, if_false, hv, intMin, intMax]
      have : (0 : Int) ≤ (m : Int) ∧ (m : Int) ≤ ((2 ^ 64 : Nat) : Int) - 1 := by
        constructor
        · omega
        · have : (m : Int) < ((2 ^ 64 : Nat) : Int) := by exact_mod_cast hm
          omega
      simp only [this, and_self, if_true]

/-! ### Blocks (C08) -/

/-- **A definite-length block is delivered verbatim**: after `#`, the digit `nd` and
the length zero-padded to `nd` digits, exactly `payload.length` bytes of ANY value are
taken as the payload; whatever follows is left untouched. -/
theorem arbitrary_render {nd : Nat} (payload rest : Bytes) (h1 : 1 ≤ nd) (h9 : nd ≤ 9)
    (hl : payload.length < 10 ^ nd) :
    arbitrary (35 :: (48 + nd) :: (padDigits nd payload.length ++ (payload ++ rest)))
      = .ok rest (.arb payload) := by
  have hc : (fun c => decide (49 ≤ c) && decide (c ≤ 57)) (48 + nd) = true := by
    simp; omega
  have hlen := padDigits_length nd payload.length
  have hne : padDigits nd payload.length ≠ [] := by
    intro e; rw [e] at hlen; simp at hlen; omega
  have hdig := padDigits_all_digit nd payload.length
  have hval : digitsVal 10 (padDigits nd payload.length) 0 = some payload.length := by
    rw [digitsVal_padDigits, Nat.mod_eq_of_lt hl]
  have h64 : payload.length < 2 ^ 64 := by
    have : 10 ^ nd ≤ 10 ^ 9 := Nat.pow_le_pow_right (by decide) h9
    have : (10 : Nat) ^ 9 < 2 ^ 64 := by decide
    omega
  have hfs := fromStrRadix_digits hne hdig hval h64
  have hutf : validUtf8 (padDigits nd payload.length) = true :=
    validUtf8_of_all (fun b => isDigit_lt) hdig
  have hnl : ¬ (padDigits nd payload.length ++ (payload ++ rest)).length < nd := by
    simp only [List.length_append, hlen]; omega
  have hpl : ¬ (payload ++ rest).length < payload.length := by
    simp only [List.length_append]; omega
  unfold arbitrary
  simp only [tag_cons_self, PResult.bind,
    satisfy_cons_true (p := fun c => decide (49 ≤ c) && decide (c ≤ 57)) _ hc, PResult.map,
    Nat.add_sub_cancel_left, hnl, if_false, List.take_left' hlen, List.drop_left' hlen, hutf,
    Bool.not_true, Bool.false_eq_true, hfs, Int.toNat_natCast, hpl, List.take_left' rfl,
    List.drop_left' rfl]

theorem arbitrary_soft {b : Nat} (r : Bytes) (h : b ≠ 35) :
    arbitrary (b :: r) = .soft (some (.std .InvalidCharacter)) := by
  simp only [arbitrary, tag_cons_ne r h, PResult.bind]

/-! ### The ordered choice -/

theorem argument_chars {s rest : Bytes} (hs : isMnemonicText s = true)
    (he : Ends isMnemonicTail rest) : argument (s ++ rest) = .ok rest (.chars s) := by
  simp only [argument, characters_append hs he, PResult.orNext]

theorem argument_dec {d : DecText} {rest : Bytes} (hw : d.wf = true)
    (he : Ends (fun b => isDigit b || b == 46 || b == 69 || b == 101) rest) :
    argument (d.render ++ rest) = .ok rest (.dec d.render) := by
  obtain ⟨b, r, e, hb⟩ := DecText.render_head hw
  have ha : isAlpha b = false := by
    simp [isAlpha]
    rcases hb with h | h | h | h
    · omega
    · omega
    · simp [isDigit] at h; omega
    · omega
  have hc : characters (d.render ++ rest) = .soft (some (.std .InvalidCharacter)) := by
    rw [e]; exact characters_soft _ ha
  simp only [argument, hc, decimal_render hw he, PResult.orNext]

theorem hash_chars_soft (r : Bytes) :
    characters (35 :: r) = .soft (some (.std .InvalidCharacter)) := characters_soft _ (by decide)

theorem hash_decimal_soft (r : Bytes) :
    decimal (35 :: r) = .soft (some (.std .InvalidCharacter)) :=
  decimal_soft _ (by decide) (by decide) (by decide) (by decide)

theorem argument_hex (up : Bool) {ds rest : Bytes} (hne : ds ≠ []) (hd : ds.all isHexDigit = true)
    (he : Ends isHexDigit rest) :
    argument (35 :: (if up then 72 else 104) :: (ds ++ rest)) = .ok rest (.hex ds) := by
  have hc : (fun c => c == 72 || c == 104) (if up then 72 else 104) = true := by cases up <;> rfl
  have h := nondecimal_render (L := fun c => c == 72 || c == 104) .hex hc hne hd
    (fun b => isHexDigit_lt) he
  simp only [argument, hash_chars_soft, hash_decimal_soft, hexadecimal, h, PResult.orNext]

theorem argument_bin (up : Bool) {ds rest : Bytes} (hne : ds ≠ []) (hd : ds.all isBinDigit = true)
    (he : Ends isBinDigit rest) :
    argument (35 :: (if up then 66 else 98) :: (ds ++ rest)) = .ok rest (.bin ds) := by
  have hc : (fun c => c == 66 || c == 98) (if up then 66 else 98) = true := by cases up <;> rfl
  have hx : (fun c => c == 72 || c == 104) (if up then 66 else 98) = false := by cases up <;> rfl
  have h := nondecimal_render (L := fun c => c == 66 || c == 98) .bin hc hne hd
    (fun b => isBinDigit_lt) he
  have h1 := nondecimal_soft_letter (L := fun c => c == 72 || c == 104) (D := isHexDigit) .hex
    (ds ++ rest) hx
  simp only [argument, hash_chars_soft, hash_decimal_soft, hexadecimal, binary, h, h1,
    PResult.orNext]

theorem argument_oct (up : Bool) {ds rest : Bytes} (hne : ds ≠ []) (hd : ds.all isOctDigit = true)
    (he : Ends isOctDigit rest) :
    argument (35 :: (if up then 81 else 113) :: (ds ++ rest)) = .ok rest (.oct ds) := by
  have hc : (fun c => c == 81 || c == 113) (if up then 81 else 113) = true := by cases up <;> rfl
  have hx : (fun c => c == 72 || c == 104) (if up then 81 else 113) = false := by cases up <;> rfl
  have hb : (fun c => c == 66 || c == 98) (if up then 81 else 113) = false := by cases up <;> rfl
  have h := nondecimal_render (L := fun c => c == 81 || c == 113) .oct hc hne hd
    (fun b => isOctDigit_lt) he
  have h1 := nondecimal_soft_letter (L := fun c => c == 72 || c == 104) (D := isHexDigit) .hex
    (ds ++ rest) hx
  have h2 := nondecimal_soft_letter (L := fun c => c == 66 || c == 98) (D := isBinDigit) .bin
    (ds ++ rest) hb
  simp only [argument, hash_chars_soft, hash_decimal_soft, hexadecimal, binary, octal, h, h1, h2,
    PResult.orNext]

theorem argument_str {q : Nat} {payload : Bytes} (rest : Bytes) (hq : (q == 39 || q == 34) = true)
    (hv : validUtf8 payload = true) (hp : payload.all (fun c => c != q) = true) :
    argument (q :: (payload ++ q :: rest)) = .ok rest (.str payload) := by
  have h := quoted_render q rest hv hp
  simp only [Bool.or_eq_true, beq_iff_eq] at hq
  have h1 : characters (q :: (payload ++ q :: rest)) = .soft (some (.std .InvalidCharacter)) :=
    characters_soft _ (by rcases hq with e | e <;> subst e <;> decide)
  have h2 : decimal (q :: (payload ++ q :: rest)) = .soft (some (.std .InvalidCharacter)) :=
    decimal_soft _ (by omega) (by omega) (by rcases hq with e | e <;> subst e <;> decide) (by omega)
  have hq35 : q ≠ 35 := by omega
  rcases hq with e | e
  · subst e
    simp only [argument, h1, h2, hexadecimal, binary, octal, nondecimal_soft_head _ _ hq35,
      singleQuoted, h, PResult.orNext]
  · subst e
    have h3 : quoted 39 (34 :: (payload ++ 34 :: rest)) = .soft (some (.std .InvalidCharacter)) :=
      quoted_soft _ (by decide)
    simp only [argument, h1, h2, hexadecimal, binary, octal, nondecimal_soft_head _ _ hq35,
      singleQuoted, doubleQuoted, h3, h, PResult.orNext]

theorem argument_block {nd : Nat} (payload rest : Bytes) (h1 : 1 ≤ nd) (h9 : nd ≤ 9)
    (hl : payload.length < 10 ^ nd) :
    argument (35 :: (48 + nd) :: (padDigits nd payload.length ++ (payload ++ rest)))
      = .ok rest (.arb payload) := by
  have h := arbitrary_render payload rest h1 h9 hl
  have hx : (fun c => c == 72 || c == 104) (48 + nd) = false := by simp; omega
  have hb : (fun c => c == 66 || c == 98) (48 + nd) = false := by simp; omega
  have ho : (fun c => c == 81 || c == 113) (48 + nd) = false := by simp; omega
  have e1 := nondecimal_soft_letter (L := fun c => c == 72 || c == 104) (D := isHexDigit) .hex
    (padDigits nd payload.length ++ (payload ++ rest)) hx
  have e2 := nondecimal_soft_letter (L := fun c => c == 66 || c == 98) (D := isBinDigit) .bin
    (padDigits nd payload.length ++ (payload ++ rest)) hb
  have e3 := nondecimal_soft_letter (L := fun c => c == 81 || c == 113) (D := isOctDigit) .oct
    (padDigits nd payload.length ++ (payload ++ rest)) ho
  have e4 : quoted 39 (35 :: (48 + nd) :: (padDigits nd payload.length ++ (payload ++ rest)))
      = .soft (some (.std .InvalidCharacter)) := quoted_soft _ (by decide)
  have e5 : quoted 34 (35 :: (48 + nd) :: (padDigits nd payload.length ++ (payload ++ rest)))
      = .soft (some (.std .InvalidCharacter)) := quoted_soft _ (by decide)
  simp only [argument, hash_chars_soft, hash_decimal_soft, hexadecimal, binary, octal, singleQuoted,
    doubleQuoted, e1, e2, e3, e4, e5, h, PResult.orNext]

/-- **Every well-formed literal is recognised by the right alternative of `argument`
and delivered verbatim**, provided the byte that follows (if any) cannot extend it. -/
theorem argument_render {l : Lit} {rest : Bytes} (hw : l.wf = true) (he : Ends l.ext rest) :
    argument (l.render ++ rest) = .ok rest l.value := by
  cases l with
  | chars s => exact argument_chars hw he
  | dec d => exact argument_dec hw he
  | hex up ds =>
    simp only [Lit.wf, Bool.and_eq_true, Bool.not_eq_true', List.isEmpty_eq_false_iff] at hw
    exact argument_hex up hw.1 hw.2 he
  | bin up ds =>
    simp only [Lit.wf, Bool.and_eq_true, Bool.not_eq_true', List.isEmpty_eq_false_iff] at hw
    exact argument_bin up hw.1 hw.2 he
  | oct up ds =>
    simp only [Lit.wf, Bool.and_eq_true, Bool.not_eq_true', List.isEmpty_eq_false_iff] at hw
    exact argument_oct up hw.1 hw.2 he
  | str q p =>
    simp only [Lit.wf, Bool.and_eq_true] at hw
    have := argument_str rest hw.1.1 hw.1.2 hw.2
    simpa only [Lit.render, Lit.value, List.cons_append, List.append_assoc, List.nil_append] using this
  | block nd p =>
    simp only [Lit.wf, Bool.and_eq_true, decide_eq_true_eq] at hw
    have := argument_block p rest hw.1.1 hw.1.2 hw.2
    simpa only [Lit.render, Lit.value, List.cons_append, List.append_assoc] using this

/-- The rendering of a literal is not empty and does not start with white space, a
comma, a colon, a question mark or a terminator. -/
theorem Lit.render_head {l : Lit} (hw : l.wf = true) :
    ∃ b r, l.render = b :: r ∧ isWs b = false ∧ b ≠ 44 ∧ b ≠ 58 ∧ b ≠ 63 ∧ b ≠ 59 ∧ b ≠ 10 := by
  cases l with
  | chars s =>
    cases s with
    | nil => cases hw
    | cons b t =>
      simp only [Lit.wf, isMnemonicText, Bool.and_eq_true] at hw
      have := hw.1
      simp [isAlpha] at this
      refine ⟨b, t, rfl, ?_⟩
      simp [isWs]; omega
  | dec d =>
    obtain ⟨b, r, e, hb⟩ := DecText.render_head hw
    refine ⟨b, r, e, ?_⟩
    simp [isWs]
    rcases hb with h | h | h | h
    · omega
    · omega
    · simp [isDigit] at h; omega
    · omega
  | hex up ds => exact ⟨35, _, rfl, by decide⟩
  | bin up ds => exact ⟨35, _, rfl, by decide⟩
  | oct up ds => exact ⟨35, _, rfl, by decide⟩
  | str q p =>
    simp only [Lit.wf, Bool.and_eq_true, Bool.or_eq_true, beq_iff_eq] at hw
    refine ⟨q, _, rfl, ?_⟩
    simp [isWs]; omega
  | block nd p => exact ⟨35, _, rfl, by decide⟩

end Scpi
