/-
C06 at the level of whole messages — a message with exactly one faulty unit.

`FaultAt I cur pre u suf w s v`: in the message `pre ++ u :: suf` (read with the path
`cur` on writer `w` and user state `s`) the units `pre` are all fine, `u` gets the
verdict `v ≠ ok` on the state `pre` leaves, and — unless `u` is dropped together with
everything behind it (`v = undefined`) — the units `suf` are all fine on the state
`pre ++ [u]` leaves.  `OneFault` is the same by index: the verdict at position `k` is
`v ≠ ok` and every other verdict is `ok`.
-/
import Scpi.Proofs.M6Verdict

namespace Scpi
namespace M6
open Msg

/-! ### Splitting a message behind units that resolve -/

theorem append_split {σ : Type} (I : Iface σ) : ∀ (pre rest : List MsgUnit) (cur : Node) (w : Writer)
    (s : σ), allResolve I.root cur pre = true →
    specExec I cur (pre ++ rest) w s =
      specExec I (pathThrough I.root cur pre) rest (specExec I cur pre w s).1 (specExec I cur pre w s).2 ∧
    reports I cur (pre ++ rest) w s =
      reports I cur pre w s ++
        reports I (pathThrough I.root cur pre) rest (specExec I cur pre w s).1 (specExec I cur pre w s).2 ∧
    pathThrough I.root cur (pre ++ rest) = pathThrough I.root (pathThrough I.root cur pre) rest ∧
    (reports I cur pre w s).length = pre.length
  | [], _, _, _, _, _ => ⟨rfl, rfl, rfl, rfl⟩
  | u :: pre, rest, cur, w, s, h => by
    simp only [allResolve] at h
    cases hr : resolve I.root cur u.hdr.path with
    | none => rw [hr] at h; cases h
    | some np =>
      obtain ⟨node, parent⟩ := np
      rw [hr] at h
      obtain ⟨h1, h2, h3, h4⟩ := append_split I pre rest (parent.getD cur)
        (specUnit I node u.hdr.query (u.lits.map Lit.value) w s).1
        (specUnit I node u.hdr.query (u.lits.map Lit.value) w s).2 h
      simp only [List.cons_append, specExec, reports, pathThrough, hr, h1, h2, h3, h4,
        List.length_cons, and_self]

theorem verdicts_cons {σ : Type} (I : Iface σ) (cur : Node) (u : MsgUnit) (us : List MsgUnit)
    (w : Writer) (s : σ) :
    verdicts I cur (u :: us) w s =
      verdict I cur u w s ::
        match resolve I.root cur u.hdr.path with
        | none => []
        | some (node, parent) =>
          verdicts I (parent.getD cur) us
            (specUnit I node u.hdr.query (u.lits.map Lit.value) w s).1
            (specUnit I node u.hdr.query (u.lits.map Lit.value) w s).2 := by
  simp only [verdicts, reports, verdict]
  cases resolve I.root cur u.hdr.path with
  | none => rfl
  | some np => rfl

/-- Units that are all fine resolve. -/
theorem allResolve_of_ok {σ : Type} (I : Iface σ) : ∀ (us : List MsgUnit) (cur : Node) (w : Writer)
    (s : σ), verdicts I cur us w s = List.replicate us.length .ok → allResolve I.root cur us = true
  | [], _, _, _, _ => rfl
  | u :: us, cur, w, s, h => by
    rw [verdicts_cons] at h
    simp only [List.length_cons, List.replicate_succ, List.cons.injEq] at h
    obtain ⟨h0, h1⟩ := h
    cases hr : resolve I.root cur u.hdr.path with
    | none => simp [verdict, hr] at h0
    | some np =>
      obtain ⟨node, parent⟩ := np
      rw [hr] at h1
      simp only [allResolve, hr]
      exact allResolve_of_ok I us _ _ _ h1

/-- A list of verdicts without `undefined` classifies every unit. -/
theorem verdicts_length {σ : Type} (I : Iface σ) : ∀ (us : List MsgUnit) (cur : Node) (w : Writer)
    (s : σ), (∀ v ∈ verdicts I cur us w s, v ≠ .undefined) → (verdicts I cur us w s).length = us.length
  | [], _, _, _, _ => rfl
  | u :: us, cur, w, s, h => by
    rw [verdicts_cons] at h ⊢
    cases hr : resolve I.root cur u.hdr.path with
    | none =>
      exfalso
      exact h _ (List.mem_cons_self) (by simp [verdict, hr])
    | some np =>
      obtain ⟨node, parent⟩ := np
      rw [hr] at h
      simp only [List.length_cons, Nat.add_right_cancel_iff]
      exact verdicts_length I us _ _ _ fun v hv => h v (List.mem_cons_of_mem _ hv)

theorem verdicts_length_le {σ : Type} (I : Iface σ) : ∀ (us : List MsgUnit) (cur : Node) (w : Writer)
    (s : σ), (verdicts I cur us w s).length ≤ us.length
  | [], _, _, _ => Nat.le_refl _
  | u :: us, cur, w, s => by
    rw [verdicts_cons]
    cases hr : resolve I.root cur u.hdr.path with
    | none => simp
    | some np =>
      obtain ⟨node, parent⟩ := np
      simp only [List.length_cons, Nat.add_le_add_iff_right]
      exact verdicts_length_le I us _ _ _

/-! ### Invocation and verdict -/

theorem invokedOn_isSome {σ : Type} (I : Iface σ) (node : Node) (q : Bool) (args : List Value)
    (w : Writer) (s : σ) :
    (invokedOn I node q args).isSome = (verdictOn I node q args w s).invokes := by
  unfold invokedOn verdictOn slotCmd
  cases (if q then node.query else node.command) with
  | none => rfl
  | some id =>
    simp only [Option.bind_some]
    cases I.cmds[id]? with
    | none => rfl
    | some c =>
      simp only [Option.bind_some]
      by_cases hl : args.length ≠ c.argTys.length
      · simp only [if_pos hl]; rfl
      · simp only [if_neg hl]
        cases convertAll c.argTys args with
        | error e => rfl
        | ok tvs =>
          simp only []
          rcases c.handler s tvs with ⟨s1, r⟩
          cases r with
          | error e => rfl
          | ok resp =>
            simp only []
            rcases reply q w resp with ⟨w', r'⟩
            cases r' with
            | error e => rfl
            | ok x => cases x; rfl

theorem reports_invokes {σ : Type} (I : Iface σ) : ∀ (us : List MsgUnit) (cur : Node) (w : Writer)
    (s : σ), ∀ r ∈ reports I cur us w s, r.2.isSome = r.1.invokes
  | [], _, _, _, r, h => by simp [reports] at h
  | u :: us, cur, w, s, r, h => by
    simp only [reports] at h
    cases hr : resolve I.root cur u.hdr.path with
    | none =>
      rw [hr] at h
      simp only [List.mem_singleton] at h
      subst h
      rfl
    | some np =>
      obtain ⟨node, parent⟩ := np
      rw [hr] at h
      simp only [List.mem_cons] at h
      rcases h with h | h
      · subst h
        exact invokedOn_isSome I node _ _ w s
      · exact reports_invokes I us _ _ _ r h

/-! ### Logs of reports -/

/-- What a reached unit appends to the trace of `Iface.traced`. -/
def traceLog (r : Report) : List Ev :=
  reportLog (fun id tvs => [Ev.call id tvs]) (fun e => [Ev.error e]) r

/-- What a reached unit appends to the error log of `Iface.logged`. -/
def errsLog (r : Report) : List Err :=
  reportLog (fun _ _ => []) (fun e => [e]) r

theorem errsLog_eq (r : Report) : errsLog r = r.1.error.toList := by
  obtain ⟨v, inv⟩ := r
  unfold errsLog reportLog
  have : callLog (fun _ _ => ([] : List Err)) inv = [] := by
    unfold callLog; split <;> rfl
  rw [this]
  cases h : v.error <;> simp [errLog]

/-- The `call` event of an invocation. -/
def callEv (c : Nat × List TVal) : Ev := Ev.call c.1 c.2

theorem logs_all_ok : ∀ (R : List Report), (∀ r ∈ R, r.1 = .ok ∧ r.2.isSome = true) →
    R.flatMap errsLog = [] ∧
    ∃ cs : List (Nat × List TVal), cs.length = R.length ∧ R.flatMap traceLog = cs.map callEv
  | [], _ => ⟨rfl, [], rfl, rfl⟩
  | r :: R, h => by
    obtain ⟨h1, cs, h2, h3⟩ := logs_all_ok R fun r' hr' => h r' (List.mem_cons_of_mem _ hr')
    obtain ⟨hv, hi⟩ := h r List.mem_cons_self
    obtain ⟨v, inv⟩ := r
    simp only at hv hi
    subst hv
    cases inv with
    | none => cases hi
    | some c =>
      refine ⟨?_, c :: cs, by simp [h2], ?_⟩
      · simp only [List.flatMap_cons, h1, errsLog_eq, UnitVerdict.error, Option.toList_none,
          List.append_nil]
      · simp only [List.flatMap_cons, h3, List.map_cons]
        rfl

theorem reports_all_ok {σ : Type} (I : Iface σ) (us : List MsgUnit) (cur : Node) (w : Writer) (s : σ)
    (n : Nat) (h : verdicts I cur us w s = List.replicate n .ok) :
    ∀ r ∈ reports I cur us w s, r.1 = .ok ∧ r.2.isSome = true := by
  intro r hr
  have h1 : r.1 = .ok := by
    have : r.1 ∈ verdicts I cur us w s := List.mem_map.2 ⟨r, hr, rfl⟩
    rw [h] at this
    exact (List.mem_replicate.1 this).2
  refine ⟨h1, ?_⟩
  rw [reports_invokes I us cur w s r hr, h1]
  rfl

/-! ### Exactly one faulty unit -/

/-- The message `pre ++ u :: suf`: the units of `pre` are fine; `u` gets the verdict
`v ≠ ok` on the path, writer and state that `pre` leaves; and unless `v = undefined`
(then `suf` is dropped) the units of `suf` are fine on what `pre ++ [u]` leaves. -/
structure FaultAt {σ : Type} (I : Iface σ) (cur : Node) (pre : List MsgUnit) (u : MsgUnit)
    (suf : List MsgUnit) (w : Writer) (s : σ) (v : UnitVerdict) : Prop where
  fault : v ≠ .ok
  before : verdicts I cur pre w s = List.replicate pre.length .ok
  here : verdict I (pathThrough I.root cur pre) u (specExec I cur pre w s).1 (specExec I cur pre w s).2 = v
  after : v ≠ .undefined →
    verdicts I (pathThrough I.root cur (pre ++ [u])) suf
      (specExec I cur (pre ++ [u]) w s).1 (specExec I cur (pre ++ [u]) w s).2 =
        List.replicate suf.length .ok

/-- By index: verdict number `k` is `v ≠ ok`, all other verdicts are `ok`. -/
def OneFault {σ : Type} (I : Iface σ) (cur : Node) (us : List MsgUnit) (w : Writer) (s : σ) (k : Nat)
    (v : UnitVerdict) : Prop :=
  v ≠ .ok ∧ (verdicts I cur us w s)[k]? = some v ∧
    ∀ j v', j ≠ k → (verdicts I cur us w s)[j]? = some v' → v' = .ok

section
variable {σ : Type} {I : Iface σ} {cur : Node} {pre : List MsgUnit} {u : MsgUnit}
  {suf : List MsgUnit} {w : Writer} {s : σ} {v : UnitVerdict}

theorem FaultAt.resolves (h : FaultAt I cur pre u suf w s v) : allResolve I.root cur pre = true :=
  allResolve_of_ok I pre cur w s h.before

/-- The reports of the whole message, in three parts. -/
theorem FaultAt.reports_eq (h : FaultAt I cur pre u suf w s v) :
    ∃ inv, inv.isSome = v.invokes ∧
      reports I (pathThrough I.root cur pre) [u] (specExec I cur pre w s).1 (specExec I cur pre w s).2
        = [(v, inv)] ∧
      reports I cur (pre ++ u :: suf) w s =
        reports I cur pre w s ++ (v, inv) ::
          (if v = .undefined then []
           else reports I (pathThrough I.root cur (pre ++ [u])) suf
             (specExec I cur (pre ++ [u]) w s).1 (specExec I cur (pre ++ [u]) w s).2) := by
  obtain ⟨e1, e2, _, _⟩ := append_split I pre (u :: suf) cur w s h.resolves
  obtain ⟨f1, _, f3, _⟩ := append_split I pre [u] cur w s h.resolves
  have hv := h.here
  rw [e2, f1, f3]
  simp only [verdict] at hv
  simp only [reports, specExec, pathThrough]
  cases hr : resolve I.root (pathThrough I.root cur pre) u.hdr.path with
  | none =>
    rw [hr] at hv
    subst hv
    exact ⟨none, rfl, rfl, by simp⟩
  | some np =>
    obtain ⟨node, parent⟩ := np
    rw [hr] at hv
    simp only at hv
    have hne : v ≠ .undefined := by
      rw [← hv]
      unfold verdictOn
      repeat' split
      all_goals simp
    refine ⟨invokedOn I node u.hdr.query (u.lits.map Lit.value), ?_, ?_, ?_⟩
    · rw [← hv]; exact invokedOn_isSome I node _ _ _ _
    · simp only [hv]
    · simp only [hv, if_neg hne]

/-- The final writer and state. -/
theorem FaultAt.specExec_eq (h : FaultAt I cur pre u suf w s v) :
    specExec I cur (pre ++ u :: suf) w s =
      if v = .undefined then
        ((specExec I cur pre w s).1, I.onError (specExec I cur pre w s).2 (.std .UndefinedHeader))
      else
        specExec I (pathThrough I.root cur (pre ++ [u])) suf
          (specExec I cur (pre ++ [u]) w s).1 (specExec I cur (pre ++ [u]) w s).2 := by
  obtain ⟨e1, _, _, _⟩ := append_split I pre (u :: suf) cur w s h.resolves
  obtain ⟨f1, _, f3, _⟩ := append_split I pre [u] cur w s h.resolves
  have hv := h.here
  rw [e1, f1, f3]
  simp only [verdict] at hv
  simp only [specExec, pathThrough]
  cases hr : resolve I.root (pathThrough I.root cur pre) u.hdr.path with
  | none =>
    rw [hr] at hv
    subst hv
    simp
  | some np =>
    obtain ⟨node, parent⟩ := np
    rw [hr] at hv
    simp only at hv
    have hne : v ≠ .undefined := by
      rw [← hv]
      unfold verdictOn
      repeat' split
      all_goals simp
    simp only [if_neg hne]

/-- The verdicts of the whole message as a list. -/
theorem FaultAt.verdicts_eq (h : FaultAt I cur pre u suf w s v) :
    verdicts I cur (pre ++ u :: suf) w s =
      List.replicate pre.length .ok ++ v ::
        (if v = .undefined then [] else List.replicate suf.length .ok) := by
  obtain ⟨inv, _, _, e⟩ := h.reports_eq
  have hb := h.before
  simp only [verdicts] at hb ⊢
  rw [e, List.map_append, List.map_cons, hb]
  by_cases hu : v = .undefined
  · simp [hu]
  · have ha := h.after hu
    simp only [verdicts] at ha
    simp only [if_neg hu, ha]

end

/-! ### Index form ⇔ decomposition -/

theorem oneFault_of_faultAt {σ : Type} {I : Iface σ} {cur : Node} {pre : List MsgUnit} {u : MsgUnit}
    {suf : List MsgUnit} {w : Writer} {s : σ} {v : UnitVerdict}
    (h : FaultAt I cur pre u suf w s v) : OneFault I cur (pre ++ u :: suf) w s pre.length v := by
  refine ⟨h.fault, ?_, ?_⟩
  · rw [h.verdicts_eq]
    simp
  · intro j v' hj hv'
    rw [h.verdicts_eq] at hv'
    rcases Nat.lt_or_ge j pre.length with hlt | hge
    · rw [List.getElem?_append_left (by simpa using hlt)] at hv'
      simp only [List.getElem?_replicate, hlt, if_true, Option.some.injEq] at hv'
      exact hv'.symm
    · rw [List.getElem?_append_right (by simpa using hge)] at hv'
      simp only [List.length_replicate] at hv'
      obtain ⟨i, hi⟩ : ∃ i, j - pre.length = i + 1 := ⟨j - pre.length - 1, by omega⟩
      rw [hi, List.getElem?_cons_succ] at hv'
      by_cases hu : v = .undefined
      · simp [hu] at hv'
      · simp only [if_neg hu, List.getElem?_replicate] at hv'
        split at hv'
        · exact (Option.some.inj hv').symm
        · cases hv'

theorem faultAt_of_oneFault {σ : Type} {I : Iface σ} {cur : Node} {us : List MsgUnit} {w : Writer}
    {s : σ} {k : Nat} {v : UnitVerdict} (h : OneFault I cur us w s k v) :
    ∃ pre u suf, us = pre ++ u :: suf ∧ pre.length = k ∧ FaultAt I cur pre u suf w s v := by
  obtain ⟨hne, hk, hother⟩ := h
  have hklt : k < (verdicts I cur us w s).length := by
    rcases Nat.lt_or_ge k (verdicts I cur us w s).length with h | h
    · exact h
    · rw [List.getElem?_eq_none h] at hk; cases hk
  have hkus : k < us.length := Nat.lt_of_lt_of_le hklt (verdicts_length_le I us cur w s)
  refine ⟨us.take k, us[k], us.drop (k + 1), ?_, by simp; omega, ?_⟩
  · simp
  -- the whole proof works on the decomposition
  generalize hpre : us.take k = pre
  generalize hu : us[k] = u
  generalize hsuf : us.drop (k + 1) = suf
  have hus : us = pre ++ u :: suf := by
    rw [← hpre, ← hu, ← hsuf]; simp
  have hlen : pre.length = k := by rw [← hpre]; simp; omega
  clear hpre hu hsuf
  subst hus
  subst hlen
  -- the prefix: by induction the first `pre.length` verdicts are those of `pre`
  have key : ∀ (pre : List MsgUnit) (rest : List MsgUnit) (cur : Node) (w : Writer) (s : σ),
      (∀ j v', j < pre.length → (verdicts I cur (pre ++ rest) w s)[j]? = some v' → v' = .ok) →
      pre.length ≤ (verdicts I cur (pre ++ rest) w s).length →
      verdicts I cur pre w s = List.replicate pre.length .ok := by
    intro pre
    induction pre with
    | nil => intros; rfl
    | cons p pre ih =>
      intro rest cur w s hj hl
      rw [List.cons_append, verdicts_cons] at hj hl
      rw [verdicts_cons]
      have h0 := hj 0 (verdict I cur p w s) (by simp) (by simp)
      cases hr : resolve I.root cur p.hdr.path with
      | none => simp [verdict, hr] at h0
      | some np =>
        obtain ⟨node, parent⟩ := np
        rw [hr] at hj hl
        simp only [List.length_cons, List.replicate_succ, h0, List.cons.injEq, true_and]
        apply ih rest
        · intro j v' hjl hv'
          exact hj (j + 1) v' (by simpa using hjl) (by simpa using hv')
        · simpa using hl
  have hbefore := key pre (u :: suf) cur w s
    (fun j v' hj hv' => hother j v' (by omega) hv') (by omega)
  have hres := allResolve_of_ok I pre cur w s hbefore
  obtain ⟨_, e2, _, e4⟩ := append_split I pre (u :: suf) cur w s hres
  obtain ⟨f1, _, f3, _⟩ := append_split I pre [u] cur w s hres
  have hV : verdicts I cur (pre ++ u :: suf) w s =
      List.replicate pre.length .ok ++
        verdicts I (pathThrough I.root cur pre) (u :: suf) (specExec I cur pre w s).1
          (specExec I cur pre w s).2 := by
    simp only [verdicts] at hbefore ⊢
    rw [e2, List.map_append, hbefore]
  have hidx : ∀ i, (verdicts I cur (pre ++ u :: suf) w s)[pre.length + i]? =
      (verdicts I (pathThrough I.root cur pre) (u :: suf) (specExec I cur pre w s).1
          (specExec I cur pre w s).2)[i]? := by
    intro i
    rw [hV, List.getElem?_append_right (by simp)]
    simp
  have hhere : verdict I (pathThrough I.root cur pre) u (specExec I cur pre w s).1
      (specExec I cur pre w s).2 = v := by
    have := hidx 0
    rw [Nat.add_zero, hk, verdicts_cons] at this
    simpa using this.symm
  refine ⟨hne, hbefore, hhere, ?_⟩
  intro hund
  rw [f1, f3]
  simp only [specExec, pathThrough]
  have hidx' := hidx
  rw [verdicts_cons] at hidx'
  cases hr : resolve I.root (pathThrough I.root cur pre) u.hdr.path with
  | none => simp [verdict, hr] at hhere; exact absurd hhere.symm hund
  | some np =>
    obtain ⟨node, parent⟩ := np
    rw [hr] at hidx'
    simp only
    have hall : ∀ v' ∈ verdicts I (parent.getD (pathThrough I.root cur pre)) suf
        (specUnit I node u.hdr.query (u.lits.map Lit.value) (specExec I cur pre w s).1
          (specExec I cur pre w s).2).1
        (specUnit I node u.hdr.query (u.lits.map Lit.value) (specExec I cur pre w s).1
          (specExec I cur pre w s).2).2, v' = .ok := by
      intro v' hv'
      obtain ⟨i, hi, hiv⟩ := List.getElem_of_mem hv'
      apply hother (pre.length + (i + 1)) v' (by omega)
      rw [hidx' (i + 1), List.getElem?_cons_succ, List.getElem?_eq_getElem hi, hiv]
    rw [List.eq_replicate_iff]
    refine ⟨?_, hall⟩
    apply verdicts_length
    intro v' hv'
    rw [hall v' hv']
    simp

end M6
end Scpi
