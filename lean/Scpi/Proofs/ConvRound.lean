/-
Helpers for C03 (float part), stage 3: `roundRat` cut into its stages
(`chooseE`, `clampE`, `scaledPair`, `roundQ`, `finish`), the bracket
`q₀·2^k ≤ n/d < (q₀+1)·2^k` of the quotient, and what `finish` encodes.
-/
import Scpi.Proofs.ConvGrid

namespace Scpi
namespace C03

/-! ### The stages of `roundRat` -/

/-- `e' = max e emin`. -/
def clampE (f : FloatFmt) (e : Int) : Int :=
  if e < 1 - (f.bias : Int) then 1 - (f.bias : Int) else e

/-- `n/d` divided by the quantum `2^sh`, as a fraction of natural numbers. -/
def scaledPair (n d : Nat) (sh : Int) : Nat × Nat :=
  if sh ≥ 0 then (n, d * 2 ^ sh.toNat) else (n * 2 ^ (-sh).toNat, d)

/-- Quotient rounded to nearest, ties to even. -/
def roundQ (num den : Nat) : Nat :=
  if 2 * (num % den) > den ∨ (2 * (num % den) = den ∧ (num / den) % 2 = 1) then num / den + 1
  else num / den

/-- Re-normalisation and encoding. -/
def finish (f : FloatFmt) (q : Nat) (e' : Int) : Nat :=
  match (if q = 2 ^ (f.mbits + 1) then (2 ^ f.mbits, e' + 1) else (q, e') : Nat × Int) with
  | (q, e') =>
    if q < 2 ^ f.mbits then q
    else
      if e' + (f.bias : Int) ≥ (f.expMax : Int) then f.infBits
      else (e' + (f.bias : Int)).toNat * 2 ^ f.mbits + (q - 2 ^ f.mbits)

/-- `roundRat` is the composition of its stages. -/
theorem roundRat_eq (f : FloatFmt) (n d : Nat) (hn : n ≠ 0) :
    roundRat f n d =
      finish f (roundQ (scaledPair n d (clampE f (chooseE n d) - f.mbits)).1
                       (scaledPair n d (clampE f (chooseE n d) - f.mbits)).2)
        (clampE f (chooseE n d)) := by
  unfold roundRat
  rw [if_neg hn]
  rfl

theorem scaledPair_eq (n d : Nat) (sh : Int) :
    scaledPair n d sh = (n * 2 ^ (-sh).toNat, d * 2 ^ sh.toNat) := by
  unfold scaledPair
  split
  · rename_i h
    have : (-sh).toNat = 0 := by omega
    rw [this]; simp
  · rename_i h
    have : sh.toNat = 0 := by omega
    rw [this]; simp

/-! ### Pure arithmetic: the bracket of a quotient -/

/-- If `num/den = N/W` (cross-multiplied) then `q₀ = ⌊num/den⌋` brackets `N` between
`q₀·W` and `(q₀+1)·W`, and the two gaps are proportional to the remainder and its
complement. -/
theorem bracket (num den W N : Nat) (hden : 0 < den) (hW : 0 < W) (h : num * W = den * N) :
    (num / den) * W ≤ N ∧ N < (num / den + 1) * W ∧
    (N - (num / den) * W) * den = (num % den) * W ∧
    ((num / den + 1) * W - N) * den = (den - num % den) * W := by
  have hdm := Nat.div_add_mod num den
  have hr := Nat.mod_lt num hden
  generalize num / den = q0 at *
  generalize num % den = r at *
  subst hdm
  -- (den*q0 + r) * W = den * N
  have h1 : den * (q0 * W) + r * W = den * N := by
    rw [← h, Nat.add_mul, Nat.mul_assoc]
  have hle : q0 * W ≤ N := by
    apply Nat.le_of_mul_le_mul_left _ hden
    omega
  have hrW : r * W < den * W := Nat.mul_lt_mul_of_pos_right hr hW
  have hlt : N < (q0 + 1) * W := by
    apply Nat.lt_of_mul_lt_mul_left (a := den)
    rw [Nat.add_mul, Nat.one_mul, Nat.mul_add]
    omega
  refine ⟨hle, hlt, ?_, ?_⟩
  · rw [Nat.sub_mul, Nat.mul_comm N den, Nat.mul_comm (q0 * W) den]
    omega
  · rw [Nat.sub_mul, Nat.sub_mul, Nat.mul_comm N den, Nat.mul_comm ((q0 + 1) * W) den,
      Nat.add_mul, Nat.one_mul, Nat.mul_add]
    omega

/-- Comparing the gaps is comparing the remainder with half the divisor. -/
theorem gaps_compare (A C r den W : Nat) (hden : 0 < den) (hW : 0 < W) (hr : r < den)
    (hA : A * den = r * W) (hC : C * den = (den - r) * W) :
    (den < 2 * r ↔ C < A) ∧ (2 * r = den ↔ A = C) := by
  have e1 : C < A ↔ den - r < r := by
    rw [← Nat.mul_lt_mul_right (a := den) hden, hA, hC, Nat.mul_lt_mul_right hW]
  have e2 : A = C ↔ r = den - r := by
    constructor
    · intro h
      have : r * W = (den - r) * W := by rw [← hA, ← hC, h]
      exact Nat.eq_of_mul_eq_mul_right hW this
    · intro h
      have : A * den = C * den := by rw [hA, hC, ← h]
      exact Nat.eq_of_mul_eq_mul_right hden this
  rw [e1, e2]
  omega

/-! ### The scaled fraction of `roundRat` -/

/-- `clampE` in the form `emin + k`. -/
theorem clampE_eq (f : FloatFmt) (e : Int) :
    ∃ k : Nat, clampE f e = 1 - (f.bias : Int) + k ∧ e ≤ clampE f e ∧ (0 < k → clampE f e = e) := by
  unfold clampE
  split
  · exact ⟨0, by omega, by omega, by omega⟩
  · exact ⟨(e - (1 - (f.bias : Int))).toNat, by omega, by omega, fun _ => rfl⟩

/-- (★) the scaled fraction `num/den` equals `(n · D) / (d · 2^k)`, where `D = funitDen`. -/
theorem scaled_star (f : FloatFmt) (n d k : Nat) (hb : 1 ≤ f.bias + f.mbits) (sh : Int)
    (hsh : sh = 1 - (f.bias : Int) + k - f.mbits) :
    (n * 2 ^ (-sh).toNat) * (d * 2 ^ k) = (d * 2 ^ sh.toNat) * (n * funitDen f) := by
  unfold funitDen
  have hexp : (-sh).toNat + k = sh.toNat + (f.bias + f.mbits - 1) := by omega
  have hp : 2 ^ (-sh).toNat * 2 ^ k = 2 ^ sh.toNat * 2 ^ (f.bias + f.mbits - 1) := by
    rw [← Nat.pow_add, ← Nat.pow_add, hexp]
  calc (n * 2 ^ (-sh).toNat) * (d * 2 ^ k)
      = (n * d) * (2 ^ (-sh).toNat * 2 ^ k) := by ac_rfl
    _ = (n * d) * (2 ^ sh.toNat * 2 ^ (f.bias + f.mbits - 1)) := by rw [hp]
    _ = (d * 2 ^ sh.toNat) * (n * 2 ^ (f.bias + f.mbits - 1)) := by ac_rfl

/-- The quotient is below `2^(mbits+1)` because `n/d < 2^(e+1) ≤ 2^(e'+1)`. -/
theorem q0_lt (n d : Nat) (hd : 0 < d) (mbits : Nat) (e' sh : Int) (hsh : sh = e' - mbits)
    (h : ¬ GeI n d (e' + 1)) :
    (n * 2 ^ (-sh).toNat) / (d * 2 ^ sh.toNat) < 2 ^ (mbits + 1) := by
  have hden : 0 < d * 2 ^ sh.toNat := Nat.mul_pos hd (two_pow_pos' _)
  rw [Nat.div_lt_iff_lt_mul hden]
  rw [geI_iff (p := sh.toNat + (mbits + 1)) (m := (-sh).toNat) (by omega)] at h
  unfold Ge2 at h
  rw [Nat.pow_add, ← Nat.mul_assoc] at h
  rw [Nat.mul_comm (2 ^ (mbits + 1))]
  omega

/-- In the normal range (`e' = e`) the quotient is at least `2^mbits` because `2^e ≤ n/d`. -/
theorem q0_ge (n d : Nat) (hd : 0 < d) (mbits : Nat) (e' sh : Int) (hsh : sh = e' - mbits)
    (h : GeI n d e') :
    2 ^ mbits ≤ (n * 2 ^ (-sh).toNat) / (d * 2 ^ sh.toNat) := by
  have hden : 0 < d * 2 ^ sh.toNat := Nat.mul_pos hd (two_pow_pos' _)
  rw [Nat.le_div_iff_mul_le hden]
  rw [geI_iff (p := sh.toNat + mbits) (m := (-sh).toNat) (by omega)] at h
  unfold Ge2 at h
  rw [Nat.pow_add, ← Nat.mul_assoc] at h
  rw [Nat.mul_comm (2 ^ mbits)]
  exact h

theorem roundQ_cases (num den : Nat) :
    (roundQ num den = num / den ∧
      ¬ (2 * (num % den) > den ∨ (2 * (num % den) = den ∧ (num / den) % 2 = 1))) ∨
    (roundQ num den = num / den + 1 ∧
      (2 * (num % den) > den ∨ (2 * (num % den) = den ∧ (num / den) % 2 = 1))) := by
  unfold roundQ
  split
  · exact Or.inr ⟨rfl, by assumption⟩
  · exact Or.inl ⟨rfl, by assumption⟩

/-! ### What `finish` encodes -/

theorem expMax_ge_three (f : FloatFmt) (he : 2 ≤ f.ebits) : 3 ≤ f.expMax := by
  unfold FloatFmt.expMax
  have : 2 ^ 2 ≤ 2 ^ f.ebits := Nat.pow_le_pow_right (by decide) he
  omega

theorem fracOf_infBits (f : FloatFmt) : f.fracOf f.infBits = 0 := by
  unfold FloatFmt.fracOf FloatFmt.infBits
  exact Nat.mul_mod_left _ _

/-- The bit pattern `finish` produces from the rounded quotient `q ∈ {q₀, q₀+1}` at
spacing `2^k` (`e' = emin + k`) is within `[0, infBits]` and EITHER stands for `q · 2^k`
on the grid (with the parity of its fraction field that of `q`), OR is the infinity
pattern and already the un-rounded `q₀ · 2^k` is at or above the grid value of infinity. -/
theorem finish_spec (f : FloatFmt) (hm : 1 ≤ f.mbits) (he : 2 ≤ f.ebits) (q q0 k : Nat)
    (hq : q = q0 ∨ q = q0 + 1) (hq0 : q0 < 2 ^ (f.mbits + 1)) (hk : 0 < k → 2 ^ f.mbits ≤ q0) :
    finish f q (1 - (f.bias : Int) + k) ≤ f.infBits ∧
    ((fscaled f (finish f q (1 - (f.bias : Int) + k)) = q * 2 ^ k ∧
        (q % 2 = 0 → f.fracOf (finish f q (1 - (f.bias : Int) + k)) % 2 = 0)) ∨
     (finish f q (1 - (f.bias : Int) + k) = f.infBits ∧ fscaled f f.infBits ≤ q0 * 2 ^ k)) := by
  have hM := two_pow_pos' f.mbits
  have h3 := expMax_ge_three f he
  have h2M : 2 ^ (f.mbits + 1) = 2 ^ f.mbits + 2 ^ f.mbits := by rw [Nat.pow_succ]; omega
  have hMeven : 2 ^ f.mbits % 2 = 0 := by
    obtain ⟨j, hj⟩ : ∃ j, f.mbits = j + 1 := ⟨f.mbits - 1, by omega⟩
    rw [hj, Nat.pow_succ]; omega
  have hinf := fscaled_inf f (by omega)
  -- overflow by exponent: the un-rounded value is already at or above the top
  have hover : f.expMax ≤ k + 1 → fscaled f f.infBits ≤ q0 * 2 ^ k := by
    intro hk1
    have hq0M := hk (by omega)
    rw [hinf]
    have h1 : 2 ^ f.mbits * 2 ^ (f.expMax - 1) ≤ 2 ^ f.mbits * 2 ^ k :=
      Nat.mul_le_mul_left _ (Nat.pow_le_pow_right (by decide) (by omega))
    have h2 : 2 ^ f.mbits * 2 ^ k ≤ q0 * 2 ^ k := Nat.mul_le_mul_right _ hq0M
    omega
  unfold finish
  by_cases hq2 : q = 2 ^ (f.mbits + 1)
  · rw [if_pos hq2]
    simp only []
    rw [if_neg (Nat.lt_irrefl _)]
    by_cases hov : 1 - (f.bias : Int) + k + 1 + (f.bias : Int) ≥ (f.expMax : Int)
    · rw [if_pos hov]
      refine ⟨Nat.le_refl _, ?_⟩
      by_cases hk2 : k + 2 = f.expMax
      · left
        refine ⟨?_, fun _ => by rw [fracOf_infBits]⟩
        have hk3 : f.expMax - 1 = k + 1 := by omega
        rw [hinf, hq2, Nat.pow_succ, hk3, Nat.pow_succ]
        simp only [Nat.mul_assoc, Nat.mul_comm, Nat.mul_left_comm]
      · right
        exact ⟨rfl, hover (by omega)⟩
    · rw [if_neg hov]
      have ht : (1 - (f.bias : Int) + k + 1 + (f.bias : Int)).toNat = k + 2 := by omega
      rw [ht, Nat.sub_self]
      have hE : k + 2 ≤ f.expMax := by omega
      obtain ⟨hfe, hff⟩ := fields_of f (k + 2) 0 hM hE
      refine ⟨?_, Or.inl ⟨?_, fun _ => by rw [hff]⟩⟩
      · unfold FloatFmt.infBits
        rw [Nat.add_zero]
        exact Nat.mul_le_mul_right _ hE
      · rw [fscaled_of_fields f (k + 2) 0 hM hE, hq2]
        unfold gridVal
        rw [if_neg (by omega), Nat.add_zero, Nat.pow_succ]
        have : k + 2 - 1 = k + 1 := by omega
        rw [this, Nat.pow_succ]
        simp only [Nat.mul_assoc, Nat.mul_comm, Nat.mul_left_comm]
  · rw [if_neg hq2]
    simp only []
    have hqlt : q < 2 ^ f.mbits + 2 ^ f.mbits := by omega
    by_cases hsub : q < 2 ^ f.mbits
    · rw [if_pos hsub]
      have hk0 : k = 0 := by
        rcases Nat.eq_zero_or_pos k with h | h
        · exact h
        · have := hk h; omega
      have hE : 0 ≤ f.expMax := Nat.zero_le _
      obtain ⟨hfe, hff⟩ := fields_of f 0 q hsub hE
      have hfs := fscaled_of_fields f 0 q hsub hE
      rw [Nat.zero_mul, Nat.zero_add] at hfe hff hfs
      refine ⟨?_, Or.inl ⟨?_, fun h => by rw [hff]; exact h⟩⟩
      · unfold FloatFmt.infBits
        have : 1 * 2 ^ f.mbits ≤ f.expMax * 2 ^ f.mbits := Nat.mul_le_mul_right _ (by omega)
        omega
      · rw [hfs, hk0]
        unfold gridVal
        simp
    · rw [if_neg hsub]
      by_cases hov : 1 - (f.bias : Int) + k + (f.bias : Int) ≥ (f.expMax : Int)
      · rw [if_pos hov]
        exact ⟨Nat.le_refl _, Or.inr ⟨rfl, hover (by omega)⟩⟩
      · rw [if_neg hov]
        have ht : (1 - (f.bias : Int) + k + (f.bias : Int)).toNat = k + 1 := by omega
        rw [ht]
        have hE : k + 1 ≤ f.expMax := by omega
        have hF : q - 2 ^ f.mbits < 2 ^ f.mbits := by omega
        obtain ⟨hfe, hff⟩ := fields_of f (k + 1) (q - 2 ^ f.mbits) hF hE
        refine ⟨?_, Or.inl ⟨?_, fun h => ?_⟩⟩
        · unfold FloatFmt.infBits
          have : (k + 2) * 2 ^ f.mbits ≤ f.expMax * 2 ^ f.mbits :=
            Nat.mul_le_mul_right _ (by omega)
          rw [Nat.add_mul] at this
          rw [Nat.add_mul]
          omega
        · rw [fscaled_of_fields f (k + 1) (q - 2 ^ f.mbits) hF hE]
          unfold gridVal
          rw [if_neg (by omega), Nat.add_sub_cancel]
          have : 2 ^ f.mbits + (q - 2 ^ f.mbits) = q := by omega
          rw [this]
        · rw [hff]; omega

end C03
end Scpi
