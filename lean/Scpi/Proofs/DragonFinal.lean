/-
C04 (float Display), assembly: for a finite positive pattern `b`, the digits of
`formatShortest` denote a decimal that `roundRat` maps back to `b`.
-/
import Scpi.Proofs.DragonEstimate
import Scpi.Proofs.DragonRound
import Scpi.Proofs.DragonText

namespace Scpi
namespace Dragon
open C03

/-- For a normal number, `decode` reports an inclusive interval only for an even pattern. -/
theorem decode_incl_even (f : FloatFmt) (hm : 1 ≤ f.mbits) (b : Nat) (hE : f.expOf b ≠ 0)
    (hi : (decodeFinite f b).2.2.2.2 = true) : b % 2 = 0 := by
  rw [← fracOf_mod_two f hm b]
  obtain ⟨c, hc⟩ := two_dvd_pow_mbits f hm
  unfold decodeFinite at hi
  simp only [hE, ↓reduceIte] at hi
  split at hi <;> simp at hi <;> omega

/-- From the scaled interval facts of `core_raw` to the form `roundRat_of_between` wants
(lower side): `X · 2^exp ≤ N · 10^e10` becomes `X · 2^s · d ≤ 4 · (n · U)`. -/
theorem lower_le (X N a a' s bm u w u' w' j p' g : Nat)
    (h : 10 ^ (j - 1) * (X * (2 ^ a * 10 ^ p' * 10 ^ g)) ≤ N * (2 ^ a' * 10 ^ w))
    (hu : u = j - 1 + p' + g) (e2 : a + (bm + 2) = s + a') (e10 : u + w' = u' + w) :
    X * 2 ^ s * 10 ^ u' ≤ 4 * (N * 10 ^ w' * 2 ^ bm) := by
  have h' : X * 2 ^ a * 10 ^ u ≤ N * 2 ^ a' * 10 ^ w := by
    calc X * 2 ^ a * 10 ^ u = 10 ^ (j - 1) * (X * (2 ^ a * 10 ^ p' * 10 ^ g)) := by
          rw [hu, Nat.pow_add, Nat.pow_add]; ac_rfl
      _ ≤ N * (2 ^ a' * 10 ^ w) := h
      _ = N * 2 ^ a' * 10 ^ w := by ac_rfl
  have := shift2_le X N a a' s (bm + 2) u w u' w' h' e2 e10
  calc X * 2 ^ s * 10 ^ u' ≤ N * 10 ^ w' * 2 ^ (bm + 2) := this
    _ = 4 * (N * 10 ^ w' * 2 ^ bm) := by rw [Nat.pow_add, show (2 : Nat) ^ 2 = 4 from rfl]; ac_rfl

theorem lower_lt (X N a a' s bm u w u' w' j p' g : Nat)
    (h : 10 ^ (j - 1) * (X * (2 ^ a * 10 ^ p' * 10 ^ g)) < N * (2 ^ a' * 10 ^ w))
    (hu : u = j - 1 + p' + g) (e2 : a + (bm + 2) = s + a') (e10 : u + w' = u' + w) :
    X * 2 ^ s * 10 ^ u' < 4 * (N * 10 ^ w' * 2 ^ bm) := by
  have h' : X * 2 ^ a * 10 ^ u < N * 2 ^ a' * 10 ^ w := by
    calc X * 2 ^ a * 10 ^ u = 10 ^ (j - 1) * (X * (2 ^ a * 10 ^ p' * 10 ^ g)) := by
          rw [hu, Nat.pow_add, Nat.pow_add]; ac_rfl
      _ < N * (2 ^ a' * 10 ^ w) := h
      _ = N * 2 ^ a' * 10 ^ w := by ac_rfl
  have := shift2_lt X N a a' s (bm + 2) u w u' w' h' e2 e10
  calc X * 2 ^ s * 10 ^ u' < N * 10 ^ w' * 2 ^ (bm + 2) := this
    _ = 4 * (N * 10 ^ w' * 2 ^ bm) := by rw [Nat.pow_add, show (2 : Nat) ^ 2 = 4 from rfl]; ac_rfl

/-- Upper side. -/
theorem upper_le (Y N a a' s bm u w u' w' j p' g : Nat)
    (h : N * (2 ^ a' * 10 ^ w) ≤ 10 ^ (j - 1) * (Y * (2 ^ a * 10 ^ p' * 10 ^ g)))
    (hu : u = j - 1 + p' + g) (e2 : a + (bm + 2) = s + a') (e10 : u + w' = u' + w) :
    4 * (N * 10 ^ w' * 2 ^ bm) ≤ Y * 2 ^ s * 10 ^ u' := by
  have h' : N * 2 ^ a' * 10 ^ w ≤ Y * 2 ^ a * 10 ^ u := by
    calc N * 2 ^ a' * 10 ^ w = N * (2 ^ a' * 10 ^ w) := by ac_rfl
      _ ≤ 10 ^ (j - 1) * (Y * (2 ^ a * 10 ^ p' * 10 ^ g)) := h
      _ = Y * 2 ^ a * 10 ^ u := by rw [hu, Nat.pow_add, Nat.pow_add]; ac_rfl
  have := shift2_le N Y a' a (bm + 2) s w u w' u' h' (by omega) (by omega)
  calc 4 * (N * 10 ^ w' * 2 ^ bm) = N * 2 ^ (bm + 2) * 10 ^ w' := by rw [Nat.pow_add, show (2 : Nat) ^ 2 = 4 from rfl]; ac_rfl
    _ ≤ Y * 10 ^ u' * 2 ^ s := this
    _ = Y * 2 ^ s * 10 ^ u' := by ac_rfl

theorem upper_lt (Y N a a' s bm u w u' w' j p' g : Nat)
    (h : N * (2 ^ a' * 10 ^ w) < 10 ^ (j - 1) * (Y * (2 ^ a * 10 ^ p' * 10 ^ g)))
    (hu : u = j - 1 + p' + g) (e2 : a + (bm + 2) = s + a') (e10 : u + w' = u' + w) :
    4 * (N * 10 ^ w' * 2 ^ bm) < Y * 2 ^ s * 10 ^ u' := by
  have h' : N * 2 ^ a' * 10 ^ w < Y * 2 ^ a * 10 ^ u := by
    calc N * 2 ^ a' * 10 ^ w = N * (2 ^ a' * 10 ^ w) := by ac_rfl
      _ < 10 ^ (j - 1) * (Y * (2 ^ a * 10 ^ p' * 10 ^ g)) := h
      _ = Y * 2 ^ a * 10 ^ u := by rw [hu, Nat.pow_add, Nat.pow_add]; ac_rfl
  have := shift2_lt N Y a' a (bm + 2) s w u w' u' h' (by omega) (by omega)
  calc 4 * (N * 10 ^ w' * 2 ^ bm) = N * 2 ^ (bm + 2) * 10 ^ w' := by rw [Nat.pow_add, show (2 : Nat) ^ 2 = 4 from rfl]; ac_rfl
    _ < Y * 10 ^ u' * 2 ^ s := this
    _ = Y * 2 ^ s * 10 ^ u' := by ac_rfl

theorem fin_le (T V W : Nat) (h1 : 2 * T ≤ V) (h2 : V ≤ 4 * W) : T ≤ 2 * W := by omega
theorem fin_lt (T V W : Nat) (h1 : 2 * T ≤ V) (h2 : V < 4 * W) : T < 2 * W := by omega
theorem fin_ge (T V W : Nat) (h1 : V = 2 * T) (h2 : 4 * W ≤ V) : 2 * W ≤ T := by omega
theorem fin_gt (T V W : Nat) (h1 : V = 2 * T) (h2 : 4 * W < V) : 2 * W < T := by omega

/-- Format bound under which the fuel of the digit loop (2000) and the estimate table
(`estimateOk_1100`) suffice: binary32 (`127 + 23`) and binary64 (`1023 + 52`). -/
def SmallFmt (f : FloatFmt) : Prop := 1 ≤ f.mbits ∧ 2 ≤ f.ebits ∧ f.bias + f.mbits ≤ 1090

theorem funitDen_eq (f : FloatFmt) : funitDen f = 2 ^ (f.bias + f.mbits - 1) := rfl

/-- **Digits of a finite positive pattern round back to it.**  For `0 < b < infBits` the
digits `ds` and exponent `k` of `formatShortest f b` are decimal digits, and the decimal
`0.ds · 10^k = digitsValue ds · 10^(k - len)` is rounded by `roundRat` to `b`. -/
theorem roundtrip_pos (f : FloatFmt) (hf : SmallFmt f) (b : Nat) (hb0 : 0 < b) (hb : b < f.infBits) :
    (formatShortest f b).1 ≠ [] ∧ (∀ d ∈ (formatShortest f b).1, d < 10) ∧
    roundRat f
      (digitsValue 10 (formatShortest f b).1 *
        10 ^ ((formatShortest f b).2 - ((formatShortest f b).1.length : Nat)).toNat)
      (10 ^ ((((formatShortest f b).1.length : Nat) : Int) - (formatShortest f b).2).toNat) = b := by
  obtain ⟨hm, he, hB⟩ := hf
  obtain ⟨mant, plus, s, exp, incl, hdec, hs, -, hlo, hhi, hm2, hpl, hmp, -, hsub, he1, he2⟩ :=
    decode_interval f hm he b hb0 hb
  have hform : formatShortest f b = formatCore mant 1 plus exp incl := by
    rw [formatShortest_eq, hdec]
  have hincl : incl = true → f.expOf b ≠ 0 → b % 2 = 0 := by
    intro hi hE
    apply decode_incl_even f hm b hE
    rw [hdec]; exact hi
  rw [hform]
  -- the estimate
  have hnb : (mant + plus - 1).log2 + 1 ≤ f.mbits + 3 := by
    have : (mant + plus - 1).log2 < f.mbits + 3 := (Nat.log2_lt (by omega)).mpr (by omega)
    omega
  have hest := estimate_first 1100 estimateOk_1100 mant plus exp (by omega) (by omega) (by omega)
  have hk0le : estimateK mant plus exp ≤ 400 := by unfold estimateK; omega
  have hsc : scOf exp (estimateK mant plus exp) < 10 ^ 1999 := by
    unfold scOf
    have h1 : 2 ^ (-exp).toNat ≤ 10 ^ (-exp).toNat := two_le_ten_pow _
    have h2 : 2 ^ (-exp).toNat * 10 ^ (estimateK mant plus exp).toNat ≤
        10 ^ (-exp).toNat * 10 ^ (estimateK mant plus exp).toNat := Nat.mul_le_mul_right _ h1
    rw [← Nat.pow_add] at h2
    have h3 : 10 ^ ((-exp).toNat + (estimateK mant plus exp).toNat) < 10 ^ 1999 :=
      Nat.pow_lt_pow_right (by decide) (by omega)
    omega
  obtain ⟨j, g, j1, g1, ne, dig, kout, lo, hi, strict, early, first⟩ :=
    core_raw mant 1 plus exp incl (by omega) (by omega) hest hsc
  refine ⟨ne, dig, ?_⟩
  unfold cTwo scOf at lo hi strict early first
  generalize formatCore mant 1 plus exp incl = out at *
  generalize estimateK mant plus exp = k0 at *
  generalize hN : digitsValue 10 out.1 = N at *
  -- exponents
  obtain ⟨bm, hbm⟩ : ∃ bm, f.bias + f.mbits - 1 = bm := ⟨_, rfl⟩
  have hbias : 1 ≤ f.bias := (expMax_eq f he).2
  have e2 : exp.toNat + (bm + 2) = s + (-exp).toNat := by omega
  have e10 : (j - 1 + (-k0).toNat + g) + (out.2 - (out.1.length : Nat)).toNat =
      (((out.1.length : Nat) : Int) - out.2).toNat + k0.toNat := by omega
  have hU : funitDen f = 2 ^ bm := by rw [funitDen_eq, hbm]
  generalize (out.2 - (out.1.length : Nat)).toNat = w' at *
  generalize (((out.1.length : Nat) : Int) - out.2).toNat = u' at *
  have hd : 0 < 10 ^ u' := ten_pow_pos _
  have L1 := lower_le (mant - 1) N exp.toNat (-exp).toNat s bm _ k0.toNat u' w' j (-k0).toNat g lo rfl e2 e10
  have U1 := upper_le (mant + plus) N exp.toNat (-exp).toNat s bm _ k0.toNat u' w' j (-k0).toNat g hi rfl e2 e10
  have hlo' := Nat.mul_le_mul_right (10 ^ u') hlo
  have hhi' := congrArg (· * 10 ^ u') hhi
  rw [Nat.mul_assoc 2] at hlo' hhi'
  apply roundRat_of_between f hm he b hb0 hb _ _ hd
  · rw [hU]
    exact fin_le _ _ _ hlo' L1
  · rw [hU]
    exact fin_ge _ _ _ hhi' U1
  · intro hodd
    -- strictness: exclusive mode, or a sub-normal (never a tie)
    have hstrict :
        10 ^ (j - 1) * ((mant - 1) * (2 ^ exp.toNat * 10 ^ (-k0).toNat * 10 ^ g)) <
          N * (2 ^ (-exp).toNat * 10 ^ k0.toNat) ∧
        N * (2 ^ (-exp).toNat * 10 ^ k0.toNat) <
          10 ^ (j - 1) * ((mant + plus) * (2 ^ exp.toNat * 10 ^ (-k0).toNat * 10 ^ g)) := by
      cases hi' : incl with
      | false => exact strict hi'
      | true =>
        have hE : f.expOf b = 0 := by
          apply Classical.byContradiction
          intro hne
          have := hincl hi' hne
          omega
        obtain ⟨hexp, hplus, hmev, -⟩ := hsub hE
        subst hplus
        have ha0 : exp.toNat = 0 := by omega
        have ha' : 1 ≤ (-exp).toNat := by omega
        rw [ha0] at lo hi first early ⊢
        simp only [Nat.pow_zero, Nat.one_mul] at lo hi first early ⊢
        have hearly := early hi'
        constructor
        · apply Nat.lt_of_le_of_ne lo
          intro htie
          exact sub_no_tie mant (-exp).toNat k0.toNat (-k0).toNat g j N (mant - 1) ha' hm2
            (by omega) j1 htie hearly first
        · apply Nat.lt_of_le_of_ne hi
          intro htie
          exact sub_no_tie mant (-exp).toNat k0.toNat (-k0).toNat g j N (mant + 1) ha' hm2
            (by omega) j1 htie.symm hearly first
    have L2 := lower_lt (mant - 1) N exp.toNat (-exp).toNat s bm _ k0.toNat u' w' j (-k0).toNat g
      hstrict.1 rfl e2 e10
    have U2 := upper_lt (mant + plus) N exp.toNat (-exp).toNat s bm _ k0.toNat u' w' j (-k0).toNat g
      hstrict.2 rfl e2 e10
    rw [hU]
    exact ⟨fin_lt _ _ _ hlo' L2, fin_gt _ _ _ hhi' U2⟩

end Dragon
end Scpi
