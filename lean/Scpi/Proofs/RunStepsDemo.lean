/-
A tiny interface for the non-vacuity examples of C02 and C06.

Tree:  `X` (command 0, query 4) · `S:A` (command 1) · `S:B` (command 2) ·
       `*C` (command 3) · `T <string>` (command 5) · `F <u8>` (command 6, the handler
       returns the custom error 1).
The user state is the list of handler numbers in the order in which they ran;
the error handler appends 99.
-/
import Scpi.Exec

namespace Scpi
namespace Demo

def nS : Node := .mk 2 [([65], .mk 3 [] (some 1) none), ([66], .mk 4 [] (some 2) none)] none none

def tree : Node :=
  .mk 0 [([88], .mk 1 [] (some 0) (some 4)), ([83], nS), ([42, 67], .mk 5 [] (some 3) none),
         ([84], .mk 6 [] (some 5) none), ([70], .mk 7 [] (some 6) none)] none none

def push (n : Nat) (tys : List Ty) : Cmd (List Nat) :=
  { argTys := tys, handler := fun s _ => (s ++ [n], .ok .unit) }

def I : Iface (List Nat) :=
  { root := tree
    cmds := [push 0 [], push 1 [], push 2 [], push 3 [],
             { argTys := [], handler := fun s _ => (s ++ [4], .ok (.int 7)) },
             push 5 [.str],
             { argTys := [.u8], handler := fun s _ => (s ++ [6], .error (.custom 1 [])) }]
    onError := fun s _ => s ++ [99] }

def W : Writer := { cap := none }

end Demo
end Scpi
