/-
The command header: `command_program_header` on the rendering of a well-formed
header walks `Node.child` along the mnemonics (C01/C02) and fails with
`UndefinedHeader` exactly when the walk does.
-/
import Scpi.Proofs.RenderComb

namespace Scpi

/-! ### `header_separator` -/

theorem headerSeparator_colon {X : Bytes} (hX : Ends isWs X) : headerSeparator (58 :: X) = .ok X () := by
  have h58 : Ends isWs (58 :: X) := ends_cons (by decide)
  obtain ⟨v1, e1⟩ := optP_whitespace_append (w := []) rfl h58
  obtain ⟨v2, e2⟩ := optP_whitespace_append (w := []) rfl hX
  simp only [List.nil_append] at e1 e2
  simp only [headerSeparator, e1, PResult.bind, tag_cons_self, PResult.mapErr, e2]

/-- No colon after optional white space: the separator fails softly. -/
theorem headerSeparator_soft {w : Bytes} {d : Nat} (r : Bytes) (hw : allWs w = true)
    (hd : isWs d = false) (h58 : d ≠ 58) :
    headerSeparator (w ++ d :: r) = .soft (some (.std .HeaderSeparatorError)) := by
  obtain ⟨v1, e1⟩ := optP_whitespace_append hw (ends_cons (r := r) hd)
  simp only [headerSeparator, e1, PResult.bind, tag_cons_ne r h58, PResult.mapErr,
    ofErr_headerSeparatorError]

theorem headerSeparator_soft_cons {d : Nat} (r : Bytes) (hd : isWs d = false) (h58 : d ≠ 58) :
    headerSeparator (d :: r) = .soft (some (.std .HeaderSeparatorError)) :=
  headerSeparator_soft (w := []) r rfl hd h58

/-! ### `lookup` -/

theorem lookup_valid {α : Type} (node : Node) {name : Bytes} (k : Node → PResult α)
    (h : validUtf8 name = true) :
    lookup node name k = match node.child name with
      | some n => k n
      | none => .fatal (.std .UndefinedHeader) := by
  simp only [lookup, fromUtf8_valid _ h, ofErr_undefinedHeader]
  cases node.child name <;> rfl

/-! ### Mnemonics -/

theorem mnemonicText_head {m : Bytes} (hm : isMnemonicText m = true) :
    ∃ b t, m = b :: t ∧ isAlpha b = true := by
  cases m with
  | nil => cases hm
  | cons b t =>
    simp only [isMnemonicText, Bool.and_eq_true] at hm
    exact ⟨b, t, rfl, hm.1⟩

theorem alpha_not_ws {b : Nat} (h : isAlpha b = true) : isWs b = false := by
  simp [isAlpha] at h; simp [isWs]; omega

theorem alpha_ne {b : Nat} (h : isAlpha b = true) : b ≠ 58 ∧ b ≠ 42 ∧ b ≠ 10 := by
  simp [isAlpha] at h; omega

/-- `:m` for every further mnemonic. -/
def renderColons : List Bytes → Bytes
  | [] => []
  | m :: ms => 58 :: (m ++ renderColons ms)

theorem renderPath_cons (m : Bytes) (ms : List Bytes) :
    renderPath (m :: ms) = m ++ renderColons ms := by
  induction ms generalizing m with
  | nil => simp only [renderPath, renderColons, List.append_nil]
  | cons m' ms ih => simp only [renderPath, renderColons, ih m']

/-- The walk of the loop: from `node` (reached from `header`) along `ms`. -/
def walkFrom : Node → Node → List Bytes → Option (Node × Option Node)
  | node, header, [] => some (node, some header)
  | node, _, m :: ms => (node.child m).bind fun c => walkFrom c node ms

theorem resolveFrom_cons (parent : Node) (m : Bytes) (ms : List Bytes) :
    resolveFrom parent (m :: ms) = (parent.child m).bind fun n => walkFrom n parent ms := by
  induction ms generalizing parent m with
  | nil =>
    simp only [resolveFrom, walkFrom]
    cases parent.child m <;> rfl
  | cons m' ms ih =>
    simp only [resolveFrom]
    cases parent.child m with
    | none => rfl
    | some n => simp only [Option.bind_some, ih n m', walkFrom]

theorem ends_mnemonicTail_colons {ms : List Bytes} {tail : Bytes} (ht : Ends isMnemonicTail tail) :
    Ends isMnemonicTail (renderColons ms ++ tail) := by
  cases ms with
  | nil => exact ht
  | cons m ms => exact ends_cons (by decide)

/-! ### The loop -/

theorem headerLoop_render : ∀ (ms : List Bytes) (fuel : Nat) (node header : Node) (tail : Bytes)
    (e : Option Err), ms.all isMnemonicText = true → Ends isMnemonicTail tail →
    headerSeparator tail = .soft e → (renderColons ms ++ tail).length < fuel →
    headerLoop fuel node header (renderColons ms ++ tail) =
      match walkFrom node header ms with
      | some nh => .ok tail nh
      | none => .fatal (.std .UndefinedHeader) := by
  intro ms
  induction ms with
  | nil =>
    intro fuel node header tail e _ _ hsep hf
    cases fuel with
    | zero => exact absurd hf (Nat.not_lt_zero _)
    | succ fuel => simp only [renderColons, List.nil_append, headerLoop, hsep, walkFrom]
  | cons m ms ih =>
    intro fuel node header tail e hwf ht hsep hf
    simp only [List.all_cons, Bool.and_eq_true] at hwf
    cases fuel with
    | zero => exact absurd hf (Nat.not_lt_zero _)
    | succ fuel =>
      obtain ⟨b0, t0, e0, hb0⟩ := mnemonicText_head hwf.1
      have hX : Ends isWs (m ++ (renderColons ms ++ tail)) := by
        rw [e0]; exact ends_cons (alpha_not_ws hb0)
      have hf' : (renderColons ms ++ tail).length < fuel := by
        simp only [renderColons, List.cons_append, List.append_assoc, List.length_cons,
          List.length_append] at hf ⊢
        omega
      simp only [renderColons, List.cons_append, List.append_assoc]
      rw [headerLoop]
      simp only [headerSeparator_colon hX, mnemonic_append hwf.1 (ends_mnemonicTail_colons ht),
        PResult.bind, lookup_valid _ _ (validUtf8_mnemonic hwf.1), walkFrom]
      cases node.child m with
      | none => rfl
      | some c => simp only [Option.bind_some]; exact ih fuel c node tail e hwf.2 ht hsep hf'

/-! ### The compound header -/

theorem compoundHeader_render (root cur : Node) (a : Bool) {ms : List Bytes} {tail : Bytes}
    {e : Option Err} (hne : ms ≠ []) (hwf : ms.all isMnemonicText = true)
    (ht : Ends isMnemonicTail tail) (hsep : headerSeparator tail = .soft e) :
    compoundHeader root cur ((HdrPath.compound a ms).render ++ tail) =
      match resolveFrom (if a then root else cur) ms with
      | some nh => .ok tail nh
      | none => .fatal (.std .UndefinedHeader) := by
  cases ms with
  | nil => exact absurd rfl hne
  | cons m ms =>
    simp only [List.all_cons, Bool.and_eq_true] at hwf
    obtain ⟨b0, t0, e0, hb0⟩ := mnemonicText_head hwf.1
    have hX : Ends isWs (m ++ (renderColons ms ++ tail)) := by
      rw [e0]; exact ends_cons (alpha_not_ws hb0)
    have hloop := fun (node header : Node) =>
      headerLoop_render ms ((renderColons ms ++ tail).length + 1) node header tail e hwf.2 ht hsep
        (Nat.lt_succ_self _)
    have hopt : optP headerSeparator ((if a then [58] else []) ++ (m ++ (renderColons ms ++ tail)))
        = .ok (m ++ (renderColons ms ++ tail)) (if a then some () else none) := by
      cases a with
      | true =>
        simp only [if_true, List.cons_append, List.nil_append, optP, headerSeparator_colon hX]
      | false =>
        simp only [Bool.false_eq_true, if_false, List.nil_append, optP]
        rw [e0, List.cons_append,
          headerSeparator_soft_cons _ (alpha_not_ws hb0) (alpha_ne hb0).1]
    simp only [HdrPath.render, renderPath_cons, List.append_assoc]
    unfold compoundHeader
    rw [hopt]
    simp only [PResult.bind, mnemonic_append hwf.1 (ends_mnemonicTail_colons ht),
      lookup_valid _ _ (validUtf8_mnemonic hwf.1), resolveFrom_cons]
    have hsome : (if (if a = true then some () else none).isSome = true then root else cur)
        = (if a = true then root else cur) := by cases a <;> rfl
    rw [hsome]
    cases (if a = true then root else cur).child m with
    | none => rfl
    | some n => simp only [Option.bind_some]; exact hloop n _

/-- **The header**: `command_program_header` resolves the rendering of a well-formed
header by `resolve`, and an unresolvable header is `UndefinedHeader`. -/
theorem commandHeader_render (root cur : Node) {p : HdrPath} {tail : Bytes} {e : Option Err}
    (hwf : p.wf = true) (ht : Ends isMnemonicTail tail) (hsep : headerSeparator tail = .soft e) :
    commandHeader root cur (p.render ++ tail) =
      match resolve root cur p with
      | some nh => .ok tail nh
      | none => .fatal (.std .UndefinedHeader) := by
  cases p with
  | compound a ms =>
    simp only [HdrPath.wf, Bool.and_eq_true, Bool.not_eq_true', List.isEmpty_eq_false_iff] at hwf
    have hc := compoundHeader_render root cur a hwf.1 hwf.2 ht hsep
    unfold commandHeader
    rw [hc]
    simp only [resolve]
    cases hr : resolveFrom (if a = true then root else cur) ms with
    | some nh => rfl
    | none =>
      -- the common form fails on a rendering that starts with `:` or a letter
      simp only [PResult.orElse]
      cases ms with
      | nil => exact absurd rfl hwf.1
      | cons m ms =>
        simp only [List.all_cons, Bool.and_eq_true] at hwf
        obtain ⟨b0, t0, e0, hb0⟩ := mnemonicText_head hwf.2.1
        cases a with
        | true =>
          simp only [HdrPath.render, if_true, List.cons_append, List.nil_append, commonHeader,
            tag_cons_ne (t := 42) (b := 58) _ (by decide), PResult.mapErr, ofErr_undefinedHeader,
            PResult.bind]
        | false =>
          simp only [HdrPath.render, Bool.false_eq_true, if_false, List.nil_append,
            renderPath_cons, e0, List.cons_append, commonHeader,
            tag_cons_ne (t := 42) _ (alpha_ne hb0).2.1, PResult.mapErr, ofErr_undefinedHeader,
            PResult.bind]
  | common n =>
    simp only [HdrPath.wf] at hwf
    have h42w : isWs 42 = false := by decide
    have hv : validUtf8 (42 :: n) = true := by
      have := validUtf8_mnemonic hwf
      unfold validUtf8
      simpa using this
    have hc : compoundHeader root cur (42 :: (n ++ tail)) = .soft (some (.std .InvalidCharacter)) := by
      simp only [compoundHeader, optP, headerSeparator_soft_cons _ h42w (by decide), PResult.bind,
        mnemonic_soft _ (show isAlpha 42 = false by decide)]
    simp only [HdrPath.render, List.cons_append, commandHeader, hc, PResult.orElse, commonHeader,
      tag_cons_self, PResult.mapErr, PResult.bind, mnemonic_append hwf ht, lookup_valid _ _ hv,
      resolve]
    cases root.child (42 :: n) <;> rfl

end Scpi
