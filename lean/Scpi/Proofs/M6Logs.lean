/-
C06 at the level of whole messages — what the logging and the tracing wrapper record
for a message, in general (`specExec_logged`, `specExec_traced`) and for a message
with exactly one faulty unit (`FaultAt.logged`, `FaultAt.traced`).
-/
import Scpi.Proofs.M6Fault

namespace Scpi
namespace M6
open Msg

theorem flatMap_errsLog : ∀ (R : List Report),
    R.flatMap errsLog = (R.map (·.1)).filterMap UnitVerdict.error
  | [] => rfl
  | r :: R => by
    rw [List.flatMap_cons, List.map_cons, flatMap_errsLog R, errsLog_eq]
    cases h : r.1.error <;> simp [h]

/-- The logging wrapper on a message: writer and state as without it; the log grows
by the errors of the verdicts, in order. -/
theorem specExec_logged {σ : Type} (I : Iface σ) (us : List MsgUnit) (cur : Node) (w : Writer) (s : σ)
    (l : List Err) :
    specExec I.logged cur us w (s, l) =
      ((specExec I cur us w s).1, ((specExec I cur us w s).2,
        l ++ (verdicts I cur us w s).filterMap UnitVerdict.error)) := by
  have := specExec_instrument I (fun _ _ => ([] : List Err)) (fun e => [e]) us cur w s l
  rw [Iface.logged, this, verdicts, ← flatMap_errsLog]
  rfl

/-- The tracing wrapper on a message: the log grows by the invocation and the error of
each unit reached, in order. -/
theorem specExec_traced {σ : Type} (I : Iface σ) (us : List MsgUnit) (cur : Node) (w : Writer) (s : σ)
    (l : List Ev) :
    specExec I.traced cur us w (s, l) =
      ((specExec I cur us w s).1, ((specExec I cur us w s).2,
        l ++ (reports I cur us w s).flatMap traceLog)) := by
  have := specExec_instrument I (fun id tvs => [Ev.call id tvs]) (fun e => [Ev.error e]) us cur w s l
  rw [Iface.traced, this]
  rfl

theorem error_of_ne_ok {v : UnitVerdict} (h : v ≠ .ok) : ∃ e, v.error = some e := by
  cases v with
  | ok => exact absurd rfl h
  | undefined => exact ⟨_, rfl⟩
  | noSlot => exact ⟨_, rfl⟩
  | arity => exact ⟨_, rfl⟩
  | conversion e => exact ⟨_, rfl⟩
  | handlerError e => exact ⟨_, rfl⟩
  | writeError e => exact ⟨_, rfl⟩

/-- A faulty unit invokes its handler iff the fault is the handler's own or the failure
to write the handler's response. -/
theorem invokes_iff_of_ne_ok {v : UnitVerdict} (h : v ≠ .ok) :
    v.invokes = true ↔ ∃ e, v = .handlerError e ∨ v = .writeError e := by
  cases v with
  | ok => exact absurd rfl h
  | undefined => simp [UnitVerdict.invokes]
  | noSlot => simp [UnitVerdict.invokes]
  | arity => simp [UnitVerdict.invokes]
  | conversion e => simp [UnitVerdict.invokes]
  | handlerError e => simp [UnitVerdict.invokes]
  | writeError e => simp [UnitVerdict.invokes]

theorem execLevel_iff_of_ne_ok {v : UnitVerdict} (h : v ≠ .ok) :
    v.execLevel = true ↔ v ≠ .undefined := by
  cases v <;> simp [UnitVerdict.execLevel] at h ⊢

theorem filterMap_error_replicate_ok (n : Nat) :
    (List.replicate n UnitVerdict.ok).filterMap UnitVerdict.error = [] :=
  List.filterMap_replicate_of_none rfl

theorem traceLog_fault (v : UnitVerdict) (inv : Option (Nat × List TVal)) (e : Err)
    (he : v.error = some e) : traceLog (v, inv) = inv.toList.map callEv ++ [Ev.error e] := by
  unfold traceLog reportLog
  simp only [he, errLog]
  cases inv with
  | none => rfl
  | some c => rfl

section
variable {σ : Type} {I : Iface σ} {cur : Node} {pre : List MsgUnit} {u : MsgUnit}
  {suf : List MsgUnit} {w : Writer} {s : σ} {v : UnitVerdict}

/-- **One fault, one error.** -/
theorem FaultAt.logged (h : FaultAt I cur pre u suf w s v) (l : List Err) :
    ∃ e, v.error = some e ∧
      specExec I.logged cur (pre ++ u :: suf) w (s, l) =
        ((specExec I cur (pre ++ u :: suf) w s).1, ((specExec I cur (pre ++ u :: suf) w s).2,
          l ++ [e])) := by
  obtain ⟨e, he⟩ := error_of_ne_ok h.fault
  refine ⟨e, he, ?_⟩
  rw [specExec_logged, h.verdicts_eq, List.filterMap_append, List.filterMap_cons, he,
    filterMap_error_replicate_ok]
  by_cases hu : v = .undefined
  · simp [hu]
  · simp [hu, filterMap_error_replicate_ok]

/-- The prefix on its own reports nothing. -/
theorem FaultAt.logged_prefix (h : FaultAt I cur pre u suf w s v) (l : List Err) :
    specExec I.logged cur pre w (s, l) =
      ((specExec I cur pre w s).1, ((specExec I cur pre w s).2, l)) := by
  rw [specExec_logged, h.before, filterMap_error_replicate_ok, List.append_nil]

/-- **The trace of a message with one faulty unit.** -/
theorem FaultAt.traced (h : FaultAt I cur pre u suf w s v) :
    ∃ (e : Err) (c : Option (Nat × List TVal)) (cs cs' : List (Nat × List TVal)),
      v.error = some e ∧ c.isSome = v.invokes ∧ cs.length = pre.length ∧
      cs'.length = (if v = .undefined then 0 else suf.length) ∧
      ∀ l : List Ev,
        (specExec I.traced cur pre w (s, l)).2.2 = l ++ cs.map callEv ∧
        (specExec I.traced (pathThrough I.root cur pre) [u] (specExec I cur pre w s).1
            ((specExec I cur pre w s).2, l)).2.2 = l ++ (c.toList.map callEv ++ [Ev.error e]) ∧
        (v ≠ .undefined →
          (specExec I.traced (pathThrough I.root cur (pre ++ [u])) suf
            (specExec I cur (pre ++ [u]) w s).1 ((specExec I cur (pre ++ [u]) w s).2, l)).2.2 =
              l ++ cs'.map callEv) ∧
        (specExec I.traced cur (pre ++ u :: suf) w (s, l)).2.2 =
          l ++ (cs.map callEv ++ (c.toList.map callEv ++ [Ev.error e]) ++ cs'.map callEv) := by
  obtain ⟨e, he⟩ := error_of_ne_ok h.fault
  obtain ⟨inv, hinv, hu1, hall⟩ := h.reports_eq
  obtain ⟨_, cs, hcs, hpre⟩ := logs_all_ok _ (reports_all_ok I pre cur w s _ h.before)
  have hlen : (reports I cur pre w s).length = pre.length := (append_split I pre [] cur w s h.resolves).2.2.2
  by_cases hu : v = .undefined
  · refine ⟨e, inv, cs, [], he, hinv, by rw [hcs, hlen], by simp [hu], fun l => ⟨?_, ?_, ?_, ?_⟩⟩
    · rw [specExec_traced, hpre]
    · rw [specExec_traced, hu1, List.flatMap_cons, List.flatMap_nil, List.append_nil, traceLog_fault v inv e he]
    · intro hne; exact absurd hu hne
    · rw [specExec_traced, hall, if_pos hu, List.flatMap_append, List.flatMap_cons, List.flatMap_nil,
        hpre, traceLog_fault v inv e he]
      simp
  · obtain ⟨_, cs', hcs', hsuf⟩ := logs_all_ok _ (reports_all_ok I suf _ _ _ _ (h.after hu))
    have hlen' : (reports I (pathThrough I.root cur (pre ++ [u])) suf (specExec I cur (pre ++ [u]) w s).1
        (specExec I cur (pre ++ [u]) w s).2).length = suf.length := by
      have := congrArg List.length (h.after hu)
      simpa [verdicts] using this
    refine ⟨e, inv, cs, cs', he, hinv, by rw [hcs, hlen], by rw [if_neg hu, hcs', hlen'],
      fun l => ⟨?_, ?_, ?_, ?_⟩⟩
    · rw [specExec_traced, hpre]
    · rw [specExec_traced, hu1, List.flatMap_cons, List.flatMap_nil, List.append_nil, traceLog_fault v inv e he]
    · intro _; rw [specExec_traced, hsuf]
    · rw [specExec_traced, hall, if_neg hu, List.flatMap_append, List.flatMap_cons, hpre, hsuf,
        traceLog_fault v inv e he]
      simp

end

end M6
end Scpi
