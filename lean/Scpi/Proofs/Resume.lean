/-
Resuming `run_from` (C08, streaming half): when `run_from` stops at an unfinished
unit — the input ended inside a string or block payload — the bytes it returns
together with the header path it reached are all that is needed to continue:
running on the whole input with more bytes appended is running on the returned
rest with those bytes appended, from the returned path, writer and user state.

Every unit before the unfinished one got a final verdict (parser finality, C12), so
it behaves the same with more bytes behind it; after a syntax error the interpreter
skips to the first newline of the remaining input, which exists because the input
ends with one.
-/
import Scpi.Props.C02Isolation

namespace Scpi

theorem afterNewline_of_mem : ∀ (x : Bytes), 10 ∈ x → ∃ r, afterNewline x = some r := by
  intro x
  induction x with
  | nil => intro h; cases h
  | cons b rest ih =>
    intro h
    unfold afterNewline
    by_cases hb : b = 10
    · subst hb; exact ⟨rest, by simp⟩
    · have : 10 ∈ rest := by
        cases h with
        | head => exact absurd rfl hb
        | tail _ h => exact h
      obtain ⟨r, hr⟩ := ih this
      exact ⟨r, by simp [hb, hr]⟩

/-- An input that ends with a newline has a first newline. -/
theorem afterNewline_of_getLast (x : Bytes) (hx : x.getLast? = some 10) :
    ∃ r, afterNewline x = some r :=
  afterNewline_of_mem x (List.mem_of_getLast? hx)

/-- Induction behind `runFrom_resume`. -/
theorem runFrom_resume_aux {σ : Type} (I : Iface σ) :
    ∀ (n : Nat) (h : Node) (x : Bytes) (w : Writer) (s : σ), x.length ≤ n →
    x.getLast? = some 10 → (runFrom I h x w s).rest ≠ [] →
    ∀ y, runFrom I h (x ++ y) w s =
      runFrom I (runFrom I h x w s).header ((runFrom I h x w s).rest ++ y)
        (runFrom I h x w s).w (runFrom I h x w s).s := by
  intro n
  induction n with
  | zero =>
    intro h x w s hl hx _
    have : x = [] := List.eq_nil_of_length_eq_zero (by omega)
    subst this; cases hx
  | succ n ih =>
    intro h x w s hl hx hrest
    have hne : x ≠ [] := by intro h0; subst h0; cases hx
    -- once the first step is known to continue on a proper suffix `i` of `x`
    have cont : ∀ (h' : Node) (i : Bytes) (w' : Writer) (s' : σ), i <:+ x → i.length < x.length →
        (runFrom I h' i w' s').rest ≠ [] →
        ∀ y, runFrom I h' (i ++ y) w' s' =
          runFrom I (runFrom I h' i w' s').header ((runFrom I h' i w' s').rest ++ y)
            (runFrom I h' i w' s').w (runFrom I h' i w' s').s := by
      intro h' i w' s' hsuf hlt hr
      by_cases hi : i = []
      · subst hi
        rw [runFrom_nil] at hr
        exact absurd rfl hr
      · exact ih h' i w' s' (by omega) (suffix_getLast hsuf hi hx) hr
    have hstrict := parse_strict I.root h x
    obtain ⟨r, ha⟩ := afterNewline_of_getLast x hx
    obtain ⟨hasuf, halt⟩ := afterNewline_suffix _ _ ha
    cases hp : parse I.root h x with
    | crash c => exact absurd hp (hstrict.noCrash c)
    | incomplete =>
      have hs := unitStep_incomplete I ⟨h, x, w, s⟩ hp
      intro y
      rw [runFrom_stop hne hs]
    | soft e =>
      have hs := unitStep_soft I ⟨h, x, w, s⟩ e hp
      simp only [ha] at hs
      have hpy : ∀ y, parse I.root h (x ++ y) = .soft e := fun y => by
        rw [parseFinalErr I.root h x y hx (Or.inl ⟨e, hp⟩), hp]
      have hsy : ∀ y, unitStep I ⟨h, x ++ y, w, s⟩ =
          .next ⟨I.root, r ++ y, w, I.onError s (parseErrToErr e)⟩ := fun y => by
        rw [unitStep_soft I ⟨h, x ++ y, w, s⟩ e (hpy y)]
        simp only [afterNewline_append x r y ha]
      rw [runFrom_next hne hs] at hrest ⊢
      intro y
      rw [runFrom_next (by simp [hne]) (hsy y)]
      exact cont I.root r w _ hasuf halt hrest y
    | fatal e =>
      have hs := unitStep_fatal I ⟨h, x, w, s⟩ e hp
      simp only [ha] at hs
      have hpy : ∀ y, parse I.root h (x ++ y) = .fatal e := fun y => by
        rw [parseFinalErr I.root h x y hx (Or.inr ⟨e, hp⟩), hp]
      have hsy : ∀ y, unitStep I ⟨h, x ++ y, w, s⟩ =
          .next ⟨I.root, r ++ y, w, I.onError s e⟩ := fun y => by
        rw [unitStep_fatal I ⟨h, x ++ y, w, s⟩ e (hpy y)]
        simp only [afterNewline_append x r y ha]
      rw [runFrom_next hne hs] at hrest ⊢
      intro y
      rw [runFrom_next (by simp [hne]) (hsy y)]
      exact cont I.root r w _ hasuf halt hrest y
    | ok i oc =>
      have hsuf := hstrict.suffix _ _ hp
      have hlt := hstrict.lt _ _ hp
      cases oc with
      | none =>
        have hs := unitStep_empty_message I ⟨h, x, w, s⟩ i hp
        have hsy : ∀ y, unitStep I ⟨h, x ++ y, w, s⟩ = .next ⟨I.root, i ++ y, w, s⟩ := fun y =>
          unitStep_empty_message I ⟨h, x ++ y, w, s⟩ (i ++ y) (parseFinalOk I.root h x y i none hp)
        rw [runFrom_next hne hs] at hrest ⊢
        intro y
        rw [runFrom_next (by simp [hne]) (hsy y)]
        exact cont I.root i w s hsuf hlt hrest y
      | some call =>
        have hs := unitStep_call I ⟨h, x, w, s⟩ i call hp
        have hsy := fun y => unitStep_call I ⟨h, x ++ y, w, s⟩ (i ++ y) call
          (parseFinalOk I.root h x y i (some call) hp)
        simp only [] at hs hsy
        rw [runFrom_next hne hs] at hrest ⊢
        intro y
        rw [runFrom_next (by simp [hne]) (hsy y)]
        exact cont _ i _ _ hsuf hlt hrest y

/-- **Resuming at an unfinished unit.**  Let `x` end with a newline and let `runFrom`
stop on it with a non-empty rest (the newline lies inside a string or block payload:
the unit under the cursor is `incomplete`).  Then for every continuation `y`, running
on `x ++ y` is running on `rest ++ y` from the header path, writer and user state
returned for `x`. -/
theorem runFrom_resume {σ : Type} (I : Iface σ) (h : Node) (x : Bytes) (w : Writer) (s : σ)
    (hx : x.getLast? = some 10) (hrest : (runFrom I h x w s).rest ≠ []) (y : Bytes) :
    runFrom I h (x ++ y) w s =
      runFrom I (runFrom I h x w s).header ((runFrom I h x w s).rest ++ y)
        (runFrom I h x w s).w (runFrom I h x w s).s :=
  runFrom_resume_aux I _ h x w s (Nat.le_refl _) hx hrest y

/-- **Splitting a run at a newline**, whether the newline ended a message (`rest = []`,
the path is the root again) or lies inside a payload (`rest ≠ []`): running on
`x ++ y` is running on `x`, then on what `x` left unparsed followed by `y`. -/
theorem runFrom_split {σ : Type} (I : Iface σ) (h : Node) (x : Bytes) (w : Writer) (s : σ)
    (hx : x.getLast? = some 10) (y : Bytes) :
    runFrom I h (x ++ y) w s =
      runFrom I (runFrom I h x w s).header ((runFrom I h x w s).rest ++ y)
        (runFrom I h x w s).w (runFrom I h x w s).s := by
  by_cases hrest : (runFrom I h x w s).rest = []
  · obtain ⟨h1, _, h3⟩ := C02.run_append_message_closed I h x w s hx hrest
    rw [h3 y, h1, hrest, List.nil_append]
  · exact runFrom_resume I h x w s hx hrest y

/-- Running again on what was left changes nothing: the unfinished unit is still
unfinished. -/
theorem runFrom_rest_idem {σ : Type} (I : Iface σ) (h : Node) (x : Bytes) (w : Writer) (s : σ)
    (hx : x.getLast? = some 10) :
    runFrom I (runFrom I h x w s).header (runFrom I h x w s).rest
        (runFrom I h x w s).w (runFrom I h x w s).s = runFrom I h x w s := by
  have := runFrom_split I h x w s hx []
  simp only [List.append_nil] at this
  exact this.symm

end Scpi
