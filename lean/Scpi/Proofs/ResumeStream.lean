/-
The stream machine between messages (C06 and C08, streaming halves).

* `feed_pos`: where the machine stands after any bytes — its pending bytes and header
  path — is where one `run_from` over all the bytes stands (resumption at newlines
  inside payloads is harmless, `runFrom_split`).
* `stream_closed`: after a newline-terminated input that `run` consumes entirely and
  that fits in the command buffer the machine is between messages: nothing pending,
  path at the root.
* `foldl_spec_addOut`: the writes performed so far are only ever appended to.
* `stream_junk`: an unfinished message that fills the buffer is forgotten.
-/
import Scpi.Proofs.Resume
import Scpi.Proofs.StreamRuns

namespace Scpi

/-- Where `run_from` stops and the path it reaches do not depend on writer and user state. -/
theorem runFrom_pos_indep {σ : Type} (I : Iface σ) (h : Node) (x : Bytes) (w w' : Writer)
    (s s' : σ) :
    (runFrom I h x w s).rest = (runFrom I h x w' s').rest ∧
    (runFrom I h x w s).header = (runFrom I h x w' s').header :=
  runLoop_rest_indep I _ h x w w' s s'

/-- One byte: the position of `run_from` over pending bytes, the byte and any `z` is the
position over the new pending bytes and `z` from the new path. -/
theorem feed_pos_step {σ : Type} (I : Iface σ) (n : Nat) (st : SpecState σ) (b : Nat) (z : Bytes)
    (w w' : Writer) (s s' : σ) :
    (runFrom I st.header (st.pending ++ b :: z) w s).rest =
      (runFrom I (streamFeed I n st b).header ((streamFeed I n st b).pending ++ z) w' s').rest ∧
    (runFrom I st.header (st.pending ++ b :: z) w s).header =
      (runFrom I (streamFeed I n st b).header ((streamFeed I n st b).pending ++ z) w' s').header := by
  have e : st.pending ++ b :: z = (st.pending ++ [b]) ++ z := by simp
  by_cases hb : b = 10
  · subst hb
    have hsplit := runFrom_split I st.header (st.pending ++ [10]) { cap := some n } st.user
      (by simp) z
    have h1 := runFrom_pos_indep I st.header ((st.pending ++ [10]) ++ z) w { cap := some n } s st.user
    simp only [streamFeed, if_true, streamNewline]
    rw [e, h1.1, h1.2, hsplit]
    exact runFrom_pos_indep I _ _ _ _ _ _
  · simp only [streamFeed, hb, if_false]
    rw [e]
    exact runFrom_pos_indep I _ _ _ _ _ _

/-- **Position invariant of the stream machine** (without the overflow rule): after the
bytes `l` the pending bytes and the header path are such that any continuation `y` is
interpreted as by one `run_from` over everything. -/
theorem feed_pos {σ : Type} (I : Iface σ) (n : Nat) : ∀ (l : Bytes) (st : SpecState σ) (y : Bytes)
    (w w' : Writer) (s s' : σ),
    (runFrom I st.header (st.pending ++ (l ++ y)) w s).rest =
      (runFrom I (l.foldl (streamFeed I n) st).header
        ((l.foldl (streamFeed I n) st).pending ++ y) w' s').rest ∧
    (runFrom I st.header (st.pending ++ (l ++ y)) w s).header =
      (runFrom I (l.foldl (streamFeed I n) st).header
        ((l.foldl (streamFeed I n) st).pending ++ y) w' s').header := by
  intro l
  induction l with
  | nil => intro st y w w' s s'; exact runFrom_pos_indep I _ _ _ _ _ _
  | cons b l ih =>
    intro st y w w' s s'
    have h1 := feed_pos_step I n st b (l ++ y) w w' s s'
    have h2 := ih (streamFeed I n st b) y w' w' s' s'
    simp only [List.cons_append, List.foldl_cons]
    exact ⟨h1.1.trans h2.1, h1.2.trans h2.2⟩

/-- Splitting off the last byte of an input that ends with a newline. -/
theorem eq_append_nl_of_getLast {m : Bytes} (hm : m.getLast? = some 10) : ∃ m', m = m' ++ [10] := by
  rcases List.eq_nil_or_concat m with rfl | ⟨m', b, rfl⟩
  · cases hm
  · rw [List.concat_eq_append] at hm ⊢
    simp only [List.getLast?_append, List.getLast?_singleton, Option.some_or,
      Option.some.injEq] at hm
    subst hm
    exact ⟨m', rfl⟩

/-- The stream machine on an input that fits in the free part of the buffer and whose
last byte is a newline: feed all but the last byte, interpret at the newline. -/
theorem foldl_spec_nl {σ : Type} (I : Iface σ) (n : Nat) (m' : Bytes) (st : SpecState σ)
    (hp : st.pending = []) (hfit : (m' ++ [10]).length ≤ n) :
    (m' ++ [10]).foldl (streamSpec I n) st =
      streamDiscard I n (streamNewline I n
        { m'.foldl (streamFeed I n) st with
          pending := (m'.foldl (streamFeed I n) st).pending ++ [10] }) := by
  simp only [List.length_append, List.length_cons, List.length_nil] at hfit
  rw [foldl_spec_chunk I n (m' ++ [10]) st (by rw [hp]; simp only [List.length_nil]; omega)
    (by rw [hp]; simp only [List.length_nil, List.length_append, List.length_cons]; omega)]
  simp only [List.foldl_append, List.foldl_cons, List.foldl_nil, streamFeed, if_true]

/-- **Between messages again** (without the overflow rule).  Let `m` end with a newline
and be consumed entirely by `run` (with some writer and user state — the position does
not depend on them): a complete message or several, faulty or not, possibly with newlines
inside string or block payloads.  Started between messages the machine is between
messages after `m`: nothing pending, path at the root. -/
theorem feed_closed {σ : Type} (I : Iface σ) (n : Nat) (m : Bytes) (st : SpecState σ)
    (w₀ : Writer) (s₀ : σ)
    (hm : m.getLast? = some 10) (hc : (run I m w₀ s₀).rest = [])
    (hp : st.pending = []) (hh : st.header = I.root) :
    (m.foldl (streamFeed I n) st).pending = [] ∧ (m.foldl (streamFeed I n) st).header = I.root := by
  obtain ⟨m', rfl⟩ := eq_append_nl_of_getLast hm
  have hroot := (C02.run_append_message_closed I I.root (m' ++ [10]) w₀ s₀ hm hc).1
  have hpos := feed_pos I n m' st [10] w₀ { cap := some n } s₀
    (m'.foldl (streamFeed I n) st).user
  rw [hp, hh, List.nil_append] at hpos
  unfold run at hc
  rw [hc] at hpos
  rw [hroot] at hpos
  simp only [List.foldl_append, List.foldl_cons, List.foldl_nil, streamFeed, if_true, streamNewline]
  exact ⟨hpos.1.symm, hpos.2.symm⟩

/-- … and when `m` fits in the command buffer the overflow rule never fires on it. -/
theorem spec_eq_feed_closed {σ : Type} (I : Iface σ) (n : Nat) (m : Bytes) (st : SpecState σ)
    (w₀ : Writer) (s₀ : σ)
    (hm : m.getLast? = some 10) (hfit : m.length ≤ n) (hc : (run I m w₀ s₀).rest = [])
    (hp : st.pending = []) (hh : st.header = I.root) :
    m.foldl (streamSpec I n) st = m.foldl (streamFeed I n) st := by
  have hn : 0 < n := by
    cases m with
    | nil => cases hm
    | cons b t => simp only [List.length_cons] at hfit; omega
  rw [foldl_spec_chunk I n m st (by rw [hp]; exact hn) (by rw [hp]; simpa using hfit)]
  exact streamDiscard_id I n _ (by rw [(feed_closed I n m st w₀ s₀ hm hc hp hh).1]; exact hn)

/-- **Between messages again.**  The same for the machine with the overflow rule, for an
`m` that fits in the `n`-byte command buffer. -/
theorem stream_closed {σ : Type} (I : Iface σ) (n : Nat) (m : Bytes) (st : SpecState σ)
    (w₀ : Writer) (s₀ : σ)
    (hm : m.getLast? = some 10) (hfit : m.length ≤ n) (hc : (run I m w₀ s₀).rest = [])
    (hp : st.pending = []) (hh : st.header = I.root) :
    (m.foldl (streamSpec I n) st).pending = [] ∧ (m.foldl (streamSpec I n) st).header = I.root := by
  rw [spec_eq_feed_closed I n m st w₀ s₀ hm hfit hc hp hh]
  exact feed_closed I n m st w₀ s₀ hm hc hp hh

/-! ### The writes performed so far are only appended to -/

/-- The machine state with `o` put in front of its writes. -/
def SpecState.addOut {σ : Type} (o : List PEv) (st : SpecState σ) : SpecState σ :=
  { st with out := o ++ st.out }

theorem streamFeed_addOut {σ : Type} (I : Iface σ) (n : Nat) (o : List PEv) (st : SpecState σ)
    (b : Nat) : streamFeed I n (st.addOut o) b = (streamFeed I n st b).addOut o := by
  unfold streamFeed
  by_cases hb : b = 10
  · simp only [hb, if_true, streamNewline, SpecState.addOut, List.append_assoc]
  · simp only [hb, if_false, SpecState.addOut]

theorem streamDiscard_addOut {σ : Type} (I : Iface σ) (n : Nat) (o : List PEv) (st : SpecState σ) :
    streamDiscard I n (st.addOut o) = (streamDiscard I n st).addOut o := by
  unfold streamDiscard
  by_cases h : st.pending.length ≥ n
  · rw [if_pos h, if_pos (by exact h)]; rfl
  · rw [if_neg h, if_neg (by exact h)]

theorem streamSpec_addOut {σ : Type} (I : Iface σ) (n : Nat) (o : List PEv) (st : SpecState σ)
    (b : Nat) : streamSpec I n (st.addOut o) b = (streamSpec I n st b).addOut o := by
  unfold streamSpec
  rw [streamFeed_addOut, streamDiscard_addOut]

theorem foldl_spec_addOut {σ : Type} (I : Iface σ) (n : Nat) (o : List PEv) :
    ∀ (l : Bytes) (st : SpecState σ),
    l.foldl (streamSpec I n) (st.addOut o) = (l.foldl (streamSpec I n) st).addOut o := by
  intro l
  induction l with
  | nil => intro st; rfl
  | cons b l ih => intro st; simp only [List.foldl_cons, streamSpec_addOut, ih]

/-! ### Overflow -/

/-- When the pending bytes reach the size of the buffer the machine forgets them and
the header path: what is left is the user state and the writes. -/
theorem streamSpec_overflow {σ : Type} (I : Iface σ) (n : Nat) (st : SpecState σ) (b : Nat)
    (h : n ≤ (streamFeed I n st b).pending.length) :
    streamSpec I n st b =
      ⟨[], I.root, (streamFeed I n st b).user, (streamFeed I n st b).out⟩ := by
  unfold streamSpec streamDiscard
  rw [if_pos h]

/-- Newline-free bytes that fill the buffer are thrown away without any effect. -/
theorem stream_junk {σ : Type} (I : Iface σ) (n : Nat) (j : Bytes) (st : SpecState σ)
    (hj : ∀ b ∈ j, b ≠ 10) (hlen : st.pending.length + j.length = n) (hne : j ≠ []) :
    j.foldl (streamSpec I n) st = ⟨[], I.root, st.user, st.out⟩ := by
  rcases List.eq_nil_or_concat j with rfl | ⟨j', b, rfl⟩
  · exact absurd rfl hne
  · rw [List.concat_eq_append] at hlen hj ⊢
    simp only [List.length_append, List.length_cons, List.length_nil] at hlen
    have hj' : ∀ b ∈ j', b ≠ 10 := fun x hx => hj x (by simp [hx])
    have hb : b ≠ 10 := hj b (by simp)
    obtain ⟨a, _⟩ := foldl_spec_eq_feed I n j' st (by omega)
    rw [List.foldl_append, a, foldl_feed_plain I n j' st hj']
    simp only [List.foldl_cons, List.foldl_nil]
    have hf : streamFeed I n { st with pending := st.pending ++ j' } b =
        { st with pending := st.pending ++ j' ++ [b] } := by
      simp only [streamFeed, hb, if_false]
    rw [streamSpec_overflow I n _ b (by rw [hf]; simp only [List.length_append,
      List.length_cons, List.length_nil]; omega), hf]

end Scpi
