/-
One-step decomposition of the two loops of `process` (Scpi/Process.lean).

`procInner` and `procLoop` are fuelled loops whose bodies are deep `match` chains.
Here each body is restated as a non-recursive step function (`innerStep`,
`outerStep`) that either continues with a new state or finishes, the loops are
shown to be exactly the iteration of these step functions (`procInner_succ`,
`procLoop_succ`, both by unfolding), and two induction principles reduce every
property of the loops to a property of one step.
-/
import Scpi.Process

namespace Scpi
namespace Proc

/-- `if !res_buf.is_empty() { adapter.write(&res_buf)?; adapter.flush()?; res_buf.clear(); }`
on the scripted adapter: `b` is the content of the response buffer. -/
def respWrite {σ : Type} (fault : Option (Nat × Int)) (st : PState σ) (b : Bytes) :
    PState σ × Option PEnd :=
  if b.isEmpty then (st, none)
  else
    match faultAt fault st.calls with
    | some c => (st, some (.transport (.fault c)))
    | none =>
      let st := { st with calls := st.calls + 1, trace := st.trace ++ [PEv.w b] }
      match faultAt fault st.calls with
      | some c => (st, some (.transport (.fault c)))
      | none => ({ st with calls := st.calls + 1, trace := st.trace ++ [PEv.f] }, none)

/-- One iteration of the inner loop: `.inl st'` = go round again, `.inr r` = leave
the loop with result `r`. -/
def innerStep {σ : Type} (I : Iface σ) (n : Nat) (fault : Option (Nat × Int)) (readEnd : Nat)
    (st : PState σ) : PState σ ⊕ (PState σ × Option PEnd) :=
  match slice st.buf st.readOff readEnd with
  | none => .inr (st, some (.crash .sliceOutOfRange))
  | some window =>
    match newlinePos window with
    | none => .inr (st, none)
    | some position =>
      match slice st.buf st.procOff (st.readOff + position + 1) with
      | none => .inr (st, some (.crash .sliceOutOfRange))
      | some data =>
        match (runFrom I st.header data { cap := some n } st.user).crash with
        | some c => .inr ({ st with user := (runFrom I st.header data { cap := some n } st.user).s },
                          some (.crash c))
        | none =>
          match respWrite fault
              { st with header := (runFrom I st.header data { cap := some n } st.user).header,
                        user := (runFrom I st.header data { cap := some n } st.user).s }
              (runFrom I st.header data { cap := some n } st.user).w.buf with
          | (st', some e) => .inr (st', some e)
          | (st', none) =>
            if !(runFrom I st.header data { cap := some n } st.user).rest.isEmpty then
              if (runFrom I st.header data { cap := some n } st.user).rest.length
                  ≤ st'.procOff + data.length then
                .inl { st' with
                  procOff := st'.procOff + data.length
                    - (runFrom I st.header data { cap := some n } st.user).rest.length,
                  readOff := st.readOff + position + 1 }
              else .inr (st', some (.crash .subOverflow))
            else
              .inl { st' with procOff := st.readOff + position + 1,
                              readOff := st.readOff + position + 1 }

theorem procInner_zero {σ : Type} (I : Iface σ) (n : Nat) (fault : Option (Nat × Int))
    (readEnd : Nat) (st : PState σ) :
    procInner I n fault 0 readEnd st = (st, some (.crash .noProgress)) := rfl

/-- The inner loop is the iteration of `innerStep`. -/
theorem procInner_succ {σ : Type} (I : Iface σ) (n : Nat) (fault : Option (Nat × Int))
    (fuel readEnd : Nat) (st : PState σ) :
    procInner I n fault (fuel + 1) readEnd st =
      match innerStep I n fault readEnd st with
      | .inl st' => procInner I n fault fuel readEnd st'
      | .inr r => r := by
  rw [procInner, innerStep]
  cases slice st.buf st.readOff readEnd with
  | none => rfl
  | some window =>
    simp only []
    cases newlinePos window with
    | none => rfl
    | some position =>
      simp only []
      cases slice st.buf st.procOff (st.readOff + position + 1) with
      | none => rfl
      | some data =>
        simp only []
        cases (runFrom I st.header data { cap := some n } st.user).crash with
        | some c => rfl
        | none =>
          simp only []
          unfold respWrite
          cases (runFrom I st.header data { cap := some n } st.user).w.buf.isEmpty with
          | true => simp only [if_true]; (split <;> first | rfl | (split <;> rfl))
          | false =>
            simp only [Bool.false_eq_true, if_false]
            cases faultAt fault st.calls with
            | some c => rfl
            | none =>
              simp only []
              cases faultAt fault (st.calls + 1) with
              | some c => rfl
              | none => simp only []; (split <;> first | rfl | (split <;> rfl))

/-- `return Err(e)` out of `process`. -/
def stopOut {σ : Type} (e : PEnd) (st : PState σ) : POut σ :=
  { trace := st.trace, user := st.user, stop := e, final := st }

/-- Number of bytes the scripted adapter delivers for the read issued in state `st`. -/
def readCount {σ : Type} (n : Nat) (st : PState σ) : Nat :=
  min (match st.sizes with
        | k :: _ => k
        | [] => n - st.readOff) (min (n - st.readOff) st.stream.length)

/-- The state right after a successful `adapter.read(&mut cmd_buf[read_offset..])`. -/
def afterRead {σ : Type} (n : Nat) (st : PState σ) : PState σ :=
  { st with
    buf := st.buf.take st.readOff ++ st.stream.take (readCount n st)
            ++ st.buf.drop (st.readOff + readCount n st),
    stream := st.stream.drop (readCount n st), sizes := st.sizes.drop 1,
    calls := st.calls + 1, trace := st.trace ++ [PEv.r (readCount n st) (n - st.readOff)] }

/-- `if proc_offset > 0 { cmd_buf.copy_within(proc_offset..read_end, 0); read_offset -= proc_offset;
proc_offset = 0; }` -/
def shiftBuf {σ : Type} (readEnd : Nat) (st : PState σ) : Except PEnd (PState σ) :=
  if st.procOff > 0 then
    match slice st.buf st.procOff readEnd with
    | none => .error (.crash .sliceOutOfRange)
    | some pending =>
      if st.procOff ≤ st.readOff then
        .ok { st with buf := pending ++ st.buf.drop pending.length,
                      readOff := st.readOff - st.procOff, procOff := 0 }
      else .error (.crash .subOverflow)
  else .ok st

/-- `if read_offset >= cmd_buf.len() { read_offset = 0; header = self.root_node(); }` -/
def resetFull {σ : Type} (I : Iface σ) (n : Nat) (st : PState σ) : PState σ :=
  if st.readOff ≥ n then { st with readOff := 0, header := I.root } else st

/-- One iteration of the outer loop: `.inl st'` = go round again, `.inr out` = `process`
returns. -/
def outerStep {σ : Type} (I : Iface σ) (n : Nat) (fault : Option (Nat × Int)) (st : PState σ) :
    PState σ ⊕ POut σ :=
  if st.readOff > n then .inr (stopOut (.crash .sliceOutOfRange) st) else
  match faultAt fault st.calls with
  | some c => .inr (stopOut (.transport (.fault c)) st)
  | none =>
    if st.stream.isEmpty ∧ st.sizes.isEmpty then .inr (stopOut (.transport .eos) st) else
    match procInner I n fault (readCount n st + 1) (st.readOff + readCount n st) (afterRead n st) with
    | (st2, some e) => .inr (stopOut e st2)
    | (st2, none) =>
      match shiftBuf (st.readOff + readCount n st) { st2 with readOff := st.readOff + readCount n st } with
      | .error e => .inr (stopOut e { st2 with readOff := st.readOff + readCount n st })
      | .ok st3 => .inl (resetFull I n st3)

theorem procLoop_zero {σ : Type} (I : Iface σ) (n : Nat) (fault : Option (Nat × Int))
    (st : PState σ) : procLoop I n fault 0 st = stopOut (.crash .noProgress) st := rfl

/-- The outer loop is the iteration of `outerStep`. -/
theorem procLoop_succ {σ : Type} (I : Iface σ) (n : Nat) (fault : Option (Nat × Int))
    (fuel : Nat) (st : PState σ) :
    procLoop I n fault (fuel + 1) st =
      match outerStep I n fault st with
      | .inl st' => procLoop I n fault fuel st'
      | .inr out => out := by
  rw [procLoop, outerStep]
  by_cases h1 : st.readOff > n
  · simp only [h1, if_true]; rfl
  · simp only [h1, if_false]
    cases faultAt fault st.calls with
    | some c => rfl
    | none =>
      simp only []
      by_cases h2 : st.stream.isEmpty ∧ st.sizes.isEmpty
      · simp only [h2, and_self, if_true]; rfl
      · simp only [h2, if_false]
        simp only [readCount, afterRead, stopOut]
        generalize procInner I n fault _ _ _ = r
        obtain ⟨st2, e⟩ := r
        cases e with
        | some e => rfl
        | none =>
          simp only [shiftBuf, resetFull]
          generalize (if st2.procOff > 0 then _ else _ : Except PEnd (PState σ)) = sh
          cases sh <;> rfl

theorem procLoop_inl {σ : Type} {I : Iface σ} {n : Nat} {fault : Option (Nat × Int)}
    {fuel : Nat} {st st' : PState σ} (h : outerStep I n fault st = .inl st') :
    procLoop I n fault (fuel + 1) st = procLoop I n fault fuel st' := by
  rw [procLoop_succ, h]

theorem procLoop_inr {σ : Type} {I : Iface σ} {n : Nat} {fault : Option (Nat × Int)}
    {fuel : Nat} {st : PState σ} {out : POut σ} (h : outerStep I n fault st = .inr out) :
    procLoop I n fault (fuel + 1) st = out := by
  rw [procLoop_succ, h]

/-- Induction principle for the inner loop: a fuel-indexed invariant `P` that is preserved by a
continuing step and gives `Q` at every exit gives `Q` for the result of the loop. -/
theorem procInner_induct {σ : Type} (I : Iface σ) (n : Nat) (fault : Option (Nat × Int))
    (readEnd : Nat) (P : Nat → PState σ → Prop) (Q : PState σ × Option PEnd → Prop)
    (h0 : ∀ st, P 0 st → Q (st, some (.crash .noProgress)))
    (hl : ∀ fuel st st', P (fuel + 1) st → innerStep I n fault readEnd st = .inl st' → P fuel st')
    (hr : ∀ fuel st r, P (fuel + 1) st → innerStep I n fault readEnd st = .inr r → Q r) :
    ∀ fuel st, P fuel st → Q (procInner I n fault fuel readEnd st) := by
  intro fuel
  induction fuel with
  | zero => intro st h; exact h0 st h
  | succ k ih =>
    intro st h
    rw [procInner_succ]
    cases hs : innerStep I n fault readEnd st with
    | inl st' => exact ih st' (hl k st st' h hs)
    | inr r => exact hr k st r h hs

/-- Induction principle for the outer loop. -/
theorem procLoop_induct {σ : Type} (I : Iface σ) (n : Nat) (fault : Option (Nat × Int))
    (P : Nat → PState σ → Prop) (Q : POut σ → Prop)
    (h0 : ∀ st, P 0 st → Q (stopOut (.crash .noProgress) st))
    (hl : ∀ fuel st st', P (fuel + 1) st → outerStep I n fault st = .inl st' → P fuel st')
    (hr : ∀ fuel st out, P (fuel + 1) st → outerStep I n fault st = .inr out → Q out) :
    ∀ fuel st, P fuel st → Q (procLoop I n fault fuel st) := by
  intro fuel
  induction fuel with
  | zero => intro st h; exact h0 st h
  | succ k ih =>
    intro st h
    rw [procLoop_succ]
    cases hs : outerStep I n fault st with
    | inl st' => exact ih st' (hl k st st' h hs)
    | inr r => exact hr k st r h hs

/-- The initial state of `process`. -/
def initState {σ : Type} (I : Iface σ) (n : Nat) (sc : Script) (s : σ) : PState σ :=
  { buf := List.replicate n 0, header := I.root, user := s, stream := sc.stream, sizes := sc.sizes }

theorem process_eq {σ : Type} (I : Iface σ) (n : Nat) (sc : Script) (s : σ) :
    process I n sc s =
      procLoop I n sc.fault (sc.sizes.length + sc.stream.length + 1) (initState I n sc s) := rfl

end Proc
end Scpi
