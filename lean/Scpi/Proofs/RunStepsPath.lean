/-
The path rule of compound headers (dispatcher side of C02/T2.1): which node a
header selects and which path it leaves behind, as a walkKeys in the command tree.
-/
import Scpi.Proofs.RunSteps

namespace Scpi

/-- Follow a list of mnemonics down the tree. -/
def walkKeys : Node → List Bytes → Option Node
  | n, [] => some n
  | n, k :: ks => (n.child k).bind fun c => walkKeys c ks

theorem walk_append (n : Node) (ks : List Bytes) (k : Bytes) :
    walkKeys n (ks ++ [k]) = (walkKeys n ks).bind fun p => p.child k := by
  induction ks generalizing n with
  | nil => simp [walkKeys]
  | cons a as ih =>
    simp only [List.cons_append, walkKeys]
    cases n.child a with
    | none => rfl
    | some c => simp only [Option.bind_some]; exact ih c

theorem ofErr_eq_ok_false {α : Type} {e : StdErr} {r : Bytes} {v : α}
    (h : (ofErr e : PResult α) = .ok r v) : False := ofErr_ne_ok h

theorem lookup_eq_ok {α : Type} {node : Node} {name : Bytes} {k : Node → PResult α} {r : Bytes} {v : α}
    (h : lookup node name k = .ok r v) : ∃ n, node.child name = some n ∧ k n = .ok r v := by
  unfold lookup fromUtf8 at h
  split at h
  · simp only [] at h
    split at h
    · next n hn => exact ⟨n, hn, h⟩
    · exact (ofErr_eq_ok_false h).elim
  · exact (ofErr_eq_ok_false h).elim

/-- Invariant of the header loop: having reached `node` from `header` by the
mnemonic `k0`, a successful loop reaches `n` by further mnemonics `ks` and leaves as
path the node reached by all mnemonics but the last. -/
theorem headerLoop_walk : ∀ (fuel : Nat) (node header : Node) (input rest : Bytes) (n : Node)
    (hdr : Option Node) (k0 : Bytes), header.child k0 = some node →
    headerLoop fuel node header input = .ok rest (n, hdr) →
    ∃ ks, walkKeys header (k0 :: ks) = some n ∧ hdr = walkKeys header (k0 :: ks).dropLast ∧ hdr.isSome := by
  intro fuel
  induction fuel with
  | zero => intro _ _ _ _ _ _ _ _ h; cases h
  | succ m ih =>
    intro node header input rest n hdr k0 hk h
    unfold headerLoop at h
    cases hs : headerSeparator input with
    | ok i u =>
      rw [hs] at h
      simp only [] at h
      obtain ⟨i2, res, _, h⟩ := bind_eq_ok h
      obtain ⟨child, hchild, h⟩ := lookup_eq_ok h
      obtain ⟨ks, hw, hh, hsome⟩ := ih child node i2 rest n hdr res hchild h
      refine ⟨res :: ks, ?_, ?_, hsome⟩
      · simp only [walkKeys, hk, Option.bind_some]
        simpa [walkKeys] using hw
      · rw [hh]
        simp [List.dropLast, walkKeys, hk]
    | soft e =>
      rw [hs] at h; cases h
      exact ⟨[], by simp [walkKeys, hk], by simp [walkKeys], rfl⟩
    | fatal e => rw [hs] at h; cases h
    | incomplete => rw [hs] at h; cases h
    | crash c => rw [hs] at h; cases h

/-- **Compound header = a walkKeys**: a compound header that is accepted selects the node
reached from the start node — the root when the header began with a colon, the
current path `h` otherwise — by its mnemonics `names`, and leaves as new path the
node reached by all of them but the last. -/
theorem compoundHeader_walk (root h : Node) (i rest : Bytes) (node : Node) (hdr : Option Node)
    (hc : compoundHeader root h i = .ok rest (node, hdr)) :
    ∃ (i1 : Bytes) (colon : Option Unit) (names : List Bytes),
      optP headerSeparator i = .ok i1 colon ∧ names ≠ [] ∧
      walkKeys (if colon.isSome then root else h) names = some node ∧
      hdr = walkKeys (if colon.isSome then root else h) names.dropLast ∧ hdr.isSome := by
  unfold compoundHeader at hc
  obtain ⟨i1, colon, e1, hc⟩ := bind_eq_ok hc
  simp only [] at hc
  obtain ⟨i2, res, _, hc⟩ := bind_eq_ok hc
  obtain ⟨child, hchild, hc⟩ := lookup_eq_ok hc
  obtain ⟨ks, hw, hh, hsome⟩ := headerLoop_walk _ _ _ _ _ _ _ res hchild hc
  exact ⟨i1, colon, res :: ks, e1, by simp, hw, hh, hsome⟩

/-- The new path is the parent of the selected node: the header without its last mnemonic. -/
theorem compoundHeader_parent (root h : Node) (i rest : Bytes) (node : Node) (hdr : Option Node)
    (hc : compoundHeader root h i = .ok rest (node, hdr)) :
    ∃ p k, hdr = some p ∧ p.child k = some node := by
  obtain ⟨i1, colon, names, _, hne, hw, hh, hsome⟩ := compoundHeader_walk root h i rest node hdr hc
  obtain ⟨init, k, rfl⟩ : ∃ init k, names = init ++ [k] :=
    ⟨names.dropLast, names.getLast hne, (List.dropLast_concat_getLast hne).symm⟩
  rw [List.dropLast_concat] at hh
  rw [walk_append] at hw
  cases hp : walkKeys (if colon.isSome then root else h) init with
  | none => rw [hp] at hw; cases hw
  | some p =>
    rw [hp] at hw hh
    exact ⟨p, k, hh, hw⟩

/-- A common (`*`) header leaves no path: `hdr = none`, and the node is the child
of the ROOT named `*` + mnemonic, whatever the current path. -/
theorem commonHeader_ok (root : Node) (i rest : Bytes) (node : Node) (hdr : Option Node)
    (hc : commonHeader root i = .ok rest (node, hdr)) :
    hdr = none ∧ ∃ name, root.child (42 :: name) = some node := by
  unfold commonHeader at hc
  obtain ⟨i1, star, e1, hc⟩ := bind_eq_ok hc
  obtain ⟨i2, res, _, hc⟩ := bind_eq_ok hc
  obtain ⟨n, hn, hc⟩ := lookup_eq_ok hc
  cases hc
  have hstar : star = 42 := by
    have := mapErr_eq_ok e1
    unfold tag satisfy at this
    cases i with
    | nil => cases this
    | cons b r =>
      simp only [] at this
      split at this
      · next hb => cases this; simpa using hb
      · exact (ofErr_eq_ok_false this).elim
  subst hstar
  exact ⟨rfl, res, hn⟩

/-- **Every accepted header is one of the two kinds.** -/
theorem commandHeader_ok (root h : Node) (i rest : Bytes) (node : Node) (hdr : Option Node)
    (hc : commandHeader root h i = .ok rest (node, hdr)) :
    (compoundHeader root h i = .ok rest (node, hdr) ∧ ∃ p k, hdr = some p ∧ p.child k = some node) ∨
    (commonHeader root i = .ok rest (node, hdr) ∧ hdr = none) := by
  unfold commandHeader at hc
  rcases orElse_eq_ok hc with hc | hc
  · exact Or.inl ⟨hc, compoundHeader_parent root h i rest node hdr hc⟩
  · exact Or.inr ⟨hc, (commonHeader_ok root i rest node hdr hc).1⟩

/-- With a leading colon the compound header does not look at the current path. -/
theorem compoundHeader_absolute (root h h' : Node) (i i1 : Bytes) (u : Unit)
    (hs : optP headerSeparator i = .ok i1 (some u)) :
    compoundHeader root h i = compoundHeader root h' i := by
  unfold compoundHeader
  rw [hs]
  rfl

/-- Without a leading colon the walkKeys starts at the current path `h`. -/
theorem compoundHeader_relative (root h : Node) (i i1 : Bytes)
    (hs : optP headerSeparator i = .ok i1 none) :
    compoundHeader root h i =
      (mnemonic i1).bind fun i2 res =>
        lookup h res fun node => headerLoop (i2.length + 1) node h i2 := by
  unfold compoundHeader
  rw [hs]
  rfl

theorem commandHeader_absolute (root h h' : Node) (i i1 : Bytes) (u : Unit)
    (hs : optP headerSeparator i = .ok i1 (some u)) :
    commandHeader root h i = commandHeader root h' i := by
  unfold commandHeader
  rw [compoundHeader_absolute root h h' i i1 u hs]

/-! ### The header inside `parse` -/

theorem parseTail_call {nh : Node × Option Node} {q : Bool} {i6 r : Bytes} {args : List Value}
    {oc : Option CommandCall} (h : parseTail nh q i6 args = .ok r oc) :
    ∃ call, oc = some call ∧ call.node = nh.1 ∧ call.header = nh.2 ∧ call.query = q := by
  unfold parseTail at h
  obtain ⟨i7, _, _, h⟩ := bind_eq_ok h
  obtain ⟨i8, t, _, h⟩ := bind_eq_ok h
  cases h
  exact ⟨_, rfl, rfl, rfl, rfl⟩

theorem parseAfterHeader_call {nh : Node × Option Node} {i3 r : Bytes} {oc : Option CommandCall}
    (h : parseAfterHeader nh i3 = .ok r oc) :
    ∃ call, oc = some call ∧ call.node = nh.1 ∧ call.header = nh.2 := by
  unfold parseAfterHeader at h
  split at h
  · unfold parseArgs at h
    simp only [if_true] at h
    split at h
    · obtain ⟨c, a, b, d, _⟩ := parseTail_call h; exact ⟨c, a, b, d⟩
    · obtain ⟨c, a, b, d, _⟩ := parseTail_call h; exact ⟨c, a, b, d⟩
    · cases h
    · cases h
    · cases h
  · unfold parseArgs at h
    simp only [Bool.false_eq_true, if_false] at h
    obtain ⟨c, a, b, d, _⟩ := parseTail_call h; exact ⟨c, a, b, d⟩
  · cases h
  · cases h
  · cases h

/-- **The node and the path of an accepted unit come from its header**: the text
`i2` that follows the leading white space is recognised by `commandHeader`. -/
theorem parse_call_header (root h : Node) (input r : Bytes) (call : CommandCall)
    (hp : parse root h input = .ok r (some call)) :
    ∃ i2 i3, i2 <:+ input ∧ commandHeader root h i2 = .ok i3 (call.node, call.header) := by
  unfold parse at hp
  obtain ⟨i1, _, e1, hp⟩ := bind_eq_ok hp
  obtain ⟨i2, t, e2, hp⟩ := bind_eq_ok hp
  have s1 := (good_optP good_whitespace input).suffix _ _ e1
  have s2 := (good_optP (good_tag 10) i1).suffix _ _ e2
  split at hp
  · cases hp
  · obtain ⟨i3, nh, e3, hp⟩ := bind_eq_ok hp
    obtain ⟨c, hc, hn, hh⟩ := parseAfterHeader_call hp
    cases hc
    refine ⟨i2, i3, s2.trans s1, ?_⟩
    rw [e3, hn, hh]

/-- `parse` looks at the current path only through `commandHeader`. -/
theorem parse_congr_path (root h h' : Node) (input : Bytes)
    (hc : ∀ i2, i2 <:+ input → commandHeader root h i2 = commandHeader root h' i2) :
    parse root h input = parse root h' input := by
  unfold parse
  cases e1 : optP whitespace input with
  | ok i1 v1 =>
    simp only [PResult.bind]
    cases e2 : optP (tag 10) i1 with
    | ok i2 t =>
      simp only []
      have s1 := (good_optP good_whitespace input).suffix _ _ e1
      have s2 := (good_optP (good_tag 10) i1).suffix _ _ e2
      rw [hc i2 (s2.trans s1)]
    | _ => rfl
  | _ => rfl

/-- **A unit whose header begins with a colon is parsed the same from every path.**
`i2` is the unit after its leading white space (`i1`) — not a bare terminator. -/
theorem parse_absolute (root h h' : Node) (input i1 i2 i3 : Bytes) (v : Option Bytes) (t : Option Nat)
    (u : Unit) (e1 : optP whitespace input = .ok i1 v) (e2 : optP (tag 10) i1 = .ok i2 t)
    (hs : optP headerSeparator i2 = .ok i3 (some u)) :
    parse root h input = parse root h' input := by
  unfold parse
  rw [e1]
  simp only [PResult.bind]
  rw [e2]
  simp only []
  rw [commandHeader_absolute root h h' i2 i3 u hs]

end Scpi
