/-
Rendered messages whose payloads may contain newlines, as a `Scpi.C08.Session`.

`specSession` is the meaning of a sequence of messages on ONE response writer (the
comparison object of `Scpi.C08.process_payload_messages`): `specExec` message by message
from the root.  `run_session_render`: `run` on the concatenated renderings computes it.
`session_render`: the renderings form a `Session` when each fits the command buffer and
each response is at most `n` bytes (`RespFits`, stated on `specExec`).
-/
import Scpi.Props.RunRender
import Scpi.Props.C08Process

namespace Scpi
namespace Combo
open Msg

/-- **The meaning of a sequence of messages on one writer**: `specExec` from the root,
message by message, threading the writer and the user state. -/
def specSession {σ : Type} (I : Iface σ) : List (List MsgUnit) → Writer → σ → Writer × σ
  | [], w, s => (w, s)
  | us :: rest, w, s =>
    specSession I rest (specExec I I.root us w s).1 (specExec I I.root us w s).2

/-- Every message adds at most `n` bytes to the writer (along `specSession`). -/
def RespFits {σ : Type} (I : Iface σ) (n : Nat) : List (List MsgUnit) → Writer → σ → Prop
  | [], _, _ => True
  | us :: rest, W, s =>
    (specExec I I.root us W s).1.buf.length ≤ W.buf.length + n ∧
    RespFits I n rest (specExec I I.root us W s).1 (specExec I I.root us W s).2

/-- The hypotheses on one message that may carry newlines in payloads: non-empty,
well-formed, `dropSafe` from the root (if a header does not resolve, that unit and the
later ones have no newline in a payload — in particular: every header resolves), and
the rendering fits the `n`-byte command buffer. -/
structure Renderable (root : Node) (n : Nat) (m : List (MsgUnit × Lex)) : Prop where
  ne : m ≠ []
  wf : wfMsg m = true
  safe : dropSafe root root (units m) = true
  fits : (renderMsg m).length ≤ n

/-- A rendered message ends with the newline. -/
theorem renderMsg_getLast : ∀ {m : List (MsgUnit × Lex)}, m ≠ [] → (renderMsg m).getLast? = some 10
  | [], h => absurd rfl h
  | [(u, ℓ)], _ => by
    have := render_eq_body u ℓ .nl []
    rw [List.append_nil] at this
    simp only [renderMsg, this, Term.byte, List.getLast?_append, List.getLast?_singleton,
      Option.some_or]
  | (u, ℓ) :: p :: m, _ => by
    have ih := renderMsg_getLast (m := p :: m) (by simp)
    simp only [renderMsg] at ih ⊢
    rw [List.getLast?_append, ih, Option.some_or]

/-- **`run` on the concatenated renderings is `specSession`.** -/
theorem run_session_render {σ : Type} (I : Iface σ) (n : Nat) :
    ∀ (ms : List (List (MsgUnit × Lex))) (w : Writer) (s : σ),
    (∀ m ∈ ms, Renderable I.root n m) →
    run I (ms.map renderMsg).flatten w s = finished I (specSession I (ms.map units) w s)
  | [], w, s, _ => by
    simp only [List.map_nil, List.flatten_nil, run, runFrom_nil, specSession, finished]
  | m :: ms, w, s, h => by
    have hm := h m List.mem_cons_self
    simp only [List.map_cons, List.flatten_cons, specSession]
    unfold run
    rw [run_render I m I.root _ w s hm.ne hm.wf hm.safe]
    exact run_session_render I n ms _ _ fun x hx => h x (List.mem_cons_of_mem _ hx)

/-- The renderings form a session in the sense of `Scpi.C08.Session`. -/
theorem session_render {σ : Type} (I : Iface σ) (n : Nat) :
    ∀ (ms : List (List (MsgUnit × Lex))) (W : Writer) (s : σ),
    (∀ m ∈ ms, Renderable I.root n m) → RespFits I n (ms.map units) W s →
    C08.Session I n (ms.map renderMsg) W s
  | [], _, _, _, _ => trivial
  | m :: ms, W, s, h, hr => by
    have hm := h m List.mem_cons_self
    have e := run_render_run I m W s hm.ne hm.wf hm.safe
    simp only [List.map_cons, C08.Session, e]
    exact ⟨renderMsg_getLast hm.ne, hm.fits, trivial, hr.1,
      session_render I n ms _ _ (fun x hx => h x (List.mem_cons_of_mem _ hx)) hr.2⟩

/-- A session of `I` is a session of the tracing wrapper, whatever has been logged. -/
theorem session_traced {σ : Type} (I : Iface σ) (n : Nat) :
    ∀ (msgs : List Bytes) (W : Writer) (s : σ) (l : List Ev),
    C08.Session I n msgs W s → C08.Session I.traced n msgs W (s, l)
  | [], _, _, _, _ => trivial
  | m :: msgs, W, s, l, h => by
    have e : run I.traced m W (s, l) = (run I m W s).withLog (l ++ runLog I _ _ I.root m W s) :=
      runFrom_instrument I _ _ I.root m W s l
    obtain ⟨h1, h2, h3, h4, h5⟩ := h
    simp only [C08.Session, e]
    exact ⟨h1, h2, h3, h4, session_traced I n msgs _ _ _ h5⟩

end Combo
end Scpi
